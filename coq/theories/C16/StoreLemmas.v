(* C16 proofs, layer 1: the sorted (level, key) store seen level by level.
   [nodes_at st L] (the nodes of level L in key order) is a sorted association list; Get / Set on the store are
   [al_get] / [al_set] on the view of that level and leave the other levels alone; root() is the last entry. *)
From Coq Require Import ZArith List Bool Lia Sorted.
Import ListNotations.
From Osmo Require Import C16.Model C16.Spec C16.Statement C16.Keys C16.Assoc.

Lemma sorted_store_cons_inv : forall e st, sorted_store (e :: st) ->
  sorted_store st /\ Forall (fun e' => skey_lt (fst e) (fst e')) st.
Proof. intros e st H; inversion H; auto. Qed.

Lemma level_keys_nodes_at : forall st L, level_keys st L = akeys (nodes_at st L).
Proof. intros; unfold level_keys, nodes_at, akeys. rewrite map_map; auto. Qed.

Lemma nodes_at_cons : forall l k n st L,
  nodes_at (((l, k), n) :: st) L = if Nat.eqb l L then (k, n) :: nodes_at st L else nodes_at st L.
Proof. intros; unfold nodes_at; simpl. destruct (Nat.eqb l L); auto. Qed.

(* above the first entry's level there is nothing below it *)
Lemma nodes_at_below_nil : forall st L,
  sorted_store st -> (forall e, In e st -> (L < fst (fst e))%nat) -> nodes_at st L = [].
Proof.
  induction st as [|[[l k] n] st IH]; intros L Hs Hall; auto.
  rewrite nodes_at_cons. destruct (Nat.eqb_spec l L).
  - specialize (Hall _ (or_introl eq_refl)); simpl in Hall; lia.
  - apply IH; [apply sorted_store_cons_inv in Hs; tauto | intros; apply Hall; right; auto].
Qed.

Lemma sorted_levels_ge : forall l k n st e, sorted_store (((l, k), n) :: st) -> In e st -> (l <= fst (fst e))%nat.
Proof.
  intros l k n st e Hs Hin. apply sorted_store_cons_inv in Hs; destruct Hs as [_ Hf].
  eapply Forall_forall in Hf; eauto. apply skey_cmp_lt_level in Hf; auto.
Qed.

Lemma nodes_at_set_same : forall st L k n, sorted_store st ->
  nodes_at (st_set st (L, k) n) L = al_set (nodes_at st L) k n.
Proof.
  induction st as [|[[l k'] n'] st IH]; intros L k n Hs.
  - simpl. rewrite nodes_at_cons, Nat.eqb_refl; auto.
  - cbn [st_set]. unfold skey_cmp; cbn [fst snd].
    destruct (Nat.compare_spec L l) as [E|Hlt|Hgt].
    + subst l. rewrite (nodes_at_cons _ k' n' st), Nat.eqb_refl. cbn [al_set].
      destruct (key_cmp k k') eqn:Ek.
      * rewrite nodes_at_cons, Nat.eqb_refl; auto.
      * rewrite !nodes_at_cons, !Nat.eqb_refl; auto.
      * rewrite nodes_at_cons, Nat.eqb_refl. f_equal. apply IH. apply sorted_store_cons_inv in Hs; tauto.
    + match type of Hs with sorted_store ?s => assert (nodes_at s L = []) as Hnil end.
      { apply nodes_at_below_nil; auto.
        intros e [<-|Hin]; simpl; auto. pose proof (sorted_levels_ge _ _ _ _ _ Hs Hin) as Hge. eapply Nat.lt_le_trans; eauto. }
      rewrite (nodes_at_cons L k n), Nat.eqb_refl, Hnil. reflexivity.
    + rewrite !nodes_at_cons. destruct (Nat.eqb_spec l L); [lia|].
      apply IH. apply sorted_store_cons_inv in Hs; tauto.
Qed.

Lemma nodes_at_set_other : forall st L k n L', L' <> L ->
  nodes_at (st_set st (L, k) n) L' = nodes_at st L'.
Proof.
  induction st as [|[[l k'] n'] st IH]; intros L k n L' Hne.
  - simpl. rewrite nodes_at_cons. destruct (Nat.eqb_spec L L'); [congruence|auto].
  - cbn [st_set]. destruct (skey_cmp (L, k) (l, k')) eqn:E.
    + apply skey_cmp_eq in E; inversion E; subst.
      rewrite !nodes_at_cons. destruct (Nat.eqb_spec l L'); [congruence|auto].
    + rewrite (nodes_at_cons L k n). destruct (Nat.eqb_spec L L'); [congruence|auto].
    + rewrite !nodes_at_cons. destruct (Nat.eqb l L'); [f_equal|]; apply IH; auto.
Qed.

Lemma st_set_keys : forall st sk n e, In e (st_set st sk n) -> fst e = sk \/ In e st.
Proof.
  induction st as [|[k' n'] st IH]; simpl; intros sk n e H.
  - destruct H as [<-|[]]; auto.
  - destruct (skey_cmp sk k') eqn:E; simpl in H.
    + destruct H as [<-|H]; auto.
    + destruct H as [<-|H]; auto.
    + destruct H as [<-|H]; auto. apply IH in H; tauto.
Qed.

Lemma st_set_sorted : forall st sk n, sorted_store st -> sorted_store (st_set st sk n).
Proof.
  induction st as [|[k' n'] st IH]; simpl; intros sk n Hs.
  - repeat constructor.
  - destruct (sorted_store_cons_inv _ _ Hs) as [Hs' Hf].
    destruct (skey_cmp sk k') eqn:E.
    + apply skey_cmp_eq in E; subst. constructor; auto.
    + constructor; auto. constructor; auto.
      eapply Forall_impl; [|exact Hf]. intros a Ha; unfold skey_lt in *; simpl in *. eapply skey_cmp_lt_trans; eauto.
    + constructor; [apply IH; auto|]. apply Forall_forall; intros e He. apply st_set_keys in He. destruct He as [->|He].
      * unfold skey_lt; simpl. rewrite skey_cmp_antisym, E; auto.
      * eapply Forall_forall in Hf; eauto.
Qed.

Lemma nodes_at_sorted : forall st L, sorted_store st -> asorted (nodes_at st L).
Proof.
  induction st as [|[[l k] n] st IH]; intros L Hs.
  - constructor.
  - destruct (sorted_store_cons_inv _ _ Hs) as [Hs' Hf].
    rewrite nodes_at_cons. destruct (Nat.eqb_spec l L); auto. subst.
    unfold asorted; simpl. constructor; [apply IH; auto|].
    apply Forall_forall; intros x Hx. unfold akeys, nodes_at in Hx.
    rewrite map_map in Hx. apply in_map_iff in Hx. destruct Hx as ([[l' k''] n''] & <- & Hin).
    apply filter_In in Hin. destruct Hin as [Hin Hl]. simpl in Hl. apply Nat.eqb_eq in Hl; subst.
    eapply Forall_forall in Hf; eauto. unfold skey_lt in Hf; simpl in Hf.
    rewrite skey_cmp_same_level in Hf; auto.
Qed.

Lemma st_get_nodes_at : forall st L k, sorted_store st -> st_get st (L, k) = al_get (nodes_at st L) k.
Proof.
  induction st as [|[[l k'] n'] st IH]; intros L k Hs; auto.
  cbn [st_get]. unfold skey_cmp; cbn [fst snd]. rewrite nodes_at_cons.
  destruct (Nat.compare_spec L l) as [E|Hlt|Hgt].
  - subst. rewrite Nat.eqb_refl. cbn [al_get]. destruct (key_cmp k k'); auto.
    apply IH. apply sorted_store_cons_inv in Hs; tauto.
  - destruct (Nat.eqb_spec l L); [lia|].
    rewrite (nodes_at_below_nil st L); auto.
    + apply sorted_store_cons_inv in Hs; tauto.
    + intros e Hin. pose proof (sorted_levels_ge _ _ _ _ _ Hs Hin) as Hge. eapply Nat.lt_le_trans; eauto.
  - destruct (Nat.eqb_spec l L); [lia|]. apply IH. apply sorted_store_cons_inv in Hs; tauto.
Qed.

Lemma st_has_nodes_at : forall st L k, sorted_store st ->
  st_has st (L, k) = match al_get (nodes_at st L) k with Some _ => true | None => false end.
Proof. intros; unfold st_has; rewrite st_get_nodes_at; auto. Qed.

(* membership of an entry *)
Lemma nodes_at_in : forall st L k n, In (k, n) (nodes_at st L) <-> In ((L, k), n) st.
Proof.
  intros; unfold nodes_at. rewrite in_map_iff. split.
  - intros ([[l k'] n'] & E & Hin). apply filter_In in Hin. destruct Hin as [Hin Hl].
    simpl in *. apply Nat.eqb_eq in Hl. inversion E; subst; auto.
  - intros Hin. exists ((L, k), n). split; auto. apply filter_In; split; auto. simpl; apply Nat.eqb_refl.
Qed.

(* root(): the last entry *)
Lemma last_entry_app : forall st e, last_entry (st ++ [e]) = Some (fst e).
Proof.
  induction st as [|a st IH]; intros [k n]; simpl; auto.
  destruct a as [ka na]. specialize (IH (k, n)). destruct (st ++ [(k, n)]) eqn:E.
  - destruct st; discriminate.
  - exact IH.
Qed.

Lemma last_entry_max : forall st sk, sorted_store st -> last_entry st = Some sk ->
  (exists n, In (sk, n) st) /\ forall e, In e st -> fst e = sk \/ skey_lt (fst e) sk.
Proof.
  induction st as [|[k n] st IH]; intros sk Hs Hl; [discriminate|].
  destruct (sorted_store_cons_inv _ _ Hs) as [Hs' Hf].
  destruct st as [|e' st'].
  - simpl in Hl. inversion Hl; subst. split; [exists n; simpl; auto|]. intros e [<-|[]]; auto.
  - assert (last_entry (e' :: st') = Some sk) as Hl' by (destruct e'; exact Hl).
    destruct (IH sk Hs' Hl') as [[n0 Hin] Hmax]. split; [exists n0; right; auto|].
    intros e [<-|He]; auto. right; simpl.
    eapply Forall_forall in Hf; [|exact Hin]. exact Hf.
Qed.
