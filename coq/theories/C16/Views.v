(* C16 proofs, layer 1b: ptr.exists / ptr.node / ptr.parent / Tree.root and the Node methods find / insert / setAcc
   in terms of the sorted views. *)
From Coq Require Import ZArith List Bool Lia Sorted.
Import ListNotations.
From Osmo Require Import C16.Model C16.Spec C16.Statement C16.Keys C16.Assoc C16.StoreLemmas.

Definition nil_ok (p : ptr) : Prop := p_nil p = true -> p_key p = [].

Lemma exists_in : forall st p, sorted_store st ->
  In (p_key p) (akeys (nodes_at st (p_level p))) -> exists_ st p = true.
Proof.
  intros st [L k b] Hs Hin; unfold exists_, p_skey; simpl in *. rewrite st_has_nodes_at; auto.
  unfold akeys in Hin. apply in_map_iff in Hin. destruct Hin as ([k' n] & E & Hin); simpl in E; subst.
  rewrite (al_in_get _ _ _ (nodes_at_sorted st L Hs) Hin); auto.
Qed.
Lemma exists_not_in : forall st p, sorted_store st ->
  ~ In (p_key p) (akeys (nodes_at st (p_level p))) -> exists_ st p = false.
Proof.
  intros st [L k b] Hs Hin; unfold exists_, p_skey; simpl in *. rewrite st_has_nodes_at; auto.
  rewrite al_get_none; auto. apply nodes_at_sorted; auto.
Qed.
Lemma node_of_in : forall st L k b n, sorted_store st -> In (k, n) (nodes_at st L) -> node_of st (mkPtr L k b) = n.
Proof.
  intros; unfold node_of, p_skey; simpl. rewrite st_get_nodes_at; auto.
  rewrite (al_in_get _ _ _ (nodes_at_sorted st L H) H0); auto.
Qed.

(* the reverse iterator of leftSibling *)
Lemma last_lt_spec : forall a x b k acc,
  (forall y, In y a -> klt y k) -> klt x k -> (forall y, In y b -> klt k y) ->
  last_lt (a ++ x :: b) (Some k) acc = Some x.
Proof.
  induction a as [|y a IH]; simpl; intros x b k acc Ha Hx Hb.
  - replace (key_ltb x k) with true by (symmetry; apply key_ltb_true; auto).
    destruct b as [|z b]; simpl; auto.
    replace (key_ltb z k) with false; auto. symmetry; apply key_ltb_false. apply klt_kle. apply Hb; simpl; auto.
  - replace (key_ltb y k) with true by (symmetry; apply key_ltb_true; apply Ha; auto).
    apply IH; auto.
Qed.

(* ptr.parent(): the node of the level above whose key is the greatest one <= the ptr's key *)
Lemma parent_of_floor : forall st p n0 r,
  sorted_store st -> nil_ok p ->
  nodes_at st (S (p_level p)) = ([], n0) :: r ->
  exists l1 k' n' l2 b',
    nodes_at st (S (p_level p)) = l1 ++ (k', n') :: l2 /\
    kle k' (p_key p) /\ (forall y, In y (akeys l2) -> klt (p_key p) y) /\
    parent_of st p = mkPtr (S (p_level p)) k' b' /\ (b' = true -> k' = []).
Proof.
  intros st [J k b] n0 r Hs Hnil Hlv; simpl in *.
  pose proof (nodes_at_sorted st (S J) Hs) as Hsorted.
  destruct (floor_split (nodes_at st (S J)) k Hsorted) as (l1 & k' & n' & l2 & El & Hle & Hl2).
  { exists [], n0, r; split; [auto | apply kle_nil]. }
  exists l1, k', n', l2.
  assert (In k' (akeys (nodes_at st (S J)))) as Hk'in.
  { rewrite El, akeys_app; apply in_or_app; right; simpl; auto. }
  rewrite El in Hsorted. destruct (asorted_app _ _ Hsorted) as (Hs1 & Hs2 & H12).
  unfold parent_of, ptr_get; simpl.
  destruct (key_eqb k' k) eqn:Ek.
  - apply key_eqb_true in Ek; subst k'. exists b.
    rewrite (exists_in st (mkPtr (S J) k b)); [|auto|auto]. repeat split; auto.
  - apply key_eqb_false in Ek.
    assert (klt k' k) as Hlt. { apply kle_cases in Hle; destruct Hle; [congruence|auto]. }
    assert (~ In k (akeys (nodes_at st (S J)))) as Hnot.
    { rewrite El, akeys_app. intros Hin. apply in_app_or in Hin. destruct Hin as [Hin|[Hin|Hin]].
      - specialize (H12 k k' Hin (or_introl eq_refl)). eapply klt_irrefl. eapply klt_trans; eauto.
      - simpl in Hin; congruence.
      - apply Hl2 in Hin. eapply klt_irrefl; eauto. }
    rewrite (exists_not_in st (mkPtr (S J) k b)); auto.
    assert (b = false) as ->.
    { destruct b; auto. exfalso. specialize (Hnil eq_refl); simpl in Hnil; subst k.
      apply Hnot. rewrite Hlv; simpl; auto. }
    unfold left_sibling; simpl. rewrite level_keys_nodes_at, El, akeys_app. simpl.
    rewrite last_lt_spec; auto.
    + exists false. simpl. rewrite (exists_in st (mkPtr (S J) k' false)); auto.
      repeat split; auto. discriminate.
    + intros y Hy. eapply klt_trans; [apply (H12 y k'); simpl; auto|auto].
Qed.

Lemma parent_of_empty_level : forall st p, nodes_at st (S (p_level p)) = [] ->
  parent_of st p = mkPtr (S (p_level p)) [] true /\ exists_ st (parent_of st p) = false.
Proof.
  intros st [J k b] Hlv; simpl in *.
  assert (forall q, p_level q = S J -> exists_ st q = false) as Hno.
  { intros [L kq bq] E; simpl in E; subst. unfold exists_, st_has, p_skey; simpl.
    destruct (st_get st (S J, kq)) as [n|] eqn:G; auto. exfalso.
    assert (In ((S J, kq), n) st) as Hin.
    { clear -G. induction st as [|[sk n'] st IH]; simpl in G; [discriminate|].
      destruct (skey_cmp (S J, kq) sk) eqn:E; try discriminate.
      - apply skey_cmp_eq in E; subst. inversion G; subst; left; auto.
      - right; auto. }
    apply nodes_at_in in Hin. rewrite Hlv in Hin; destruct Hin. }
  unfold parent_of, ptr_get; simpl. rewrite (Hno (mkPtr (S J) k b)); auto.
  unfold left_sibling; simpl. rewrite level_keys_nodes_at, Hlv; simpl. split; auto.
Qed.

Lemma last_entry_some : forall st e, In e st -> exists sk, last_entry st = Some sk.
Proof.
  induction st as [|[k n] st IH]; intros e Hin; [destruct Hin|].
  destruct st as [|e' st']; [eexists; reflexivity|].
  destruct (IH e' (or_introl eq_refl)) as (sk & E). exists sk. destruct e'; exact E.
Qed.

Lemma root_top : forall st H, sorted_store st ->
  level_keys st H = [[]] -> (forall L, (H < L)%nat -> nodes_at st L = []) ->
  root st = Some (mkPtr H [] false).
Proof.
  intros st H Hs Htop Habove.
  rewrite level_keys_nodes_at in Htop.
  destruct (nodes_at st H) as [|[k0 n0] r] eqn:Elv; [discriminate|].
  simpl in Htop. inversion Htop; subst. destruct r; [|discriminate].
  assert (In ((H, []), n0) st) as Hin0 by (apply nodes_at_in; rewrite Elv; simpl; auto).
  destruct (last_entry_some _ _ Hin0) as ([l k] & El).
  destruct (last_entry_max st (l, k) Hs El) as [[n Hin] Hmax].
  assert (l <= H)%nat as Hle.
  { destruct (Nat.le_gt_cases l H); auto. apply nodes_at_in in Hin. rewrite Habove in Hin; [destruct Hin|auto]. }
  destruct (Hmax _ Hin0) as [E|Hlt].
  - simpl in E; inversion E; subst. unfold root; rewrite El; auto.
  - apply skey_cmp_lt_level in Hlt; simpl in Hlt. assert (l = H) by lia; subst.
    apply nodes_at_in in Hin. rewrite Elv in Hin. destruct Hin as [E|[]]. inversion E; subst.
    unfold root; rewrite El; auto.
Qed.

(* ------------------------------------------------------------------------------------------ *)
(* Node.find / insert / setAcc on a sorted child list *)
Lemma find_from_shift : forall n k i, find_from n k i = (i + fst (find_from n k 0), snd (find_from n k 0))%nat.
Proof.
  induction n as [|[ck a] n IH]; intros k i; simpl.
  - f_equal; lia.
  - destruct (key_eqb ck k); [simpl; f_equal; lia|].
    destruct (key_cmp ck k); try (simpl; f_equal; lia);
      rewrite (IH k (S i)), (IH k 1%nat); simpl; f_equal; lia.
Qed.

Lemma find_cons : forall ck a n k,
  find ((ck, a) :: n) k =
  if key_eqb ck k then (0%nat, true)
  else match key_cmp ck k with
       | Gt => (0%nat, false)
       | _ => (S (fst (find n k)), snd (find n k))
       end.
Proof.
  intros; unfold find; simpl. destruct (key_eqb ck k); auto.
  destruct (key_cmp ck k); auto; rewrite find_from_shift; auto.
Qed.

Lemma find_match_set_acc : forall (n : node) k idx a, find n k = (idx, true) -> set_acc n idx a = al_set n k a.
Proof.
  induction n as [|[ck a0] n IH]; intros k idx a H.
  - discriminate.
  - rewrite find_cons in H. simpl. destruct (key_eqb ck k) eqn:E.
    + apply key_eqb_true in E; subst. inversion H; subst. rewrite key_cmp_refl; auto.
    + apply key_eqb_false in E. rewrite (key_cmp_antisym ck k).
      destruct (key_cmp ck k) eqn:E2; simpl; try (inversion H; fail).
      * apply key_cmp_eq in E2; congruence.
      * inversion H; subst. f_equal. apply IH. destruct (find n k); simpl in *; subst; auto.
Qed.

Lemma find_nomatch_insert : forall (n : node) k idx a, find n k = (idx, false) -> insert n idx (k, a) = al_set n k a.
Proof.
  induction n as [|[ck a0] n IH]; intros k idx a H.
  - inversion H; subst; auto.
  - rewrite find_cons in H. simpl. destruct (key_eqb ck k) eqn:E; [inversion H|].
    apply key_eqb_false in E. rewrite (key_cmp_antisym ck k).
    destruct (key_cmp ck k) eqn:E2; simpl.
    + apply key_cmp_eq in E2; congruence.
    + inversion H; subst. unfold insert; simpl. f_equal. apply IH. destruct (find n k); simpl in *; subst; auto.
    + inversion H; subst. auto.
Qed.

Lemma find_match_iff : forall (n : node) k, asorted n -> (snd (find n k) = true <-> In k (akeys n)).
Proof.
  induction n as [|[ck a0] n IH]; intros k Hs.
  - simpl; split; [discriminate|tauto].
  - destruct (asorted_cons_inv _ _ _ Hs) as [Hs' Hf].
    rewrite find_cons. simpl. destruct (key_eqb ck k) eqn:E.
    + apply key_eqb_true in E; subst; simpl; tauto.
    + apply key_eqb_false in E. destruct (key_cmp ck k) eqn:E2; simpl.
      * apply key_cmp_eq in E2; congruence.
      * rewrite IH; auto. split; auto. intros [?|?]; [congruence|auto].
      * split; [discriminate|]. intros [?|Hin]; [congruence|].
        eapply Forall_forall in Hf; eauto. exfalso. apply key_cmp_gt_lt in E2.
        eapply klt_irrefl. eapply klt_trans; eauto.
Qed.

Lemma find_idx_le : forall (n : node) k, (fst (find n k) <= length n)%nat.
Proof.
  induction n as [|[ck a0] n IH]; intros k; [simpl; auto|].
  rewrite find_cons. destruct (key_eqb ck k); simpl; [lia|].
  destruct (key_cmp ck k); simpl; try lia; specialize (IH k); lia.
Qed.
