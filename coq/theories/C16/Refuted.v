(* C16: concrete histories on which the faithful model (and the real code, see props/c16.py WITNESSES, replayed on the
   Go driver on every run) departs from the sorted map - finding F2. *)
From Coq Require Import ZArith List Bool Lia.
Import ListNotations.
From Osmo Require Import C16.Model C16.Spec C16.Statement.
Open Scope Z_scope.

Definition kA : key := [97].  Definition kB : key := [98].  Definition kC : key := [99].
Definition kD : key := [100]. Definition kE : key := [101]. Definition kF : key := [102].
Definition kG : key := [103]. Definition kH : key := [104]. Definition kI : key := [105].

(* (F2a, repaired in /repo by 9b85b1164c: the former witness - one Set on a fresh tree - now gives the true total) *)
Definition w_total_ops : list op := [OSet [103; 98] false 16].
Lemma w_total_fixed : exists st, run_new 2 w_total_ops = Ok st /\
  total_acc st = Ok 16 /\ sm_total (sm_run sm_init w_total_ops) = 16.
Proof. eexists; split; [vm_compute; reflexivity|]. split; vm_compute; reflexivity. Qed.

(* F2b: m = 2; a, b, c inserted; b (first entry of node (1,"b") = [b; c]) removed: the node stays keyed "b", and a split at
   "b" indexes Children[-1] *)
Definition w_panic_ops : list op := [OSet kA false 1; OSet kB false 2; OSet kC false 3; ORemove kB false].
Lemma w_panic : exists st, run_new 2 w_panic_ops = Ok st /\
  split_acc st kB = Err EIndex /\ sm_split (sm_run sm_init w_panic_ops) kB = (1, 0, 3).
Proof. eexists; split; [vm_compute; reflexivity|]. split; vm_compute; reflexivity. Qed.

(* F2c: m = 3; nine inserts, then removals that empty node (1,"f") last-entry-last, so that its siblings are merged: the merged
   node's parent entry keeps the pre-merge sum and a split at "" returns right = 14 instead of 23 *)
Definition w_stale_ops : list op :=
  [OSet kA false 2; OSet kB false 3; OSet kC false 4; OSet kD false 5; OSet kE false 6; OSet kF false 7;
   OSet kG false 8; OSet kH false 9; OSet kI false 10;
   ORemove kG false; ORemove kE false; ORemove kI false; ORemove kF false].
Lemma w_stale : exists st, run_new 3 w_stale_ops = Ok st /\
  split_acc st [] = Ok (0, 0, 14) /\ sm_split (sm_run sm_init w_stale_ops) [] = (0, 0, 23).
Proof. eexists; split; [vm_compute; reflexivity|]. split; vm_compute; reflexivity. Qed.

(* F2d: removing the empty key from a fresh tree empties the store; root() is nil and every query dereferences it *)
Definition w_empty_ops : list op := [ORemove [] false].
Lemma w_empty : exists st, run_new 2 w_empty_ops = Ok st /\ st = [] /\ split_acc st [] = Err ENilDeref.
Proof. eexists; split; [vm_compute; reflexivity|]. split; vm_compute; reflexivity. Qed.

(* F2d, second face: m = 2; with the left-most level-1 node gone, a later Set below the first remaining node creates an
   orphan node the root does not list: the split at "c" misses the key "a" *)
Definition w_orphan_ops : list op :=
  [OSet kB false 2; OSet kC false 3; ORemove [] false; ORemove kB false; OSet kA false 5].

Lemma w_orphan : exists st, run_new 2 w_orphan_ops = Ok st /\
  split_acc st kC = Ok (0, 3, 0) /\ sm_split (sm_run sm_init w_orphan_ops) kC = (5, 3, 0).
Proof. eexists; split; [vm_compute; reflexivity|]. split; vm_compute; reflexivity. Qed.

Lemma full_refuted : ~ C16_full_statement.
Proof.
  intro H. destruct (H 2%nat w_panic_ops ltac:(lia)) as (st & Hr & _ & A).
  destruct w_panic as (st' & Hr' & Hp & _). rewrite Hr in Hr'. inversion Hr'; subst st'.
  pose proof (af_split _ _ A kB) as T. rewrite Hp in T. discriminate.
Qed.
