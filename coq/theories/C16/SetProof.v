(* C16 proofs, layer 2d: Tree.Set / Increase / Decrease preserve WF and act on the represented map like the sorted map's
   set; NewTree establishes WF. *)
From Coq Require Import ZArith List Bool Lia Sorted.
Import ListNotations.
From Osmo Require Import C16.Model C16.Spec C16.Statement C16.Keys C16.Assoc C16.StoreLemmas C16.Views C16.Flat C16.Upper C16.Push.
Open Scope Z_scope.

Lemma sm_set_al_set : forall (s : smap) k v, sm_set s k v = al_set s k v.
Proof. induction s as [|[k1 v1] s IH]; simpl; intros; auto. Qed.

Lemma akeys_nil : forall {V} (l : list (key * V)), akeys l = [] -> l = [].
Proof. intros V [|x l]; simpl; auto; discriminate. Qed.

Lemma wf_upper : forall m st, WF m st ->
  exists H, (1 <= H)%nat /\ Upper m st 1 H /\ flat (nodes_at st 1) = sums (nodes_at st 0).
Proof.
  intros m st [Hs Hl (H & HH & Htop & Habove & Hlev)].
  exists H. split; auto.
  assert (flat (nodes_at st 1) = sums (nodes_at st 0)) as Hc1.
  { destruct (Hlev 1%nat ltac:(lia)) as (Hc & _ & _). exact Hc. }
  split; auto. constructor; auto.
  - rewrite <- level_keys_nodes_at; auto.
  - intros L HL. apply akeys_nil. rewrite <- level_keys_nodes_at. auto.
  - intros J' HJ'. destruct (Hlev J' ltac:(lia)) as (Hc & _ & _). exact Hc.
  - intros J' HJ'. destruct (Hlev J' ltac:(lia)) as (_ & Hh & _). exact Hh.
  - intros J' HJ'. destruct (Hlev J' ltac:(lia)) as (_ & _ & Hz). exact Hz.
  - rewrite Hc1. apply asorted_sums. apply nodes_at_sorted; auto.
Qed.

Lemma upper_wf : forall m st H, (1 <= H)%nat -> Upper m st 1 H ->
  flat (nodes_at st 1) = sums (nodes_at st 0) -> Forall leaf_ok (nodes_at st 0) -> WF m st.
Proof.
  intros m st H HH U Hc1 Hl. constructor; auto.
  - apply (up_sorted _ _ _ _ U).
  - exists H. split; auto. split; [rewrite level_keys_nodes_at; apply (up_top _ _ _ _ U)|]. split.
    + intros L HL. rewrite level_keys_nodes_at, (up_above _ _ _ _ U); auto.
    + intros J HJ. split; [|split].
      * destruct (Nat.eq_dec J 1); [subst; exact Hc1|]. apply (up_cons _ _ _ _ U); lia.
      * apply (up_headed _ _ _ _ U); lia.
      * apply (up_size _ _ _ _ U); lia.
Qed.

Lemma Forall_al_set : forall {V} (P : key * V -> Prop) (l : list (key * V)) k v,
  Forall P l -> P (k, v) -> Forall P (al_set l k v).
Proof.
  induction l as [|[k1 v1] l IH]; simpl; intros k v Hl Hp.
  - constructor; auto.
  - inversion Hl; subst. destruct (key_cmp k k1); constructor; auto.
Qed.

Lemma al_get_sums : forall (lv : list (key * list (key * Z))) k,
  al_get (sums lv) k = option_map accumulate (al_get lv k).
Proof.
  induction lv as [|[k1 n1] lv IH]; simpl; intros k; auto. destruct (key_cmp k k1); simpl; auto.
Qed.

Lemma sm_find_al_get : forall (s : smap) k, asorted s -> sm_find s k = al_get s k.
Proof.
  induction s as [|[k1 v1] s IH]; simpl; intros k Hs; auto.
  destruct (asorted_cons_inv _ _ _ Hs) as [Hs' Hf].
  unfold key_eqb. destruct (key_cmp k k1) eqn:E; auto.
  rewrite IH by auto. apply al_get_none; auto. intros Hin.
  eapply Forall_forall in Hf; eauto. eapply klt_irrefl. eapply klt_trans; eauto.
Qed.

(* Tree.Get *)
Lemma tree_get_abs : forall m st k, WF m st -> tree_get st k = sm_get (abs st) k.
Proof.
  intros m st k W. pose proof (wf_sorted _ _ W) as Hs. pose proof (wf_leaves _ _ W) as Hl.
  unfold tree_get, sm_get, abs, sums_at. fold (sums (nodes_at st 0)).
  rewrite sm_find_al_get by (apply asorted_sums; apply nodes_at_sorted; auto).
  rewrite al_get_sums, st_get_nodes_at by auto.
  destruct (al_get (nodes_at st 0) k) as [n|] eqn:G; simpl; auto.
  apply al_get_some_in in G. eapply Forall_forall in Hl; eauto. destruct Hl as (v & E); simpl in E; subst n.
  simpl. lia.
Qed.

Definition nil_flag_ok (k : key) (isnil : bool) : Prop := isnil = true -> k = [].

Lemma tree_set_wf : forall m st k isnil v, (2 <= m)%nat -> WF m st -> nil_flag_ok k isnil ->
  exists st', tree_set m st k isnil v = Ok st' /\ WF m st' /\ abs st' = sm_set (abs st) k v.
Proof.
  intros m st k isnil v Hm W Hnil.
  destruct (wf_upper m st W) as (H & HH & U & Hc1).
  pose proof (wf_sorted _ _ W) as Hs. pose proof (wf_leaves _ _ W) as Hl.
  unfold tree_set, ptr_get, p_skey. cbn [p_level p_key].
  set (st1 := st_set st (0%nat, k) [(k, v)]).
  assert (sorted_store st1) as Hs1 by (apply st_set_sorted; auto).
  assert (nodes_at st1 0 = al_set (nodes_at st 0) k [(k, v)]) as E0 by (apply nodes_at_set_same; auto).
  assert (forall L, L <> 0%nat -> nodes_at st1 L = nodes_at st L) as Hoth by (intros; apply nodes_at_set_other; auto).
  assert (Upper m st1 1 H) as U1 by (apply (upper_ext m st); auto; intros; apply Hoth; lia).
  assert (fuel_of st1 = (H + 3)%nat) as Hfuel.
  { unfold fuel_of. rewrite (root_top st1 H); auto.
    - rewrite level_keys_nodes_at. apply (up_top _ _ _ _ U1).
    - apply (up_above _ _ _ _ U1). }
  rewrite Hfuel.
  destruct (upper_head_nil _ _ _ _ U1 (H - 1)%nat 1%nat eq_refl ltac:(lia)) as (n0 & r0 & Ehead).
  destruct (parent_of_floor st1 (mkPtr 0 k isnil) n0 r0 Hs1 Hnil Ehead) as (l1 & k' & n' & l2 & b' & Elv & Hle & Hl2 & Epar & Hnil').
  simpl in Elv, Hle, Hl2, Epar. rewrite Epar.
  destruct (push_spec m (H - 1)%nat (H + 3)%nat st1 1%nat H l1 k' n' l2 b' k v) as (st' & H' & Ep & HH' & U' & Hfl & Hlow); auto; try lia.
  exists st'. split; [exact Ep|].
  assert (nodes_at st' 0 = nodes_at st1 0) as E0' by (apply Hlow; lia).
  assert (sums (nodes_at st' 0) = al_set (sums (nodes_at st 0)) k v) as Habs.
  { rewrite E0', E0, sums_al_set. simpl. rewrite Z.add_0_r. reflexivity. }
  split.
  - apply (upper_wf m st' H'); auto; [destruct HH'; lia| |].
    + rewrite Hfl, Habs. rewrite (Hoth 1%nat) by lia. rewrite Hc1. reflexivity.
    + rewrite E0', E0. apply Forall_al_set; auto. exists v; reflexivity.
  - unfold abs, sums_at. fold (sums (nodes_at st' 0)) (sums (nodes_at st 0)). rewrite Habs. reflexivity.
Qed.

(* NewTree on an empty store *)
Definition store0 : list ((nat * key) * list (key * Z)) := [((0%nat, []), [([], 0)]); ((1%nat, []), [([], 0)])].

Lemma new_tree_eq : forall m, new_tree m = Ok store0.
Proof. intros m. reflexivity. Qed.

Lemma store0_wf : forall m, (2 <= m)%nat -> WF m store0 /\ abs store0 = sm_init.
Proof.
  intros m Hm. split; [|reflexivity]. constructor.
  - repeat constructor.
  - repeat constructor. exists 0; reflexivity.
  - exists 1%nat. split; [lia|]. split; [reflexivity|]. split.
    + intros L HL. destruct L as [|[|L]]; try lia. reflexivity.
    + intros J HJ. assert (J = 1%nat) by lia; subst. split; [reflexivity|]. split.
      * repeat constructor. exists 0, []; reflexivity.
      * repeat constructor. simpl; lia.
Qed.

(* histories *)
Definition op_ok (o : op) : Prop :=
  match o with
  | OSet k n _ | OInc k n _ | ODec k n _ | ORemove k n => nil_flag_ok k n
  end.

Lemma apply_op_wf : forall m st o, (2 <= m)%nat -> WF m st -> op_ok o -> is_remove o = false ->
  exists st', apply_op m st o = Ok st' /\ WF m st' /\ abs st' = sm_apply (abs st) o.
Proof.
  intros m st o Hm W Hok Hrm. destruct o as [k n v|k n v|k n v|k n]; simpl in *; try discriminate.
  - apply tree_set_wf; auto.
  - unfold tree_increase. rewrite (tree_get_abs m) by auto. apply tree_set_wf; auto.
  - unfold tree_decrease, tree_increase. rewrite (tree_get_abs m) by auto.
    replace (sm_get (abs st) k - v) with (sm_get (abs st) k + - v) by lia. apply tree_set_wf; auto.
Qed.

Lemma run_wf : forall m ops st, (2 <= m)%nat -> WF m st -> Forall op_ok ops -> set_only ops ->
  exists st', run m st ops = Ok st' /\ WF m st' /\ abs st' = sm_run (abs st) ops.
Proof.
  intros m ops. induction ops as [|o ops IH]; intros st Hm W Hok Hso.
  - exists st; simpl; auto.
  - inversion Hok; subst. unfold set_only in Hso. simpl in Hso. apply andb_true_iff in Hso. destruct Hso as [Ho Hso].
    apply negb_true_iff in Ho.
    destruct (apply_op_wf m st o Hm W H1 Ho) as (st1 & E1 & W1 & A1).
    destruct (IH st1 Hm W1 H2 Hso) as (st' & E' & W' & A').
    exists st'. simpl. rewrite E1. simpl. split; [exact E'|]. split; auto. rewrite A', A1. reflexivity.
Qed.
