(* C16 proofs, layer 2a: list lemmas about a level seen as (node key, child list) pairs and the concatenation of its
   child lists. *)
From Coq Require Import ZArith List Bool Lia Sorted.
Import ListNotations.
From Osmo Require Import C16.Model C16.Spec C16.Statement C16.Keys C16.Assoc.

Definition flat (lv : al node) : list child := flat_map snd lv.
Definition sums (lv : al node) : list child := map (fun kn => (fst kn, accumulate (snd kn))) lv.

Lemma flat_app : forall a b, flat (a ++ b) = flat a ++ flat b.
Proof. intros; unfold flat; apply flat_map_app. Qed.
Lemma flat_mid : forall l1 k n l2, flat (l1 ++ (k, n) :: l2) = flat l1 ++ n ++ flat l2.
Proof. intros; rewrite flat_app; simpl; auto. Qed.

(* [child] hides the product type from rewriting: the same lemma stated on child lists *)
Lemma akeys_app_c : forall (a b : list child), akeys (a ++ b) = akeys a ++ akeys b.
Proof. intros; apply akeys_app. Qed.

Lemma sums_al_set : forall lv k n, sums (al_set lv k n) = al_set (sums lv) k (accumulate n).
Proof. intros; unfold sums. apply (map_al_set (fun _ n => accumulate n)). Qed.
Lemma akeys_sums : forall lv, akeys (sums lv) = akeys lv.
Proof. intros; unfold sums. apply (akeys_map (fun _ n => accumulate n)). Qed.

Section SetApp.
Context {V : Type}.
Lemma al_set_app_right : forall (A L : al V) k v, (forall x, In x (akeys A) -> klt x k) ->
  al_set (A ++ L) k v = A ++ al_set L k v.
Proof.
  induction A as [|[k1 v1] A IH]; simpl; intros L k v H; auto.
  replace (key_cmp k k1) with Gt by (symmetry; apply key_cmp_gt_lt; apply H; auto).
  f_equal; apply IH; auto.
Qed.
Lemma al_set_app_left : forall (n B : al V) k v, (forall y, In y (akeys B) -> klt k y) ->
  al_set (n ++ B) k v = al_set n k v ++ B.
Proof.
  induction n as [|[k1 v1] n IH]; simpl; intros B k v H.
  - destruct B as [|[k2 v2] B]; simpl; auto.
    replace (key_cmp k k2) with Lt by (symmetry; apply H; simpl; auto). auto.
  - destruct (key_cmp k k1); simpl; auto. f_equal; apply IH; auto.
Qed.
Lemma al_set_app_mid : forall (A n B : al V) k v,
  (forall x, In x (akeys A) -> klt x k) -> (forall y, In y (akeys B) -> klt k y) ->
  al_set (A ++ n ++ B) k v = A ++ al_set n k v ++ B.
Proof. intros; rewrite al_set_app_right, al_set_app_left; auto. Qed.

Lemma akeys_al_set_in : forall (l : al V) k v, asorted l -> In k (akeys l) -> akeys (al_set l k v) = akeys l.
Proof.
  intros l k v Hs Hin. unfold akeys in Hin. apply in_map_iff in Hin. destruct Hin as ([k' v'] & E & Hin).
  simpl in E; subst. apply in_split in Hin. destruct Hin as (l1 & l2 & ->).
  rewrite al_set_mid; auto. rewrite !akeys_app; simpl; auto.
Qed.
Lemma al_set_length_in : forall (l : al V) k v, asorted l -> In k (akeys l) -> length (al_set l k v) = length l.
Proof.
  intros l k v Hs Hin. rewrite <- (map_length fst (al_set l k v)), <- (map_length fst l).
  fold (akeys (al_set l k v)). rewrite akeys_al_set_in; auto.
Qed.
Lemma al_set_length_notin : forall (l : al V) k v, ~ In k (akeys l) -> length (al_set l k v) = S (length l).
Proof.
  induction l as [|[k1 v1] l IH]; simpl; intros k v H; auto.
  destruct (key_cmp k k1) eqn:E; simpl; auto.
  - apply key_cmp_eq in E; subst. exfalso; auto.
  - f_equal. apply IH. intros Hc; apply H; auto.
Qed.
Lemma al_set_head : forall (l : al V) k0 v0 r k v, l = (k0, v0) :: r -> kle k0 k ->
  exists v' r', al_set l k v = (k0, v') :: r'.
Proof.
  intros l k0 v0 r k v -> Hle. simpl. destruct (key_cmp k k0) eqn:E.
  - apply key_cmp_eq in E; subst. eauto.
  - exfalso. apply Hle. apply key_cmp_gt_lt; auto.
  - eauto.
Qed.
End SetApp.

(* every child key of a headed, flat-sorted level lies at or after its node's key and before the next node's key *)
Lemma headed_in_flat : forall lv k n, Forall headed lv -> In (k, n) lv -> In k (akeys (flat lv)).
Proof.
  intros lv k n Hh Hin. eapply Forall_forall in Hh; eauto. destruct Hh as (a & r & E); simpl in E; subst.
  apply in_split in Hin. destruct Hin as (l1 & l2 & ->). rewrite flat_mid, !akeys_app_c. simpl.
  apply in_or_app; right; simpl; auto.
Qed.

Lemma akeys_flat_in : forall lv y, In y (akeys lv) -> Forall headed lv -> In y (akeys (flat lv)).
Proof.
  intros lv y Hin Hh. unfold akeys in Hin. apply in_map_iff in Hin. destruct Hin as ([k n] & E & Hin); simpl in E; subst.
  eapply headed_in_flat; eauto.
Qed.

Lemma accumulate_app : forall a b, accumulate (a ++ b) = (accumulate a + accumulate b)%Z.
Proof. induction a as [|[k v] a IH]; simpl; intros; auto. rewrite IH; lia. Qed.
