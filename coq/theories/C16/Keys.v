(* C16: bytes.Compare on keys ([key_cmp]) is a strict total order with the empty key as least element;
   the same for store keys (level, key). *)
From Coq Require Import ZArith List Bool Lia Sorted.
Import ListNotations.
From Osmo Require Import C16.Model.
Open Scope Z_scope.

Lemma key_cmp_refl : forall a, key_cmp a a = Eq.
Proof. induction a as [|x a IH]; simpl; auto. rewrite Z.compare_refl; auto. Qed.

Lemma key_cmp_eq : forall a b, key_cmp a b = Eq -> a = b.
Proof.
  induction a as [|x a IH]; destruct b as [|y b]; simpl; intros H; try discriminate; auto.
  destruct (Z.compare_spec x y); try discriminate. subst. f_equal; auto.
Qed.

Lemma key_cmp_antisym : forall a b, key_cmp b a = CompOpp (key_cmp a b).
Proof.
  induction a as [|x a IH]; destruct b as [|y b]; simpl; auto.
  rewrite (Z.compare_antisym x y). destruct (x ?= y); simpl; auto.
Qed.

Lemma key_cmp_lt_trans : forall a b c, key_cmp a b = Lt -> key_cmp b c = Lt -> key_cmp a c = Lt.
Proof.
  induction a as [|x a IH]; destruct b as [|y b]; destruct c as [|z c]; simpl; intros H1 H2; try discriminate; auto.
  destruct (Z.compare_spec x y); destruct (Z.compare_spec y z); try discriminate; subst.
  - rewrite Z.compare_refl. eauto.
  - replace (y ?= z) with Lt by (symmetry; apply Z.compare_lt_iff; lia); auto.
  - replace (x ?= z) with Lt by (symmetry; apply Z.compare_lt_iff; lia); auto.
  - replace (x ?= z) with Lt by (symmetry; apply Z.compare_lt_iff; lia); auto.
Qed.

Lemma key_cmp_gt_lt : forall a b, key_cmp a b = Gt <-> key_cmp b a = Lt.
Proof. intros; rewrite (key_cmp_antisym a b). destruct (key_cmp a b); simpl; split; congruence. Qed.

Lemma key_cmp_nil_l : forall k, key_cmp [] k <> Gt.
Proof. destruct k; discriminate. Qed.
Lemma key_cmp_nil_r : forall k, key_cmp k [] <> Lt.
Proof. destruct k; discriminate. Qed.

(* Prop-level order *)
Definition klt (a b : key) : Prop := key_cmp a b = Lt.
Definition kle (a b : key) : Prop := key_cmp a b <> Gt.

Lemma klt_trans : forall a b c, klt a b -> klt b c -> klt a c.
Proof. exact key_cmp_lt_trans. Qed.
Lemma klt_irrefl : forall a, ~ klt a a.
Proof. intros a H; unfold klt in H; rewrite key_cmp_refl in H; discriminate. Qed.
Lemma kle_refl : forall a, kle a a.
Proof. intros a; unfold kle; rewrite key_cmp_refl; discriminate. Qed.
Lemma klt_kle : forall a b, klt a b -> kle a b.
Proof. unfold klt, kle; intros; congruence. Qed.
Lemma kle_cases : forall a b, kle a b <-> (a = b \/ klt a b).
Proof.
  unfold kle, klt; intros; split.
  - destruct (key_cmp a b) eqn:E; intros H; [left; apply key_cmp_eq; auto | right; auto | congruence].
  - intros [->|H]; [rewrite key_cmp_refl|rewrite H]; discriminate.
Qed.
Lemma kle_lt_trans : forall a b c, kle a b -> klt b c -> klt a c.
Proof. intros a b c H1 H2; apply kle_cases in H1; destruct H1 as [->|H1]; eauto using klt_trans. Qed.
Lemma klt_le_trans : forall a b c, klt a b -> kle b c -> klt a c.
Proof. intros a b c H1 H2; apply kle_cases in H2; destruct H2 as [<-|H2]; eauto using klt_trans. Qed.
Lemma kle_trans : forall a b c, kle a b -> kle b c -> kle a c.
Proof.
  intros a b c H1 H2; apply kle_cases in H1; destruct H1 as [->|H1]; auto.
  apply klt_kle; eapply klt_le_trans; eauto.
Qed.
Lemma kle_nil : forall k, kle [] k.
Proof. exact key_cmp_nil_l. Qed.
Lemma klt_not_le : forall a b, klt a b -> ~ kle b a.
Proof. unfold klt, kle; intros a b H H2; apply H2; apply key_cmp_gt_lt; auto. Qed.
Lemma not_klt_kle : forall a b, ~ klt a b -> kle b a.
Proof. unfold klt, kle; intros a b H H2; apply H; apply key_cmp_gt_lt; auto. Qed.
Lemma kle_antisym : forall a b, kle a b -> kle b a -> a = b.
Proof.
  intros a b H1 H2; apply kle_cases in H1; destruct H1 as [->|H1]; auto.
  exfalso; eapply klt_not_le; eauto.
Qed.
Lemma klt_total : forall a b, klt a b \/ a = b \/ klt b a.
Proof.
  intros a b; unfold klt; destruct (key_cmp a b) eqn:E; auto.
  - right; left; apply key_cmp_eq; auto.
  - right; right; apply key_cmp_gt_lt; auto.
Qed.

(* boolean views *)
Lemma key_eqb_true : forall a b, key_eqb a b = true <-> a = b.
Proof.
  unfold key_eqb; intros; split.
  - destruct (key_cmp a b) eqn:E; try discriminate; intros _; apply key_cmp_eq; auto.
  - intros ->; rewrite key_cmp_refl; auto.
Qed.
Lemma key_eqb_refl : forall a, key_eqb a a = true.
Proof. intros; apply key_eqb_true; auto. Qed.
Lemma key_eqb_false : forall a b, key_eqb a b = false <-> a <> b.
Proof.
  intros; split; intros H.
  - intros E; apply key_eqb_true in E; congruence.
  - destruct (key_eqb a b) eqn:E; auto. apply key_eqb_true in E; congruence.
Qed.
Lemma key_ltb_true : forall a b, key_ltb a b = true <-> klt a b.
Proof. unfold key_ltb, klt; intros; destruct (key_cmp a b); split; congruence. Qed.
Lemma key_ltb_false : forall a b, key_ltb a b = false <-> kle b a.
Proof.
  unfold key_ltb, kle; intros; rewrite (key_cmp_antisym a b).
  destruct (key_cmp a b); simpl; split; congruence.
Qed.
Lemma key_leb_true : forall a b, key_leb a b = true <-> kle a b.
Proof. unfold key_leb, kle; intros; destruct (key_cmp a b); split; congruence. Qed.
Lemma key_leb_false : forall a b, key_leb a b = false <-> klt b a.
Proof.
  unfold key_leb, klt; intros; rewrite (key_cmp_antisym a b).
  destruct (key_cmp a b); simpl; split; congruence.
Qed.

(* strictly increasing key lists *)
Definition ksorted (ks : list key) : Prop := StronglySorted klt ks.

Lemma ksorted_cons_inv : forall k ks, ksorted (k :: ks) -> ksorted ks /\ Forall (klt k) ks.
Proof. intros k ks H; inversion H; auto. Qed.
Lemma ksorted_app : forall a b, ksorted (a ++ b) ->
  ksorted a /\ ksorted b /\ forall x y, In x a -> In y b -> klt x y.
Proof.
  induction a as [|x a IH]; simpl; intros b H.
  - repeat split; auto. constructor. intros ? ? [].
  - inversion H as [|? ? Hs Hf]; subst. destruct (IH _ Hs) as (Ha & Hb & Hab).
    rewrite Forall_app in Hf. destruct Hf as [Hfa Hfb].
    repeat split; auto.
    + constructor; auto.
    + intros x' y [<-|Hx] Hy; [eapply Forall_forall in Hfb; eauto | auto].
Qed.
Lemma ksorted_app_intro : forall a b, ksorted a -> ksorted b ->
  (forall x y, In x a -> In y b -> klt x y) -> ksorted (a ++ b).
Proof.
  induction a as [|x a IH]; simpl; intros b Ha Hb Hab; auto.
  inversion Ha; subst. constructor.
  - apply IH; auto.
  - apply Forall_app; split; auto. apply Forall_forall; intros y Hy; apply Hab; auto.
Qed.
Lemma ksorted_NoDup : forall ks, ksorted ks -> NoDup ks.
Proof.
  induction 1 as [|k ks Hs IH Hf]; constructor; auto.
  intros Hin. eapply Forall_forall in Hf; eauto. eapply klt_irrefl; eauto.
Qed.

(* store keys *)
Lemma skey_cmp_refl : forall a, skey_cmp a a = Eq.
Proof. intros [l k]; unfold skey_cmp; simpl. rewrite Nat.compare_refl. apply key_cmp_refl. Qed.
Lemma skey_cmp_eq : forall a b, skey_cmp a b = Eq -> a = b.
Proof.
  intros [l k] [l' k']; unfold skey_cmp; simpl. destruct (Nat.compare_spec l l'); try discriminate.
  intros HH; apply key_cmp_eq in HH; subst; auto.
Qed.
Lemma skey_cmp_antisym : forall a b, skey_cmp b a = CompOpp (skey_cmp a b).
Proof.
  intros [l k] [l' k']; unfold skey_cmp; simpl. rewrite (Nat.compare_antisym l l').
  destruct (Nat.compare l l'); simpl; auto. apply key_cmp_antisym.
Qed.
Lemma skey_cmp_lt_trans : forall a b c, skey_cmp a b = Lt -> skey_cmp b c = Lt -> skey_cmp a c = Lt.
Proof.
  intros [l1 k1] [l2 k2] [l3 k3]; unfold skey_cmp; simpl.
  destruct (Nat.compare_spec l1 l2); destruct (Nat.compare_spec l2 l3); try discriminate; subst; intros H1 H2.
  - rewrite Nat.compare_refl. eapply key_cmp_lt_trans; eauto.
  - replace (Nat.compare l2 l3) with Lt by (symmetry; apply Nat.compare_lt_iff; auto); auto.
  - replace (Nat.compare l1 l3) with Lt by (symmetry; apply Nat.compare_lt_iff; auto); auto.
  - replace (Nat.compare l1 l3) with Lt by (symmetry; apply Nat.compare_lt_iff; lia); auto.
Qed.
Lemma skey_cmp_same_level : forall l k k', skey_cmp (l, k) (l, k') = key_cmp k k'.
Proof. intros; unfold skey_cmp; simpl; rewrite Nat.compare_refl; auto. Qed.
Lemma skey_cmp_level_lt : forall l l' k k', (l < l')%nat -> skey_cmp (l, k) (l', k') = Lt.
Proof. intros; unfold skey_cmp; simpl. replace (Nat.compare l l') with Lt by (symmetry; apply Nat.compare_lt_iff; auto); auto. Qed.
Lemma skey_cmp_level_gt : forall l l' k k', (l' < l)%nat -> skey_cmp (l, k) (l', k') = Gt.
Proof. intros; unfold skey_cmp; simpl. replace (Nat.compare l l') with Gt by (symmetry; apply Nat.compare_gt_iff; auto); auto. Qed.
Lemma skey_cmp_lt_level : forall a b, skey_cmp a b = Lt -> (fst a <= fst b)%nat.
Proof.
  intros [l k] [l' k']; unfold skey_cmp; simpl. destruct (Nat.compare_spec l l'); intros; try discriminate; lia.
Qed.
