(* C16 proofs, layer 2b: the part of the invariant that push / updateAccumulation rely on and re-establish while they
   climb: everything from level J upwards. *)
From Coq Require Import ZArith List Bool Lia Sorted.
Import ListNotations.
From Osmo Require Import C16.Model C16.Spec C16.Statement C16.Keys C16.Assoc C16.StoreLemmas C16.Views C16.Flat.

Definition size_ok (m : nat) (kn : key * node) : Prop := (length (snd kn) <= m)%nat.

Record Upper (m : nat) (st : store) (J H : nat) : Prop := mkUpper {
  up_sorted : sorted_store st;
  up_top : akeys (nodes_at st H) = [[]];
  up_above : forall L, (H < L)%nat -> nodes_at st L = [];
  up_cons : forall J', (J < J' <= H)%nat -> flat (nodes_at st J') = sums (nodes_at st (J' - 1));
  up_headed : forall J', (J <= J' <= H)%nat -> Forall headed (nodes_at st J');
  up_size : forall J', (J <= J' <= H)%nat -> Forall (size_ok m) (nodes_at st J');
  up_fsorted : @asorted Z (flat (nodes_at st J)) }.

Lemma asorted_sums : forall lv, asorted lv -> @asorted Z (sums lv).
Proof. intros lv H; unfold asorted in *. rewrite akeys_sums; auto. Qed.

Lemma upper_weaken : forall m st J H, Upper m st J H -> (J < H)%nat -> Upper m st (S J) H.
Proof.
  intros m st J H U Hlt. destruct U. constructor; auto.
  - intros; apply up_cons0; lia.
  - intros; apply up_headed0; lia.
  - intros; apply up_size0; lia.
  - rewrite up_cons0 by lia. apply asorted_sums. replace (S J - 1)%nat with J by lia. apply nodes_at_sorted; auto.
Qed.

Lemma upper_ext : forall m st st1 J H, Upper m st J H -> (J <= H)%nat -> sorted_store st1 ->
  (forall L, (J <= L)%nat -> nodes_at st1 L = nodes_at st L) -> Upper m st1 J H.
Proof.
  intros m st st1 J H U Hle Hs Hag. destruct U. constructor; auto.
  - rewrite Hag; auto.
  - intros; rewrite Hag; auto; lia.
  - intros; rewrite !Hag; auto; lia.
  - intros; rewrite Hag; auto; lia.
  - intros; rewrite Hag; auto; lia.
  - rewrite Hag; auto.
Qed.

(* from S J down to J *)
Lemma upper_extend : forall m st J H, Upper m st (S J) H -> (S J <= H)%nat ->
  flat (nodes_at st (S J)) = sums (nodes_at st J) ->
  Forall headed (nodes_at st J) -> Forall (size_ok m) (nodes_at st J) -> @asorted Z (flat (nodes_at st J)) ->
  Upper m st J H.
Proof.
  intros m st J H U Hle Hc Hh Hz Hf. destruct U. constructor; auto.
  - intros J' HJ. destruct (Nat.eq_dec J' (S J)); [subst; replace (S J - 1)%nat with J by lia; auto|apply up_cons0; lia].
  - intros J' HJ. destruct (Nat.eq_dec J' J); [subst; auto|apply up_headed0; lia].
  - intros J' HJ. destruct (Nat.eq_dec J' J); [subst; auto|apply up_size0; lia].
Qed.

(* the left-most node of every level from J up to the top is keyed by the empty key *)
Lemma upper_head_nil : forall m st J H, Upper m st J H -> forall d J', (H - J' = d)%nat -> (J <= J' <= H)%nat ->
  exists n0 r, nodes_at st J' = ([], n0) :: r.
Proof.
  intros m st J H U. induction d as [|d IH]; intros J' Hd Hr.
  - assert (J' = H) by lia; subst. pose proof (up_top _ _ _ _ U) as Ht.
    destruct (nodes_at st H) as [|[k n] r]; [discriminate|]. simpl in Ht. inversion Ht; subst. eauto.
  - destruct (IH (S J') ltac:(lia) ltac:(lia)) as (n0 & r & E).
    pose proof (up_cons _ _ _ _ U (S J') ltac:(lia)) as Hc. replace (S J' - 1)%nat with J' in Hc by lia.
    pose proof (up_headed _ _ _ _ U (S J') ltac:(lia)) as Hh. rewrite E in Hc, Hh.
    inversion Hh as [|? ? Hh0 _]; subst. destruct Hh0 as (a & r0 & E0); simpl in E0; subst n0.
    simpl in Hc. destruct (nodes_at st J') as [|[k n] r']; [discriminate|]. simpl in Hc. inversion Hc; subst. eauto.
Qed.

(* the node that [parent_of] finds for a key that is listed at that level lists it *)
Lemma floor_contains : forall (lv : al node) l1 k' n' l2 k,
  lv = l1 ++ (k', n') :: l2 -> Forall headed lv -> @asorted Z (flat lv) ->
  kle k' k -> (forall y, In y (akeys l2) -> klt k y) -> In k (akeys (flat lv)) -> In k (akeys n').
Proof.
  intros lv l1 k' n' l2 k -> Hh Hs Hle Hl2 Hin.
  rewrite flat_mid in Hin, Hs. rewrite !akeys_app_c in Hin.
  apply in_app_or in Hin. destruct Hin as [Hin|Hin]; [|apply in_app_or in Hin; destruct Hin as [Hin|Hin]; auto]; exfalso.
  - (* in an earlier node: below k' *)
    assert (In k' (akeys n')) as Hk'.
    { apply Forall_app in Hh; destruct Hh as [_ Hh]. inversion Hh as [|? ? Hh0 _]; subst.
      destruct Hh0 as (a & r & E); simpl in E; subst; simpl; auto. }
    destruct (asorted_app _ _ Hs) as (_ & _ & H12).
    specialize (H12 k k' Hin). rewrite akeys_app_c in H12. specialize (H12 (in_or_app _ _ _ (or_introl Hk'))).
    eapply klt_not_le; eauto.
  - (* in a later node: at or above that node's key, which is above k *)
    apply Forall_app in Hh; destruct Hh as [_ Hh]. inversion Hh as [|? ? _ Hh2]; subst.
    unfold akeys, flat in Hin. apply in_map_iff in Hin. destruct Hin as ([k1 a1] & E & Hin); simpl in E; subst k1.
    apply in_flat_map in Hin. destruct Hin as ([k2 n2] & Hin2 & Hin); simpl in Hin.
    pose proof Hin2 as Hin2'. apply in_split in Hin2'. destruct Hin2' as (la & lb & ->).
    eapply Forall_forall in Hh2; [|exact Hin2]. destruct Hh2 as (a2 & r2 & E); simpl in E; subst n2.
    assert (klt k k2) as Hk2. { apply Hl2. rewrite akeys_app; apply in_or_app; right; simpl; auto. }
    destruct Hin as [E|Hin].
    + inversion E; subst. eapply klt_irrefl; eauto.
    + (* k after k2 in the same sorted node *)
      rewrite app_assoc in Hs. destruct (asorted_app _ _ Hs) as (_ & Hs2 & _).
      rewrite flat_mid in Hs2. destruct (asorted_app _ _ Hs2) as (_ & Hs3 & _).
      destruct (asorted_app _ _ Hs3) as (Hs4 & _ & _).
      apply asorted_cons_inv in Hs4. destruct Hs4 as [_ Hf].
      eapply Forall_forall in Hf; [|apply in_map_iff; exists (k, a1); split; [reflexivity|exact Hin]].
      simpl in Hf. eapply klt_irrefl. eapply klt_trans; eauto.
Qed.

(* a node of a flat-sorted level is itself sorted, and everything before / after it in the level is below / above its keys *)
Lemma node_sorted_in_level : forall (l1 : al node) k n l2, @asorted Z (flat (l1 ++ (k, n) :: l2)) ->
  @asorted Z n /\ (forall x y, In x (akeys (flat l1)) -> In y (akeys n) -> klt x y) /\
  (forall x y, In x (akeys n) -> In y (akeys (flat l2)) -> klt x y).
Proof.
  intros l1 k n l2 Hs. rewrite flat_mid in Hs.
  destruct (asorted_app _ _ Hs) as (_ & Hs2 & H12). destruct (asorted_app _ _ Hs2) as (Hn & _ & H23).
  repeat split; auto. intros x y Hx Hy. apply H12; auto. rewrite akeys_app_c; apply in_or_app; auto.
Qed.

(* ptr.updateAccumulation on the node of level J that lists ck: the entry is replaced, every level above gets its sums
   refreshed, nothing else changes *)
Lemma update_acc_spec : forall m d fuel st J H (l1 : al node) (k : key) (n : node) (l2 : al node) b (ck : key) (a : Z),
  (H - J = d)%nat -> (1 <= J <= H)%nat -> (d + 2 <= fuel)%nat ->
  Upper m st J H -> (b = true -> k = []) ->
  nodes_at st J = l1 ++ (k, n) :: l2 -> In ck (akeys n) ->
  exists st', update_acc fuel st (mkPtr J k b) (ck, a) = Ok st' /\
    Upper m st' J H /\
    nodes_at st' J = l1 ++ (k, al_set n ck a) :: l2 /\
    (forall L, (L < J)%nat -> nodes_at st' L = nodes_at st L) /\
    (forall L, akeys (nodes_at st' L) = akeys (nodes_at st L)).
Proof.
  intros m d. induction d as [|d IH]; intros fuel st J H l1 k n l2 b ck a Hd HJ Hfuel U Hnil Elv Hck;
    (destruct fuel as [|f]; [lia|]).
  - (* J = H: the parent level is empty *)
    assert (J = H) by lia; subst J.
    pose proof (up_sorted _ _ _ _ U) as Hs.
    pose proof (up_fsorted _ _ _ _ U) as Hfs. rewrite Elv in Hfs.
    destruct (node_sorted_in_level _ _ _ _ Hfs) as (Hns & Hbefore & Hafter).
    assert (In k (akeys (nodes_at st H))) as Hkin by (rewrite Elv, akeys_app; apply in_or_app; right; simpl; auto).
    cbn [update_acc]. rewrite (exists_in st (mkPtr H k b)) by auto. cbn [negb].
    rewrite (node_of_in st H k b n) by (auto; rewrite Elv; apply in_or_app; right; simpl; auto).
    cbn [fst snd]. destruct (find n ck) as [idx mt] eqn:Ef.
    assert (mt = true) as -> by (pose proof (proj2 (find_match_iff n ck Hns) Hck) as X; rewrite Ef in X; exact X).
    cbn [negb fst snd]. rewrite (find_match_set_acc n ck idx a Ef).
    set (nd' := al_set n ck a). set (st1 := st_set st (p_skey (mkPtr H k b)) nd').
    assert (sorted_store st1) as Hs1 by (apply st_set_sorted; auto).
    assert (nodes_at st1 H = l1 ++ (k, nd') :: l2) as Elv1.
    { unfold st1, p_skey; simpl. rewrite nodes_at_set_same by auto. rewrite Elv. apply al_set_mid.
      match type of Elv with nodes_at _ ?L = _ => pose proof (nodes_at_sorted st L Hs) as X end; rewrite Elv in X; exact X. }
    assert (forall L, L <> H -> nodes_at st1 L = nodes_at st L) as Hoth.
    { intros; unfold st1, p_skey; simpl. apply nodes_at_set_other; auto. }
    destruct (parent_of_empty_level st1 (mkPtr H k b)) as [Ep Ee].
    { simpl. rewrite Hoth by lia. apply (up_above _ _ _ _ U); lia. }
    destruct f as [|f']; [lia|]. cbn [update_acc]. rewrite Ee. cbn [negb].
    exists st1. split; [reflexivity|].
    assert (akeys (nodes_at st1 H) = akeys (nodes_at st H)) as Hkeys.
    { rewrite Elv1, Elv, !akeys_app; simpl; auto. }
    split; [|split; [exact Elv1|split]].
    + destruct U. constructor; auto.
      * rewrite Hkeys; auto.
      * intros; rewrite Hoth by lia; auto.
      * intros; lia.
      * intros J' HJ'. assert (J' = H) by lia; subst. rewrite Elv1. specialize (up_headed0 H ltac:(lia)).
        rewrite Elv in up_headed0. apply Forall_app in up_headed0. destruct up_headed0 as [Hh1 Hh2].
        inversion Hh2 as [|? ? Hh0 Hh3]; subst. apply Forall_app; split; auto. constructor; auto.
        destruct Hh0 as (a0 & r0 & E0); simpl in E0.
        destruct (al_set_head n k a0 r0 ck a E0) as (v' & r' & E').
        { subst n. destruct Hck as [<-|Hin]; [apply kle_refl|]. apply asorted_cons_inv in Hns. destruct Hns as [_ Hf].
          eapply Forall_forall in Hf; eauto. apply klt_kle; auto. }
        exists v', r'; simpl; auto.
      * intros J' HJ'. assert (J' = H) by lia; subst. rewrite Elv1. specialize (up_size0 H ltac:(lia)).
        rewrite Elv in up_size0. apply Forall_app in up_size0. destruct up_size0 as [Hz1 Hz2].
        inversion Hz2 as [|? ? Hz0 Hz3]; subst. apply Forall_app; split; auto. constructor; auto.
        unfold size_ok in *; cbn [snd] in *. eapply Nat.le_trans; [|exact Hz0].
        apply Nat.eq_le_incl. apply al_set_length_in; auto.
      * rewrite Elv1, flat_mid. rewrite Elv, flat_mid in up_fsorted0.
        unfold asorted in *. rewrite !akeys_app_c in *. unfold nd'. rewrite akeys_al_set_in; auto.
    + intros; apply Hoth; lia.
    + intros L. destruct (Nat.eq_dec L H); [subst; auto|rewrite Hoth; auto].
  - (* J < H *)
    pose proof (up_sorted _ _ _ _ U) as Hs.
    pose proof (up_fsorted _ _ _ _ U) as Hfs. rewrite Elv in Hfs.
    destruct (node_sorted_in_level _ _ _ _ Hfs) as (Hns & Hbefore & Hafter).
    assert (In k (akeys (nodes_at st J))) as Hkin by (rewrite Elv, akeys_app; apply in_or_app; right; simpl; auto).
    cbn [update_acc]. rewrite (exists_in st (mkPtr J k b)) by auto. cbn [negb].
    rewrite (node_of_in st J k b n) by (auto; rewrite Elv; apply in_or_app; right; simpl; auto).
    cbn [fst snd]. destruct (find n ck) as [idx mt] eqn:Ef.
    assert (mt = true) as -> by (pose proof (proj2 (find_match_iff n ck Hns) Hck) as X; rewrite Ef in X; exact X).
    cbn [negb fst snd]. rewrite (find_match_set_acc n ck idx a Ef).
    set (nd' := al_set n ck a). set (st1 := st_set st (p_skey (mkPtr J k b)) nd').
    assert (sorted_store st1) as Hs1 by (apply st_set_sorted; auto).
    assert (nodes_at st1 J = l1 ++ (k, nd') :: l2) as Elv1.
    { unfold st1, p_skey; simpl. rewrite nodes_at_set_same by auto. rewrite Elv. apply al_set_mid.
      match type of Elv with nodes_at _ ?L = _ => pose proof (nodes_at_sorted st L Hs) as X end; rewrite Elv in X; exact X. }
    assert (nodes_at st1 J = al_set (nodes_at st J) k nd') as Elv1'.
    { unfold st1, p_skey; simpl. rewrite nodes_at_set_same by auto. auto. }
    assert (forall L, L <> J -> nodes_at st1 L = nodes_at st L) as Hoth.
    { intros; unfold st1, p_skey; simpl. apply nodes_at_set_other; auto. }
    assert (Upper m st1 (S J) H) as U1.
    { apply (upper_ext m st); [apply upper_weaken; auto; lia|lia|auto|intros; apply Hoth; lia]. }
    destruct (upper_head_nil _ _ _ _ U1 (H - S J)%nat (S J) eq_refl ltac:(lia)) as (n0 & r0 & Ehead).
    destruct (parent_of_floor st1 (mkPtr J k b) n0 r0 Hs1 Hnil Ehead) as (l1' & k'' & n'' & l2' & b'' & Elv' & Hle' & Hl2' & Epar & Hnil').
    simpl in Elv', Hle', Hl2', Epar. rewrite Epar.
    assert (In k (akeys n'')) as Hkn''.
    { eapply (floor_contains (nodes_at st1 (S J))); eauto.
      - apply (up_headed _ _ _ _ U1); lia.
      - apply (up_fsorted _ _ _ _ U1).
      - rewrite Hoth by lia. rewrite (up_cons _ _ _ _ U (S J)) by lia. replace (S J - 1)%nat with J by lia.
        rewrite akeys_sums; auto. }
    destruct (IH f st1 (S J) H l1' k'' n'' l2' b'' k (accumulate nd')) as (st' & Eu & U' & Elv'' & Hlow & Hkeys); auto; try lia.
    exists st'. split; [exact Eu|].
    assert (nodes_at st' J = nodes_at st1 J) as EJ by (apply Hlow; lia).
    split; [|split; [rewrite EJ; exact Elv1|split]].
    + apply upper_extend; auto; try lia.
      * (* cons at S J *)
        rewrite Elv'', flat_mid. rewrite EJ, Elv1', sums_al_set.
        pose proof (up_cons _ _ _ _ U (S J) ltac:(lia)) as Hc0. replace (S J - 1)%nat with J in Hc0 by lia.
        rewrite <- Hc0. rewrite <- (Hoth (S J)) by lia. rewrite Elv', flat_mid.
        pose proof (up_fsorted _ _ _ _ U1) as Hfs1. rewrite Elv' in Hfs1.
        destruct (node_sorted_in_level _ _ _ _ Hfs1) as (Hns'' & Hbefore'' & Hafter'').
        symmetry. apply al_set_app_mid; intros; auto.
      * rewrite EJ, Elv1. pose proof (up_headed _ _ _ _ U J ltac:(lia)) as Hh.
        rewrite Elv in Hh. apply Forall_app in Hh. destruct Hh as [Hh1 Hh2].
        inversion Hh2 as [|? ? Hh0 Hh3]; subst. apply Forall_app; split; auto. constructor; auto.
        destruct Hh0 as (a0 & r1 & E0); simpl in E0.
        destruct (al_set_head n k a0 r1 ck a E0) as (v' & r' & E').
        { subst n. destruct Hck as [<-|Hin]; [apply kle_refl|]. apply asorted_cons_inv in Hns. destruct Hns as [_ Hf].
          eapply Forall_forall in Hf; eauto. apply klt_kle; auto. }
        exists v', r'; simpl; auto.
      * rewrite EJ, Elv1. pose proof (up_size _ _ _ _ U J ltac:(lia)) as Hz.
        rewrite Elv in Hz. apply Forall_app in Hz. destruct Hz as [Hz1 Hz2].
        inversion Hz2 as [|? ? Hz0 Hz3]; subst. apply Forall_app; split; auto. constructor; auto.
        unfold size_ok in *; cbn [snd] in *. eapply Nat.le_trans; [|exact Hz0].
        apply Nat.eq_le_incl. apply al_set_length_in; auto.
      * rewrite EJ, Elv1, flat_mid. pose proof (up_fsorted _ _ _ _ U) as Hf0. rewrite Elv, flat_mid in Hf0.
        unfold asorted in *. rewrite !akeys_app_c in *. unfold nd'. rewrite akeys_al_set_in; auto.
    + intros L HL. rewrite Hlow by lia. apply Hoth; lia.
    + intros L. rewrite Hkeys. destruct (Nat.eq_dec L J); [subst|rewrite Hoth; auto].
      rewrite Elv1, Elv, !akeys_app; simpl; auto.
Qed.
