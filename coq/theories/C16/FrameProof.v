(* C16 proofs: frame property.  push / updateAccumulation / pull, started at a level >= 1, only ever write or delete
   entries of levels >= 1: the leaves (level 0) change only through Tree.Set's setLeaf and Tree.Remove's delete.  Hence for
   EVERY history - Remove included - that does not panic, the stored leaves are exactly the sorted map's contents, so Get and
   ordered iteration are right even in the states that finding F2 damages. *)
From Coq Require Import ZArith List Bool Lia Sorted.
Import ListNotations.
From Osmo Require Import C16.Model C16.Spec C16.Statement C16.Keys C16.Assoc C16.StoreLemmas C16.Views C16.Flat C16.Upper C16.SetProof
  C16.SumLemmas C16.Refine.
Open Scope Z_scope.

(* Delete on the views *)
Lemma nodes_at_del_other : forall st L k L', L' <> L -> nodes_at (st_del st (L, k)) L' = nodes_at st L'.
Proof.
  induction st as [|[[l k'] n'] st IH]; intros L k L' Hne; [reflexivity|].
  cbn [st_del]. destruct (skey_cmp (L, k) (l, k')) eqn:E.
  - apply skey_cmp_eq in E; inversion E; subst. rewrite nodes_at_cons. destruct (Nat.eqb_spec l L'); [congruence|auto].
  - reflexivity.
  - rewrite !nodes_at_cons. destruct (Nat.eqb l L'); [f_equal|]; apply IH; auto.
Qed.

Lemma st_del_in : forall st sk e, In e (st_del st sk) -> In e st.
Proof.
  induction st as [|[k' n'] st IH]; simpl; intros sk e H; auto.
  destruct (skey_cmp sk k'); simpl in *; auto.
  destruct H as [<-|H]; [left; reflexivity|right; eapply IH; eauto].
Qed.

Lemma st_del_sorted : forall st sk, sorted_store st -> sorted_store (st_del st sk).
Proof.
  induction st as [|[k' n'] st IH]; simpl; intros sk Hs; auto.
  destruct (sorted_store_cons_inv _ _ Hs) as [Hs' Hf].
  destruct (skey_cmp sk k'); auto.
  constructor; [apply IH; auto|]. apply Forall_forall; intros e He. apply st_del_in in He.
  eapply Forall_forall in Hf; eauto.
Qed.

Fixpoint al_del {V} (l : list (key * V)) (k : key) : list (key * V) :=
  match l with
  | [] => []
  | (k', v') :: r => match key_cmp k k' with Eq => r | Lt => l | Gt => (k', v') :: al_del r k end
  end.

Lemma nodes_at_del_same : forall st L k, sorted_store st -> nodes_at (st_del st (L, k)) L = al_del (nodes_at st L) k.
Proof.
  induction st as [|[[l k'] n'] st IH]; intros L k Hs; [reflexivity|].
  cbn [st_del]. unfold skey_cmp; cbn [fst snd].
  destruct (Nat.compare_spec L l) as [E|Hlt|Hgt].
  - subst l. rewrite (nodes_at_cons _ k' n' st), Nat.eqb_refl. cbn [al_del].
    destruct (key_cmp k k') eqn:Ek.
    + reflexivity.
    + rewrite nodes_at_cons, Nat.eqb_refl; reflexivity.
    + rewrite nodes_at_cons, Nat.eqb_refl. f_equal. apply IH. apply sorted_store_cons_inv in Hs; tauto.
  - match type of Hs with sorted_store ?s => assert (nodes_at s L = []) as Hnil end.
    { apply nodes_at_below_nil; auto. intros e [<-|Hin]; simpl; auto.
      pose proof (sorted_levels_ge _ _ _ _ _ Hs Hin) as Hge. eapply Nat.lt_le_trans; eauto. }
    rewrite Hnil. reflexivity.
  - rewrite !nodes_at_cons. destruct (Nat.eqb_spec l L); [lia|]. apply IH. apply sorted_store_cons_inv in Hs; tauto.
Qed.

Lemma sums_al_del : forall (lv : list (key * list (key * Z))) k, sums (al_del lv k) = sm_remove (sums lv) k.
Proof.
  induction lv as [|[k1 n1] lv IH]; intros k; [reflexivity|]. simpl. destruct (key_cmp k k1); simpl; auto. f_equal; auto.
Qed.

(* ------------------------------------------------------------------------------------------ *)
(* the frame *)
Definition frame0 (st st' : list ((nat * key) * list (key * Z))) : Prop :=
  nodes_at st' 0 = nodes_at st 0 /\ (sorted_store st -> sorted_store st').

Lemma frame0_refl : forall st, frame0 st st.
Proof. intros; split; auto. Qed.
Lemma frame0_trans : forall a b c, frame0 a b -> frame0 b c -> frame0 a c.
Proof. intros a b c [E1 S1] [E2 S2]; split; [congruence|auto]. Qed.
Lemma frame0_set : forall st L k n, (1 <= L)%nat -> frame0 st (st_set st (L, k) n).
Proof. intros; split; [apply nodes_at_set_other; lia|apply st_set_sorted]. Qed.
Lemma frame0_del : forall st L k, (1 <= L)%nat -> frame0 st (st_del st (L, k)).
Proof. intros; split; [apply nodes_at_del_other; lia|apply st_del_sorted]. Qed.

Lemma left_sibling_level : forall st p q, left_sibling st p = Some q -> p_level q = p_level p.
Proof. intros st p q H. unfold left_sibling in H. destruct (last_lt _ _ _); inversion H; reflexivity. Qed.
Lemma right_sibling_level : forall st p q, right_sibling st p = Some q -> p_level q = p_level p.
Proof.
  intros st p q H. unfold right_sibling in H. destruct (keys_ge _ _) as [|k r]; [discriminate|].
  destruct (exists_ st p); [destruct r; inversion H; reflexivity|inversion H; reflexivity].
Qed.
Lemma parent_of_level : forall st p, p_level (parent_of st p) = S (p_level p).
Proof.
  intros st p. unfold parent_of, ptr_get. destruct (exists_ st _); [reflexivity|].
  destruct (left_sibling st _) as [q|] eqn:E; simpl.
  - destruct (exists_ st q); [|reflexivity]. apply left_sibling_level in E. exact E.
  - reflexivity.
Qed.

Lemma update_acc_frame : forall fuel st p c st', (1 <= p_level p)%nat ->
  update_acc fuel st p c = Ok st' -> frame0 st st'.
Proof.
  induction fuel as [|f IH]; intros st p c st' Hl H; [discriminate|].
  cbn [update_acc] in H. destruct (exists_ st p); cbn [negb] in H; [|inversion H; apply frame0_refl].
  destruct (find (node_of st p) (fst c)) as [idx mt]. destruct mt; cbn [negb] in H; [|discriminate].
  eapply frame0_trans; [|eapply IH; [|exact H]; rewrite parent_of_level; lia].
  unfold p_skey. apply frame0_set; auto.
Qed.

Lemma push_frame : forall fuel m st p c st', (1 <= p_level p)%nat ->
  push fuel m st p c = Ok st' -> frame0 st st'.
Proof.
  induction fuel as [|f IH]; intros m st p c st' Hl H; [discriminate|].
  cbn [push] in H. destruct (exists_ st p); cbn [negb] in H.
  2: { inversion H; subst. unfold p_skey. apply frame0_set; auto. }
  destruct (find (node_of st p) (fst c)) as [idx mt]. destruct mt.
  { eapply update_acc_frame; eauto. }
  set (cs := insert (node_of st p) idx c) in *.
  destruct (Nat.ltb m (length cs)).
  - unfold split in H. destruct (nth_error cs (split_at m)) as [[sk x]|]; [|discriminate].
    set (st1 := st_set st (p_level p, sk) (skipn (split_at m) cs)) in *.
    assert (frame0 st st1) as F1 by (apply frame0_set; auto).
    destruct (exists_ st1 (parent_of st p)); cbn [negb] in H.
    + destruct (push f m st1 (parent_of st p) _) as [st2|e] eqn:E2; cbn [bind] in H; [|discriminate].
      assert (frame0 st1 st2) as F2 by (eapply IH; [|exact E2]; rewrite parent_of_level; lia).
      destruct (update_acc f st2 (parent_of st2 p) _) as [st3|e] eqn:E3; cbn [bind] in H; [|discriminate].
      assert (frame0 st2 st3) as F3 by (eapply update_acc_frame; [|exact E3]; rewrite parent_of_level; lia).
      inversion H; subst. unfold p_skey.
      eapply frame0_trans; [exact F1|]. eapply frame0_trans; [exact F2|]. eapply frame0_trans; [exact F3|].
      apply frame0_set; auto.
    + inversion H; subst.
      eapply frame0_trans; [exact F1|].
      eapply frame0_trans; [|unfold p_skey; apply frame0_set; auto].
      unfold p_skey. apply frame0_set. rewrite parent_of_level; lia.
  - destruct (update_acc f st (parent_of st p) _) as [st2|e] eqn:E2; cbn [bind] in H; [|discriminate].
    assert (frame0 st st2) as F2 by (eapply update_acc_frame; [|exact E2]; rewrite parent_of_level; lia).
    inversion H; subst. unfold p_skey. eapply frame0_trans; [exact F2|]. apply frame0_set; auto.
Qed.

Lemma pull_frame : forall fuel m st p k st', (1 <= p_level p)%nat ->
  pull fuel m st p k = Ok st' -> frame0 st st'.
Proof.
  induction fuel as [|f IH]; intros m st p k st' Hl H; [discriminate|].
  cbn [pull] in H. destruct (exists_ st p); cbn [negb] in H; [|inversion H; apply frame0_refl].
  destruct (find (node_of st p) k) as [idx mt]. destruct mt; cbn [negb] in H; [|discriminate].
  set (nd := delete (node_of st p) idx) in *.
  destruct (Nat.ltb 0 (length nd)).
  - eapply (frame0_trans _ (st_set st (p_skey p) nd)); [unfold p_skey; apply frame0_set; exact Hl|].
    eapply update_acc_frame; [|exact H]. rewrite parent_of_level; lia.
  - set (st1 := st_del st (p_skey p)) in *.
    assert (frame0 st st1) as F1 by (unfold st1, p_skey; apply frame0_del; auto).
    destruct (pull f m st1 (parent_of st p) (p_key p)) as [st2|e] eqn:E2; cbn [bind] in H; [|discriminate].
    assert (frame0 st1 st2) as F2 by (eapply IH; [|exact E2]; rewrite parent_of_level; lia).
    assert (frame0 st st2) as F12 by (eapply frame0_trans; eauto).
    destruct (exists_opt st2 (left_sibling st p) && exists_opt st2 (right_sibling st p)); [|inversion H; subst; exact F12].
    destruct (left_sibling st p) as [lp|] eqn:EL; [|inversion H; subst; exact F12].
    destruct (right_sibling st p) as [rp|] eqn:ER; [|inversion H; subst; exact F12].
    pose proof (left_sibling_level _ _ _ EL) as HLl. pose proof (right_sibling_level _ _ _ ER) as HRl.
    destruct (key_eqb _ _); [|inversion H; subst; exact F12].
    destruct (Nat.ltb _ m); [|inversion H; subst; exact F12].
    set (st3 := st_set st2 (p_skey lp) (merge (node_of st2 lp) (node_of st2 rp))) in *.
    set (st4 := st_del st3 (p_skey rp)) in *.
    assert (frame0 st2 st4) as F34.
    { eapply (frame0_trans _ st3); [unfold st3, p_skey; apply frame0_set; lia|unfold st4, p_skey; apply frame0_del; lia]. }
    destruct (pull f m st4 (parent_of st2 lp) (p_key rp)) as [st5|e] eqn:E5; cbn [bind] in H; [|discriminate].
    assert (frame0 st4 st5) as F5 by (eapply IH; [|exact E5]; rewrite parent_of_level; lia).
    eapply frame0_trans; [exact F12|]. eapply frame0_trans; [exact F34|]. eapply frame0_trans; [exact F5|].
    eapply update_acc_frame; [|exact H]. rewrite parent_of_level; lia.
Qed.

(* ------------------------------------------------------------------------------------------ *)
(* the leaves: sorted, every leaf a single (own key, value) entry *)
Definition leaves_ok (st : list ((nat * key) * list (key * Z))) : Prop :=
  sorted_store st /\ Forall leaf_ok (nodes_at st 0).

Lemma leaves_abs_sorted : forall st, leaves_ok st -> asorted (abs st).
Proof. intros st [Hs _]. unfold abs, sums_at. fold (sums (nodes_at st 0)). apply asorted_sums, nodes_at_sorted; auto. Qed.

Lemma leaves_get : forall st k, leaves_ok st -> tree_get st k = sm_get (abs st) k.
Proof.
  intros st k [Hs Hl]. unfold tree_get, sm_get, abs, sums_at. fold (sums (nodes_at st 0)).
  rewrite sm_find_al_get by (apply asorted_sums; apply nodes_at_sorted; auto).
  rewrite al_get_sums, st_get_nodes_at by auto.
  destruct (al_get (nodes_at st 0) k) as [n|] eqn:G; simpl; auto.
  apply al_get_some_in in G. eapply Forall_forall in Hl; eauto. destruct Hl as (v & E); simpl in E; subst n.
  simpl. lia.
Qed.

Lemma leaves_iterate : forall st b e, leaves_ok st -> iterate st b e = sm_iter (abs st) b e.
Proof.
  intros st b e [Hs Hl]. unfold iterate, sm_iter, abs, sums_at. fold (sums (nodes_at st 0)).
  rewrite level_keys_nodes_at. apply iter_leaves.
  intros k n Hin. unfold tree_get. rewrite st_get_nodes_at by auto. rewrite (al_in_get _ _ _ (nodes_at_sorted st 0 Hs) Hin).
  eapply Forall_forall in Hl; eauto. destruct Hl as (v & E); simpl in E; subst n. simpl. lia.
Qed.

Lemma al_del_absent : forall {V} (l : list (key * V)) k, asorted l -> al_get l k = None -> al_del l k = l.
Proof.
  induction l as [|[k1 v1] l IH]; simpl; intros k Hs H; auto.
  destruct (asorted_cons_inv _ _ _ Hs) as [Hs' _].
  destruct (key_cmp k k1); try discriminate; auto. f_equal; auto.
Qed.
Lemma Forall_al_del : forall {V} (P : key * V -> Prop) (l : list (key * V)) k, Forall P l -> Forall P (al_del l k).
Proof.
  induction l as [|[k1 v1] l IH]; simpl; intros k Hl; auto. inversion Hl; subst.
  destruct (key_cmp k k1); auto.
Qed.

(* one operation: whatever happens to the levels above, the leaves follow the sorted map *)
Lemma apply_op_leaves : forall m st o st', leaves_ok st -> apply_op m st o = Ok st' ->
  leaves_ok st' /\ abs st' = sm_apply (abs st) o.
Proof.
  assert (forall m st k n v st', leaves_ok st -> tree_set m st k n v = Ok st' ->
            leaves_ok st' /\ abs st' = sm_set (abs st) k v) as Hset.
  { intros m st k n v st' [Hs Hl] H. unfold tree_set, ptr_get, p_skey in H. cbn [p_level p_key] in H.
    set (st1 := st_set st (0%nat, k) [(k, v)]) in *.
    assert (sorted_store st1) as Hs1 by (apply st_set_sorted; auto).
    assert (nodes_at st1 0 = al_set (nodes_at st 0) k [(k, v)]) as E1 by (apply nodes_at_set_same; auto).
    assert (1 <= p_level (parent_of st1 (mkPtr 0 k n)))%nat as Hlv by (rewrite parent_of_level; simpl; lia).
    destruct (push_frame _ _ _ _ _ _ Hlv H) as [E0 S0].
    split; [split; [auto|]|].
    - rewrite E0, E1. apply Forall_al_set; auto. exists v; reflexivity.
    - unfold abs, sums_at. rewrite E0, E1.
      fold (sums (al_set (nodes_at st 0) k [(k, v)])) (sums (nodes_at st 0)). rewrite sums_al_set. simpl. rewrite Z.add_0_r. reflexivity. }
  intros m st o st' L H. destruct o as [k n v|k n v|k n v|k n]; cbn [apply_op sm_apply] in *.
  - eapply Hset; eauto.
  - unfold tree_increase in H. rewrite (leaves_get st k L) in H. eapply Hset; eauto.
  - unfold tree_decrease, tree_increase in H. rewrite (leaves_get st k L) in H.
    replace (sm_get (abs st) k - v) with (sm_get (abs st) k + - v) by lia. eapply Hset; eauto.
  - destruct L as [Hs Hl]. unfold tree_remove, ptr_get in H.
    assert (exists_ st (mkPtr 0 k n) = match al_get (nodes_at st 0) k with Some _ => true | None => false end) as Eex.
    { unfold exists_, p_skey; simpl. apply st_has_nodes_at; auto. }
    rewrite Eex in H.
    assert (forall st'', nodes_at st'' 0 = al_del (nodes_at st 0) k -> sorted_store st'' ->
              leaves_ok st'' /\ abs st'' = sm_remove (abs st) k) as Hfin.
    { intros st'' E S. split; [split; [auto|rewrite E; apply Forall_al_del; auto]|].
      unfold abs, sums_at. rewrite E. fold (sums (al_del (nodes_at st 0) k)) (sums (nodes_at st 0)). apply sums_al_del. }
    destruct (al_get (nodes_at st 0) k) as [nk|] eqn:G; cbn [negb] in H.
    + set (st1 := st_del st (p_skey (mkPtr 0 k n))) in *.
      assert (sorted_store st1) as Hs1 by (apply st_del_sorted; auto).
      assert (nodes_at st1 0 = al_del (nodes_at st 0) k) as E1 by (unfold st1, p_skey; simpl; apply nodes_at_del_same; auto).
      assert (1 <= p_level (parent_of st (mkPtr 0 k n)))%nat as Hlv by (rewrite parent_of_level; simpl; lia).
      destruct (pull_frame _ _ _ _ _ _ Hlv H) as [E0 S0].
      apply Hfin; [rewrite E0; exact E1|auto].
    + inversion H; subst st'. apply Hfin; auto.
      symmetry. apply al_del_absent; auto. apply nodes_at_sorted; auto.
Qed.

Lemma run_leaves : forall m ops st st', leaves_ok st -> run m st ops = Ok st' ->
  leaves_ok st' /\ abs st' = sm_run (abs st) ops.
Proof.
  intros m ops. induction ops as [|o ops IH]; intros st st' L H.
  - inversion H; subst. split; auto.
  - cbn [run] in H. destruct (apply_op m st o) as [st1|e] eqn:E1; cbn [bind] in H; [|discriminate].
    destruct (apply_op_leaves m st o st1 L E1) as [L1 A1].
    destruct (IH st1 st' L1 H) as [L' A']. split; auto. rewrite A', A1. reflexivity.
Qed.

(* every history - Remove included - that does not panic: the stored leaves are the sorted map's contents; so Get and ordered
   iteration answer like the map even where finding F2 has damaged the levels above; and if the store still satisfies WF,
   every other query does too *)
Lemma leaves_tracked : forall m ops st, run_new m ops = Ok st ->
  abs st = sm_run sm_init ops /\
  (forall k, tree_get st k = sm_get (sm_run sm_init ops) k) /\
  (forall b e, iterate st b e = sm_iter (sm_run sm_init ops) b e) /\
  (forall b e, rev_iterate st b e = sm_rev_iter (sm_run sm_init ops) b e) /\
  (WF m st -> answers_actual st (sm_run sm_init ops)).
Proof.
  intros m ops st H. unfold run_new in H. rewrite new_tree_eq in H. cbn [bind] in H.
  assert (leaves_ok store0) as L0.
  { split; [repeat constructor|]. repeat constructor. exists 0; reflexivity. }
  destruct (run_leaves m ops store0 st L0 H) as [L A].
  assert (abs st = sm_run sm_init ops) as A' by (rewrite A; reflexivity).
  split; [exact A'|]. rewrite <- A'. split; [|split; [|split]].
  - intros k. apply leaves_get; auto.
  - intros b e. apply leaves_iterate; auto.
  - intros b e. unfold rev_iterate, sm_rev_iter. rewrite leaves_iterate; auto.
  - intros W. apply (wf_answers m); auto.
Qed.
