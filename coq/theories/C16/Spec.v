(* C16 specification: a plain sorted map (strictly sorted association list) from byte-string keys to
   integers, with the queries the sum-tree offers.  No proofs in this file. *)
From Coq Require Import ZArith List Bool.
Import ListNotations.
From Osmo Require Import C16.Model.
Open Scope Z_scope.

Definition smap := list (key * Z).

Fixpoint sm_set (s : smap) (k : key) (v : Z) : smap :=
  match s with
  | [] => [(k, v)]
  | (k', v') :: r => match key_cmp k k' with
                     | Eq => (k, v) :: r
                     | Lt => (k, v) :: s
                     | Gt => (k', v') :: sm_set r k v
                     end
  end.
Fixpoint sm_remove (s : smap) (k : key) : smap :=
  match s with
  | [] => []
  | (k', v') :: r => match key_cmp k k' with
                     | Eq => r
                     | Lt => s
                     | Gt => (k', v') :: sm_remove r k
                     end
  end.
Fixpoint sm_find (s : smap) (k : key) : option Z :=
  match s with
  | [] => None
  | (k', v') :: r => if key_eqb k k' then Some v' else sm_find r k
  end.
(* point lookup: absent keys read as 0 *)
Definition sm_get (s : smap) (k : key) : Z := match sm_find s k with Some v => v | None => 0 end.

Fixpoint sm_sum (s : smap) : Z := match s with [] => 0 | (_, v) :: r => v + sm_sum r end.
Definition sm_filter (f : key -> bool) (s : smap) : smap := filter (fun kv => f (fst kv)) s.

(* three-way split at q *)
Definition sm_left (s : smap) (q : key) : Z := sm_sum (sm_filter (fun k => key_ltb k q) s).
Definition sm_exact (s : smap) (q : key) : Z := sm_get s q.
Definition sm_right (s : smap) (q : key) : Z := sm_sum (sm_filter (fun k => key_ltb q k) s).
Definition sm_split (s : smap) (q : key) : Z * Z * Z := (sm_left s q, sm_exact s q, sm_right s q).

(* subset sum over [lo, hi], both inclusive; None = unbounded on that side *)
Definition sm_subset (s : smap) (lo hi : option key) : Z :=
  sm_sum (sm_filter (fun k => match lo with None => true | Some l => key_leb l k end &&
                              match hi with None => true | Some h => key_leb k h end) s).
(* prefix sum: keys <= hi *)
Definition sm_prefix (s : smap) (hi : key) : Z := sm_subset s None (Some hi).
Definition sm_total (s : smap) : Z := sm_sum s.

(* ordered iteration over [b, e) (e = None: to the end), forward and reverse *)
Definition sm_iter (s : smap) (b : key) (e : option key) : smap := sm_filter (in_range b e) s.
Definition sm_rev_iter (s : smap) (b : key) (e : option key) : smap := rev (sm_iter s b e).

(* the contents after NewTree: the empty key with value 0 *)
Definition sm_init : smap := [([], 0)].

Definition sm_apply (s : smap) (o : op) : smap :=
  match o with
  | OSet k _ v => sm_set s k v
  | OInc k _ v => sm_set s k (sm_get s k + v)
  | ODec k _ v => sm_set s k (sm_get s k - v)
  | ORemove k _ => sm_remove s k
  end.
Definition sm_run (s : smap) (ops : list op) : smap := fold_left sm_apply ops s.
