(* C16: generic lemmas on association lists keyed by byte strings and kept strictly sorted
   (used for: child lists of a node, the nodes of one level, the specification map). *)
From Coq Require Import ZArith List Bool Lia Sorted.
Import ListNotations.
From Osmo Require Import C16.Model C16.Keys.

Section Assoc.
Context {V : Type}.
Notation al := (list (key * V)) (only parsing).

Fixpoint al_set (l : al) (k : key) (v : V) : al :=
  match l with
  | [] => [(k, v)]
  | (k', v') :: r => match key_cmp k k' with
                     | Eq => (k, v) :: r
                     | Lt => (k, v) :: l
                     | Gt => (k', v') :: al_set r k v
                     end
  end.
Fixpoint al_get (l : al) (k : key) : option V :=
  match l with
  | [] => None
  | (k', v') :: r => match key_cmp k k' with Eq => Some v' | Lt => None | Gt => al_get r k end
  end.
Definition akeys (l : al) : list key := map fst l.
Definition asorted (l : al) : Prop := ksorted (akeys l).

Lemma akeys_app : forall a b, akeys (a ++ b) = akeys a ++ akeys b.
Proof. intros; unfold akeys; apply map_app. Qed.

Lemma asorted_cons_inv : forall k v l, asorted ((k, v) :: l) -> asorted l /\ Forall (klt k) (akeys l).
Proof. intros k v l H; inversion H; auto. Qed.

Lemma asorted_app : forall a b, asorted (a ++ b) ->
  asorted a /\ asorted b /\ forall x y, In x (akeys a) -> In y (akeys b) -> klt x y.
Proof. intros a b H; unfold asorted in *; rewrite akeys_app in H; apply ksorted_app; auto. Qed.

Lemma asorted_app_intro : forall a b, asorted a -> asorted b ->
  (forall x y, In x (akeys a) -> In y (akeys b) -> klt x y) -> asorted (a ++ b).
Proof. intros; unfold asorted; rewrite akeys_app; apply ksorted_app_intro; auto. Qed.

(* set at / between the parts of a decomposition *)
Lemma al_set_mid : forall l1 l2 k v v',
  asorted (l1 ++ (k, v) :: l2) -> al_set (l1 ++ (k, v) :: l2) k v' = l1 ++ (k, v') :: l2.
Proof.
  induction l1 as [|[k1 v1] l1 IH]; simpl; intros l2 k v v' H.
  - rewrite key_cmp_refl; auto.
  - apply asorted_cons_inv in H; destruct H as [Hs Hf].
    assert (klt k1 k) as Hlt.
    { eapply Forall_forall in Hf; eauto. rewrite akeys_app; apply in_or_app; right; simpl; auto. }
    replace (key_cmp k k1) with Gt by (symmetry; apply key_cmp_gt_lt; auto).
    f_equal; eauto.
Qed.

Lemma al_set_insert : forall l1 l2 k v,
  (forall x, In x (akeys l1) -> klt x k) -> (forall y, In y (akeys l2) -> klt k y) ->
  al_set (l1 ++ l2) k v = l1 ++ (k, v) :: l2.
Proof.
  induction l1 as [|[k1 v1] l1 IH]; simpl; intros l2 k v H1 H2.
  - destruct l2 as [|[k2 v2] l2]; simpl; auto.
    replace (key_cmp k k2) with Lt by (symmetry; apply H2; simpl; auto). auto.
  - replace (key_cmp k k1) with Gt by (symmetry; apply key_cmp_gt_lt; apply H1; auto).
    f_equal; apply IH; auto.
Qed.

Lemma al_get_mid : forall l1 l2 k v,
  asorted (l1 ++ (k, v) :: l2) -> al_get (l1 ++ (k, v) :: l2) k = Some v.
Proof.
  induction l1 as [|[k1 v1] l1 IH]; simpl; intros l2 k v H.
  - rewrite key_cmp_refl; auto.
  - apply asorted_cons_inv in H; destruct H as [Hs Hf].
    assert (klt k1 k) as Hlt.
    { eapply Forall_forall in Hf; eauto. rewrite akeys_app; apply in_or_app; right; simpl; auto. }
    replace (key_cmp k k1) with Gt by (symmetry; apply key_cmp_gt_lt; auto). eauto.
Qed.

Lemma al_get_none : forall l k, asorted l -> ~ In k (akeys l) -> al_get l k = None.
Proof.
  induction l as [|[k1 v1] l IH]; simpl; intros k Hs Hn; auto.
  apply asorted_cons_inv in Hs; destruct Hs as [Hs Hf].
  destruct (key_cmp k k1) eqn:E; auto.
  - apply key_cmp_eq in E; subst; exfalso; auto.
Qed.

Lemma al_get_some_in : forall l k v, al_get l k = Some v -> In (k, v) l.
Proof.
  induction l as [|[k1 v1] l IH]; simpl; intros k v H; try discriminate.
  destruct (key_cmp k k1) eqn:E; try discriminate.
  - apply key_cmp_eq in E; inversion H; subst; auto.
  - right; auto.
Qed.

Lemma al_in_get : forall l k v, asorted l -> In (k, v) l -> al_get l k = Some v.
Proof.
  intros l k v Hs Hin. apply in_split in Hin. destruct Hin as (l1 & l2 & ->). apply al_get_mid; auto.
Qed.

Lemma akeys_al_set : forall l k v x, In x (akeys (al_set l k v)) <-> x = k \/ In x (akeys l).
Proof.
  induction l as [|[k1 v1] l IH]; simpl; intros k v x.
  - intuition.
  - destruct (key_cmp k k1) eqn:E; simpl.
    + apply key_cmp_eq in E; subst. intuition.
    + intuition.
    + rewrite IH. intuition.
Qed.

Lemma al_set_sorted : forall l k v, asorted l -> asorted (al_set l k v).
Proof.
  induction l as [|[k1 v1] l IH]; simpl; intros k v Hs.
  - repeat constructor.
  - destruct (asorted_cons_inv _ _ _ Hs) as [Hs' Hf].
    destruct (key_cmp k k1) eqn:E.
    + apply key_cmp_eq in E; subst. exact Hs.
    + unfold asorted; simpl; constructor; [exact Hs|].
      constructor; auto. eapply Forall_impl; [|exact Hf]. intros; eapply klt_trans; eauto.
    + unfold asorted; simpl; constructor; [apply IH; auto|].
      apply Forall_forall; intros x Hx. apply akeys_al_set in Hx. destruct Hx as [->|Hx].
      * apply key_cmp_gt_lt; auto.
      * eapply Forall_forall in Hf; eauto.
Qed.

Lemma al_get_set_same : forall l k v, al_get (al_set l k v) k = Some v.
Proof.
  induction l as [|[k1 v1] l IH]; simpl; intros k v.
  - rewrite key_cmp_refl; auto.
  - destruct (key_cmp k k1) eqn:E; simpl; rewrite ?key_cmp_refl, ?E; auto.
Qed.

Lemma al_get_set_other : forall l k v k', k' <> k -> asorted l -> al_get (al_set l k v) k' = al_get l k'.
Proof.
  induction l as [|[k1 v1] l IH]; simpl; intros k v k' Hne Hs.
  - destruct (key_cmp k' k) eqn:E; auto. apply key_cmp_eq in E; congruence.
  - destruct (asorted_cons_inv _ _ _ Hs) as [Hs' Hf].
    destruct (key_cmp k k1) eqn:E; simpl.
    + apply key_cmp_eq in E; subst. destruct (key_cmp k' k1) eqn:E2; auto. apply key_cmp_eq in E2; congruence.
    + destruct (key_cmp k' k) eqn:E2.
      * apply key_cmp_eq in E2; congruence.
      * replace (key_cmp k' k1) with Lt; auto. symmetry; eapply key_cmp_lt_trans; eauto.
      * auto.
    + destruct (key_cmp k' k1) eqn:E2; auto.
Qed.

(* the last entry whose key is <= q *)
Lemma floor_split : forall l q, asorted l -> (exists k0 v0 r, l = (k0, v0) :: r /\ kle k0 q) ->
  exists l1 k v l2, l = l1 ++ (k, v) :: l2 /\ kle k q /\ (forall y, In y (akeys l2) -> klt q y).
Proof.
  induction l as [|[k1 v1] l IH]; intros q Hs (k0 & v0 & r & E & Hle); inversion E; subst.
  destruct (asorted_cons_inv _ _ _ Hs) as [Hs' Hf].
  destruct r as [|[k2 v2] r].
  - exists [], k0, v0, []. simpl; repeat split; auto. intros ? [].
  - destruct (key_leb k2 q) eqn:E2.
    + apply key_leb_true in E2. destruct (IH q Hs') as (l1 & k & v & l2 & El & Hk & Hl2).
      { exists k2, v2, r; auto. }
      exists ((k0, v0) :: l1), k, v, l2. rewrite El. simpl; repeat split; auto.
    + apply key_leb_false in E2. exists [], k0, v0, ((k2, v2) :: r). simpl; repeat split; auto.
      intros y [<-|Hy]; auto. apply asorted_cons_inv in Hs'; destruct Hs' as [_ Hf2].
      eapply Forall_forall in Hf2; eauto. eapply klt_trans; eauto.
Qed.

End Assoc.

Notation al V := (list (key * V)) (only parsing).

(* mapping the values commutes with set *)
Lemma map_al_set : forall {V W} (f : key -> V -> W) (l : al V) k v,
  map (fun kv => (fst kv, f (fst kv) (snd kv))) (al_set l k v) =
  al_set (map (fun kv => (fst kv, f (fst kv) (snd kv))) l) k (f k v).
Proof.
  induction l as [|[k1 v1] l IH]; simpl; intros k v; auto.
  destruct (key_cmp k k1) eqn:E; simpl; auto. f_equal; auto.
Qed.
Lemma akeys_map : forall {V W} (f : key -> V -> W) (l : al V),
  akeys (map (fun kv => (fst kv, f (fst kv) (snd kv))) l) = akeys l.
Proof. intros; unfold akeys; rewrite map_map; simpl; auto. Qed.
