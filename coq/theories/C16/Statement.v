(* C16: the well-formedness invariant (DESIGN 9.4) and the refinement relation between the stored tree
   and a plain sorted map, used by the property statements.  Definitions only. *)
From Coq Require Import ZArith List Bool Sorted.
Import ListNotations.
From Osmo Require Import C16.Model C16.Spec.
Open Scope Z_scope.

(* the nodes of one level in store (= key) order *)
Definition nodes_at (st : store) (L : nat) : list (key * node) :=
  map (fun e => (snd (fst e), snd e)) (filter (fun e => Nat.eqb (fst (fst e)) L) st).
(* all child entries of a level, node after node *)
Definition flat_children (st : store) (L : nat) : list child := flat_map snd (nodes_at st L).
(* (key, sum of its entries) of every node of a level *)
Definition sums_at (st : store) (L : nat) : list child :=
  map (fun kn => (fst kn, accumulate (snd kn))) (nodes_at st L).

Definition skey_lt (a b : skey) : Prop := skey_cmp a b = Lt.
Definition sorted_store (st : store) : Prop := StronglySorted (fun a b => skey_lt (fst a) (fst b)) st.

(* node key = key of its first entry (so the node is not empty) *)
Definition headed (kn : key * node) : Prop := exists a r, snd kn = (fst kn, a) :: r.

(* level J (>= 1) is consistent with level J-1: its child entries, read left to right over the whole level, are exactly
   the nodes of level J-1 in key order, each with the sum of that node's entries; every node is keyed by its first
   entry; at most m entries per node.  With the store sorted this is DESIGN 9.4 (b)+(c): node (J, k_j) lists exactly the
   level-(J-1) nodes with key in [k_j, k_{j+1}). *)
Definition level_ok (m : nat) (st : store) (J : nat) : Prop :=
  flat_children st J = sums_at st (J - 1) /\
  Forall headed (nodes_at st J) /\
  Forall (fun kn => (length (snd kn) <= m)%nat) (nodes_at st J).

Definition leaf_ok (kn : key * node) : Prop := exists v, snd kn = [(fst kn, v)].

Record WF (m : nat) (st : store) : Prop := mkWF {
  wf_sorted : sorted_store st;
  wf_leaves : Forall leaf_ok (nodes_at st 0);
  wf_levels : exists H, (1 <= H)%nat /\
                level_keys st H = [[]] /\                                (* (d) one node at the top, keyed by the empty key *)
                (forall L, (H < L)%nat -> level_keys st L = []) /\
                (forall J, (1 <= J <= H)%nat -> level_ok m st J) }.

(* the map a store represents: its leaves *)
Definition abs (st : store) : smap := sums_at st 0.

Definition is_remove (o : op) : bool := match o with ORemove _ _ => true | _ => false end.
Definition set_only (ops : list op) : Prop := forallb (fun o => negb (is_remove o)) ops = true.

Definition key_le_opt (lo hi : option key) : Prop :=
  match lo, hi with Some l, Some h => key_leb l h = true | _, _ => True end.

(* what SubsetAccumulation(start, end) computes when the splits are right (the code's formula): for start <= end it is
   the subset sum; for (nil, nil) it is left+exact of a split at the empty key, i.e. the empty key's value (and for
   start > end minus the sum strictly between) - both outside the documented domain *)
Definition code_subset (s : smap) (lo hi : option key) : Z :=
  match lo, hi with
  | None, None => sm_left s [] + sm_exact s []
  | None, Some h => sm_left s h + sm_exact s h
  | Some l, None => sm_exact s l + sm_right s l
  | Some l, Some h => sm_exact s l + sm_right s l - sm_right s h
  end.

(* every query of the stored tree answers like the sorted map [s]; SubsetAccumulation is additionally described for ALL
   argument pairs by the code's formula [code_subset] *)
Record answers_actual (st : store) (s : smap) : Prop := mkAns {
  an_abs : abs st = s;
  an_get : forall k, tree_get st k = sm_get s k;
  an_split : forall q, split_acc st q = Ok (sm_split s q);
  an_subset_code : forall lo hi, subset_acc st lo hi = Ok (code_subset s lo hi);
  an_subset : forall lo hi, key_le_opt lo hi -> (lo <> None \/ hi <> None) ->
              subset_acc st lo hi = Ok (sm_subset s lo hi);
  an_prefix : forall h, prefix_sum st (Some h) = Ok (sm_prefix s h);
  an_total : total_acc st = Ok (sm_total s);
  an_split_total : forall q, sm_left s q + sm_exact s q + sm_right s q = sm_total s;
  an_iter : forall b e, iterate st b e = sm_iter s b e;
  an_rev_iter : forall b e, rev_iterate st b e = sm_rev_iter s b e }.

(* ... and as the property demands for every history (Remove included, and SubsetAccumulation(nil, nil) = everything) *)
Record answers_full (st : store) (s : smap) : Prop := mkAnsFull {
  af_get : forall k, tree_get st k = sm_get s k;
  af_split : forall q, split_acc st q = Ok (sm_split s q);
  af_subset : forall lo hi, key_le_opt lo hi -> subset_acc st lo hi = Ok (sm_subset s lo hi);
  af_prefix : forall h, prefix_sum st (Some h) = Ok (sm_prefix s h);
  af_total : total_acc st = Ok (sm_total s);
  af_iter : forall b e, iterate st b e = sm_iter s b e;
  af_rev_iter : forall b e, rev_iterate st b e = sm_rev_iter s b e }.

(* the history [ops] on a fresh tree of fan-out m *)
Definition run_new (m : nat) (ops : list op) : result store :=
  st0 <- new_tree m ;; run m st0 ops.

(* C16 at full strength: every history of set / increase / decrease / remove, every fan-out >= 2: no panic, the invariant
   holds and every query answers like the sorted map with the same contents *)
Definition C16_full_statement : Prop :=
  forall m ops, (2 <= m)%nat ->
    exists st, run_new m ops = Ok st /\ WF m st /\ answers_full st (sm_run sm_init ops).
