(* C16 correspondence glue: run the model on a harness case and flatten its observables in exactly the
   layout harness/c16drv prints (see props/c16.py parse_block). *)
From Coq Require Import ZArith List Bool.
Import ListNotations.
From Osmo Require Import Base.Obs C16.Model.
Open Scope Z_scope.

Record case := mkCase {
  c_m : nat;
  c_quiet : nat;                 (* no block is observed after the first c_quiet operations (status only) *)
  c_uni : list key;              (* Get is asked for each *)
  c_q : list key;                (* split / subset / prefix queries for all (pairs of) these *)
  c_ranges : list (key * key);   (* ranged forward + reverse iteration *)
  c_ops : list op;
  c_expect : list Z }.           (* implementation's flattened observations (case_ok_full) or their digest (case_ok) *)

Definition err_code (e : err) : Z :=
  match e with EIndex => 1 | ENilDeref => 2 | EPushMissing => 3 | EPullMissing => 4 | EFuel => 7 end.

Definition flat_key (k : key) : list Z := Z.of_nat (length k) :: k.
Definition flat_z (r : result Z) : list Z := match r with Ok v => [0; v] | Err e => [err_code e; 0] end.
Definition flat_split (r : result (Z * Z * Z)) : list Z :=
  match r with Ok (l, e, rt) => [0; l; e; rt] | Err e => [err_code e; 0; 0; 0] end.
Definition flat_iter (l : list (key * Z)) : list Z :=
  0 :: Z.of_nat (length l) :: flat_map (fun kv => flat_key (fst kv) ++ [snd kv]) l.
Definition flat_entry (e : skey * node) : list Z :=
  Z.of_nat (fst (fst e)) :: flat_key (snd (fst e)) ++
  Z.of_nat (length (snd e)) :: flat_map (fun c => flat_key (fst c) ++ [snd c]) (snd e).
Definition flat_dump (st : store) : list Z := 0 :: Z.of_nat (length st) :: flat_map flat_entry st.

(* all (start, end) pairs over (nil :: q), (nil, nil) included *)
Definition ends (q : list key) : list (option key) := None :: map Some q.
Definition subset_pairs (q : list key) : list (option key * option key) :=
  flat_map (fun s => map (fun e => (s, e)) (ends q)) (ends q).

Definition block (c : case) (st : store) : list Z :=
  flat_map (fun k => [0; tree_get st k]) (c_uni c) ++
  flat_map (fun k => flat_split (split_acc st k)) (c_q c) ++
  flat_map (fun se => flat_z (subset_acc st (fst se) (snd se))) (subset_pairs (c_q c)) ++
  flat_map (fun e => flat_z (prefix_sum st e)) (ends (c_q c)) ++
  flat_z (total_acc st) ++
  flat_iter (iterate st [] None) ++
  flat_iter (rev_iterate st [] None) ++
  flat_map (fun be => flat_iter (iterate st (fst be) (Some (snd be))) ++
                      flat_iter (rev_iterate st (fst be) (Some (snd be)))) (c_ranges c) ++
  flat_dump st.

Fixpoint steps (c : case) (st : store) (quiet : nat) (ops : list op) : list Z :=
  match ops with
  | [] => []
  | o :: r => match apply_op (c_m c) st o with
              | Ok st' => match quiet with
                          | O => 0 :: block c st' ++ steps c st' O r
                          | S q => 0 :: steps c st' q r
                          end
              | Err e => [err_code e]               (* the history ends at the first panicking mutation *)
              end
  end.

Definition model_obs (c : case) : list Z :=
  match new_tree (c_m c) with
  | Ok st => 0 :: block c st ++ steps c st (c_quiet c) (c_ops c)
  | Err e => [err_code e]
  end.

(* exact comparison against the full observation list (used for replays and small runs) *)
Definition case_ok_full (c : case) : bool := zlist_eqb (model_obs c) (c_expect c).

(* Bulk runs: Coq's front end reads only a few thousand numerals per second, and one 40-op history has ~10^4
   observations, so the harness sends a digest of the implementation's observation list instead of the list:
   its length n, the sum s1 of its (sign-folded) elements, the position-weighted sum s2 = sum of the running
   sums (both unbounded), and a polynomial hash modulo 2^64 with an odd multiplier (no division: [Z.land]).
   The model's full observation list is computed and digested here in the same way; props/c16.py [digest] is
   the same function on the implementation's list.  A single differing element always changes s1; the hash
   covers permutations and compensating differences. *)
Definition MASK64 : Z := 18446744073709551615.                     (* 2^64 - 1 *)
Definition HB : Z := 4294967311.                                   (* 2^32 + 15 *)
Definition enc (x : Z) : Z := if x <? 0 then 2 * (- x) + 1 else 2 * x.
Fixpoint digest_from (l : list Z) (n s1 s2 h : Z) : list Z :=
  match l with
  | [] => [n; s1; s2; h]
  | x :: r => let e := enc x in
              let s1' := s1 + e in
              digest_from r (n + 1) s1' (s2 + s1') (Z.land (HB * h + e) MASK64)
  end.
Definition digest (l : list Z) : list Z := digest_from l 0 0 0 7.
Definition model_digest (c : case) : list Z := digest (model_obs c).
Definition case_ok (c : case) : bool := zlist_eqb (model_digest c) (c_expect c).
