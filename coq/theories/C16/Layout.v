(* C16: the raw byte layout of tree.nodeKey, "node/" ++ be16(level) ++ key, is order-isomorphic to the
   (level, key) pairs the model's store is keyed by; and the iterator bounds the code builds
   (nodeKey(level, begin), nodeKey(level, end), PrefixEndBytes(nodeKey(level, nil))) select exactly the
   entries of one level with begin <= key (< end). *)
From Coq Require Import ZArith List Bool Lia.
Import ListNotations.
From Osmo Require Import C16.Model C16.Keys.
Open Scope Z_scope.

Lemma key_cmp_app_same : forall p a b, key_cmp (p ++ a) (p ++ b) = key_cmp a b.
Proof. induction p as [|x p IH]; intros; simpl; auto. rewrite Z.compare_refl; auto. Qed.

Lemma be16_cmp : forall l1 l2 : nat,
  match Z.compare (Z.of_nat l1 / 256) (Z.of_nat l2 / 256) with
  | Eq => Z.compare (Z.of_nat l1 mod 256) (Z.of_nat l2 mod 256)
  | c => c
  end = Nat.compare l1 l2.
Proof.
  intros l1 l2. rewrite <- Nat2Z.inj_compare.
  set (a := Z.of_nat l1). set (b := Z.of_nat l2).
  pose proof (Z.div_mod a 256 ltac:(lia)) as Ha. pose proof (Z.div_mod b 256 ltac:(lia)) as Hb.
  pose proof (Z.mod_pos_bound a 256 ltac:(lia)). pose proof (Z.mod_pos_bound b 256 ltac:(lia)).
  destruct (Z.compare_spec (a / 256) (b / 256)) as [E|L|G].
  - destruct (Z.compare_spec (a mod 256) (b mod 256)); symmetry;
      [apply Z.compare_eq_iff | apply Z.compare_lt_iff | apply Z.compare_gt_iff]; lia.
  - symmetry; apply Z.compare_lt_iff; lia.
  - symmetry; apply Z.compare_gt_iff; lia.
Qed.

(* the order isomorphism *)
Lemma raw_key_order : forall l1 k1 l2 k2,
  key_cmp (raw_key l1 k1) (raw_key l2 k2) = skey_cmp (l1, k1) (l2, k2).
Proof.
  intros. unfold raw_key, skey_cmp. rewrite key_cmp_app_same. cbn [app key_cmp fst snd].
  rewrite <- be16_cmp.
  destruct (Z.compare (Z.of_nat l1 / 256) (Z.of_nat l2 / 256)); reflexivity.
Qed.

(* for levels that fit uint16 the two level bytes are bytes *)
Lemma raw_key_bytes : forall l k, Z.of_nat l < 65536 -> Forall (fun b => 0 <= b < 256) k ->
  Forall (fun b => 0 <= b < 256) (raw_key l k).
Proof.
  intros l k Hl Hk. unfold raw_key, node_prefix.
  repeat (apply Forall_cons; [lia|]). cbn [app].
  apply Forall_cons. { split; [apply Z.div_pos; lia | apply Z.div_lt_upper_bound; lia]. }
  apply Forall_cons. { apply Z.mod_pos_bound; lia. }
  exact Hk.
Qed.

(* PrefixEndBytes(nodeKey(level, nil)) for a level whose low byte is not 0xff: last byte + 1 *)
Definition prefix_end (level : nat) : list Z :=
  node_prefix ++ [Z.of_nat level / 256; Z.of_nat level mod 256 + 1].

(* every raw key of [level] is below the prefix end, every raw key of a higher level is not *)
Lemma prefix_end_upper : forall level k, key_cmp (raw_key level k) (prefix_end level) = Lt.
Proof.
  intros. unfold raw_key, prefix_end. rewrite key_cmp_app_same. cbn [app key_cmp].
  rewrite Z.compare_refl.
  replace (Z.of_nat level mod 256 ?= Z.of_nat level mod 256 + 1) with Lt; auto.
  symmetry; apply Z.compare_lt_iff; lia.
Qed.
Lemma prefix_end_lower : forall level l' k, (level < l')%nat ->
  key_cmp (raw_key l' k) (prefix_end level) <> Lt.
Proof.
  intros level l' k Hl. unfold raw_key, prefix_end. rewrite key_cmp_app_same. cbn [app key_cmp].
  set (a := Z.of_nat l'). set (b := Z.of_nat level). assert (b < a) by (subst a b; lia).
  pose proof (Z.div_mod a 256 ltac:(lia)). pose proof (Z.div_mod b 256 ltac:(lia)).
  pose proof (Z.mod_pos_bound a 256 ltac:(lia)). pose proof (Z.mod_pos_bound b 256 ltac:(lia)).
  destruct (Z.compare_spec (a / 256) (b / 256)) as [E|L|G]; try discriminate.
  - destruct (Z.compare_spec (a mod 256) (b mod 256 + 1)) as [E2|L2|G2].
    + destruct k; discriminate.
    + exfalso; lia.
    + discriminate.
  - exfalso; lia.
Qed.

(* ranges: within one level the raw order is the key order, so [nodeKey(level, begin), nodeKey(level, end))
   holds exactly the keys with begin <= key < end *)
Lemma raw_key_same_level : forall level k1 k2,
  key_cmp (raw_key level k1) (raw_key level k2) = key_cmp k1 k2.
Proof. intros. rewrite raw_key_order. unfold skey_cmp; cbn [fst snd]. rewrite Nat.compare_refl; auto. Qed.

(* the empty key is the least key: nodeKey(level, nil) is the first raw key of its level *)
Lemma key_cmp_nil_least : forall k, key_cmp [] k <> Gt.
Proof. destruct k; discriminate. Qed.
