(* C16 proofs, layer 3c: every query of a well-formed store answers like the sorted map of its leaves, and the set-only refinement theorem. *)
From Coq Require Import ZArith List Bool Lia Sorted.
Import ListNotations.
From Osmo Require Import C16.Model C16.Spec C16.Statement C16.Keys C16.Assoc C16.StoreLemmas C16.Views C16.Flat C16.Upper
  C16.Push C16.SetProof C16.SumLemmas C16.QueryProof.
Open Scope Z_scope.

Lemma abs_sorted : forall m st, WF m st -> asorted (abs st).
Proof.
  intros m st W. unfold abs, sums_at. fold (sums (nodes_at st 0)). apply asorted_sums. apply nodes_at_sorted. apply (wf_sorted _ _ W).
Qed.

Lemma wf_split : forall m st q, WF m st -> split_acc st q = Ok (sm_split (abs st) q).
Proof.
  intros m st q W. destruct (wf_upper m st W) as (H & HH & U & Hc1).
  apply (split_acc_abs st H); auto.
  - apply (up_sorted _ _ _ _ U).
  - apply (wf_leaves _ _ W).
  - intros J HJ. destruct (Nat.eq_dec J 1); [subst; exact Hc1|apply (up_cons _ _ _ _ U); lia].
  - intros J HJ. apply (up_headed _ _ _ _ U); lia.
  - apply (up_top _ _ _ _ U).
  - apply (up_above _ _ _ _ U).
Qed.

Lemma iter_leaves : forall (g : key -> Z) (P : key -> bool) (lv : list (key * list (key * Z))),
  (forall k n, In (k, n) lv -> g k = accumulate n) ->
  map (fun k => (k, g k)) (filter P (akeys lv)) = sm_filter P (sums lv).
Proof.
  induction lv as [|[k n] lv IH]; intros Hg; [reflexivity|].
  unfold sm_filter, sums, akeys in *. simpl. destruct (P k); simpl.
  - rewrite (Hg k n) by (simpl; auto). f_equal. apply IH. intros; apply Hg; simpl; auto.
  - apply IH. intros; apply Hg; simpl; auto.
Qed.

Lemma wf_iterate : forall m st b e, WF m st -> iterate st b e = sm_iter (abs st) b e.
Proof.
  intros m st b e W. unfold iterate, sm_iter, abs, sums_at. fold (sums (nodes_at st 0)).
  rewrite level_keys_nodes_at. apply iter_leaves.
  intros k n Hin. pose proof (wf_sorted _ _ W) as Hs. pose proof (wf_leaves _ _ W) as Hl.
  unfold tree_get. rewrite st_get_nodes_at by auto. rewrite (al_in_get _ _ _ (nodes_at_sorted st 0 Hs) Hin).
  eapply Forall_forall in Hl; eauto. destruct Hl as (v & E); simpl in E; subst n. simpl. lia.
Qed.

(* every query of a well-formed store, against the sorted map of its leaves *)
Lemma wf_answers : forall m st, WF m st -> answers_actual st (abs st).
Proof.
  intros m st W. pose proof (abs_sorted m st W) as Hsa.
  assert (forall q, sm_exact (abs st) q = sm_exact' (abs st) q) as Hex.
  { intros q. unfold sm_exact. symmetry. apply sm_exact'_get; auto. }
  constructor.
  - reflexivity.
  - intros k. apply (tree_get_abs m); auto.
  - intros q. apply (wf_split m); auto.
  - intros lo hi. unfold subset_acc, code_subset.
    destruct lo as [l|]; destruct hi as [h|]; rewrite ?(wf_split m st _ W); cbn [bind sm_split]; reflexivity.
  - intros lo hi Hle Hne. unfold subset_acc.
    destruct lo as [l|]; destruct hi as [h|]; rewrite ?(wf_split m st _ W); cbn [bind sm_split]; f_equal.
    + simpl in Hle. apply key_leb_true in Hle. rewrite subset_some_some, !Hex; auto.
    + rewrite subset_some_none, Hex; auto.
    + rewrite subset_none_some, Hex; auto.
    + destruct Hne; congruence.
  - intros h. unfold prefix_sum, subset_acc, sm_prefix. rewrite (wf_split m st _ W). cbn [bind sm_split]. f_equal.
    rewrite subset_none_some, Hex; auto.
  - unfold total_acc. rewrite (wf_split m st _ W). cbn [bind sm_split]. f_equal.
    rewrite Hex. apply split_total.
  - intros q. rewrite Hex. apply split_total.
  - intros b e. apply (wf_iterate m); auto.
  - intros b e. unfold rev_iterate, sm_rev_iter. rewrite (wf_iterate m); auto.
Qed.

(* the set-only refinement theorem *)
Lemma set_only_refines_lemma : forall m ops, (2 <= m)%nat -> Forall op_ok ops -> set_only ops ->
  exists st, run_new m ops = Ok st /\ WF m st /\ answers_actual st (sm_run sm_init ops).
Proof.
  intros m ops Hm Hok Hso. unfold run_new. rewrite new_tree_eq. cbn [bind].
  destruct (store0_wf m Hm) as [W0 A0].
  destruct (run_wf m ops store0 Hm W0 Hok Hso) as (st & Er & W & A).
  exists st. split; [exact Er|]. split; [exact W|].
  rewrite <- A0, <- A. apply (wf_answers m); auto.
Qed.

(* non-vacuity helpers *)
Lemma set_only_spec_sorted : forall m ops, (2 <= m)%nat -> Forall op_ok ops -> set_only ops ->
  asorted (sm_run sm_init ops).
Proof.
  intros m ops Hm Hok Hso. destruct (set_only_refines_lemma m ops Hm Hok Hso) as (st & _ & W & A).
  rewrite <- (an_abs _ _ A). apply (abs_sorted m); auto.
Qed.
