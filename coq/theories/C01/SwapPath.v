(* C01, principal part through swaps, step 1: every segment of a swap's trace (C03/Path.v) charges, for the pool account
   alone (amount in without the spread charge), at least the exact amount of its price move, in whole token units, and ends
   on a price that is on the same side of every stored tick as the segment's tick. *)
From Coq Require Import ZArith QArith List Bool Lia Lqa.
Import ListNotations.
From Osmo Require Import Base.DecModel CL.TickMath CL.CLMath CL.CLPool CL.CLSwap CL.CLStep CL.Ideal
  C07.Base C07.TickLemmas C07.LP C07.SwapDir C07.Swap C03.Rounding C03.Steps C03.Path C03.Whole C01.Exact C01.Solvent.
Open Scope Z_scope.

(* ---------- the amount in of a bucket computation is CalcAmountDelta(roundUp) of the move made ---------- *)
Lemma compute_out_given_in_ain : forall zfo spf cur target liq remaining next ain aout fee,
  compute_out_given_in zfo spf cur target liq remaining = Some (next, ain, aout, fee) ->
  exists xin, (if zfo then calc_amount0_delta liq next cur true else calc_amount1_delta liq next cur true) = Some xin
              /\ ain = bd_to_dec_round_up xin.
Proof.
  intros zfo spf cur target liq remaining next ain aout fee H. unfold compute_out_given_in in H. destruct zfo.
  - destruct (calc_amount0_delta liq target cur true) as [a0|] eqn:E0; [|discriminate H]. cbv beta iota in H.
    match type of H with (do next0 <- ?X; _) = _ => destruct X as [nx|] eqn:En; [|discriminate H] end. cbv beta iota zeta in H.
    destruct (if target =? nx then Some a0 else calc_amount0_delta liq nx cur true) as [xin|] eqn:Ein; [|discriminate H]. cbv beta iota in H.
    destruct (calc_amount1_delta liq nx cur false) as [xo|]; [|discriminate H]. cbv beta iota in H.
    destruct (fee_out_given_in _ _ _ _) as [f|]; [|discriminate H]. inversion H; subst. exists xin. split; [|reflexivity].
    destruct (target =? next) eqn:ER; [|exact Ein]. apply Z.eqb_eq in ER. subst target. inversion Ein; subst. exact E0.
  - destruct (calc_amount1_delta liq target cur true) as [a0|] eqn:E0; [|discriminate H]. cbv beta iota in H.
    match type of H with (do next0 <- ?X; _) = _ => destruct X as [nx|] eqn:En; [|discriminate H] end. cbv beta iota zeta in H.
    destruct (if target =? nx then Some a0 else calc_amount1_delta liq nx cur true) as [xin|] eqn:Ein; [|discriminate H]. cbv beta iota in H.
    destruct (calc_amount0_delta liq nx cur false) as [xo|]; [|discriminate H]. cbv beta iota in H.
    destruct (fee_out_given_in _ _ _ _) as [f|]; [|discriminate H]. inversion H; subst. exists xin. split; [|reflexivity].
    destruct (target =? next) eqn:ER; [|exact Ein]. apply Z.eqb_eq in ER. subst target. inversion Ein; subst. exact E0.
Qed.

Lemma compute_in_given_out_ain : forall zfo spf cur target liq remaining next aout ain fee,
  compute_in_given_out zfo spf cur target liq remaining = Some (next, aout, ain, fee) ->
  exists xin, (if zfo then calc_amount0_delta liq next cur true else calc_amount1_delta liq next cur true) = Some xin
              /\ ain = bd_to_dec_round_up xin.
Proof.
  intros zfo spf cur target liq remaining next aout ain fee H. unfold compute_in_given_out in H. destruct zfo.
  - destruct (calc_amount1_delta liq target cur false) as [o0|]; [|discriminate H]. cbv beta iota in H.
    match type of H with (do next0 <- ?X; _) = _ => destruct X as [nx|]; [|discriminate H] end. cbv beta iota zeta in H.
    match type of H with (do amt_out <- ?X; _) = _ => destruct X as [xo|]; [|discriminate H] end. cbv beta iota in H.
    destruct (calc_amount0_delta liq nx cur true) as [xin|] eqn:Ein; [|discriminate H]. cbv beta iota in H.
    destruct (fee_from_amount_in _ _) as [f|]; [|discriminate H]. inversion H; subst. eauto.
  - destruct (calc_amount0_delta liq target cur false) as [o0|]; [|discriminate H]. cbv beta iota in H.
    match type of H with (do next0 <- ?X; _) = _ => destruct X as [nx|]; [|discriminate H] end. cbv beta iota zeta in H.
    match type of H with (do amt_out <- ?X; _) = _ => destruct X as [xo|]; [|discriminate H] end. cbv beta iota in H.
    destruct (calc_amount1_delta liq nx cur true) as [xin|] eqn:Ein; [|discriminate H]. cbv beta iota in H.
    destruct (fee_from_amount_in _ _) as [f|]; [|discriminate H]. inversion H; subst. eauto.
Qed.

Lemma round_up_whole : forall x, 0 <= x -> Z.rem x P36 = 0 -> Z.rem (bd_to_dec_round_up x) P18 = 0.
Proof.
  intros x Hx Hr. pose proof (Z.quot_rem' x P36) as QR. rewrite Hr, Z.add_0_r in QR.
  assert (E : x = (Z.quot x P36 * P18) * P18) by (rewrite QR at 1; unfold P36, P18; ring).
  unfold bd_to_dec_round_up, inc_rem_div. assert (R0 : Z.rem x P18 = 0) by (rewrite E; apply Z.rem_mul; unfold P18; lia).
  rewrite R0. simpl. rewrite E. rewrite Z.quot_mul by (unfold P18; lia). apply Z.rem_mul. unfold P18; lia.
Qed.

(* the amount in alone covers the exact amount of the move (token1: up to half a unit of the 36th decimal), whole units *)
Lemma ain_covers : forall (zfo : bool) liq cur next xin, 0 <= liq -> 0 < cur -> 0 < next ->
  (if zfo then calc_amount0_delta liq next cur true else calc_amount1_delta liq next cur true) = Some xin ->
  in_covers zfo 0 liq cur next (bd_to_dec_round_up xin) /\ Z.rem (bd_to_dec_round_up xin) P18 = 0 /\ 0 <= bd_to_dec_round_up xin.
Proof.
  intros zfo liq cur next xin Hl Hc Hn H.
  destruct (amount_in_covers zfo liq cur next xin _ Hl Hc Hn H eq_refl) as [A B]. split; [exact B|]. split; [|exact A].
  destruct zfo.
  - destruct (amount0_up_spec _ _ _ _ Hl Hn Hc H) as [_ [X1 X2]]. apply round_up_whole; assumption.
  - destruct (amount1_up_spec _ _ _ _ Hl H) as [_ [X1 X2]]. apply round_up_whole; assumption.
Qed.

(* ---------- the end price of a segment against the stored ticks ---------- *)
Definition b_side_ok (s : state) (t b : Z) : Prop :=
  forall k v sk, In (k, v) (s_ticks s) -> tick_to_sqrt_price k = Some sk -> (k <= t -> sk <= b) /\ (t < k -> b <= sk).

Lemma after_step_b_side : forall s zfo accum sc st nt info rest nts computed dspec dcalc fee st' iter',
  Inv s -> LI s zfo st ((nt, info) :: rest) -> tick_to_sqrt_price nt = Some nts ->
  (computed = nts \/ computed = ss_sqrt st \/ dir_ok zfo (ss_sqrt st) computed) ->
  after_step zfo accum sc st ((nt, info) :: rest) nt info nts computed dspec dcalc fee = Some (st', iter') ->
  b_side_ok s (ss_tick st) computed.
Proof.
  intros s zfo accum sc st nt info rest nts computed dspec dcalc fee st' iter' I [L1 [L2 [L3 L4]]] Snt Dir H.
  unfold after_step in H.
  destruct (if accum then update_fee_growth sc st fee else Some st) as [st1|] eqn:E1; [|discriminate H]. cbv beta iota in H.
  destruct (dchk (ss_remaining st1 - dspec)) as [rem|]; [|discriminate H]. cbv beta iota in H.
  destruct (dchk (ss_calculated st1 + dcalc)) as [calc|]; [|discriminate H]. cbv beta iota in H.
  destruct (iter_ok_head _ _ _ _ _ _ L4) as [Hin [Hb [Near Hrest]]].
  destruct (stored_tick_ok s nt info I Hin) as [Rn [Bn _]].
  intros k v sk Hk Sk. destruct (stored_tick_ok s k v I Hk) as [Rk [Bk _]].
  destruct (nts =? computed) eqn:Ec.
  - apply Z.eqb_eq in Ec. subst computed. specialize (Near k v Hk). unfold beyond in *. destruct zfo.
    + apply Z.leb_le in Hb. split; intro X.
      * assert (k <= nt) by (apply Near; apply Z.leb_le; exact X).
        apply (tick_to_sqrt_price_mono k nt sk nts ltac:(lia) ltac:(lia) ltac:(lia) Sk Snt).
      * apply (tick_to_sqrt_price_mono nt k nts sk ltac:(lia) ltac:(lia) ltac:(lia) Snt Sk).
    + apply Z.ltb_lt in Hb. split; intro X.
      * apply (tick_to_sqrt_price_mono k nt sk nts ltac:(lia) ltac:(lia) ltac:(lia) Sk Snt).
      * assert (nt <= k) by (apply Near; apply Z.ltb_lt; exact X).
        apply (tick_to_sqrt_price_mono nt k nts sk ltac:(lia) ltac:(lia) ltac:(lia) Snt Sk).
  - apply Z.eqb_neq in Ec. destruct (edge_case zfo nts computed) eqn:Ee; [discriminate H|].
    destruct (negb (ss_sqrt st =? computed)) eqn:Es.
    + apply negb_true_iff in Es. apply Z.eqb_neq in Es.
      destruct (calculate_sqrt_price_to_tick computed) as [t|] eqn:Et; [|discriminate H].
      apply calculate_sqrt_price_to_tick_cert in Et.
      assert (Dir' : if zfo then nts < computed /\ computed < ss_sqrt st else computed < nts /\ ss_sqrt st <= computed).
      { destruct Dir as [D|[D|[D|D]]]; try congruence; try lia.
        - unfold edge_case in Ee. destruct zfo; [apply Z.ltb_ge in Ee|apply Z.ltb_ge in Ee]; lia.
        - pose proof (bucket_cert_pos _ _ Et). lia. }
      pose proof (landing_equiv s zfo (ss_tick st) (ss_sqrt st) computed t nt info nts I L3 Et Hin Snt Near Dir' k v Hk) as EQ.
      destruct (bucket_consistent computed t k sk Et Bk Sk) as [B1 B2]. unfold beyond in EQ. destruct zfo.
      * split; intro X.
        -- apply B1. apply Z.leb_le. rewrite <- EQ. apply Z.leb_le. exact X.
        -- apply B2. apply Z.leb_gt. rewrite <- EQ. apply Z.leb_gt. exact X.
      * split; intro X.
        -- apply B1. apply Z.ltb_ge. rewrite <- EQ. apply Z.ltb_ge. exact X.
        -- apply B2. apply Z.ltb_lt. rewrite <- EQ. apply Z.ltb_lt. exact X.
    + apply negb_false_iff in Es. apply Z.eqb_eq in Es. subst computed. exact (L3 k sk Rk Bk Sk).
Qed.

Definition seg2_ok (s : state) (zfo : bool) (sg : seg) : Prop :=
  in_covers zfo 0 (sg_liq sg) (sg_a sg) (sg_b sg) (sg_in sg) /\ Z.rem (sg_in sg) P18 = 0 /\ 0 <= sg_in sg /\
  b_side_ok s (sg_tick sg) (sg_b sg) /\ (if zfo then sg_b sg <= sg_a sg else sg_a sg <= sg_b sg).
Definition sum_in (tr : list seg) : Z := fold_right (fun sg acc => sg_in sg + acc) 0 tr.
Definition sum_fee (tr : list seg) : Z := fold_right (fun sg acc => sg_fee sg + acc) 0 tr.

(* the direction of a step *)
Lemma step_direction : forall s zfo st nt info rest nts computed, Inv s -> LI s zfo st ((nt, info) :: rest) ->
  tick_to_sqrt_price nt = Some nts -> 0 < computed ->
  (computed = nts \/ computed = ss_sqrt st \/ dir_ok zfo (ss_sqrt st) computed) ->
  if zfo then computed <= ss_sqrt st else ss_sqrt st <= computed.
Proof.
  intros s zfo st nt info rest nts computed I [L1 [L2 [L3 L4]]] Snt CP Dir.
  destruct (iter_ok_head _ _ _ _ _ _ L4) as [Hin [Hb _]]. destruct (stored_tick_ok s nt info I Hin) as [Rn [Bn _]].
  destruct (L3 nt nts Rn Bn Snt) as [A1 A2]. unfold beyond in Hb.
  destruct Dir as [D|[D|[D|D]]].
  - subst computed. destruct zfo; [apply Z.leb_le in Hb; auto|apply Z.ltb_lt in Hb; auto].
  - subst computed. destruct zfo; lia.
  - exact D.
  - lia.
Qed.

Lemma after_step_fee : forall zfo sc st iter nt info nts computed dspec dcalc fee st' iter',
  after_step zfo true sc st iter nt info nts computed dspec dcalc fee = Some (st', iter') -> ss_fee st' = ss_fee st + fee.
Proof.
  unfold after_step. intros zfo sc st iter nt info nts computed dspec dcalc fee st' iter' H.
  destruct (update_fee_growth sc st fee) as [st1|] eqn:E1; [|discriminate H]. cbv beta iota in H.
  assert (F : ss_fee st1 = ss_fee st + fee).
  { unfold update_fee_growth in E1. destruct (if sc =? P18 then Some fee else dchk (d_mul_truncate fee sc)) as [z|]; [|discriminate E1]. cbv beta iota in E1.
    destruct (dchk (ss_fee st + fee)) as [tot|] eqn:ET; [|discriminate E1]. cbv beta iota in E1. apply dchk_some in ET. subst tot.
    destruct (ss_liq st =? 0); [inversion E1; reflexivity|].
    destruct (dchk (d_quo_truncate z (ss_liq st))) as [z0|]; [|discriminate E1]. cbv beta iota in E1.
    destruct (dchk (ss_growth st + z0)); [|discriminate E1]. inversion E1; reflexivity. }
  destruct (dchk (ss_remaining st1 - dspec)) as [rem|]; [|discriminate H]. cbv beta iota in H.
  destruct (dchk (ss_calculated st1 + dcalc)) as [calc|]; [|discriminate H]. cbv beta iota in H.
  destruct (nts =? computed).
  - unfold cross_tick in H. simpl in H. destruct (dchk _); [|discriminate H]. inversion H; subst. simpl. exact F.
  - destruct (edge_case zfo nts computed); [discriminate H|]. destruct (negb (ss_sqrt st =? computed)).
    + destruct (calculate_sqrt_price_to_tick computed); [|discriminate H]. inversion H; subst. simpl. exact F.
    + inversion H; subst. simpl. exact F.
Qed.

Lemma loop_out_path2 : forall s fuel zfo accum sc limit st iter noprog st' tr, Inv s ->
  sqrt_price_limit zfo = Some limit -> LI s zfo st iter ->
  loop_out_trace fuel zfo accum (p_spread (s_pool s)) sc limit st iter noprog = Some (st', tr) ->
  Forall (seg2_ok s zfo) tr /\ (accum = true -> ss_fee st' = ss_fee st + sum_fee tr).
Proof.
  intros s fuel. induction fuel as [|f IH]; intros zfo accum sc limit st iter noprog st' tr I HL L H; simpl in H; [discriminate H|].
  destruct ((smallest_dec <? ss_remaining st) && negb (ss_sqrt st =? limit)) eqn:Econd; [|inversion H; subst; split; [constructor|intros _; simpl; lia]].
  apply andb_true_iff in Econd. destruct Econd as [Erem _]. apply Z.ltb_lt in Erem. unfold smallest_dec in Erem.
  destruct iter as [|[nt info] rest]; [discriminate H|].
  destruct (tick_to_sqrt_price nt) as [nts|] eqn:Snt; [|discriminate H]. cbv beta iota in H.
  destruct (LI_facts s zfo st nt info rest nts I L Snt) as [Fl [Fr Fz]].
  rewrite (sqrt_target_next zfo limit nt nts HL Fr Snt) in H.
  destruct (compute_out_given_in zfo (p_spread (s_pool s)) (ss_sqrt st) nts (ss_liq st) (ss_remaining st)) as [[[[computed ain] aout] fee]|] eqn:EC; [|discriminate H].
  cbv beta iota in H. destruct (negb (progress_ok computed (ss_sqrt st) ain aout)); [discriminate H|].
  destruct (dchk (ain + fee)) as [infee|]; [|discriminate H]. cbv beta iota in H.
  destruct (after_step zfo accum sc st ((nt, info) :: rest) nt info nts computed infee aout fee) as [[st1 iter1]|] eqn:EA; [|discriminate H]. cbv beta iota in H.
  assert (Dir : computed = nts \/ computed = ss_sqrt st \/ dir_ok zfo (ss_sqrt st) computed).
  { destruct L as [_ [L2 _]].
    destruct (compute_out_given_in_dir _ _ _ _ _ _ _ _ _ _ EC Fl L2 Erem (inv_spread s I) Fz) as [D|D]; [left; assumption|right; right; assumption]. }
  assert (L' : LI s zfo st1 iter1) by (eapply after_step_LI; try eassumption; reflexivity).
  pose proof (after_step_b_side _ _ _ _ _ _ _ _ _ _ _ _ _ _ _ I L Snt Dir EA) as BS.
  destruct (after_step_sqrt_rem _ _ _ _ _ _ _ _ _ _ _ _ _ _ EA) as [SQ _].
  assert (CP : 0 < computed) by (destruct L' as [_ [X _]]; rewrite SQ in X; exact X).
  destruct (compute_out_given_in_ain _ _ _ _ _ _ _ _ _ _ EC) as [xin [EX EAin]].
  destruct (ain_covers zfo (ss_liq st) (ss_sqrt st) computed xin Fl ltac:(destruct L as [_ [X _]]; exact X) CP EX) as [IC [RW NN]].
  rewrite <- EAin in IC, RW, NN.
  assert (SG : seg2_ok s zfo (mkSeg (ss_liq st) (ss_tick st) (ss_sqrt st) computed ain aout fee)) by (unfold seg2_ok; simpl; split; [exact IC|split; [exact RW|split; [exact NN|split; [exact BS|exact (step_direction _ _ _ _ _ _ _ _ I L Snt CP Dir)]]]]).
  assert (FE : accum = true -> ss_fee st1 = ss_fee st + fee) by (intro EAc; subst accum; eapply after_step_fee; exact EA).
  destruct (ain =? 0).
  - destruct (swap_no_progress_limit <=? noprog); [discriminate H|].
    destruct (loop_out_trace f zfo accum (p_spread (s_pool s)) sc limit st1 iter1 (noprog + 1)) as [[st2 tr2]|] eqn:ELp; [|discriminate H].
    inversion H; subst. destruct (IH _ _ _ _ _ _ _ _ _ I HL L' ELp) as [IH1 IH2]. split; [constructor; [exact SG|exact IH1]|].
    intro EAc. simpl. rewrite (IH2 EAc), (FE EAc). lia.
  - destruct (loop_out_trace f zfo accum (p_spread (s_pool s)) sc limit st1 iter1 noprog) as [[st2 tr2]|] eqn:ELp; [|discriminate H].
    inversion H; subst. destruct (IH _ _ _ _ _ _ _ _ _ I HL L' ELp) as [IH1 IH2]. split; [constructor; [exact SG|exact IH1]|].
    intro EAc. simpl. rewrite (IH2 EAc), (FE EAc). lia.
Qed.

Lemma loop_in_path2 : forall s fuel zfo accum sc limit st iter noprog st' tr, Inv s ->
  sqrt_price_limit zfo = Some limit -> LI s zfo st iter ->
  loop_in_trace fuel zfo accum (p_spread (s_pool s)) sc limit st iter noprog = Some (st', tr) ->
  Forall (seg2_ok s zfo) tr /\ (accum = true -> ss_fee st' = ss_fee st + sum_fee tr).
Proof.
  intros s fuel. induction fuel as [|f IH]; intros zfo accum sc limit st iter noprog st' tr I HL L H; simpl in H; [discriminate H|].
  destruct ((smallest_dec <? ss_remaining st) && negb (ss_sqrt st =? limit)) eqn:Econd; [|inversion H; subst; split; [constructor|intros _; simpl; lia]].
  apply andb_true_iff in Econd. destruct Econd as [Erem _]. apply Z.ltb_lt in Erem. unfold smallest_dec in Erem.
  destruct iter as [|[nt info] rest]; [discriminate H|].
  destruct (tick_to_sqrt_price nt) as [nts|] eqn:Snt; [|discriminate H]. cbv beta iota in H.
  destruct (LI_facts s zfo st nt info rest nts I L Snt) as [Fl [Fr Fz]].
  rewrite (sqrt_target_next zfo limit nt nts HL Fr Snt) in H.
  destruct (compute_in_given_out zfo (p_spread (s_pool s)) (ss_sqrt st) nts (ss_liq st) (ss_remaining st)) as [[[[computed aout] ain] fee]|] eqn:EC; [|discriminate H].
  cbv beta iota in H. destruct (negb (progress_ok computed (ss_sqrt st) ain aout)); [discriminate H|].
  destruct (dchk (ain + fee)) as [infee|]; [|discriminate H]. cbv beta iota in H.
  destruct (after_step zfo accum sc st ((nt, info) :: rest) nt info nts computed aout infee fee) as [[st1 iter1]|] eqn:EA; [|discriminate H]. cbv beta iota in H.
  assert (Dir : computed = nts \/ computed = ss_sqrt st \/ dir_ok zfo (ss_sqrt st) computed).
  { destruct L as [_ [L2 _]].
    destruct (compute_in_given_out_dir _ _ _ _ _ _ _ _ _ _ EC Fl L2 Erem) as [D|D]; [left; assumption|right; right; assumption]. }
  assert (L' : LI s zfo st1 iter1) by (eapply after_step_LI; try eassumption; reflexivity).
  pose proof (after_step_b_side _ _ _ _ _ _ _ _ _ _ _ _ _ _ _ I L Snt Dir EA) as BS.
  destruct (after_step_sqrt_rem _ _ _ _ _ _ _ _ _ _ _ _ _ _ EA) as [SQ _].
  assert (CP : 0 < computed) by (destruct L' as [_ [X _]]; rewrite SQ in X; exact X).
  destruct (compute_in_given_out_ain _ _ _ _ _ _ _ _ _ _ EC) as [xin [EX EAin]].
  destruct (ain_covers zfo (ss_liq st) (ss_sqrt st) computed xin Fl ltac:(destruct L as [_ [X _]]; exact X) CP EX) as [IC [RW NN]].
  rewrite <- EAin in IC, RW, NN.
  assert (SG : seg2_ok s zfo (mkSeg (ss_liq st) (ss_tick st) (ss_sqrt st) computed ain aout fee)) by (unfold seg2_ok; simpl; split; [exact IC|split; [exact RW|split; [exact NN|split; [exact BS|exact (step_direction _ _ _ _ _ _ _ _ I L Snt CP Dir)]]]]).
  assert (FE : accum = true -> ss_fee st1 = ss_fee st + fee) by (intro EAc; subst accum; eapply after_step_fee; exact EA).
  destruct (aout =? 0).
  - destruct (swap_no_progress_limit <=? noprog); [discriminate H|].
    destruct (loop_in_trace f zfo accum (p_spread (s_pool s)) sc limit st1 iter1 (noprog + 1)) as [[st2 tr2]|] eqn:ELp; [|discriminate H].
    inversion H; subst. destruct (IH _ _ _ _ _ _ _ _ _ I HL L' ELp) as [IH1 IH2]. split; [constructor; [exact SG|exact IH1]|].
    intro EAc. simpl. rewrite (IH2 EAc), (FE EAc). lia.
  - destruct (loop_in_trace f zfo accum (p_spread (s_pool s)) sc limit st1 iter1 noprog) as [[st2 tr2]|] eqn:ELp; [|discriminate H].
    inversion H; subst. destruct (IH _ _ _ _ _ _ _ _ _ I HL L' ELp) as [IH1 IH2]. split; [constructor; [exact SG|exact IH1]|].
    intro EAc. simpl. rewrite (IH2 EAc), (FE EAc). lia.
Qed.
