(* C01, principal part at a fixed price: what a liquidity provider is charged for liquidity is at least its exact
   value (up to half a unit of the 36th decimal for token1 - C03's micro-finding), what is paid out on withdrawal is
   at most the exact value.  Integer (cross-multiplied) forms, from b-cl's rounding specifications (C03/Rounding.v),
   then the rational reading with CL/Ideal.v's seg_amount0 / seg_amount1. *)
From Coq Require Import ZArith QArith List Bool Lia Lqa.
Import ListNotations.
From Osmo Require Import Base.DecModel CL.TickMath CL.CLMath CL.CLPool CL.CLSwap CL.Ideal
  C07.Base C07.TickLemmas C07.LP C07.SwapDir C07.Swap C03.Rounding C03.Steps C03.Path C03.Whole.
Open Scope Z_scope.

(* ---------- truncation is odd: removing liquidity is the mirror image of the truncating computation ---------- *)
Lemma bd_chk_opp : forall z, bd_chk (- z) = option_map Z.opp (bd_chk z).
Proof.
  intro z. unfold bd_chk, bd_fits, bitlen. rewrite Z.abs_opp.
  assert (E : (- z =? 0) = (z =? 0)) by (destruct (Z.eqb_spec z 0); destruct (Z.eqb_spec (- z) 0); try reflexivity; lia).
  rewrite E. destruct ((if z =? 0 then 0 else Z.log2 (Z.abs z) + 1) <=? max_dec_bit_len); reflexivity.
Qed.

Lemma nz_ne : forall d, nz d = Some tt -> d <> 0.
Proof. unfold nz. intros d H. destruct (d =? 0) eqn:X; [discriminate|apply Z.eqb_neq in X; exact X]. Qed.

Lemma trunc_chain_neg : forall d liq sa sb, sa <> 0 -> sb <> 0 ->
  (do x <- bd_chk (bd_mul_truncate_dec d (- liq)); do y <- bd_chk (bd_quo_truncate x sb); bd_chk (bd_quo_truncate y sa))
  = option_map Z.opp (do x <- bd_chk (bd_mul_truncate_dec d liq); do y <- bd_chk (bd_quo_truncate x sb); bd_chk (bd_quo_truncate y sa)).
Proof.
  intros d liq sa sb Ha Hb. unfold bd_mul_truncate_dec, chop_trunc.
  rewrite Z.mul_opp_r, Z.quot_opp_l by (unfold P18; lia). rewrite bd_chk_opp.
  destruct (bd_chk (Z.quot (d * liq) P18)) as [x|]; [|reflexivity]. simpl.
  unfold bd_quo_truncate. rewrite Z.mul_opp_l, Z.quot_opp_l by exact Hb. rewrite bd_chk_opp.
  destruct (bd_chk (Z.quot (x * P36) sb)) as [y|]; [|reflexivity]. simpl.
  rewrite Z.mul_opp_l, Z.quot_opp_l by exact Ha. apply bd_chk_opp.
Qed.

Lemma calc_amount0_delta_neg : forall liq a b, calc_amount0_delta (- liq) a b false = option_map Z.opp (calc_amount0_delta liq a b false).
Proof.
  intros liq a b. unfold calc_amount0_delta. destruct (b <? a).
  - destruct (nz b) as [[]|] eqn:Nb; [|reflexivity]. destruct (nz a) as [[]|] eqn:Na; [|reflexivity]. simpl.
    apply trunc_chain_neg; apply nz_ne; assumption.
  - destruct (nz a) as [[]|] eqn:Na; [|reflexivity]. destruct (nz b) as [[]|] eqn:Nb; [|reflexivity]. simpl.
    apply trunc_chain_neg; apply nz_ne; assumption.
Qed.

Lemma calc_amount1_delta_neg : forall liq a b, calc_amount1_delta (- liq) a b false = option_map Z.opp (calc_amount1_delta liq a b false).
Proof.
  intros liq a b. unfold calc_amount1_delta, bd_mul_truncate_dec, chop_trunc.
  rewrite Z.mul_opp_r, Z.quot_opp_l by (unfold P18; lia). apply bd_chk_opp.
Qed.

Lemma trunc_dec_neg : forall x, d_truncate_int (bd_to_dec (- x)) = - d_truncate_int (bd_to_dec x).
Proof. intro x. unfold d_truncate_int, bd_to_dec. rewrite !Z.quot_opp_l by (unfold P18; lia). reflexivity. Qed.

(* ---------- whole amounts ---------- *)
Lemma whole36_round_up : forall x, 0 <= x -> Z.rem x P36 = 0 -> d_truncate_int (bd_to_dec_round_up x) * P36 = x.
Proof.
  intros x Hx Hr. pose proof (Z.quot_rem' x P36) as QR. rewrite Hr, Z.add_0_r in QR.
  set (q := Z.quot x P36) in *. unfold bd_to_dec_round_up, inc_rem_div, d_truncate_int.
  assert (E : x = q * P18 * P18) by (rewrite QR; unfold P36, P18; ring).
  assert (R0 : Z.rem x P18 = 0) by (rewrite E; apply Z.rem_mul; unfold P18; lia).
  rewrite R0. simpl. rewrite E at 1. rewrite Z.quot_mul by (unfold P18; lia). rewrite Z.quot_mul by (unfold P18; lia).
  rewrite QR. unfold P36. ring.
Qed.

(* the integer statements *)
Definition charged0_ok (A L a b : Z) : Prop := L * Z.abs (b - a) * P18 <= A * a * b.
Definition charged1_ok (A L a b : Z) : Prop := 2 * L * Z.abs (b - a) - P18 <= 2 * A * P36 * P18.
Definition paid0_ok (B L a b : Z) : Prop := B * a * b <= L * Z.abs (b - a) * P18.
Definition paid1_ok (B L a b : Z) : Prop := B * P36 * P18 <= L * Z.abs (b - a).

Lemma P36_P18 : P36 = P18 * P18. Proof. reflexivity. Qed.
Lemma P54_P36 : P54 = P36 * P18. Proof. reflexivity. Qed.

Lemma charged0 : forall L a b x, 0 <= L -> 0 < a -> 0 < b -> calc_amount0_delta L a b true = Some x ->
  let A := d_truncate_int (bd_to_dec_round_up x) in 0 <= A /\ charged0_ok A L a b.
Proof.
  intros L a b x HL Ha Hb H A. destruct (amount0_up_spec _ _ _ _ HL Ha Hb H) as [S1 [S2 S3]].
  pose proof (whole36_round_up x S2 S3) as W. fold A in W. pose proof P36_pos as H36. pose proof P18_pos as H18.
  split; [nia|]. unfold charged0_ok.
  assert (X : (L * Z.abs (b - a) * P18) * P36 <= (A * a * b) * P36).
  { replace ((L * Z.abs (b - a) * P18) * P36) with (L * Z.abs (b - a) * P54) by (rewrite P54_P36; ring).
    replace ((A * a * b) * P36) with (x * a * b) by (rewrite <- W; ring). exact S1. }
  apply (Z.mul_le_mono_pos_r _ _ P36 H36). exact X.
Qed.

Lemma charged1 : forall L a b x, 0 <= L -> calc_amount1_delta L a b true = Some x ->
  let A := d_truncate_int (bd_to_dec_round_up x) in 0 <= A /\ charged1_ok A L a b.
Proof.
  intros L a b x HL H A. destruct (amount1_up_spec _ _ _ _ HL H) as [S1 [S2 S3]].
  pose proof (whole36_round_up x S2 S3) as W. fold A in W. pose proof P36_pos as H36. pose proof P18_pos as H18.
  split; [nia|]. unfold charged1_ok. rewrite <- W in S1.
  replace (2 * A * P36 * P18) with (2 * (A * P36) * P18) by ring. exact S1.
Qed.

Lemma paid0 : forall L a b x, 0 <= L -> 0 < a -> 0 < b -> calc_amount0_delta L a b false = Some x ->
  let B := d_truncate_int (bd_to_dec x) in 0 <= B /\ paid0_ok B L a b.
Proof.
  intros L a b x HL Ha Hb H B. destruct (amount0_down_spec _ _ _ _ HL Ha Hb H) as [S1 S2].
  destruct (to_dec_spec x S2) as [D1 D2]. pose proof (d_trunc_le (bd_to_dec x) D2) as T. fold B in T.
  pose proof P36_pos as H36. pose proof P18_pos as H18.
  assert (B0 : 0 <= B) by (unfold B, d_truncate_int; apply Z.quot_pos; lia).
  split; [exact B0|]. unfold paid0_ok.
  (* B * P36 <= x *)
  assert (BX : B * P36 <= x) by (rewrite P36_P18; nia).
  assert (X : (B * a * b) * P36 <= (L * Z.abs (b - a) * P18) * P36).
  { replace ((L * Z.abs (b - a) * P18) * P36) with (L * Z.abs (b - a) * P54) by (rewrite P54_P36; ring).
    eapply Z.le_trans; [|exact S1]. replace (B * a * b * P36) with ((B * P36) * (a * b)) by ring.
    replace (x * a * b) with (x * (a * b)) by ring. apply Z.mul_le_mono_nonneg_r; [nia|exact BX]. }
  apply (Z.mul_le_mono_pos_r _ _ P36 H36). exact X.
Qed.

Lemma paid1 : forall L a b x, 0 <= L -> calc_amount1_delta L a b false = Some x ->
  let B := d_truncate_int (bd_to_dec x) in 0 <= B /\ paid1_ok B L a b.
Proof.
  intros L a b x HL H B. destruct (amount1_down_spec _ _ _ _ HL H) as [S1 S2].
  destruct (to_dec_spec x S2) as [D1 D2]. pose proof (d_trunc_le (bd_to_dec x) D2) as T. fold B in T.
  pose proof P36_pos as H36. pose proof P18_pos as H18.
  assert (B0 : 0 <= B) by (unfold B, d_truncate_int; apply Z.quot_pos; lia).
  split; [exact B0|]. unfold paid1_ok.
  assert (BX : B * P36 <= x) by (rewrite P36_P18; nia).
  eapply Z.le_trans; [|exact S1]. apply Z.mul_le_mono_nonneg_r; [lia|exact BX].
Qed.

(* ---------- the rational reading ---------- *)
Open Scope Q_scope.
Definition eps36 : Q := 1 / (2 * q36).

Lemma charged0_q : forall A L a b, (0 < a)%Z -> (0 < b)%Z -> charged0_ok A L a b -> seg_amount0 L a b <= qz A.
Proof.
  intros A L a b Ha Hb H. unfold charged0_ok in H. unfold seg_amount0. pose proof (qz_nz a Ha). pose proof (qz_nz b Hb).
  rewrite <- Z.abs_opp. replace (- (a - b))%Z with (b - a)%Z by ring.
  setoid_replace (qz L / q18 * (qz (Z.abs (b - a)) / q36) / (qz a / q36 * (qz b / q36))) with (qz L * qz (Z.abs (b - a)) * q18 / (qz a * qz b)).
  2:{ rewrite q36_sq. field. repeat split; try apply q18_nz; assumption. }
  apply Qle_shift_div_r; [rewrite <- (Qmult_0_l (qz b)); apply Qmult_lt_compat_r; apply qz_pos; assumption|].
  rewrite q18_val, <- !qz_mult. apply qz_le. replace (A * (a * b))%Z with (A * a * b)%Z by ring. exact H.
Qed.

Lemma paid0_q : forall B L a b, (0 < a)%Z -> (0 < b)%Z -> paid0_ok B L a b -> qz B <= seg_amount0 L a b.
Proof.
  intros B L a b Ha Hb H. unfold paid0_ok in H. unfold seg_amount0. pose proof (qz_nz a Ha). pose proof (qz_nz b Hb).
  rewrite <- Z.abs_opp. replace (- (a - b))%Z with (b - a)%Z by ring.
  setoid_replace (qz L / q18 * (qz (Z.abs (b - a)) / q36) / (qz a / q36 * (qz b / q36))) with (qz L * qz (Z.abs (b - a)) * q18 / (qz a * qz b)).
  2:{ rewrite q36_sq. field. repeat split; try apply q18_nz; assumption. }
  apply Qle_shift_div_l; [rewrite <- (Qmult_0_l (qz b)); apply Qmult_lt_compat_r; apply qz_pos; assumption|].
  rewrite q18_val, <- !qz_mult. apply qz_le. replace (B * (a * b))%Z with (B * a * b)%Z by ring. exact H.
Qed.

Lemma charged1_q : forall A L a b, charged1_ok A L a b -> seg_amount1 L a b - eps36 <= qz A.
Proof.
  intros A L a b H. unfold charged1_ok in H. unfold seg_amount1, eps36.
  rewrite <- Z.abs_opp. replace (- (a - b))%Z with (b - a)%Z by ring. rewrite q36_sq.
  setoid_replace (qz L / q18 * (qz (Z.abs (b - a)) / (q18 * q18)) - 1 / (2 * (q18 * q18)))
    with ((2 * qz L * qz (Z.abs (b - a)) - q18) / (2 * q18 * q18 * q18)) by (field; apply q18_nz).
  assert (P2 : 0 < 2 * q18 * q18 * q18) by (vm_compute; reflexivity).
  apply Qle_shift_div_r; [exact P2|].
  assert (E2 : 2 * qz L * qz (Z.abs (b - a)) - q18 == qz (2 * L * Z.abs (b - a) - P18)).
  { unfold qz, Z.sub. rewrite inject_Z_plus, inject_Z_opp, !inject_Z_mult. reflexivity. }
  rewrite E2. setoid_replace (qz A * (2 * q18 * q18 * q18)) with (qz (2 * A * P36 * P18)).
  - apply qz_le. exact H.
  - rewrite !qz_mult. change (qz 2) with 2. rewrite (q18_val). change (qz P36) with q36. rewrite q36_sq, q18_val. ring.
Qed.

Lemma paid1_q : forall B L a b, paid1_ok B L a b -> qz B <= seg_amount1 L a b.
Proof.
  intros B L a b H. unfold paid1_ok in H. unfold seg_amount1.
  rewrite <- Z.abs_opp. replace (- (a - b))%Z with (b - a)%Z by ring.
  setoid_replace (qz L / q18 * (qz (Z.abs (b - a)) / q36)) with (qz L * qz (Z.abs (b - a)) / (q36 * q18)) by (field; split; [apply q18_nz|apply q36_nz]).
  apply Qle_shift_div_l; [rewrite <- (Qmult_0_l q18); apply Qmult_lt_compat_r; [apply q18_pos|apply q36_pos]|].
  rewrite q36_val, q18_val, <- !qz_mult. apply qz_le. replace (B * (P36 * P18))%Z with (B * P36 * P18)%Z by ring. exact H.
Qed.

(* ---------- the exact value of a position at sqrt price P ---------- *)
Definition sq (t : Z) : Z := match tick_to_sqrt_price t with Some s => s | None => 0%Z end.
Definition clampP (P sl su : Z) : Z := Z.max sl (Z.min P su).
Definition val0 (P L lo hi : Z) : Q := seg_amount0 L (clampP P (sq lo) (sq hi)) (sq hi).
Definition val1 (P L lo hi : Z) : Q := seg_amount1 L (sq lo) (clampP P (sq lo) (sq hi)).

Lemma seg_amount0_same : forall L a, (0 < a)%Z -> seg_amount0 L a a == 0.
Proof. intros L a Ha. unfold seg_amount0. rewrite Z.sub_diag. simpl. pose proof (qz_nz a Ha). change (qz 0) with 0. field. repeat split; try apply q36_nz; try apply q18_nz; exact H. Qed.
Lemma seg_amount1_same : forall L a, seg_amount1 L a a == 0.
Proof. intros L a. unfold seg_amount1. rewrite Z.sub_diag. simpl. change (qz 0) with 0. field. repeat split; try apply q36_nz; try apply q18_nz. Qed.
Lemma seg_amount1_sym : forall L a b, seg_amount1 L a b == seg_amount1 L b a.
Proof. intros L a b. unfold seg_amount1. rewrite <- (Z.abs_opp (a - b)). replace (- (a - b))%Z with (b - a)%Z by ring. reflexivity. Qed.

Lemma eps36_pos : 0 <= eps36. Proof. unfold eps36. vm_compute. discriminate. Qed.

(* the range of a position against a pool whose price is consistent with its tick *)
Lemma range_prices : forall p lo hi sl su, (0 < p_spacing p)%Z -> price_consistent p -> validate_tick_range (p_spacing p) lo hi = true ->
  ticks_to_sqrt_price lo hi = Some (sl, su) ->
  sl = sq lo /\ su = sq hi /\ (0 < sl)%Z /\ (sl <= su)%Z /\
  (lo <= p_tick p -> sl <= p_sqrt p)%Z /\ (p_tick p < lo -> p_sqrt p <= sl)%Z /\
  (hi <= p_tick p -> su <= p_sqrt p)%Z /\ (p_tick p < hi -> p_sqrt p <= su)%Z.
Proof.
  intros p lo hi sl su Hsp PC V T. apply validate_tick_range_spec in V. destruct V as [_ [Rl [Rh [Bl [Bh Hlh]]]]].
  unfold ticks_to_sqrt_price in T. destruct (hi <=? lo)%Z; [discriminate T|].
  destruct (tick_to_sqrt_price hi) as [su'|] eqn:Eh; [|discriminate T]. destruct (tick_to_sqrt_price lo) as [sl'|] eqn:El; [|discriminate T].
  inversion T; subst sl' su'. unfold sq. rewrite El, Eh.
  destruct (PC lo sl Rl ltac:(lia) El) as [A1 A2]. destruct (PC hi su Rh ltac:(lia) Eh) as [B1 B2].
  pose proof (tick_to_sqrt_price_pos _ _ El). pose proof (tick_to_sqrt_price_mono lo hi sl su ltac:(lia) ltac:(lia) ltac:(lia) El Eh).
  repeat split; auto.
Qed.

(* liquidity added: the amounts charged cover the exact value (token1: up to half a unit of the 36th decimal) *)
Theorem actual_amounts_charged : forall p lo hi L a0 a1, (0 < p_spacing p)%Z -> price_consistent p -> (0 < p_sqrt p)%Z ->
  validate_tick_range (p_spacing p) lo hi = true -> (0 < L)%Z ->
  calc_actual_amounts p lo hi L = Some (a0, a1) ->
  val0 (p_sqrt p) L lo hi <= qz (d_truncate_int a0) /\ val1 (p_sqrt p) L lo hi - eps36 <= qz (d_truncate_int a1)
  /\ (0 <= d_truncate_int a0)%Z /\ (0 <= d_truncate_int a1)%Z.
Proof.
  intros p lo hi L a0 a1 Hsp PC HP V HL H. unfold calc_actual_amounts in H.
  destruct (L =? 0)%Z; [discriminate H|].
  destruct (ticks_to_sqrt_price lo hi) as [[sl su]|] eqn:T; [|discriminate H]. simpl in H.
  destruct (range_prices p lo hi sl su Hsp PC V T) as [Esl [Esu [Psl [Hls [C1 [C2 [C3 C4]]]]]]].
  assert (RU : (0 <? L)%Z = true) by (apply Z.ltb_lt; exact HL). rewrite RU in H.
  unfold val0, val1, clampP. rewrite <- Esl, <- Esu.
  assert (HL0 : (0 <= L)%Z) by lia. assert (Psu : (0 < su)%Z) by lia.
  unfold in_range in H.
  destruct (lo <=? p_tick p)%Z eqn:E1; [apply Z.leb_le in E1|apply Z.leb_gt in E1]; cbn [andb] in H.
  - destruct (p_tick p <? hi)%Z eqn:E2; [apply Z.ltb_lt in E2|apply Z.ltb_ge in E2]; cbn [andb] in H.
    + (* in range *)
      destruct (calc_amount0_delta L (p_sqrt p) su true) as [x0|] eqn:X0; [|discriminate H]. cbv beta iota in H.
      destruct (calc_amount1_delta L (p_sqrt p) sl true) as [x1|] eqn:X1; [|discriminate H]. cbv beta iota in H. inversion H; subst a0 a1.
      specialize (C1 E1). specialize (C4 E2).
      replace (Z.max sl (Z.min (p_sqrt p) su)) with (p_sqrt p) by lia.
      destruct (charged0 _ _ _ _ HL0 HP Psu X0) as [A0 A1]. destruct (charged1 _ _ _ _ HL0 X1) as [B0 B1].
      split; [apply charged0_q; assumption|]. split; [rewrite seg_amount1_sym; apply charged1_q; assumption|]. split; assumption.
    + (* above the range *)
      assert (EE : (p_tick p <? lo)%Z = false) by (apply Z.ltb_ge; lia). rewrite EE in H.
      destruct (calc_amount1_delta L sl su true) as [x1|] eqn:X1; [|discriminate H]. cbv beta iota in H. inversion H; subst a0 a1.
      specialize (C3 E2). replace (Z.max sl (Z.min (p_sqrt p) su)) with su by lia.
      destruct (charged1 _ _ _ _ HL0 X1) as [B0 B1].
      split; [rewrite (seg_amount0_same L su Psu); vm_compute; discriminate|].
      split; [apply charged1_q; assumption|]. split; [vm_compute; discriminate|assumption].
  - (* below the range *)
    assert (EE : (p_tick p <? lo)%Z = true) by (apply Z.ltb_lt; lia). rewrite EE in H.
    destruct (calc_amount0_delta L sl su true) as [x0|] eqn:X0; [|discriminate H]. cbv beta iota in H. inversion H; subst a0 a1.
    specialize (C2 E1). replace (Z.max sl (Z.min (p_sqrt p) su)) with sl by lia.
    destruct (charged0 _ _ _ _ HL0 Psl Psu X0) as [A0 A1].
    split; [apply charged0_q; assumption|].
    split; [rewrite (seg_amount1_same L sl); pose proof eps36_pos; vm_compute; discriminate|]. split; [assumption|vm_compute; discriminate].
Qed.

(* liquidity removed: the amounts paid out are within the exact value *)
Theorem actual_amounts_paid : forall p lo hi L a0 a1, (0 < p_spacing p)%Z -> price_consistent p -> (0 < p_sqrt p)%Z ->
  validate_tick_range (p_spacing p) lo hi = true -> (0 < L)%Z ->
  calc_actual_amounts p lo hi (- L) = Some (a0, a1) ->
  qz (- d_truncate_int a0) <= val0 (p_sqrt p) L lo hi /\ qz (- d_truncate_int a1) <= val1 (p_sqrt p) L lo hi
  /\ (0 <= - d_truncate_int a0)%Z /\ (0 <= - d_truncate_int a1)%Z.
Proof.
  intros p lo hi L a0 a1 Hsp PC HP V HL H. unfold calc_actual_amounts in H.
  assert (NZ : (- L =? 0)%Z = false) by (apply Z.eqb_neq; lia). rewrite NZ in H.
  destruct (ticks_to_sqrt_price lo hi) as [[sl su]|] eqn:T; [|discriminate H]. cbv beta iota in H.
  destruct (range_prices p lo hi sl su Hsp PC V T) as [Esl [Esu [Psl [Hls [C1 [C2 [C3 C4]]]]]]].
  assert (RU : (0 <? - L)%Z = false) by (apply Z.ltb_ge; lia). rewrite RU in H.
  rewrite !calc_amount0_delta_neg, !calc_amount1_delta_neg in H.
  unfold val0, val1, clampP. rewrite <- Esl, <- Esu.
  assert (HL0 : (0 <= L)%Z) by lia. assert (Psu : (0 < su)%Z) by lia.
  unfold in_range in H.
  destruct (lo <=? p_tick p)%Z eqn:E1; [apply Z.leb_le in E1|apply Z.leb_gt in E1]; cbn [andb] in H.
  - destruct (p_tick p <? hi)%Z eqn:E2; [apply Z.ltb_lt in E2|apply Z.ltb_ge in E2]; cbn [andb] in H.
    + destruct (calc_amount0_delta L (p_sqrt p) su false) as [x0|] eqn:X0; [|discriminate H]. cbn [option_map] in H. cbv beta iota in H.
      destruct (calc_amount1_delta L (p_sqrt p) sl false) as [x1|] eqn:X1; [|discriminate H]. cbn [option_map] in H. cbv beta iota in H.
      inversion H; subst a0 a1. rewrite !trunc_dec_neg, !Z.opp_involutive.
      specialize (C1 E1). specialize (C4 E2).
      replace (Z.max sl (Z.min (p_sqrt p) su)) with (p_sqrt p) by lia.
      destruct (paid0 _ _ _ _ HL0 HP Psu X0) as [A0 A1]. destruct (paid1 _ _ _ _ HL0 X1) as [B0 B1].
      split; [apply paid0_q; assumption|]. split; [rewrite seg_amount1_sym; apply paid1_q; assumption|]. split; assumption.
    + assert (EE : (p_tick p <? lo)%Z = false) by (apply Z.ltb_ge; lia). rewrite EE in H.
      destruct (calc_amount1_delta L sl su false) as [x1|] eqn:X1; [|discriminate H]. cbn [option_map] in H. cbv beta iota in H.
      inversion H; subst a0 a1. rewrite !trunc_dec_neg, !Z.opp_involutive.
      specialize (C3 E2). replace (Z.max sl (Z.min (p_sqrt p) su)) with su by lia.
      destruct (paid1 _ _ _ _ HL0 X1) as [B0 B1].
      split; [rewrite (seg_amount0_same L su Psu); vm_compute; discriminate|].
      split; [apply paid1_q; assumption|]. split; [vm_compute; discriminate|assumption].
  - assert (EE : (p_tick p <? lo)%Z = true) by (apply Z.ltb_lt; lia). rewrite EE in H.
    destruct (calc_amount0_delta L sl su false) as [x0|] eqn:X0; [|discriminate H]. cbn [option_map] in H. cbv beta iota in H.
    inversion H; subst a0 a1. rewrite !trunc_dec_neg, !Z.opp_involutive.
    specialize (C2 E1). replace (Z.max sl (Z.min (p_sqrt p) su)) with sl by lia.
    destruct (paid0 _ _ _ _ HL0 Psl Psu X0) as [A0 A1].
    split; [apply paid0_q; assumption|].
    split; [rewrite (seg_amount1_same L sl); vm_compute; discriminate|]. split; [assumption|vm_compute; discriminate].
Qed.
