(* C01: the vocabulary of the full statement (DESIGN.md section 5, C01).  Definitions only. *)
From Coq Require Import ZArith QArith List Bool Sorting.Permutation.
Import ListNotations.
From Osmo Require Import Base.DecModel CL.TickMath CL.CLMath CL.CLPool CL.CLSwap CL.CLStep
  CLR.Accum CLR.Rewards CLR.RSwap CLR.RStep C01.Solvent.
Open Scope Z_scope.

(* the sum of a claim query over all open positions; None when one of the queries fails *)
Fixpoint sum_claims (f : Z -> option (Z * Z)) (ids : list Z) : option (Z * Z) :=
  match ids with
  | [] => Some (0, 0)
  | id :: r => match f id, sum_claims f r with
               | Some c, Some t => Some (fst c + fst t, snd c + snd t)
               | _, _ => None
               end
  end.
Definition open_ids (rs : rstate) : list Z := map ps_id (s_pos (r_base rs)).
Definition spread_claims (rs : rstate) : option (Z * Z) := sum_claims (claimable_spread rs) (open_ids rs).
(* collected + forfeited: everything the incentive account owes on behalf of the position *)
Definition inc_claims (rs : rstate) : option (Z * Z) :=
  sum_claims (fun id => match claimable_incentives rs id with
                        | Some (c, f) => Some (fst c + fst f, snd c + snd f) | None => None end) (open_ids rs).
(* what the incentive records still have to emit (Dec, raw) *)
Definition recs_remaining (d : Z) (l : list inc_rec) : Z :=
  fold_right (fun r a => if ir_denom r =? d then ir_remaining r + a else a) 0 l.

(* the spread-reward account covers all claimable spread rewards; the claim queries never fail *)
Definition spread_covered (rs : rstate) : Prop :=
  exists c, spread_claims rs = Some c /\
    fst c <= fst (b_spread (s_bank (r_base rs))) /\ snd c <= snd (b_spread (s_bank (r_base rs))).
(* the incentive account covers all claimable (and forfeitable) incentives plus what the records still have to emit *)
Definition inc_covered (rs : rstate) : Prop :=
  exists c, inc_claims rs = Some c /\
    fst c * P18 + recs_remaining 0 (rw_recs (r_rw rs)) <= fst (b_inc (s_bank (r_base rs))) * P18 /\
    snd c * P18 + recs_remaining 1 (rw_recs (r_rw rs)) <= snd (b_inc (s_bank (r_base rs))) * P18.

(* everybody leaves: full withdrawal of the listed positions one after the other *)
Fixpoint withdraw_seq (rs : rstate) (ids : list Z) : option rstate :=
  match ids with
  | [] => Some rs
  | id :: r =>
    match pos_get (s_pos (r_base rs)) id with
    | None => None
    | Some q => match rhandler rs (RBase (OWithdraw (ps_owner q) id (ps_liq q))) with
                | Some (rs', _) => withdraw_seq rs' r
                | None => None
                end
    end
  end.
(* draining the positions in any order succeeds, and leaves nothing negative behind *)
Definition withdraw_all_succeeds (rs : rstate) : Prop :=
  forall ids, Permutation ids (open_ids rs) ->
  exists rs', withdraw_seq rs ids = Some rs' /\ s_pos (r_base rs') = [] /\
    let b := s_bank (r_base rs') in
    0 <= fst (b_pool b) /\ 0 <= snd (b_pool b) /\ 0 <= fst (b_spread b) /\ 0 <= snd (b_spread b) /\
    0 <= fst (b_inc b) /\ 0 <= snd (b_inc b).

(* DESIGN's invariant; the principal part without any slack *)
Definition Solv (rs : rstate) : Prop :=
  SolvP (r_base rs) 0 /\ spread_covered rs /\ inc_covered rs.
