(* C01, principal part through swaps, step 3: a swap preserves the exact-rational solvency invariant of C01/Solvent.v.
   The pool account receives exactly the sum of the per-step amounts in (whole units; the spread charges go to the
   spread-reward account), which covers the increase of the exact value of the positions in the token going in (token1: up
   to half a unit of the 36th decimal per step), and pays out at most the decrease of the exact value in the other token. *)
From Coq Require Import ZArith QArith List Bool Lia Lqa.
Import ListNotations.
From Osmo Require Import Base.DecModel CL.TickMath CL.CLMath CL.CLPool CL.CLSwap CL.CLStep CL.Ideal
  C07.Base C07.TickLemmas C07.LP C07.SwapDir C07.Swap C03.Rounding C03.Steps C03.Path C03.Whole
  C01.Exact C01.Solvent C01.SwapPath C01.Potential.
Open Scope Q_scope.

Lemma seg_amount0_sym : forall L a b, seg_amount0 L a b == seg_amount0 L b a.
Proof.
  intros L a b. unfold seg_amount0. rewrite <- (Z.abs_opp (a - b)). replace (- (a - b))%Z with (b - a)%Z by ring.
  rewrite (Qmult_comm (qz a / q36) (qz b / q36)). reflexivity.
Qed.

(* ---------- the amounts in alone cover the exact amounts in ---------- *)
Lemma sum_in_covers : forall s zfo tr, Forall (seg_ok s zfo) tr -> Forall (seg2_ok s zfo) tr ->
  qsum (ideal_in_of zfo) tr - in_slack zfo * qz (Z.of_nat (length tr)) <= qz (sum_in tr) / q18.
Proof.
  induction tr as [|sg tr IH]; intros H H2.
  - simpl. unfold Qdiv. rewrite !Qmult_0_l, Qmult_0_r. apply Qle_refl.
  - inversion H; subst. inversion H2; subst. specialize (IH H4 H6).
    destruct H3 as [_ [_ [Pa [Pb _]]]]. destruct H5 as [IC _].
    assert (Step : ideal_in_of zfo sg - in_slack zfo <= qz (sg_in sg) / q18).
    { unfold ideal_in_of, seg_in, in_covers, in_slack in *. rewrite Z.sub_0_r in IC. destruct zfo.
      - unfold seg_amount0. unfold Qminus. rewrite Qplus_0_r.
        pose proof (seg0_covered (sg_in sg) 0 (sg_liq sg) (Z.abs (sg_a sg - sg_b sg)) (sg_a sg) (sg_b sg) Pa Pb) as X.
        rewrite Z.sub_0_r in X. change (qz 0) with 0 in X.
        setoid_replace (qz (sg_in sg) / q18) with (qz (sg_in sg) / q18 * (1 - 0 / q18)) by (field; apply q18_nz).
        apply X. replace (sg_in sg * P18 * sg_a sg * sg_b sg)%Z with (sg_in sg * P18 * sg_b sg * sg_a sg)%Z by ring. exact IC.
      - unfold seg_amount1.
        pose proof (seg1_covered (sg_in sg) 0 (sg_liq sg) (Z.abs (sg_a sg - sg_b sg))) as X.
        rewrite Z.sub_0_r in X. change (qz 0) with 0 in X.
        setoid_replace (qz (sg_in sg) / q18) with (qz (sg_in sg) / q18 * (1 - 0 / q18)) by (field; apply q18_nz).
        apply X. exact IC. }
    change (length (sg :: tr)) with (S (length tr)). rewrite Nat2Z.inj_succ. unfold Z.succ.
    simpl qsum. simpl sum_in. rewrite (qz_plus (sg_in sg)), (qz_plus (Z.of_nat (length tr)) 1).
    setoid_replace (ideal_in_of zfo sg + qsum (ideal_in_of zfo) tr - in_slack zfo * (qz (Z.of_nat (length tr)) + qz 1))
      with ((ideal_in_of zfo sg - in_slack zfo) + (qsum (ideal_in_of zfo) tr - in_slack zfo * qz (Z.of_nat (length tr))))
      by (unfold qz at 2; simpl; ring).
    setoid_replace ((qz (sg_in sg) + qz (sum_in tr)) / q18) with (qz (sg_in sg) / q18 + qz (sum_in tr) / q18) by (field; apply q18_nz).
    apply Qplus_le_compat; assumption.
Qed.

(* ---------- the potential function along the chain of segments ---------- *)
Definition Ein (zfo : bool) (s : state) (P : Z) : Q := if zfo then qsum_pos (pval0 P) (s_pos s) else qsum_pos (pval1 P) (s_pos s).
Definition Eout (zfo : bool) (s : state) (P : Z) : Q := if zfo then qsum_pos (pval1 P) (s_pos s) else qsum_pos (pval0 P) (s_pos s).

Lemma chain_potential : forall s zfo tr a b, Inv s -> chain a tr b -> Forall (seg_ok s zfo) tr -> Forall (seg2_ok s zfo) tr ->
  Ein zfo s b - Ein zfo s a == qsum (ideal_in_of zfo) tr /\ Eout zfo s a - Eout zfo s b == qsum (ideal_out_of zfo) tr.
Proof.
  induction tr as [|sg tr IH]; intros a b I C H H2; simpl in C.
  - subst b. simpl. split; ring.
  - destruct C as [Ca C]. inversion H; subst. inversion H2; subst.
    destruct (IH (sg_b sg) b I C H4 H6) as [I1 I2]. clear IH.
    destruct H3 as [SL [_ [Pa [Pb [PC _]]]]]. destruct H5 as [_ [_ [_ [BS DIR]]]].
    simpl qsum. unfold ideal_in_of, ideal_out_of, seg_in, seg_out, Ein, Eout in *. rewrite SL. destruct zfo.
    + (* price moves down: x = sg_b <= y = sg_a *)
      destruct (bucket_potential s (sg_tick sg) (sg_b sg) (sg_a sg) I Pb DIR (or_intror BS) (or_introl PC)) as [B0 B1].
      rewrite (seg_amount0_sym _ (sg_a sg) (sg_b sg)), (seg_amount1_sym _ (sg_a sg) (sg_b sg)), <- B0, <- B1. split; lra.
    + destruct (bucket_potential s (sg_tick sg) (sg_a sg) (sg_b sg) I Pa DIR (or_introl PC) (or_intror BS)) as [B0 B1].
      rewrite <- B0, <- B1. split; lra.
Qed.

(* ---------- whole units: the pool account receives exactly the sum of the per-step amounts in ---------- *)
Open Scope Z_scope.
Lemma sum_in_whole : forall s zfo tr, Forall (seg2_ok s zfo) tr -> Z.rem (sum_in tr) P18 = 0 /\ 0 <= sum_in tr.
Proof.
  induction tr as [|sg tr IH]; intros H; simpl; [split; [reflexivity|lia]|]. inversion H; subst. destruct (IH H3) as [A B].
  destruct H2 as [_ [R [N _]]]. split; [|lia].
  pose proof (Z.quot_rem' (sg_in sg) P18) as Q1. pose proof (Z.quot_rem' (sum_in tr) P18) as Q2. rewrite R, Z.add_0_r in Q1. rewrite A, Z.add_0_r in Q2.
  rewrite Q1, Q2. replace (P18 * Z.quot (sg_in sg) P18 + P18 * Z.quot (sum_in tr) P18) with ((Z.quot (sg_in sg) P18 + Z.quot (sum_in tr) P18) * P18) by ring.
  apply Z.rem_mul. unfold P18; lia.
Qed.

Lemma ceil_split : forall A F, 0 <= A -> 0 <= F -> Z.rem A P18 = 0 ->
  d_truncate_int (d_ceil (A + F)) = Z.quot A P18 + d_truncate_int (d_ceil F).
Proof.
  intros A F HA HF R. pose proof P18_pos as HP.
  pose proof (Z.quot_rem' A P18) as QA. rewrite R, Z.add_0_r in QA. set (k := Z.quot A P18) in *.
  assert (Hk : 0 <= k) by (apply Z.quot_pos; lia).
  destruct (quot_rem_pos F P18 HF HP) as [QF [RF QF0]]. set (q := Z.quot F P18) in *. set (r := Z.rem F P18) in *.
  assert (E : A + F = P18 * (k + q) + r) by lia.
  assert (Q' : Z.quot (A + F) P18 = k + q /\ Z.rem (A + F) P18 = r).
  { assert (H0 : 0 <= A + F) by lia. destruct (quot_rem_pos (A + F) P18 H0 HP) as [Q1 [R1 Q10]].
    assert (P18 * (Z.quot (A + F) P18 - (k + q)) = r - Z.rem (A + F) P18) by lia.
    assert (Z.quot (A + F) P18 - (k + q) = 0) by nia. split; lia. }
  destruct Q' as [Q1 R1]. unfold d_ceil, d_truncate_int. rewrite Q1, R1. fold q r.
  destruct (0 <? r); rewrite !Z.quot_mul by lia; lia.
Qed.

Lemma pick_add : forall zfo x (b : Z * Z), (fst b + fst (pick zfo x), snd b + snd (pick zfo x)) = if zfo then (fst b + x, snd b) else (fst b, snd b + x).
Proof. intros [|] x [b0 b1]; simpl; f_equal; lia. Qed.

(* what updatePoolForSwap does to the pool account *)
Lemma update_pool_for_swap_bpool : forall s sender zfo r s', update_pool_for_swap s sender zfo r = Some s' ->
  let to_pool := sr_in r - d_truncate_int (d_ceil (sr_fee r)) in
  b_pool (s_bank s') = (fst (b_pool (s_bank s)) + fst (pick zfo to_pool) - fst (pick (negb zfo) (sr_out r)),
                        snd (b_pool (s_bank s)) + snd (pick zfo to_pool) - snd (pick (negb zfo) (sr_out r))) /\
  s_pos s' = s_pos s /\ p_sqrt (s_pool s') = sr_sqrt r.
Proof.
  unfold update_pool_for_swap. intros s sender zfo r s' H. cbv zeta in H |- *.
  destruct (sr_in r - d_truncate_int (d_ceil (sr_fee r)) <=? 0); [discriminate H|].
  destruct (user_bal (s_bank s) sender); [|discriminate H]. cbv beta iota in H.
  destruct (pick zfo (sr_in r - d_truncate_int (d_ceil (sr_fee r)))) as [i0 i1] eqn:EPi.
  destruct (send_user_to_pool (s_bank s) sender i0 i1) as [b1|] eqn:E1; [|discriminate H]. cbv beta iota in H.
  match type of H with (do b2 <- ?X; _) = _ => destruct X as [b2|] eqn:E2; [|discriminate H] end. cbv beta iota in H.
  destruct (sr_out r <=? 0); [discriminate H|].
  destruct (pick (negb zfo) (sr_out r)) as [o0 o1] eqn:EPo.
  destruct (send_pool_to_user b2 sender o0 o1) as [b3|] eqn:E3; [|discriminate H]. cbv beta iota in H.
  match type of H with (if ?b then None else _) = _ => destruct b; [discriminate H|] end.
  inversion H; subst. simpl. split; [|split; reflexivity].
  destruct (send_pool_to_user_bpool _ _ _ _ _ E3) as [B3 _]. rewrite B3.
  assert (B2 : b_pool b2 = b_pool b1).
  { destruct (d_truncate_int (d_ceil (sr_fee r)) =? 0); [inversion E2; reflexivity|].
    destruct (user_bal b1 sender) as [ub1|]; [|discriminate E2]. cbv beta iota in E2.
    destruct (pick zfo (d_truncate_int (d_ceil (sr_fee r)))) as [f0 f1].
    destruct ((fst ub1 <? f0) || (snd ub1 <? f1)); [discriminate E2|]. inversion E2; subst. reflexivity. }
  rewrite B2, (send_user_to_pool_bpool _ _ _ _ _ E1). simpl. reflexivity.
Qed.

Lemma sum_fee_nonneg : forall s zfo tr, Forall (seg_ok s zfo) tr -> 0 <= sum_fee tr.
Proof.
  induction tr as [|sg tr IH]; intros H; [simpl; lia|]. change (sum_fee (sg :: tr)) with (sg_fee sg + sum_fee tr).
  inversion H; subst. specialize (IH H3). destruct H2 as [_ [_ [_ [_ [_ [_ [_ [F _]]]]]]]]. lia.
Qed.
Lemma sum_gross_split : forall tr, sum_gross tr = sum_in tr + sum_fee tr.
Proof.
  induction tr as [|sg tr IH]; [reflexivity|].
  change (sum_gross (sg :: tr)) with (sg_in sg + sg_fee sg + sum_gross tr). change (sum_in (sg :: tr)) with (sg_in sg + sum_in tr).
  change (sum_fee (sg :: tr)) with (sg_fee sg + sum_fee tr). lia.
Qed.

(* ---------- a swap takes at most swap_fuel steps ---------- *)
Lemma loop_out_trace_len : forall fuel zfo accum spf sc limit st iter noprog st' tr,
  loop_out_trace fuel zfo accum spf sc limit st iter noprog = Some (st', tr) -> (length tr <= fuel)%nat.
Proof.
  induction fuel as [|f IH]; intros zfo accum spf sc limit st iter noprog st' tr H; simpl in H; [discriminate H|].
  destruct ((smallest_dec <? ss_remaining st) && negb (ss_sqrt st =? limit)); [|inversion H; subst; simpl; lia].
  destruct iter as [|[nt info] rest]; [discriminate H|].
  destruct (tick_to_sqrt_price nt) as [nts|]; [|discriminate H]. cbv beta iota in H.
  destruct (compute_out_given_in _ _ _ _ _ _) as [[[[computed ain] aout] fee]|]; [|discriminate H].
  cbv beta iota in H. destruct (negb (progress_ok computed (ss_sqrt st) ain aout)); [discriminate H|].
  destruct (dchk (ain + fee)) as [infee|]; [|discriminate H]. cbv beta iota in H.
  destruct (after_step _ _ _ _ _ _ _ _ _ _ _ _) as [[st1 iter1]|]; [|discriminate H]. cbv beta iota in H.
  destruct (ain =? 0).
  - destruct (swap_no_progress_limit <=? noprog); [discriminate H|].
    destruct (loop_out_trace f _ _ _ _ _ _ _ _) as [[st2 tr2]|] eqn:ELp; [|discriminate H].
    inversion H; subst. apply IH in ELp. simpl. lia.
  - destruct (loop_out_trace f _ _ _ _ _ _ _ _) as [[st2 tr2]|] eqn:ELp; [|discriminate H].
    inversion H; subst. apply IH in ELp. simpl. lia.
Qed.
Lemma loop_in_trace_len : forall fuel zfo accum spf sc limit st iter noprog st' tr,
  loop_in_trace fuel zfo accum spf sc limit st iter noprog = Some (st', tr) -> (length tr <= fuel)%nat.
Proof.
  induction fuel as [|f IH]; intros zfo accum spf sc limit st iter noprog st' tr H; simpl in H; [discriminate H|].
  destruct ((smallest_dec <? ss_remaining st) && negb (ss_sqrt st =? limit)); [|inversion H; subst; simpl; lia].
  destruct iter as [|[nt info] rest]; [discriminate H|].
  destruct (tick_to_sqrt_price nt) as [nts|]; [|discriminate H]. cbv beta iota in H.
  destruct (compute_in_given_out _ _ _ _ _ _) as [[[[computed aout] ain] fee]|]; [|discriminate H].
  cbv beta iota in H. repeat match type of H with (if ?b then None else _) = _ => destruct b; [discriminate H|] end.
  repeat match type of H with (do _ <- dchk ?x; _) = _ => destruct (dchk x); [|discriminate H]; cbv beta iota in H end.
  destruct (after_step _ _ _ _ _ _ _ _ _ _ _ _) as [[st1 iter1]|]; [|discriminate H]. cbv beta iota in H.
  match type of H with (if ?c then _ else _) = _ => destruct c end.
  - destruct (swap_no_progress_limit <=? noprog); [discriminate H|].
    destruct (loop_in_trace f _ _ _ _ _ _ _ _) as [[st2 tr2]|] eqn:ELp; [|discriminate H].
    inversion H; subst. apply IH in ELp. simpl. lia.
  - destruct (loop_in_trace f _ _ _ _ _ _ _ _) as [[st2 tr2]|] eqn:ELp; [|discriminate H].
    inversion H; subst. apply IH in ELp. simpl. lia.
Qed.

(* ---------- the two computations, with the part of the amount in that goes to the pool account ---------- *)
Theorem swap_in_path2 : forall s zfo amt r, Inv s -> 0 <= amt ->
  compute_out_amt_given_in s zfo true amt = Some r ->
  exists tr, chain (p_sqrt (s_pool s)) tr (sr_sqrt r) /\ Forall (seg_ok s zfo) tr /\ Forall (seg2_ok s zfo) tr /\
    sr_out r * P18 <= sum_out tr /\ (sr_in r - d_truncate_int (d_ceil (sr_fee r))) * P18 = sum_in tr /\
    (length tr <= swap_fuel (s_ticks s))%nat.
Proof.
  intros s zfo amt r I Ha H. unfold compute_out_amt_given_in in H.
  destruct (swap_setup s zfo) as [[limit iter]|] eqn:ES; [|discriminate].
  destruct (loop_out_given_in _ _ _ _ _ _ _ _ _) as [st|] eqn:EL; [|discriminate].
  destruct (ss_remaining st <? 0) eqn:En; [discriminate|]. apply Z.ltb_ge in En. inversion H; subst r; clear H. simpl.
  destruct (swap_setup_LI s zfo limit iter (d_from_int amt) I ES) as [HL [Hne L0]].
  destruct (loop_out_trace_fst _ _ _ _ _ _ _ _ _ _ EL) as [tr ET].
  destruct (loop_out_path _ _ _ _ _ _ _ _ _ _ _ I HL L0 ET) as [_ [C [F [R1 R2]]]].
  destruct (loop_out_path2 _ _ _ _ _ _ _ _ _ _ _ I HL L0 ET) as [F2 FE]. specialize (FE eq_refl).
  simpl in C, R1, R2, FE. exists tr. split; [assumption|]. split; [assumption|]. split; [assumption|].
  pose proof (sum_out_nonneg _ _ _ F). pose proof (sum_fee_nonneg _ _ _ F). destruct (sum_in_whole _ _ _ F2) as [W W0].
  unfold d_from_int in *. rewrite R2, FE, ?Z.add_0_l.
  replace (amt * P18 - ss_remaining st) with (sum_in tr + sum_fee tr) by (rewrite <- sum_gross_split; lia).
  split; [apply d_trunc_le; assumption|].
  rewrite (ceil_split _ _ W0 H0 W).
  pose proof (Z.quot_rem' (sum_in tr) P18) as Q. rewrite W in Q. split; [lia|]. exact (loop_out_trace_len _ _ _ _ _ _ _ _ _ _ _ ET).
Qed.

Theorem swap_out_path2 : forall s zfo amt r, Inv s -> 0 <= amt ->
  compute_in_amt_given_out s zfo true amt = Some r ->
  exists tr, chain (p_sqrt (s_pool s)) tr (sr_sqrt r) /\ Forall (seg_ok s zfo) tr /\ Forall (seg2_ok s zfo) tr /\
    sr_out r * P18 <= sum_out tr /\ (sr_in r - d_truncate_int (d_ceil (sr_fee r))) * P18 = sum_in tr /\
    (length tr <= swap_fuel (s_ticks s))%nat.
Proof.
  intros s zfo amt r I Ha H. unfold compute_in_amt_given_out in H.
  destruct (swap_setup s zfo) as [[limit iter]|] eqn:ES; [|discriminate].
  destruct (loop_in_given_out _ _ _ _ _ _ _ _ _) as [st|] eqn:EL; [|discriminate].
  destruct (ss_remaining st <? 0) eqn:En; [discriminate|]. apply Z.ltb_ge in En. inversion H; subst r; clear H. simpl.
  destruct (swap_setup_LI s zfo limit iter (d_from_int amt) I ES) as [HL [Hne L0]].
  destruct (loop_in_trace_fst _ _ _ _ _ _ _ _ _ _ EL) as [tr ET].
  destruct (loop_in_path _ _ _ _ _ _ _ _ _ _ _ I HL L0 ET) as [_ [C [F [R1 [R2 _]]]]].
  destruct (loop_in_path2 _ _ _ _ _ _ _ _ _ _ _ I HL L0 ET) as [F2 FE]. specialize (FE eq_refl).
  simpl in C, R1, R2, FE. exists tr. split; [assumption|]. split; [assumption|]. split; [assumption|].
  pose proof (sum_out_nonneg _ _ _ F). pose proof (sum_fee_nonneg _ _ _ F). destruct (sum_in_whole _ _ _ F2) as [W W0].
  unfold d_from_int in *. rewrite R2, FE, ?Z.add_0_l.
  replace (amt * P18 - ss_remaining st) with (sum_out tr) by lia.
  split; [apply d_trunc_le; assumption|].
  rewrite sum_gross_split, (ceil_split _ _ W0 H0 W).
  pose proof (Z.quot_rem' (sum_in tr) P18) as Q. rewrite W in Q. split; [lia|]. exact (loop_in_trace_len _ _ _ _ _ _ _ _ _ _ _ ET).
Qed.

(* ---------- the invariant through the bank movement of a swap ---------- *)
Open Scope Q_scope.
Lemma qz_minus : forall a b, qz (a - b) == qz a - qz b.
Proof. intros. unfold qz, Zminus. rewrite inject_Z_plus, inject_Z_opp. reflexivity. Qed.

Lemma swap_core : forall s s' zfo tr n tin tout,
  Inv s -> SolvP s n -> chain (p_sqrt (s_pool s)) tr (p_sqrt (s_pool s')) ->
  Forall (seg_ok s zfo) tr -> Forall (seg2_ok s zfo) tr -> s_pos s' = s_pos s ->
  (tin * P18 = sum_in tr)%Z -> (tout * P18 <= sum_out tr)%Z ->
  b_pool (s_bank s') = ((fst (b_pool (s_bank s)) + fst (pick zfo tin) - fst (pick (negb zfo) tout))%Z,
                        (snd (b_pool (s_bank s)) + snd (pick zfo tin) - snd (pick (negb zfo) tout))%Z) ->
  SolvP s' (n + (if zfo then 0 else Z.of_nat (length tr))).
Proof.
  intros s s' zfo tr n tin tout I [S0 S1] C F F2 HP Hin Hout HB.
  destruct (chain_potential s zfo tr _ _ I C F F2) as [I1 I2].
  pose proof (sum_in_covers s zfo tr F F2) as CI. pose proof (sum_out_le_ideal s zfo tr F) as CO.
  assert (Tin : qz (sum_in tr) / q18 == qz tin).
  { rewrite <- Hin, qz_mult. change (qz P18) with q18. field. apply q18_nz. }
  assert (Tout : qz tout <= qz (sum_out tr) / q18) by (apply qz_div18; exact Hout).
  rewrite Tin in CI. clear Tin Hin Hout.
  unfold SolvP, E0, E1 in *. rewrite HP, HB. cbn [fst snd]. unfold Ein, Eout in I1, I2.
  set (X := qsum (ideal_in_of zfo) tr) in *. set (Y := qsum (ideal_out_of zfo) tr) in *.
  set (b0 := fst (b_pool (s_bank s))) in *. set (b1 := snd (b_pool (s_bank s))) in *.
  destruct zfo; cbn [pick negb fst snd] in *; unfold in_slack in CI; fold eps36 in CI.
  - set (e0 := qsum_pos (pval0 (p_sqrt (s_pool s'))) (s_pos s)) in *. set (e0' := qsum_pos (pval0 (p_sqrt (s_pool s))) (s_pos s)) in *.
    set (e1 := qsum_pos (pval1 (p_sqrt (s_pool s'))) (s_pos s)) in *. set (e1' := qsum_pos (pval1 (p_sqrt (s_pool s))) (s_pos s)) in *.
    rewrite Z.add_0_r. rewrite !qz_minus, !qz_plus. change (qz 0) with 0. split; lra.
  - set (e0 := qsum_pos (pval0 (p_sqrt (s_pool s'))) (s_pos s)) in *. set (e0' := qsum_pos (pval0 (p_sqrt (s_pool s))) (s_pos s)) in *.
    set (e1 := qsum_pos (pval1 (p_sqrt (s_pool s'))) (s_pos s)) in *. set (e1' := qsum_pos (pval1 (p_sqrt (s_pool s))) (s_pos s)) in *.
    rewrite !qz_minus, !qz_plus. change (qz 0) with 0. set (ln := qz (Z.of_nat (length tr))) in *. split; lra.
Qed.

Lemma eps36_nonneg : 0 <= eps36.
Proof. unfold eps36. apply Qle_shift_div_l; [|lra]. pose proof q36_pos. lra. Qed.
Lemma SolvP_mono : forall s n m, (n <= m)%Z -> SolvP s n -> SolvP s m.
Proof.
  intros s n m H [A B]. split; [exact A|]. pose proof eps36_nonneg as E. pose proof (qz_le _ _ H) as Q.
  assert (qz n * eps36 <= qz m * eps36) by (apply Qmult_le_compat_r; assumption). lra.
Qed.
(* the number of half-units of the 36th decimal a swap can add to the slack of token1 *)
Definition swap_cost (s : state) (zfo : bool) : Z := if zfo then 0 else Z.of_nat (swap_fuel (s_ticks s)).

Theorem swap_in_solvent : forall s n sender zfo amt mo s' out, Inv s -> SolvP s n ->
  swap_exact_in s sender zfo amt mo = Some (s', out) -> SolvP s' (n + swap_cost s zfo).
Proof.
  intros s n sender zfo amt mo s' out I S H. unfold swap_exact_in in H.
  destruct (negb (0 <? amt) || negb (0 <? mo)) eqn:EV; [discriminate H|].
  apply orb_false_iff in EV. destruct EV as [EV _]. apply negb_false_iff, Z.ltb_lt in EV.
  destruct (compute_out_amt_given_in s zfo true amt) as [r|] eqn:EC; [|discriminate H]. cbv beta iota in H.
  destruct (negb (0 <? sr_out r)); [discriminate H|].
  destruct (update_pool_for_swap s sender zfo r) as [s1|] eqn:EU; [|discriminate H]. cbv beta iota in H.
  destruct (sr_out r <? mo); [discriminate H|]. inversion H; subst s1 out; clear H.
  assert (Ha : (0 <= amt)%Z) by lia.
  destruct (swap_in_path2 s zfo amt r I Ha EC) as [tr [C [F [F2 [Ho [Hi Hl]]]]]].
  destruct (update_pool_for_swap_bpool _ _ _ _ _ EU) as [HB [HP HS]]. cbv zeta in HB.
  apply (SolvP_mono s' (n + (if zfo then 0 else Z.of_nat (length tr)))%Z); [unfold swap_cost; destruct zfo; lia|].
  apply (swap_core s s' zfo tr n (sr_in r - d_truncate_int (d_ceil (sr_fee r)))%Z (sr_out r) I S);
    [rewrite HS; exact C|assumption|assumption|assumption|exact Hi|exact Ho|exact HB].
Qed.

Theorem swap_out_solvent : forall s n sender zfo amt mi s' tin, Inv s -> SolvP s n ->
  swap_exact_out s sender zfo amt mi = Some (s', tin) -> SolvP s' (n + swap_cost s zfo).
Proof.
  intros s n sender zfo amt mi s' tin I S H. unfold swap_exact_out in H.
  destruct (negb (0 <? amt) || negb (0 <? mi)) eqn:EV; [discriminate H|].
  apply orb_false_iff in EV. destruct EV as [EV _]. apply negb_false_iff, Z.ltb_lt in EV.
  destruct (compute_in_amt_given_out s zfo true amt) as [r|] eqn:EC; [|discriminate H]. cbv beta iota in H.
  assert (Ha : (0 <= amt)%Z) by lia.
  destruct (swap_out_path2 s zfo amt r I Ha EC) as [tr [C [F [F2 [Ho [Hi Hl]]]]]].
  apply (SolvP_mono s' (n + (if zfo then 0 else Z.of_nat (length tr)))%Z); [unfold swap_cost; destruct zfo; lia|].
  revert H. repeat match goal with |- context [if ?b then None else _] => destruct b; [discriminate|] end.
  destruct (update_pool_for_swap s sender zfo r) as [s1|] eqn:EU; [|discriminate]. cbv beta iota.
  repeat match goal with |- context [if ?b then None else _] => destruct b; [discriminate|] end.
  intros H. inversion H; subst s1; clear H.
  destruct (update_pool_for_swap_bpool _ _ _ _ _ EU) as [HB [HP HS]]. cbv zeta in HB.
  apply (swap_core s s' zfo tr n (sr_in r - d_truncate_int (d_ceil (sr_fee r)))%Z (sr_out r) I S);
    [rewrite HS; exact C|assumption|assumption|assumption|exact Hi|exact Ho|exact HB].
Qed.
