(* C01, withdraw_all_succeeds, principal half: from the proved invariant SolvP a FULL withdrawal of any open position SUCCEEDS
   (it never reaches the insufficient-funds branch of the pool account, and none of its other checks fails), it preserves
   everything the argument needs, hence all positions can be withdrawn one after the other in ANY order.
   The two facts about the state that are not consequences of the model's invariant are explicit hypotheses:
   - [liq_bounded]: every open position's liquidity is a valid LegacyDec (<= 2^256 * 10^18 - 1 raw).  The Go code panics in
     LegacyDec.AddMut when a tick's gross liquidity leaves that range; the model's tick bookkeeping is unbounded, so the bound
     is not derivable there.  It is what makes the BigDec bit-length checks of CalcAmount0Delta / CalcAmount1Delta pass.
   - [owners_have_accounts]: the owner of every open position is one of the model's finitely many bank users (any address
     can receive coins in the SDK; the model's bank is a finite list and position transfers do not check the recipient). *)
From Coq Require Import ZArith QArith List Bool Lia Sorting.Permutation.
Import ListNotations.
From Osmo Require Import Base.DecModel CL.TickMath CL.CLMath CL.CLPool CL.CLSwap CL.CLStep
  C07.Base C07.TickLemmas C07.LP C07.Swap C01.Exact C01.Solvent.
Open Scope Z_scope.

(* ---------- the BigDec bit-length checks ---------- *)
Lemma bd_fits_bound : forall z, Z.abs z < 2 ^ 1144 -> bd_fits z = true.
Proof.
  intros z H. unfold bd_fits, bitlen, max_dec_bit_len. destruct (z =? 0) eqn:E; [reflexivity|]. apply Z.eqb_neq in E.
  apply Z.leb_le. assert (Z.log2 (Z.abs z) < 1144) by (apply Z.log2_lt_pow2; lia). lia.
Qed.
Lemma bd_chk_bound : forall z, Z.abs z < 2 ^ 1144 -> bd_chk z = Some z.
Proof. intros z H. unfold bd_chk. rewrite (bd_fits_bound z H). reflexivity. Qed.

Lemma quot_abs_le : forall a b, b <> 0 -> Z.abs (Z.quot a b) <= Z.abs a.
Proof.
  intros a b Hb. rewrite <- Z.quot_abs by exact Hb.
  apply Z.quot_le_upper_bound; [lia|]. assert (0 <= Z.abs a) by lia. assert (1 <= Z.abs b) by lia. nia.
Qed.

Definition sq_max : Z := sq MaxTick.
Definition liq_max : Z := upper_limit18.

Lemma sq_le_max : forall t s, MinInitializedTick <= t <= MaxTick -> tick_to_sqrt_price t = Some s -> 0 < s <= sq_max.
Proof.
  intros t s Ht E. split; [eapply tick_to_sqrt_price_pos; exact E|].
  destruct (tick_to_sqrt_price_defined MaxTick ltac:(rewrite MinInit_val, MaxTick_val; lia)) as [m Em].
  unfold sq_max, sq. rewrite Em. eapply (tick_to_sqrt_price_mono t MaxTick); try eassumption; lia.
Qed.
Lemma sq_max_bound : sq_max < 2 ^ 200.
Proof. vm_compute. reflexivity. Qed.

Lemma P36_lt : P36 < 2 ^ 120. Proof. vm_compute. reflexivity. Qed.
Lemma P36_pos : 0 < P36. Proof. vm_compute. reflexivity. Qed.
Lemma P18_nz : P18 <> 0. Proof. vm_compute. discriminate. Qed.
Lemma liq_max_bound : liq_max < 2 ^ 320. Proof. vm_compute. reflexivity. Qed.

Lemma pow_split : 2 ^ 1144 = 2 ^ 200 * 2 ^ 320 * 2 ^ 120 * 2 ^ 120 * 2 ^ 384.
Proof. rewrite <- !Z.pow_add_r by lia. reflexivity. Qed.

(* the truncating chain of CalcAmount0Delta: |diff * liq / 10^18 * 10^36 / sb * 10^36 / sa| <= |diff * liq| * 10^72 *)
Lemma calc_amount0_delta_total : forall liq sa sb, 0 < sa < 2 ^ 200 -> 0 < sb < 2 ^ 200 -> Z.abs liq < 2 ^ 320 ->
  exists x, calc_amount0_delta liq sa sb false = Some x.
Proof.
  intros liq sa sb Ha Hb HL. unfold calc_amount0_delta.
  assert (G : forall a b, 0 < a < 2 ^ 200 -> 0 < b < 2 ^ 200 -> a <= b ->
    exists x, (do _ <- nz a; do _ <- nz b;
               do x <- bd_chk (bd_mul_truncate_dec (b - a) liq); do y <- bd_chk (bd_quo_truncate x b); bd_chk (bd_quo_truncate y a)) = Some x).
  { intros a b A B AB. unfold nz. replace (a =? 0) with false by (symmetry; apply Z.eqb_neq; lia).
    replace (b =? 0) with false by (symmetry; apply Z.eqb_neq; lia). cbv beta iota.
    unfold bd_mul_truncate_dec, chop_trunc, bd_quo_truncate.
    set (x := Z.quot ((b - a) * liq) P18).
    assert (X : Z.abs x <= 2 ^ 200 * 2 ^ 320).
    { eapply Z.le_trans; [apply quot_abs_le; exact P18_nz|]. rewrite Z.abs_mul. apply Z.mul_le_mono_nonneg; lia. }
    pose proof P36_lt as P3. pose proof P36_pos as P0.
    assert (P2 : 0 < 2 ^ 200 * 2 ^ 320) by (apply Z.mul_pos_pos; apply Z.pow_pos_nonneg; lia).
    assert (P384 : 1 < 2 ^ 384) by (apply Z.pow_gt_1; lia).
    rewrite bd_chk_bound; [|rewrite pow_split; nia]. cbv beta iota.
    set (y := Z.quot (x * P36) b).
    assert (Y : Z.abs y <= 2 ^ 200 * 2 ^ 320 * 2 ^ 120).
    { eapply Z.le_trans; [apply quot_abs_le; lia|]. rewrite Z.abs_mul. apply Z.mul_le_mono_nonneg; lia. }
    rewrite bd_chk_bound; [|rewrite pow_split; nia]. cbv beta iota.
    set (z := Z.quot (y * P36) a).
    assert (Zb : Z.abs z <= 2 ^ 200 * 2 ^ 320 * 2 ^ 120 * 2 ^ 120).
    { eapply Z.le_trans; [apply quot_abs_le; lia|]. rewrite Z.abs_mul. apply Z.mul_le_mono_nonneg; lia. }
    rewrite bd_chk_bound; [|rewrite pow_split; nia]. eexists; reflexivity. }
  destruct (sb <? sa) eqn:E; [apply Z.ltb_lt in E; apply G; lia|apply Z.ltb_ge in E; apply G; lia].
Qed.

Lemma calc_amount1_delta_total : forall liq sa sb, 0 < sa < 2 ^ 200 -> 0 < sb < 2 ^ 200 -> Z.abs liq < 2 ^ 320 ->
  exists x, calc_amount1_delta liq sa sb false = Some x.
Proof.
  intros liq sa sb Ha Hb HL. unfold calc_amount1_delta, bd_mul_truncate_dec, chop_trunc.
  assert (P2 : 0 < 2 ^ 200 * 2 ^ 320) by (apply Z.mul_pos_pos; apply Z.pow_pos_nonneg; lia).
  assert (P384 : 1 < 2 ^ 384) by (apply Z.pow_gt_1; lia).
  assert (P120 : 1 <= 2 ^ 120) by (apply Z.lt_le_incl, Z.pow_gt_1; lia).
  rewrite bd_chk_bound; [eexists; reflexivity|].
  eapply Z.le_lt_trans; [apply quot_abs_le; exact P18_nz|]. rewrite Z.abs_mul.
  assert (Z.abs (Z.abs (sb - sa)) * Z.abs liq <= 2 ^ 200 * 2 ^ 320) by (apply Z.mul_le_mono_nonneg; lia).
  rewrite pow_split. nia.
Qed.

(* CalcActualAmounts for the removal of a valid amount of liquidity from a valid range never fails *)
Lemma calc_actual_amounts_total : forall p lo hi L, 0 < p_spacing p -> price_consistent p -> 0 < p_sqrt p ->
  validate_tick_range (p_spacing p) lo hi = true -> 0 < L <= liq_max ->
  exists x0 x1, calc_actual_amounts p lo hi (- L) = Some (x0, x1).
Proof.
  intros p lo hi L Hsp PC HP V HL. unfold calc_actual_amounts.
  replace (- L =? 0) with false by (symmetry; apply Z.eqb_neq; lia).
  destruct (validate_tick_range_spec _ _ _ V) as [_ [_ [_ [Bl [Bh Hlh]]]]].
  destruct (tick_to_sqrt_price_defined lo ltac:(lia)) as [sl El]. destruct (tick_to_sqrt_price_defined hi ltac:(lia)) as [su Eh].
  assert (T : ticks_to_sqrt_price lo hi = Some (sl, su)).
  { unfold ticks_to_sqrt_price. replace (hi <=? lo) with false by (symmetry; apply Z.leb_gt; lia). rewrite Eh, El. reflexivity. }
  rewrite T. cbv beta iota.
  destruct (range_prices p lo hi sl su Hsp PC V T) as [_ [_ [Psl [Hls [C1 [C2 [C3 C4]]]]]]].
  destruct (sq_le_max lo sl ltac:(lia) El) as [_ Ml]. destruct (sq_le_max hi su ltac:(lia) Eh) as [_ Mu].
  pose proof sq_max_bound as SB. pose proof liq_max_bound as LMB.
  replace (0 <? - L) with false by (symmetry; apply Z.ltb_ge; lia).
  assert (LB : Z.abs (- L) < 2 ^ 320) by lia.
  unfold in_range.
  destruct (lo <=? p_tick p) eqn:E1; [apply Z.leb_le in E1|apply Z.leb_gt in E1]; cbn [andb].
  - destruct (p_tick p <? hi) eqn:E2; [apply Z.ltb_lt in E2|apply Z.ltb_ge in E2].
    + specialize (C1 E1). specialize (C4 E2).
      destruct (calc_amount0_delta_total (- L) (p_sqrt p) su ltac:(lia) ltac:(lia) LB) as [x0 X0].
      destruct (calc_amount1_delta_total (- L) (p_sqrt p) sl ltac:(lia) ltac:(lia) LB) as [x1 X1].
      rewrite X0, X1. eexists; eexists; reflexivity.
    + replace (p_tick p <? lo) with false by (symmetry; apply Z.ltb_ge; lia).
      destruct (calc_amount1_delta_total (- L) sl su ltac:(lia) ltac:(lia) LB) as [x1 X1].
      rewrite X1. eexists; eexists; reflexivity.
  - replace (p_tick p <? lo) with true by (symmetry; apply Z.ltb_lt; lia).
    destruct (calc_amount0_delta_total (- L) sl su ltac:(lia) ltac:(lia) LB) as [x0 X0].
    rewrite X0. eexists; eexists; reflexivity.
Qed.

(* ---------- one full withdrawal ---------- *)
Definition liq_bounded (s : state) : Prop := forall q, In q (s_pos s) -> ps_liq q <= liq_max.
Definition owners_have_accounts (s : state) : Prop :=
  forall q, In q (s_pos s) -> 0 <= ps_owner q < Z.of_nat (length (b_users (s_bank s))).

Lemma user_bal_some : forall b u, 0 <= u < Z.of_nat (length (b_users b)) -> exists v, user_bal b u = Some v.
Proof.
  intros b u H. unfold user_bal. replace (u <? 0) with false by (symmetry; apply Z.ltb_ge; lia).
  destruct (nth_error (b_users b) (Z.to_nat u)) as [v|] eqn:E; [exists v; reflexivity|].
  apply nth_error_None in E. lia.
Qed.
Lemma set_nth_length : forall A (l : list A) n x, length (set_nth l n x) = length l.
Proof. induction l as [|y l IH]; intros [|n] x; simpl; try reflexivity. rewrite IH. reflexivity. Qed.

(* every check of WithdrawPosition passes for the full liquidity of an open position, requested by its owner *)
Theorem withdraw_full_succeeds : forall s n q, Inv s -> SolvP s n -> 0 <= n < 2 * 10 ^ 36 ->
  liq_bounded s -> owners_have_accounts s -> In q (s_pos s) ->
  exists s' amts, withdraw_position s (ps_owner q) (ps_id q) (ps_liq q) = Some (s', amts) /\
    length (b_users (s_bank s')) = length (b_users (s_bank s)).
Proof.
  intros s n q I S Hn LB UA QIn.
  pose proof (inv_pos_ok _ I) as F. rewrite Forall_forall in F. destruct (F q QIn) as [[Qid _] [QL V]].
  assert (NE : s_pos s <> []) by (intro E; rewrite E in QIn; destruct QIn).
  destruct (inv_price _ I NE) as [PP PC].
  destruct (calc_actual_amounts_total (s_pool s) _ _ (ps_liq q) (inv_spacing _ I) PC PP V (conj QL (LB q QIn))) as [x0 [x1 CA]].
  destruct (position_covered s n q x0 x1 I S Hn QIn CA) as [B0 B1].
  destruct (actual_amounts_paid (s_pool s) _ _ (ps_liq q) _ _ (inv_spacing _ I) PC PP V QL CA) as [_ [_ [N0 N1]]].
  pose proof (in_pos_get _ _ (inv_pos_sorted _ I) QIn) as G.
  unfold withdraw_position. rewrite G.
  replace (negb (0 <? ps_liq q)) with false by (symmetry; apply negb_false_iff; apply Z.ltb_lt; lia). cbv beta iota.
  rewrite Z.eqb_refl. cbn [negb]. rewrite Z.ltb_irrefl.
  (* UpdatePosition *)
  unfold update_position. rewrite G.
  replace (ps_id q =? 0) with false by (symmetry; apply Z.eqb_neq; lia).
  rewrite !Z.eqb_refl. cbn [negb orb].
  replace (ps_liq q <? Z.abs (- ps_liq q)) with false by (symmetry; apply Z.ltb_ge; lia). rewrite andb_false_r. cbn [orb]. cbv beta iota.
  destruct (init_or_update_tick (s_ticks s) (ps_lower q) (- ps_liq q) false) as [t1 le].
  destruct (init_or_update_tick t1 (ps_upper q) (- ps_liq q) true) as [t2 ue].
  replace (ps_liq q + - ps_liq q <? 0) with false by (symmetry; apply Z.ltb_ge; lia). cbn [andb]. cbv beta iota.
  rewrite CA. cbv beta iota.
  (* the transfer out of the pool account *)
  cbn [s_bank set_pool set_pos set_ticks].
  destruct (user_bal_some (s_bank s) (ps_owner q) (UA q QIn)) as [[u0 u1] UB].
  unfold send_pool_to_user.
  replace ((Z.abs (d_truncate_int x0) <? 0) || (Z.abs (d_truncate_int x1) <? 0)) with false
    by (symmetry; apply orb_false_iff; split; apply Z.ltb_ge; lia).
  rewrite UB. cbv beta iota. destruct (b_pool (s_bank s)) as [p0 p1] eqn:BP. cbn [fst snd] in B0, B1.
  replace ((p0 <? Z.abs (d_truncate_int x0)) || (p1 <? Z.abs (d_truncate_int x1))) with false
    by (symmetry; apply orb_false_iff; split; apply Z.ltb_ge; lia).
  cbv beta iota.
  (* deletion of the position, un-initialisation of the pool after the last one *)
  match goal with |- context [has_any_position ?X] => destruct (has_any_position X) eqn:HA end.
  - eexists; eexists; split; [reflexivity|]. cbn. apply set_nth_length.
  - unfold uninitialize_pool. rewrite HA. eexists; eexists; split; [reflexivity|]. cbn. apply set_nth_length.
Qed.

(* ---------- what a full withdrawal preserves ---------- *)
Lemma in_pos_remove : forall l id x, In x (pos_remove l id) -> In x l.
Proof.
  induction l as [|a l IH]; intros id x H; simpl in *; [exact H|].
  destruct (ps_id a =? id); [right; exact H|]. destruct H as [H|H]; [left; exact H|right; eapply IH; exact H].
Qed.

Lemma withdraw_full_preserves : forall s n q s' amts, Inv s -> SolvP s n -> 0 <= n ->
  liq_bounded s -> owners_have_accounts s -> In q (s_pos s) ->
  withdraw_position s (ps_owner q) (ps_id q) (ps_liq q) = Some (s', amts) ->
  length (b_users (s_bank s')) = length (b_users (s_bank s)) ->
  Inv s' /\ SolvP s' n /\ liq_bounded s' /\ owners_have_accounts s' /\ s_pos s' = pos_remove (s_pos s) (ps_id q).
Proof.
  intros s n q s' [y0 y1] I S Hn LB UA QIn W UL.
  destruct (withdraw_position_spec _ _ _ _ _ _ _ I W) as [I' [_ [_ [_ [q' [Q [_ [_ SP]]]]]]]].
  rewrite (in_pos_get _ _ (inv_pos_sorted _ I) QIn) in Q. inversion Q; subst q'. rewrite Z.eqb_refl in SP.
  split; [exact I'|]. split; [exact (withdraw_solvent _ _ _ _ _ _ _ I S Hn W)|].
  split; [|split; [|exact SP]].
  - intros x Hx. rewrite SP in Hx. apply LB. eapply in_pos_remove; exact Hx.
  - intros x Hx. rewrite SP in Hx. rewrite UL. apply UA. eapply in_pos_remove; exact Hx.
Qed.

(* ---------- everybody leaves, in any order ---------- *)
Fixpoint exit_seq (s : state) (ids : list Z) : option state :=
  match ids with
  | [] => Some s
  | id :: r => match pos_get (s_pos s) id with
               | None => None
               | Some q => match withdraw_position s (ps_owner q) id (ps_liq q) with
                           | Some (s', _) => exit_seq s' r
                           | None => None
                           end
               end
  end.

Lemma map_id_remove : forall l id, In id (map ps_id l) ->
  exists l1 l2, map ps_id l = l1 ++ id :: l2 /\ map ps_id (pos_remove l id) = l1 ++ l2.
Proof.
  induction l as [|a l IH]; intros id H; simpl in *; [destruct H|].
  destruct (ps_id a =? id) eqn:E.
  - apply Z.eqb_eq in E. exists [], (map ps_id l). rewrite E. split; reflexivity.
  - apply Z.eqb_neq in E. destruct H as [H|H]; [contradiction|].
    destruct (IH id H) as [l1 [l2 [A B]]]. exists (ps_id a :: l1), l2. simpl. rewrite A, B. split; reflexivity.
Qed.
Lemma in_map_id_get : forall l id, ids_sorted l -> In id (map ps_id l) -> exists q, pos_get l id = Some q /\ In q l /\ ps_id q = id.
Proof.
  intros l id Sd H. apply in_map_iff in H. destruct H as [q [E QIn]]. exists q. subst id.
  split; [apply in_pos_get; assumption|]. split; [exact QIn|reflexivity].
Qed.

Theorem exit_any_order : forall ids s n, Inv s -> SolvP s n -> 0 <= n < 2 * 10 ^ 36 ->
  liq_bounded s -> owners_have_accounts s -> Permutation ids (map ps_id (s_pos s)) ->
  exists s', exit_seq s ids = Some s' /\ s_pos s' = [] /\ Inv s' /\ SolvP s' n.
Proof.
  induction ids as [|id r IH]; intros s n I S Hn LB UA P.
  - exists s. split; [reflexivity|]. apply Permutation_nil in P. split; [|split; assumption].
    destruct (s_pos s); [reflexivity|discriminate P].
  - assert (IdIn : In id (map ps_id (s_pos s))) by (eapply Permutation_in; [exact P|left; reflexivity]).
    destruct (in_map_id_get _ _ (inv_pos_sorted _ I) IdIn) as [q [G [QIn Eid]]].
    destruct (withdraw_full_succeeds s n q I S Hn LB UA QIn) as [s' [amts [W UL]]].
    destruct (withdraw_full_preserves s n q s' amts I S ltac:(lia) LB UA QIn W UL) as [I' [S' [LB' [UA' SP]]]].
    simpl. rewrite G. rewrite Eid in W. rewrite W.
    apply (IH s' n I' S' Hn LB' UA'). rewrite SP, Eid.
    destruct (map_id_remove _ _ IdIn) as [l1 [l2 [A B]]]. rewrite B. rewrite A in P.
    eapply Permutation_cons_app_inv. exact P.
Qed.
