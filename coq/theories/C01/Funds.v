(* C01: no operation of the pool creates or destroys funds - for each of the two denominations, the sum of the balances
   of the pool account, the spread-reward account, the incentive account and the users is the same before and after
   every operation (money only moves between these accounts). *)
From Coq Require Import ZArith List Bool Lia.
Import ListNotations.
From Osmo Require Import Base.DecModel CL.TickMath CL.CLMath CL.CLPool CL.CLSwap CL.CLStep
  CLR.Accum CLR.Rewards CLR.RSwap CLR.RStep C08.View.
Open Scope Z_scope.

Definition sel2 (d : bool) (x : Z * Z) : Z := if d then snd x else fst x.
Fixpoint users_total (d : bool) (l : list (Z * Z)) : Z := match l with [] => 0 | x :: r => sel2 d x + users_total d r end.
Definition bank_total (d : bool) (b : bank) : Z :=
  sel2 d (b_pool b) + sel2 d (b_spread b) + sel2 d (b_inc b) + users_total d (b_users b).

Lemma users_total_set_nth : forall d l n x y, nth_error l n = Some x ->
  users_total d (set_nth l n y) = users_total d l - sel2 d x + sel2 d y.
Proof.
  induction l as [|a l IH]; intros n x y H; destruct n; simpl in *; try discriminate.
  - inversion H; subst. lia.
  - rewrite (IH _ _ _ H). lia.
Qed.

Lemma set_user_total : forall d b u x y, user_bal b u = Some x ->
  bank_total d (set_user b u y) = bank_total d b - sel2 d x + sel2 d y.
Proof.
  unfold user_bal, set_user, bank_total. intros d b u x y H. destruct (u <? 0); [discriminate H|]. simpl.
  rewrite (users_total_set_nth d _ _ x y H). lia.
Qed.

Lemma send_user_to_pool_total : forall d b u a0 a1 b', send_user_to_pool b u a0 a1 = Some b' -> bank_total d b' = bank_total d b.
Proof.
  unfold send_user_to_pool. intros d b u a0 a1 b' H. destruct ((a0 <? 0) || (a1 <? 0)); [discriminate H|].
  destruct (user_bal b u) as [[u0 u1]|] eqn:EU; [|discriminate H]. simpl in H.
  destruct ((u0 <? a0) || (u1 <? a1)); [discriminate H|]. destruct (b_pool b) as [p0 p1] eqn:EP. inversion H; subst.
  unfold set_bpool. pose proof (set_user_total d b u (u0, u1) (u0 - a0, u1 - a1) EU) as T.
  unfold bank_total in *. simpl in *. rewrite ?EP in *. destruct d; simpl in *; lia.
Qed.
Lemma send_pool_to_user_total : forall d b u a0 a1 b', send_pool_to_user b u a0 a1 = Some b' -> bank_total d b' = bank_total d b.
Proof.
  unfold send_pool_to_user. intros d b u a0 a1 b' H. destruct ((a0 <? 0) || (a1 <? 0)); [discriminate H|].
  destruct (user_bal b u) as [[u0 u1]|] eqn:EU; [|discriminate H]. simpl in H.
  destruct (b_pool b) as [p0 p1] eqn:EP. destruct ((p0 <? a0) || (p1 <? a1)); [discriminate H|]. inversion H; subst.
  unfold set_bpool. pose proof (set_user_total d b u (u0, u1) (u0 + a0, u1 + a1) EU) as T.
  unfold bank_total in *. simpl in *. rewrite ?EP in *. destruct d; simpl in *; lia.
Qed.
Lemma send_spread_to_user_total : forall d b u a0 a1 b', send_spread_to_user b u a0 a1 = Some b' -> bank_total d b' = bank_total d b.
Proof.
  unfold send_spread_to_user. intros d b u a0 a1 b' H. destruct ((a0 <? 0) || (a1 <? 0)); [discriminate H|].
  destruct (user_bal b u) as [[u0 u1]|] eqn:EU; [|discriminate H]. simpl in H.
  destruct (b_spread b) as [p0 p1] eqn:EP. destruct ((p0 <? a0) || (p1 <? a1)); [discriminate H|]. inversion H; subst.
  unfold set_bspread. pose proof (set_user_total d b u (u0, u1) (u0 + a0, u1 + a1) EU) as T.
  unfold bank_total in *. simpl in *. rewrite ?EP in *. destruct d; simpl in *; lia.
Qed.
Lemma send_inc_to_user_total : forall d b u a0 a1 b', send_inc_to_user b u a0 a1 = Some b' -> bank_total d b' = bank_total d b.
Proof.
  unfold send_inc_to_user. intros d b u a0 a1 b' H. destruct ((a0 <? 0) || (a1 <? 0)); [discriminate H|].
  destruct (user_bal b u) as [[u0 u1]|] eqn:EU; [|discriminate H]. simpl in H.
  destruct (b_inc b) as [p0 p1] eqn:EP. destruct ((p0 <? a0) || (p1 <? a1)); [discriminate H|]. inversion H; subst.
  unfold set_binc. pose proof (set_user_total d b u (u0, u1) (u0 + a0, u1 + a1) EU) as T.
  unfold bank_total in *. simpl in *. rewrite ?EP in *. destruct d; simpl in *; lia.
Qed.
Lemma send_user_to_inc_total : forall d b u a0 a1 b', send_user_to_inc b u a0 a1 = Some b' -> bank_total d b' = bank_total d b.
Proof.
  unfold send_user_to_inc. intros d b u a0 a1 b' H. destruct ((a0 <? 0) || (a1 <? 0)); [discriminate H|].
  destruct (user_bal b u) as [[u0 u1]|] eqn:EU; [|discriminate H]. simpl in H.
  destruct ((u0 <? a0) || (u1 <? a1)); [discriminate H|]. destruct (b_inc b) as [p0 p1] eqn:EP. inversion H; subst.
  unfold set_binc. pose proof (set_user_total d b u (u0, u1) (u0 - a0, u1 - a1) EU) as T.
  unfold bank_total in *. simpl in *. rewrite ?EP in *. destruct d; simpl in *; lia.
Qed.

From Osmo Require Import C07.Base C07.LP.

Definition rtotal (d : bool) (rs : rstate) : Z := bank_total d (s_bank (r_base rs)).

Lemma create_position_total : forall d s owner a0 a1 m0 m1 lo hi s' c, create_position s owner a0 a1 m0 m1 lo hi = Some (s', c) ->
  bank_total d (s_bank s') = bank_total d (s_bank s).
Proof.
  unfold create_position. intros d s owner a0 a1 m0 m1 lo hi s' c H.
  destruct (hi <=? lo); [discriminate H|]. destruct ((a0 <? 0) || (a1 <? 0)); [discriminate H|].
  destruct ((a0 =? 0) && (a1 =? 0)); [discriminate H|]. destruct ((m0 <? 0) || (m1 <? 0)); [discriminate H|].
  destruct (negb (validate_tick_range (p_spacing (s_pool s)) lo hi)); [discriminate H|].
  destruct (ticks_to_sqrt_price lo hi) as [[sl su]|]; [|discriminate H]. simpl in H.
  destruct (round_tick_to_canonical lo hi sl su (p_spacing (s_pool s))) as [[lo' hi']|]; [|discriminate H]. simpl in H.
  match type of H with (do p1 <- ?X; _) = _ => destruct X as [p1|]; [|discriminate H] end. simpl in H.
  destruct (get_liquidity_from_amounts (p_sqrt p1) sl su a0 a1) as [liq|]; [|discriminate H]. simpl in H.
  destruct (liq =? 0); [discriminate H|].
  destruct (update_position _ owner lo' hi' liq (s_time s) (s_next_id s)) as [[[s3 [amt0 amt1]] [le ue]]|] eqn:EU; [|discriminate H]. simpl in H.
  destruct ((amt0 <? m0) || (amt1 <? m1)); [discriminate H|].
  destruct (send_user_to_pool (s_bank s3) owner amt0 amt1) as [b|] eqn:EB; [|discriminate H]. inversion H; subst. simpl.
  destruct (update_position_spec _ _ _ _ _ _ _ _ _ _ _ _ EU) as [_ [_ [_ [_ [_ [_ [B _]]]]]]]. simpl in B.
  rewrite (send_user_to_pool_total d _ _ _ _ _ EB), B. reflexivity.
Qed.

Lemma withdraw_position_total : forall d s owner id liq s' amts, withdraw_position s owner id liq = Some (s', amts) ->
  bank_total d (s_bank s') = bank_total d (s_bank s).
Proof.
  unfold withdraw_position. intros d s owner id liq s' amts H.
  destruct (negb (0 <? liq)); [discriminate H|]. destruct (pos_get (s_pos s) id) as [q|]; [|discriminate H]. simpl in H.
  destruct (negb (ps_owner q =? owner)); [discriminate H|]. destruct (ps_liq q <? liq); [discriminate H|].
  destruct (update_position s owner (ps_lower q) (ps_upper q) (- liq) (ps_join q) id) as [[[s1 [amt0 amt1]] [le ue]]|] eqn:EU; [|discriminate H]. simpl in H.
  destruct (send_pool_to_user (s_bank s1) owner (Z.abs amt0) (Z.abs amt1)) as [b|] eqn:EB; [|discriminate H]. simpl in H.
  destruct (update_position_spec _ _ _ _ _ _ _ _ _ _ _ _ EU) as [_ [_ [_ [_ [_ [_ [B _]]]]]]].
  match type of H with (do s3 <- ?X; _) = _ => destruct X as [s3|] eqn:E3; [|discriminate H] end. simpl in H.
  inversion H; subst. simpl.
  assert (B3 : s_bank s3 = b).
  { destruct (liq =? ps_liq q); [|inversion E3; reflexivity]. simpl in E3.
    destruct (has_any_position _) eqn:EH; [inversion E3; reflexivity|]. unfold uninitialize_pool in E3. rewrite EH in E3. inversion E3; reflexivity. }
  rewrite B3, (send_pool_to_user_total d _ _ _ _ _ EB), B. reflexivity.
Qed.

Lemma update_pool_for_swap_total : forall d s sender zfo r s', update_pool_for_swap s sender zfo r = Some s' ->
  bank_total d (s_bank s') = bank_total d (s_bank s).
Proof.
  unfold update_pool_for_swap. intros d s sender zfo r s' H.
  destruct (sr_in r - d_truncate_int (d_ceil (sr_fee r)) <=? 0); [discriminate H|].
  destruct (user_bal (s_bank s) sender); [|discriminate H]. simpl in H.
  destruct (pick zfo (sr_in r - d_truncate_int (d_ceil (sr_fee r)))) as [i0 i1].
  destruct (send_user_to_pool (s_bank s) sender i0 i1) as [b1|] eqn:E1; [|discriminate H]. simpl in H.
  match type of H with (do b2 <- ?X; _) = _ => destruct X as [b2|] eqn:E2; [|discriminate H] end. simpl in H.
  destruct (sr_out r <=? 0); [discriminate H|].
  destruct (pick (negb zfo) (sr_out r)) as [o0 o1].
  destruct (send_pool_to_user b2 sender o0 o1) as [b3|] eqn:E3; [|discriminate H]. simpl in H.
  match type of H with (if ?b then None else _) = _ => destruct b; [discriminate H|] end.
  inversion H; subst. simpl. rewrite (send_pool_to_user_total d _ _ _ _ _ E3).
  assert (T2 : bank_total d b2 = bank_total d b1).
  { destruct (d_truncate_int (d_ceil (sr_fee r)) =? 0); [inversion E2; reflexivity|].
    destruct (user_bal b1 sender) as [[v0 v1]|] eqn:EV; [|discriminate E2]. simpl in E2.
    destruct (pick zfo (d_truncate_int (d_ceil (sr_fee r)))) as [f0 f1].
    destruct ((v0 <? f0) || (v1 <? f1)); [discriminate E2|]. inversion E2; subst.
    unfold set_bspread. pose proof (set_user_total d b1 sender (v0, v1) (v0 - f0, v1 - f1) EV) as T.
    unfold bank_total in *. simpl in *. destruct (b_spread b1) as [q0 q1]. destruct d; simpl in *; lia. }
  rewrite T2. apply (send_user_to_pool_total d _ _ _ _ _ E1).
Qed.

(* ---------- the handlers of the reward model ---------- *)
Lemma collect_incentives_total : forall d b w cur pl now q b' w' c f byup,
  collect_incentives b w cur pl now q = Some (b', w', c, f, byup) -> bank_total d b' = bank_total d b.
Proof.
  unfold collect_incentives. intros d b w cur pl now q b' w' c f byup H.
  destruct (prepare_claim_all_incentives w cur pl now (ps_lower q) (ps_upper q) (ps_id q) (ps_join q)) as [[[[w1 col] forf] by1]|]; [|discriminate H].
  simpl in H. destruct ((fst col =? 0) && (snd col =? 0)).
  - inversion H; subst. reflexivity.
  - destruct (send_inc_to_user b (ps_owner q) (fst col) (snd col)) as [b1|] eqn:E; [|discriminate H]. inversion H; subst.
    eapply send_inc_to_user_total. exact E.
Qed.
Lemma collect_spread_rewards_total : forall d b w sc cur q b' w' c,
  collect_spread_rewards b w sc cur q = Some (b', w', c) -> bank_total d b' = bank_total d b.
Proof.
  unfold collect_spread_rewards. intros d b w sc cur q b' w' c H.
  destruct (prepare_claimable_spread w sc cur (ps_lower q) (ps_upper q) (ps_id q)) as [[w1 c1]|]; [|discriminate H]. simpl in H.
  destruct ((fst c1 =? 0) && (snd c1 =? 0)).
  - inversion H; subst. reflexivity.
  - destruct (send_spread_to_user b (ps_owner q) (fst c1) (snd c1)) as [b1|] eqn:E; [|discriminate H]. inversion H; subst.
    eapply send_spread_to_user_total. exact E.
Qed.

Lemma r_create_total : forall d rs owner a0 a1 m0 m1 lo hi rs' c, r_create rs owner a0 a1 m0 m1 lo hi = Some (rs', c) ->
  rtotal d rs' = rtotal d rs.
Proof.
  unfold r_create, rtotal. intros d rs owner a0 a1 m0 m1 lo hi rs' c H.
  destruct (create_position (r_base rs) owner a0 a1 m0 m1 lo hi) as [[s' c']|] eqn:E; [|discriminate H]. simpl in H.
  match type of H with (do w <- ?X; _) = _ => destruct X; [|discriminate H] end. inversion H; subst. simpl.
  eapply create_position_total. exact E.
Qed.

Lemma r_withdraw_total : forall d rs owner id liq rs' amts, r_withdraw rs owner id liq = Some (rs', amts) -> rtotal d rs' = rtotal d rs.
Proof.
  unfold r_withdraw, rtotal. intros d rs owner id liq rs' amts H.
  destruct (withdraw_position (r_base rs) owner id liq) as [[s amts']|] eqn:EB; [|discriminate H]. simpl in H.
  destruct (pos_get (s_pos (r_base rs)) id) as [q|]; [|discriminate H]. simpl in H.
  destruct (collect_incentives (s_bank s) (r_rw rs) _ _ _ q) as [[[[[b1 w1] col] forf] byup]|] eqn:E1; [|discriminate H]. simpl in H.
  destruct (update_position_rewards w1 _ _ _ _ _ _ _ _) as [w2|]; [|discriminate H]. simpl in H.
  match type of H with (do bw <- ?X; _) = _ => destruct X as [[b2 w3]|] eqn:E3; [|discriminate H] end. simpl in H.
  match type of H with (do bw2 <- ?X; _) = _ => destruct X as [[b3 w4]|] eqn:E4; [|discriminate H] end. simpl in H.
  inversion H; subst. simpl.
  assert (T2 : bank_total d b2 = bank_total d b1).
  { destruct (p_liq (s_pool s) <? P18).
    - destruct (send_inc_to_user b1 owner (fst forf) (snd forf)) as [bb|] eqn:ES; [|discriminate E3]. inversion E3; subst.
      eapply send_inc_to_user_total. exact ES.
    - destruct (redeposit_forfeited w2 byup (p_liq (s_pool s))); [|discriminate E3]. inversion E3; subst. reflexivity. }
  assert (T3 : bank_total d b3 = bank_total d b2).
  { destruct (liq =? ps_liq q); [|inversion E4; reflexivity].
    destruct (collect_spread_rewards b2 w3 _ _ q) as [[[b5 w5] c5]|] eqn:E5; [|discriminate E4]. inversion E4; subst.
    eapply collect_spread_rewards_total. exact E5. }
  rewrite T3, T2, (collect_incentives_total d _ _ _ _ _ _ _ _ _ _ _ E1). eapply withdraw_position_total. exact EB.
Qed.

Lemma r_collect_spread_loop_total : forall d ids rs owner tot rs' c, r_collect_spread_loop rs owner ids tot = Some (rs', c) ->
  rtotal d rs' = rtotal d rs.
Proof.
  induction ids as [|id rest IH]; intros rs owner tot rs' c H; simpl in H; [inversion H; reflexivity|].
  destruct (pos_get (s_pos (r_base rs)) id) as [q|]; [|discriminate H].
  destruct (negb (ps_owner q =? owner)); [discriminate H|].
  destruct (collect_spread_rewards _ _ _ _ q) as [[[b w] x]|] eqn:E; [|discriminate H].
  rewrite (IH _ _ _ _ _ H). unfold rtotal. simpl. eapply collect_spread_rewards_total. exact E.
Qed.
Lemma r_collect_inc_loop_total : forall d ids rs owner col forf rs' c, r_collect_inc_loop rs owner ids col forf = Some (rs', c) ->
  rtotal d rs' = rtotal d rs.
Proof.
  induction ids as [|id rest IH]; intros rs owner col forf rs' c H; simpl in H; [inversion H; reflexivity|].
  destruct (pos_get (s_pos (r_base rs)) id) as [q|]; [|discriminate H].
  destruct (negb (ps_owner q =? owner)); [discriminate H|].
  destruct (collect_incentives _ _ _ _ _ q) as [[[[[b w] x] f] byup]|] eqn:E; [|discriminate H].
  rewrite (IH _ _ _ _ _ _ H). unfold rtotal. simpl. eapply collect_incentives_total. exact E.
Qed.

Lemma swap_exact_in_total : forall d s sender zfo amt mo s' out, swap_exact_in s sender zfo amt mo = Some (s', out) ->
  bank_total d (s_bank s') = bank_total d (s_bank s).
Proof.
  unfold swap_exact_in. intros d s sender zfo amt mo s' out H.
  destruct (negb (0 <? amt) || negb (0 <? mo)); [discriminate H|].
  destruct (compute_out_amt_given_in s zfo true amt) as [r|]; [|discriminate H]. simpl in H.
  destruct (negb (0 <? sr_out r)); [discriminate H|].
  destruct (update_pool_for_swap s sender zfo r) as [s0|] eqn:EU; [|discriminate H]. simpl in H.
  destruct (sr_out r <? mo); [discriminate H|]. inversion H; subst. eapply update_pool_for_swap_total. exact EU.
Qed.
Lemma swap_exact_out_total : forall d s sender zfo amt mi s' tin, swap_exact_out s sender zfo amt mi = Some (s', tin) ->
  bank_total d (s_bank s') = bank_total d (s_bank s).
Proof.
  unfold swap_exact_out. intros d s sender zfo amt mi s' tin H.
  destruct (negb (0 <? amt) || negb (0 <? mi)); [discriminate H|].
  destruct (compute_in_amt_given_out s zfo true amt) as [r|]; [|discriminate H]. simpl in H.
  destruct (negb (0 <? sr_in r)); [discriminate H|].
  destruct (update_pool_for_swap s sender zfo r) as [s0|] eqn:EU; [|discriminate H]. simpl in H.
  destruct (mi <? sr_in r); [discriminate H|]. inversion H; subst. eapply update_pool_for_swap_total. exact EU.
Qed.

Lemma transfer_loop_bank : forall ids s sender recipient s', transfer_loop s ids sender recipient = Some s' -> s_bank s' = s_bank s.
Proof.
  induction ids as [|id r IH]; intros s sender recipient s' H; simpl in H; [inversion H; reflexivity|].
  destruct (pos_get (s_pos s) id) as [q|]; [|discriminate H]. simpl in H.
  destruct (negb (ps_owner q =? sender)); [discriminate H|].
  destruct (negb (has_any_position _)); [discriminate H|]. rewrite (IH _ _ _ _ H). reflexivity.
Qed.

(* FUNDS ARE CONSERVED by every operation, executed or rejected *)
Theorem funds_conserved : forall d rs o, rtotal d (fst (rstep rs o)) = rtotal d rs.
Proof.
  intros d rs o. unfold rstep. destruct (rhandler rs o) as [[rs' r]|] eqn:H; simpl; [|reflexivity].
  destruct o as [b|owner ids|owner ids|sender denom amount rate dt uu]; simpl in H.
  - destruct b as [owner a0 a1 m0 m1 lo hi|owner id liq|owner id a0 a1 m0 m1|sender ids recipient|sender zfo amt mo|sender zfo amt mi|dt].
    + destruct (r_create rs owner a0 a1 m0 m1 lo hi) as [[rs1 c]|] eqn:E; [|discriminate H]. inversion H; subst. eapply r_create_total. exact E.
    + destruct (r_withdraw rs owner id liq) as [[rs1 [x0 x1]]|] eqn:E; [|discriminate H]. inversion H; subst. eapply r_withdraw_total. exact E.
    + destruct (r_add rs owner id a0 a1 m0 m1) as [[rs1 [[nid y0] y1]]|] eqn:E; [|discriminate H]. inversion H; subst.
      unfold r_add in E. destruct (id <=? 0); [discriminate E|].
      destruct ((a0 <? 0) || (a1 <? 0) || (m0 <? 0) || (m1 <? 0)); [discriminate E|].
      destruct (pos_get (s_pos (r_base rs)) id) as [q|]; [|discriminate E]. simpl in E.
      destruct (negb (ps_owner q =? owner)); [discriminate E|]. destruct ((a0 =? 0) && (a1 =? 0)); [discriminate E|].
      destruct (r_withdraw rs owner id (ps_liq q)) as [[rs2 [w0 w1]]|] eqn:EW; [|discriminate E]. simpl in E.
      destruct (negb (pool_has_position (s_pool (r_base rs2)))); [discriminate E|].
      match type of E with (do c <- ?X; _) = _ => destruct X as [[rs3 cr]|] eqn:EC; [|discriminate E] end. inversion E; subst.
      rewrite (r_create_total d _ _ _ _ _ _ _ _ _ _ EC). eapply r_withdraw_total. exact EW.
    + destruct (transfer_positions (r_base rs) sender ids recipient) as [s'|] eqn:E; [|discriminate H]. inversion H; subst.
      unfold rtotal. simpl. unfold transfer_positions in E. destruct (sender =? recipient); [discriminate E|].
      destruct (negb (z_nodup ids)); [discriminate E|]. destruct ids; [discriminate E|]. rewrite (transfer_loop_bank _ _ _ _ _ E). reflexivity.
    + destruct (r_swap_in rs sender zfo amt mo) as [[rs1 out]|] eqn:E; [|discriminate H]. inversion H; subst.
      unfold r_swap_in in E. destruct (swap_exact_in (r_base rs) sender zfo amt mo) as [[s' out']|] eqn:E1; [|discriminate E]. simpl in E.
      destruct (swap_rewards _ _ _ _ _ _); [|discriminate E]. inversion E; subst. unfold rtotal. simpl. eapply swap_exact_in_total. exact E1.
    + destruct (r_swap_out rs sender zfo amt mi) as [[rs1 tin]|] eqn:E; [|discriminate H]. inversion H; subst.
      unfold r_swap_out in E. destruct (swap_exact_out (r_base rs) sender zfo amt mi) as [[s' tin']|] eqn:E1; [|discriminate E]. simpl in E.
      destruct (swap_rewards _ _ _ _ _ _); [|discriminate E]. inversion E; subst. unfold rtotal. simpl. eapply swap_exact_out_total. exact E1.
    + inversion H; subst. reflexivity.
  - destruct (r_collect_spread rs owner ids) as [[rs1 c]|] eqn:E; [|discriminate H]. inversion H; subst.
    unfold r_collect_spread in E. eapply r_collect_spread_loop_total. exact E.
  - destruct (r_collect_inc rs owner ids) as [[rs1 [c f]]|] eqn:E; [|discriminate H]. inversion H; subst.
    unfold r_collect_inc in E. eapply r_collect_inc_loop_total. exact E.
  - destruct (r_incentive rs sender denom amount rate dt uu) as [rs1|] eqn:E; [|discriminate H]. inversion H; subst.
    unfold r_incentive in E. obind E. inversion E; subst. unfold rtotal. simpl.
    match goal with X : send_user_to_inc _ _ _ _ = Some _ |- _ => apply (send_user_to_inc_total d _ _ _ _ _ X) end.
Qed.

Theorem funds_conserved_run : forall d ops rs, rtotal d (rrun rs ops) = rtotal d rs.
Proof. induction ops as [|o r IH]; intros rs; simpl; [reflexivity|]. rewrite IH. apply funds_conserved. Qed.
