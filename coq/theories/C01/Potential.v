(* C01, principal part through swaps, step 2: the potential-function argument.  The exact value of the positions (E0, E1
   of C01/Solvent.v) is a function of the price; along a segment of a swap (a price move x -> y inside one bucket, at the
   tick t) only the positions in range at t change value, each by L * (exact amount per unit of liquidity); summed over the
   positions this is the exact segment amount at the bucket's total liquidity (CL/Ideal.v seg_amount0 / seg_amount1). *)
From Coq Require Import ZArith QArith List Bool Lia Lqa.
Import ListNotations.
From Osmo Require Import Base.DecModel CL.TickMath CL.CLMath CL.CLPool CL.CLSwap CL.CLStep CL.Ideal
  C07.Base C07.TickLemmas C07.LP C07.SwapDir C07.Swap C03.Rounding C03.Steps C03.Path C03.Whole C01.Exact C01.Solvent C01.SwapPath.
Open Scope Q_scope.

(* exact amounts between ordered prices *)
Lemma seg0_ordered : forall L x y, (0 < x)%Z -> (x <= y)%Z -> seg_amount0 L x y == qz L * q18 * (qz y - qz x) / (qz x * qz y).
Proof.
  intros L x y Hx Hxy. unfold seg_amount0. rewrite Z.abs_neq by lia. replace (- (x - y))%Z with (y - x)%Z by ring.
  rewrite qz_minus, q36_sq. pose proof (qz_nz x Hx). pose proof (qz_nz y ltac:(lia)). field. repeat split; try apply q18_nz; assumption.
Qed.
Lemma seg1_ordered : forall L x y, (x <= y)%Z -> seg_amount1 L x y == qz L * (qz y - qz x) / (q18 * q36).
Proof.
  intros L x y Hxy. unfold seg_amount1. rewrite Z.abs_neq by lia. replace (- (x - y))%Z with (y - x)%Z by ring.
  rewrite qz_minus. field. split; [apply q36_nz|apply q18_nz].
Qed.

(* one position, prices x <= y on the same side of both of its boundaries *)
Lemma pos_potential : forall L sl su x y (inr : bool), (0 < sl)%Z -> (sl <= su)%Z -> (0 < x)%Z -> (x <= y)%Z ->
  (inr = true -> (sl <= x)%Z /\ (y <= su)%Z) ->
  (inr = false -> ((y <= sl)%Z) \/ ((su <= x)%Z)) ->
  seg_amount0 L (clampP x sl su) su - seg_amount0 L (clampP y sl su) su == (if inr then seg_amount0 L x y else 0) /\
  seg_amount1 L sl (clampP y sl su) - seg_amount1 L sl (clampP x sl su) == (if inr then seg_amount1 L x y else 0).
Proof.
  intros L sl su x y inr Hsl Hls Hx Hxy HI HO. unfold clampP. destruct inr.
  - destruct (HI eq_refl) as [A B].
    replace (Z.max sl (Z.min x su)) with x by lia. replace (Z.max sl (Z.min y su)) with y by lia.
    rewrite (seg0_ordered L x su Hx ltac:(lia)), (seg0_ordered L y su ltac:(lia) B), (seg0_ordered L x y Hx Hxy).
    rewrite (seg1_ordered L sl y ltac:(lia)), (seg1_ordered L sl x A), (seg1_ordered L x y Hxy).
    pose proof (qz_nz x Hx). pose proof (qz_nz y ltac:(lia)). pose proof (qz_nz su ltac:(lia)).
    split; field; repeat split; try apply q18_nz; try apply q36_nz; assumption.
  - destruct (HO eq_refl) as [A|A].
    + replace (Z.max sl (Z.min x su)) with sl by lia. replace (Z.max sl (Z.min y su)) with sl by lia. split; ring.
    + replace (Z.max sl (Z.min x su)) with su by lia. replace (Z.max sl (Z.min y su)) with su by lia. split; ring.
Qed.

(* the sum over the positions: linear in the liquidity *)
Lemma seg0_linear : forall L x y, (0 < x)%Z -> (x <= y)%Z -> seg_amount0 L x y == qz L * seg_amount0 1 x y.
Proof. intros L x y H H0. rewrite (seg0_ordered L x y H H0), (seg0_ordered 1 x y H H0). change (qz 1) with 1. pose proof (qz_nz x H). pose proof (qz_nz y ltac:(lia)). field. split; assumption. Qed.
Lemma seg1_linear : forall L x y, (x <= y)%Z -> seg_amount1 L x y == qz L * seg_amount1 1 x y.
Proof. intros L x y H. rewrite (seg1_ordered L x y H), (seg1_ordered 1 x y H). change (qz 1) with 1. field. split; [apply q36_nz|apply q18_nz]. Qed.

Lemma qz_sum_liq : forall f l, qz (sum_liq f l) == qsum_pos (fun p => if f (ps_lower p) (ps_upper p) then qz (ps_liq p) else 0) l.
Proof.
  induction l as [|p l IH]; simpl; [reflexivity|]. rewrite qz_plus', IH. unfold wt. destruct (f (ps_lower p) (ps_upper p)); reflexivity.
Qed.
Lemma qsum_scale : forall (c : Q) f l, qsum_pos (fun p => f p * c) l == qsum_pos f l * c.
Proof. induction l as [|p l IH]; simpl; [ring|]. rewrite IH. ring. Qed.
Lemma qsum_minus : forall f g l, qsum_pos f l - qsum_pos g l == qsum_pos (fun p => f p - g p) l.
Proof. induction l as [|p l IH]; simpl; [ring|]. rewrite <- IH. ring. Qed.

(* THE POTENTIAL LEMMA: a price move x <= y (in either direction of time) inside the bucket of tick t *)
Theorem bucket_potential : forall s t x y, Inv s -> (0 < x)%Z -> (x <= y)%Z ->
  price_consistent_at (p_spacing (s_pool s)) t x \/ b_side_ok s t x ->
  price_consistent_at (p_spacing (s_pool s)) t y \/ b_side_ok s t y ->
  qsum_pos (pval0 x) (s_pos s) - qsum_pos (pval0 y) (s_pos s) == seg_amount0 (sum_liq (f_range t) (s_pos s)) x y /\
  qsum_pos (pval1 y) (s_pos s) - qsum_pos (pval1 x) (s_pos s) == seg_amount1 (sum_liq (f_range t) (s_pos s)) x y.
Proof.
  intros s t x y I Hx Hxy CX CY.
  (* each consistency notion speaks about the boundaries of the positions *)
  assert (SIDE : forall z, price_consistent_at (p_spacing (s_pool s)) t z \/ b_side_ok s t z ->
            forall p, In p (s_pos s) -> ((ps_lower p <= t)%Z -> (sq (ps_lower p) <= z)%Z) /\ ((t < ps_lower p)%Z -> (z <= sq (ps_lower p))%Z) /\
                                        ((ps_upper p <= t)%Z -> (sq (ps_upper p) <= z)%Z) /\ ((t < ps_upper p)%Z -> (z <= sq (ps_upper p))%Z)).
  { intros z CZ p Hp. pose proof (inv_pos_ok _ I) as F. rewrite Forall_forall in F. destruct (F p Hp) as [_ [_ V]].
    pose proof V as V'. apply validate_tick_range_spec in V'. destruct V' as [_ [Rl [Rh [Bl [Bh _]]]]].
    destruct (tick_to_sqrt_price_defined (ps_lower p) ltac:(lia)) as [sl El]. destruct (tick_to_sqrt_price_defined (ps_upper p) ltac:(lia)) as [su Eh].
    unfold sq. rewrite El, Eh. destruct CZ as [PC|BS].
    - destruct (PC _ _ Rl ltac:(lia) El) as [A1 A2]. destruct (PC _ _ Rh ltac:(lia) Eh) as [B1 B2]. auto.
    - destruct (boundary_stored s p I Hp) as [[v1 S1] [v2 S2]].
      destruct (BS _ _ _ S1 El) as [A1 A2]. destruct (BS _ _ _ S2 Eh) as [B1 B2]. auto. }
  rewrite !qsum_minus.
  assert (PER : forall p, In p (s_pos s) ->
     pval0 x p - pval0 y p == (if f_range t (ps_lower p) (ps_upper p) then qz (ps_liq p) else 0) * seg_amount0 1 x y /\
     pval1 y p - pval1 x p == (if f_range t (ps_lower p) (ps_upper p) then qz (ps_liq p) else 0) * seg_amount1 1 x y).
  { intros p Hp. pose proof (inv_pos_ok _ I) as F. rewrite Forall_forall in F. destruct (F p Hp) as [_ [_ V]].
    destruct (valid_sq_pos _ _ _ V) as [PL PH].
    assert (LS : (sq (ps_lower p) <= sq (ps_upper p))%Z).
    { pose proof V as V'. apply validate_tick_range_spec in V'. destruct V' as [_ [_ [_ [Bl [Bh Hlh]]]]].
      destruct (tick_to_sqrt_price_defined (ps_lower p) ltac:(lia)) as [sl El]. destruct (tick_to_sqrt_price_defined (ps_upper p) ltac:(lia)) as [su Eh].
      unfold sq. rewrite El, Eh. apply (tick_to_sqrt_price_mono (ps_lower p) (ps_upper p) sl su ltac:(lia) ltac:(lia) ltac:(lia) El Eh). }
    destruct (SIDE x CX p Hp) as [X1 [X2 [X3 X4]]]. destruct (SIDE y CY p Hp) as [Y1 [Y2 [Y3 Y4]]].
    unfold pval0, pval1, val0, val1, f_range.
    destruct (ps_lower p <=? t)%Z eqn:E1; [apply Z.leb_le in E1|apply Z.leb_gt in E1]; simpl.
    - destruct (t <? ps_upper p)%Z eqn:E2; [apply Z.ltb_lt in E2|apply Z.ltb_ge in E2]; simpl.
      + destruct (pos_potential (ps_liq p) _ _ x y true PL LS Hx Hxy ltac:(intros _; split; auto) ltac:(discriminate)) as [A B].
        rewrite A, B, (seg0_linear (ps_liq p) x y Hx Hxy), (seg1_linear (ps_liq p) x y Hxy). split; reflexivity.
      + destruct (pos_potential (ps_liq p) _ _ x y false PL LS Hx Hxy ltac:(discriminate) ltac:(intros _; right; auto)) as [A B].
        rewrite A, B. split; ring.
    - destruct (pos_potential (ps_liq p) _ _ x y false PL LS Hx Hxy ltac:(discriminate) ltac:(intros _; left; auto)) as [A B].
      rewrite A, B. split; ring. }
  split.
  - rewrite (qsum_ext _ (fun p => (if f_range t (ps_lower p) (ps_upper p) then qz (ps_liq p) else 0) * seg_amount0 1 x y)) by (intros p Hp; apply (PER p Hp)).
    rewrite qsum_scale, <- qz_sum_liq, <- (seg0_linear _ x y Hx Hxy). reflexivity.
  - rewrite (qsum_ext _ (fun p => (if f_range t (ps_lower p) (ps_upper p) then qz (ps_liq p) else 0) * seg_amount1 1 x y)) by (intros p Hp; apply (PER p Hp)).
    rewrite qsum_scale, <- qz_sum_liq, <- (seg1_linear _ x y Hxy). reflexivity.
Qed.
