(* C01, principal part over whole histories: the exact-rational solvency invariant of C01/Solvent.v holds in every state
   reachable from a fresh pool by the operations of the reward-aware model (CLR/RStep.v): positions created, withdrawn,
   added to and transferred, swaps of both kinds in both directions, time, spread-reward and incentive collection,
   incentive creation.  The slack of token1 grows by at most one half-unit of the 36th decimal per created position
   and per step of a one-for-zero swap (finding C03: CalcAmount1Delta's round-up is half-even + ceil). *)
From Coq Require Import ZArith QArith List Bool Lia Lqa.
Import ListNotations.
From Osmo Require Import Base.DecModel CL.TickMath CL.CLMath CL.CLPool CL.CLSwap CL.CLStep CL.Ideal
  CLR.Accum CLR.Rewards CLR.RSwap CLR.RStep
  C07.Base C07.TickLemmas C07.LP C07.Swap C07.Proofs C03.Whole
  C08.Ops C08.Dom C01.Exact C01.Solvent C01.SwapPath C01.Potential C01.SwapSolvent.
Open Scope Z_scope.

(* ---------- the invariant reads only the positions, the current sqrt price and the pool account ---------- *)
Lemma SolvP_ext : forall s s' n, s_pos s' = s_pos s -> p_sqrt (s_pool s') = p_sqrt (s_pool s) ->
  b_pool (s_bank s') = b_pool (s_bank s) -> SolvP s n -> SolvP s' n.
Proof. unfold SolvP, E0, E1. intros s s' n A B C H. rewrite A, B, C. exact H. Qed.

(* ---------- the reward accounts never touch the pool account ---------- *)
Lemma send_spread_to_user_bpool : forall b u a0 a1 b', send_spread_to_user b u a0 a1 = Some b' -> b_pool b' = b_pool b.
Proof.
  unfold send_spread_to_user. intros b u a0 a1 b' H. destruct ((a0 <? 0) || (a1 <? 0)); [discriminate H|].
  destruct (user_bal b u) as [[u0 u1]|]; [|discriminate H]. simpl in H. destruct (b_spread b) as [p0 p1].
  destruct ((p0 <? a0) || (p1 <? a1)); [discriminate H|]. inversion H; subst. reflexivity.
Qed.
Lemma send_inc_to_user_bpool : forall b u a0 a1 b', send_inc_to_user b u a0 a1 = Some b' -> b_pool b' = b_pool b.
Proof.
  unfold send_inc_to_user. intros b u a0 a1 b' H. destruct ((a0 <? 0) || (a1 <? 0)); [discriminate H|].
  destruct (user_bal b u) as [[u0 u1]|]; [|discriminate H]. simpl in H. destruct (b_inc b) as [p0 p1].
  destruct ((p0 <? a0) || (p1 <? a1)); [discriminate H|]. inversion H; subst. reflexivity.
Qed.
Lemma send_user_to_inc_bpool : forall b u a0 a1 b', send_user_to_inc b u a0 a1 = Some b' -> b_pool b' = b_pool b.
Proof.
  unfold send_user_to_inc. intros b u a0 a1 b' H. destruct ((a0 <? 0) || (a1 <? 0)); [discriminate H|].
  destruct (user_bal b u) as [[u0 u1]|]; [|discriminate H]. simpl in H.
  destruct ((u0 <? a0) || (u1 <? a1)); [discriminate H|]. destruct (b_inc b) as [p0 p1]. inversion H; subst. reflexivity.
Qed.
Lemma collect_incentives_bpool : forall b w cur pl now q b' w' col forf byup,
  collect_incentives b w cur pl now q = Some (b', w', col, forf, byup) -> b_pool b' = b_pool b.
Proof.
  unfold collect_incentives. intros b w cur pl now q b' w' col forf byup H.
  destruct (prepare_claim_all_incentives _ _ _ _ _ _ _ _) as [[[[w1 c1] f1] by1]|]; [|discriminate H]. simpl in H.
  destruct ((fst c1 =? 0) && (snd c1 =? 0)).
  - inversion H; subst. reflexivity.
  - destruct (send_inc_to_user b (ps_owner q) (fst c1) (snd c1)) as [b1|] eqn:E; [|discriminate H]. inversion H; subst.
    eapply send_inc_to_user_bpool; exact E.
Qed.
Lemma collect_spread_rewards_bpool : forall b w sc cur q b' w' c,
  collect_spread_rewards b w sc cur q = Some (b', w', c) -> b_pool b' = b_pool b.
Proof.
  unfold collect_spread_rewards. intros b w sc cur q b' w' c H.
  destruct (prepare_claimable_spread _ _ _ _ _ _) as [[w1 c1]|]; [|discriminate H]. simpl in H.
  destruct ((fst c1 =? 0) && (snd c1 =? 0)).
  - inversion H; subst. reflexivity.
  - destruct (send_spread_to_user b (ps_owner q) (fst c1) (snd c1)) as [b1|] eqn:E; [|discriminate H]. inversion H; subst.
    eapply send_spread_to_user_bpool; exact E.
Qed.

Lemma r_withdraw_bpool : forall rs owner id liq rs' amts, r_withdraw rs owner id liq = Some (rs', amts) ->
  exists s', withdraw_position (r_base rs) owner id liq = Some (s', amts) /\ same_but_bank s' (r_base rs') /\
    b_pool (s_bank (r_base rs')) = b_pool (s_bank s').
Proof.
  unfold r_withdraw. intros rs owner id liq rs' amts H.
  destruct (withdraw_position (r_base rs) owner id liq) as [[s' a']|]; [|discriminate H]. simpl in H.
  destruct (pos_get _ id) as [q|]; [|discriminate H]. simpl in H.
  destruct (collect_incentives _ _ _ _ _ _) as [[[[[b1 w1] c1] f1] by1]|] eqn:E1; [|discriminate H]. simpl in H.
  destruct (update_position_rewards _ _ _ _ _ _ _ _ _) as [w2|]; [|discriminate H]. simpl in H.
  apply collect_incentives_bpool in E1.
  match type of H with (do bw <- ?X; _) = _ => destruct X as [[b2 w3]|] eqn:E2; [|discriminate H] end. simpl in H.
  assert (B2 : b_pool b2 = b_pool b1).
  { destruct (p_liq (s_pool s') <? P18).
    - destruct (send_inc_to_user b1 owner (fst f1) (snd f1)) as [bb|] eqn:E; [|discriminate E2]. inversion E2; subst.
      eapply send_inc_to_user_bpool; exact E.
    - destruct (redeposit_forfeited w2 by1 (p_liq (s_pool s'))); [|discriminate E2]. inversion E2; subst. reflexivity. }
  match type of H with (do bw2 <- ?X; _) = _ => destruct X as [[b3 w4]|] eqn:E3; [|discriminate H] end. simpl in H.
  assert (B3 : b_pool b3 = b_pool b2).
  { destruct (liq =? ps_liq q).
    - destruct (collect_spread_rewards b2 w3 _ _ q) as [[[bb ww] cc]|] eqn:E; [|discriminate E3]. inversion E3; subst.
      eapply collect_spread_rewards_bpool; exact E.
    - inversion E3; subst. reflexivity. }
  inversion H; subst. exists s'. split; [reflexivity|]. split; [apply same_but_bank_set|]. simpl. congruence.
Qed.

Lemma r_collect_spread_loop_bpool : forall ids rs owner tot rs' c, r_collect_spread_loop rs owner ids tot = Some (rs', c) ->
  b_pool (s_bank (r_base rs')) = b_pool (s_bank (r_base rs)).
Proof.
  induction ids as [|id' rest IH]; intros rs owner tot rs' c H; simpl in H; [inversion H; reflexivity|].
  destruct (pos_get (s_pos (r_base rs)) id') as [q|]; [|discriminate H].
  destruct (negb (ps_owner q =? owner)); [discriminate H|].
  destruct (collect_spread_rewards _ _ _ _ q) as [[[b w] x]|] eqn:E; [|discriminate H].
  rewrite (IH _ _ _ _ _ H). simpl. eapply collect_spread_rewards_bpool; exact E.
Qed.
Lemma r_collect_inc_loop_bpool : forall ids rs owner col forf rs' c, r_collect_inc_loop rs owner ids col forf = Some (rs', c) ->
  b_pool (s_bank (r_base rs')) = b_pool (s_bank (r_base rs)).
Proof.
  induction ids as [|id' rest IH]; intros rs owner col forf rs' c H; simpl in H; [inversion H; reflexivity|].
  destruct (pos_get (s_pos (r_base rs)) id') as [q|]; [|discriminate H].
  destruct (negb (ps_owner q =? owner)); [discriminate H|].
  destruct (collect_incentives _ _ _ _ _ q) as [[[[[b w] x] f] byup]|] eqn:E; [|discriminate H].
  rewrite (IH _ _ _ _ _ _ H). simpl. eapply collect_incentives_bpool; exact E.
Qed.

(* ---------- transfers change owners only ---------- *)
Open Scope Q_scope.
Lemma transfer_loop_qsum : forall (f : position -> Q),
  (forall q o, f (mkPos (ps_id q) o (ps_lower q) (ps_upper q) (ps_liq q) (ps_join q)) == f q) ->
  forall ids s sender recipient s', Inv s -> transfer_loop s ids sender recipient = Some s' ->
  qsum_pos f (s_pos s') == qsum_pos f (s_pos s) /\ s_bank s' = s_bank s /\ s_pool s' = s_pool s.
Proof.
  intros f Hf. induction ids as [|id rest IH]; intros s sender recipient s' I H; simpl in H.
  - inversion H; subst. split; [reflexivity|split; reflexivity].
  - destruct (pos_get (s_pos s) id) as [q|] eqn:Q; [|discriminate H]. cbv beta iota in H.
    destruct (negb (ps_owner q =? sender)%Z) eqn:EO; [discriminate H|].
    destruct (negb (has_any_position (set_pos s (pos_remove (s_pos s) id)))) eqn:EH; [discriminate H|].
    set (s2 := set_pos (set_pos s (pos_remove (s_pos s) id))
                 (pos_set (s_pos (set_pos s (pos_remove (s_pos s) id))) (mkPos id recipient (ps_lower q) (ps_upper q) (ps_liq q) (ps_join q)))) in *.
    assert (I2 : Inv s2).
    { assert (T : transfer_loop s [id] sender recipient = Some s2) by (simpl; rewrite Q; cbv beta iota; rewrite EO, EH; reflexivity).
      exact (proj1 (transfer_loop_spec _ _ _ _ _ I T)). }
    destruct (IH s2 sender recipient s' I2 H) as [A [B C]]. rewrite A, B, C. split; [|split; reflexivity].
    unfold s2. simpl.
    assert (IDq : ps_id q = id) by (eapply pos_get_id; exact Q).
    rewrite qsum_set_new.
    + rewrite (qsum_remove f _ _ _ Q). rewrite <- IDq. rewrite Hf. ring.
    + simpl. rewrite pos_get_remove by apply (inv_pos_sorted s I). rewrite Z.eqb_refl. reflexivity.
Qed.

(* ---------- every operation preserves the invariant ---------- *)
(* the number of half-units of the 36th decimal an operation can add to the slack of token1 *)
Definition op_cost (s : state) (o : rop) : Z :=
  match o with
  | RBase (OCreate _ _ _ _ _ _ _) => 1
  | RBase (OAdd _ _ _ _ _ _) => 1
  | RBase (OSwapIn _ zfo _ _) => swap_cost s zfo
  | RBase (OSwapOut _ zfo _ _) => swap_cost s zfo
  | _ => 0
  end.
Lemma swap_cost_nonneg : forall s zfo, (0 <= swap_cost s zfo)%Z. Proof. intros s [|]; unfold swap_cost; lia. Qed.
Lemma op_cost_nonneg : forall s o, (0 <= op_cost s o)%Z.
Proof. intros s [[| | | | | |]| | |]; simpl; try lia; apply swap_cost_nonneg. Qed.

Lemma pval0_owner : forall P q o, pval0 P (mkPos (ps_id q) o (ps_lower q) (ps_upper q) (ps_liq q) (ps_join q)) == pval0 P q.
Proof. intros. unfold pval0. simpl. reflexivity. Qed.
Lemma pval1_owner : forall P q o, pval1 P (mkPos (ps_id q) o (ps_lower q) (ps_upper q) (ps_liq q) (ps_join q)) == pval1 P q.
Proof. intros. unfold pval1. simpl. reflexivity. Qed.

Lemma r_withdraw_solvent : forall rs owner id liq rs' amts n, RInv rs -> (0 <= n)%Z -> SolvP (r_base rs) n ->
  r_withdraw rs owner id liq = Some (rs', amts) -> SolvP (r_base rs') n.
Proof.
  intros rs owner id liq rs' amts n [I _] Hn S H.
  destruct (r_withdraw_bpool _ _ _ _ _ _ H) as [s' [W [[A [_ [C _]]] B]]].
  apply (SolvP_ext s'); [exact C|rewrite A; reflexivity|exact B|]. eapply withdraw_solvent; eassumption.
Qed.

Theorem solv_handler : forall rs o rs' r n, RInv rs -> (0 <= n)%Z -> SolvP (r_base rs) n ->
  rhandler rs o = Some (rs', r) -> SolvP (r_base rs') (n + op_cost (r_base rs) o).
Proof.
  intros rs o rs' r n RI Hn S H. pose proof RI as [I _].
  destruct o as [b|owner ids|owner ids|sender denom amount rate dt uu]; simpl in H.
  - destruct b as [owner a0 a1 m0 m1 lo hi|owner id liq|owner id a0 a1 m0 m1|sender ids recipient|sender zfo amt mo|sender zfo amt mi|dt]; simpl op_cost.
    + destruct (r_create rs owner a0 a1 m0 m1 lo hi) as [[rs1 c]|] eqn:E; [|discriminate H]. inversion H; subst.
      apply r_create_base in E. eapply create_solvent; eassumption.
    + destruct (r_withdraw rs owner id liq) as [[rs1 [x0 x1]]|] eqn:E; [|discriminate H]. inversion H; subst.
      rewrite Z.add_0_r. eapply r_withdraw_solvent; eassumption.
    + destruct (r_add rs owner id a0 a1 m0 m1) as [[rs1 [[nid y0] y1]]|] eqn:E; [|discriminate H]. inversion H; subst.
      assert (QX : exists q, pos_get (s_pos (r_base rs)) id = Some q).
      { unfold r_add in E. destruct (id <=? 0)%Z; [discriminate E|].
        destruct ((a0 <? 0) || (a1 <? 0) || (m0 <? 0) || (m1 <? 0))%Z; [discriminate E|].
        destruct (pos_get (s_pos (r_base rs)) id) as [q|]; [eauto|discriminate E]. }
      destruct QX as [q Q]. destruct (r_add_split _ _ _ _ _ _ _ _ _ _ E Q) as [rs1 [w0 [w1 [m0' [m1' [cr [EW EC]]]]]]].
      pose proof (rinv_withdraw _ _ _ _ _ _ EW RI) as [I1 _].
      pose proof (r_withdraw_solvent _ _ _ _ _ _ _ RI Hn S EW) as S1.
      apply r_create_base in EC. eapply create_solvent; eassumption.
    + destruct (transfer_positions (r_base rs) sender ids recipient) as [s'|] eqn:E; [|discriminate H]. inversion H; subst. simpl.
      rewrite Z.add_0_r. unfold transfer_positions in E. destruct (sender =? recipient)%Z; [discriminate E|].
      destruct (negb (z_nodup ids)); [discriminate E|].
      assert (T : transfer_loop (r_base rs) ids sender recipient = Some s') by (destruct ids; [discriminate E|exact E]).
      destruct S as [S0 S1]. unfold SolvP, E0, E1 in *.
      destruct (transfer_loop_qsum (pval0 (p_sqrt (s_pool (r_base rs)))) (pval0_owner _) _ _ _ _ _ I T) as [A0 [B C]].
      destruct (transfer_loop_qsum (pval1 (p_sqrt (s_pool (r_base rs)))) (pval1_owner _) _ _ _ _ _ I T) as [A1 _].
      rewrite B, C, A0, A1. split; assumption.
    + destruct (r_swap_in rs sender zfo amt mo) as [[rs1 out]|] eqn:E; [|discriminate H]. inversion H; subst. clear H.
      unfold r_swap_in in E. destruct (swap_exact_in (r_base rs) sender zfo amt mo) as [[s' out']|] eqn:E1; [|discriminate E]. simpl in E.
      destruct (swap_rewards _ _ _ _ _ _) as [w|]; [|discriminate E]. inversion E; subst. simpl.
      eapply swap_in_solvent; eassumption.
    + destruct (r_swap_out rs sender zfo amt mi) as [[rs1 tin]|] eqn:E; [|discriminate H]. inversion H; subst. clear H.
      unfold r_swap_out in E. destruct (swap_exact_out (r_base rs) sender zfo amt mi) as [[s' tin']|] eqn:E1; [|discriminate E]. simpl in E.
      destruct (swap_rewards _ _ _ _ _ _) as [w|]; [|discriminate E]. inversion E; subst. simpl.
      eapply swap_out_solvent; eassumption.
    + inversion H; subst. simpl. rewrite Z.add_0_r. apply (SolvP_ext (r_base rs)); try reflexivity. exact S.
  - destruct (r_collect_spread rs owner ids) as [[rs1 c]|] eqn:E; [|discriminate H]. inversion H; subst. simpl. rewrite Z.add_0_r.
    unfold r_collect_spread in E. destruct (r_collect_spread_loop_sbb _ _ _ _ _ _ E) as [[A [_ [C _]]] _].
    apply (SolvP_ext (r_base rs)); [exact C|rewrite A; reflexivity|eapply r_collect_spread_loop_bpool; exact E|exact S].
  - destruct (r_collect_inc rs owner ids) as [[rs1 [c f]]|] eqn:E; [|discriminate H]. inversion H; subst. simpl. rewrite Z.add_0_r.
    unfold r_collect_inc in E. destruct (r_collect_inc_loop_sbb _ _ _ _ _ _ _ E) as [[A [_ [C _]]] _].
    apply (SolvP_ext (r_base rs)); [exact C|rewrite A; reflexivity|eapply r_collect_inc_loop_bpool; exact E|exact S].
  - destruct (r_incentive rs sender denom amount rate dt uu) as [rs1|] eqn:E; [|discriminate H]. inversion H; subst. simpl. rewrite Z.add_0_r.
    unfold r_incentive in E.
    repeat match type of E with (if ?b then None else _) = _ => destruct b; [discriminate E|] end.
    destruct (user_bal _ sender) as [ub|]; [|discriminate E]. cbv beta iota in E.
    repeat match type of E with (if ?b then None else _) = _ => destruct b; [discriminate E|] end.
    destruct (update_uptime _ _ _) as [w1|]; [|discriminate E]. cbv beta iota in E.
    destruct (send_user_to_inc _ _ _ _) as [b|] eqn:EB; [|discriminate E]. inversion E; subst. simpl.
    apply (SolvP_ext (r_base rs)); try reflexivity; [|exact S]. simpl. eapply send_user_to_inc_bpool; exact EB.
Qed.

Theorem solv_step : forall rs o n, RInv rs -> (0 <= n)%Z -> SolvP (r_base rs) n ->
  SolvP (r_base (fst (rstep rs o))) (n + op_cost (r_base rs) o).
Proof.
  intros rs o n RI Hn S. unfold rstep. destruct (rhandler rs o) as [[rs' r]|] eqn:E; simpl.
  - eapply solv_handler; eassumption.
  - apply (SolvP_mono _ n); [pose proof (op_cost_nonneg (r_base rs) o); lia|exact S].
Qed.

(* the slack a history can accumulate: one per created position, one per step of a one-for-zero swap (bounded by the fuel) *)
Fixpoint hist_cost (rs : rstate) (ops : list rop) : Z :=
  match ops with
  | [] => 0
  | o :: r => op_cost (r_base rs) o + hist_cost (fst (rstep rs o)) r
  end.
Lemma hist_cost_nonneg : forall ops rs, (0 <= hist_cost rs ops)%Z.
Proof. induction ops as [|o r IH]; intros rs; simpl; [lia|]. pose proof (op_cost_nonneg (r_base rs) o). pose proof (IH (fst (rstep rs o))). lia. Qed.

Theorem solv_run : forall ops rs n, RInv rs -> (0 <= n)%Z -> SolvP (r_base rs) n ->
  SolvP (r_base (rrun rs ops)) (n + hist_cost rs ops).
Proof.
  induction ops as [|o r IH]; intros rs n RI Hn S; simpl.
  - rewrite Z.add_0_r. exact S.
  - rewrite Z.add_assoc. apply IH; [apply rinv_step; exact RI|pose proof (op_cost_nonneg (r_base rs) o); lia|apply solv_step; assumption].
Qed.

Lemma solv_init : forall sp spf ssc isc users t, SolvP (r_base (rinit sp spf ssc isc users t)) 0.
Proof. intros. unfold SolvP, E0, E1. simpl. change (qz 0) with 0. split; lra. Qed.

(* in every reachable state the pool account holds the exact value of all positions *)
Theorem solvent_reachable : forall sp spf ssc isc users t ops, (0 < sp)%Z -> (0 <= spf <= 500000000000000000)%Z ->
  let rs0 := rinit sp spf ssc isc users t in
  SolvP (r_base (rrun rs0 ops)) (hist_cost rs0 ops).
Proof.
  intros sp spf ssc isc users t ops Hsp Hspf rs0.
  apply (solv_run ops rs0 0); [apply rinv_init; assumption|lia|apply solv_init].
Qed.

(* ... so a full withdrawal of any open position is covered by the pool account: the amounts WithdrawPosition computes for the
   whole liquidity of the position are at most the pool's balances *)
Theorem withdraw_all_covered : forall sp spf ssc isc users t ops q x0 x1, (0 < sp)%Z -> (0 <= spf <= 500000000000000000)%Z ->
  let rs0 := rinit sp spf ssc isc users t in
  let s := r_base (rrun rs0 ops) in
  (hist_cost rs0 ops < 2 * 10 ^ 36)%Z -> In q (s_pos s) ->
  calc_actual_amounts (s_pool s) (ps_lower q) (ps_upper q) (- ps_liq q) = Some (x0, x1) ->
  (- d_truncate_int x0 <= fst (b_pool (s_bank s)))%Z /\ (- d_truncate_int x1 <= snd (b_pool (s_bank s)))%Z.
Proof.
  intros sp spf ssc isc users t ops q x0 x1 Hsp Hspf rs0 s Hc QIn CA.
  assert (RI : RInv (rrun rs0 ops)) by (apply rinv_run; apply rinv_init; assumption).
  apply (position_covered s (hist_cost rs0 ops) q x0 x1); [exact (proj1 RI)| |split; [apply hist_cost_nonneg|exact Hc]|exact QIn|exact CA].
  apply solvent_reachable; assumption.
Qed.

(* ... and the pool account never goes negative; in particular what is left after everybody has left is >= 0 *)
Lemma qsum_pos_nonneg : forall f l, (forall p, In p l -> 0 <= f p) -> 0 <= qsum_pos f l.
Proof.
  induction l as [|b l IH]; intros NN; simpl; [lra|]. pose proof (NN b (or_introl eq_refl)).
  assert (0 <= qsum_pos f l) by (apply IH; intros p Hp; apply NN; right; exact Hp). lra.
Qed.
Lemma eps_small : forall n, (0 <= n < 2 * 10 ^ 36)%Z -> qz n * eps36 < 1.
Proof.
  intros n Hn. assert (P2 : 0 < 2 * q36) by (vm_compute; reflexivity).
  setoid_replace (qz n * eps36) with (qz n / (2 * q36)) by (unfold eps36; field; intro E; rewrite E in P2; apply (Qlt_irrefl 0); exact P2).
  apply Qlt_shift_div_r; [exact P2|].
  setoid_replace (1 * (2 * q36)) with (qz (2 * 10 ^ 36)) by (vm_compute; reflexivity).
  unfold qz. rewrite <- Zlt_Qlt. lia.
Qed.
Theorem solvent_nonneg : forall s n, Inv s -> SolvP s n -> (0 <= n < 2 * 10 ^ 36)%Z ->
  (0 <= fst (b_pool (s_bank s)))%Z /\ (0 <= snd (b_pool (s_bank s)))%Z.
Proof.
  intros s n I [S0 S1] Hn. pose proof (inv_pos_ok _ I) as F. rewrite Forall_forall in F.
  assert (NN0 : forall p, In p (s_pos s) -> 0 <= pval0 (p_sqrt (s_pool s)) p).
  { intros p Hp. destruct (F p Hp) as [_ [PL Vp]]. destruct (valid_sq_pos _ _ _ Vp) as [A B].
    unfold pval0, val0. apply seg_amount0_nonneg; [lia|apply clampP_pos; exact A|exact B]. }
  assert (NN1 : forall p, In p (s_pos s) -> 0 <= pval1 (p_sqrt (s_pool s)) p).
  { intros p Hp. destruct (F p Hp) as [_ [PL Vp]]. unfold pval1, val1. apply seg_amount1_nonneg. lia. }
  pose proof (qsum_pos_nonneg _ _ NN0) as M0. pose proof (qsum_pos_nonneg _ _ NN1) as M1. unfold E0, E1 in *. split.
  - rewrite Zle_Qle. fold (qz (fst (b_pool (s_bank s)))). change (inject_Z 0) with 0. lra.
  - pose proof (eps_small n Hn) as X.
    assert (B : qz (-1) < qz (snd (b_pool (s_bank s)))) by (change (qz (-1)) with (-1 # 1); lra).
    unfold qz in B. rewrite <- Zlt_Qlt in B. lia.
Qed.
Theorem dust_nonneg : forall sp spf ssc isc users t ops, (0 < sp)%Z -> (0 <= spf <= 500000000000000000)%Z ->
  let rs0 := rinit sp spf ssc isc users t in
  let s := r_base (rrun rs0 ops) in
  (hist_cost rs0 ops < 2 * 10 ^ 36)%Z ->
  (0 <= fst (b_pool (s_bank s)))%Z /\ (0 <= snd (b_pool (s_bank s)))%Z.
Proof.
  intros sp spf ssc isc users t ops Hsp Hspf rs0 s Hc.
  assert (RI : RInv (rrun rs0 ops)) by (apply rinv_run; apply rinv_init; assumption).
  apply (solvent_nonneg s (hist_cost rs0 ops)); [exact (proj1 RI)| |split; [apply hist_cost_nonneg|exact Hc]].
  apply solvent_reachable; assumption.
Qed.
