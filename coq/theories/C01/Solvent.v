(* C01, principal part: the solvency invariant in exact rationals and its preservation by the liquidity-provider
   operations (the price only moves in swaps).
     E0(s) = sum over positions of L * (1/clamp(sqrtP) - 1/sqrtP_upper),  E1(s) = sum of L * (clamp(sqrtP) - sqrtP_lower)
     SolvP s n :  E0(s) <= pool balance of token0  /\  E1(s) - n * (1/2 * 10^-36) <= pool balance of token1
   n counts the token1 "round-up" events (CalcAmount1Delta(roundUp) is half-even + ceil: C03's micro-finding). *)
From Coq Require Import ZArith QArith List Bool Lia Lqa.
Import ListNotations.
From Osmo Require Import Base.DecModel CL.TickMath CL.CLMath CL.CLPool CL.CLSwap CL.CLStep CL.Ideal
  C07.Base C07.TickLemmas C07.LP C07.SwapDir C07.Swap C03.Rounding C03.Steps C03.Path C03.Whole C01.Exact.
Open Scope Q_scope.

Fixpoint qsum_pos (f : position -> Q) (l : list position) : Q := match l with [] => 0 | p :: r => f p + qsum_pos f r end.

Definition pval0 (P : Z) (p : position) : Q := val0 P (ps_liq p) (ps_lower p) (ps_upper p).
Definition pval1 (P : Z) (p : position) : Q := val1 P (ps_liq p) (ps_lower p) (ps_upper p).
Definition E0 (s : state) : Q := qsum_pos (pval0 (p_sqrt (s_pool s))) (s_pos s).
Definition E1 (s : state) : Q := qsum_pos (pval1 (p_sqrt (s_pool s))) (s_pos s).
Definition SolvP (s : state) (n : Z) : Prop :=
  E0 s <= qz (fst (b_pool (s_bank s))) /\ E1 s - qz n * eps36 <= qz (snd (b_pool (s_bank s))).

(* ---------- sums over the position list ---------- *)
Lemma qsum_set_new : forall f l p, pos_get l (ps_id p) = None -> qsum_pos f (pos_set l p) == qsum_pos f l + f p.
Proof.
  induction l as [|q l IH]; intros p H; simpl in *; [ring|].
  destruct (ps_id q =? ps_id p)%Z eqn:E; [discriminate H|].
  destruct (ps_id p <? ps_id q)%Z; simpl; [ring|].
  destruct (ps_id p =? ps_id q)%Z eqn:E2; [apply Z.eqb_eq in E2; apply Z.eqb_neq in E; lia|]. simpl. rewrite (IH p H). ring.
Qed.
Lemma qsum_set_upd : forall f l p q, ids_sorted l -> pos_get l (ps_id p) = Some q -> qsum_pos f (pos_set l p) == qsum_pos f l - f q + f p.
Proof.
  induction l as [|a l IH]; intros p q S H; simpl in *; [discriminate H|]. inversion S; subst.
  destruct (ps_id a =? ps_id p)%Z eqn:E.
  - inversion H; subst a. apply Z.eqb_eq in E. assert ((ps_id p <? ps_id q)%Z = false) as -> by (apply Z.ltb_ge; lia).
    assert ((ps_id p =? ps_id q)%Z = true) as -> by (apply Z.eqb_eq; lia). simpl. ring.
  - apply Z.eqb_neq in E. assert (L : (ps_id a < ps_id p)%Z).
    { pose proof (pos_get_in _ _ _ H) as HIn. pose proof (pos_get_id _ _ _ H) as HId.
      unfold ids_lb in H2. rewrite Forall_forall in H2. specialize (H2 q HIn). lia. }
    assert ((ps_id p <? ps_id a)%Z = false) as -> by (apply Z.ltb_ge; lia).
    assert ((ps_id p =? ps_id a)%Z = false) as -> by (apply Z.eqb_neq; lia). simpl. rewrite (IH p q H3 H). ring.
Qed.
Lemma qsum_remove : forall f l id q, pos_get l id = Some q -> qsum_pos f (pos_remove l id) == qsum_pos f l - f q.
Proof.
  induction l as [|a l IH]; intros id q H; simpl in *; [discriminate H|].
  destruct (ps_id a =? id)%Z; [inversion H; subst; ring|]. simpl. rewrite (IH id q H). ring.
Qed.
Lemma qsum_ext : forall f g l, (forall p, In p l -> f p == g p) -> qsum_pos f l == qsum_pos g l.
Proof. induction l as [|a l IH]; intros H; simpl; [reflexivity|]. rewrite (H a (or_introl eq_refl)), IH; [reflexivity|]. intros p Hp. apply H. right. exact Hp. Qed.

(* the exact value is linear in the liquidity *)
Lemma qz_plus' : forall a b, qz (a + b) == qz a + qz b. Proof. intros. unfold qz. rewrite inject_Z_plus. reflexivity. Qed.
Lemma val0_add : forall P L1 L2 lo hi, (0 < sq hi)%Z -> (0 < clampP P (sq lo) (sq hi))%Z ->
  val0 P (L1 + L2) lo hi == val0 P L1 lo hi + val0 P L2 lo hi.
Proof.
  intros P L1 L2 lo hi H1 H2. unfold val0, seg_amount0. rewrite qz_plus'. pose proof (qz_nz _ H1). pose proof (qz_nz _ H2).
  field. repeat split; try apply q36_nz; try apply q18_nz; assumption.
Qed.
Lemma val1_add : forall P L1 L2 lo hi, val1 P (L1 + L2) lo hi == val1 P L1 lo hi + val1 P L2 lo hi.
Proof. intros. unfold val1, seg_amount1. rewrite qz_plus'. field. split; [apply q36_nz|apply q18_nz]. Qed.

(* ---------- what CreatePosition / WithdrawPosition move ---------- *)
Open Scope Z_scope.
Lemma send_user_to_pool_bpool : forall b u a0 a1 b', send_user_to_pool b u a0 a1 = Some b' ->
  b_pool b' = (fst (b_pool b) + a0, snd (b_pool b) + a1).
Proof.
  unfold send_user_to_pool. intros b u a0 a1 b' H. destruct ((a0 <? 0) || (a1 <? 0)); [discriminate H|].
  destruct (user_bal b u) as [[u0 u1]|]; [|discriminate H]. simpl in H. destruct ((u0 <? a0) || (u1 <? a1)); [discriminate H|].
  destruct (b_pool b) as [p0 p1]. inversion H; subst. reflexivity.
Qed.
Lemma send_pool_to_user_bpool : forall b u a0 a1 b', send_pool_to_user b u a0 a1 = Some b' ->
  b_pool b' = (fst (b_pool b) - a0, snd (b_pool b) - a1) /\ 0 <= a0 <= fst (b_pool b) /\ 0 <= a1 <= snd (b_pool b).
Proof.
  unfold send_pool_to_user. intros b u a0 a1 b' H. destruct ((a0 <? 0) || (a1 <? 0)) eqn:EN; [discriminate H|].
  destruct (user_bal b u) as [[u0 u1]|]; [|discriminate H]. simpl in H. destruct (b_pool b) as [p0 p1].
  destruct ((p0 <? a0) || (p1 <? a1)) eqn:EB; [discriminate H|]. inversion H; subst. simpl.
  apply orb_false_iff in EN. destruct EN as [N0 N1]. apply orb_false_iff in EB. destruct EB as [B0 B1].
  apply Z.ltb_ge in N0, N1, B0, B1. split; [reflexivity|lia].
Qed.

Lemma update_position_amounts : forall s owner lo hi d join id s' amt0 amt1 fl,
  update_position s owner lo hi d join id = Some (s', (amt0, amt1), fl) ->
  exists x0 x1, calc_actual_amounts (s_pool s) lo hi d = Some (x0, x1) /\ amt0 = d_truncate_int x0 /\ amt1 = d_truncate_int x1.
Proof.
  unfold update_position. intros s owner lo hi d join id s' amt0 amt1 fl H.
  destruct (id =? 0); [discriminate H|].
  match type of H with (do _ <- ?X; _) = _ => destruct X; [|discriminate H] end. cbv beta iota in H.
  unfold init_or_update_tick in H. cbv beta iota zeta in H.
  match type of H with (if ?c then None else _) = _ => destruct c; [discriminate H|] end.
  match type of H with (if ?c then None else _) = _ => destruct c; [discriminate H|] end.
  destruct (calc_actual_amounts (s_pool s) lo hi d) as [[x0 x1]|]; [|discriminate H]. inversion H; subst. eauto.
Qed.

Lemma create_position_amounts : forall s owner a0 a1 m0 m1 lo hi s' c, create_position s owner a0 a1 m0 m1 lo hi = Some (s', c) ->
  exists p1 x0 x1,
    p_sqrt p1 = p_sqrt (s_pool s') /\ p_tick p1 = p_tick (s_pool s') /\ p_spacing p1 = p_spacing (s_pool s') /\
    p_spacing (s_pool s') = p_spacing (s_pool s) /\
    calc_actual_amounts p1 (cr_lower c) (cr_upper c) (cr_liq c) = Some (x0, x1) /\
    cr_amount0 c = d_truncate_int x0 /\ cr_amount1 c = d_truncate_int x1 /\
    validate_tick_range (p_spacing (s_pool s)) (cr_lower c) (cr_upper c) = true /\
    b_pool (s_bank s') = (fst (b_pool (s_bank s)) + cr_amount0 c, snd (b_pool (s_bank s)) + cr_amount1 c) /\
    (pool_has_position (s_pool s) = true -> p_sqrt (s_pool s') = p_sqrt (s_pool s)).
Proof.
  unfold create_position. intros s owner a0 a1 m0 m1 lo hi s' c H.
  destruct (hi <=? lo); [discriminate H|]. destruct ((a0 <? 0) || (a1 <? 0)); [discriminate H|].
  destruct ((a0 =? 0) && (a1 =? 0)); [discriminate H|]. destruct ((m0 <? 0) || (m1 <? 0)); [discriminate H|].
  destruct (negb (validate_tick_range (p_spacing (s_pool s)) lo hi)) eqn:V; [discriminate H|]. apply negb_false_iff in V.
  destruct (ticks_to_sqrt_price lo hi) as [[sl su]|]; [|discriminate H]. cbv beta iota in H.
  destruct (round_tick_to_canonical lo hi sl su (p_spacing (s_pool s))) as [[lo' hi']|] eqn:ER; [|discriminate H]. cbv beta iota in H.
  pose proof (round_tick_to_canonical_valid _ _ _ _ _ _ _ V ER) as V'.
  match type of H with (do p1 <- ?X; _) = _ => destruct X as [p1|] eqn:EP; [|discriminate H] end. cbv beta iota in H.
  destruct (get_liquidity_from_amounts (p_sqrt p1) sl su a0 a1) as [liq|]; [|discriminate H]. cbv beta iota in H.
  destruct (liq =? 0); [discriminate H|].
  destruct (update_position _ owner lo' hi' liq (s_time s) (s_next_id s)) as [[[s3 [amt0 amt1]] [le ue]]|] eqn:EU; [|discriminate H]. cbv beta iota in H.
  destruct ((amt0 <? m0) || (amt1 <? m1)); [discriminate H|].
  destruct (send_user_to_pool (s_bank s3) owner amt0 amt1) as [b|] eqn:EB; [|discriminate H]. inversion H; subst. clear H. simpl.
  destruct (update_position_amounts _ _ _ _ _ _ _ _ _ _ _ EU) as [x0 [x1 [CA [A0 A1]]]]. simpl in CA.
  destruct (update_position_spec _ _ _ _ _ _ _ _ _ _ _ _ EU) as [_ [_ [_ [_ [PL [_ [BK _]]]]]]]. simpl in PL, BK.
  assert (SP1 : p_spacing p1 = p_spacing (s_pool s)).
  { destruct (pool_has_position (s_pool s)); [inversion EP; reflexivity|].
    unfold initialize_initial_position in EP. destruct (negb (0 <? a0) || negb (0 <? a1)); [discriminate EP|].
    destruct (negb (d_fits _)); [discriminate EP|]. destruct (monotonic_sqrt18 _); [|discriminate EP]. simpl in EP.
    destruct (sqrt_price_to_tick_round_down_spacing _ _); [|discriminate EP]. inversion EP; reflexivity. }
  exists p1, x0, x1. rewrite PL.
  assert (F : forall (b : bool) (q : pool), p_sqrt (if b then pool_with q (p_tick q) (p_sqrt q) (p_liq q + liq) else q) = p_sqrt q
              /\ p_tick (if b then pool_with q (p_tick q) (p_sqrt q) (p_liq q + liq) else q) = p_tick q
              /\ p_spacing (if b then pool_with q (p_tick q) (p_sqrt q) (p_liq q + liq) else q) = p_spacing q)
    by (intros [|] q; simpl; auto).
  destruct (F (in_range p1 lo' hi') p1) as [F1 [F2 F3]]. rewrite F1, F2, F3.
  repeat split; try reflexivity; try assumption.
  - rewrite (send_user_to_pool_bpool _ _ _ _ _ EB), BK. reflexivity.
  - intro HP. rewrite HP in EP. inversion EP. reflexivity.
Qed.

Lemma valid_sq_pos : forall sp lo hi, validate_tick_range sp lo hi = true -> 0 < sq lo /\ 0 < sq hi.
Proof.
  intros sp lo hi V. apply validate_tick_range_spec in V. destruct V as [_ [_ [_ [Bl [Bh _]]]]].
  destruct (tick_to_sqrt_price_defined lo ltac:(lia)) as [sl El]. destruct (tick_to_sqrt_price_defined hi ltac:(lia)) as [su Eh].
  unfold sq. rewrite El, Eh. split; eapply tick_to_sqrt_price_pos; eassumption.
Qed.
Lemma clampP_pos : forall P sl su, 0 < sl -> 0 < clampP P sl su. Proof. intros. unfold clampP. lia. Qed.

Lemma price_consistent_eq : forall p q, p_sqrt p = p_sqrt q -> p_tick p = p_tick q -> p_spacing p = p_spacing q ->
  price_consistent q -> price_consistent p.
Proof. unfold price_consistent. intros p q A B C H. rewrite A, B, C. exact H. Qed.

Open Scope Q_scope.

(* CREATE: the invariant is preserved, with one more token1 round-up event *)
Theorem create_solvent : forall s owner a0 a1 m0 m1 lo hi s' c n, Inv s -> SolvP s n ->
  create_position s owner a0 a1 m0 m1 lo hi = Some (s', c) -> SolvP s' (n + 1).
Proof.
  intros s owner a0 a1 m0 m1 lo hi s' c n I [S0 S1] H.
  destruct (create_position_spec _ _ _ _ _ _ _ _ _ _ I H) as [I' [_ [CI [SP [_ [LP _]]]]]].
  destruct (create_position_amounts _ _ _ _ _ _ _ _ _ _ H) as [p1 [x0 [x1 [Q1 [Q2 [Q3 [Q4 [CA [A0 [A1 [V [BK PS]]]]]]]]]]]].
  assert (NE : s_pos s' <> []) by (rewrite SP; apply pos_set_not_nil).
  destruct (inv_price _ I' NE) as [PP PC].
  assert (PC1 : price_consistent p1) by (eapply price_consistent_eq; eassumption).
  assert (SP1 : (0 < p_spacing p1)%Z) by (rewrite Q3; apply (inv_spacing _ I')).
  assert (V1 : validate_tick_range (p_spacing p1) (cr_lower c) (cr_upper c) = true) by (rewrite Q3, Q4; exact V).
  destruct (actual_amounts_charged p1 _ _ _ _ _ SP1 PC1 ltac:(rewrite Q1; exact PP) V1 LP CA) as [C0 [C1 [N0 N1]]].
  rewrite Q1, <- A0 in C0. rewrite Q1, <- A1 in C1.
  (* the sums *)
  set (newp := mkPos (s_next_id s) owner (cr_lower c) (cr_upper c) (cr_liq c) (s_time s)) in *.
  assert (FR : pos_get (s_pos s) (ps_id newp) = None) by (simpl; eapply pos_get_fresh; apply (inv_pos_ok _ I)).
  assert (OLD : forall f g, (pool_has_position (s_pool s) = true -> forall p, f p == g p) ->
                            (pool_has_position (s_pool s) = false -> s_pos s = []) -> qsum_pos f (s_pos s) == qsum_pos g (s_pos s)).
  { intros f g Hs He. destruct (pool_has_position (s_pool s)) eqn:HP.
    - apply qsum_ext. intros p _. apply Hs. reflexivity.
    - rewrite (He eq_refl). reflexivity. }
  assert (EMP : pool_has_position (s_pool s) = false -> s_pos s = []).
  { intro HP. destruct (s_pos s) eqn:EPs; [reflexivity|]. exfalso.
    assert (X : pool_has_position (s_pool s) = true) by (apply (pool_has_position_iff _ I); rewrite EPs; discriminate). congruence. }
  unfold SolvP, E0, E1. rewrite SP, BK. simpl fst. simpl snd.
  rewrite (qsum_set_new _ _ newp FR), (qsum_set_new _ _ newp FR).
  rewrite (OLD (pval0 (p_sqrt (s_pool s'))) (pval0 (p_sqrt (s_pool s)))) by (try exact EMP; intros HP p; rewrite (PS HP); reflexivity).
  rewrite (OLD (pval1 (p_sqrt (s_pool s'))) (pval1 (p_sqrt (s_pool s)))) by (try exact EMP; intros HP p; rewrite (PS HP); reflexivity).
  rewrite !qz_plus'. unfold E0, E1 in S0, S1. unfold pval0 at 2. unfold pval1 at 2. simpl ps_liq. simpl ps_lower. simpl ps_upper.
  split.
  - apply Qplus_le_compat; assumption.
  - setoid_replace (qsum_pos (pval1 (p_sqrt (s_pool s))) (s_pos s) + val1 (p_sqrt (s_pool s')) (cr_liq c) (cr_lower c) (cr_upper c) - (qz n + qz 1) * eps36)
      with ((qsum_pos (pval1 (p_sqrt (s_pool s))) (s_pos s) - qz n * eps36) + (val1 (p_sqrt (s_pool s')) (cr_liq c) (cr_lower c) (cr_upper c) - eps36))
      by (change (qz 1) with 1; ring).
    apply Qplus_le_compat; assumption.
Qed.

Open Scope Z_scope.
Lemma withdraw_position_amounts : forall s owner id liq s' amts q, withdraw_position s owner id liq = Some (s', amts) ->
  pos_get (s_pos s) id = Some q ->
  exists x0 x1, calc_actual_amounts (s_pool s) (ps_lower q) (ps_upper q) (- liq) = Some (x0, x1) /\
    amts = (- d_truncate_int x0, - d_truncate_int x1) /\
    b_pool (s_bank s') = (fst (b_pool (s_bank s)) - Z.abs (d_truncate_int x0), snd (b_pool (s_bank s)) - Z.abs (d_truncate_int x1)) /\
    Z.abs (d_truncate_int x0) <= fst (b_pool (s_bank s)) /\ Z.abs (d_truncate_int x1) <= snd (b_pool (s_bank s)) /\
    (s_pos s' <> [] -> p_sqrt (s_pool s') = p_sqrt (s_pool s)).
Proof.
  unfold withdraw_position. intros s owner id liq s' amts q H Q. rewrite Q in H.
  destruct (negb (0 <? liq)); [discriminate H|]. cbv beta iota in H.
  destruct (negb (ps_owner q =? owner)); [discriminate H|]. destruct (ps_liq q <? liq); [discriminate H|].
  destruct (update_position s owner (ps_lower q) (ps_upper q) (- liq) (ps_join q) id) as [[[s1 [amt0 amt1]] [le ue]]|] eqn:EU; [|discriminate H]. cbv beta iota in H.
  destruct (send_pool_to_user (s_bank s1) owner (Z.abs amt0) (Z.abs amt1)) as [b|] eqn:EB; [|discriminate H]. cbv beta iota in H.
  destruct (update_position_amounts _ _ _ _ _ _ _ _ _ _ _ EU) as [x0 [x1 [CA [A0 A1]]]].
  destruct (update_position_spec _ _ _ _ _ _ _ _ _ _ _ _ EU) as [_ [_ [_ [_ [PL [_ [BK _]]]]]]].
  destruct (send_pool_to_user_bpool _ _ _ _ _ EB) as [BP [R0 R1]]. rewrite BK in BP, R0, R1.
  match type of H with (do s3 <- ?X; _) = _ => destruct X as [s3|] eqn:E3; [|discriminate H] end. cbv beta iota in H.
  inversion H; subst s' amts. clear H. exists x0, x1. subst amt0 amt1. simpl.
  assert (S3 : s_bank s3 = b /\ (s_pos s3 <> [] -> p_sqrt (s_pool s3) = p_sqrt (s_pool s1))).
  { destruct (liq =? ps_liq q); [|inversion E3; subst; simpl; auto]. simpl in E3.
    destruct (has_any_position (set_pos (set_bank s1 b) (pos_remove (s_pos s1) id))) eqn:EH; [inversion E3; subst; simpl; auto|].
    unfold uninitialize_pool in E3. rewrite EH in E3. inversion E3; subst. simpl. split; [reflexivity|].
    intro NE. exfalso. unfold has_any_position in EH. simpl in EH. destruct (pos_remove (s_pos s1) id); [apply NE; reflexivity|discriminate EH]. }
  destruct S3 as [S3 S4]. rewrite S3.
  assert (P1 : p_sqrt (s_pool s1) = p_sqrt (s_pool s)) by (rewrite PL; destruct (in_range _ _ _); reflexivity).
  repeat split; try assumption; try lia. intro NE. rewrite (S4 NE). exact P1.
Qed.

Open Scope Q_scope.
Lemma qz_minus : forall a b, qz (a - b) == qz a - qz b.
Proof. intros. unfold qz, Z.sub. rewrite inject_Z_plus, inject_Z_opp. reflexivity. Qed.

Lemma list_eq_dec_nil : forall (l : list position), {l = []} + {l <> []}.
Proof. intros [|a l]; [left; reflexivity|right; discriminate]. Qed.

(* WITHDRAW (partial or full): the invariant is preserved *)
Theorem withdraw_solvent : forall s owner id liq s' amts n, Inv s -> SolvP s n -> (0 <= n)%Z ->
  withdraw_position s owner id liq = Some (s', amts) -> SolvP s' n.
Proof.
  intros s owner id liq s' [y0 y1] n I [S0 S1] Hn H.
  destruct (withdraw_position_spec _ _ _ _ _ _ _ I H) as [I' [_ [_ [_ [q [Q [_ [LQ SP]]]]]]]].
  destruct (withdraw_position_amounts _ _ _ _ _ _ _ H Q) as [x0 [x1 [CA [AM [BK [R0 [R1 PS]]]]]]].
  pose proof (pos_get_in _ _ _ Q) as QIn. pose proof (inv_pos_ok _ I) as F. rewrite Forall_forall in F. destruct (F q QIn) as [_ [QL V]].
  assert (NE : s_pos s <> []) by (intro E; rewrite E in QIn; destruct QIn).
  destruct (inv_price _ I NE) as [PP PC].
  destruct (actual_amounts_paid (s_pool s) _ _ liq _ _ (inv_spacing _ I) PC PP V ltac:(lia) CA) as [C0 [C1 [N0 N1]]].
  destruct (valid_sq_pos _ _ _ V) as [PL PH].
  assert (A0 : Z.abs (d_truncate_int x0) = (- d_truncate_int x0)%Z) by lia.
  assert (A1 : Z.abs (d_truncate_int x1) = (- d_truncate_int x1)%Z) by lia.
  unfold SolvP. rewrite BK, A0, A1. simpl fst. simpl snd. rewrite !qz_minus.
  unfold E0, E1 in *.
  set (P := p_sqrt (s_pool s)) in *.
  (* the value removed *)
  assert (LIN0 : pval0 P q == val0 P (ps_liq q - liq) (ps_lower q) (ps_upper q) + val0 P liq (ps_lower q) (ps_upper q)).
  { unfold pval0. rewrite <- val0_add; [|exact PH|apply clampP_pos; exact PL]. replace (ps_liq q - liq + liq)%Z with (ps_liq q) by ring. reflexivity. }
  assert (LIN1 : pval1 P q == val1 P (ps_liq q - liq) (ps_lower q) (ps_upper q) + val1 P liq (ps_lower q) (ps_upper q)).
  { unfold pval1. rewrite <- val1_add. replace (ps_liq q - liq + liq)%Z with (ps_liq q) by ring. reflexivity. }
  destruct (list_eq_dec_nil (s_pos s')) as [EP'|NE'].
  - (* the last position left: nothing is owed any more *)
    rewrite EP'. simpl. split.
    + change 0 with (qz 0). rewrite <- qz_minus. apply qz_le. lia.
    + assert (X : 0 - qz n * eps36 <= 0).
      { assert (0 <= qz n * eps36) by (apply Qmult_le_0_compat; [change 0 with (qz 0); apply qz_le; exact Hn|apply eps36_pos]). lra. }
      eapply Qle_trans; [exact X|]. change 0 with (qz 0). rewrite <- qz_minus. apply qz_le. lia.
  - rewrite (PS NE'). fold P. rewrite SP.
    destruct (liq =? ps_liq q)%Z eqn:EF.
    + apply Z.eqb_eq in EF. rewrite !(qsum_remove _ _ _ _ Q).
      assert (Z0 : val0 P (ps_liq q - liq) (ps_lower q) (ps_upper q) == 0).
      { rewrite EF, Z.sub_diag. unfold val0, seg_amount0. change (qz 0) with 0. pose proof (qz_nz _ PH). pose proof (qz_nz _ (clampP_pos P _ (sq (ps_upper q)) PL)).
        field. repeat split; try apply q36_nz; try apply q18_nz; assumption. }
      assert (Z1 : val1 P (ps_liq q - liq) (ps_lower q) (ps_upper q) == 0).
      { rewrite EF, Z.sub_diag. unfold val1, seg_amount1. change (qz 0) with 0. field. split; [apply q36_nz|apply q18_nz]. }
      rewrite LIN0, LIN1, Z0, Z1. split; lra.
    + set (newq := mkPos id owner (ps_lower q) (ps_upper q) (ps_liq q - liq) (ps_join q)).
      rewrite (qsum_set_upd (pval0 P) _ newq q (inv_pos_sorted _ I) Q), (qsum_set_upd (pval1 P) _ newq q (inv_pos_sorted _ I) Q).
      unfold pval0 at 3. unfold pval1 at 3. unfold newq. simpl ps_liq. simpl ps_lower. simpl ps_upper.
      rewrite LIN0, LIN1. split; lra.
Qed.

(* ADD TO POSITION = full withdrawal + creation *)
Theorem add_solvent : forall s owner id a0 a1 m0 m1 s' r n, Inv s -> SolvP s n -> (0 <= n)%Z ->
  add_to_position s owner id a0 a1 m0 m1 = Some (s', r) -> SolvP s' (n + 1).
Proof.
  unfold add_to_position. intros s owner id a0 a1 m0 m1 s' r n I S Hn H.
  destruct (id <=? 0)%Z; [discriminate H|].
  destruct ((a0 <? 0)%Z || (a1 <? 0)%Z || (m0 <? 0)%Z || (m1 <? 0)%Z); [discriminate H|].
  destruct (pos_get (s_pos s) id) as [q|]; [|discriminate H]. cbv beta iota in H.
  destruct (negb (ps_owner q =? owner)%Z); [discriminate H|]. destruct ((a0 =? 0)%Z && (a1 =? 0)%Z); [discriminate H|].
  destruct (withdraw_position s owner id (ps_liq q)) as [[s1 [w0 w1]]|] eqn:EW; [|discriminate H]. cbv beta iota in H.
  destruct (negb (pool_has_position (s_pool s1))); [discriminate H|].
  match type of H with (do c <- ?X; _) = _ => destruct X as [[s2 c]|] eqn:EC; [|discriminate H] end. inversion H; subst.
  destruct (withdraw_position_spec _ _ _ _ _ _ _ I EW) as [I1 _].
  refine (create_solvent s1 owner _ _ _ _ _ _ s' c n I1 _ EC). exact (withdraw_solvent s owner id (ps_liq q) s1 (w0, w1) n I S Hn EW).
Qed.

(* the exact values are non-negative *)
Lemma seg_amount0_nonneg : forall L a b, (0 <= L)%Z -> (0 < a)%Z -> (0 < b)%Z -> 0 <= seg_amount0 L a b.
Proof.
  intros L a b HL Ha Hb. unfold seg_amount0. apply Qle_shift_div_l.
  - apply Qmult_lt_0_compat; (apply Qlt_shift_div_l; [apply q36_pos|rewrite Qmult_0_l; apply qz_pos; assumption]).
  - rewrite Qmult_0_l. apply Qmult_le_0_compat.
    + apply Qle_shift_div_l; [apply q18_pos|]. rewrite Qmult_0_l. change 0 with (qz 0). apply qz_le. exact HL.
    + apply Qle_shift_div_l; [apply q36_pos|]. rewrite Qmult_0_l. change 0 with (qz 0). apply qz_le. lia.
Qed.
Lemma seg_amount1_nonneg : forall L a b, (0 <= L)%Z -> 0 <= seg_amount1 L a b.
Proof.
  intros L a b HL. unfold seg_amount1. apply Qmult_le_0_compat.
  - apply Qle_shift_div_l; [apply q18_pos|]. rewrite Qmult_0_l. change 0 with (qz 0). apply qz_le. exact HL.
  - apply Qle_shift_div_l; [apply q36_pos|]. rewrite Qmult_0_l. change 0 with (qz 0). apply qz_le. lia.
Qed.

Lemma qsum_ge_member : forall f l q, (forall p, In p l -> 0 <= f p) -> In q l -> f q <= qsum_pos f l.
Proof.
  induction l as [|a l IH]; intros q NN H; simpl in *; [destruct H|].
  assert (R : 0 <= qsum_pos f l).
  { clear - NN. induction l as [|b l IHl]; simpl; [lra|]. pose proof (NN b (or_intror (or_introl eq_refl))).
    assert (0 <= qsum_pos f l) by (apply IHl; intros p Hp; apply NN; destruct Hp; [left|right; right]; assumption). lra. }
  destruct H as [E|H]; [subst; lra|]. pose proof (NN a (or_introl eq_refl)).
  assert (f q <= qsum_pos f l) by (apply IH; [intros p Hp; apply NN; right; exact Hp|exact H]). lra.
Qed.

(* WITHDRAW_ALL_SUCCEEDS, principal part, one position: whatever a position is entitled to withdraw is covered by the pool's
   balance (the rounding events so far number fewer than 2 * 10^36) *)
Theorem position_covered : forall s n q x0 x1, Inv s -> SolvP s n -> (0 <= n < 2 * 10 ^ 36)%Z -> In q (s_pos s) ->
  calc_actual_amounts (s_pool s) (ps_lower q) (ps_upper q) (- ps_liq q) = Some (x0, x1) ->
  (- d_truncate_int x0 <= fst (b_pool (s_bank s)))%Z /\ (- d_truncate_int x1 <= snd (b_pool (s_bank s)))%Z.
Proof.
  intros s n q x0 x1 I [S0 S1] Hn QIn CA.
  pose proof (inv_pos_ok _ I) as F. rewrite Forall_forall in F. destruct (F q QIn) as [_ [QL V]].
  assert (NE : s_pos s <> []) by (intro E; rewrite E in QIn; destruct QIn).
  destruct (inv_price _ I NE) as [PP PC].
  destruct (actual_amounts_paid (s_pool s) _ _ (ps_liq q) _ _ (inv_spacing _ I) PC PP V QL CA) as [C0 [C1 [N0 N1]]].
  assert (NN0 : forall p, In p (s_pos s) -> 0 <= pval0 (p_sqrt (s_pool s)) p).
  { intros p Hp. destruct (F p Hp) as [_ [PL Vp]]. destruct (valid_sq_pos _ _ _ Vp) as [A B].
    unfold pval0, val0. apply seg_amount0_nonneg; [lia|apply clampP_pos; exact A|exact B]. }
  assert (NN1 : forall p, In p (s_pos s) -> 0 <= pval1 (p_sqrt (s_pool s)) p).
  { intros p Hp. destruct (F p Hp) as [_ [PL Vp]]. unfold pval1, val1. apply seg_amount1_nonneg. lia. }
  pose proof (qsum_ge_member _ _ _ NN0 QIn) as M0. pose proof (qsum_ge_member _ _ _ NN1 QIn) as M1.
  unfold E0, E1 in *. split.
  - rewrite Zle_Qle. fold (qz (- d_truncate_int x0)). fold (qz (fst (b_pool (s_bank s)))).
    eapply Qle_trans; [exact C0|]. eapply Qle_trans; [exact M0|exact S0].
  - (* integers within less than one unit *)
    assert (B : qz (- d_truncate_int x1) < qz (snd (b_pool (s_bank s))) + 1).
    { assert (qz n * eps36 < 1).
      { assert (P2 : 0 < 2 * q36) by (vm_compute; reflexivity).
        setoid_replace (qz n * eps36) with (qz n / (2 * q36)) by (unfold eps36; field; intro E; rewrite E in P2; apply (Qlt_irrefl 0); exact P2).
        apply Qlt_shift_div_r; [exact P2|].
        setoid_replace (1 * (2 * q36)) with (qz (2 * 10 ^ 36)) by (vm_compute; reflexivity).
        unfold qz. rewrite <- Zlt_Qlt. lia. }
      assert (X : qz (- d_truncate_int x1) <= qsum_pos (pval1 (p_sqrt (s_pool s))) (s_pos s)) by (eapply Qle_trans; [exact C1|exact M1]). lra. }
    setoid_replace (qz (snd (b_pool (s_bank s))) + 1) with (qz (snd (b_pool (s_bank s)) + 1)) in B by (rewrite qz_plus'; reflexivity).
    unfold qz in B. rewrite <- Zlt_Qlt in B. lia.
Qed.
