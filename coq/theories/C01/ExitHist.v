(* C01, withdraw_all_succeeds, principal half, on the reward-aware model and over histories (continues C01/Exit.v):
   the reward bookkeeping inside WithdrawPosition changes neither the positions, the pool, the pool account nor the set of
   bank users, so after ANY successful prefix of an exit sequence [Full.withdraw_seq] the principal part of the next
   withdrawal (CL's WithdrawPosition proper: all its checks and the transfer out of the pool account) succeeds again. *)
From Coq Require Import ZArith QArith List Bool Lia Sorting.Permutation.
Import ListNotations.
From Osmo Require Import Base.DecModel CL.TickMath CL.CLMath CL.CLPool CL.CLSwap CL.CLStep
  CLR.Accum CLR.Rewards CLR.RSwap CLR.RStep
  C07.Base C07.LP C08.Ops C08.Dom C01.Exact C01.Solvent C01.History C01.Full C01.Exit.
Open Scope Z_scope.

Lemma send_spread_to_user_users : forall b u a0 a1 b', send_spread_to_user b u a0 a1 = Some b' -> length (b_users b') = length (b_users b).
Proof.
  unfold send_spread_to_user. intros b u a0 a1 b' H. destruct ((a0 <? 0) || (a1 <? 0)); [discriminate H|].
  destruct (user_bal b u) as [[u0 u1]|]; [|discriminate H]. simpl in H. destruct (b_spread b) as [p0 p1].
  destruct ((p0 <? a0) || (p1 <? a1)); [discriminate H|]. inversion H; subst. simpl. apply set_nth_length.
Qed.
Lemma send_inc_to_user_users : forall b u a0 a1 b', send_inc_to_user b u a0 a1 = Some b' -> length (b_users b') = length (b_users b).
Proof.
  unfold send_inc_to_user. intros b u a0 a1 b' H. destruct ((a0 <? 0) || (a1 <? 0)); [discriminate H|].
  destruct (user_bal b u) as [[u0 u1]|]; [|discriminate H]. simpl in H. destruct (b_inc b) as [p0 p1].
  destruct ((p0 <? a0) || (p1 <? a1)); [discriminate H|]. inversion H; subst. simpl. apply set_nth_length.
Qed.
Lemma collect_incentives_users : forall b w cur pl now q b' w' col forf byup,
  collect_incentives b w cur pl now q = Some (b', w', col, forf, byup) -> length (b_users b') = length (b_users b).
Proof.
  unfold collect_incentives. intros b w cur pl now q b' w' col forf byup H.
  destruct (prepare_claim_all_incentives _ _ _ _ _ _ _ _) as [[[[w1 c1] f1] by1]|]; [|discriminate H]. simpl in H.
  destruct ((fst c1 =? 0) && (snd c1 =? 0)).
  - inversion H; subst. reflexivity.
  - destruct (send_inc_to_user b (ps_owner q) (fst c1) (snd c1)) as [b1|] eqn:E; [|discriminate H]. inversion H; subst.
    eapply send_inc_to_user_users; exact E.
Qed.
Lemma collect_spread_rewards_users : forall b w sc cur q b' w' c,
  collect_spread_rewards b w sc cur q = Some (b', w', c) -> length (b_users b') = length (b_users b).
Proof.
  unfold collect_spread_rewards. intros b w sc cur q b' w' c H.
  destruct (prepare_claimable_spread _ _ _ _ _ _) as [[w1 c1]|]; [|discriminate H]. simpl in H.
  destruct ((fst c1 =? 0) && (snd c1 =? 0)).
  - inversion H; subst. reflexivity.
  - destruct (send_spread_to_user b (ps_owner q) (fst c1) (snd c1)) as [b1|] eqn:E; [|discriminate H]. inversion H; subst.
    eapply send_spread_to_user_users; exact E.
Qed.

Lemma r_withdraw_users : forall rs owner id liq rs' amts, r_withdraw rs owner id liq = Some (rs', amts) ->
  exists s', withdraw_position (r_base rs) owner id liq = Some (s', amts) /\ same_but_bank s' (r_base rs') /\
    b_pool (s_bank (r_base rs')) = b_pool (s_bank s') /\
    length (b_users (s_bank (r_base rs'))) = length (b_users (s_bank s')).
Proof.
  unfold r_withdraw. intros rs owner id liq rs' amts H.
  destruct (withdraw_position (r_base rs) owner id liq) as [[s' a']|]; [|discriminate H]. simpl in H.
  destruct (pos_get _ id) as [q|]; [|discriminate H]. simpl in H.
  destruct (collect_incentives _ _ _ _ _ _) as [[[[[b1 w1] c1] f1] by1]|] eqn:E1; [|discriminate H]. simpl in H.
  destruct (update_position_rewards _ _ _ _ _ _ _ _ _) as [w2|]; [|discriminate H]. simpl in H.
  pose proof (collect_incentives_bpool _ _ _ _ _ _ _ _ _ _ _ E1) as P1. apply collect_incentives_users in E1.
  match type of H with (do bw <- ?X; _) = _ => destruct X as [[b2 w3]|] eqn:E2; [|discriminate H] end. simpl in H.
  assert (B2 : b_pool b2 = b_pool b1 /\ length (b_users b2) = length (b_users b1)).
  { destruct (p_liq (s_pool s') <? P18).
    - destruct (send_inc_to_user b1 owner (fst f1) (snd f1)) as [bb|] eqn:E; [|discriminate E2]. inversion E2; subst.
      split; [eapply send_inc_to_user_bpool; exact E|eapply send_inc_to_user_users; exact E].
    - destruct (redeposit_forfeited w2 by1 (p_liq (s_pool s'))); [|discriminate E2]. inversion E2; subst. split; reflexivity. }
  match type of H with (do bw2 <- ?X; _) = _ => destruct X as [[b3 w4]|] eqn:E3; [|discriminate H] end. simpl in H.
  assert (B3 : b_pool b3 = b_pool b2 /\ length (b_users b3) = length (b_users b2)).
  { destruct (liq =? ps_liq q).
    - destruct (collect_spread_rewards b2 w3 _ _ q) as [[[bb ww] cc]|] eqn:E; [|discriminate E3]. inversion E3; subst.
      split; [eapply collect_spread_rewards_bpool; exact E|eapply collect_spread_rewards_users; exact E].
    - inversion E3; subst. split; reflexivity. }
  inversion H; subst. exists s'. split; [reflexivity|]. split; [apply same_but_bank_set|]. simpl.
  destruct B2, B3. split; congruence.
Qed.

Lemma send_pool_to_user_users : forall b u a0 a1 b', send_pool_to_user b u a0 a1 = Some b' -> length (b_users b') = length (b_users b).
Proof.
  unfold send_pool_to_user. intros b u a0 a1 b' H. destruct ((a0 <? 0) || (a1 <? 0)); [discriminate H|].
  destruct (user_bal b u) as [[u0 u1]|]; [|discriminate H]. simpl in H. destruct (b_pool b) as [p0 p1].
  destruct ((p0 <? a0) || (p1 <? a1)); [discriminate H|]. inversion H; subst. simpl. apply set_nth_length.
Qed.
Lemma withdraw_position_users : forall s owner id liq s' amts, withdraw_position s owner id liq = Some (s', amts) ->
  length (b_users (s_bank s')) = length (b_users (s_bank s)).
Proof.
  unfold withdraw_position. intros s owner id liq s' amts H.
  destruct (negb (0 <? liq)); [discriminate H|]. destruct (pos_get (s_pos s) id) as [q|]; [|discriminate H]. cbv beta iota in H.
  destruct (negb (ps_owner q =? owner)); [discriminate H|]. destruct (ps_liq q <? liq); [discriminate H|].
  destruct (update_position s owner (ps_lower q) (ps_upper q) (- liq) (ps_join q) id) as [[[s1 [amt0 amt1]] [le ue]]|] eqn:EU; [|discriminate H]. cbv beta iota in H.
  destruct (send_pool_to_user (s_bank s1) owner (Z.abs amt0) (Z.abs amt1)) as [b|] eqn:EB; [|discriminate H]. cbv beta iota in H.
  destruct (update_position_spec _ _ _ _ _ _ _ _ _ _ _ _ EU) as [_ [_ [_ [_ [_ [_ [BK _]]]]]]].
  apply send_pool_to_user_users in EB. rewrite BK in EB.
  match type of H with (do s3 <- ?X; _) = _ => destruct X as [s3|] eqn:E3; [|discriminate H] end. cbv beta iota in H.
  inversion H; subst s' amts. clear H. simpl.
  assert (S3 : s_bank s3 = b).
  { destruct (liq =? ps_liq q); [|inversion E3; subst; reflexivity]. simpl in E3.
    destruct (has_any_position (set_pos (set_bank s1 b) (pos_remove (s_pos s1) id))) eqn:EH; [inversion E3; subst; reflexivity|].
    unfold uninitialize_pool in E3. rewrite EH in E3. inversion E3; subst. reflexivity. }
  rewrite S3. exact EB.
Qed.

(* the state-level package the exit argument runs on *)
Definition ExitOK (rs : rstate) (n : Z) : Prop :=
  RInv rs /\ SolvP (r_base rs) n /\ liq_bounded (r_base rs) /\ owners_have_accounts (r_base rs).

Lemma exit_ok_step : forall rs n q rs' r, 0 <= n -> ExitOK rs n -> In q (s_pos (r_base rs)) ->
  rhandler rs (RBase (OWithdraw (ps_owner q) (ps_id q) (ps_liq q))) = Some (rs', r) ->
  ExitOK rs' n /\ s_pos (r_base rs') = pos_remove (s_pos (r_base rs)) (ps_id q).
Proof.
  intros rs n q rs' r Hn [RI [S [LB UA]]] QIn H.
  pose proof (rinv_handler _ _ _ _ H RI) as RI'. simpl in H.
  destruct (r_withdraw rs (ps_owner q) (ps_id q) (ps_liq q)) as [[rs1 [a0 a1]]|] eqn:W; [|discriminate H]. inversion H; subst rs1 r. clear H.
  destruct (r_withdraw_users _ _ _ _ _ _ W) as [s' [WP [[A [B [C [D E]]]] [BP UL]]]].
  pose proof (withdraw_position_users _ _ _ _ _ _ WP) as UL'.
  destruct (withdraw_full_preserves (r_base rs) n q s' (a0, a1) (proj1 RI) S Hn LB UA QIn WP UL') as [I' [S' [LB' [UA' SP]]]].
  split; [|rewrite C; exact SP].
  split; [exact RI'|]. split; [|split].
  - apply (SolvP_ext s'); [exact C|rewrite A; reflexivity|exact BP|exact S'].
  - intros x Hx. rewrite C in Hx. apply LB'. exact Hx.
  - intros x Hx. rewrite C in Hx. rewrite UL. apply UA'. exact Hx.
Qed.

(* after any successful prefix of an exit sequence the package holds again *)
Lemma withdraw_seq_in : forall ids rs rs', withdraw_seq rs ids = Some rs' -> forall n, 0 <= n -> ExitOK rs n -> ExitOK rs' n.
Proof.
  induction ids as [|id r IH]; intros rs rs' H n Hn OK; cbn [withdraw_seq] in H; [inversion H; subst; exact OK|].
  destruct (pos_get (s_pos (r_base rs)) id) as [q|] eqn:G; [|discriminate H].
  destruct (rhandler rs (RBase (OWithdraw (ps_owner q) id (ps_liq q)))) as [[rs1 r1]|] eqn:W; [|discriminate H].
  pose proof (pos_get_id _ _ _ G) as Eid. pose proof (pos_get_in _ _ _ G) as QIn. rewrite <- Eid in W.
  destruct (exit_ok_step rs n q rs1 r1 Hn OK QIn W) as [OK1 _]. eapply IH; eassumption.
Qed.

(* WITHDRAW_ALL_SUCCEEDS, principal half: after any successful prefix of any exit sequence, for every position still open,
   WithdrawPosition proper - every check of it and the transfer out of the pool account - succeeds for the full liquidity *)
Theorem exit_principal_succeeds : forall rs n ids rs' q, 0 <= n < 2 * 10 ^ 36 -> ExitOK rs n ->
  withdraw_seq rs ids = Some rs' -> In q (s_pos (r_base rs')) ->
  exists s'' amts, withdraw_position (r_base rs') (ps_owner q) (ps_id q) (ps_liq q) = Some (s'', amts).
Proof.
  intros rs n ids rs' q Hn OK H QIn.
  destruct (withdraw_seq_in ids rs rs' H n ltac:(lia) OK) as [RI [S [LB UA]]].
  destruct (withdraw_full_succeeds (r_base rs') n q (proj1 RI) S Hn LB UA QIn) as [s'' [amts [W _]]].
  exists s'', amts. exact W.
Qed.

(* the only way [withdraw_seq] can fail on a list of distinct open positions is the reward bookkeeping: if the exit of
   position id fails in state rs, the principal part had succeeded *)
Theorem exit_failure_is_reward_side : forall rs n q, 0 <= n < 2 * 10 ^ 36 -> ExitOK rs n -> In q (s_pos (r_base rs)) ->
  rhandler rs (RBase (OWithdraw (ps_owner q) (ps_id q) (ps_liq q))) = None ->
  exists s' amts, withdraw_position (r_base rs) (ps_owner q) (ps_id q) (ps_liq q) = Some (s', amts).
Proof.
  intros rs n q Hn [RI [S [LB UA]]] QIn _.
  destruct (withdraw_full_succeeds (r_base rs) n q (proj1 RI) S Hn LB UA QIn) as [s' [amts [W _]]]. exists s', amts. exact W.
Qed.

(* reachable states *)
Theorem exit_ok_reachable : forall sp spf ssc isc users t ops, 0 < sp -> 0 <= spf <= 500000000000000000 ->
  let rs0 := rinit sp spf ssc isc users t in
  let rs := rrun rs0 ops in
  liq_bounded (r_base rs) -> owners_have_accounts (r_base rs) -> ExitOK rs (hist_cost rs0 ops).
Proof.
  intros sp spf ssc isc users t ops Hsp Hspf rs0 rs LB UA.
  split; [apply rinv_run; apply rinv_init; assumption|]. split; [apply solvent_reachable; assumption|]. split; assumption.
Qed.

Theorem exit_all_base_reachable : forall sp spf ssc isc users t ops ids, 0 < sp -> 0 <= spf <= 500000000000000000 ->
  let rs0 := rinit sp spf ssc isc users t in
  let s := r_base (rrun rs0 ops) in
  hist_cost rs0 ops < 2 * 10 ^ 36 -> liq_bounded s -> owners_have_accounts s ->
  Permutation ids (map ps_id (s_pos s)) ->
  exists s', exit_seq s ids = Some s' /\ s_pos s' = [] /\
    0 <= fst (b_pool (s_bank s')) /\ 0 <= snd (b_pool (s_bank s')).
Proof.
  intros sp spf ssc isc users t ops ids Hsp Hspf rs0 s Hc LB UA P.
  destruct (exit_ok_reachable sp spf ssc isc users t ops Hsp Hspf LB UA) as [RI [S _]].
  assert (Hn : 0 <= hist_cost rs0 ops < 2 * 10 ^ 36) by (split; [apply hist_cost_nonneg|exact Hc]).
  destruct (exit_any_order ids s _ (proj1 RI) S Hn LB UA P) as [s' [E [PE [I' S']]]].
  exists s'. split; [exact E|]. split; [exact PE|]. eapply solvent_nonneg; eassumption.
Qed.
