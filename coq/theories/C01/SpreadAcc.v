(* C01, spread-reward account part of the invariant: in every reachable state the spread-reward account covers the sum of what
   all open positions can claim (C08/Paid*.v), stated with the vocabulary of C01/Full.v. *)
From Coq Require Import ZArith List Bool Lia.
Import ListNotations.
From Osmo Require Import Base.DecModel CL.TickMath CL.CLMath CL.CLPool CL.CLSwap CL.CLStep
  CLR.Accum CLR.Rewards CLR.RSwap CLR.RStep C07.Base C07.LP C08.Claim C08.Dom C08.Paid C08.PaidOps C08.PaidHist C08.ClaimInv C08.ClaimIncTime C01.Full.
Open Scope Z_scope.

Lemma sum_claims_spec : forall rs l c, sum_claims (claimable_spread rs) (map ps_id l) = Some c ->
  (forall p, In p l -> claimable_spread rs (ps_id p) <> None) /\
  fst c = zsum (claim_of false rs) l /\ snd c = zsum (claim_of true rs) l.
Proof.
  induction l as [|a l IH]; intros c H; simpl in H.
  - inversion H; subst. split; [intros p []|]. split; reflexivity.
  - destruct (claimable_spread rs (ps_id a)) as [ca|] eqn:EA; [|discriminate H].
    destruct (sum_claims (claimable_spread rs) (map ps_id l)) as [t|] eqn:ET; [|discriminate H]. inversion H; subst. clear H.
    destruct (IH t eq_refl) as [A [B C]]. split; [|split].
    + intros p [Hp|Hp]; [subst p; rewrite EA; discriminate|apply A; exact Hp].
    + simpl. unfold claim_of at 1. rewrite EA, B. reflexivity.
    + simpl. unfold claim_of at 1. rewrite EA, C. reflexivity.
Qed.

(* the spread-reward conjunct of Solv, whenever the claim queries succeed, with the explicit rounding budget of DESIGN 9.2 *)
Theorem spread_covered_reachable : forall sp spf ssc isc users t ops c, 0 < sp -> 0 <= spf <= 500000000000000000 -> 0 < ssc ->
  let rs0 := rinit sp spf ssc isc users t in
  let rs := rrun rs0 ops in
  hist_pcost rs0 ops + Z.of_nat (length (s_pos (r_base rs))) < 2 * ssc ->
  spread_claims rs = Some c ->
  fst c <= fst (b_spread (s_bank (r_base rs))) /\ snd c <= snd (b_spread (s_bank (r_base rs))).
Proof.
  intros sp spf ssc isc users t ops c Hsp Hspf Hssc rs0 rs HK HC. unfold spread_claims, open_ids in HC.
  destruct (sum_claims_spec rs _ c HC) as [Q [F S]].
  pose proof (total_claimable_le_paid sp spf ssc isc users t ops false Hsp Hspf Hssc Q HK) as B0.
  pose proof (total_claimable_le_paid sp spf ssc isc users t ops true Hsp Hspf Hssc Q HK) as B1.
  fold rs0 rs in B0, B1. unfold spread_bal in B0, B1. simpl in B0, B1. rewrite F, S. split; assumption.
Qed.

(* ---------- the incentive account ---------- *)
From Osmo Require Import C08.IncOps C08.IncHist C08.Inc.

Lemma sum_claims_inc_spec : forall rs l c,
  sum_claims (fun id => match claimable_incentives rs id with
                        | Some (c, f) => Some (fst c + fst f, snd c + snd f) | None => None end) (map ps_id l) = Some c ->
  (forall p, In p l -> claimable_incentives rs (ps_id p) <> None) /\
  fst c = zsum (iclaim_of false rs) l /\ snd c = zsum (iclaim_of true rs) l.
Proof.
  induction l as [|a l IH]; intros c H; simpl in H.
  - inversion H; subst. split; [intros p []|]. split; reflexivity.
  - destruct (claimable_incentives rs (ps_id a)) as [[ca fa]|] eqn:EA; [|discriminate H].
    match type of H with match ?X with _ => _ end = _ => destruct X as [t|] eqn:ET; [|discriminate H] end. inversion H; subst. clear H.
    destruct (IH t eq_refl) as [A [B C]]. split; [|split].
    + intros p [Hp|Hp]; [subst p; rewrite EA; discriminate|apply A; exact Hp].
    + simpl. unfold iclaim_of at 1. rewrite EA, B. reflexivity.
    + simpl. unfold iclaim_of at 1. rewrite EA, C. reflexivity.
Qed.

(* the incentive conjunct of Solv in its integer-robust form: whenever the claim queries succeed, everything the open positions can
   claim or forfeit is covered by the incentive account *)
Theorem inc_covered_reachable : forall sp spf ssc isc users t ops c, 0 < sp -> 0 <= spf <= 500000000000000000 -> 0 < isc ->
  let rs0 := rinit sp spf ssc isc users t in
  let rs := rrun rs0 ops in
  (hist_icost rs0 ops + Z.of_nat (length (s_pos (r_base rs)))) * Z.of_nat NU < 2 * isc ->
  inc_claims rs = Some c ->
  fst c <= fst (b_inc (s_bank (r_base rs))) /\ snd c <= snd (b_inc (s_bank (r_base rs))).
Proof.
  intros sp spf ssc isc users t ops c Hsp Hspf Hisc rs0 rs HK HC. unfold inc_claims, open_ids in HC.
  destruct (sum_claims_inc_spec rs _ c HC) as [Q [F S]].
  pose proof (total_incentives_le_paid sp spf ssc isc users t ops false Hsp Hspf Hisc Q HK) as B0.
  pose proof (total_incentives_le_paid sp spf ssc isc users t ops true Hsp Hspf Hisc Q HK) as B1.
  fold rs0 rs in B0, B1. unfold inc_bal in B0, B1. simpl in B0, B1. rewrite F, S. split; assumption.
Qed.

(* ---------- every single claim is affordable ---------- *)
From Osmo Require Import C08.IncStage C07.Base.

Lemma zsum_member_le : forall f l q, (forall p, In p l -> 0 <= f p) -> In q l -> f q <= zsum f l.
Proof.
  induction l as [|a l IH]; intros q NN H; simpl in *; [destruct H|].
  assert (R : 0 <= zsum f l) by (apply zsum_nonneg; intros p Hp; apply NN; right; exact Hp).
  destruct H as [->|H]; [lia|]. pose proof (NN a (or_introl eq_refl)). pose proof (IH q (fun p Hp => NN p (or_intror Hp)) H). lia.
Qed.

Lemma claim_of_nonneg : forall rs d p, PI rs -> 0 < sc_of rs -> In p (s_pos (r_base rs)) -> 0 <= claim_of d rs p.
Proof.
  intros rs d p [RI [RM [TOT FR]]] HSC Hp. pose proof RI as [I _]. unfold claim_of.
  destruct (claimable_spread rs (ps_id p)) as [c|] eqn:EC; [|lia].
  unfold claimable_spread in EC. rewrite (in_pos_get _ _ (inv_pos_sorted _ I) Hp) in EC. cbv beta iota in EC.
  destruct (prepare_claimable_spread _ _ _ _ _ _) as [[w' c']|] eqn:E; [|discriminate EC]. inversion EC; subst c'. clear EC.
  destruct (RM p Hp) as [r [R SH]].
  assert (HT : 0 <= ac_total (rw_spread (r_rw rs))).
  { rewrite TOT. apply zsum_nonneg. intros q Hq. pose proof (inv_pos_ok _ I) as F. rewrite Forall_forall in F. destruct (F q Hq) as [_ [X _]]. lia. }
  destruct (prepare_claimable_spread_full _ _ _ _ _ _ _ _ _ E R HT HSC) as [_ [_ [_ [_ HD]]]].
  destruct (HD d) as [_ [C0 _]]. exact C0.
Qed.

(* in every reachable state (rounding budget as above, queries succeed) each position's claimable spread rewards can be paid from
   the spread-reward account, whatever the order of the claims *)
Theorem each_spread_claim_affordable : forall sp spf ssc isc users t ops d q, 0 < sp -> 0 <= spf <= 500000000000000000 -> 0 < ssc ->
  let rs0 := rinit sp spf ssc isc users t in
  let rs := rrun rs0 ops in
  (forall p, In p (s_pos (r_base rs)) -> claimable_spread rs (ps_id p) <> None) ->
  hist_pcost rs0 ops + Z.of_nat (length (s_pos (r_base rs))) < 2 * ssc ->
  In q (s_pos (r_base rs)) -> claim_of d rs q <= spread_bal d rs.
Proof.
  intros sp spf ssc isc users t ops d q Hsp Hspf Hssc rs0 rs HQ HK Hq.
  pose proof (total_claimable_le_paid sp spf ssc isc users t ops d Hsp Hspf Hssc HQ HK) as T. fold rs0 rs in T.
  destruct (PI_init sp spf ssc isc users t Hsp Hspf) as [P0 _].
  destruct (paid_run ops rs0 P0 Hssc) as [A [B _]]. fold rs in A, B.
  assert (SC : 0 < sc_of rs) by (rewrite B; exact Hssc).
  pose proof (zsum_member_le (claim_of d rs) _ q (fun p Hp => claim_of_nonneg rs d p A SC Hp) Hq). lia.
Qed.

(* ---------- the spread conjunct of Solv without the "queries succeed" hypothesis ---------- *)
Lemma sum_claims_total : forall f ids, (forall id, In id ids -> f id <> None) -> exists c, sum_claims f ids = Some c.
Proof.
  induction ids as [|id r IH]; intro H; simpl; [eexists; reflexivity|].
  destruct (f id) as [c|] eqn:E; [|exfalso; apply (H id); [left; reflexivity|exact E]].
  destruct IH as [t ET]; [intros j Hj; apply H; right; exact Hj|]. rewrite ET. eexists; reflexivity.
Qed.

Theorem spread_covered_total : forall sp spf ssc isc users t ops, (0 < sp)%Z -> (0 <= spf <= 500000000000000000)%Z -> (P18 <= ssc)%Z ->
  let rs0 := rinit sp spf ssc isc users t in
  let rs := rrun rs0 ops in
  (hist_pcost rs0 ops + Z.of_nat (length (s_pos (r_base rs))) < 2 * ssc)%Z ->
  (forall p, In p (s_pos (r_base rs)) -> spread_range_ok rs p) ->
  spread_covered rs.
Proof.
  intros sp spf ssc isc users t ops Hsp Hspf Hssc rs0 rs HK RG.
  assert (Hssc0 : (0 < ssc)%Z) by (pose proof C08.Conseq.P18_pos; lia).
  destruct (sum_claims_total (claimable_spread rs) (open_ids rs)) as [c HC].
  { intros id Hid. unfold open_ids in Hid. apply in_map_iff in Hid. destruct Hid as [p [Ep HIn]]. subst id.
    destruct (claimable_spread_succeeds_reachable sp spf ssc isc users t ops p Hsp Hspf Hssc HIn (RG p HIn)) as [x X].
    fold rs0 in X. fold rs in X. rewrite X. discriminate. }
  exists c. split; [exact HC|]. exact (spread_covered_reachable sp spf ssc isc users t ops c Hsp Hspf Hssc0 HK HC).
Qed.

(* ---------- the incentive claims without the "queries succeed" hypothesis ---------- *)
Theorem inc_claims_covered_total : forall sp spf ssc isc users t ops, (0 < sp)%Z -> (0 <= spf <= 500000000000000000)%Z -> (P18 <= isc)%Z ->
  let rs0 := rinit sp spf ssc isc users t in
  let rs := rrun rs0 ops in
  hist_time_ok ops ->
  ((hist_icost rs0 ops + Z.of_nat (length (s_pos (r_base rs)))) * Z.of_nat NU < 2 * isc)%Z ->
  (forall p, In p (s_pos (r_base rs)) -> inc_range_ok rs p) ->
  exists c, inc_claims rs = Some c /\ (fst c <= fst (b_inc (s_bank (r_base rs))))%Z /\ (snd c <= snd (b_inc (s_bank (r_base rs))))%Z.
Proof.
  intros sp spf ssc isc users t ops Hsp Hspf Hisc rs0 rs HT HK RG.
  assert (Hisc0 : (0 < isc)%Z) by (pose proof C08.Conseq.P18_pos; lia).
  destruct (sum_claims_total (fun id => match claimable_incentives rs id with
                                         | Some (c, f) => Some (fst c + fst f, snd c + snd f)%Z | None => None end) (open_ids rs)) as [c HC].
  { intros id Hid. unfold open_ids in Hid. apply in_map_iff in Hid. destruct Hid as [p [Ep HIn]]. subst id.
    destruct (claimable_incentives_succeeds_reachable sp spf ssc isc users t ops p Hsp Hspf Hisc HT HIn (RG p HIn)) as [[cc ff] X].
    fold rs0 in X. fold rs in X. rewrite X. discriminate. }
  exists c. split; [exact HC|]. exact (inc_covered_reachable sp spf ssc isc users t ops c Hsp Hspf Hisc0 HK HC).
Qed.
