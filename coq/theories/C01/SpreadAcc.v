(* C01, spread-reward account part of the invariant: in every reachable state the spread-reward account covers the sum of what
   all open positions can claim (C08/Paid*.v), stated with the vocabulary of C01/Full.v. *)
From Coq Require Import ZArith List Bool Lia.
Import ListNotations.
From Osmo Require Import Base.DecModel CL.TickMath CL.CLMath CL.CLPool CL.CLSwap CL.CLStep
  CLR.Accum CLR.Rewards CLR.RSwap CLR.RStep C07.Base C07.LP C08.Claim C08.Dom C08.Paid C08.PaidOps C08.PaidHist C01.Full.
Open Scope Z_scope.

Lemma sum_claims_spec : forall rs l c, sum_claims (claimable_spread rs) (map ps_id l) = Some c ->
  (forall p, In p l -> claimable_spread rs (ps_id p) <> None) /\
  fst c = zsum (claim_of false rs) l /\ snd c = zsum (claim_of true rs) l.
Proof.
  induction l as [|a l IH]; intros c H; simpl in H.
  - inversion H; subst. split; [intros p []|]. split; reflexivity.
  - destruct (claimable_spread rs (ps_id a)) as [ca|] eqn:EA; [|discriminate H].
    destruct (sum_claims (claimable_spread rs) (map ps_id l)) as [t|] eqn:ET; [|discriminate H]. inversion H; subst. clear H.
    destruct (IH t eq_refl) as [A [B C]]. split; [|split].
    + intros p [Hp|Hp]; [subst p; rewrite EA; discriminate|apply A; exact Hp].
    + simpl. unfold claim_of at 1. rewrite EA, B. reflexivity.
    + simpl. unfold claim_of at 1. rewrite EA, C. reflexivity.
Qed.

(* the spread-reward conjunct of Solv, whenever the claim queries succeed, with the explicit rounding budget of DESIGN 9.2 *)
Theorem spread_covered_reachable : forall sp spf ssc isc users t ops c, 0 < sp -> 0 <= spf <= 500000000000000000 -> 0 < ssc ->
  let rs0 := rinit sp spf ssc isc users t in
  let rs := rrun rs0 ops in
  hist_pcost rs0 ops + Z.of_nat (length (s_pos (r_base rs))) < 2 * ssc ->
  spread_claims rs = Some c ->
  fst c <= fst (b_spread (s_bank (r_base rs))) /\ snd c <= snd (b_spread (s_bank (r_base rs))).
Proof.
  intros sp spf ssc isc users t ops c Hsp Hspf Hssc rs0 rs HK HC. unfold spread_claims, open_ids in HC.
  destruct (sum_claims_spec rs _ c HC) as [Q [F S]].
  pose proof (total_claimable_le_paid sp spf ssc isc users t ops false Hsp Hspf Hssc Q HK) as B0.
  pose proof (total_claimable_le_paid sp spf ssc isc users t ops true Hsp Hspf Hssc Q HK) as B1.
  fold rs0 rs in B0, B1. unfold spread_bal in B0, B1. simpl in B0, B1. rewrite F, S. split; assumption.
Qed.

(* ---------- the incentive account ---------- *)
From Osmo Require Import C08.IncOps C08.IncHist C08.Inc.

Lemma sum_claims_inc_spec : forall rs l c,
  sum_claims (fun id => match claimable_incentives rs id with
                        | Some (c, f) => Some (fst c + fst f, snd c + snd f) | None => None end) (map ps_id l) = Some c ->
  (forall p, In p l -> claimable_incentives rs (ps_id p) <> None) /\
  fst c = zsum (iclaim_of false rs) l /\ snd c = zsum (iclaim_of true rs) l.
Proof.
  induction l as [|a l IH]; intros c H; simpl in H.
  - inversion H; subst. split; [intros p []|]. split; reflexivity.
  - destruct (claimable_incentives rs (ps_id a)) as [[ca fa]|] eqn:EA; [|discriminate H].
    match type of H with match ?X with _ => _ end = _ => destruct X as [t|] eqn:ET; [|discriminate H] end. inversion H; subst. clear H.
    destruct (IH t eq_refl) as [A [B C]]. split; [|split].
    + intros p [Hp|Hp]; [subst p; rewrite EA; discriminate|apply A; exact Hp].
    + simpl. unfold iclaim_of at 1. rewrite EA, B. reflexivity.
    + simpl. unfold iclaim_of at 1. rewrite EA, C. reflexivity.
Qed.

(* the incentive conjunct of Solv in its integer-robust form: whenever the claim queries succeed, everything the open positions can
   claim or forfeit is covered by the incentive account *)
Theorem inc_covered_reachable : forall sp spf ssc isc users t ops c, 0 < sp -> 0 <= spf <= 500000000000000000 -> 0 < isc ->
  let rs0 := rinit sp spf ssc isc users t in
  let rs := rrun rs0 ops in
  (hist_icost rs0 ops + Z.of_nat (length (s_pos (r_base rs)))) * Z.of_nat NU < 2 * isc ->
  inc_claims rs = Some c ->
  fst c <= fst (b_inc (s_bank (r_base rs))) /\ snd c <= snd (b_inc (s_bank (r_base rs))).
Proof.
  intros sp spf ssc isc users t ops c Hsp Hspf Hisc rs0 rs HK HC. unfold inc_claims, open_ids in HC.
  destruct (sum_claims_inc_spec rs _ c HC) as [Q [F S]].
  pose proof (total_incentives_le_paid sp spf ssc isc users t ops false Hsp Hspf Hisc Q HK) as B0.
  pose proof (total_incentives_le_paid sp spf ssc isc users t ops true Hsp Hspf Hisc Q HK) as B1.
  fold rs0 rs in B0, B1. unfold inc_bal in B0, B1. simpl in B0, B1. rewrite F, S. split; assumption.
Qed.
