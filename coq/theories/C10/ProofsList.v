(* C10: lemmas about the historical index (sorted list of records): lookup, insertion, pruning. *)
From Coq Require Import ZArith List Bool Lia Sorted.
Import ListNotations.
From Osmo Require Import C10.Model C10.Spec.
Open Scope Z_scope.

Definition lt_t (a b : rec) : Prop := r_time a < r_time b.
Definition le_t (a b : rec) : Prop := r_time a <= r_time b.
Definition tsorted (l : list rec) : Prop := StronglySorted lt_t l.     (* the store: unique keys, ascending *)
Definition bounded (l : list rec) (t : Z) : Prop := Forall (fun x => r_time x <= t) l.

Lemma ss_app_inv {A} (R : A -> A -> Prop) l1 l2 :
  StronglySorted R (l1 ++ l2) ->
  StronglySorted R l1 /\ StronglySorted R l2 /\ (forall a b, In a l1 -> In b l2 -> R a b).
Proof.
  induction l1 as [|x l1 IH]; cbn [app]; intros H.
  - repeat split; [constructor|assumption|intros a b []].
  - inversion H as [|? ? Hs Hf]; subst. destruct (IH Hs) as (H1 & H2 & H3).
    rewrite Forall_app in Hf. destruct Hf as [Hf1 Hf2].
    repeat split; [constructor; assumption|assumption|].
    intros a b [->|Ha] Hb; [rewrite Forall_forall in Hf2; auto|auto].
Qed.

Lemma ss_app_intro {A} (R : A -> A -> Prop) l1 l2 :
  StronglySorted R l1 -> StronglySorted R l2 -> (forall a b, In a l1 -> In b l2 -> R a b) ->
  StronglySorted R (l1 ++ l2).
Proof.
  induction l1 as [|x l1 IH]; cbn [app]; intros H1 H2 H3; [assumption|].
  inversion H1 as [|? ? Hs Hf]; subst. constructor.
  - apply IH; auto. intros a b Ha Hb; apply H3; [right|]; assumption.
  - rewrite Forall_app; split; [assumption|]. rewrite Forall_forall. intros b Hb. apply H3; [left; reflexivity|assumption].
Qed.

Lemma ss_drop_middle {A} (R : A -> A -> Prop) l1 l2 l3 :
  StronglySorted R (l1 ++ l2 ++ l3) -> StronglySorted R (l1 ++ l3).
Proof.
  intros H. destruct (ss_app_inv R _ _ H) as (H1 & H23 & H123).
  destruct (ss_app_inv R _ _ H23) as (H2 & H3 & _).
  apply ss_app_intro; auto. intros a b Ha Hb. apply H123; [assumption|]. rewrite in_app_iff; right; assumption.
Qed.

(* ---- lookup ---- *)
Lemma aob_cons x tl t :
  hist_at_or_before (x :: tl) t =
  if r_time x <=? t then match hist_at_or_before tl t with Some y => Some y | None => Some x end else None.
Proof. reflexivity. Qed.

Lemma aob_in l t r : hist_at_or_before l t = Some r -> In r l /\ r_time r <= t.
Proof.
  revert r; induction l as [|x tl IH]; cbn [hist_at_or_before]; intros r H; [discriminate|].
  destruct (r_time x <=? t) eqn:E; [|discriminate].
  destruct (hist_at_or_before tl t) as [y|] eqn:Ey.
  - injection H as <-. destruct (IH y eq_refl). split; [right|]; assumption.
  - injection H as <-. split; [left; reflexivity|lia].
Qed.

Lemma aob_head_some x tl t : r_time x <= t -> hist_at_or_before (x :: tl) t <> None.
Proof.
  intros H. cbn [hist_at_or_before]. destruct (r_time x <=? t) eqn:E; [|lia].
  destruct (hist_at_or_before tl t); discriminate.
Qed.

(* a prefix that lies entirely at or before t is invisible when the rest starts at or before t *)
Lemma aob_skip_prefix X y Y t :
  bounded X t -> r_time y <= t -> hist_at_or_before (X ++ y :: Y) t = hist_at_or_before (y :: Y) t.
Proof.
  intros HX Hy. induction X as [|x X IH]; [reflexivity|].
  inversion HX; subst. cbn [app]. rewrite aob_cons.
  destruct (r_time x <=? t) eqn:E; [|lia]. rewrite IH by assumption.
  destruct (hist_at_or_before (y :: Y) t) eqn:Ey; [reflexivity|]. exfalso; exact (aob_head_some y Y t Hy Ey).
Qed.

Lemma aob_app_last G r t :
  bounded G (r_time r) ->
  hist_at_or_before (G ++ [r]) t = if r_time r <=? t then Some r else hist_at_or_before G t.
Proof.
  intros HG. induction G as [|x G IH]; cbn [app hist_at_or_before].
  - destruct (r_time r <=? t); reflexivity.
  - inversion HG; subst. rewrite IH by assumption.
    destruct (r_time x <=? t) eqn:Ex; destruct (r_time r <=? t) eqn:Er; try reflexivity; lia.
Qed.

(* later lookups in a list sorted by time see a record at or after any earlier member *)
Lemma aob_some_of_member l r t :
  StronglySorted le_t l -> In r l -> r_time r <= t -> exists x, hist_at_or_before l t = Some x.
Proof.
  intros Hs Hin Ht. destruct l as [|y tl]; [destruct Hin|].
  inversion Hs as [|? ? _ Hf]; subst.
  assert (r_time y <= t).
  { destruct Hin as [->|Hin]; [assumption|]. rewrite Forall_forall in Hf. specialize (Hf _ Hin). unfold le_t in Hf. lia. }
  destruct (hist_at_or_before (y :: tl) t) eqn:E; [eauto|]. exfalso; eapply aob_head_some; eauto.
Qed.

(* ---- insertion of a record that is not older than anything stored ---- *)
Lemma insert_last r l :
  tsorted l -> bounded l (r_time r) ->
  exists pre, hist_insert r l = pre ++ [r] /\ bounded pre (r_time r) /\
              (forall t, t < r_time r -> hist_at_or_before pre t = hist_at_or_before l t) /\
              tsorted (pre ++ [r]).
Proof.
  intros Hs Hb. induction l as [|x tl IH].
  - exists []. cbn. repeat split; [constructor|constructor; constructor].
  - inversion Hs as [|? ? Hs' Hf]; subst. inversion Hb as [|? ? Hx Hb']; subst.
    cbn [hist_insert]. destruct (r_time r <? r_time x) eqn:E1; [lia|].
    destruct (r_time r =? r_time x) eqn:E2.
    + (* same key: x is replaced; nothing can follow x *)
      assert (tl = []) as ->.
      { destruct tl as [|y tl']; [reflexivity|]. inversion Hf as [|? ? Hy _]; subst. inversion Hb' as [|? ? Hy' _]; subst.
        unfold lt_t in Hy. lia. }
      exists []. cbn [app]. repeat split; [constructor| |constructor; constructor].
      intros t Ht. cbn [hist_at_or_before]. destruct (r_time x <=? t) eqn:E3; [lia|reflexivity].
    + destruct (IH Hs' Hb') as (pre & Hp & Hbp & Hl & Hsp).
      exists (x :: pre). rewrite Hp. repeat split.
      * constructor; assumption.
      * intros t Ht. cbn [hist_at_or_before]. rewrite Hl by assumption. reflexivity.
      * cbn [app]. constructor; [assumption|].
        rewrite Forall_app; split.
        -- rewrite Forall_forall. intros y Hy.
           assert (In y (hist_insert r tl)) as Hin by (rewrite Hp, in_app_iff; left; assumption).
           (* members of pre are members of tl *)
           clear - Hin Hf Hy Hp Hbp E1 E2.
           assert (forall z, In z (hist_insert r tl) -> z = r \/ In z tl) as Hmem.
           { clear. induction tl as [|w tl IH]; cbn [hist_insert]; intros z Hz.
             - destruct Hz as [<-|[]]; left; reflexivity.
             - destruct (r_time r <? r_time w); [destruct Hz as [<-|Hz]; [left; reflexivity|right; assumption]|].
               destruct (r_time r =? r_time w).
               + destruct Hz as [<-|Hz]; [left; reflexivity|right; right; assumption].
               + destruct Hz as [<-|Hz]; [right; left; reflexivity|]. destruct (IH z Hz); [left|right; right]; assumption. }
           destruct (Hmem y Hin) as [->|Hy'].
           ++ unfold lt_t. lia.
           ++ rewrite Forall_forall in Hf. apply Hf; assumption.
        -- constructor; [unfold lt_t; lia|constructor].
Qed.

Lemma aob_insert r l t :
  tsorted l -> bounded l (r_time r) ->
  hist_at_or_before (hist_insert r l) t = if r_time r <=? t then Some r else hist_at_or_before l t.
Proof.
  intros Hs Hb. destruct (insert_last r l Hs Hb) as (pre & Hp & Hbp & Hl & _).
  rewrite Hp, aob_app_last by assumption.
  destruct (r_time r <=? t) eqn:E; [reflexivity|]. apply Hl. lia.
Qed.

Lemma insert_sorted r l : tsorted l -> bounded l (r_time r) -> tsorted (hist_insert r l).
Proof. intros Hs Hb. destruct (insert_last r l Hs Hb) as (pre & Hp & _ & _ & H). rewrite Hp. exact H. Qed.

Lemma insert_bounded r l : tsorted l -> bounded l (r_time r) -> bounded (hist_insert r l) (r_time r).
Proof.
  intros Hs Hb. destruct (insert_last r l Hs Hb) as (pre & Hp & Hbp & _ & _). rewrite Hp.
  unfold bounded. rewrite Forall_app. split; [assumption|constructor; [lia|constructor]].
Qed.

(* ---- pruning ---- *)
Lemma split_older_spec keep l :
  let '(o, n) := split_older keep l in
  l = o ++ n /\ Forall (fun x => r_time x < keep) o /\ (match n with [] => True | y :: _ => keep <= r_time y end).
Proof.
  induction l as [|x tl IH]; cbn [split_older]; [repeat split; constructor|].
  destruct (r_time x <? keep) eqn:E.
  - destruct (split_older keep tl) as [o n]. destruct IH as (H1 & H2 & H3).
    repeat split; [cbn [app]; f_equal; assumption|constructor; [lia|assumption]|assumption].
  - repeat split; [constructor|lia].
Qed.

(* the pruned index is the old one with a middle segment of the old-records prefix removed *)
Lemma prune_pair_shape keep b l :
  exists pre dropped rest,
    l = pre ++ dropped ++ rest /\ fst (prune_pair keep b l) = pre ++ rest /\
    (0 <= b -> snd (prune_pair keep b l) = Z.of_nat (length dropped)) /\
    Forall (fun x => r_time x < keep) (pre ++ dropped) /\
    (dropped <> [] -> exists y Y, rest = y :: Y /\ r_time y < keep).
Proof.
  unfold prune_pair. pose proof (split_older_spec keep l) as Hs.
  destruct (split_older keep l) as [older newer]. destruct Hs as (Hl & Ho & Hn).
  destruct (rev older) as [|newest rest_desc] eqn:Er.
  - exists [], [], l. cbn. repeat split; [constructor|intros H; contradiction].
  - assert (older = rev rest_desc ++ [newest]) as Hold.
    { rewrite <- (rev_involutive older), Er. reflexivity. }
    set (d := Z.min (Z.of_nat (length rest_desc)) b).
    exists (rev (skipn (Z.to_nat d) rest_desc)), (rev (firstn (Z.to_nat d) rest_desc)), (newest :: newer).
    cbn [fst snd].
    assert (rev rest_desc = rev (skipn (Z.to_nat d) rest_desc) ++ rev (firstn (Z.to_nat d) rest_desc)) as Hr.
    { rewrite <- rev_app_distr, firstn_skipn. reflexivity. }
    repeat split.
    + rewrite Hl, Hold, Hr. rewrite <- !app_assoc. reflexivity.
    + intros Hb. rewrite rev_length, firstn_length. subst d. lia.
    + rewrite <- Hr. rewrite Hold in Ho. rewrite Forall_app in Ho. tauto.
    + intros _. exists newest, newer. split; [reflexivity|].
      rewrite Hold in Ho. rewrite Forall_app in Ho. destruct Ho as [_ Ho]. inversion Ho; assumption.
Qed.

Lemma prune_pair_aob keep b l t :
  tsorted l -> keep <= t -> hist_at_or_before (fst (prune_pair keep b l)) t = hist_at_or_before l t.
Proof.
  intros Hs Ht. destruct (prune_pair_shape keep b l) as (pre & dropped & rest & Hl & Hp & _ & Hf & Hd).
  rewrite Hp. destruct dropped as [|z dropped].
  - rewrite Hl. reflexivity.
  - destruct (Hd ltac:(discriminate)) as (y & Y & -> & Hy).
    rewrite Hl. rewrite app_assoc.
    rewrite Forall_app in Hf. destruct Hf as [Hf1 Hf2].
    rewrite !aob_skip_prefix; try reflexivity; try lia.
    + unfold bounded. rewrite Forall_app. split; eapply Forall_impl; try eassumption; cbn; intros; lia.
    + eapply Forall_impl; try eassumption; cbn; intros; lia.
Qed.

Lemma prune_pair_sorted keep b l : tsorted l -> tsorted (fst (prune_pair keep b l)).
Proof.
  intros Hs. destruct (prune_pair_shape keep b l) as (pre & dropped & rest & Hl & Hp & _).
  rewrite Hp. rewrite Hl in Hs. eapply ss_drop_middle; eassumption.
Qed.

Lemma prune_pair_bounded keep b l t : bounded l t -> bounded (fst (prune_pair keep b l)) t.
Proof.
  intros Hb. destruct (prune_pair_shape keep b l) as (pre & dropped & rest & Hl & Hp & _).
  rewrite Hp. rewrite Hl in Hb. unfold bounded in *. rewrite !Forall_app in *. tauto.
Qed.

(* pruning never deletes more than the budget, and never the newest stored record *)
Lemma prune_pair_count keep b l : 0 <= b -> 0 <= snd (prune_pair keep b l) <= b.
Proof.
  intros Hb. unfold prune_pair. destruct (split_older keep l) as [older newer].
  destruct (rev older); cbn [snd]; lia.
Qed.
