(* C10: integer bounds on the last steps of geometric.computeTwap: SigFigRound keeps its argument up to a relative
   5e-8 plus one unit, the 18-decimal cut loses less than one unit. *)
From Coq Require Import ZArith List Bool Lia.
Import ListNotations.
From Osmo Require Import Base.DecModel Gen.C10_consts C10.Model C10.ProofsTwap.
Open Scope Z_scope.

Lemma sig_figs_val : sig_figs = 10 ^ 8. Proof. reflexivity. Qed.
Lemma P18_val : P18 = 10 ^ 18. Proof. reflexivity. Qed.

Lemma dchk_val z z' : dchk z = Some z' -> z' = z.
Proof. unfold dchk. destruct (d_fits z); congruence. Qed.

Lemma sigfig_scale_spec fuel : forall d k dk k',
  sigfig_scale fuel d k = Some (dk, k') -> 0 < d ->
  exists j, 0 <= j /\ k' = k + j /\ dk = d * 10 ^ j /\ Z.quot P18 10 <= dk /\ (0 < j -> dk < P18).
Proof.
  induction fuel as [|f IH]; intros d k dk k' H Hd; cbn [sigfig_scale] in H.
  - destruct (d <? Z.quot P18 10) eqn:E; [discriminate|]. injection H as <- <-.
    exists 0. repeat split; try lia.
  - destruct (d <? Z.quot P18 10) eqn:E.
    + destruct (dchk (d * 10)) as [d'|] eqn:Ed; [|discriminate]. apply dchk_val in Ed. subst d'.
      destruct (IH _ _ _ _ H ltac:(lia)) as (j & Hj & -> & -> & Hlo & Hhi).
      exists (j + 1). split; [lia|]. split; [lia|]. split; [rewrite Z.pow_add_r by lia; lia|]. split; [assumption|].
      intros _. destruct (Z.eq_dec j 0) as [->|Hne]; [|apply Hhi; lia].
      change (10 ^ 0) with 1 in *. assert (Z.quot P18 10 * 10 = P18) by reflexivity. lia.
    + injection H as <- <-. exists 0. repeat split; try lia.
Qed.

Lemma d_power_ten_tab :
  forallb (fun k => d_power (10 * P18) (Z.of_nat k) =? 10 ^ Z.of_nat k * P18) (seq 0 41) = true.
Proof. vm_compute. reflexivity. Qed.
Lemma d_power_ten k : 0 <= k <= 40 -> d_power (10 * P18) k = 10 ^ k * P18.
Proof.
  intros Hk. pose proof d_power_ten_tab as H. rewrite forallb_forall in H.
  specialize (H (Z.to_nat k)). rewrite Z2Nat.id in H by lia. apply Z.eqb_eq. apply H.
  apply in_seq. lia.
Qed.

(* SigFigRound(d, 10^8) for d > 0: |v - d| <= d / (2*10^7) + 1  (raw 18-decimal units) *)
Theorem sigfig_round_close d v : sigfig_round d = Some v -> 0 < d ->
  Z.abs (v - d) * (2 * 10 ^ 7) <= d + 2 * 10 ^ 7.
Proof.
  unfold sigfig_round. intros H Hd. destruct (d =? 0) eqn:E0; [lia|].
  destruct (sigfig_scale 40 d 0) as [[dk k]|] eqn:Es; [|discriminate].
  destruct (sigfig_scale_spec _ _ _ _ _ Es Hd) as (j & Hj & -> & -> & Hlo & Hhi).
  destruct (dchk (d * 10 ^ j * sig_figs)) as [dks|] eqn:Ed; [|discriminate]. apply dchk_val in Ed. subst dks.
  destruct (negb (int_fits (chop_round P18 (d * 10 ^ j * sig_figs)))); [discriminate|].
  (* j <= 17: d >= 1 and d * 10^j < 10^18 whenever j > 0 *)
  assert (j <= 17) as Hj17.
  { destruct (Z.eq_dec j 0) as [->|Hne]; [lia|]. specialize (Hhi ltac:(lia)).
    destruct (Z_le_gt_dec j 17) as [|Hgt]; [assumption|]. exfalso.
    assert (10 ^ 18 <= 10 ^ j) by (apply Z.pow_le_mono_r; lia). rewrite P18_val in Hhi. nia. }
  rewrite d_power_ten in H by lia.
  replace (Z.quot (10 ^ (0 + j) * P18) P18) with (10 ^ j) in H
    by (rewrite Z.add_0_l, Z.quot_mul by (rewrite P18_val; lia); reflexivity).
  destruct (negb (int_fits (10 ^ j))); [discriminate|].
  destruct (negb (int_fits (sig_figs * 10 ^ j))); [discriminate|].
  destruct (sig_figs * 10 ^ j =? 0) eqn:Ez; [discriminate|]. injection H as <-.
  assert (0 < 10 ^ j) as Hpj by (apply Z.pow_pos_nonneg; lia).
  set (T := 10 ^ j) in *. set (D := sig_figs * T) in *.
  assert (0 < D) as HD by (subst D; rewrite sig_figs_val; lia).
  assert (0 <= d * T * sig_figs) as Hnn by (rewrite sig_figs_val; nia).
  set (n := chop_round P18 (d * T * sig_figs)) in *.
  assert (Z.abs (n * P18 - d * T * sig_figs) * 2 <= P18) as Hr.
  { subst n. unfold chop_round. destruct (d * T * sig_figs <? 0) eqn:En; [lia|].
    apply chop_half; [reflexivity|assumption|reflexivity]. }
  assert (0 <= n) as Hn0.
  { subst n. unfold chop_round. destruct (d * T * sig_figs <? 0) eqn:En; [lia|].
    unfold chop_round_nonneg. assert (0 <= Z.quot (d * T * sig_figs) P18) by (apply Z.quot_pos; [lia|rewrite P18_val; lia]).
    destruct (Z.rem (d * T * sig_figs) P18 =? 0); [assumption|].
    destruct (Z.rem (d * T * sig_figs) P18 ?= Z.quot P18 2); [destruct (Z.even _)| |]; lia. }
  assert (0 <= n * P18) as Hnp by (rewrite P18_val; lia).
  set (v := Z.quot (n * P18) D).
  assert (v * D <= n * P18 < v * D + D) as Hv.
  { subst v. rewrite Z.quot_div_nonneg by lia. pose proof (Z.mul_div_le (n * P18) D HD). pose proof (Z.mul_succ_div_gt (n * P18) D HD). lia. }
  (* d * D = d * T * sig_figs *)
  assert (d * D = d * T * sig_figs) as HdD by (subst D; ring).
  assert (Z.quot P18 10 = 10 ^ 17) as Hq by reflexivity. rewrite Hq in Hlo.
  (* |v - d| * D <= D + P18 / 2 and P18 * 10^7 <= D * d *)
  assert (Z.abs (v - d) * D * 2 <= 2 * D + P18) as Hmain by (rewrite <- HdD in Hr; nia).
  assert (P18 * 10 ^ 7 <= D * d) as Hbig by (subst D; rewrite sig_figs_val, P18_val in *; nia).
  enough (Z.abs (v - d) * (2 * 10000000) <= d + 2 * 10000000) as Hfin by exact Hfin.
  change (10 ^ 7) with 10000000 in Hbig.
  remember (Z.abs (v - d)) as a eqn:Ha. clear Ha.
  remember (a * (2 * 10000000) - 2 * 10000000 - d) as X eqn:HX.
  assert (D * X <= 0) as HDX by (subst X; lia).
  destruct (Z_le_gt_dec X 0) as [HX0|HX0]; [lia|].
  exfalso. assert (0 < D * X) by (apply Z.mul_pos_pos; lia). lia.
Qed.

(* BigDec -> Dec cut *)
Lemma bd_to_dec_close x : 0 <= x -> bd_to_dec x * P18 <= x < bd_to_dec x * P18 + P18.
Proof.
  intros Hx. unfold bd_to_dec. rewrite Z.quot_div_nonneg by (rewrite ?P18_val; lia).
  pose proof (Z.mul_div_le x P18 ltac:(rewrite P18_val; lia)). pose proof (Z.mul_succ_div_gt x P18 ltac:(rewrite P18_val; lia)). lia.
Qed.
