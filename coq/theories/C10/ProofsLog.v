(* C10: the evaluation shortcuts of LogExp.v compute exactly the faithful functions. *)
From Coq Require Import ZArith List Bool Lia.
Import ListNotations.
From Osmo Require Import Base.DecModel Gen.C10_consts C10.LogExp.
Open Scope Z_scope.

Lemma two_bd_val : two_bd = 2 * P36.
Proof. vm_compute. reflexivity. Qed.
Lemma P36_val : P36 = 1000000000000000000000000000000000000.
Proof. vm_compute. reflexivity. Qed.

(* bankers rounding of a non-negative quotient lies between floor and floor + 1 *)
Lemma chop_round_bounds d : 0 <= d -> Z.quot d P36 <= chop_round P36 d <= Z.quot d P36 + 1.
Proof.
  intros Hd. unfold chop_round. destruct (d <? 0) eqn:E; [lia|].
  unfold chop_round_nonneg. destruct (Z.rem d P36 =? 0); [lia|].
  destruct (Z.rem d P36 ?= Z.quot P36 2); [destruct (Z.even (Z.quot d P36))| |]; lia.
Qed.

Definition in_range (x : Z) : Prop := P36 <= x < two_bd.

Lemma square_range x : in_range x ->
  let x2 := bd_mul x x in
  bdchk x2 = Some x2 /\ P36 <= x2 <= 4 * P36 - 3.
Proof.
  unfold in_range. rewrite two_bd_val. intros [H1 H2]. cbv zeta.
  assert (0 <= x * x) as Hsq by nia.
  pose proof (chop_round_bounds (x * x) Hsq) as [B1 B2].
  assert (P36 <= Z.quot (x * x) P36) as Q1.
  { rewrite Z.quot_div_nonneg by (rewrite ?P36_val; lia). apply Z.div_le_lower_bound; [rewrite P36_val; lia|nia]. }
  assert (Z.quot (x * x) P36 <= 4 * P36 - 4) as Q2.
  { rewrite Z.quot_div_nonneg by (rewrite ?P36_val; lia).
    assert (x * x < (4 * P36 - 3) * P36) as Hlt by (rewrite P36_val in *; nia).
    assert (x * x / P36 < 4 * P36 - 3); [|lia]. apply Z.div_lt_upper_bound; [rewrite P36_val; lia|lia]. }
  unfold bd_mul. split; [|lia].
  unfold bdchk, bd_fits, bitlen, max_dec_bit_len.
  set (v := chop_round P36 (x * x)) in *.
  destruct (v =? 0) eqn:Ez; [reflexivity|].
  assert (Z.log2 (Z.abs v) < 1144) as Hl.
  { apply Z.log2_lt_pow2; [rewrite P36_val in *; lia|].
    rewrite Z.abs_eq by (rewrite P36_val in *; lia).
    eapply Z.le_lt_trans with (m := 4 * P36); [lia|]. rewrite P36_val. vm_compute. reflexivity. }
  destruct (Z.log2 (Z.abs v) + 1 <=? 1144) eqn:El; [reflexivity|lia].
Qed.

Lemma shiftr1 x : Z.shiftr x 1 = x / 2.
Proof. rewrite Z.shiftr_div_pow2 by lia. reflexivity. Qed.

Lemma step_range x : in_range x ->
  let x2 := bd_mul x x in
  in_range (if x2 >=? two_bd then Z.shiftr x2 1 else x2).
Proof.
  intros Hx. destruct (square_range x Hx) as [_ [H1 H2]]. cbv zeta.
  unfold in_range in *. rewrite two_bd_val in *.
  destruct (bd_mul x x >=? 2 * P36) eqn:E.
  - rewrite shiftr1. rewrite P36_val in *. split.
    + apply Z.div_le_lower_bound; lia.
    + apply Z.div_lt_upper_bound; lia.
  - lia.
Qed.

(* with b = 0 the loop returns y unchanged *)
Lemma log2_loop_b0 n : forall x y, in_range x -> log2_loop n x y 0 = Some y.
Proof.
  induction n as [|n IH]; intros x y Hx; cbn [log2_loop]; [reflexivity|].
  destruct (square_range x Hx) as [Hc _]. cbv zeta in Hc. rewrite Hc.
  pose proof (step_range x Hx) as Hs. cbv zeta in Hs.
  change (Z.shiftr 0 1) with 0.
  destruct (bd_mul x x >=? two_bd); rewrite IH by assumption; f_equal; lia.
Qed.

Lemma log2_loop_fast_eq n : forall x y b, in_range x -> log2_loop_fast n x y b = log2_loop n x y b.
Proof.
  induction n as [|n IH]; intros x y b Hx; [reflexivity|].
  cbn [log2_loop_fast]. destruct (b =? 0) eqn:Eb.
  - apply Z.eqb_eq in Eb. subst b. symmetry. apply log2_loop_b0; assumption.
  - cbn [log2_loop]. destruct (square_range x Hx) as [Hc _]. cbv zeta in Hc. rewrite Hc.
    pose proof (step_range x Hx) as Hs. cbv zeta in Hs.
    destruct (bd_mul x x >=? two_bd); apply IH; assumption.
Qed.

Lemma norm_up_ge fuel : forall x y x' y', log2_norm_up fuel x y = Some (x', y') -> P36 <= x'.
Proof.
  induction fuel as [|f IH]; intros x y x' y' H; cbn [log2_norm_up] in H.
  - destruct (x <? P36) eqn:E; [discriminate|]. injection H as <- <-. lia.
  - destruct (x <? P36) eqn:E; [eapply IH; eassumption|]. injection H as <- <-. lia.
Qed.

Lemma norm_down_range fuel : forall x y x' y', P36 <= x -> log2_norm_down fuel x y = Some (x', y') -> in_range x'.
Proof.
  induction fuel as [|f IH]; intros x y x' y' Hx H; cbn [log2_norm_down] in H.
  - destruct (x >=? two_bd) eqn:E; [discriminate|]. injection H as <- <-. unfold in_range. lia.
  - destruct (x >=? two_bd) eqn:E.
    + eapply IH; [|eassumption]. rewrite shiftr1. rewrite two_bd_val in E.
      apply Z.div_le_lower_bound; lia.
    + injection H as <- <-. unfold in_range. lia.
Qed.

Theorem log_base2_fast_eq x : log_base2_fast x = log_base2 x.
Proof.
  unfold log_base2_fast, log_base2. destruct (x <=? 0); [reflexivity|].
  destruct (log2_norm_up 200 x 0) as [[x1 y1]|] eqn:E1; [|reflexivity].
  destruct (log2_norm_down 1200 x1 y1) as [[x2 y2]|] eqn:E2; [|reflexivity].
  apply log2_loop_fast_eq. eapply norm_down_range; [|eassumption]. eapply norm_up_ge; eassumption.
Qed.

Theorem twap_log_fast_eq p : twap_log_fast p = twap_log p.
Proof. unfold twap_log_fast, twap_log. rewrite log_base2_fast_eq. reflexivity. Qed.

(* the table built by [build_tab] answers exactly like the function *)
Lemma tab_find_build ps p v : tab_find (build_tab ps) p = Some v -> v = twap_log_fast p.
Proof.
  induction ps as [|q ps IH]; cbn [build_tab map tab_find]; [discriminate|].
  destruct (q =? p) eqn:E; [|exact IH]. apply Z.eqb_eq in E. subst q. intros H. injection H as <-. reflexivity.
Qed.

Theorem lg_cached_correct ps p : lg_cached (build_tab ps) p = twap_log p.
Proof.
  unfold lg_cached. destruct (tab_find (build_tab ps) p) as [v|] eqn:E.
  - rewrite (tab_find_build _ _ _ E). apply twap_log_fast_eq.
  - apply twap_log_fast_eq.
Qed.
