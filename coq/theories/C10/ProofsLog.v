(* C10: the evaluation shortcuts of LogExp.v compute exactly the faithful functions. *)
From Coq Require Import ZArith List Bool Lia.
Import ListNotations.
From Osmo Require Import Base.DecModel Gen.C10_consts C10.LogExp.
Open Scope Z_scope.

Lemma two_bd_val : two_bd = 2 * P36.
Proof. vm_compute. reflexivity. Qed.
Lemma P36_val : P36 = 1000000000000000000000000000000000000.
Proof. vm_compute. reflexivity. Qed.

(* bankers rounding of a non-negative quotient lies between floor and floor + 1 *)
Lemma chop_round_bounds d : 0 <= d -> Z.quot d P36 <= chop_round P36 d <= Z.quot d P36 + 1.
Proof.
  intros Hd. unfold chop_round. destruct (d <? 0) eqn:E; [lia|].
  unfold chop_round_nonneg. destruct (Z.rem d P36 =? 0); [lia|].
  destruct (Z.rem d P36 ?= Z.quot P36 2); [destruct (Z.even (Z.quot d P36))| |]; lia.
Qed.

Definition in_range (x : Z) : Prop := P36 <= x < two_bd.

Lemma square_range x : in_range x ->
  let x2 := bd_mul x x in
  bdchk x2 = Some x2 /\ P36 <= x2 <= 4 * P36 - 3.
Proof.
  unfold in_range. rewrite two_bd_val. intros [H1 H2]. cbv zeta.
  assert (0 <= x * x) as Hsq by nia.
  pose proof (chop_round_bounds (x * x) Hsq) as [B1 B2].
  assert (P36 <= Z.quot (x * x) P36) as Q1.
  { rewrite Z.quot_div_nonneg by (rewrite ?P36_val; lia). apply Z.div_le_lower_bound; [rewrite P36_val; lia|nia]. }
  assert (Z.quot (x * x) P36 <= 4 * P36 - 4) as Q2.
  { rewrite Z.quot_div_nonneg by (rewrite ?P36_val; lia).
    assert (x * x < (4 * P36 - 3) * P36) as Hlt by (rewrite P36_val in *; nia).
    assert (x * x / P36 < 4 * P36 - 3); [|lia]. apply Z.div_lt_upper_bound; [rewrite P36_val; lia|lia]. }
  unfold bd_mul. split; [|lia].
  unfold bdchk, bd_fits, bitlen, max_dec_bit_len.
  set (v := chop_round P36 (x * x)) in *.
  destruct (v =? 0) eqn:Ez; [reflexivity|].
  assert (Z.log2 (Z.abs v) < 1144) as Hl.
  { apply Z.log2_lt_pow2; [rewrite P36_val in *; lia|].
    rewrite Z.abs_eq by (rewrite P36_val in *; lia).
    eapply Z.le_lt_trans with (m := 4 * P36); [lia|]. rewrite P36_val. vm_compute. reflexivity. }
  destruct (Z.log2 (Z.abs v) + 1 <=? 1144) eqn:El; [reflexivity|lia].
Qed.

Lemma shiftr1 x : Z.shiftr x 1 = x / 2.
Proof. rewrite Z.shiftr_div_pow2 by lia. reflexivity. Qed.

Lemma step_range x : in_range x ->
  let x2 := bd_mul x x in
  in_range (if x2 >=? two_bd then Z.shiftr x2 1 else x2).
Proof.
  intros Hx. destruct (square_range x Hx) as [_ [H1 H2]]. cbv zeta.
  unfold in_range in *. rewrite two_bd_val in *.
  destruct (bd_mul x x >=? 2 * P36) eqn:E.
  - rewrite shiftr1. rewrite P36_val in *. split.
    + apply Z.div_le_lower_bound; lia.
    + apply Z.div_lt_upper_bound; lia.
  - lia.
Qed.

(* with b = 0 the loop returns y unchanged *)
Lemma log2_loop_b0 n : forall x y, in_range x -> log2_loop n x y 0 = Some y.
Proof.
  induction n as [|n IH]; intros x y Hx; cbn [log2_loop]; [reflexivity|].
  destruct (square_range x Hx) as [Hc _]. cbv zeta in Hc. rewrite Hc.
  pose proof (step_range x Hx) as Hs. cbv zeta in Hs.
  change (Z.shiftr 0 1) with 0.
  destruct (bd_mul x x >=? two_bd); rewrite IH by assumption; f_equal; lia.
Qed.

Lemma log2_loop_fast_eq n : forall x y b, in_range x -> log2_loop_fast n x y b = log2_loop n x y b.
Proof.
  induction n as [|n IH]; intros x y b Hx; [reflexivity|].
  cbn [log2_loop_fast]. destruct (b =? 0) eqn:Eb.
  - apply Z.eqb_eq in Eb. subst b. symmetry. apply log2_loop_b0; assumption.
  - cbn [log2_loop]. destruct (square_range x Hx) as [Hc _]. cbv zeta in Hc. rewrite Hc.
    pose proof (step_range x Hx) as Hs. cbv zeta in Hs.
    destruct (bd_mul x x >=? two_bd); apply IH; assumption.
Qed.

Lemma norm_up_ge fuel : forall x y x' y', log2_norm_up fuel x y = Some (x', y') -> P36 <= x'.
Proof.
  induction fuel as [|f IH]; intros x y x' y' H; cbn [log2_norm_up] in H.
  - destruct (x <? P36) eqn:E; [discriminate|]. injection H as <- <-. lia.
  - destruct (x <? P36) eqn:E; [eapply IH; eassumption|]. injection H as <- <-. lia.
Qed.

Lemma norm_down_range fuel : forall x y x' y', P36 <= x -> log2_norm_down fuel x y = Some (x', y') -> in_range x'.
Proof.
  induction fuel as [|f IH]; intros x y x' y' Hx H; cbn [log2_norm_down] in H.
  - destruct (x >=? two_bd) eqn:E; [discriminate|]. injection H as <- <-. unfold in_range. lia.
  - destruct (x >=? two_bd) eqn:E.
    + eapply IH; [|eassumption]. rewrite shiftr1. rewrite two_bd_val in E.
      apply Z.div_le_lower_bound; lia.
    + injection H as <- <-. unfold in_range. lia.
Qed.

Theorem log_base2_fast_eq x : log_base2_fast x = log_base2 x.
Proof.
  unfold log_base2_fast, log_base2. destruct (x <=? 0); [reflexivity|].
  destruct (log2_norm_up 200 x 0) as [[x1 y1]|] eqn:E1; [|reflexivity].
  destruct (log2_norm_down 1200 x1 y1) as [[x2 y2]|] eqn:E2; [|reflexivity].
  apply log2_loop_fast_eq. eapply norm_down_range; [|eassumption]. eapply norm_up_ge; eassumption.
Qed.

Theorem twap_log_fast_eq p : twap_log_fast p = twap_log p.
Proof. unfold twap_log_fast, twap_log. rewrite log_base2_fast_eq. reflexivity. Qed.

(* the table built by [build_tab] answers exactly like the function *)
Lemma tab_find_build ps p v : tab_find (build_tab ps) p = Some v -> v = twap_log_fast p.
Proof.
  induction ps as [|q ps IH]; cbn [build_tab map tab_find]; [discriminate|].
  destruct (q =? p) eqn:E; [|exact IH]. apply Z.eqb_eq in E. subst q. intros H. injection H as <-. reflexivity.
Qed.

Theorem lg_cached_correct ps p : lg_cached (build_tab ps) p = twap_log p.
Proof.
  unfold lg_cached. destruct (tab_find (build_tab ps) p) as [v|] eqn:E.
  - rewrite (tab_find_build _ _ _ E). apply twap_log_fast_eq.
  - apply twap_log_fast_eq.
Qed.

(* ---- twap_log is defined and small on every positive price up to 2^130 (so on every recordable price) ---- *)
Lemma norm_up_total fuel : forall x y, 0 < x -> P36 <= x * 2 ^ Z.of_nat fuel ->
  exists x' y', log2_norm_up fuel x y = Some (x', y') /\ P36 <= x' /\ y - Z.of_nat fuel * P36 <= y' <= y /\
                (x < P36 -> x' < 2 * P36) /\ (P36 <= x -> x' = x).
Proof.
  induction fuel as [|f IH]; intros x y Hx Hp.
  - cbn [log2_norm_up]. change (2 ^ Z.of_nat 0) with 1 in Hp. rewrite Z.mul_1_r in Hp.
    destruct (x <? P36) eqn:E; [lia|]. exists x, y. repeat split; lia.
  - cbn [log2_norm_up]. destruct (x <? P36) eqn:E.
    + rewrite Z.shiftl_mul_pow2 by lia. change (2 ^ 1) with 2.
      destruct (IH (x * 2) (y - P36) ltac:(lia)) as (x' & y' & H1 & H2 & H3 & H4 & H5).
      { rewrite Nat2Z.inj_succ, Z.pow_succ_r in Hp by lia. lia. }
      exists x', y'. split; [assumption|]. split; [assumption|]. split; [rewrite Nat2Z.inj_succ; lia|].
      split; [|lia]. intros _. destruct (Z_lt_ge_dec (x * 2) P36) as [Hlt|Hge]; [auto|]. rewrite (H5 ltac:(lia)). lia.
    + exists x, y. assert (0 < P36) by reflexivity. repeat split; try lia; nia.
Qed.

Lemma norm_down_total fuel : forall x y, P36 <= x -> x < 2 ^ Z.of_nat fuel * two_bd ->
  exists x' y', log2_norm_down fuel x y = Some (x', y') /\ in_range x' /\ y <= y' <= y + Z.of_nat fuel * P36.
Proof.
  induction fuel as [|f IH]; intros x y Hx Hp.
  - cbn [log2_norm_down]. change (2 ^ Z.of_nat 0) with 1 in Hp. rewrite Z.mul_1_l in Hp.
    destruct (x >=? two_bd) eqn:E; [lia|]. exists x, y. unfold in_range. repeat split; lia.
  - cbn [log2_norm_down]. destruct (x >=? two_bd) eqn:E.
    + rewrite shiftr1. rewrite two_bd_val in *.
      destruct (IH (x / 2) (y + P36)) as (x' & y' & H1 & H2 & H3).
      { apply Z.div_le_lower_bound; lia. }
      { rewrite Nat2Z.inj_succ, Z.pow_succ_r in Hp by lia. apply Z.div_lt_upper_bound; lia. }
      exists x', y'. split; [assumption|]. split; [assumption|]. rewrite Nat2Z.inj_succ. assert (0 < P36) by reflexivity. nia.
    + exists x, y. unfold in_range. assert (0 < P36) by reflexivity. repeat split; try lia; nia.
Qed.

Lemma log2_loop_total n : forall x y b, in_range x -> 0 <= b ->
  exists y', log2_loop n x y b = Some y' /\ y <= y' <= y + 2 * b.
Proof.
  induction n as [|n IH]; intros x y b Hx Hb; cbn [log2_loop]; [exists y; split; [reflexivity|lia]|].
  destruct (square_range x Hx) as [Hc _]. cbv zeta in Hc. rewrite Hc.
  pose proof (step_range x Hx) as Hs. cbv zeta in Hs.
  assert (0 <= Z.shiftr b 1 /\ 2 * Z.shiftr b 1 <= b) as [Hb1 Hb2].
  { rewrite shiftr1. split; [apply Z.div_pos; lia|]. pose proof (Z.mul_div_le b 2 ltac:(lia)). lia. }
  destruct (bd_mul x x >=? two_bd).
  - destruct (IH _ (y + b) (Z.shiftr b 1) Hs Hb1) as (y' & H1 & H2). exists y'. split; [assumption|lia].
  - destruct (IH _ y (Z.shiftr b 1) Hs Hb1) as (y' & H1 & H2). exists y'. split; [assumption|lia].
Qed.

Lemma one_half_val : one_half_bd = 500000000000000000000000000000000000.
Proof. vm_compute. reflexivity. Qed.

Theorem twap_log_total p : 0 < p <= 2 ^ 130 * P18 ->
  exists l, twap_log p = Some l /\ - (200 * P18) <= l <= 1300 * P18.
Proof.
  intros [Hp1 Hp2]. unfold twap_log. destruct (p =? 0) eqn:E; [lia|].
  unfold log_base2, bd_from_dec. assert (P18 = 10 ^ 18) as H18 by reflexivity. assert (P36 = P18 * P18) as H36 by reflexivity.
  assert (0 < P18) by (rewrite H18; lia).
  destruct (p * P18 <=? 0) eqn:E0; [nia|].
  destruct (norm_up_total 200 (p * P18) 0 ltac:(nia)) as (x1 & y1 & N1 & N2 & N3 & N4 & N5).
  { assert (P18 <= 2 ^ Z.of_nat 200) by (rewrite H18; vm_compute; discriminate). nia. }
  rewrite N1.
  destruct (norm_down_total 1200 x1 y1 N2) as (x2 & y2 & D1 & D2 & D3).
  { destruct (Z_lt_ge_dec (p * P18) P36) as [Hlt|Hge].
    - specialize (N4 Hlt). rewrite two_bd_val. assert (1 <= 2 ^ Z.of_nat 1200) by (vm_compute; discriminate). nia.
    - rewrite (N5 ltac:(lia)). rewrite two_bd_val.
      assert (2 ^ 130 * P18 * P18 < 2 ^ Z.of_nat 1200 * (2 * P36)) by (rewrite H36, H18; vm_compute; reflexivity). nia. }
  rewrite D1.
  destruct (log2_loop_total log2_iterations x2 y2 one_half_bd D2 ltac:(rewrite one_half_val; lia)) as (y' & L1 & L2).
  rewrite L1. exists (bd_to_dec y'). split; [reflexivity|].
  rewrite one_half_val in L2. unfold bd_to_dec.
  assert (- (200 * P36) <= y' <= 1201 * P36 + P36) as Hy.
  { change (Z.of_nat 200) with 200 in N3. change (Z.of_nat 1200) with 1200 in D3. rewrite H36, H18 in *. lia. }
  split.
  - assert (- (200 * P18) <= Z.quot y' P18); [|lia]. apply Z.quot_le_lower_bound; [lia|]. rewrite H36 in Hy. lia.
  - assert (Z.quot y' P18 <= 1300 * P18); [|lia]. apply Z.quot_le_upper_bound; [lia|]. rewrite H36 in Hy. nia.
Qed.
