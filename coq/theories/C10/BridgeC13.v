(* C10 <-> C13: the copy of osmomath.Exp2 used by the C10 model (C10/LogExp.v exp2, option-valued) returns exactly what
   C13's model of the same code (C13/Exp2.v, result-valued) returns, so C13's error theorem
   |Exp2 e - 2^e| <= 10^-19 * 2^e applies to it.  Both read their coefficients from the generated constants of the same
   Go literals (Gen/C10_consts.v, Gen/C13_consts.v); their equality is checked here by computation. *)
From Coq Require Import ZArith List Bool Reals Lra Lia.
Import ListNotations.
From Osmo Require Import Base.DecModel Gen.C10_consts Gen.C13_consts C10.LogExp C10.GeomReal.
From Osmo Require C13.Common C13.Exp2 C13.Exp2Real C13.Exp2Proofs.
Open Scope Z_scope.

Lemma coeffs_agree : exp2_num = exp2_num_coeffs /\ exp2_den = exp2_den_coeffs /\ two_bd = two_bigdec.
Proof. repeat split; reflexivity. Qed.

Lemma bdchk_check z z' : bdchk z = Some z' -> C13.Common.bd_check z = C13.Common.Ok z'.
Proof. unfold bdchk, C13.Common.bd_check. destruct (bd_fits z); [intros H; injection H as <-; reflexivity|discriminate]. Qed.

Lemma loop_agree cs : forall x xe h p h' p',
  exp2_loop cs x xe h p = Some (h', p') -> C13.Exp2.exp2_loop cs x xe h p = C13.Common.Ok (h', p').
Proof.
  induction cs as [|[a b] cs IH]; intros x xe h p h' p' H; cbn [exp2_loop C13.Exp2.exp2_loop] in *.
  - injection H as <- <-. reflexivity.
  - unfold C13.Common.bdc_mul, C13.Common.bdc_add.
    destruct (bdchk (bd_mul xe x)) as [xe'|] eqn:E1; [|discriminate]. rewrite (bdchk_check _ _ E1). cbn [C13.Common.bind].
    destruct (bdchk (bd_mul a xe')) as [ta|] eqn:E2; [|discriminate]. rewrite (bdchk_check _ _ E2). cbn [C13.Common.bind].
    destruct (bdchk (h + ta)) as [h1|] eqn:E3; [|discriminate]. rewrite (bdchk_check _ _ E3). cbn [C13.Common.bind].
    destruct (bdchk (bd_mul b xe')) as [tb|] eqn:E4; [|discriminate]. rewrite (bdchk_check _ _ E4). cbn [C13.Common.bind].
    destruct (bdchk (p + tb)) as [p1|] eqn:E5; [|discriminate]. rewrite (bdchk_check _ _ E5). cbn [C13.Common.bind].
    apply IH. assumption.
Qed.

Lemma approx_agree x r : exp2_approx x = Some r -> C13.Exp2.exp2_rational_approx x = C13.Common.Ok r.
Proof.
  unfold exp2_approx, C13.Exp2.exp2_rational_approx, C13.Exp2.exp2_rational_approx_with.
  destruct coeffs_agree as (<- & <- & <-).
  destruct ((x <? 0) || (x >? P36))%Z; [discriminate|].
  destruct (x =? 0)%Z; [intros H; injection H as <-; reflexivity|].
  destruct (x =? P36)%Z; [intros H; injection H as <-; reflexivity|].
  destruct exp2_num as [|h0 nums]; [discriminate|]. destruct exp2_den as [|p0 dens]; [discriminate|].
  destruct (exp2_loop (combine nums dens) x P36 h0 p0) as [[h p]|] eqn:El; [|discriminate].
  rewrite (loop_agree _ _ _ _ _ _ _ El). cbn [C13.Common.bind].
  unfold C13.Common.bdc_quo. destruct (p =? 0)%Z; [discriminate|]. apply bdchk_check.
Qed.

Lemma exp2_agree e r : exp2 e = Some r -> C13.Exp2.exp2 e = C13.Common.Ok r.
Proof.
  unfold exp2, C13.Exp2.exp2. destruct (e <? 0)%Z eqn:E0; [discriminate|].
  rewrite C13.Exp2Proofs.max_supported_exponent_val. cbn [C13.Common.bind].
  change (exp2_max_exponent * P36)%Z with (512 * P36)%Z.
  destruct (Z.abs e >? 512 * P36)%Z eqn:E1; [discriminate|].
  destruct (exp2_approx (e - bd_truncate_dec e)) as [fr|] eqn:Ea; [|discriminate].
  intros H. injection H as <-.
  unfold C13.Common.bdc_sub.
  assert (C13.Common.bd_check (e - bd_truncate_dec e) = C13.Common.Ok (e - bd_truncate_dec e)) as Hc.
  { (* the fractional part lies in [0, 10^36]: exp2_approx rejects everything else *)
    unfold exp2_approx in Ea. destruct ((e - bd_truncate_dec e <? 0) || (e - bd_truncate_dec e >? P36))%Z eqn:Er; [discriminate|].
    apply orb_false_iff in Er. destruct Er as [Er1 Er2].
    unfold C13.Common.bd_check, bd_fits, bitlen, max_dec_bit_len.
    set (f := (e - bd_truncate_dec e)%Z) in *. destruct (f =? 0)%Z eqn:Ef; [reflexivity|].
    assert (0 < f <= P36)%Z as Hf by lia.
    assert (Z.log2 (Z.abs f) < 1144)%Z as Hl.
    { apply Z.log2_lt_pow2; [lia|]. rewrite Z.abs_eq by lia. eapply Z.le_lt_trans; [apply Hf|]. vm_compute. reflexivity. }
    destruct (Z.log2 (Z.abs f) + 1 <=? 1144)%Z eqn:El; [reflexivity|lia]. }
  rewrite Hc. cbn [C13.Common.bind]. rewrite (approx_agree _ _ Ea). cbn [C13.Common.bind]. reflexivity.
Qed.

Open Scope R_scope.

Lemma bdR_bR z : C13.Exp2Real.bdR z = bR z.
Proof. unfold C13.Exp2Real.bdR, C13.Exp2Real.u36, bR. rewrite (pow_IZR 10 36). reflexivity. Qed.

(* the accuracy hypothesis of C10_geom_value_partial holds for the C10 model's Exp2 with eta = 10^-19 *)
Theorem exp2_accurate : forall e E, exp2 e = Some E -> (0 <= e)%Z ->
  Rabs (bR E - Rpower 2 (bR e)) <= 1 / 10 ^ 19 * Rpower 2 (bR e).
Proof.
  intros e E H _. destruct (C13.Exp2Proofs.exp2_bound e E (exp2_agree _ _ H)) as [_ Hb].
  rewrite !bdR_bR in Hb. exact Hb.
Qed.

Lemma eta_ok : 0 <= 1 / 10 ^ 19 <= 1 / 10 ^ 18.
Proof.
  split; [apply Rlt_le, Rdiv_lt_0_compat; [lra|apply pow_lt; lra]|].
  unfold Rdiv. rewrite !Rmult_1_l. apply Rinv_le_contravar; [apply pow_lt; lra|apply Rle_pow; [lra|lia]].
Qed.

(* ---- LogBase2 / twapLog ---- *)
From Osmo Require C13.Log2 C13.Log2Proofs C13.Log2Total.
From Osmo Require Import C10.ProofsLog C10.ProofsAnswer.
Open Scope Z_scope.

(* the two models of the three LogBase2 loops agree whenever both return (whatever their fuels) *)
Lemma norm_up_agree f1 : forall f2 x y r1 r2,
  log2_norm_up f1 x y = Some r1 -> C13.Log2.log2_norm_up f2 x y = C13.Common.Ok r2 -> r1 = r2.
Proof.
  induction f1 as [|f1 IH]; intros f2 x y r1 r2 H1 H2; destruct f2 as [|f2];
    cbn [log2_norm_up C13.Log2.log2_norm_up] in *; destruct (x <? P36) eqn:E; try discriminate; try congruence.
  unfold C13.Common.bdc_add, C13.Common.bd_check in H2. destruct (bd_fits (y + - P36)); cbn [C13.Common.bind] in H2; [|discriminate].
  replace (y + - P36) with (y - P36) in H2 by lia. eapply IH; eassumption.
Qed.

Lemma two_same : two_bigdec = two_bd. Proof. reflexivity. Qed.

Lemma norm_down_agree f1 : forall f2 x y r1 r2,
  log2_norm_down f1 x y = Some r1 -> C13.Log2.log2_norm_down f2 x y = C13.Common.Ok r2 -> r1 = r2.
Proof.
  induction f1 as [|f1 IH]; intros f2 x y r1 r2 H1 H2; destruct f2 as [|f2];
    cbn [log2_norm_down C13.Log2.log2_norm_down] in *; rewrite two_same in H2;
    destruct (x >=? two_bd) eqn:E; try discriminate; try congruence.
  unfold C13.Common.bdc_add, C13.Common.bd_check in H2. destruct (bd_fits (y + P36)); cbn [C13.Common.bind] in H2; [|discriminate].
  eapply IH; eassumption.
Qed.

Lemma loop_log_agree n : forall x y b r1 r2,
  log2_loop n x y b = Some r1 -> C13.Log2.log2_iter n x y b = C13.Common.Ok r2 -> r1 = r2.
Proof.
  induction n as [|n IH]; intros x y b r1 r2 H1 H2; cbn [log2_loop C13.Log2.log2_iter] in *; [congruence|].
  unfold C13.Common.bdc_mul, C13.Common.bd_check in H2. unfold bdchk in H1.
  destruct (bd_fits (bd_mul x x)); cbn [C13.Common.bind] in H2; [|discriminate].
  rewrite two_same in H2. destruct (bd_mul x x >=? two_bd).
  - unfold C13.Common.bdc_add, C13.Common.bd_check in H2. destruct (bd_fits (y + b)); cbn [C13.Common.bind] in H2; [|discriminate].
    eapply IH; eassumption.
  - eapply IH; eassumption.
Qed.

Lemma log_iterations_agree : log2_iterations = max_log2_iterations. Proof. reflexivity. Qed.

(* the straight-line part of LogBase2 with the fuels as parameters (so that no proof step has to unfold a loop 1200 deep) *)
Definition my_core (fu fd n : nat) (b x : Z) : option Z :=
  match log2_norm_up fu x 0 with
  | None => None
  | Some (x1, y1) => match log2_norm_down fd x1 y1 with None => None | Some (x2, y2) => log2_loop n x2 y2 b end
  end.
Definition their_core (fu : nat) (fd : Z -> nat) (n : nat) (b : C13.Common.result Z) (x : Z) : C13.Common.result Z :=
  C13.Common.bind (C13.Log2.log2_norm_up fu x 0) (fun p1 => let '(x1, y1) := p1 in
  C13.Common.bind (C13.Log2.log2_norm_down (fd x1) x1 y1) (fun p2 => let '(x2, y2) := p2 in
  C13.Common.bind b (fun b' => C13.Log2.log2_iter n x2 y2 b'))).

Lemma core_agree fu1 fd1 fu2 fd2 n b x r r' :
  my_core fu1 fd1 n b x = Some r -> their_core fu2 fd2 n (C13.Common.Ok b) x = C13.Common.Ok r' -> r = r'.
Proof.
  unfold my_core, their_core. intros H1 H2.
  destruct (log2_norm_up fu1 x 0) as [[x1 y1]|] eqn:U1; [|discriminate].
  destruct (C13.Log2.log2_norm_up fu2 x 0) as [[x1' y1']|] eqn:U2; cbn [C13.Common.bind] in H2; [|discriminate].
  pose proof (norm_up_agree _ _ _ _ _ _ U1 U2) as E1. injection E1 as <- <-.
  destruct (log2_norm_down fd1 x1 y1) as [[x2 y2]|] eqn:D1; [|discriminate].
  destruct (C13.Log2.log2_norm_down (fd2 x1) x1 y1) as [[x2' y2']|] eqn:D2; cbn [C13.Common.bind] in H2; [|discriminate].
  pose proof (norm_down_agree _ _ _ _ _ _ D1 D2) as E2. injection E2 as <- <-.
  eapply loop_log_agree; eassumption.
Qed.

Lemma my_core_eq x : 0 < x -> log_base2 x = my_core 200 1200 log2_iterations one_half_bd x.
Proof. intros Hx. unfold log_base2, my_core. destruct (x <=? 0) eqn:E; [lia|reflexivity]. Qed.

Lemma one_half_same : C13.Log2.one_half_bigdec = C13.Common.Ok one_half_bd.
Proof. vm_compute. reflexivity. Qed.

Lemma their_core_eq x : 0 < x ->
  C13.Log2.log_base2 x = their_core 120 (fun x1 => S (Z.to_nat (Z.log2 x1))) max_log2_iterations (C13.Common.Ok one_half_bd) x.
Proof.
  intros Hx. unfold C13.Log2.log_base2, their_core. destruct (x <=? 0) eqn:E; [lia|]. rewrite one_half_same. reflexivity.
Qed.

Lemma log_base2_agree x r : 0 < x -> bitlen x <= 1144 -> log_base2 x = Some r -> C13.Log2.log_base2 x = C13.Common.Ok r.
Proof.
  intros Hx Hb H. destruct (C13.Log2Total.log_base2_total x Hx Hb) as (r' & Hr'). rewrite Hr'. f_equal.
  rewrite my_core_eq in H by assumption. rewrite their_core_eq in Hr' by assumption.
  rewrite log_iterations_agree in H. symmetry. eapply core_agree; eassumption.
Qed.

Open Scope R_scope.

Lemma log2R_same x : C13.Log2Proofs.log2R x = log2R x.
Proof. reflexivity. Qed.

(* twapLog = LogBase2 of the price as a BigDec, cut to 18 decimals: accurate to 2e-18 on every recordable price *)
Theorem twap_log_accurate : forall p, (0 < p <= maxp)%Z ->
  (0 < p)%Z /\ exists l, twap_log p = Some l /\ Rabs (dR l - log2R (dR p)) <= 2 / 10 ^ 18.
Proof.
  intros p Hp. split; [lia|].
  assert (maxp <= 2 ^ 130 * P18)%Z as Hmax by (vm_compute; discriminate).
  destruct (twap_log_total p ltac:(lia)) as (l & Hl & _). exists l. split; [assumption|].
  unfold twap_log in Hl. destruct (p =? 0)%Z; [discriminate|].
  destruct (log_base2 (bd_from_dec p)) as [y|] eqn:Ey; [|discriminate]. injection Hl as <-.
  assert (0 < bd_from_dec p)%Z as Hx by (unfold bd_from_dec, P18; lia).
  assert (bitlen (bd_from_dec p) <= 1144)%Z as Hb.
  { unfold bitlen. destruct (bd_from_dec p =? 0)%Z; [lia|].
    assert (Z.log2 (Z.abs (bd_from_dec p)) < 1143)%Z; [|lia].
    apply Z.log2_lt_pow2; [lia|]. rewrite Z.abs_eq by lia. unfold bd_from_dec.
    assert (2 ^ 130 * P18 * P18 < 2 ^ 1143)%Z by (vm_compute; reflexivity). assert (0 < P18)%Z by reflexivity. nia. }
  destruct (C13.Log2Proofs.log_base2_err _ _ (log_base2_agree _ _ Hx Hb Ey) Hb) as [_ Herr].
  rewrite !bdR_bR, log2R_same, bR_from_dec in Herr.
  (* cut to 18 decimals: |dR (y quot 10^18) - bR y| < 1e-18 *)
  assert (Rabs (dR (bd_to_dec y) - bR y) <= 1 / 10 ^ 18) as Hcut.
  { unfold bd_to_dec, dR, bR. pose proof (Z.quot_rem' y P18) as Hqr.
    assert (Z.abs (Z.rem y P18) < P18)%Z as Hrem by (pose proof (Z.rem_bound_abs y P18 ltac:(unfold P18; lia)); unfold P18 in *; lia).
    apply IZR_lt in Hrem. rewrite abs_IZR, IZR_P18 in Hrem.
    rewrite Hqr at 2. rewrite plus_IZR, mult_IZR, IZR_P18, pow36_split. pose proof pow18_pos as Hp18.
    remember (IZR (Z.quot y P18)) as q. remember (IZR (Z.rem y P18)) as rr. remember (10 ^ 18) as T.
    replace (q / T - (T * q + rr) / (T * T)) with (- rr / (T * T)) by (field; lra).
    unfold Rdiv. rewrite Rabs_mult, Rabs_Ropp, (Rabs_pos_eq (/ (T * T))) by (left; apply Rinv_0_lt_compat; nra).
    apply Rmult_le_reg_r with (T * T); [nra|]. rewrite Rmult_assoc, Rinv_l by nra.
    replace (1 * / T * (T * T)) with T by (field; lra). lra. }
  assert (3300 * C13.Exp2Real.u36 <= 1 / 10 ^ 18) as Hu.
  { unfold C13.Exp2Real.u36. rewrite (pow_IZR 10 36) || idtac.
    replace (IZR (10 ^ 36)) with (10 ^ 36) by (rewrite (pow_IZR 10 36); reflexivity).
    rewrite pow36_split. pose proof pow18_pos as Hp18.
    assert (3300 <= 10 ^ 18) by (replace 3300 with (33 * 10 ^ 2) by ring; assert (10 ^ 2 * 33 <= 10 ^ 2 * 10 ^ 16); [apply Rmult_le_compat_l; [apply pow_le; lra|]; assert (10 ^ 2 <= 10 ^ 16) by (apply Rle_pow; [lra|lia]); replace 33 with (33 * 1) by ring; nra|]; replace (10 ^ 18) with (10 ^ 2 * 10 ^ 16) by (rewrite <- pow_add; reflexivity); lra).
    apply Rmult_le_reg_r with (10 ^ 18 * 10 ^ 18); [nra|].
    replace (3300 * / (10 ^ 18 * 10 ^ 18) * (10 ^ 18 * 10 ^ 18)) with 3300 by (field; lra).
    replace (1 / 10 ^ 18 * (10 ^ 18 * 10 ^ 18)) with (10 ^ 18) by (field; lra). assumption. }
  replace (dR (bd_to_dec y) - log2R (dR p)) with ((dR (bd_to_dec y) - bR y) + (bR y - log2R (dR p))) by ring.
  eapply Rle_trans; [apply Rabs_triang|]. lra.
Qed.

From Osmo Require Import C10.GeomMean.

(* the two accuracy statements of C10/GeomMean.v hold, so its theorem applies to the model without hypotheses *)
Theorem accuracy_statements : exp2_accuracy_stmt /\ twap_log_accuracy_stmt.
Proof. split; [exact exp2_accurate|exact twap_log_accurate]. Qed.
