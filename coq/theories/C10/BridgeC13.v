(* C10 <-> C13: the copy of osmomath.Exp2 used by the C10 model (C10/LogExp.v exp2, option-valued) returns exactly what
   C13's model of the same code (C13/Exp2.v, result-valued) returns, so C13's error theorem
   |Exp2 e - 2^e| <= 10^-19 * 2^e applies to it.  Both read their coefficients from the generated constants of the same
   Go literals (Gen/C10_consts.v, Gen/C13_consts.v); their equality is checked here by computation. *)
From Coq Require Import ZArith List Bool Reals Lra Lia.
Import ListNotations.
From Osmo Require Import Base.DecModel Gen.C10_consts Gen.C13_consts C10.LogExp C10.GeomReal.
From Osmo Require C13.Common C13.Exp2 C13.Exp2Real C13.Exp2Proofs.
Open Scope Z_scope.

Lemma coeffs_agree : exp2_num = exp2_num_coeffs /\ exp2_den = exp2_den_coeffs /\ two_bd = two_bigdec.
Proof. repeat split; reflexivity. Qed.

Lemma bdchk_check z z' : bdchk z = Some z' -> C13.Common.bd_check z = C13.Common.Ok z'.
Proof. unfold bdchk, C13.Common.bd_check. destruct (bd_fits z); [intros H; injection H as <-; reflexivity|discriminate]. Qed.

Lemma loop_agree cs : forall x xe h p h' p',
  exp2_loop cs x xe h p = Some (h', p') -> C13.Exp2.exp2_loop cs x xe h p = C13.Common.Ok (h', p').
Proof.
  induction cs as [|[a b] cs IH]; intros x xe h p h' p' H; cbn [exp2_loop C13.Exp2.exp2_loop] in *.
  - injection H as <- <-. reflexivity.
  - unfold C13.Common.bdc_mul, C13.Common.bdc_add.
    destruct (bdchk (bd_mul xe x)) as [xe'|] eqn:E1; [|discriminate]. rewrite (bdchk_check _ _ E1). cbn [C13.Common.bind].
    destruct (bdchk (bd_mul a xe')) as [ta|] eqn:E2; [|discriminate]. rewrite (bdchk_check _ _ E2). cbn [C13.Common.bind].
    destruct (bdchk (h + ta)) as [h1|] eqn:E3; [|discriminate]. rewrite (bdchk_check _ _ E3). cbn [C13.Common.bind].
    destruct (bdchk (bd_mul b xe')) as [tb|] eqn:E4; [|discriminate]. rewrite (bdchk_check _ _ E4). cbn [C13.Common.bind].
    destruct (bdchk (p + tb)) as [p1|] eqn:E5; [|discriminate]. rewrite (bdchk_check _ _ E5). cbn [C13.Common.bind].
    apply IH. assumption.
Qed.

Lemma approx_agree x r : exp2_approx x = Some r -> C13.Exp2.exp2_rational_approx x = C13.Common.Ok r.
Proof.
  unfold exp2_approx, C13.Exp2.exp2_rational_approx, C13.Exp2.exp2_rational_approx_with.
  destruct coeffs_agree as (<- & <- & <-).
  destruct ((x <? 0) || (x >? P36))%Z; [discriminate|].
  destruct (x =? 0)%Z; [intros H; injection H as <-; reflexivity|].
  destruct (x =? P36)%Z; [intros H; injection H as <-; reflexivity|].
  destruct exp2_num as [|h0 nums]; [discriminate|]. destruct exp2_den as [|p0 dens]; [discriminate|].
  destruct (exp2_loop (combine nums dens) x P36 h0 p0) as [[h p]|] eqn:El; [|discriminate].
  rewrite (loop_agree _ _ _ _ _ _ _ El). cbn [C13.Common.bind].
  unfold C13.Common.bdc_quo. destruct (p =? 0)%Z; [discriminate|]. apply bdchk_check.
Qed.

Lemma exp2_agree e r : exp2 e = Some r -> C13.Exp2.exp2 e = C13.Common.Ok r.
Proof.
  unfold exp2, C13.Exp2.exp2. destruct (e <? 0)%Z eqn:E0; [discriminate|].
  rewrite C13.Exp2Proofs.max_supported_exponent_val. cbn [C13.Common.bind].
  change (exp2_max_exponent * P36)%Z with (512 * P36)%Z.
  destruct (Z.abs e >? 512 * P36)%Z eqn:E1; [discriminate|].
  destruct (exp2_approx (e - bd_truncate_dec e)) as [fr|] eqn:Ea; [|discriminate].
  intros H. injection H as <-.
  unfold C13.Common.bdc_sub.
  assert (C13.Common.bd_check (e - bd_truncate_dec e) = C13.Common.Ok (e - bd_truncate_dec e)) as Hc.
  { (* the fractional part lies in [0, 10^36]: exp2_approx rejects everything else *)
    unfold exp2_approx in Ea. destruct ((e - bd_truncate_dec e <? 0) || (e - bd_truncate_dec e >? P36))%Z eqn:Er; [discriminate|].
    apply orb_false_iff in Er. destruct Er as [Er1 Er2].
    unfold C13.Common.bd_check, bd_fits, bitlen, max_dec_bit_len.
    set (f := (e - bd_truncate_dec e)%Z) in *. destruct (f =? 0)%Z eqn:Ef; [reflexivity|].
    assert (0 < f <= P36)%Z as Hf by lia.
    assert (Z.log2 (Z.abs f) < 1144)%Z as Hl.
    { apply Z.log2_lt_pow2; [lia|]. rewrite Z.abs_eq by lia. eapply Z.le_lt_trans; [apply Hf|]. vm_compute. reflexivity. }
    destruct (Z.log2 (Z.abs f) + 1 <=? 1144)%Z eqn:El; [reflexivity|lia]. }
  rewrite Hc. cbn [C13.Common.bind]. rewrite (approx_agree _ _ Ea). cbn [C13.Common.bind]. reflexivity.
Qed.

Open Scope R_scope.

Lemma bdR_bR z : C13.Exp2Real.bdR z = bR z.
Proof. unfold C13.Exp2Real.bdR, C13.Exp2Real.u36, bR. rewrite (pow_IZR 10 36). reflexivity. Qed.

(* the accuracy hypothesis of C10_geom_value_partial holds for the C10 model's Exp2 with eta = 10^-19 *)
Theorem exp2_accurate : forall e E, exp2 e = Some E -> (0 <= e)%Z ->
  Rabs (bR E - Rpower 2 (bR e)) <= 1 / 10 ^ 19 * Rpower 2 (bR e).
Proof.
  intros e E H _. destruct (C13.Exp2Proofs.exp2_bound e E (exp2_agree _ _ H)) as [_ Hb].
  rewrite !bdR_bR in Hb. exact Hb.
Qed.

Lemma eta_ok : 0 <= 1 / 10 ^ 19 <= 1 / 10 ^ 18.
Proof.
  split; [apply Rlt_le, Rdiv_lt_0_compat; [lra|apply pow_lt; lra]|].
  unfold Rdiv. rewrite !Rmult_1_l. apply Rinv_le_contravar; [apply pow_lt; lra|apply Rle_pow; [lra|lia]].
Qed.
