(* C10: the geometric TWAP against the TRUE time-weighted mean of log2(price), given accuracy bounds delta for twapLog and
   eta for Exp2:   |geom - 2^(+-M)| <= (5.1e-8 + 3 (delta + 1e-18)) * 2^(+-M) + 3e-18,
   M = (sum over the millisecond slots of log2 (price in force)) / (number of slots).
   Real numbers of the standard library (classical axioms). *)
From Coq Require Import ZArith Reals Lra Lia List.
From Osmo Require Import Base.DecModel Gen.C10_consts C10.Model C10.Spec C10.ProofsSum C10.ProofsChain C10.ProofsTwap
  C10.GeomBound C10.GeomReal C10.LogExp C10.ProofsFull C10.ProofsAnswer.
Open Scope R_scope.

Definition rintegral (f : Z -> R) (a b : Z) : R := rsum f a (Z.to_nat (b - a)).

Lemma dR_abs z : dR (Z.abs z) = Rabs (dR z).
Proof.
  unfold dR. rewrite abs_IZR. unfold Rdiv. rewrite Rabs_mult, (Rabs_pos_eq (/ 10 ^ 18)); [reflexivity|].
  left. apply Rinv_0_lt_compat, pow18_pos.
Qed.

Lemma Rpower2_inv x : / Rpower 2 x = Rpower 2 (- x).
Proof. rewrite Rpower_Ropp. reflexivity. Qed.

(* truncated quotient in real terms *)
Lemma quot_close d n : (0 < n)%Z -> Rabs (IZR (Z.quot d n) - IZR d / IZR n) <= 1.
Proof.
  intros Hn. assert (0 < IZR n) as HnR by (apply IZR_lt; assumption).
  pose proof (Z.quot_rem' d n) as Hqr.
  assert (Z.abs (Z.rem d n) < n)%Z as Hr.
  { pose proof (Z.rem_bound_abs d n ltac:(lia)). lia. }
  replace (IZR d / IZR n) with (IZR (Z.quot d n) + IZR (Z.rem d n) / IZR n).
  2:{ rewrite Hqr at 3. rewrite plus_IZR, mult_IZR. field. lra. }
  replace (IZR (Z.quot d n) - (IZR (Z.quot d n) + IZR (Z.rem d n) / IZR n)) with (- (IZR (Z.rem d n) / IZR n)) by ring.
  rewrite Rabs_Ropp. unfold Rdiv. rewrite Rabs_mult, (Rabs_pos_eq (/ IZR n)) by (left; apply Rinv_0_lt_compat; assumption).
  rewrite <- abs_IZR. apply IZR_lt in Hr.
  apply Rmult_le_reg_r with (IZR n); [assumption|]. rewrite Rmult_assoc, Rinv_l by lra. lra.
Qed.

Section Mean.
Variable lg : Z -> option Z.
Variable ex : Z -> option Z.
Variables eta delta : R.
Hypothesis eta_small : 0 <= eta <= 1 / 10 ^ 18.
Hypothesis delta_small : 0 <= delta <= 1 / 10 ^ 9.
Hypothesis ex_acc : forall e E, ex e = Some E -> (0 <= e)%Z ->
  Rabs (bR E - Rpower 2 (bR e)) <= eta * Rpower 2 (bR e).
(* accuracy of twapLog on a set of admissible prices *)
Variable admissible : Z -> Prop.
Hypothesis lg_acc : forall p, admissible p -> (0 < p)%Z /\ exists l, lg p = Some l /\ Rabs (dR l - log2R (dR p)) <= delta.

Theorem geom_true_mean (f : Z -> Z) a b q0 v :
  (a < b)%Z -> (forall tau, (a <= tau < b)%Z -> admissible (f tau)) ->
  let diff := integral (fun tau => glogv lg (f tau)) a b in
  geom_answer ex diff (b - a) q0 v ->
  let M := rintegral (fun tau => log2R (dR (f tau))) a b / IZR (b - a) in
  let target := Rpower 2 (if q0 then M else - M) in
  Rabs (dR v - target) <= (51 / 10 ^ 9 + 3 * (delta + 1 / 10 ^ 18)) * target + 3 / 10 ^ 18.
Proof.
  intros Hab Hadm diff Hans M target.
  pose proof (geom_value ex eta eta_small ex_acc diff (b - a) q0 v Hans) as Hv. cbv zeta in Hv.
  set (n := (b - a)%Z) in *. set (m := Z.quot diff n) in *.
  assert (0 < n)%Z as Hn by (subst n; lia). assert (0 < IZR n) as HnR by (apply IZR_lt; assumption).
  pose proof pow18_pos as Hp18.
  set (u := 1 / 10 ^ 18) in *.
  assert (0 < u) as Hu by (subst u; apply Rdiv_lt_0_compat; lra).
  assert (u <= 1 / 10 ^ 9) as Hu9 by (subst u; apply tiny18).
  assert (1 / 10 ^ 9 <= 1 / 1000) as H9.
  { unfold Rdiv. rewrite !Rmult_1_l. apply Rinv_le_contravar; [lra|]. replace 1000 with (10 ^ 3) by ring. apply Rle_pow; [lra|lia]. }
  (* the target of geom_value is 2^(s * dR m) *)
  set (s := if q0 then 1 else -1).
  assert ((if (((m <? 0)%Z && q0) || (negb (m <? 0)%Z && negb q0))%bool then / Rpower 2 (dR (Z.abs m)) else Rpower 2 (dR (Z.abs m)))
          = Rpower 2 (s * dR m)) as Htgt.
  { rewrite dR_abs. subst s. destruct (m <? 0)%Z eqn:Em.
    - apply Z.ltb_lt in Em. assert (dR m < 0) by (unfold dR; apply IZR_lt in Em; unfold Rdiv; apply Rmult_lt_reg_r with (10 ^ 18); [assumption|rewrite Rmult_assoc, Rinv_l by lra; lra]).
      rewrite Rabs_left by assumption. destruct q0; cbn [andb orb negb].
      + rewrite Rpower2_inv. f_equal. ring.
      + f_equal. ring.
    - apply Z.ltb_ge in Em. assert (0 <= dR m) by (unfold dR; apply IZR_le in Em; unfold Rdiv; apply Rmult_le_pos; [assumption|left; apply Rinv_0_lt_compat; assumption]).
      rewrite Rabs_pos_eq by assumption. destruct q0; cbn [andb orb negb].
      + f_equal. ring.
      + rewrite Rpower2_inv. f_equal. ring. }
  rewrite Htgt in Hv.
  (* the accumulated mean is within delta + u of the true mean *)
  assert (Rabs (dR m - M) <= delta + u) as Hmean.
  { assert (Rabs (IZR diff / 10 ^ 18 - rintegral (fun tau => log2R (dR (f tau))) a b) <= delta * IZR n) as Hsum.
    { subst diff. unfold integral, rintegral. rewrite IZR_zsum.
      set (k := Z.to_nat (b - a)).
      assert (IZR n = INR k) as Hk by (subst k n; rewrite INR_IZR_INZ, Z2Nat.id by lia; reflexivity).
      rewrite Hk.
      assert (forall g c N a0, rsum g a0 N / c = rsum (fun i => g i / c) a0 N) as Hdiv.
      { intros g c N. induction N as [|N IH]; intros a0; cbn [rsum]; [unfold Rdiv; ring|]. rewrite <- IH. unfold Rdiv. ring. }
      rewrite Hdiv. apply rsum_close; [lra|]. intros i Hi.
      destruct (lg_acc (f i) (Hadm i ltac:(subst k; lia))) as (Hpos & l & Hl & Hacc).
      unfold glogv. destruct (f i =? 0)%Z eqn:E0; [lia|]. rewrite Hl. exact Hacc. }
    pose proof (quot_close diff n Hn) as Hq. fold m in Hq.
    subst M. change (dR m) with (IZR m / 10 ^ 18).
    replace (IZR m / 10 ^ 18 - rintegral (fun tau => log2R (dR (f tau))) a b / IZR n)
      with ((IZR m - IZR diff / IZR n) / 10 ^ 18 + (IZR diff / 10 ^ 18 - rintegral (fun tau => log2R (dR (f tau))) a b) / IZR n)
      by (field; lra).
    eapply Rle_trans; [apply Rabs_triang|].
    assert (Rabs ((IZR m - IZR diff / IZR n) / 10 ^ 18) <= u) as H1.
    { unfold Rdiv at 1. rewrite Rabs_mult, (Rabs_pos_eq (/ 10 ^ 18)) by (left; apply Rinv_0_lt_compat; assumption).
      subst u. unfold Rdiv. rewrite Rmult_1_l. pose proof (Rinv_0_lt_compat _ Hp18). nra. }
    assert (Rabs ((IZR diff / 10 ^ 18 - rintegral (fun tau => log2R (dR (f tau))) a b) / IZR n) <= delta) as H2.
    { unfold Rdiv at 1. rewrite Rabs_mult, (Rabs_pos_eq (/ IZR n)) by (left; apply Rinv_0_lt_compat; assumption).
      apply Rmult_le_reg_r with (IZR n); [assumption|]. rewrite Rmult_assoc, Rinv_l by lra. lra. }
    lra. }
  set (mu := dR m) in *.
  assert (Rabs (s * mu - s * M) <= delta + u) as HsM.
  { replace (s * mu - s * M) with (s * (mu - M)) by ring. rewrite Rabs_mult.
    assert (Rabs s = 1) as -> by (subst s; destruct q0; unfold Rabs; destruct (Rcase_abs _); lra). lra. }
  assert ((if q0 then M else - M) = s * M) as HsMeq by (subst s; destruct q0; ring).
  subst target. rewrite HsMeq.
  pose proof (Rpower2_close (s * mu) (s * M) ltac:(lra)) as Hcl.
  set (A := Rpower 2 (s * mu)) in *. set (B := Rpower 2 (s * M)) in *.
  assert (0 < B) as HB by (subst B; unfold Rpower; apply exp_pos).
  assert (0 < A) as HA by (subst A; unfold Rpower; apply exp_pos).
  set (D := Rabs (s * mu - s * M)) in *. assert (0 <= D) as HD0 by (subst D; apply Rabs_pos).
  apply Rabs_le_inv in Hcl. apply Rabs_le_inv in Hv. apply Rabs_le.
  assert (A <= B * (1 + 2 * D)) as HAB by lra.
  assert (B * (1 - 2 * D) <= A) as HAB2 by lra.
  split; nra.
Qed.

End Mean.

(* composed with the histories *)
Theorem geom_twap_true_mean (lg ex : Z -> option Z) (eta delta : R) (admissible : Z -> Prop) :
  (0 <= eta <= 1 / 10 ^ 18)%R -> (0 <= delta <= 1 / 10 ^ 9)%R ->
  (forall e E, ex e = Some E -> (0 <= e)%Z -> (Rabs (bR E - Rpower 2 (bR e)) <= eta * Rpower 2 (bR e))%R) ->
  (forall p, admissible p -> (0 < p)%Z /\ exists l, lg p = Some l /\ (Rabs (dR l - log2R (dR p)) <= delta)%R) ->
  forall t0 h0 w0 w1 evs p G now q0 start stop f v,
  history lg t0 h0 w0 w1 evs p G -> (r_time (p_recent p) <= now)%Z ->
  (t0 <= start)%Z -> (max_keep t0 evs <= start)%Z -> (ms start < ms stop)%Z ->
  twap_between lg ex now p q0 true start stop = QVal f v ->
  let price := price_at (spec_events t0 w0 w1 evs) true 0 in
  integral (fun tau => glogv lg (price tau)) (ms start) (ms stop) <> 0%Z ->
  (forall tau, (ms start <= tau < ms stop)%Z -> admissible (price tau)) ->
  let M := (rintegral (fun tau => log2R (dR (price tau))) (ms start) (ms stop) / IZR (ms stop - ms start))%R in
  let target := Rpower 2 (if q0 then M else (- M)%R) in
  (Rabs (dR v - target) <= (51 / 10 ^ 9 + 3 * (delta + 1 / 10 ^ 18)) * target + 3 / 10 ^ 18)%R.
Proof.
  intros He Hd Hex Hlg t0 h0 w0 w1 evs p G now q0 start stop f v Hh Hn Hs Hk Hm Hq price Hnz Hadm.
  apply (geom_true_mean lg ex eta delta He Hd Hex admissible Hlg price (ms start) (ms stop) q0 v Hm Hadm).
  eapply geom_conditional; eassumption.
Qed.

(* ---- for the model's own twap_log and exp2: the two accuracy statements (proved in C10/BridgeC13.v from C13's theorems)
   and what follows from them ---- *)
Definition exp2_accuracy_stmt : Prop :=
  forall e E, exp2 e = Some E -> (0 <= e)%Z -> Rabs (bR E - Rpower 2 (bR e)) <= 1 / 10 ^ 19 * Rpower 2 (bR e).
Definition twap_log_accuracy_stmt : Prop :=
  forall p, (0 < p <= maxp)%Z -> (0 < p)%Z /\ exists l, twap_log p = Some l /\ Rabs (dR l - log2R (dR p)) <= 2 / 10 ^ 18.

Theorem geom_twap_model :
  exp2_accuracy_stmt -> twap_log_accuracy_stmt ->
  forall t0 h0 w0 w1 evs p G now q0 start stop f v,
  history twap_log t0 h0 w0 w1 evs p G -> (r_time (p_recent p) <= now)%Z ->
  (t0 <= start)%Z -> (max_keep t0 evs <= start)%Z -> (ms start < ms stop)%Z ->
  twap_between twap_log exp2 now p q0 true start stop = QVal f v ->
  let price := price_at (spec_events t0 w0 w1 evs) true 0 in
  integral (fun tau => glogv twap_log (price tau)) (ms start) (ms stop) <> 0%Z ->
  (forall tau, (ms start <= tau < ms stop)%Z -> (0 < price tau <= maxp)%Z) ->
  let M := (rintegral (fun tau => log2R (dR (price tau))) (ms start) (ms stop) / IZR (ms stop - ms start))%R in
  let target := Rpower 2 (if q0 then M else (- M)%R) in
  (Rabs (dR v - target) <= (51 / 10 ^ 9 + 9 / 10 ^ 18) * target + 3 / 10 ^ 18)%R.
Proof.
  intros Hex Hlg t0 h0 w0 w1 evs p G now q0 start stop f v Hh Hn Hs Hk Hm Hq price Hnz Hadm M target.
  assert (0 <= 1 / 10 ^ 19 <= 1 / 10 ^ 18) as He.
  { split; [apply Rlt_le, Rdiv_lt_0_compat; [lra|apply pow_lt; lra]|].
    unfold Rdiv. rewrite !Rmult_1_l. apply Rinv_le_contravar; [apply pow_lt; lra|apply Rle_pow; [lra|lia]]. }
  assert (0 <= 2 / 10 ^ 18 <= 1 / 10 ^ 9) as Hd.
  { pose proof pow18_pos. split; [apply Rlt_le, Rdiv_lt_0_compat; lra|].
    replace (10 ^ 18) with (10 ^ 9 * 10 ^ 9) by (rewrite <- pow_add; reflexivity). assert (0 < 10 ^ 9) by (apply pow_lt; lra).
    assert (2 <= 10 ^ 9) by (replace 2 with (2 * 1) by ring; assert (1 <= 10 ^ 8) by (apply pow_R1_Rle; lra); replace (10 ^ 9) with (10 * 10 ^ 8) by (rewrite <- tech_pow_Rmult; reflexivity); nra).
    apply Rmult_le_reg_r with (10 ^ 9 * 10 ^ 9); [nra|].
    replace (2 / (10 ^ 9 * 10 ^ 9) * (10 ^ 9 * 10 ^ 9)) with 2 by (field; lra).
    replace (1 / 10 ^ 9 * (10 ^ 9 * 10 ^ 9)) with (10 ^ 9) by (field; lra). assumption. }
  pose proof (geom_twap_true_mean twap_log exp2 (1 / 10 ^ 19) (2 / 10 ^ 18) (fun p => (0 < p <= maxp)%Z) He Hd Hex Hlg
                t0 h0 w0 w1 evs p G now q0 start stop f v Hh Hn Hs Hk Hm Hq Hnz Hadm) as Hb.
  cbv zeta in Hb. fold price in Hb. fold M in Hb. fold target in Hb.
  replace (51 / 10 ^ 9 + 3 * (2 / 10 ^ 18 + 1 / 10 ^ 18)) with (51 / 10 ^ 9 + 9 / 10 ^ 18) in Hb by (field; apply pow_nonzero; lra).
  exact Hb.
Qed.
