(* C10: the records ever stored for one (pool, pair) form a chain of prefix sums; accumulators interpolated at any
   time equal the definitional integral of the price step function; pruning is invisible inside the window. *)
From Coq Require Import ZArith List Bool Lia Sorted.
Import ListNotations.
From Osmo Require Import Base.DecModel Gen.C10_consts C10.Model C10.Spec C10.ProofsSum C10.ProofsList.
Open Scope Z_scope.

Definition dr : rec := mkRec 0 0 0 0 0 0 0 0.     (* default for [last] / [hd]; never observed on non-empty lists *)

Lemma ms_mono a b : a <= b -> ms a <= ms b.
Proof. intros H. unfold ms, ns_per_ms. apply Z.div_le_mono; lia. Qed.

(* ---- generic prefix-sum chains: acc r' = acc r + val r * elapsed ms ---- *)
Definition step_at (G : list rec) (val : rec -> Z) (d : Z) (tau : Z) : Z :=
  fold_left (fun cur r => if ms (r_time r) <=? tau then val r else cur) G d.

Lemma step_at_snoc G r val d tau :
  step_at (G ++ [r]) val d tau = if ms (r_time r) <=? tau then val r else step_at G val d tau.
Proof. unfold step_at. rewrite fold_left_app. reflexivity. Qed.

Inductive GChain (acc val : rec -> Z) : list rec -> Prop :=
| GChain_one r : acc r = 0 -> GChain acc val [r]
| GChain_snoc G r r' :
    GChain acc val (G ++ [r]) -> r_time r <= r_time r' ->
    acc r' = acc r + val r * (ms (r_time r') - ms (r_time r)) ->
    GChain acc val ((G ++ [r]) ++ [r']).

Lemma gchain_nonempty acc val G : GChain acc val G -> G <> [].
Proof. intros H; inversion H; subst; [discriminate|]. intros E. apply app_eq_nil in E. destruct E; discriminate. Qed.

Lemma gchain_bounded acc val G : GChain acc val G -> bounded G (r_time (last G dr)).
Proof.
  induction 1 as [r|G r r' _ IH Hle _].
  - constructor; [cbn; lia|constructor].
  - rewrite last_last. rewrite last_last in IH. unfold bounded in *. rewrite Forall_app. split.
    + eapply Forall_impl; [|exact IH]. cbn; intros; lia.
    + constructor; [lia|constructor].
Qed.

Lemma hd_app_nonempty (l1 l2 : list rec) : l1 <> [] -> hd dr (l1 ++ l2) = hd dr l1.
Proof. destruct l1; [contradiction|reflexivity]. Qed.

Lemma gchain_hd_le_last acc val G : GChain acc val G -> r_time (hd dr G) <= r_time (last G dr).
Proof.
  intros H. pose proof (gchain_bounded _ _ _ H) as Hb. pose proof (gchain_nonempty _ _ _ H) as Hn.
  destruct G as [|x G]; [contradiction|]. inversion Hb; subst. assumption.
Qed.

Lemma gchain_acc acc val d G :
  GChain acc val G ->
  forall t x, r_time (hd dr G) <= t -> hist_at_or_before G t = Some x ->
    acc x + val x * (ms t - ms (r_time x)) = integral (step_at G val d) (ms (r_time (hd dr G))) (ms t).
Proof.
  induction 1 as [r Hr|G r r' HG IH Hle Hacc]; intros t x Ht Hx.
  - cbn [hd] in *. cbn [hist_at_or_before] in Hx. destruct (r_time r <=? t) eqn:E; [|discriminate]. injection Hx as <-.
    rewrite Hr. rewrite (integral_const _ _ _ (val r)).
    + lia.
    + apply ms_mono; assumption.
    + intros i Hi. unfold step_at. cbn [fold_left]. destruct (ms (r_time r) <=? i) eqn:E2; [reflexivity|lia].
  - pose proof (gchain_nonempty _ _ _ HG) as Hne.
    rewrite hd_app_nonempty in * by assumption.
    pose proof (gchain_bounded _ _ _ HG) as Hb. rewrite last_last in Hb.
    pose proof (gchain_hd_le_last _ _ _ HG) as Hhl. rewrite last_last in Hhl.
    assert (bounded (G ++ [r]) (r_time r')) as Hb' by (eapply Forall_impl; [|exact Hb]; cbn; intros; lia).
    rewrite aob_app_last in Hx by assumption.
    destruct (r_time r' <=? t) eqn:E.
    + injection Hx as <-.
      assert (hist_at_or_before (G ++ [r]) (r_time r') = Some r) as Hr.
      { rewrite aob_app_last.
        - destruct (r_time r <=? r_time r') eqn:E2; [reflexivity|lia].
        - unfold bounded in *. rewrite Forall_app in Hb. tauto. }
      specialize (IH (r_time r') r ltac:(lia) Hr).
      rewrite (integral_split _ _ (ms (r_time r'))).
      2:{ split; apply ms_mono; lia. }
      rewrite (integral_ext _ (step_at (G ++ [r]) val d) _ (ms (r_time r'))).
      2:{ intros i Hi. rewrite (step_at_snoc (G ++ [r]) r'). destruct (ms (r_time r') <=? i) eqn:E3; [lia|reflexivity]. }
      rewrite <- IH.
      rewrite (integral_const _ (ms (r_time r')) (ms t) (val r')).
      * rewrite Hacc. lia.
      * apply ms_mono; lia.
      * intros i Hi. rewrite (step_at_snoc (G ++ [r]) r'). destruct (ms (r_time r') <=? i) eqn:E3; [reflexivity|lia].
    + specialize (IH t x Ht Hx). rewrite IH. apply integral_ext.
      intros i Hi. rewrite (step_at_snoc (G ++ [r]) r'). destruct (ms (r_time r') <=? i) eqn:E3; [|reflexivity].
      assert (ms t <= ms (r_time r')) by (apply ms_mono; lia). lia.
Qed.

(* ---- the concrete chain of twap records ---- *)
Section WithLog.
Variable lg : Z -> option Z.

(* log2 of the price as the geometric accumulator uses it: nothing is added while the price is zero *)
Definition glogv (p : Z) : Z := if p =? 0 then 0 else match lg p with Some l => l | None => 0 end.

Definition link (r r' : rec) : Prop :=
  r_time r <= r_time r' /\
  r_a0 r' = r_a0 r + r_p0 r * (ms (r_time r') - ms (r_time r)) /\
  r_a1 r' = r_a1 r + r_p1 r * (ms (r_time r') - ms (r_time r)) /\
  r_g r' = r_g r + glogv (r_p0 r) * (ms (r_time r') - ms (r_time r)) /\
  r_err r <= r_err r' /\ r_err r' <= r_time r'.

Inductive Chain : list rec -> Prop :=
| Chain_one r : r_a0 r = 0 -> r_a1 r = 0 -> r_g r = 0 -> r_err r <= r_time r -> Chain [r]
| Chain_snoc G r r' : Chain (G ++ [r]) -> link r r' -> Chain ((G ++ [r]) ++ [r']).

Lemma chain_g0 G : Chain G -> GChain r_a0 r_p0 G.
Proof. induction 1 as [r|G r r' _ IH (H1 & H2 & _)]; [constructor; assumption|constructor; assumption]. Qed.
Lemma chain_g1 G : Chain G -> GChain r_a1 r_p1 G.
Proof. induction 1 as [r|G r r' _ IH (H1 & _ & H2 & _)]; [constructor; assumption|constructor; assumption]. Qed.
Lemma chain_gg G : Chain G -> GChain r_g (fun r => glogv (r_p0 r)) G.
Proof. induction 1 as [r|G r r' _ IH (H1 & _ & _ & H2 & _)]; [constructor; assumption|constructor; assumption]. Qed.

Lemma chain_nonempty G : Chain G -> G <> [].
Proof. intros H. exact (gchain_nonempty _ _ _ (chain_g0 _ H)). Qed.
Lemma chain_bounded G : Chain G -> bounded G (r_time (last G dr)).
Proof. intros H. exact (gchain_bounded _ _ _ (chain_g0 _ H)). Qed.

Lemma chain_last_form G : Chain G -> exists G0 r, G = G0 ++ [r] /\ last G dr = r.
Proof.
  intros H. destruct (exists_last (chain_nonempty _ H)) as (G0 & r & ->). exists G0, r. split; [reflexivity|apply last_last].
Qed.

(* error times never decrease along the chain and never lie in the future *)
Lemma chain_err G : Chain G ->
  (forall r, In r G -> r_err r <= r_time r) /\ (forall r, In r G -> r_err r <= r_err (last G dr)) /\
  StronglySorted le_t G /\ StronglySorted (fun a b => r_err a <= r_err b) G.
Proof.
  induction 1 as [r _ _ _ Hr|G r r' HG IH (Ht & _ & _ & _ & He1 & He2)].
  - repeat split.
    + intros x [<-|[]]; assumption.
    + intros x [<-|[]]; cbn; lia.
    + repeat constructor.
    + repeat constructor.
  - destruct IH as (I1 & I2 & I3 & I4). rewrite last_last in I2. rewrite last_last.
    pose proof (chain_bounded _ HG) as Hb. rewrite last_last in Hb.
    repeat split.
    + intros x Hx. rewrite in_app_iff in Hx. destruct Hx as [Hx|[<-|[]]]; [auto|assumption].
    + intros x Hx. rewrite in_app_iff in Hx. destruct Hx as [Hx|[<-|[]]]; [specialize (I2 x Hx); lia|lia].
    + apply ss_app_intro; [assumption|repeat constructor|].
      intros a b Ha [<-|[]]. unfold le_t. unfold bounded in Hb. rewrite Forall_forall in Hb. specialize (Hb a Ha). cbn in Hb. lia.
    + apply ss_app_intro; [assumption|repeat constructor|].
      intros a b Ha [<-|[]]. specialize (I2 a Ha). lia.
Qed.

(* ---- what the model functions do to a record ---- *)
Lemma dchk_some z z' : dchk z = Some z' -> z' = z.
Proof. unfold dchk. destruct (d_fits z); congruence. Qed.

Lemma rec_interp_spec r t r' :
  rec_interp lg r t = Some r' -> r_time r <= t ->
  r_time r' = t /\ r_height r' = r_height r /\ r_p0 r' = r_p0 r /\ r_p1 r' = r_p1 r /\
  r_a0 r' = r_a0 r + r_p0 r * (ms t - ms (r_time r)) /\
  r_a1 r' = r_a1 r + r_p1 r * (ms t - ms (r_time r)) /\
  r_g r' = r_g r + glogv (r_p0 r) * (ms t - ms (r_time r)) /\
  (r_err r' = r_err r \/ (r_err r' = t /\ r_p0 r = 0 /\ r_time r < t)).
Proof.
  unfold rec_interp. intros H Hle. destruct (r_time r =? t) eqn:E.
  - injection H as <-. apply Z.eqb_eq in E. rewrite <- E. replace (ms (r_time r) - ms (r_time r)) with 0 by lia.
    repeat split; lia.
  - apply Z.eqb_neq in E.
    destruct (dchk (r_p0 r * (ms t - ms (r_time r)))) as [m0|] eqn:E0; [|discriminate]. apply dchk_some in E0.
    destruct (dchk (m0 + r_a0 r)) as [a0|] eqn:E1; [|discriminate]. apply dchk_some in E1.
    destruct (dchk (r_p1 r * (ms t - ms (r_time r)))) as [m1|] eqn:E2; [|discriminate]. apply dchk_some in E2.
    destruct (dchk (m1 + r_a1 r)) as [a1|] eqn:E3; [|discriminate]. apply dchk_some in E3.
    unfold glogv. destruct (r_p0 r =? 0) eqn:Ez.
    + injection H as <-. cbn. apply Z.eqb_eq in Ez. subst. repeat split; lia.
    + destruct (lg (r_p0 r)) as [l|]; [|discriminate].
      destruct (dchk (l * (ms t - ms (r_time r)))) as [mg|] eqn:E4; [|discriminate]. apply dchk_some in E4.
      destruct (dchk (mg + r_g r)) as [g|] eqn:E5; [|discriminate]. apply dchk_some in E5.
      injection H as <-. cbn. subst. repeat split; lia.
Qed.

Lemma get_spot_prices_spec now prev w0 w1 :
  let '(a, b, lt) := get_spot_prices now prev w0 w1 in
  (a, b) = spot_of w0 w1 /\ lt = (if spot_err w0 w1 then now else prev).
Proof.
  unfold spot_of, spot_err, get_spot_prices.
  remember (w_err w0 || w_err w1) as e eqn:He. clear He.
  remember (if e && w_nil w0 then 0 else w_val w0) as v0 eqn:Hv0. clear Hv0.
  remember (if e && w_nil w1 then 0 else w_val w1) as v1 eqn:Hv1. clear Hv1.
  destruct e; destruct (v0 >? max_spot_price_bigdec); destruct (v1 >? max_spot_price_bigdec);
    cbv beta iota zeta; split; reflexivity.
Qed.

Lemma update_record_spec now h r w0 w1 r' :
  update_record lg now h r w0 w1 = UOk r' -> r_err r <= r_time r ->
  link r r' /\ r_time r' = now /\ r_height r' = h /\ (r_p0 r', r_p1 r') = spot_of w0 w1 /\
  r_err r' = (if spot_err w0 w1 then now else r_err r).
Proof.
  unfold update_record. intros H He.
  destruct (((r_height r =? h) || (r_time r =? now)) && negb (r_a1 r =? 0) && negb (r_a0 r =? 0)); [discriminate|].
  destruct ((r_height r >? h) || (r_time r >? now)) eqn:E; [discriminate|].
  apply orb_false_iff in E. destruct E as [_ E].
  assert (r_time r <= now) as Hle by lia.
  destruct (rec_interp lg r now) as [nr|] eqn:Ei; [|discriminate].
  destruct (rec_interp_spec _ _ _ Ei Hle) as (I1 & I2 & I3 & I4 & I5 & I6 & I7 & I8).
  pose proof (get_spot_prices_spec now (r_err r) w0 w1) as Hs.
  destruct (get_spot_prices now (r_err r) w0 w1) as [[sp0 sp1] lt]. destruct Hs as [Hs1 Hs2].
  injection H as <-. cbn. rewrite I1. unfold link. cbn.
  repeat split; try assumption; try lia; subst lt; destruct (spot_err w0 w1); lia.
Qed.

Lemma update_record_ok now h r w0 w1 :
  (r_time r < now /\ r_height r < h) \/ (r_time r = now /\ r_height r = h /\ r_a0 r = 0) ->
  update_record lg now h r w0 w1 <> UErr.
Proof.
  intros H. unfold update_record.
  destruct H as [[H1 H2]|(H1 & H2 & H3)].
  - destruct (r_height r =? h) eqn:E1; [lia|]. destruct (r_time r =? now) eqn:E2; [lia|]. cbn [orb andb].
    destruct (r_height r >? h) eqn:E3; [lia|]. destruct (r_time r >? now) eqn:E4; [lia|]. cbn [orb].
    destruct (rec_interp lg r now); [|discriminate]. destruct (get_spot_prices now (r_err r) w0 w1) as [[? ?] ?]. discriminate.
  - rewrite H3. cbn [Z.eqb negb]. rewrite andb_false_r.
    destruct (r_height r >? h) eqn:E3; [lia|]. destruct (r_time r >? now) eqn:E4; [lia|]. cbn [orb].
    destruct (rec_interp lg r now); [|discriminate]. destruct (get_spot_prices now (r_err r) w0 w1) as [[? ?] ?]. discriminate.
Qed.

(* ---- invariant of a pair along any history ---- *)
Definition Inv (K : Z) (p : pairst) (G : list rec) : Prop :=
  Chain G /\ p_recent p = last G dr /\ tsorted (p_hist p) /\ bounded (p_hist p) (r_time (last G dr)) /\
  (forall t, K <= t -> hist_at_or_before (p_hist p) t = hist_at_or_before G t).

Lemma new_record_spec now h w0 w1 :
  let r := new_record now h w0 w1 in
  r_time r = now /\ r_height r = h /\ (r_p0 r, r_p1 r) = spot_of w0 w1 /\ r_a0 r = 0 /\ r_a1 r = 0 /\ r_g r = 0 /\
  r_err r = (if spot_err w0 w1 then now else zero_time).
Proof.
  unfold new_record. pose proof (get_spot_prices_spec now zero_time w0 w1) as Hs.
  destruct (get_spot_prices now zero_time w0 w1) as [[sp0 sp1] lt]. destruct Hs as [Hs1 Hs2]. cbn. tauto.
Qed.

Lemma inv_create K now h w0 w1 : zero_time <= now ->
  Inv K (pcreate now h w0 w1) [new_record now h w0 w1].
Proof.
  intros Hz. pose proof (new_record_spec now h w0 w1) as Hn. cbv zeta in Hn.
  destruct Hn as (H1 & H2 & H3 & H4 & H5 & H6 & H7).
  unfold Inv, pcreate. cbn [p_recent p_hist last]. repeat split.
  - constructor; try assumption. rewrite H7, H1. destruct (spot_err w0 w1); lia.
  - repeat constructor.
  - constructor; [lia|constructor].
Qed.

Lemma inv_step K p G e p' o :
  Inv K p G -> pstep lg p e = Some (p', o) ->
  let K' := match e with PPrune keep _ => Z.max K keep | _ => K end in
  let G' := match o with Some x => G ++ [x] | None => G end in
  Inv K' p' G'.
Proof.
  intros (HC & Hrec & Hs & Hb & Hag) Hstep. destruct e as [now h w0 w1|keep b]; cbn [pstep] in Hstep.
  - destruct (update_record lg now h (p_recent p) w0 w1) as [r'| |] eqn:Eu; [| |discriminate].
    + injection Hstep as <- <-. cbv zeta.
      destruct (chain_last_form _ HC) as (G0 & r & HG & Hl). rewrite Hl in *.
      destruct (chain_err _ HC) as (He & _ & _ & _).
      assert (r_err r <= r_time r) as Her by (apply He; rewrite HG, in_app_iff; right; left; reflexivity).
      rewrite Hrec in Eu. destruct (update_record_spec _ _ _ _ _ _ Eu Her) as (Hlk & Ht & _).
      pose proof Hlk as (Hle & _).
      assert (bounded (p_hist p) (r_time r')) as Hb' by (eapply Forall_impl; [|exact Hb]; cbn; intros; lia).
      pose proof (chain_bounded _ HC) as HbG. rewrite Hl in HbG.
      assert (bounded G (r_time r')) as HbG' by (eapply Forall_impl; [|exact HbG]; cbn; intros; lia).
      unfold Inv, store_new. cbn [p_recent p_hist]. rewrite last_last. repeat split.
      * rewrite HG. constructor; [rewrite <- HG; assumption|assumption].
      * apply insert_sorted; assumption.
      * apply insert_bounded; assumption.
      * intros t Hkt. rewrite aob_insert, aob_app_last by assumption. rewrite Hag by assumption. reflexivity.
    + injection Hstep as <- <-. cbv zeta. repeat split; assumption.
  - injection Hstep as <- <-. cbv zeta. unfold Inv. cbn [p_recent p_hist]. repeat split; try assumption.
    + apply prune_pair_sorted; assumption.
    + apply prune_pair_bounded; assumption.
    + intros t Ht. rewrite prune_pair_aob by (try assumption; lia). apply Hag. lia.
Qed.

Lemma inv_run evs : forall K p G p' G',
  Inv K p G -> prun lg p G evs = Some (p', G') -> Inv (max_keep K evs) p' G'.
Proof.
  induction evs as [|e evs IH]; intros K p G p' G' HI Hr; cbn [prun max_keep] in *.
  - injection Hr as <- <-. assumption.
  - destruct (pstep lg p e) as [[p1 o]|] eqn:Es; [|discriminate].
    pose proof (inv_step _ _ _ _ _ _ HI Es) as HI1. cbv zeta in HI1.
    destruct e as [now h w0 w1|keep b]; destruct o as [x|]; eapply IH; eassumption.
Qed.

(* ---- accumulators interpolated at a query time ---- *)
Definition evs_of (G : list rec) : list pevent := map ev_of_rec G.

Lemma step_at_price G (side : bool) d tau :
  step_at G (if side then r_p0 else r_p1) d tau = price_at (evs_of G) side d tau.
Proof.
  unfold step_at, price_at, evs_of. revert d. induction G as [|r G IH]; intros d; [reflexivity|].
  cbn [map fold_left]. rewrite IH. unfold ev_of_rec, ev_time, ev_price. cbn [fst snd]. destruct side; reflexivity.
Qed.

Lemma step_at_glog G d tau :
  step_at G (fun r => glogv (r_p0 r)) (glogv d) tau = glogv (price_at (evs_of G) true d tau).
Proof.
  unfold step_at, price_at, evs_of. revert d. induction G as [|r G IH]; intros d; [reflexivity|].
  cbn [map fold_left].
  change (ev_time (ev_of_rec r)) with (r_time r). change (ev_price true (ev_of_rec r)) with (r_p0 r).
  destruct (ms (r_time r) <=? tau); apply IH.
Qed.

Lemma interp_at_spec r t s :
  interp_at lg r t = Some s -> r_time r <= t ->
  r_time s = t /\ r_p0 s = r_p0 r /\ r_p1 s = r_p1 r /\
  r_a0 s = r_a0 r + r_p0 r * (ms t - ms (r_time r)) /\
  r_a1 s = r_a1 r + r_p1 r * (ms t - ms (r_time r)) /\
  r_g s = r_g r + glogv (r_p0 r) * (ms t - ms (r_time r)).
Proof.
  unfold interp_at. intros H Hle.
  destruct (r_time r =? r_err r); apply rec_interp_spec in H; cbn in *; try assumption; tauto.
Qed.

(* the three accumulators of a record interpolated from the chain at time t are the integrals of the step functions *)
Lemma chain_interp G t x s d :
  Chain G -> r_time (hd dr G) <= t -> hist_at_or_before G t = Some x -> interp_at lg x t = Some s ->
  let m0 := ms (r_time (hd dr G)) in
  r_time s = t /\
  r_a0 s = integral (price_at (evs_of G) true d) m0 (ms t) /\
  r_a1 s = integral (price_at (evs_of G) false d) m0 (ms t) /\
  r_g s = integral (fun tau => glogv (price_at (evs_of G) true d tau)) m0 (ms t).
Proof.
  intros HC Ht Hx Hs. cbv zeta.
  destruct (aob_in _ _ _ Hx) as [_ Hxt].
  destruct (interp_at_spec _ _ _ Hs Hxt) as (S1 & _ & _ & S4 & S5 & S6).
  pose proof (gchain_acc r_a0 r_p0 d G (chain_g0 _ HC) t x Ht Hx) as A0.
  pose proof (gchain_acc r_a1 r_p1 d G (chain_g1 _ HC) t x Ht Hx) as A1.
  pose proof (gchain_acc r_g _ (glogv d) G (chain_gg _ HC) t x Ht Hx) as Ag.
  repeat split; [assumption| | |].
  - rewrite S4, A0. apply integral_ext. intros. apply (step_at_price G true).
  - rewrite S5, A1. apply integral_ext. intros. apply (step_at_price G false).
  - rewrite S6, Ag. apply integral_ext. intros. apply step_at_glog.
Qed.

End WithLog.
