(* C10: the full statement of the geometric / answering clauses, the conditional theorem, and the refutation witnesses
   (findings F7 and C10-SUBMS) on the faithful model with the real twap_log / exp2. *)
From Coq Require Import ZArith List Bool Lia.
Import ListNotations.
From Osmo Require Import Base.DecModel Gen.C10_consts C10.Model C10.LogExp C10.Spec C10.ProofsList C10.ProofsChain C10.ProofsTwap C10.ProofsLog C10.ProofsAnswer.
Open Scope Z_scope.

(* ---- the full statement, and where the faithful model refutes it ----
   [geom_answer]: what the geometric TWAP must be for accumulator difference diff over n milliseconds - the code's
   rounding of Exp2 |diff/n| or of its reciprocal. *)
Definition C10_geom_full (lg ex : Z -> option Z) : Prop :=
  forall t0 h0 w0 w1 evs p G now q0 start stop f v,
  history lg t0 h0 w0 w1 evs p G -> r_time (p_recent p) <= now ->
  t0 <= start -> max_keep t0 evs <= start -> ms start < ms stop ->
  twap_between lg ex now p q0 true start stop = QVal f v ->
  geom_answer ex (integral (fun tau => glogv lg (price_at (spec_events t0 w0 w1 evs) true 0 tau)) (ms start) (ms stop))
              (ms stop - ms start) q0 v.

(* every answered query over an interval with start < end inside the window returns the mean (no panic, no error) *)
Definition C10_answers_full (lg ex : Z -> option Z) : Prop :=
  forall t0 h0 w0 w1 evs p G now q0 geom start stop,
  history lg t0 h0 w0 w1 evs p G -> r_time (p_recent p) <= now ->
  t0 <= start -> max_keep t0 evs <= start -> start < stop <= now ->
  exists f v, twap_between lg ex now p q0 geom start stop = QVal f v.

Lemma geom_conditional : forall lg ex t0 h0 w0 w1 evs p G now q0 start stop f v,
  history lg t0 h0 w0 w1 evs p G -> r_time (p_recent p) <= now ->
  t0 <= start -> max_keep t0 evs <= start -> ms start < ms stop ->
  twap_between lg ex now p q0 true start stop = QVal f v ->
  integral (fun tau => glogv lg (price_at (spec_events t0 w0 w1 evs) true 0 tau)) (ms start) (ms stop) <> 0 ->
  geom_answer ex (integral (fun tau => glogv lg (price_at (spec_events t0 w0 w1 evs) true 0 tau)) (ms start) (ms stop))
              (ms stop - ms start) q0 v.
Proof.
  intros lg ex t0 h0 w0 w1 evs p G now q0 start stop f v Hh Hn Hs Hk Hm Hq Hd.
  destruct (geom_structure lg ex _ _ _ _ _ _ _ _ _ _ _ _ _ Hh Hn Hs Hk Hm Hq) as [[D _]|[_ H]]; [contradiction|exact H].
Qed.

(* F7 witness: a pool whose spot price is exactly 1 (raw 10^36 in both directions), blocks at 0, 5 and 10 ms; the
   geometric TWAP over [1 ms, 4 ms] is 0, whereas Exp2 0 = 1 rounds to 1.000000000000000000 *)
Definition f7_raw : raw := mkRaw false false P36.
Definition f7_evs : list pev := [ PUpd 0 1 f7_raw f7_raw; PUpd 5000000 2 f7_raw f7_raw; PUpd 10000000 3 f7_raw f7_raw ].
Lemma geom_full_refuted : ~ C10_geom_full twap_log exp2.
Proof.
  intros H.
  assert (exists p G, history twap_log 0 1 f7_raw f7_raw f7_evs p G /\
            twap_between twap_log exp2 10000000 p true true 1000000 4000000 = QVal false 0 /\ r_time (p_recent p) <= 10000000)
    as (p & G & Hh & Hq & Hr).
  { eexists. eexists. split; [split; [|split]|split].
    - vm_compute; discriminate.
    - cbn [wf_from f7_evs]. repeat split; try (left; repeat split; reflexivity); right; lia.
    - vm_compute. reflexivity.
    - vm_compute. reflexivity.
    - vm_compute. discriminate. }
  specialize (H 0 1 f7_raw f7_raw f7_evs p G 10000000 true 1000000 4000000 false 0 Hh Hr ltac:(lia) ltac:(vm_compute; discriminate)
                ltac:(vm_compute; reflexivity) Hq).
  unfold geom_answer in H. cbv zeta in H. destruct H as (E & HE & HS).
  match type of HE with ?l = _ => assert (l = Some P36) as HX by (vm_compute; reflexivity) end.
  rewrite HX in HE. injection HE as <-.
  match type of HS with ?l = _ => assert (l = Some 1000000000000000000) as HY by (vm_compute; reflexivity) end.
  rewrite HY in HS. discriminate HS.
Qed.

(* C10-SUBMS witness: the same pool, the interval [1 ns, 2 ns] lies inside one millisecond: the arithmetic query panics *)
Lemma answers_full_refuted : ~ C10_answers_full twap_log exp2.
Proof.
  intros H.
  assert (exists p G, history twap_log 0 1 f7_raw f7_raw f7_evs p G /\
            twap_between twap_log exp2 10000000 p true false 1 2 = QErr EPanic /\ r_time (p_recent p) <= 10000000)
    as (p & G & Hh & Hq & Hr).
  { eexists. eexists. split; [split; [|split]|split].
    - vm_compute; discriminate.
    - cbn [wf_from f7_evs]. repeat split; try (left; repeat split; reflexivity); right; lia.
    - vm_compute. reflexivity.
    - vm_compute. reflexivity.
    - vm_compute. discriminate. }
  destruct (H 0 1 f7_raw f7_raw f7_evs p G 10000000 true false 1 2 Hh Hr ltac:(lia) ltac:(vm_compute; discriminate) ltac:(lia))
    as (f & v & Hv).
  rewrite Hq in Hv. discriminate Hv.
Qed.


(* ---- the arithmetic query is always answered (with the real twapLog) ---- *)
Lemma twap_log_ok : forall p, 0 < p <= maxp -> exists l, twap_log p = Some l /\ - maxp <= l <= maxp.
Proof.
  intros p Hp.
  assert (maxp <= 2 ^ 130 * P18) as H1 by (vm_compute; discriminate).
  assert (1300 * P18 <= maxp) as H2 by (vm_compute; discriminate).
  destruct (twap_log_total p ltac:(lia)) as (l & Hl & Hb). exists l. split; [assumption|]. lia.
Qed.

Lemma arith_answered_real ex t0 h0 w0 w1 evs p G now q0 start stop :
  history twap_log t0 h0 w0 w1 evs p G -> raw_nonneg w0 -> raw_nonneg w1 -> evs_nonneg evs ->
  r_time (p_recent p) <= now -> t0 <= start -> max_keep t0 evs <= start -> start <= stop <= now ->
  ms start < ms stop -> ms now - ms t0 <= span_max ->
  exists f v, twap_between twap_log ex now p q0 false start stop = QVal f v.
Proof. apply arith_answered. exact twap_log_ok. Qed.
