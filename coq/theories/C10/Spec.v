(* C10 specification vocabulary: the price step function of a history and its definitional integral.
   Independent of the records and accumulators of the implementation model. *)
From Coq Require Import ZArith List Bool Lia.
Import ListNotations.
From Osmo Require Import Base.DecModel Gen.C10_consts C10.Model.
Open Scope Z_scope.

(* a price event: (block time ns, price with asset 0 as quote, price with asset 1 as quote), chronological order *)
Definition pevent := (Z * Z * Z)%type.
Definition ev_time (e : pevent) : Z := fst (fst e).
Definition ev_price (side0 : bool) (e : pevent) : Z := if side0 then snd (fst e) else snd e.

(* the price in force during millisecond slot [tau, tau+1): the price of the last event (in history order) whose
   canonical millisecond time is <= tau; [dflt] before the first event *)
Definition price_at (evs : list pevent) (side0 : bool) (dflt : Z) (tau : Z) : Z :=
  fold_left (fun cur e => if ms (ev_time e) <=? tau then ev_price side0 e else cur) evs dflt.

(* sum of f over the n integer slots a, a+1, ..., a+n-1 *)
Fixpoint zsum (f : Z -> Z) (a : Z) (n : nat) : Z :=
  match n with O => 0 | S k => f a + zsum f (a + 1) k end.
(* the integral of a step function that is constant on millisecond slots, over [a, b) (milliseconds) *)
Definition integral (f : Z -> Z) (a b : Z) : Z := zsum f a (Z.to_nat (b - a)).

(* the spot prices getSpotPrices derives from the pool manager's answers (they do not depend on the times) *)
Definition spot_of (w0 w1 : raw) : Z * Z :=
  let '(a, b, _) := get_spot_prices 0 0 w0 w1 in (a, b).
(* does getSpotPrices report an error for these answers (pool error or a price above the maximum)? *)
Definition spot_err (w0 w1 : raw) : bool :=
  w_err w0 || w_err w1 ||
  ((if (w_err w0 || w_err w1) && w_nil w0 then 0 else w_val w0) >? max_spot_price_bigdec) ||
  ((if (w_err w0 || w_err w1) && w_nil w1 then 0 else w_val w1) >? max_spot_price_bigdec).

(* ---- the history of one (pool, asset pair): creation, then end-of-block updates (blocks in which the pool was
   marked as changed) and pruning passes reaching the pair ---- *)
Inductive pev :=
| PUpd (now height : Z) (w0 w1 : raw)      (* EndBlock at block time [now]: updateRecord with the pool's raw spot prices *)
| PPrune (keep budget : Z).                (* pruneRecordsBeforeTimeButNewest reaches the pair with [budget] deletions left *)

Definition pcreate (now height : Z) (w0 w1 : raw) : pairst :=
  let r := new_record now height w0 w1 in mkPair r [r].

Section WithLog.
Variable lg : Z -> option Z.

(* one event; the second component is the record stored by it, if any. None = a panic escaped *)
Definition pstep (p : pairst) (e : pev) : option (pairst * option rec) :=
  match e with
  | PUpd now height w0 w1 =>
      match update_record lg now height (p_recent p) w0 w1 with
      | UOk r => Some (store_new r p, Some r)
      | UErr => Some (p, None)
      | UPanic => None
      end
  | PPrune keep budget => Some (mkPair (p_recent p) (fst (prune_pair keep budget (p_hist p))), None)
  end.

(* run a history; G collects every record ever stored, in order (ghost: pruning does not touch it) *)
Fixpoint prun (p : pairst) (G : list rec) (evs : list pev) : option (pairst * list rec) :=
  match evs with
  | [] => Some (p, G)
  | e :: r => match pstep p e with
              | None => None
              | Some (p', Some x) => prun p' (G ++ [x]) r
              | Some (p', None) => prun p' G r
              end
  end.
End WithLog.

Definition ev_of_rec (r : rec) : pevent := (r_time r, r_p0 r, r_p1 r).

(* the price events a history prescribes: creation, then one per update, with the pool's spot prices at that block end *)
Fixpoint upd_events (evs : list pev) : list pevent :=
  match evs with
  | [] => []
  | PUpd now _ w0 w1 :: r => (now, fst (spot_of w0 w1), snd (spot_of w0 w1)) :: upd_events r
  | PPrune _ _ :: r => upd_events r
  end.
Definition spec_events (t0 : Z) (w0 w1 : raw) (evs : list pev) : list pevent :=
  (t0, fst (spot_of w0 w1), snd (spot_of w0 w1)) :: upd_events evs.

(* block times and heights of the updates strictly increase; the first update may share the creation block *)
Fixpoint wf_from (first : bool) (t h : Z) (evs : list pev) : Prop :=
  match evs with
  | [] => True
  | PUpd now height _ _ :: r =>
      ((first = true /\ now = t /\ height = h) \/ (t < now /\ h < height)) /\ wf_from false now height r
  | PPrune _ _ :: r => wf_from first t h r
  end.
(* the largest keep time of the pruning passes so far: queries at or after it are inside the retention window *)
Fixpoint max_keep (k : Z) (evs : list pev) : Z :=
  match evs with
  | [] => k
  | PUpd _ _ _ _ :: r => max_keep k r
  | PPrune keep _ :: r => max_keep (Z.max k keep) r
  end.

(* ---- histories of the whole module state ---- *)
Inductive gop :=
| GCreate (raws : list (raw * raw))                     (* a pool is created (afterCreatePool) *)
| GTouch (id : Z)                                       (* a price-affecting operation on a pool (trackChangedPool) *)
| GEnd (dt : Z) (raws : list (Z * list (raw * raw)))    (* EndBlock with every pool's raw spot prices; the next block starts dt later *)
| GPrune (keep last : Z)                                (* the pruning state is set *)
| GEpoch.                                               (* the epoch hook sets the pruning state *)

Section Global.
Variable lg : Z -> option Z.
Definition gstep (st : state) (o : gop) : state :=
  match o with
  | GCreate raws => create_pool st raws
  | GTouch id => track st id
  | GEnd dt raws => next_block (end_block lg st raws) dt
  | GPrune keep last => set_pruning st keep last
  | GEpoch => epoch_end st
  end.
(* run, also collecting the largest keep time ever put into the pruning state *)
Fixpoint grun (st : state) (km : Z) (ops : list gop) : state * Z :=
  match ops with
  | [] => (st, km)
  | o :: r =>
      let km' := match o with
                 | GPrune keep _ => Z.max km keep
                 | GEpoch => if 0 <? Z.of_nat (length (s_pools st)) then Z.max km (s_now st - s_keep_period st) else km
                 | _ => km
                 end in
      grun (gstep st o) km' r
  end.
End Global.

Definition ginit (t0 h0 limit keep_period : Z) : state :=
  mkState t0 h0 [] [] (mkPruning false zero_time 0) keep_period limit false.
Definition pair_of (st : state) (id : Z) (k : nat) : option pairst :=
  match get_pool st id with Some pl => nth_error pl k | None => None end.
Fixpoint positive_dts (ops : list gop) : Prop :=
  match ops with
  | [] => True
  | GEnd dt _ :: r => 0 < dt /\ positive_dts r
  | _ :: r => positive_dts r
  end.
