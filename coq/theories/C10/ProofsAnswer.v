(* C10: inside the retention window every arithmetic query over ms start < ms stop IS answered (no panic, no error),
   provided the pool manager's raw prices are non-negative, the history spans at most 2^63 ms and the logarithm used by the
   record interpolation is defined and bounded on the admissible prices. *)
From Coq Require Import ZArith List Bool Lia Sorted.
Import ListNotations.
From Osmo Require Import Base.DecModel Gen.C10_consts C10.Model C10.Spec C10.ProofsSum C10.ProofsList C10.ProofsChain C10.ProofsTwap.
Open Scope Z_scope.

Definition maxp : Z := bd_to_dec max_spot_price_bigdec.          (* the largest recordable price, Dec *)
Definition span_max : Z := 2 ^ 63.                               (* milliseconds *)

Lemma maxp_pos : 0 < maxp. Proof. reflexivity. Qed.
Lemma bound_fits : maxp * span_max <= upper_limit18. Proof. vm_compute. discriminate. Qed.

Lemma dchk_ok z : - upper_limit18 <= z <= upper_limit18 -> dchk z = Some z.
Proof.
  intros H. unfold dchk, d_fits.
  destruct (z <=? upper_limit18) eqn:E1; [|lia]. destruct (- upper_limit18 <=? z) eqn:E2; [reflexivity|lia].
Qed.

(* prices produced by getSpotPrices from non-negative raw prices lie in [0, maxp] *)
Definition raw_nonneg (w : raw) : Prop := 0 <= w_val w.
Lemma spot_of_range w0 w1 : raw_nonneg w0 -> raw_nonneg w1 ->
  0 <= fst (spot_of w0 w1) <= maxp /\ 0 <= snd (spot_of w0 w1) <= maxp.
Proof.
  unfold raw_nonneg, spot_of, get_spot_prices, maxp. intros H0 H1.
  remember (w_err w0 || w_err w1) as e eqn:He. clear He.
  assert (0 < P18) as HP by reflexivity.
  assert (0 <= max_spot_price_bigdec) as HM by (vm_compute; discriminate).
  assert (forall v, 0 <= v <= max_spot_price_bigdec -> 0 <= bd_to_dec v <= bd_to_dec max_spot_price_bigdec) as Hq.
  { intros v [Hv1 Hv2]. unfold bd_to_dec. rewrite !Z.quot_div_nonneg by lia. split; [apply Z.div_pos; lia|apply Z.div_le_mono; lia]. }
  set (v0 := if e && w_nil w0 then 0 else w_val w0). set (v1 := if e && w_nil w1 then 0 else w_val w1).
  assert (0 <= v0) by (subst v0; destruct (e && w_nil w0); lia).
  assert (0 <= v1) by (subst v1; destruct (e && w_nil w1); lia).
  destruct (v0 >? max_spot_price_bigdec) eqn:E0; destruct (v1 >? max_spot_price_bigdec) eqn:E1; cbn [fst snd];
    split; apply Hq; lia.
Qed.

Fixpoint evs_nonneg (evs : list pev) : Prop :=
  match evs with
  | [] => True
  | PUpd _ _ w0 w1 :: r => raw_nonneg w0 /\ raw_nonneg w1 /\ evs_nonneg r
  | PPrune _ _ :: r => evs_nonneg r
  end.

Definition ev_in_range (e : pevent) : Prop := 0 <= snd (fst e) <= maxp /\ 0 <= snd e <= maxp.
Lemma upd_events_range evs : evs_nonneg evs -> Forall ev_in_range (upd_events evs).
Proof.
  induction evs as [|e evs IH]; cbn [evs_nonneg upd_events]; [constructor|].
  destruct e as [now h w0 w1|keep b]; [|exact IH]. intros (H0 & H1 & H). constructor; [|auto].
  unfold ev_in_range. cbn [fst snd]. apply spot_of_range; assumption.
Qed.

Section Answer.
Variable lg : Z -> option Z.
Variable ex : Z -> option Z.
(* twapLog is defined and bounded on the admissible prices *)
Hypothesis lg_ok : forall p, 0 < p <= maxp -> exists l, lg p = Some l /\ - maxp <= l <= maxp.

Lemma glogv_range p : 0 <= p <= maxp -> - maxp <= glogv lg p <= maxp.
Proof.
  intros Hp. unfold glogv. pose proof maxp_pos. destruct (p =? 0) eqn:E; [lia|].
  apply Z.eqb_neq in E. destruct (lg_ok p ltac:(lia)) as (l & -> & Hl). exact Hl.
Qed.

Lemma step_at_range (val : rec -> Z) lo hi G : (forall r, In r G -> lo <= val r <= hi) ->
  forall d tau, lo <= d <= hi -> lo <= step_at G val d tau <= hi.
Proof.
  unfold step_at. induction G as [|r G IH]; intros HG d tau Hd; cbn [fold_left]; [assumption|].
  apply IH; [intros; apply HG; right; assumption|].
  destruct (ms (r_time r) <=? tau); [apply HG; left; reflexivity|assumption].
Qed.

Lemma chain_hd_le_time G x : Chain lg G -> In x G -> r_time (hd dr G) <= r_time x.
Proof.
  intros HC Hin. destruct (chain_err _ _ HC) as (_ & _ & Hs & _).
  destruct G as [|y G]; [destruct Hin|]. cbn [hd]. destruct Hin as [->|Hin]; [lia|].
  inversion Hs as [|? ? _ Hf]; subst. rewrite Forall_forall in Hf. apply Hf. assumption.
Qed.

Definition rec_in_range (r : rec) : Prop := 0 <= r_p0 r <= maxp /\ 0 <= r_p1 r <= maxp.

(* interpolation of a chain member never panics within the span *)
Lemma interp_total G x t (e : Z) :
  Chain lg G -> (forall r, In r G -> rec_in_range r) ->
  r_time (hd dr G) <= t -> ms t - ms (r_time (hd dr G)) <= span_max ->
  hist_at_or_before G t = Some x ->
  exists s, rec_interp lg (mkRec (r_time x) (r_height x) (r_p0 x) (r_p1 x) (r_a0 x) (r_a1 x) (r_g x) e) t = Some s.
Proof.
  intros HC HR Ht Hspan Hx.
  destruct (aob_in _ _ _ Hx) as [Hin Hxt]. destruct (HR x Hin) as [[P0a P0b] [P1a P1b]].
  pose proof (chain_hd_le_time G x HC Hin) as Hhd.
  pose proof maxp_pos as Hmp. pose proof bound_fits as Hfit.
  set (m0 := ms (r_time (hd dr G))) in *.
  assert (m0 <= ms (r_time x) <= ms t) as Hms by (split; apply ms_mono; assumption).
  pose proof (gchain_acc r_a0 r_p0 0 G (chain_g0 _ _ HC) t x Ht Hx) as A0.
  pose proof (gchain_acc r_a1 r_p1 0 G (chain_g1 _ _ HC) t x Ht Hx) as A1.
  pose proof (gchain_acc r_g _ 0 G (chain_gg _ _ HC) t x Ht Hx) as Ag.
  cbv beta in Ag. fold m0 in A0, A1, Ag.
  assert (0 <= integral (step_at G r_p0 0) m0 (ms t) <= maxp * (ms t - m0)) as B0.
  { pose proof (integral_bounds (step_at G r_p0 0) m0 (ms t) 0 maxp ltac:(lia)
       ltac:(intros; apply step_at_range; [intros r Hr; apply (HR r Hr)|lia])). lia. }
  assert (0 <= integral (step_at G r_p1 0) m0 (ms t) <= maxp * (ms t - m0)) as B1.
  { pose proof (integral_bounds (step_at G r_p1 0) m0 (ms t) 0 maxp ltac:(lia)
       ltac:(intros; apply step_at_range; [intros r Hr; apply (HR r Hr)|lia])). lia. }
  assert (- maxp * (ms t - m0) <= integral (step_at G (fun r => glogv lg (r_p0 r)) 0) m0 (ms t) <= maxp * (ms t - m0)) as Bg.
  { pose proof (integral_bounds (step_at G (fun r => glogv lg (r_p0 r)) 0) m0 (ms t) (- maxp) maxp ltac:(lia)
       ltac:(intros; apply step_at_range; [intros r Hr; apply glogv_range; apply (HR r Hr)|lia])). lia. }
  assert (maxp * (ms t - m0) <= upper_limit18) as HU by nia.
  set (dt := ms t - ms (r_time x)) in *.
  assert (0 <= dt <= ms t - m0) as Hdt by (subst dt; lia).
  unfold rec_interp. cbn [r_time r_p0 r_p1 r_a0 r_a1 r_g r_height r_err].
  destruct (r_time x =? t); [eauto|]. fold dt.
  assert (0 <= r_p0 x * dt <= maxp * (ms t - m0)) as M0 by nia.
  assert (0 <= r_p1 x * dt <= maxp * (ms t - m0)) as M1 by nia.
  rewrite (dchk_ok (r_p0 x * dt)) by lia.
  rewrite (dchk_ok (r_p0 x * dt + r_a0 x)) by lia.
  rewrite (dchk_ok (r_p1 x * dt)) by lia.
  rewrite (dchk_ok (r_p1 x * dt + r_a1 x)) by lia.
  destruct (r_p0 x =? 0) eqn:Ez; [eauto|]. apply Z.eqb_neq in Ez.
  destruct (lg_ok (r_p0 x) ltac:(lia)) as (l & Hl & Hlr). rewrite Hl.
  assert (glogv lg (r_p0 x) = l) as Hgl by (unfold glogv; destruct (r_p0 x =? 0) eqn:E'; [lia|rewrite Hl; reflexivity]).
  rewrite Hgl in Ag.
  assert (- (maxp * (ms t - m0)) <= l * dt <= maxp * (ms t - m0)) as Mg by nia.
  rewrite (dchk_ok (l * dt)) by lia.
  rewrite (dchk_ok (l * dt + r_g x)) by lia. eauto.
Qed.

Lemma rec_eta x : mkRec (r_time x) (r_height x) (r_p0 x) (r_p1 x) (r_a0 x) (r_a1 x) (r_g x) (r_err x) = x.
Proof. destruct x; reflexivity. Qed.

Theorem arith_answered t0 h0 w0 w1 evs p G now q0 start stop :
  history lg t0 h0 w0 w1 evs p G -> raw_nonneg w0 -> raw_nonneg w1 -> evs_nonneg evs ->
  r_time (p_recent p) <= now -> t0 <= start -> max_keep t0 evs <= start -> start <= stop <= now ->
  ms start < ms stop -> ms now - ms t0 <= span_max ->
  exists f v, twap_between lg ex now p q0 false start stop = QVal f v.
Proof.
  intros Hh Hw0 Hw1 Hev Hnow Hs HK Hord Hms Hspan.
  destruct (history_inv lg _ _ _ _ _ _ _ Hh) as (HI & HE & Hhd & Hrec).
  pose proof HI as (HC & _ & Hsorted & Hb & Hag).
  assert (forall r, In r G -> rec_in_range r) as HR.
  { intros r Hr. assert (In (ev_of_rec r) (evs_of G)) as Hin by (unfold evs_of; apply in_map; assumption).
    rewrite HE in Hin. unfold spec_events in Hin. destruct Hin as [Heq|Hin].
    - unfold rec_in_range. pose proof (spot_of_range w0 w1 Hw0 Hw1) as Hr0. unfold ev_of_rec in Heq.
      injection Heq as _ E0 E1. rewrite <- E0, <- E1. exact Hr0.
    - pose proof (upd_events_range evs Hev) as HF. rewrite Forall_forall in HF. specialize (HF _ Hin).
      unfold ev_in_range, ev_of_rec in HF. cbn [fst snd] in HF. exact HF. }
  destruct (chain_err _ _ HC) as (_ & _ & Hst & _).
  assert (In (hd dr G) G) as Hhdin by (pose proof (chain_nonempty lg G HC); destruct G; [contradiction|left; reflexivity]).
  assert (forall t, t0 <= t -> exists x, hist_at_or_before G t = Some x) as Hlook
    by (intros t Ht; eapply aob_some_of_member; [exact Hst|exact Hhdin|lia]).
  assert (forall t, t0 <= t <= now -> ms t - ms (r_time (hd dr G)) <= span_max) as Hsp.
  { intros t Ht. rewrite Hhd. pose proof (ms_mono t now ltac:(lia)). lia. }
  (* the two interpolations *)
  destruct (Hlook start Hs) as (xs & Hxs).
  assert (exists s, interp_at lg xs start = Some s) as (s & Hsi).
  { unfold interp_at. destruct (r_time xs =? r_err xs).
    - eapply interp_total; try eassumption; [lia|apply Hsp; lia].
    - rewrite <- (rec_eta xs). eapply interp_total; try eassumption; [lia|apply Hsp; lia]. }
  assert (exists xe e, hist_at_or_before G stop = Some xe /\
            ((stop <> now /\ interp_at lg xe stop = Some e) \/ (stop = now /\ xe = last G dr /\ rec_interp lg xe stop = Some e)))
    as (xe & e & Hxe & Hei).
  { destruct (Z.eq_dec stop now) as [->|Hne].
    - exists (last G dr). assert (hist_at_or_before G now = Some (last G dr)) as Hl by (apply (aob_last lg ex); [assumption|rewrite <- Hrec; assumption]).
      destruct (interp_total G (last G dr) now (r_err (last G dr)) HC HR ltac:(lia) ltac:(apply Hsp; lia) Hl) as (e & He).
      rewrite rec_eta in He. exists e. split; [assumption|]. right. repeat split; assumption.
    - destruct (Hlook stop ltac:(lia)) as (xe & Hxe). exists xe.
      assert (exists e, interp_at lg xe stop = Some e) as (e & He).
      { unfold interp_at. destruct (r_time xe =? r_err xe).
        - eapply interp_total; try eassumption; [lia|apply Hsp; lia].
        - rewrite <- (rec_eta xe). eapply interp_total; try eassumption; [lia|apply Hsp; lia]. }
      exists e. split; [assumption|]. left. split; assumption. }
  destruct (chain_err _ _ HC) as (Herr & _).
  assert (RecAt lg G xs s start) as Rs by (apply recat_interp; assumption).
  assert (RecAt lg G xe e stop) as Re.
  { destruct Hei as [[_ He]|(_ & _ & He)]; [apply recat_interp|apply recat_rec_interp]; assumption. }
  (* computeTwap succeeds *)
  assert (exists f v, compute_twap ex s e q0 false = Some (f, v)) as (f & v & Hc).
  { assert (r_time (hd dr G) <= start) as Hh1 by lia. assert (r_time (hd dr G) <= stop) as Hh2 by lia.
    destruct (recat_integrals lg G xs s start 0 HC Hh1 Rs) as (Is0 & Is1 & _).
    destruct (recat_integrals lg G xe e stop 0 HC Hh2 Re) as (Ie0 & Ie1 & _).
    destruct Rs as (_ & _ & Ts & _). destruct Re as (_ & _ & Te & _).
    unfold compute_twap. rewrite Ts, Te.
    destruct (stop - start =? 0) eqn:E0.
    { apply Z.eqb_eq in E0. assert (stop = start) as Hss by lia. rewrite Hss in Hms. lia. }
    unfold arith_twap. rewrite Ts, Te.
    assert (ms (r_time (hd dr G)) <= ms start) as Hm0 by (apply ms_mono; lia).
    pose proof maxp_pos as Hmp. pose proof bound_fits as Hfit.
    assert (ms stop - ms start <= span_max) as Hsp2.
    { pose proof (Hsp stop ltac:(lia)). lia. }
    assert (forall side, 0 <= integral (price_at (evs_of G) side 0) (ms start) (ms stop) <= maxp * (ms stop - ms start)) as HB.
    { intros side.
      pose proof (integral_bounds (price_at (evs_of G) side 0) (ms start) (ms stop) 0 maxp ltac:(lia)) as Hib.
      assert (forall i, ms start <= i < ms stop -> 0 <= price_at (evs_of G) side 0 i <= maxp) as Hpa.
      { intros i _. rewrite <- step_at_price. apply step_at_range; [|lia].
        intros r Hr. destruct (HR r Hr) as [H0 H1]. destruct side; assumption. }
      specialize (Hib Hpa). lia. }
    destruct q0.
    - rewrite Ie0, Is0. rewrite (integral_split _ _ (ms start) (ms stop)) by lia.
      replace (integral (price_at (evs_of G) true 0) (ms (r_time (hd dr G))) (ms start) +
               integral (price_at (evs_of G) true 0) (ms start) (ms stop) -
               integral (price_at (evs_of G) true 0) (ms (r_time (hd dr G))) (ms start))
        with (integral (price_at (evs_of G) true 0) (ms start) (ms stop)) by lia.
      pose proof (HB true). rewrite dchk_ok by nia.
      destruct (ms stop - ms start =? 0) eqn:Ed; [lia|]. eauto.
    - rewrite Ie1, Is1. rewrite (integral_split _ _ (ms start) (ms stop)) by lia.
      replace (integral (price_at (evs_of G) false 0) (ms (r_time (hd dr G))) (ms start) +
               integral (price_at (evs_of G) false 0) (ms start) (ms stop) -
               integral (price_at (evs_of G) false 0) (ms (r_time (hd dr G))) (ms start))
        with (integral (price_at (evs_of G) false 0) (ms start) (ms stop)) by lia.
      pose proof (HB false). rewrite dchk_ok by nia.
      destruct (ms stop - ms start =? 0) eqn:Ed; [lia|]. eauto. }
  exists f, v.
  unfold twap_between. destruct (start >? stop) eqn:E1; [lia|].
  destruct Hei as [[Hne He]|(-> & -> & He)].
  - destruct (stop =? now) eqn:E2; [lia|]. destruct (stop >? now) eqn:E3; [lia|].
    rewrite Hag by lia. rewrite Hxs, Hsi. rewrite Hag by lia. rewrite Hxe, He. unfold wrap. rewrite Hc. reflexivity.
  - rewrite Z.eqb_refl. unfold twap_to_now. destruct (start >? now) eqn:E4; [lia|].
    rewrite Hag by lia. rewrite Hxs, Hsi, Hrec, He. unfold wrap. rewrite Hc. reflexivity.
Qed.

End Answer.
