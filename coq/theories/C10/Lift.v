(* C10: every pair of every reachable module state is the result of a well-formed pair history - so the per-pair
   theorems (ProofsTwap.v) speak about the module-level model that the correspondence check runs (EndBlock over the
   changed pools, pruning over pools and pairs with its per-block limit, pool creation, the epoch hook). *)
From Coq Require Import ZArith List Bool Lia Sorted.
Import ListNotations.
From Osmo Require Import Base.DecModel Gen.C10_consts C10.Model C10.Spec C10.ProofsList C10.ProofsChain C10.ProofsTwap.
Open Scope Z_scope.

(* ---- list updates ---- *)
Lemma set_nth_length {A} n (x : A) l : length (set_nth n x l) = length l.
Proof. revert n; induction l as [|y l IH]; intros [|n]; cbn; auto. Qed.
Lemma nth_set_nth_eq {A} n (x : A) l : (n < length l)%nat -> nth_error (set_nth n x l) n = Some x.
Proof. revert n; induction l as [|y l IH]; intros [|n] H; cbn in *; try lia; auto. apply IH. lia. Qed.
Lemma nth_set_nth_neq {A} n m (x : A) l : n <> m -> nth_error (set_nth n x l) m = nth_error l m.
Proof. revert n m; induction l as [|y l IH]; intros [|n] [|m] H; cbn; auto; try contradiction. Qed.

Lemma get_set_same st id p0 p : get_pool st id = Some p0 -> get_pool (set_pool st id p) id = Some p.
Proof.
  unfold get_pool, set_pool. cbn [s_pools]. destruct (id <=? 0); [discriminate|]. intros H.
  apply nth_set_nth_eq. apply nth_error_Some. congruence.
Qed.
Lemma get_set_other st id id' p : 0 < id -> id <> id' -> get_pool (set_pool st id p) id' = get_pool st id'.
Proof.
  intros H0 Hne. unfold get_pool, set_pool. cbn [s_pools]. destruct (id' <=? 0) eqn:E; [reflexivity|].
  apply nth_set_nth_neq. lia.
Qed.
Lemma get_pool_pos st id pl : get_pool st id = Some pl -> 0 < id.
Proof. unfold get_pool. destruct (id <=? 0) eqn:E; [discriminate|lia]. Qed.

(* ---- appending to a pair history ---- *)
Fixpoint last_upd (first : bool) (t h : Z) (evs : list pev) : bool * Z * Z :=
  match evs with
  | [] => (first, t, h)
  | PUpd now height _ _ :: r => last_upd false now height r
  | PPrune _ _ :: r => last_upd first t h r
  end.

Lemma wf_app e1 : forall f t h e2,
  wf_from f t h (e1 ++ e2) <-> wf_from f t h e1 /\ (let '(f', t', h') := last_upd f t h e1 in wf_from f' t' h' e2).
Proof.
  induction e1 as [|e e1 IH]; intros f t h e2; cbn [app wf_from last_upd].
  - tauto.
  - destruct e as [now height w0 w1|keep b].
    + rewrite IH. tauto.
    + apply IH.
Qed.

Lemma max_keep_app e1 : forall k e2, max_keep k (e1 ++ e2) = max_keep (max_keep k e1) e2.
Proof. induction e1 as [|e e1 IH]; intros k e2; cbn [app max_keep]; [reflexivity|]. destruct e; apply IH. Qed.
Lemma max_keep_ge e : forall k, k <= max_keep k e.
Proof. induction e as [|x e IH]; intros k; cbn [max_keep]; [lia|]. destruct x; [apply IH|]. specialize (IH (Z.max k keep)). lia. Qed.
Lemma max_keep_mono e : forall k k', k <= k' -> max_keep k e <= max_keep k' e.
Proof. induction e as [|x e IH]; intros k k' H; cbn [max_keep]; [lia|]. destruct x; apply IH; lia. Qed.
(* all keep times of the history are bounded by km *)
Lemma max_keep_bound e : forall k km, k <= km -> (forall keep b, In (PPrune keep b) e -> keep <= km) -> max_keep k e <= km.
Proof.
  induction e as [|x e IH]; intros k km Hk H; cbn [max_keep]; [lia|].
  destruct x as [? ? ? ?|keep b].
  - apply IH; [lia|]. intros; eapply H; right; eassumption.
  - apply IH; [pose proof (H keep b (or_introl eq_refl)); lia|]. intros; eapply H; right; eassumption.
Qed.

Section Lift.
Variable lg : Z -> option Z.

Lemma prun_app e1 : forall p G e2,
  prun lg p G (e1 ++ e2) = match prun lg p G e1 with Some (p', G') => prun lg p' G' e2 | None => None end.
Proof.
  induction e1 as [|e e1 IH]; intros p G e2; cbn [app prun]; [reflexivity|].
  destruct (pstep lg p e) as [[p1 [x|]]|]; auto.
Qed.

(* a pair as the invariant sees it inside a block at time [now] / height [height] *)
Definition PairOK (now height km : Z) (p : pairst) : Prop :=
  exists t0 h0 w0 w1 evs G,
    history lg t0 h0 w0 w1 evs p G /\
    (forall keep b, In (PPrune keep b) evs -> keep <= km) /\ (t0 <= now /\ r_time (p_recent p) <= now) /\
    (let '(f, tl, hl) := last_upd true t0 h0 evs in
     (tl < now /\ hl < height) \/ (f = true /\ tl = now /\ hl = height)).

Lemma pairok_weaken now height km now' height' km' p :
  PairOK now height km p -> now < now' -> height < height' -> km <= km' -> PairOK now' height' km' p.
Proof.
  intros (t0 & h0 & w0 & w1 & evs & G & Hh & Hk & Ht & Hl) Hn Hhh Hkm.
  exists t0, h0, w0, w1, evs, G. split; [exact Hh|]. split; [|split].
  - intros keep b Hin. specialize (Hk keep b Hin). lia.
  - lia.
  - destruct (last_upd true t0 h0 evs) as [[f tl] hl]. left. lia.
Qed.
Lemma pairok_km now height km km' p : PairOK now height km p -> km <= km' -> PairOK now height km' p.
Proof.
  intros (t0 & h0 & w0 & w1 & evs & G & Hh & Hk & Ht & Hl) Hkm.
  exists t0, h0, w0, w1, evs, G. split; [exact Hh|]. split; [|split; assumption].
  intros keep b Hin. specialize (Hk keep b Hin). lia.
Qed.

Lemma pairok_create now height km w0 w1 : zero_time <= now -> PairOK now height km (pcreate now height w0 w1).
Proof.
  intros Hz. exists now, height, w0, w1, [], [new_record now height w0 w1].
  split; [|split; [|split]].
  - split; [assumption|]. split; [cbn; trivial|reflexivity].
  - intros keep b [].
  - split; [lia|]. unfold pcreate. cbn [p_recent]. pose proof (new_record_spec lg now height w0 w1) as Hn. cbv zeta in Hn. lia.
  - cbn [last_upd]. right. repeat split; reflexivity.
Qed.

Definition PairNext (now height km : Z) (p : pairst) : Prop :=
  forall now' height', now < now' -> height < height' -> PairOK now' height' km p.

Lemma pairnext_of_ok now height km p : PairOK now height km p -> PairNext now height km p.
Proof. intros H now' height' Hn Hh. eapply pairok_weaken; try eassumption. lia. Qed.

Lemma last_upd_snoc_upd evs now height w0 w1 : forall f t h,
  last_upd f t h (evs ++ [PUpd now height w0 w1]) = (false, now, height).
Proof. induction evs as [|e evs IH]; intros f t h; cbn [app last_upd]; [reflexivity|]. destruct e; apply IH. Qed.
Lemma last_upd_snoc_prune evs keep b : forall f t h,
  last_upd f t h (evs ++ [PPrune keep b]) = last_upd f t h evs.
Proof. induction evs as [|e evs IH]; intros f t h; cbn [app last_upd]; [reflexivity|]. destruct e; apply IH. Qed.

Lemma update_record_time now height r w0 w1 r' : update_record lg now height r w0 w1 = UOk r' -> r_time r' = now.
Proof.
  unfold update_record.
  destruct (((r_height r =? height) || (r_time r =? now)) && negb (r_a1 r =? 0) && negb (r_a0 r =? 0)); [discriminate|].
  destruct ((r_height r >? height) || (r_time r >? now)); [discriminate|].
  destruct (rec_interp lg r now) as [nr|] eqn:Ei; [|discriminate].
  destruct (get_spot_prices now (r_err r) w0 w1) as [[sp0 sp1] lt]. intros H. injection H as <-. cbn [r_time].
  unfold rec_interp in Ei. destruct (r_time r =? now) eqn:E.
  - injection Ei as <-. apply Z.eqb_eq in E. exact E.
  - destruct (dchk (r_p0 r * (ms now - ms (r_time r)))); [|discriminate].
    destruct (dchk (z + r_a0 r)); [|discriminate].
    destruct (dchk (r_p1 r * (ms now - ms (r_time r)))); [|discriminate].
    destruct (dchk (z1 + r_a1 r)); [|discriminate].
    destruct (r_p0 r =? 0); [injection Ei as <-; reflexivity|].
    destruct (lg (r_p0 r)); [|discriminate]. destruct (dchk (z3 * (ms now - ms (r_time r)))); [|discriminate].
    destruct (dchk (z4 + r_g r)); [|discriminate]. injection Ei as <-. reflexivity.
Qed.

Lemma pairok_update now height km p w0 w1 r :
  PairOK now height km p -> update_record lg now height (p_recent p) w0 w1 = UOk r ->
  PairNext now height km (store_new r p).
Proof.
  intros (t0 & h0 & a0 & a1 & evs & G & (Hz & Hwf & Hrun) & Hk & Ht & Hl) Hu now' height' Hn Hh2.
  exists t0, h0, a0, a1, (evs ++ [PUpd now height w0 w1]), (G ++ [r]). split; [|split; [|split]].
  - split; [assumption|]. split.
    + apply wf_app. split; [assumption|]. destruct (last_upd true t0 h0 evs) as [[f tl] hl].
      cbn [wf_from]. split; [|trivial]. destruct Hl as [[H1 H2]|(H1 & H2 & H3)]; [right; lia|left; repeat split; congruence].
    + rewrite prun_app, Hrun. cbn [prun pstep]. rewrite Hu. reflexivity.
  - intros keep b Hin. rewrite in_app_iff in Hin. destruct Hin as [Hin|[Hin|[]]]; [eauto|discriminate].
  - split; [lia|]. unfold store_new. cbn [p_recent]. rewrite (update_record_time _ _ _ _ _ _ Hu). lia.
  - rewrite last_upd_snoc_upd. left. lia.
Qed.

Lemma pairok_prune now height km p keep b :
  PairOK now height km p -> keep <= km ->
  PairOK now height km (mkPair (p_recent p) (fst (prune_pair keep b (p_hist p)))).
Proof.
  intros (t0 & h0 & a0 & a1 & evs & G & (Hz & Hwf & Hrun) & Hk & Ht & Hl) Hkeep.
  exists t0, h0, a0, a1, (evs ++ [PPrune keep b]), G. split; [|split; [|split]].
  - split; [assumption|]. split.
    + apply wf_app. split; [assumption|]. destruct (last_upd true t0 h0 evs) as [[f tl] hl]. cbn [wf_from]. trivial.
    + rewrite prun_app, Hrun. reflexivity.
  - intros keep' b' Hin. rewrite in_app_iff in Hin. destruct Hin as [Hin|[Hin|[]]]; [eauto|]. injection Hin as <- <-. assumption.
  - assumption.
  - rewrite last_upd_snoc_prune. assumption.
Qed.

Lemma pairnext_prune now height km p keep b :
  PairNext now height km p -> keep <= km ->
  PairNext now height km (mkPair (p_recent p) (fst (prune_pair keep b (p_hist p)))).
Proof. intros H Hk now' height' Hn Hh. apply pairok_prune; auto. Qed.


(* ---- one block end: what happens to the pools ---- *)
Definition PairStep (now height : Z) (p p' : pairst) : Prop :=
  p' = p \/ exists w0 w1 r, update_record lg now height (p_recent p) w0 w1 = UOk r /\ p' = store_new r p.
Definition PairPruned (keep : Z) (p p' : pairst) : Prop :=
  exists bs, p' = mkPair (p_recent p) (fold_left (fun hs b => fst (prune_pair keep b hs)) bs (p_hist p)).

Lemma pairpruned_refl keep p : PairPruned keep p p.
Proof. exists []. destruct p; reflexivity. Qed.
Lemma pairpruned_trans keep p1 p2 p3 : PairPruned keep p1 p2 -> PairPruned keep p2 p3 -> PairPruned keep p1 p3.
Proof.
  intros (b1 & ->) (b2 & ->). exists (b1 ++ b2). cbn [p_recent p_hist]. rewrite fold_left_app. reflexivity.
Qed.

Lemma Forall2_refl {A} (R : A -> A -> Prop) l : (forall x, R x x) -> Forall2 R l l.
Proof. intros H. induction l; constructor; auto. Qed.
Lemma Forall2_trans {A} (R : A -> A -> Prop) l1 : (forall x y z, R x y -> R y z -> R x z) ->
  forall l2 l3, Forall2 R l1 l2 -> Forall2 R l2 l3 -> Forall2 R l1 l3.
Proof.
  intros HT. induction l1 as [|x l1 IH]; intros l2 l3 H12 H23; inversion H12; subst; inversion H23; subst; constructor; eauto.
Qed.
Lemma Forall2_nth_r {A} (R : A -> A -> Prop) l l' n y :
  Forall2 R l l' -> nth_error l' n = Some y -> exists x, nth_error l n = Some x /\ R x y.
Proof.
  intros H. revert n. induction H as [|a b l l' Hab _ IH]; intros [|n] Hn; cbn in *; try discriminate.
  - injection Hn as <-. eauto.
  - apply IH; assumption.
Qed.
Lemma Forall2_set_nth {A} (R : A -> A -> Prop) l n x y :
  (forall z, R z z) -> nth_error l n = Some x -> R x y -> Forall2 R l (set_nth n y l).
Proof.
  intros HR. revert n. induction l as [|a l IH]; intros [|n] Hn Hxy; cbn in *; try discriminate.
  - injection Hn as ->. constructor; [assumption|apply Forall2_refl; assumption].
  - constructor; [apply HR|apply IH; assumption].
Qed.

Lemma update_pairs_rel now height : forall ps raws,
  Forall2 (PairStep now height) ps (fst (update_pairs lg now height ps raws)).
Proof.
  induction ps as [|p ps IH]; intros raws; cbn [update_pairs]; [constructor|].
  destruct raws as [|w raws]; [apply Forall2_refl; left; reflexivity|].
  destruct (update_record lg now height (p_recent p) (fst w) (snd w)) as [r| |] eqn:Eu.
  - specialize (IH raws). destruct (update_pairs lg now height ps raws) as [rest panic]. cbn [fst] in *.
    constructor; [|assumption]. right. exists (fst w), (snd w), r. split; [assumption|reflexivity].
  - apply Forall2_refl; left; reflexivity.
  - apply Forall2_refl; left; reflexivity.
Qed.

Lemma get_pool_pools st st' : s_pools st = s_pools st' -> forall id, get_pool st id = get_pool st' id.
Proof. intros H id. unfold get_pool. rewrite H. reflexivity. Qed.

Lemma update_changed_rel raws : forall ids st, NoDup ids ->
  let st' := update_changed lg st ids raws in
  s_now st' = s_now st /\ s_height st' = s_height st /\ s_pruning st' = s_pruning st /\ s_limit st' = s_limit st /\
  s_keep_period st' = s_keep_period st /\ s_changed st' = s_changed st /\
  (forall id, ~ In id ids -> get_pool st' id = get_pool st id) /\
  (forall id pl', get_pool st' id = Some pl' ->
     exists pl, get_pool st id = Some pl /\ Forall2 (PairStep (s_now st) (s_height st)) pl pl').
Proof.
  induction ids as [|id0 ids IH]; intros st Hnd; cbn [update_changed].
  - cbv zeta. repeat split; try reflexivity. intros id pl' H. exists pl'. split; [assumption|apply Forall2_refl; left; reflexivity].
  - inversion Hnd as [|? ? Hnotin Hnd']; subst.
    destruct (get_pool st id0) as [p|] eqn:Eg.
    + pose proof (update_pairs_rel (s_now st) (s_height st) p (assoc id0 raws)) as Hrel.
      destruct (update_pairs lg (s_now st) (s_height st) p (assoc id0 raws)) as [p' panic]. cbn [fst] in Hrel.
      pose proof (get_pool_pos _ _ _ Eg) as Hpos.
      assert (forall id, id <> id0 -> get_pool (set_pool st id0 p') id = get_pool st id) as Hother
        by (intros id Hne; apply get_set_other; [assumption|congruence]).
      assert (get_pool (set_pool st id0 p') id0 = Some p') as Hsame by (eapply get_set_same; eassumption).
      destruct panic.
      * cbv zeta.
        match goal with |- context [get_pool ?stH _] =>
          assert (forall id, get_pool stH id = get_pool (set_pool st id0 p') id) as HH by (apply get_pool_pools; reflexivity) end.
        repeat split; try reflexivity.
        -- intros id Hni. rewrite HH. apply Hother. intros ->. apply Hni. left; reflexivity.
        -- intros id pl' H. rewrite HH in H. destruct (Z.eq_dec id id0) as [->|Hne].
           ++ rewrite Hsame in H. injection H as <-. exists p. split; assumption.
           ++ rewrite Hother in H by assumption. exists pl'. split; [assumption|apply Forall2_refl; left; reflexivity].
      * specialize (IH (set_pool st id0 p') Hnd'). cbv zeta in IH.
        destruct IH as (I1 & I2 & I3 & I4 & I5 & I6 & IA & IB). cbv zeta.
        repeat split; try assumption.
        -- intros id Hni. rewrite IA by (intros Hin; apply Hni; right; assumption). apply Hother. intros ->. apply Hni. left; reflexivity.
        -- intros id pl' H. destruct (Z.eq_dec id id0) as [->|Hne].
           ++ rewrite IA in H by assumption. rewrite Hsame in H. injection H as <-. exists p. split; assumption.
           ++ destruct (IB id pl' H) as (pl1 & Hg1 & Hs1). rewrite Hother in Hg1 by assumption. exists pl1. split; assumption.
    + specialize (IH st Hnd'). cbv zeta in IH. destruct IH as (I1 & I2 & I3 & I4 & I5 & I6 & IA & IB). cbv zeta.
      repeat split; try assumption.
      intros id Hni. apply IA. intros Hin. apply Hni. right; assumption.
Qed.

(* pruning *)
Lemma prune_pairs_rel keep limit : forall ps pruned,
  Forall2 (PairPruned keep) ps (fst (fst (prune_pairs keep limit pruned ps))).
Proof.
  induction ps as [|p ps IH]; intros pruned; cbn [prune_pairs]; [constructor|].
  destruct (prune_pair keep (limit - pruned) (p_hist p)) as [h d] eqn:Ep.
  assert (PairPruned keep p (mkPair (p_recent p) h)) as Hp.
  { exists [limit - pruned]. cbn [fold_left]. rewrite Ep. reflexivity. }
  destruct ((0 <? d) && (limit <=? pruned + d)).
  - cbn [fst]. constructor; [assumption|apply Forall2_refl; apply pairpruned_refl].
  - specialize (IH (pruned + d)). destruct (prune_pairs keep limit (pruned + d) ps) as [[r' n] stop]. cbn [fst] in *.
    constructor; assumption.
Qed.

Definition PoolPruned (keep : Z) : pool -> pool -> Prop := Forall2 (PairPruned keep).
Lemma poolpruned_refl keep pl : PoolPruned keep pl pl.
Proof. apply Forall2_refl. apply pairpruned_refl. Qed.
Lemma poolpruned_trans keep a b c : PoolPruned keep a b -> PoolPruned keep b c -> PoolPruned keep a c.
Proof. apply Forall2_trans. apply pairpruned_trans. Qed.

Lemma prune_pools_rel keep limit : forall fuel pruned id pools,
  Forall2 (PoolPruned keep) pools (fst (prune_pools fuel keep limit pruned id pools)).
Proof.
  induction fuel as [|f IH]; intros pruned id pools; cbn [prune_pools].
  - apply Forall2_refl. apply poolpruned_refl.
  - destruct (id <=? 0); [apply Forall2_refl; apply poolpruned_refl|].
    destruct (nth_error pools (Z.to_nat (id - 1))) as [p|] eqn:En; [|apply Forall2_refl; apply poolpruned_refl].
    pose proof (prune_pairs_rel keep limit p pruned) as Hp.
    destruct (prune_pairs keep limit pruned p) as [[p' n] stop]. cbn [fst] in Hp.
    assert (Forall2 (PoolPruned keep) pools (set_nth (Z.to_nat (id - 1)) p' pools)) as H1
      by (eapply Forall2_set_nth; [apply poolpruned_refl|eassumption|assumption]).
    destruct stop; [exact H1|].
    eapply Forall2_trans; [apply poolpruned_trans|exact H1|apply IH].
Qed.

Lemma prune_rel st :
  let st' := prune st in
  s_now st' = s_now st /\ s_height st' = s_height st /\ s_changed st' = s_changed st /\
  pr_keep (s_pruning st') = pr_keep (s_pruning st) /\
  (pr_on (s_pruning st') = true -> pr_on (s_pruning st) = true) /\
  Forall2 (PoolPruned (pr_keep (s_pruning st))) (s_pools st) (s_pools st').
Proof.
  unfold prune. cbv zeta.
  destruct (negb (pr_on (s_pruning st))) eqn:En; [repeat split; try reflexivity; try tauto; apply Forall2_refl; apply poolpruned_refl|].
  apply negb_false_iff in En.
  destruct (pr_last (s_pruning st) >? Z.of_nat (length (s_pools st))); [repeat split; try reflexivity; try tauto; apply Forall2_refl; apply poolpruned_refl|].
  pose proof (prune_pools_rel (pr_keep (s_pruning st)) (Z.max 1 (s_limit st)) (length (s_pools st)) 0 (pr_last (s_pruning st)) (s_pools st)) as H.
  destruct (prune_pools (length (s_pools st)) (pr_keep (s_pruning st)) (Z.max 1 (s_limit st)) 0 (pr_last (s_pruning st)) (s_pools st)) as [pools stop].
  cbn [fst] in H. cbn [s_now s_height s_changed s_pruning s_pools]. repeat split; try assumption; try (intros _; exact En).
  destruct stop; [reflexivity|]. destruct (1 <=? pr_last (s_pruning st)); reflexivity.
Qed.

Lemma pairnext_pruned now height km keep p p' :
  PairNext now height km p -> PairPruned keep p p' -> keep <= km -> PairNext now height km p'.
Proof.
  intros Hp (bs & ->) Hk. revert p Hp. induction bs as [|b bs IH]; intros p Hp; cbn [fold_left].
  - destruct p; exact Hp.
  - specialize (IH (mkPair (p_recent p) (fst (prune_pair keep b (p_hist p)))) (pairnext_prune _ _ _ _ _ _ Hp Hk)).
    exact IH.
Qed.

(* ---- the invariant of the module state ---- *)
Definition AllPairs (P : pairst -> Prop) (st : state) : Prop :=
  forall id pl k p, get_pool st id = Some pl -> nth_error pl k = Some p -> P p.

Definition GInv (st : state) (km : Z) : Prop :=
  zero_time <= s_now st /\ StronglySorted Z.lt (s_changed st) /\
  (pr_on (s_pruning st) = true -> pr_keep (s_pruning st) <= km) /\
  AllPairs (PairOK (s_now st) (s_height st) km) st.

Lemma track_ins_sorted id l : StronglySorted Z.lt l -> StronglySorted Z.lt (track_ins id l).
Proof.
  induction l as [|x l IH]; intros Hs; cbn [track_ins]; [repeat constructor|].
  inversion Hs as [|? ? Hs' Hf]; subst.
  destruct (id <? x) eqn:E1.
  - constructor; [assumption|]. constructor; [lia|]. eapply Forall_impl; [|exact Hf]. cbn; intros; lia.
  - destruct (id =? x) eqn:E2; [assumption|]. constructor; [auto|].
    assert (forall z, In z (track_ins id l) -> z = id \/ In z l) as Hmem.
    { clear. induction l as [|y l IH]; cbn [track_ins]; intros z Hz; [destruct Hz as [<-|[]]; left; reflexivity|].
      destruct (id <? y); [destruct Hz as [<-|Hz]; [left; reflexivity|right; assumption]|].
      destruct (id =? y); [right; assumption|]. destruct Hz as [<-|Hz]; [right; left; reflexivity|].
      destruct (IH z Hz); [left; assumption|right; right; assumption]. }
    rewrite Forall_forall. intros z Hz. destruct (Hmem z Hz) as [->|Hin]; [lia|]. rewrite Forall_forall in Hf. auto.
Qed.

Lemma sorted_nodup l : StronglySorted Z.lt l -> NoDup l.
Proof.
  induction l as [|x l IH]; intros Hs; [constructor|]. inversion Hs as [|? ? Hs' Hf]; subst.
  constructor; [|auto]. intros Hin. rewrite Forall_forall in Hf. specialize (Hf x Hin). lia.
Qed.

Lemma ginv_end st km dt raws : GInv st km -> 0 < dt -> GInv (next_block (end_block lg st raws) dt) km.
Proof.
  intros (Hz & Hs & Hk & Hall) Hdt.
  pose proof (update_changed_rel raws (s_changed st) st (sorted_nodup _ Hs)) as Hu. cbv zeta in Hu.
  destruct Hu as (U1 & U2 & U3 & U4 & U5 & U6 & _ & UB).
  set (st1 := update_changed lg st (s_changed st) raws) in *.
  assert (AllPairs (PairNext (s_now st) (s_height st) km) st1) as Hall1.
  { intros id pl' k p' Hg Hn. destruct (UB id pl' Hg) as (pl & Hg0 & Hf).
    destruct (Forall2_nth_r _ _ _ _ _ Hf Hn) as (p & Hn0 & Hstep).
    specialize (Hall id pl k p Hg0 Hn0).
    destruct Hstep as [->|(w0 & w1 & r & Hur & ->)]; [apply pairnext_of_ok; assumption|eapply pairok_update; eassumption]. }
  assert (let st2 := end_block lg st raws in
          s_now st2 = s_now st /\ s_height st2 = s_height st /\
          (pr_on (s_pruning st2) = true -> pr_keep (s_pruning st2) <= km) /\
          AllPairs (PairNext (s_now st) (s_height st) km) st2) as Hend.
  { unfold end_block. fold st1. cbv zeta. destruct (s_halted st1).
    - repeat split; try assumption. rewrite U3. assumption.
    - pose proof (prune_rel st1) as Hp. cbv zeta in Hp. destruct Hp as (P1 & P2 & P3 & P4 & P6 & P5).
      repeat split; try congruence.
      + intros Hon. rewrite P4, U3. apply Hk. rewrite <- U3. apply P6. exact Hon.
      + intros id pl' k p' Hg Hn. unfold get_pool in Hg. destruct (id <=? 0) eqn:Ei; [discriminate|].
        destruct (Forall2_nth_r _ _ _ _ _ P5 Hg) as (pl1 & Hg1 & Hpp).
        destruct (Forall2_nth_r _ _ _ _ _ Hpp Hn) as (p1 & Hn1 & Hpr).
        assert (get_pool st1 id = Some pl1) as Hg1' by (unfold get_pool; rewrite Ei; exact Hg1).
        specialize (Hall1 id pl1 k p1 Hg1' Hn1).
        destruct (pr_on (s_pruning st1)) eqn:Eon.
        * eapply pairnext_pruned; try eassumption. rewrite U3. apply Hk. rewrite <- U3. exact Eon.
        * (* pruning is off: prune is the identity *)
          unfold prune in Hg. rewrite Eon in Hg. cbn [negb] in Hg. rewrite Hg1 in Hg. injection Hg as <-. rewrite Hn1 in Hn. injection Hn as <-. exact Hall1. }
  cbv zeta in Hend. destruct Hend as (E1 & E2 & E3 & E4).
  unfold GInv, next_block. cbn [s_now s_height s_changed s_pruning]. split; [lia|]. split; [constructor|]. split; [assumption|].
  intros id pl k p Hg Hn. apply (E4 id pl k p); [exact Hg|exact Hn|lia|lia].
Qed.

Lemma ginv_step st km o : GInv st km -> (match o with GEnd dt _ => 0 < dt | _ => True end) ->
  let km' := match o with
             | GPrune keep _ => Z.max km keep
             | GEpoch => if 0 <? Z.of_nat (length (s_pools st)) then Z.max km (s_now st - s_keep_period st) else km
             | _ => km
             end in
  GInv (gstep lg st o) km'.
Proof.
  intros HI Hdt. destruct o as [raws|id|dt raws|keep last|]; cbv zeta; cbn [gstep].
  - (* create *)
    destruct HI as (Hz & Hs & Hk & Hall). unfold create_pool, track, GInv. cbn [s_now s_height s_changed s_pruning s_pools].
    split; [assumption|]. split; [apply track_ins_sorted; assumption|]. split; [assumption|].
    intros id pl k p Hg Hn. unfold get_pool in Hg. cbn [s_pools] in Hg. destruct (id <=? 0) eqn:Ei; [discriminate|].
    destruct (Nat.lt_ge_cases (Z.to_nat (id - 1)) (length (s_pools st))) as [Hlt|Hge].
    + rewrite nth_error_app1 in Hg by assumption. apply (Hall id pl k p); [unfold get_pool; rewrite Ei; exact Hg|exact Hn].
    + rewrite nth_error_app2 in Hg by assumption.
      destruct (Z.to_nat (id - 1) - length (s_pools st))%nat as [|n]; cbn [nth_error] in Hg; [|destruct n; discriminate].
      injection Hg as <-. rewrite nth_error_map in Hn. destruct (nth_error raws k) as [w|]; [|discriminate].
      cbn [option_map] in Hn. injection Hn as <-. apply pairok_create. assumption.
  - destruct HI as (Hz & Hs & Hk & Hall). unfold track, GInv. cbn [s_now s_height s_changed s_pruning].
    split; [assumption|]. split; [apply track_ins_sorted; assumption|]. split; [assumption|]. exact Hall.
  - apply ginv_end; assumption.
  - destruct HI as (Hz & Hs & Hk & Hall). unfold set_pruning, GInv. cbn [s_now s_height s_changed s_pruning pr_on pr_keep].
    split; [assumption|]. split; [assumption|]. split; [intros _; lia|].
    intros id pl k p Hg Hn. eapply pairok_km; [apply (Hall id pl k p); assumption|lia].
  - destruct HI as (Hz & Hs & Hk & Hall). unfold epoch_end.
    destruct (0 <? Z.of_nat (length (s_pools st))).
    + unfold GInv. cbn [s_now s_height s_changed s_pruning pr_on pr_keep].
      split; [assumption|]. split; [assumption|]. split; [intros _; lia|].
      intros id pl k p Hg Hn. eapply pairok_km; [apply (Hall id pl k p); assumption|lia].
    + split; [assumption|]. split; [assumption|]. split; assumption.
Qed.

Theorem lift_run : forall ops st km st' km',
  GInv st km -> positive_dts ops -> grun lg st km ops = (st', km') -> GInv st' km'.
Proof.
  induction ops as [|o ops IH]; intros st km st' km' HI Hp Hr; cbn [grun positive_dts] in *.
  - injection Hr as <- <-. assumption.
  - eapply IH; [|destruct o; tauto|exact Hr]. apply ginv_step; [assumption|destruct o; tauto].
Qed.

Lemma ginv_init t0 h0 limit kp km : zero_time <= t0 -> GInv (ginit t0 h0 limit kp) km.
Proof.
  intros Hz. unfold GInv, ginit. cbn [s_now s_height s_changed s_pruning pr_on]. split; [assumption|]. split; [constructor|].
  split; [discriminate|]. intros id pl k p Hg. unfold get_pool in Hg. cbn [s_pools] in Hg.
  destruct (id <=? 0); [discriminate|]. destruct (Z.to_nat (id - 1)); discriminate.
Qed.

End Lift.

(* ---- module-level statements ---- *)
Section Module.
Variable lg : Z -> option Z.
Variable ex : Z -> option Z.

(* a module-level query that returns a value is the pair-level query on the addressed pair *)
Lemma module_query_pair st id k q0 geom tonow start stop f v :
  query lg ex st (QPair id k q0) geom tonow start stop = QVal f v ->
  exists p, pair_of st id k = Some p /\
    twap_between lg ex (s_now st) p q0 geom start (if tonow then s_now st else stop) = QVal f v.
Proof.
  unfold query, pair_of, find_pair. destruct tonow.
  - destruct (start >? s_now st) eqn:E1; [discriminate|].
    destruct (get_pool st id) as [pl|]; [|discriminate]. destruct (nth_error pl k) as [p|]; [|discriminate].
    intros H. exists p. split; [reflexivity|]. unfold twap_between. rewrite E1, Z.eqb_refl. exact H.
  - destruct (start >? stop) eqn:E1; [discriminate|]. destruct (stop >? s_now st) eqn:E2; [discriminate|].
    destruct (get_pool st id) as [pl|]; [|discriminate]. destruct (nth_error pl k) as [p|]; [|discriminate].
    intros H. exists p. split; [reflexivity|exact H].
Qed.

(* every pair of every reachable module state has a well-formed history; its pruning passes used keep times <= km *)
Theorem module_pair_history ops t0 h0 limit kp st km id k p :
  zero_time <= t0 -> positive_dts ops -> grun lg (ginit t0 h0 limit kp) zero_time ops = (st, km) ->
  pair_of st id k = Some p ->
  exists tc hc w0 w1 evs G, history lg tc hc w0 w1 evs p G /\
    (forall keep b, In (PPrune keep b) evs -> keep <= km) /\ r_time (p_recent p) <= s_now st.
Proof.
  intros Hz Hp Hr Hpair.
  pose proof (lift_run lg ops _ _ _ _ (ginv_init lg t0 h0 limit kp zero_time Hz) Hp Hr) as (_ & _ & _ & Hall).
  unfold pair_of in Hpair. destruct (get_pool st id) as [pl|] eqn:Eg; [|discriminate].
  destruct (Hall id pl k p Eg Hpair) as (tc & hc & w0 & w1 & evs & G & Hh & Hk & (Ht & Hrt) & _).
  exists tc, hc, w0, w1, evs, G. split; [exact Hh|]. split; assumption.
Qed.

Lemma history_inv_K K0 t0 h0 w0 w1 evs p G :
  history lg t0 h0 w0 w1 evs p G -> Inv lg (max_keep K0 evs) p G.
Proof.
  intros (Hz & Hwf & Hrun). exact (inv_run lg _ _ _ _ _ _ (inv_create lg K0 t0 h0 w0 w1 Hz) Hrun).
Qed.

Lemma chain_hd_le G x : Chain lg G -> In x G -> r_time (hd dr G) <= r_time x.
Proof.
  intros HC Hin. destruct (chain_err _ _ HC) as (_ & _ & Hs & _).
  destruct G as [|y G]; [destruct Hin|]. cbn [hd]. destruct Hin as [->|Hin]; [lia|].
  inversion Hs as [|? ? _ Hf]; subst. rewrite Forall_forall in Hf. apply Hf. assumption.
Qed.

(* an answered query starts at or after the creation of the pair *)
Lemma answered_after_creation t0 h0 w0 w1 evs p G now q0 geom start stop f v km :
  history lg t0 h0 w0 w1 evs p G -> r_time (p_recent p) <= now ->
  (forall keep b, In (PPrune keep b) evs -> keep <= km) -> km <= start ->
  twap_between lg ex now p q0 geom start stop = QVal f v ->
  t0 <= start /\ max_keep t0 evs <= start.
Proof.
  intros Hh Hnow Hk Hkm H.
  pose proof (history_inv_K (Z.min t0 start) _ _ _ _ _ _ _ Hh) as HI.
  destruct (history_inv lg _ _ _ _ _ _ _ Hh) as (_ & _ & Hhd & Hrec).
  assert (max_keep (Z.min t0 start) evs <= start) as HK.
  { apply max_keep_bound; [lia|]. intros keep b Hin. specialize (Hk keep b Hin). lia. }
  assert (r_time (last G dr) <= now) as Hn' by (rewrite <- Hrec; assumption).
  destruct (query_records lg ex _ _ _ _ _ _ _ _ _ _ HI Hn' HK H)
    as (_ & xs & s & _ & _ & (Hx & Hxt & _) & _).
  destruct HI as (HC & _). destruct (aob_in _ _ _ Hx) as [Hin _].
  pose proof (chain_hd_le _ _ HC Hin) as Hle. rewrite Hhd in Hle.
  split; [lia|]. apply max_keep_bound; [lia|]. intros keep b Hin'. specialize (Hk keep b Hin'). lia.
Qed.

(* the arithmetic TWAP of the module model, for every history of the whole module and every query whose start lies at
   or after every keep time ever put into the pruning state *)
Theorem module_arith_eq_weighted_mean ops t0 h0 limit kp st km id k q0 tonow start stop f v :
  zero_time <= t0 -> positive_dts ops -> grun lg (ginit t0 h0 limit kp) zero_time ops = (st, km) ->
  query lg ex st (QPair id k q0) false tonow start stop = QVal f v ->
  km <= start ->
  let stop' := if tonow then s_now st else stop in
  ms start < ms stop' ->
  exists tc hc w0 w1 evs p G, pair_of st id k = Some p /\ history lg tc hc w0 w1 evs p G /\
    v = Z.quot (integral (price_at (spec_events tc w0 w1 evs) q0 0) (ms start) (ms stop')) (ms stop' - ms start).
Proof.
  intros Hz Hp Hr Hq Hkm stop' Hms.
  destruct (module_query_pair _ _ _ _ _ _ _ _ _ _ Hq) as (p & Hpair & Hq').
  destruct (module_pair_history _ _ _ _ _ _ _ _ _ _ Hz Hp Hr Hpair) as (tc & hc & w0 & w1 & evs & G & Hh & Hk & Hrt).
  destruct (answered_after_creation _ _ _ _ _ _ _ _ _ _ _ _ _ _ _ Hh Hrt Hk Hkm Hq') as [Hs HK].
  exists tc, hc, w0, w1, evs, p, G. split; [assumption|]. split; [assumption|].
  eapply arith_eq_weighted_mean; eassumption.
Qed.

End Module.
