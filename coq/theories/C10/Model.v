(* C10 model of x/twap: records, end-of-block update, interpolation, computeTwap, pruning.
   Mirrors /repo/x/twap/{logic.go, api.go, store.go, strategy.go, listeners.go, types/utils.go}
   function by function, as written.  No proofs in this file.

   Numbers: Dec = raw mantissa x 10^18 (cosmossdk.io/math LegacyDec), BigDec = raw x 10^36.
   Times: integer nanoseconds since the Unix epoch (Go time.Time compared with Equal/After is a
   comparison of instants); time.Time{} (year 1) is [zero_time].  CanonicalTimeMs = floor(ns / 10^6).
   A Go panic (Dec range assertion, log of a non-positive number, division by zero) is [None].

   The two approximation functions of osmomath used by the geometric TWAP enter as parameters
   [lg] (twapLog: Dec -> Dec, None = panic) and [ex] (Exp2: BigDec -> BigDec); C10/LogExp.v
   supplies the faithful instances [twap_log] and [exp2]. *)
From Coq Require Import ZArith List Bool.
Import ListNotations.
From Osmo Require Import Base.DecModel Gen.C10_consts.
Open Scope Z_scope.

Definition zero_time : Z := -62135596800 * 1000000000.       (* time.Time{} = 0001-01-01T00:00:00Z *)
Definition ns_per_ms : Z := 1000000.
Definition ms (t : Z) : Z := t / ns_per_ms.                   (* types.CanonicalTimeMs: t.Round(0).UnixMilli() *)

(* types.TwapRecord (pool id and denoms are the position of the record in the state) *)
Record rec := mkRec {
  r_time : Z; r_height : Z;
  r_p0 : Z; r_p1 : Z;            (* P0/P1LastSpotPrice, Dec *)
  r_a0 : Z; r_a1 : Z;            (* P0/P1ArithmeticTwapAccumulator, Dec *)
  r_g : Z;                       (* GeometricTwapAccumulator, Dec *)
  r_err : Z }.                   (* LastErrorTime *)

(* what PoolManager.RouteCalculateSpotPrice returned: (err != nil, value == BigDec{}, mantissa) *)
Record raw := mkRaw { w_err : bool; w_nil : bool; w_val : Z }.

(* LegacyDec range assertion after MulInt64 / Add / Sub *)
Definition dchk (z : Z) : option Z := if d_fits z then Some z else None.

(* logic.go getSpotPrices: (sp0, sp1, latestErrTime) *)
Definition get_spot_prices (now prev_err : Z) (w0 w1 : raw) : Z * Z * Z :=
  let e := w_err w0 || w_err w1 in
  let lt := if e then now else prev_err in
  let v0 := if e && w_nil w0 then 0 else w_val w0 in
  let v1 := if e && w_nil w1 then 0 else w_val w1 in
  let '(v0, lt) := if v0 >? max_spot_price_bigdec then (max_spot_price_bigdec, now) else (v0, lt) in
  let '(v1, lt) := if v1 >? max_spot_price_bigdec then (max_spot_price_bigdec, now) else (v1, lt) in
  (bd_to_dec v0, bd_to_dec v1, lt).

(* logic.go newTwapRecord *)
Definition new_record (now height : Z) (w0 w1 : raw) : rec :=
  let '(sp0, sp1, lt) := get_spot_prices now zero_time w0 w1 in
  mkRec now height sp0 sp1 0 0 0 lt.

Section WithLog.
Variable lg : Z -> option Z.      (* twapLog *)
Variable ex : Z -> option Z.      (* osmomath.Exp2 *)

(* logic.go recordWithUpdatedAccumulators *)
Definition rec_interp (r : rec) (t : Z) : option rec :=
  if r_time r =? t then Some r else
  let dt := ms t - ms (r_time r) in
  match dchk (r_p0 r * dt) with None => None | Some m0 =>
  match dchk (m0 + r_a0 r) with None => None | Some a0 =>
  match dchk (r_p1 r * dt) with None => None | Some m1 =>
  match dchk (m1 + r_a1 r) with None => None | Some a1 =>
  if r_p0 r =? 0 then Some (mkRec t (r_height r) (r_p0 r) (r_p1 r) a0 a1 (r_g r) t)
  else
    match lg (r_p0 r) with None => None | Some l =>
    match dchk (l * dt) with None => None | Some mg =>
    match dchk (mg + r_g r) with None => None | Some g =>
    Some (mkRec t (r_height r) (r_p0 r) (r_p1 r) a0 a1 g (r_err r))
    end end end
  end end end end.

(* logic.go updateRecord: Ok (Some r) new record | Ok None = InvalidUpdateRecordError | None = panic *)
Inductive upd := UOk (r : rec) | UErr | UPanic.
Definition update_record (now height : Z) (r : rec) (w0 w1 : raw) : upd :=
  if ((r_height r =? height) || (r_time r =? now)) && negb (r_a1 r =? 0) && negb (r_a0 r =? 0) then UErr
  else if (r_height r >? height) || (r_time r >? now) then UErr
  else match rec_interp r now with
       | None => UPanic
       | Some nr =>
           let '(sp0, sp1, lt) := get_spot_prices now (r_err r) w0 w1 in
           UOk (mkRec (r_time nr) height sp0 sp1 (r_a0 nr) (r_a1 nr) (r_g nr) lt)
       end.

(* ---- store.go: per (pool, pair) the most-recent record and the historical index (a map keyed by time,
   kept as a list sorted by strictly increasing time) ---- *)
Record pairst := mkPair { p_recent : rec; p_hist : list rec }.

Fixpoint hist_insert (r : rec) (l : list rec) : list rec :=
  match l with
  | [] => [r]
  | x :: tl => if r_time r <? r_time x then r :: l
               else if r_time r =? r_time x then r :: tl
               else x :: hist_insert r tl
  end.
(* StoreNewRecord *)
Definition store_new (r : rec) (p : pairst) : pairst := mkPair r (hist_insert r (p_hist p)).

(* getRecordAtOrBeforeTime: newest historical record with time <= t *)
Fixpoint hist_at_or_before (l : list rec) (t : Z) : option rec :=
  match l with
  | [] => None
  | x :: tl => if r_time x <=? t
               then match hist_at_or_before tl t with Some y => Some y | None => Some x end
               else None
  end.

(* getInterpolatedRecord (given the record found) *)
Definition interp_at (r : rec) (t : Z) : option rec :=
  let r1 := if r_time r =? r_err r then mkRec (r_time r) (r_height r) (r_p0 r) (r_p1 r) (r_a0 r) (r_a1 r) (r_g r) t else r in
  rec_interp r1 t.

(* ---- strategy.go ---- *)
(* arithmetic.computeTwap; quote0 = (quoteAsset == Asset0Denom); None = panic (division by zero) *)
Definition arith_twap (s e : rec) (quote0 : bool) : option Z :=
  match dchk (if quote0 then r_a0 e - r_a0 s else r_a1 e - r_a1 s) with None => None | Some diff =>
  let dt := ms (r_time e) - ms (r_time s) in
  if dt =? 0 then None else Some (Z.quot diff dt)
  end.

(* osmomath.SigFigRound for the non-negative values that reach it here; [sig_figs] = gammtypes.SpotPriceSigFigs.
   The scaling loop runs at most 17 times for d >= 1 ulp; out of fuel (d < 0: the Go loop does not terminate) = None *)
Fixpoint sigfig_scale (fuel : nat) (d k : Z) : option (Z * Z) :=
  if d <? Z.quot P18 10 then
    match fuel with O => None | S f => match dchk (d * 10) with None => None | Some d' => sigfig_scale f d' (k + 1) end end
  else Some (d, k).
Definition int_fits (z : Z) : bool := bitlen z <=? 256.         (* sdk Int: NewIntFromBigIntMut / SafeMul panic beyond 256 bits *)
Definition sigfig_round (d : Z) : option Z :=
  if d =? 0 then Some d else
  match sigfig_scale 40 d 0 with None => None | Some (dk, k) =>
  match dchk (dk * sig_figs) with None => None | Some dks =>
  let n := chop_round P18 dks in                                  (* RoundInt() *)
  if negb (int_fits n) then None else
  let numerator := n * P18 in                                     (* .ToLegacyDec() *)
  let tenk := d_power (10 * P18) k in                             (* NewInt(10).ToLegacyDec().Power(k) *)
  let tk := Z.quot tenk P18 in                                    (* .TruncateInt() *)
  if negb (int_fits tk) then None else
  let den := sig_figs * tk in                                     (* tenToSigFig.Mul(...) *)
  if negb (int_fits den) then None else
  if den =? 0 then None else Some (Z.quot numerator den)
  end end.

(* geometric.computeTwap *)
Definition geom_twap (s e : rec) (quote0 : bool) : option Z :=
  match dchk (r_g e - r_g s) with None => None | Some diff =>
  if diff =? 0 then Some 0 else
  let dt := ms (r_time e) - ms (r_time s) in
  if dt =? 0 then None else
  let exponent := Z.quot diff dt in
  match ex (bd_from_dec (Z.abs exponent)) with None => None | Some result =>
  let neg := exponent <? 0 in
  let invert := (neg && quote0) || (negb neg && negb quote0) in
  if invert && (result =? 0) then None else
  let result := if invert then bd_quo P36 result else result in
  sigfig_round (bd_to_dec result)
  end end.

(* logic.go computeTwap: (error flag, value); geom = strategy *)
Definition compute_twap (s e : rec) (quote0 geom : bool) : option (bool * Z) :=
  let flag := (r_err e >? r_time s) || (r_err e =? r_time s) || (r_err s =? r_time s) in
  if r_time e - r_time s =? 0 then Some (flag, if quote0 then r_p0 e else r_p1 e)
  else match (if geom then geom_twap s e quote0 else arith_twap s e quote0) with
       | None => None
       | Some v => Some (flag, v)
       end.

(* ---- api.go ---- *)
Inductive qerr := EStartAfterEnd | EEndInFuture | ETooOld | ENotInPool | ESameDenom | EPanic.
Inductive qres := QVal (flag : bool) (v : Z) | QErr (e : qerr).

Definition wrap (o : option (bool * Z)) : qres :=
  match o with Some (f, v) => QVal f v | None => QErr EPanic end.

(* getRecordAtOrBeforeTime found nothing: the diagnosis calls getMostRecentRecord (interpolation to now) *)
Definition too_old (now : Z) (p : pairst) : qres :=
  match rec_interp (p_recent p) now with None => QErr EPanic | Some _ => QErr ETooOld end.

(* getTwapToNow on one pair *)
Definition twap_to_now (now : Z) (p : pairst) (quote0 geom : bool) (start : Z) : qres :=
  if start >? now then QErr EStartAfterEnd else
  match hist_at_or_before (p_hist p) start with
  | None => too_old now p
  | Some r0 =>
      match interp_at r0 start with None => QErr EPanic | Some s =>
      match rec_interp (p_recent p) now with None => QErr EPanic | Some e =>
      wrap (compute_twap s e quote0 geom)
      end end
  end.

(* getTwap on one pair *)
Definition twap_between (now : Z) (p : pairst) (quote0 geom : bool) (start stop : Z) : qres :=
  if start >? stop then QErr EStartAfterEnd else
  if stop =? now then twap_to_now now p quote0 geom start else
  if stop >? now then QErr EEndInFuture else
  match hist_at_or_before (p_hist p) start with
  | None => too_old now p
  | Some r0 =>
      match interp_at r0 start with None => QErr EPanic | Some s =>
      match hist_at_or_before (p_hist p) stop with
      | None => too_old now p
      | Some r1 =>
          match interp_at r1 stop with None => QErr EPanic | Some e =>
          wrap (compute_twap s e quote0 geom)
          end
      end end
  end.

(* ---- store.go pruneRecordsBeforeTimeButNewest, one pair: of the records older than [keep] the newest stays,
   the others are deleted newest first, at most [budget] of them; returns the new index and how many went ---- *)
Fixpoint split_older (keep : Z) (l : list rec) : list rec * list rec :=
  match l with
  | [] => ([], [])
  | x :: tl => if r_time x <? keep then let '(o, n) := split_older keep tl in (x :: o, n) else ([], l)
  end.
Definition prune_pair (keep budget : Z) (l : list rec) : list rec * Z :=
  let '(older, newer) := split_older keep l in
  match rev older with
  | [] => (l, 0)
  | newest :: rest_desc =>
      let d := Z.min (Z.of_nat (length rest_desc)) budget in
      (rev (skipn (Z.to_nat d) rest_desc) ++ newest :: newer, d)
  end.

(* ---- whole module state ---- *)
Definition pool := list pairst.       (* pairs in the order of types.GetAllUniqueDenomPairs *)
Record pruning := mkPruning { pr_on : bool; pr_keep : Z; pr_last : Z }.
Record state := mkState {
  s_now : Z; s_height : Z;
  s_pools : list pool;                (* pool id = position + 1 *)
  s_changed : list Z;                 (* transient store: ids of the pools tracked in this block, ascending *)
  s_pruning : pruning;
  s_keep_period : Z;                  (* param RecordHistoryKeepPeriod, ns *)
  s_limit : Z;                        (* NumRecordsToPrunePerBlock *)
  s_halted : bool }.                  (* a panic escaped EndBlock *)

Definition get_pool (st : state) (id : Z) : option pool :=
  if id <=? 0 then None else nth_error (s_pools st) (Z.to_nat (id - 1)).
Fixpoint set_nth {A} (n : nat) (x : A) (l : list A) : list A :=
  match l, n with
  | [], _ => []
  | _ :: r, O => x :: r
  | y :: r, S n' => y :: set_nth n' x r
  end.
Definition set_pool (st : state) (id : Z) (p : pool) : state :=
  mkState (s_now st) (s_height st) (set_nth (Z.to_nat (id - 1)) p (s_pools st)) (s_changed st)
          (s_pruning st) (s_keep_period st) (s_limit st) (s_halted st).

Fixpoint track_ins (id : Z) (l : list Z) : list Z :=
  match l with
  | [] => [id]
  | x :: r => if id <? x then id :: l else if id =? x then l else x :: track_ins id r
  end.
(* trackChangedPool *)
Definition track (st : state) (id : Z) : state :=
  mkState (s_now st) (s_height st) (s_pools st) (track_ins id (s_changed st))
          (s_pruning st) (s_keep_period st) (s_limit st) (s_halted st).

(* afterCreatePool: one fresh record per pair (raw spot prices as read at creation), then trackChangedPool *)
Definition create_pool (st : state) (raws : list (raw * raw)) : state :=
  let p := map (fun w => let r := new_record (s_now st) (s_height st) (fst w) (snd w) in mkPair r [r]) raws in
  let st' := mkState (s_now st) (s_height st) (s_pools st ++ [p]) (s_changed st)
                     (s_pruning st) (s_keep_period st) (s_limit st) (s_halted st) in
  track st' (Z.of_nat (length (s_pools st'))).

(* updateRecords: pairs in order; the first failing updateRecord ends the pool's update (earlier pairs stay stored) *)
Fixpoint update_pairs (now height : Z) (ps : list pairst) (raws : list (raw * raw)) : list pairst * bool :=
  match ps, raws with
  | p :: pr, w :: wr =>
      match update_record now height (p_recent p) (fst w) (snd w) with
      | UOk r => let '(rest, panic) := update_pairs now height pr wr in (store_new r p :: rest, panic)
      | UErr => (ps, false)
      | UPanic => (ps, true)
      end
  | _, _ => (ps, false)
  end.

Fixpoint assoc (id : Z) (l : list (Z * list (raw * raw))) : list (raw * raw) :=
  match l with
  | [] => []
  | (k, v) :: r => if k =? id then v else assoc id r
  end.

(* prune loop: pools from [id] down to 1, pairs in order; returns pools, pruned count, Some id if the limit stopped it there *)
Fixpoint prune_pairs (keep limit pruned : Z) (ps : list pairst) : list pairst * Z * bool :=
  match ps with
  | [] => ([], pruned, false)
  | p :: r =>
      let '(h, d) := prune_pair keep (limit - pruned) (p_hist p) in
      let p' := mkPair (p_recent p) h in
      if (0 <? d) && (limit <=? pruned + d) then (p' :: r, pruned + d, true)
      else let '(r', n, stop) := prune_pairs keep limit (pruned + d) r in (p' :: r', n, stop)
  end.
Fixpoint prune_pools (fuel : nat) (keep limit pruned : Z) (id : Z) (pools : list pool) : list pool * option Z :=
  match fuel with
  | O => (pools, None)
  | S f =>
      if id <=? 0 then (pools, None) else
      match nth_error pools (Z.to_nat (id - 1)) with
      | None => (pools, None)
      | Some p =>
          let '(p', n, stop) := prune_pairs keep limit pruned p in
          let pools' := set_nth (Z.to_nat (id - 1)) p' pools in
          if stop then (pools', Some id) else prune_pools f keep limit n (id - 1) pools'
      end
  end.
(* pruneRecordsBeforeTimeButNewest as called from EndBlock; an unknown pool id is an error: nothing changes *)
Definition prune (st : state) : state :=
  let pr := s_pruning st in
  let limit := Z.max 1 (s_limit st) in
  if negb (pr_on pr) then st else
  if (pr_last pr >? Z.of_nat (length (s_pools st))) then st else
  let '(pools, stop) := prune_pools (length (s_pools st)) (pr_keep pr) limit 0 (pr_last pr) (s_pools st) in
  let pr' := match stop with
             | Some id => mkPruning true (pr_keep pr) id
             | None => if 1 <=? pr_last pr then mkPruning false (pr_keep pr) (pr_last pr) else pr
             end in
  mkState (s_now st) (s_height st) pools (s_changed st) pr' (s_keep_period st) (s_limit st) (s_halted st).

(* EndBlock, then what the commit does (transient store cleared) and the next block's header *)
Fixpoint update_changed (st : state) (ids : list Z) (raws : list (Z * list (raw * raw))) : state :=
  match ids with
  | [] => st
  | id :: r =>
      match get_pool st id with
      | None => update_changed st r raws
      | Some p =>
          let '(p', panic) := update_pairs (s_now st) (s_height st) p (assoc id raws) in
          let st' := set_pool st id p' in
          if panic then mkState (s_now st') (s_height st') (s_pools st') (s_changed st') (s_pruning st')
                                (s_keep_period st') (s_limit st') true
          else update_changed st' r raws
      end
  end.
Definition end_block (st : state) (raws : list (Z * list (raw * raw))) : state :=
  let st1 := update_changed st (s_changed st) raws in
  if s_halted st1 then st1 else prune st1.
Definition next_block (st : state) (dt : Z) : state :=
  mkState (s_now st + dt) (s_height st + 1) (s_pools st) [] (s_pruning st) (s_keep_period st) (s_limit st) (s_halted st).

(* listeners.go epochhook.AfterEpochEnd for the prune epoch identifier *)
Definition epoch_end (st : state) : state :=
  let n := Z.of_nat (length (s_pools st)) in
  if 0 <? n then
    mkState (s_now st) (s_height st) (s_pools st) (s_changed st)
            (mkPruning true (s_now st - s_keep_period st) n) (s_keep_period st) (s_limit st) (s_halted st)
  else st.
Definition set_pruning (st : state) (keep last : Z) : state :=
  mkState (s_now st) (s_height st) (s_pools st) (s_changed st) (mkPruning true keep last)
          (s_keep_period st) (s_limit st) (s_halted st).

(* a query as resolved by the caller: same denom twice | no such pool / pair | (pool id, pair index, quote is asset 0) *)
Inductive qtarget := QSame | QNone | QPair (id : Z) (pair : nat) (quote0 : bool).
Definition find_pair (st : state) (tg : qtarget) : option (pairst * bool) :=
  match tg with
  | QPair id k q0 => match get_pool st id with
                     | Some p => match nth_error p k with Some ps => Some (ps, q0) | None => None end
                     | None => None
                     end
  | _ => None
  end.
Definition query (st : state) (tg : qtarget) (geom tonow : bool) (start stop : Z) : qres :=
  let now := s_now st in
  (* the time checks of getTwap / getTwapToNow come before the record lookups *)
  if tonow then
    if start >? now then QErr EStartAfterEnd else
    match tg with
    | QSame => QErr ESameDenom
    | _ => match find_pair st tg with
           | None => QErr ENotInPool
           | Some (p, q0) => twap_to_now now p q0 geom start
           end
    end
  else
    if start >? stop then QErr EStartAfterEnd else
    if (stop >? now) then QErr EEndInFuture else
    match tg with
    | QSame => QErr ESameDenom
    | _ => match find_pair st tg with
           | None => QErr ENotInPool
           | Some (p, q0) => twap_between now p q0 geom start stop
           end
    end.

End WithLog.
