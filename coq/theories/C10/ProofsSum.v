(* C10: lemmas about the definitional integral (sums over millisecond slots) and the price step function. *)
From Coq Require Import ZArith List Bool Lia.
Import ListNotations.
From Osmo Require Import C10.Model C10.Spec.
Open Scope Z_scope.

Lemma zsum_ext f g a n :
  (forall i, a <= i < a + Z.of_nat n -> f i = g i) -> zsum f a n = zsum g a n.
Proof.
  revert a; induction n as [|n IH]; intros a H; cbn [zsum]; [reflexivity|].
  rewrite (H a) by lia. f_equal. apply IH. intros i Hi. apply H. lia.
Qed.

Lemma zsum_app f a n m : zsum f a (n + m) = zsum f a n + zsum f (a + Z.of_nat n) m.
Proof.
  revert a; induction n as [|n IH]; intros a.
  - cbn [zsum Nat.add]. replace (a + Z.of_nat 0) with a by lia. lia.
  - cbn [zsum Nat.add]. rewrite IH. replace (a + 1 + Z.of_nat n) with (a + Z.of_nat (S n)) by lia. lia.
Qed.

Lemma zsum_const f a n c :
  (forall i, a <= i < a + Z.of_nat n -> f i = c) -> zsum f a n = c * Z.of_nat n.
Proof.
  revert a; induction n as [|n IH]; intros a H; cbn [zsum]; [lia|].
  rewrite (H a) by lia. rewrite IH by (intros i Hi; apply H; lia). lia.
Qed.

Lemma zsum_bounds f a n lo hi :
  (forall i, a <= i < a + Z.of_nat n -> lo <= f i <= hi) ->
  lo * Z.of_nat n <= zsum f a n <= hi * Z.of_nat n.
Proof.
  revert a; induction n as [|n IH]; intros a H; cbn [zsum]; [lia|].
  pose proof (H a ltac:(lia)). pose proof (IH (a + 1) ltac:(intros i Hi; apply H; lia)). lia.
Qed.

Lemma integral_empty f a : integral f a a = 0.
Proof. unfold integral. replace (a - a) with 0 by lia. reflexivity. Qed.

Lemma integral_split f a b c : a <= b <= c -> integral f a c = integral f a b + integral f b c.
Proof.
  intros H. unfold integral.
  replace (c - a) with ((b - a) + (c - b)) by lia.
  rewrite Z2Nat.inj_add by lia.
  rewrite zsum_app. rewrite Z2Nat.id by lia. repeat f_equal. lia.
Qed.

Lemma integral_ext f g a b : (forall i, a <= i < b -> f i = g i) -> integral f a b = integral g a b.
Proof. intros H. unfold integral. apply zsum_ext. intros i Hi. apply H. lia. Qed.

Lemma integral_const f a b c : a <= b -> (forall i, a <= i < b -> f i = c) -> integral f a b = c * (b - a).
Proof.
  intros Hab H. unfold integral. rewrite (zsum_const f a _ c); [rewrite Z2Nat.id by lia; reflexivity|]. intros i Hi. apply H. lia.
Qed.

Lemma integral_bounds f a b lo hi : a <= b -> (forall i, a <= i < b -> lo <= f i <= hi) ->
  lo * (b - a) <= integral f a b <= hi * (b - a).
Proof.
  intros Hab H. unfold integral.
  pose proof (zsum_bounds f a (Z.to_nat (b - a)) lo hi ltac:(intros i Hi; apply H; lia)) as Hb.
  rewrite Z2Nat.id in Hb by lia. exact Hb.
Qed.

(* price_at over an extended history *)
Lemma price_at_snoc evs e side d tau :
  price_at (evs ++ [e]) side d tau = if ms (ev_time e) <=? tau then ev_price side e else price_at evs side d tau.
Proof. unfold price_at. rewrite fold_left_app. reflexivity. Qed.

(* truncated division of a sum bounded by n*lo and n*hi stays within [lo, hi] *)
Lemma quot_between s n lo hi : 0 < n -> lo * n <= s <= hi * n -> lo <= Z.quot s n <= hi.
Proof.
  intros Hn [H1 H2].
  destruct (Z_le_gt_dec 0 s) as [Hs|Hs].
  - rewrite Z.quot_div_nonneg by lia. split.
    + apply Z.div_le_lower_bound; lia.
    + apply Z.div_le_upper_bound; lia.
  - replace s with (- (- s)) by lia. rewrite Z.quot_opp_l by lia. rewrite Z.quot_div_nonneg by lia.
    split.
    + assert ((- s) / n <= - lo); [|lia]. apply Z.div_le_upper_bound; lia.
    + assert (- hi <= (- s) / n); [|lia]. apply Z.div_le_lower_bound; lia.
Qed.

(* the truncated mean of a step function lies between its smallest and largest value on the interval *)
Lemma mean_between f a b lo hi : a < b -> (forall i, a <= i < b -> lo <= f i <= hi) ->
  lo <= Z.quot (integral f a b) (b - a) <= hi.
Proof. intros Hab H. apply quot_between; [lia|]. apply integral_bounds; [lia|assumption]. Qed.
