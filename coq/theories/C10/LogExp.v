(* C10 copies of the two osmomath approximation functions the geometric TWAP uses, function by function as written:
   BigDec.LogBase2 (osmomath/decimal.go) and Exp2 / exp2ChebyshevRationalApprox (osmomath/exp2.go), plus the twap
   wrapper twapLog (x/twap/logic.go).  Raw mantissas (BigDec x 10^36, Dec x 10^18); a Go panic is None.
   Coefficients and loop bounds come from Gen/C10_consts.v (regenerated from /repo on every run).
   Definitions only; tied to the Go code by the C10 correspondence (stored geometric accumulators and every
   geometric query go through them). *)
From Coq Require Import ZArith List Bool.
Import ListNotations.
From Osmo Require Import Base.DecModel Gen.C10_consts.
Open Scope Z_scope.

Definition bdchk (z : Z) : option Z := if bd_fits z then Some z else None.      (* assertMaxBitLen *)

(* ---- LogBase2 ---- *)
(* for xCopy.LT(oneBigDec) { xCopy.i.Lsh(xCopy.i, 1); y.AddMut(negOneBigDec) }   (x > 0: at most 120 rounds) *)
Fixpoint log2_norm_up (fuel : nat) (x y : Z) : option (Z * Z) :=
  if x <? P36 then
    match fuel with O => None | S f => log2_norm_up f (Z.shiftl x 1) (y - P36) end
  else Some (x, y).
(* for xCopy.GTE(twoBigDec) { xCopy.i.Rsh(xCopy.i, 1); y.AddMut(oneBigDec) }    (at most maxDecBitLen rounds) *)
Fixpoint log2_norm_down (fuel : nat) (x y : Z) : option (Z * Z) :=
  if x >=? two_bd then
    match fuel with O => None | S f => log2_norm_down f (Z.shiftr x 1) (y + P36) end
  else Some (x, y).
(* for i := 0; i < maxLog2Iterations; i++ { x.MulMut(x); if x >= 2 { x >>= 1; y += b }; b >>= 1 } *)
Fixpoint log2_loop (n : nat) (x y b : Z) : option Z :=
  match n with
  | O => Some y
  | S k =>
      match bdchk (bd_mul x x) with
      | None => None
      | Some x2 =>
          if x2 >=? two_bd then log2_loop k (Z.shiftr x2 1) (y + b) (Z.shiftr b 1)
          else log2_loop k x2 y (Z.shiftr b 1)
      end
  end.
Definition one_half_bd : Z := bd_quo P36 two_bd.                                (* oneBigDec.Quo(twoBigDec) *)
Definition log_base2 (x : Z) : option Z :=
  if x <=? 0 then None else
  match log2_norm_up 200 x 0 with None => None | Some (x1, y1) =>
  match log2_norm_down 1200 x1 y1 with None => None | Some (x2, y2) =>
  log2_loop log2_iterations x2 y2 one_half_bd
  end end.

(* x/twap logic.go twapLog: BigDecFromDec(price).LogBase2().Dec(); panics for zero *)
Definition twap_log (price : Z) : option Z :=
  if price =? 0 then None else
  match log_base2 (bd_from_dec price) with None => None | Some l => Some (bd_to_dec l) end.

(* ---- Exp2 ---- *)
(* the loop of exp2ChebyshevRationalApprox over the coefficient pairs 1.. *)
Fixpoint exp2_loop (cs : list (Z * Z)) (x xe h p : Z) : option (Z * Z) :=
  match cs with
  | [] => Some (h, p)
  | (a, b) :: r =>
      match bdchk (bd_mul xe x) with None => None | Some xe' =>
      match bdchk (bd_mul a xe') with None => None | Some ta =>
      match bdchk (h + ta) with None => None | Some h' =>
      match bdchk (bd_mul b xe') with None => None | Some tb =>
      match bdchk (p + tb) with None => None | Some p' =>
      exp2_loop r x xe' h' p'
      end end end end end
  end.
Definition exp2_approx (x : Z) : option Z :=
  if (x <? 0) || (x >? P36) then None
  else if x =? 0 then Some P36
  else if x =? P36 then Some two_bd
  else match exp2_num, exp2_den with
       | h0 :: nums, p0 :: dens =>
           match exp2_loop (combine nums dens) x P36 h0 p0 with
           | None => None
           | Some (h, p) => if p =? 0 then None else bdchk (bd_quo h p)
           end
       | _, _ => None
       end.
Definition exp2 (exponent : Z) : option Z :=
  if exponent <? 0 then None else
  if Z.abs exponent >? exp2_max_exponent * P36 then None else
  let ie := bd_truncate_dec exponent in
  match exp2_approx (exponent - ie) with
  | None => None
  | Some fr => Some (Z.shiftl fr (bd_truncate_int ie))
  end.

(* ---- evaluation shortcut (proved equal in C10/ProofsLog.v): once b has been shifted down to 0 the remaining
   iterations of the LogBase2 loop only square x and can no longer change y ---- *)
Fixpoint log2_loop_fast (n : nat) (x y b : Z) : option Z :=
  match n with
  | O => Some y
  | S k =>
      if b =? 0 then Some y else
      match bdchk (bd_mul x x) with
      | None => None
      | Some x2 =>
          if x2 >=? two_bd then log2_loop_fast k (Z.shiftr x2 1) (y + b) (Z.shiftr b 1)
          else log2_loop_fast k x2 y (Z.shiftr b 1)
      end
  end.
Definition log_base2_fast (x : Z) : option Z :=
  if x <=? 0 then None else
  match log2_norm_up 200 x 0 with None => None | Some (x1, y1) =>
  match log2_norm_down 1200 x1 y1 with None => None | Some (x2, y2) =>
  log2_loop_fast log2_iterations x2 y2 one_half_bd
  end end.
Definition twap_log_fast (price : Z) : option Z :=
  if price =? 0 then None else
  match log_base2_fast (bd_from_dec price) with None => None | Some l => Some (bd_to_dec l) end.

(* a table of logarithms computed once per evaluated history; prices not in the table fall back to the function *)
Definition build_tab (prices : list Z) : list (Z * option Z) := map (fun p => (p, twap_log_fast p)) prices.
Fixpoint tab_find (tab : list (Z * option Z)) (p : Z) : option (option Z) :=
  match tab with
  | [] => None
  | (k, v) :: r => if k =? p then Some v else tab_find r p
  end.
Definition lg_cached (tab : list (Z * option Z)) (p : Z) : option Z :=
  match tab_find tab p with Some v => v | None => twap_log_fast p end.
