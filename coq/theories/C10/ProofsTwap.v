(* C10: what the TWAP queries return, in terms of the definitional integral of the price history. *)
From Coq Require Import ZArith List Bool Lia Sorted.
Import ListNotations.
From Osmo Require Import Base.DecModel Gen.C10_consts C10.Model C10.Spec C10.ProofsSum C10.ProofsList C10.ProofsChain.
Open Scope Z_scope.

Section WithLog.
Variable lg : Z -> option Z.
Variable ex : Z -> option Z.

(* the record a query works with at time t: interpolated from the chain member x found at or before t *)
Definition RecAt (G : list rec) (x s : rec) (t : Z) : Prop :=
  hist_at_or_before G t = Some x /\ r_time x <= t /\ r_time s = t /\ r_p0 s = r_p0 x /\ r_p1 s = r_p1 x /\
  r_a0 s = r_a0 x + r_p0 x * (ms t - ms (r_time x)) /\
  r_a1 s = r_a1 x + r_p1 x * (ms t - ms (r_time x)) /\
  r_g s = r_g x + glogv lg (r_p0 x) * (ms t - ms (r_time x)) /\
  r_err x <= r_err s.

Lemma recat_interp G x t s :
  (forall r, In r G -> r_err r <= r_time r) ->
  hist_at_or_before G t = Some x -> interp_at lg x t = Some s -> RecAt G x s t.
Proof.
  intros He Hx Hs. destruct (aob_in _ _ _ Hx) as [Hin Hxt]. specialize (He x Hin).
  unfold interp_at in Hs.
  destruct (r_time x =? r_err x) eqn:E; apply rec_interp_spec in Hs; cbn in *; try assumption;
    destruct Hs as (S1 & S2 & S3 & S4 & S5 & S6 & S7 & S8); unfold RecAt; repeat split; try assumption; lia.
Qed.

Lemma recat_rec_interp G x t s :
  (forall r, In r G -> r_err r <= r_time r) ->
  hist_at_or_before G t = Some x -> rec_interp lg x t = Some s -> RecAt G x s t.
Proof.
  intros He Hx Hs. destruct (aob_in _ _ _ Hx) as [Hin Hxt]. specialize (He x Hin).
  apply rec_interp_spec in Hs; [|assumption].
  destruct Hs as (S1 & S2 & S3 & S4 & S5 & S6 & S7 & S8); unfold RecAt; repeat split; try assumption; lia.
Qed.

(* a RecAt record carries the integrals of the three step functions *)
Lemma recat_integrals G x s t d :
  Chain lg G -> r_time (hd dr G) <= t -> RecAt G x s t ->
  let m0 := ms (r_time (hd dr G)) in
  r_a0 s = integral (price_at (evs_of G) true d) m0 (ms t) /\
  r_a1 s = integral (price_at (evs_of G) false d) m0 (ms t) /\
  r_g s = integral (fun tau => glogv lg (price_at (evs_of G) true d tau)) m0 (ms t).
Proof.
  intros HC Ht (Hx & _ & _ & _ & _ & S4 & S5 & S6 & _). cbv zeta.
  pose proof (gchain_acc r_a0 r_p0 d G (chain_g0 _ _ HC) t x Ht Hx) as A0.
  pose proof (gchain_acc r_a1 r_p1 d G (chain_g1 _ _ HC) t x Ht Hx) as A1.
  pose proof (gchain_acc r_g _ (glogv lg d) G (chain_gg _ _ HC) t x Ht Hx) as Ag.
  repeat split.
  - rewrite S4, A0. apply integral_ext. intros. apply (step_at_price G true).
  - rewrite S5, A1. apply integral_ext. intros. apply (step_at_price G false).
  - rewrite S6, Ag. apply integral_ext. intros. apply step_at_glog.
Qed.

Lemma aob_last G : Chain lg G -> forall now, r_time (last G dr) <= now -> hist_at_or_before G now = Some (last G dr).
Proof.
  intros HC now Hn. destruct (chain_last_form _ _ HC) as (G0 & r & HG & Hl). rewrite Hl in *.
  pose proof (chain_bounded _ _ HC) as Hb. rewrite Hl in Hb. rewrite HG in *.
  rewrite aob_app_last.
  - destruct (r_time r <=? now) eqn:E; [reflexivity|lia].
  - unfold bounded in *. rewrite Forall_app in Hb. tauto.
Qed.

(* every answered query is computeTwap of two records interpolated from the full chain *)
Lemma query_records K p G now q0 geom start stop f v :
  Inv lg K p G -> r_time (last G dr) <= now -> K <= start ->
  twap_between lg ex now p q0 geom start stop = QVal f v ->
  start <= stop <= now /\
  exists xs s xe e, RecAt G xs s start /\ RecAt G xe e stop /\ compute_twap ex s e q0 geom = Some (f, v).
Proof.
  intros (HC & Hrec & Hs & Hb & Hag) Hnow HK H.
  destruct (chain_err _ _ HC) as (He & _).
  unfold twap_between in H.
  destruct (start >? stop) eqn:E1; [discriminate|].
  assert (forall start', K <= start' -> start' <= now ->
            twap_to_now lg ex now p q0 geom start' = QVal f v ->
            exists xs s xe e, RecAt G xs s start' /\ RecAt G xe e now /\ compute_twap ex s e q0 geom = Some (f, v)) as Hnowcase.
  { intros start' HK' Hle H'. unfold twap_to_now in H'.
    destruct (start' >? now); [discriminate|].
    rewrite Hag in H' by assumption.
    destruct (hist_at_or_before G start') as [r0|] eqn:E0.
    2:{ unfold too_old in H'. destruct (rec_interp lg (p_recent p) now); discriminate. }
    destruct (interp_at lg r0 start') as [s|] eqn:Es; [|discriminate].
    destruct (rec_interp lg (p_recent p) now) as [e|] eqn:Ee; [|discriminate].
    rewrite Hrec in Ee.
    exists r0, s, (last G dr), e. split; [|split].
    - apply recat_interp; assumption.
    - apply recat_rec_interp; try assumption. apply aob_last; assumption.
    - unfold wrap in H'. destruct (compute_twap ex s e q0 geom) as [[f' v']|]; [|discriminate]. injection H' as <- <-. reflexivity. }
  destruct (stop =? now) eqn:E2.
  - apply Z.eqb_eq in E2. subst stop. split; [lia|]. apply Hnowcase; [assumption|lia|assumption].
  - destruct (stop >? now) eqn:E3; [discriminate|]. split; [lia|].
    rewrite Hag in H by assumption.
    destruct (hist_at_or_before G start) as [r0|] eqn:E0.
    2:{ unfold too_old in H. destruct (rec_interp lg (p_recent p) now); discriminate. }
    destruct (interp_at lg r0 start) as [s|] eqn:Es; [|discriminate].
    rewrite Hag in H by lia.
    destruct (hist_at_or_before G stop) as [r1|] eqn:E4.
    2:{ unfold too_old in H. destruct (rec_interp lg (p_recent p) now); discriminate. }
    destruct (interp_at lg r1 stop) as [e|] eqn:Ee; [|discriminate].
    exists r0, s, r1, e. split; [|split].
    + apply recat_interp; assumption.
    + apply recat_interp; assumption.
    + unfold wrap in H. destruct (compute_twap ex s e q0 geom) as [[f' v']|]; [|discriminate]. injection H as <- <-. reflexivity.
Qed.

(* ---- arithmetic TWAP = truncated mean of the definitional integral ---- *)
Theorem arith_mean_chain K p G now q0 start stop f v d :
  Inv lg K p G -> r_time (last G dr) <= now -> K <= start -> r_time (hd dr G) <= start -> ms start < ms stop ->
  twap_between lg ex now p q0 false start stop = QVal f v ->
  v = Z.quot (integral (price_at (evs_of G) q0 d) (ms start) (ms stop)) (ms stop - ms start).
Proof.
  intros HI Hnow HK Hhd Hms H.
  destruct (query_records _ _ _ _ _ _ _ _ _ _ HI Hnow HK H) as (Hord & xs & s & xe & e & Rs & Re & Hc).
  destruct HI as (HC & _).
  destruct (recat_integrals _ _ _ _ d HC Hhd Rs) as (Is0 & Is1 & _).
  destruct (recat_integrals G xe e stop d HC ltac:(lia) Re) as (Ie0 & Ie1 & _).
  destruct Rs as (_ & _ & Ts & _). destruct Re as (_ & _ & Te & _).
  unfold compute_twap in Hc. rewrite Ts, Te in Hc.
  destruct (stop - start =? 0) eqn:E0.
  { apply Z.eqb_eq in E0. assert (stop = start) as Hss by lia. rewrite Hss in Hms. lia. }
  unfold arith_twap in Hc. rewrite Ts, Te in Hc.
  assert (ms (r_time (hd dr G)) <= ms start) as Hm0 by (apply ms_mono; assumption).
  destruct q0.
  - destruct (dchk (r_a0 e - r_a0 s)) as [diff|] eqn:Ed; [|discriminate]. apply dchk_some in Ed.
    destruct (ms stop - ms start =? 0); [discriminate|]. injection Hc as _ <-. subst diff.
    rewrite Ie0, Is0. rewrite (integral_split _ _ (ms start) (ms stop)) by lia. f_equal. lia.
  - destruct (dchk (r_a1 e - r_a1 s)) as [diff|] eqn:Ed; [|discriminate]. apply dchk_some in Ed.
    destruct (ms stop - ms start =? 0); [discriminate|]. injection Hc as _ <-. subst diff.
    rewrite Ie1, Is1. rewrite (integral_split _ _ (ms start) (ms stop)) by lia. f_equal. lia.
Qed.

Theorem arith_between_chain K p G now q0 start stop f v d lo hi :
  Inv lg K p G -> r_time (last G dr) <= now -> K <= start -> r_time (hd dr G) <= start -> ms start < ms stop ->
  twap_between lg ex now p q0 false start stop = QVal f v ->
  (forall tau, ms start <= tau < ms stop -> lo <= price_at (evs_of G) q0 d tau <= hi) ->
  lo <= v <= hi.
Proof.
  intros HI Hnow HK Hhd Hms H Hb.
  rewrite (arith_mean_chain _ _ _ _ _ _ _ _ _ d HI Hnow HK Hhd Hms H).
  apply quot_between; [lia|]. apply integral_bounds; [lia|assumption].
Qed.

(* ---- geometric TWAP: the accumulator difference is exactly the integral of log2 of the price in force ---- *)
Theorem geom_structure_chain K p G now q0 start stop f v d :
  Inv lg K p G -> r_time (last G dr) <= now -> K <= start -> r_time (hd dr G) <= start -> ms start < ms stop ->
  twap_between lg ex now p q0 true start stop = QVal f v ->
  let diff := integral (fun tau => glogv lg (price_at (evs_of G) true d tau)) (ms start) (ms stop) in
  let m := Z.quot diff (ms stop - ms start) in
  (diff = 0 /\ v = 0) \/
  (diff <> 0 /\ exists E, ex (bd_from_dec (Z.abs m)) = Some E /\
     let invert := ((m <? 0) && q0) || (negb (m <? 0) && negb q0) in
     sigfig_round (bd_to_dec (if invert then bd_quo P36 E else E)) = Some v).
Proof.
  intros HI Hnow HK Hhd Hms H. cbv zeta.
  destruct (query_records _ _ _ _ _ _ _ _ _ _ HI Hnow HK H) as (Hord & xs & s & xe & e & Rs & Re & Hc).
  destruct HI as (HC & _).
  destruct (recat_integrals _ _ _ _ d HC Hhd Rs) as (_ & _ & Isg).
  destruct (recat_integrals G xe e stop d HC ltac:(lia) Re) as (_ & _ & Ieg).
  destruct Rs as (_ & _ & Ts & _). destruct Re as (_ & _ & Te & _).
  unfold compute_twap in Hc. rewrite Ts, Te in Hc.
  destruct (stop - start =? 0) eqn:E0.
  { apply Z.eqb_eq in E0. assert (stop = start) as Hss by lia. rewrite Hss in Hms. lia. }
  unfold geom_twap in Hc. rewrite Ts, Te in Hc.
  assert (ms (r_time (hd dr G)) <= ms start) as Hm0 by (apply ms_mono; assumption).
  destruct (dchk (r_g e - r_g s)) as [diff|] eqn:Ed; [|discriminate]. apply dchk_some in Ed.
  assert (diff = integral (fun tau => glogv lg (price_at (evs_of G) true d tau)) (ms start) (ms stop)) as Hdiff.
  { subst diff. rewrite Ieg, Isg. rewrite (integral_split _ _ (ms start) (ms stop)) by lia. lia. }
  rewrite <- Hdiff.
  destruct (diff =? 0) eqn:Ez.
  - left. apply Z.eqb_eq in Ez. injection Hc as _ <-. tauto.
  - right. apply Z.eqb_neq in Ez. split; [assumption|].
    destruct (ms stop - ms start =? 0); [discriminate|].
    destruct (ex (bd_from_dec (Z.abs (Z.quot diff (ms stop - ms start))))) as [E|]; [|discriminate].
    exists E. split; [reflexivity|]. cbv zeta.
    set (inv := ((Z.quot diff (ms stop - ms start) <? 0) && q0) || (negb (Z.quot diff (ms stop - ms start) <? 0) && negb q0)) in *.
    destruct (inv && (E =? 0)); [discriminate|].
    destruct (sigfig_round (bd_to_dec (if inv then bd_quo P36 E else E))) as [v'|]; [|discriminate].
    injection Hc as _ <-. reflexivity.
Qed.

(* ---- error flag ---- *)
Lemma aob_err_mono G r t x :
  StronglySorted le_t G -> StronglySorted (fun a b => r_err a <= r_err b) G ->
  In r G -> r_time r <= t -> hist_at_or_before G t = Some x -> r_err r <= r_err x.
Proof.
  revert x. induction G as [|y tl IH]; intros x Hs He Hin Ht Hx; [destruct Hin|].
  inversion Hs as [|? ? Hs' Hf]; subst. inversion He as [|? ? He' Hfe]; subst.
  rewrite aob_cons in Hx. destruct (r_time y <=? t) eqn:E; [|discriminate].
  destruct (hist_at_or_before tl t) as [z|] eqn:Ez.
  - injection Hx as <-. destruct Hin as [->|Hin].
    + destruct (aob_in _ _ _ Ez) as [Hz _]. rewrite Forall_forall in Hfe. apply Hfe; assumption.
    + apply IH; try assumption; reflexivity.
  - injection Hx as <-. destruct Hin as [->|Hin]; [lia|].
    destruct (aob_some_of_member tl r t Hs' Hin Ht) as [z Hz]. congruence.
Qed.

Theorem error_flagged_chain K p G now q0 geom start stop f v r :
  Inv lg K p G -> r_time (last G dr) <= now -> K <= start ->
  twap_between lg ex now p q0 geom start stop = QVal f v ->
  In r G -> r_err r = r_time r -> start <= r_time r <= stop ->
  f = true.
Proof.
  intros HI Hnow HK H Hin Herr Hbetween.
  destruct (query_records _ _ _ _ _ _ _ _ _ _ HI Hnow HK H) as (Hord & xs & s & xe & e & Rs & Re & Hc).
  destruct HI as (HC & _). destruct (chain_err _ _ HC) as (_ & _ & Hst & Hse).
  destruct Re as (Hxe & _ & Te & _ & _ & _ & _ & _ & Hee). destruct Rs as (_ & _ & Ts & _).
  pose proof (aob_err_mono G r stop xe Hst Hse Hin ltac:(lia) Hxe) as Hm.
  unfold compute_twap in Hc.
  assert ((r_err e >? r_time s) || (r_err e =? r_time s) || (r_err s =? r_time s) = true) as Hflag.
  { destruct (r_err e >? r_time s) eqn:E1; [reflexivity|]. destruct (r_err e =? r_time s) eqn:E2; [reflexivity|]. lia. }
  rewrite Hflag in Hc.
  destruct (r_time e - r_time s =? 0); [injection Hc as <- _; reflexivity|].
  destruct (if geom then geom_twap ex s e q0 else arith_twap s e q0); [injection Hc as <- _; reflexivity|discriminate].
Qed.

(* ---- pruning is invisible for every query whose start lies at or after the keep time ---- *)
Theorem prune_invisible_pair p keep budget now q0 geom start stop :
  tsorted (p_hist p) -> keep <= start ->
  twap_between lg ex now (mkPair (p_recent p) (fst (prune_pair keep budget (p_hist p)))) q0 geom start stop =
  twap_between lg ex now p q0 geom start stop.
Proof.
  intros Hs Hk. unfold twap_between, twap_to_now, too_old. cbn [p_hist p_recent].
  destruct (start >? stop) eqn:E1; [reflexivity|].
  rewrite !prune_pair_aob by (try assumption; lia). reflexivity.
Qed.

(* ---- the chain of a well-formed history is the prescribed event list ---- *)
Lemma prun_events : forall evs K p G first t h p' G',
  Inv lg K p G -> r_time (last G dr) = t -> r_height (last G dr) = h -> (first = true -> r_a0 (last G dr) = 0) ->
  wf_from first t h evs -> prun lg p G evs = Some (p', G') ->
  evs_of G' = evs_of G ++ upd_events evs /\ hd dr G' = hd dr G.
Proof.
  induction evs as [|e evs IH]; intros K p G first t h p' G' HI Ht Hh Hz Hwf Hr; cbn [prun upd_events wf_from] in *.
  - injection Hr as <- <-. rewrite app_nil_r. split; reflexivity.
  - destruct (pstep lg p e) as [[p1 o]|] eqn:Es; [|discriminate].
    pose proof (inv_step _ _ _ _ _ _ _ HI Es) as HI1. cbv zeta in HI1.
    destruct e as [now height w0 w1|keep b].
    + destruct Hwf as [Hcase Hwf]. cbn [pstep] in Es.
      pose proof HI as (HC & Hrec & _).
      destruct (update_record lg now height (p_recent p) w0 w1) as [r'| |] eqn:Eu; [| |discriminate].
      * injection Es as <- <-.
        destruct (chain_err _ _ HC) as (He & _).
        assert (In (last G dr) G) as Hlin.
        { destruct (chain_last_form _ _ HC) as (G0 & r & HG & Hl). rewrite Hl, HG, in_app_iff. right; left; reflexivity. }
        rewrite Hrec in Eu. destruct (update_record_spec _ _ _ _ _ _ _ Eu (He _ Hlin)) as (_ & T1 & T2 & T3 & _).
        destruct (IH _ _ _ false now height _ _ HI1 ltac:(rewrite last_last; assumption) ltac:(rewrite last_last; assumption)
                     ltac:(discriminate) Hwf Hr) as [IH1 IH2].
        split.
        -- rewrite IH1. unfold evs_of. rewrite map_app. cbn [map]. rewrite <- app_assoc. cbn [app].
           unfold ev_of_rec. rewrite T1, <- T3. reflexivity.
        -- rewrite IH2. apply hd_app_nonempty. exact (chain_nonempty _ _ HC).
      * exfalso. rewrite Hrec in Eu. revert Eu. apply update_record_ok.
        destruct Hcase as [(Hf & -> & ->)|[H1 H2]]; [right; repeat split; auto|left; lia].
    + cbn [pstep] in Es. injection Es as <- <-. eapply IH; eassumption.
Qed.

End WithLog.

(* ---- histories from pool creation ---- *)
Section Histories.
Variable lg : Z -> option Z.
Variable ex : Z -> option Z.

Definition history (t0 h0 : Z) (w0 w1 : raw) (evs : list pev) (p : pairst) (G : list rec) : Prop :=
  zero_time <= t0 /\ wf_from true t0 h0 evs /\
  prun lg (pcreate t0 h0 w0 w1) [new_record t0 h0 w0 w1] evs = Some (p, G).

Lemma history_inv t0 h0 w0 w1 evs p G :
  history t0 h0 w0 w1 evs p G ->
  Inv lg (max_keep t0 evs) p G /\ evs_of G = spec_events t0 w0 w1 evs /\ r_time (hd dr G) = t0 /\
  p_recent p = last G dr.
Proof.
  intros (Hz & Hwf & Hrun).
  pose proof (inv_create lg t0 t0 h0 w0 w1 Hz) as HI0.
  pose proof (inv_run lg _ _ _ _ _ _ HI0 Hrun) as HI.
  pose proof (new_record_spec lg t0 h0 w0 w1) as Hn. cbv zeta in Hn. destruct Hn as (N1 & N2 & N3 & N4 & _).
  destruct (prun_events lg evs t0 _ _ true t0 h0 _ _ HI0 N1 N2 ltac:(intros _; exact N4) Hwf Hrun) as [E1 E2].
  split; [exact HI|]. split; [|split].
  - rewrite E1. unfold spec_events, evs_of. cbn [map app]. unfold ev_of_rec. rewrite N1, <- N3. reflexivity.
  - rewrite E2. exact N1.
  - destruct HI as (_ & Hrec & _). exact Hrec.
Qed.

Theorem arith_eq_weighted_mean t0 h0 w0 w1 evs p G now q0 start stop f v :
  history t0 h0 w0 w1 evs p G -> r_time (p_recent p) <= now ->
  t0 <= start -> max_keep t0 evs <= start -> ms start < ms stop ->
  twap_between lg ex now p q0 false start stop = QVal f v ->
  v = Z.quot (integral (price_at (spec_events t0 w0 w1 evs) q0 0) (ms start) (ms stop)) (ms stop - ms start).
Proof.
  intros Hh Hnow Hs HK Hms H. destruct (history_inv _ _ _ _ _ _ _ Hh) as (HI & HE & Hhd & Hrec).
  rewrite <- HE. eapply arith_mean_chain; try eassumption; [rewrite <- Hrec; assumption|lia].
Qed.

Theorem arith_between_min_max t0 h0 w0 w1 evs p G now q0 start stop f v lo hi :
  history t0 h0 w0 w1 evs p G -> r_time (p_recent p) <= now ->
  t0 <= start -> max_keep t0 evs <= start -> ms start < ms stop ->
  twap_between lg ex now p q0 false start stop = QVal f v ->
  (forall tau, ms start <= tau < ms stop -> lo <= price_at (spec_events t0 w0 w1 evs) q0 0 tau <= hi) ->
  lo <= v <= hi.
Proof.
  intros Hh Hnow Hs HK Hms H Hb. destruct (history_inv _ _ _ _ _ _ _ Hh) as (HI & HE & Hhd & Hrec).
  rewrite <- HE in Hb. eapply arith_between_chain; try eassumption; [rewrite <- Hrec; assumption|lia].
Qed.

Theorem geom_structure t0 h0 w0 w1 evs p G now q0 start stop f v :
  history t0 h0 w0 w1 evs p G -> r_time (p_recent p) <= now ->
  t0 <= start -> max_keep t0 evs <= start -> ms start < ms stop ->
  twap_between lg ex now p q0 true start stop = QVal f v ->
  let diff := integral (fun tau => glogv lg (price_at (spec_events t0 w0 w1 evs) true 0 tau)) (ms start) (ms stop) in
  let m := Z.quot diff (ms stop - ms start) in
  (diff = 0 /\ v = 0) \/
  (diff <> 0 /\ exists E, ex (bd_from_dec (Z.abs m)) = Some E /\
     let invert := ((m <? 0) && q0) || (negb (m <? 0) && negb q0) in
     sigfig_round (bd_to_dec (if invert then bd_quo P36 E else E)) = Some v).
Proof.
  intros Hh Hnow Hs HK Hms H. destruct (history_inv _ _ _ _ _ _ _ Hh) as (HI & HE & Hhd & Hrec).
  rewrite <- HE. eapply geom_structure_chain; try eassumption; [rewrite <- Hrec; assumption|lia].
Qed.

(* an error event of the history: the creation or an update whose raw spot prices make getSpotPrices report an error *)
Fixpoint upd_error_at (evs : list pev) (t : Z) : Prop :=
  match evs with
  | [] => False
  | PUpd now _ w0 w1 :: r => (now = t /\ spot_err w0 w1 = true) \/ upd_error_at r t
  | PPrune _ _ :: r => upd_error_at r t
  end.
Definition error_at (t0 : Z) (w0 w1 : raw) (evs : list pev) (t : Z) : Prop :=
  (t0 = t /\ spot_err w0 w1 = true) \/ upd_error_at evs t.

Lemma prun_errors : forall evs K p G first t h p' G' te,
  Inv lg K p G -> r_time (last G dr) = t -> r_height (last G dr) = h -> (first = true -> r_a0 (last G dr) = 0) ->
  wf_from first t h evs -> prun lg p G evs = Some (p', G') -> upd_error_at evs te ->
  exists r, In r G' /\ r_time r = te /\ r_err r = te.
Proof.
  induction evs as [|e evs IH]; intros K p G first t h p' G' te HI Ht Hh Hz Hwf Hr Herr; cbn [prun upd_error_at wf_from] in *; [contradiction|].
  destruct (pstep lg p e) as [[p1 o]|] eqn:Es; [|discriminate].
  pose proof (inv_step _ _ _ _ _ _ _ HI Es) as HI1. cbv zeta in HI1.
  destruct e as [now height w0 w1|keep b].
  - destruct Hwf as [Hcase Hwf]. cbn [pstep] in Es.
    pose proof HI as (HC & Hrec & _).
    destruct (update_record lg now height (p_recent p) w0 w1) as [r'| |] eqn:Eu; [| |discriminate].
    + injection Es as <- <-.
      destruct (chain_err _ _ HC) as (He & _).
      assert (In (last G dr) G) as Hlin.
      { destruct (chain_last_form _ _ HC) as (G0 & r & HG & Hl). rewrite Hl, HG, in_app_iff. right; left; reflexivity. }
      rewrite Hrec in Eu. destruct (update_record_spec _ _ _ _ _ _ _ Eu (He _ Hlin)) as (_ & T1 & T2 & T3 & T4).
      destruct Herr as [[Hn Hse]|Herr].
      * (* this update is the error event: its record stays in every later G *)
        assert (forall evs' p2 G2 p3 G3, prun lg p2 G2 evs' = Some (p3, G3) -> In r' G2 -> In r' G3) as Hkeep.
        { induction evs' as [|e' evs' IH']; intros p2 G2 p3 G3 Hr' Hin; cbn [prun] in Hr'.
          - injection Hr' as <- <-. assumption.
          - destruct (pstep lg p2 e') as [[p4 o4]|]; [|discriminate]. destruct o4 as [x4|]; eapply IH'; try eassumption.
            rewrite in_app_iff. left; assumption. }
        exists r'. split; [|split].
        -- eapply Hkeep; [eassumption|]. rewrite in_app_iff. right; left; reflexivity.
        -- lia.
        -- rewrite T4, Hse. lia.
      * eapply (IH _ _ _ false now height); try eassumption; try (rewrite last_last; assumption). discriminate.
    + exfalso. rewrite Hrec in Eu. revert Eu. apply update_record_ok.
      destruct Hcase as [(Hf & -> & ->)|[H1 H2]]; [right; repeat split; auto|left; lia].
  - cbn [pstep] in Es. injection Es as <- <-. eapply IH; eassumption.
Qed.

Lemma prun_keeps : forall evs p G p' G' r, prun lg p G evs = Some (p', G') -> In r G -> In r G'.
Proof.
  induction evs as [|e evs IH]; intros p G p' G' r Hr Hin; cbn [prun] in Hr.
  - injection Hr as <- <-. assumption.
  - destruct (pstep lg p e) as [[p1 o]|]; [|discriminate]. destruct o as [x|]; eapply IH; try eassumption.
    rewrite in_app_iff. left; assumption.
Qed.

Theorem error_flagged t0 h0 w0 w1 evs p G now q0 geom start stop f v te :
  history t0 h0 w0 w1 evs p G -> r_time (p_recent p) <= now -> max_keep t0 evs <= start ->
  twap_between lg ex now p q0 geom start stop = QVal f v ->
  error_at t0 w0 w1 evs te -> start <= te <= stop ->
  f = true.
Proof.
  intros Hh Hnow HK H Herr Hte. destruct (history_inv _ _ _ _ _ _ _ Hh) as (HI & HE & Hhd & Hrec).
  destruct Hh as (Hz & Hwf & Hrun).
  assert (exists r, In r G /\ r_time r = te /\ r_err r = te) as (r & Hin & Hrt & Hre).
  { pose proof (new_record_spec lg t0 h0 w0 w1) as Hn. cbv zeta in Hn. destruct Hn as (N1 & N2 & N3 & N4 & _ & _ & N7).
    destruct Herr as [[Ht0 Hse]|Herr].
    - exists (new_record t0 h0 w0 w1). split; [|split].
      + eapply prun_keeps; [eassumption|left; reflexivity].
      + lia.
      + rewrite N7, Hse. lia.
    - pose proof (inv_create lg t0 t0 h0 w0 w1 Hz) as HI0.
      eapply (prun_errors evs t0 _ _ true t0 h0); try eassumption. intros _; exact N4. }
  eapply error_flagged_chain; try eassumption; [rewrite <- Hrec; assumption|lia|lia].
Qed.

End Histories.

(* ---- the two quote directions of the geometric TWAP ---- *)
Section Reciprocal.
Variable lg : Z -> option Z.
Variable ex : Z -> option Z.

(* what geometric.computeTwap should return for accumulator difference [diff] over [n] milliseconds: the code's
   rounding of Exp2 |mean| or of its reciprocal *)
Definition geom_answer (diff n : Z) (q0 : bool) (v : Z) : Prop :=
  let m := Z.quot diff n in
  exists E, ex (bd_from_dec (Z.abs m)) = Some E /\
    let invert := ((m <? 0) && q0) || (negb (m <? 0) && negb q0) in
    sigfig_round (bd_to_dec (if invert then bd_quo P36 E else E)) = Some v.

Theorem geom_reciprocal t0 h0 w0 w1 evs p G now start stop f0 v0 f1 v1 :
  history lg t0 h0 w0 w1 evs p G -> r_time (p_recent p) <= now ->
  t0 <= start -> max_keep t0 evs <= start -> ms start < ms stop ->
  twap_between lg ex now p true true start stop = QVal f0 v0 ->
  twap_between lg ex now p false true start stop = QVal f1 v1 ->
  let diff := integral (fun tau => glogv lg (price_at (spec_events t0 w0 w1 evs) true 0 tau)) (ms start) (ms stop) in
  let m := Z.quot diff (ms stop - ms start) in
  (diff = 0 /\ v0 = 0 /\ v1 = 0) \/
  (diff <> 0 /\ exists E, ex (bd_from_dec (Z.abs m)) = Some E /\
     sigfig_round (bd_to_dec (if m <? 0 then bd_quo P36 E else E)) = Some v0 /\
     sigfig_round (bd_to_dec (if m <? 0 then E else bd_quo P36 E)) = Some v1).
Proof.
  intros Hh Hnow Hs HK Hms H0 H1. cbv zeta.
  pose proof (geom_structure lg ex _ _ _ _ _ _ _ _ _ _ _ _ _ Hh Hnow Hs HK Hms H0) as G0.
  pose proof (geom_structure lg ex _ _ _ _ _ _ _ _ _ _ _ _ _ Hh Hnow Hs HK Hms H1) as G1.
  cbv zeta in G0, G1.
  destruct G0 as [[D0 V0]|[D0 (E0 & X0 & S0)]]; destruct G1 as [[D1 V1]|[D1 (E1 & X1 & S1)]]; try contradiction.
  - left. tauto.
  - right. split; [assumption|]. rewrite X0 in X1. injection X1 as <-. exists E0. split; [assumption|].
    destruct (_ <? 0); cbn [andb orb negb] in *; split; assumption.
Qed.

(* bankers rounding is within half a unit *)
Lemma chop_half p a : 0 < p -> 0 <= a -> Z.quot p 2 * 2 = p ->
  Z.abs (chop_round_nonneg p a * p - a) * 2 <= p.
Proof.
  intros Hp Ha Hh. unfold chop_round_nonneg.
  pose proof (Z.quot_rem' a p) as Hqr. pose proof (Z.rem_bound_pos a p Ha Hp) as Hrem.
  remember (Z.quot a p) as q eqn:Hq. remember (Z.rem a p) as r eqn:Hr. remember (Z.quot p 2) as h eqn:Hhd.
  clear Hq Hr Hhd.
  destruct (r =? 0) eqn:E0.
  - apply Z.eqb_eq in E0. subst r. replace (q * p - a) with 0 by lia. cbn. lia.
  - destruct (r ?= h) eqn:Ec.
    + apply Z.compare_eq in Ec. subst r.
      destruct (Z.even q).
      * replace (q * p - a) with (- h) by lia. lia.
      * replace ((q + 1) * p - a) with (p - h) by lia. lia.
    + rewrite Z.compare_lt_iff in Ec. lia.
    + rewrite Z.compare_gt_iff in Ec. lia.
Qed.

(* one rounded reciprocal: E * round(10^72 / E) is 10^72 up to E/2 + E/10^36 *)
Lemma bd_quo_recip E : 0 < E ->
  Z.abs (bd_quo P36 E * E * P36 - P36 * P72) * 2 <= E * P36 + 2 * E.
Proof.
  intros HE. unfold bd_quo.
  assert (0 < P36) as H36 by reflexivity. assert (0 < P72) as H72 by reflexivity.
  assert (Z.quot P36 2 * 2 = P36) as Hhalf by reflexivity.
  remember (P36 * P72) as N eqn:HNdef. assert (0 < N) as HN by nia.
  remember (Z.quot N E) as Q eqn:HQdef.
  assert (Q = N / E) as HQ by (rewrite HQdef; apply Z.quot_div_nonneg; lia).
  assert (Q * E <= N < Q * E + E) as HQE.
  { rewrite HQ. pose proof (Z.mul_div_le N E HE). pose proof (Z.mul_succ_div_gt N E HE). nia. }
  assert (0 <= Q) as HQ0 by (rewrite HQ; apply Z.div_pos; lia).
  assert (Z.abs (chop_round P36 Q * P36 - Q) * 2 <= P36) as Hr.
  { unfold chop_round. destruct (Q <? 0) eqn:EQ; [lia|]. apply chop_half; assumption. }
  remember (chop_round P36 Q) as R eqn:HRdef. clear HRdef HQdef HQ.
  remember P36 as c eqn:Hc. clear Hc Hhalf HNdef.
  assert (Z.abs (R * c * E - Q * E) * 2 <= E * c) as H1.
  { replace (R * c * E - Q * E) with ((R * c - Q) * E) by ring. rewrite Z.abs_mul, (Z.abs_eq E) by lia. nia. }
  replace (R * E * c - N) with ((R * c * E - Q * E) - (N - Q * E)) by ring.
  lia.
Qed.

End Reciprocal.
