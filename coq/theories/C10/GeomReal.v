(* C10: the value of the geometric TWAP as a real number.  If Exp2 is accurate to a relative eta (osmomath documents
   1e-18; property C13 proves 1e-19 for its model of the same code), then what geometric.computeTwap returns for a
   non-zero accumulator difference is 2^(+-mean) up to a relative 5.1e-8 (SigFigRound to 8 digits) plus 3e-18, where
   mean = the truncated time-weighted mean of the 18-decimal logarithms the module accumulated.
   Uses the standard library's real numbers (classical axioms). *)
From Coq Require Import ZArith Reals Lra Lia.
From Osmo Require Import Base.DecModel Gen.C10_consts C10.Model C10.ProofsTwap C10.GeomBound.
Open Scope R_scope.

Definition dR (z : Z) : R := IZR z / 10 ^ 18.      (* value of a Dec *)
Definition bR (z : Z) : R := IZR z / 10 ^ 36.      (* value of a BigDec *)

Lemma Rabs_le_inv x y : Rabs x <= y -> - y <= x <= y.
Proof. intros H. unfold Rabs in H. destruct (Rcase_abs x); lra. Qed.

Lemma pow18_pos : 0 < 10 ^ 18. Proof. apply pow_lt; lra. Qed.
Lemma pow36_pos : 0 < 10 ^ 36. Proof. apply pow_lt; lra. Qed.
Lemma IZR_P18 : IZR P18 = 10 ^ 18. Proof. unfold P18. rewrite (pow_IZR 10 18). reflexivity. Qed.
Lemma IZR_P36 : IZR P36 = 10 ^ 36. Proof. unfold P36. rewrite (pow_IZR 10 36). reflexivity. Qed.
Lemma IZR_P72 : IZR P72 = 10 ^ 72. Proof. unfold P72. rewrite (pow_IZR 10 72). reflexivity. Qed.
Lemma pow36_split : 10 ^ 36 = 10 ^ 18 * 10 ^ 18. Proof. rewrite <- pow_add. reflexivity. Qed.
Lemma pow72_split : 10 ^ 72 = 10 ^ 36 * 10 ^ 36. Proof. rewrite <- pow_add. reflexivity. Qed.

Lemma bR_from_dec z : bR (bd_from_dec z) = dR z.
Proof.
  unfold bR, dR, bd_from_dec. rewrite mult_IZR, IZR_P18, pow36_split. field; pose proof pow18_pos; lra.
Qed.

(* the 18-decimal cut of a non-negative BigDec *)
Lemma dR_bd_to_dec x : (0 <= x)%Z -> dR (bd_to_dec x) <= bR x < dR (bd_to_dec x) + 1 / 10 ^ 18.
Proof.
  intros Hx. destruct (bd_to_dec_close x Hx) as [H1 H2].
  apply IZR_le in H1. apply IZR_lt in H2. rewrite plus_IZR, mult_IZR, IZR_P18 in *.
  unfold dR, bR. rewrite pow36_split. pose proof pow18_pos as Hp.
  remember (10 ^ 18) as p eqn:Hpe. clear Hpe. remember (IZR (bd_to_dec x)) as a. remember (IZR x) as c.
  split.
  - apply Rmult_le_reg_r with (p * p); [nra|].
    replace (a / p * (p * p)) with (a * p) by (field; lra). replace (c / (p * p) * (p * p)) with c by (field; lra). lra.
  - apply Rmult_lt_reg_r with (p * p); [nra|].
    replace (c / (p * p) * (p * p)) with c by (field; lra).
    replace ((a / p + 1 / p) * (p * p)) with (a * p + p) by (field; lra). lra.
Qed.

(* SigFigRound in real terms *)
Lemma dR_sigfig d v : sigfig_round d = Some v -> (0 < d)%Z ->
  Rabs (dR v - dR d) <= dR d / (2 * 10 ^ 7) + 1 / 10 ^ 18.
Proof.
  intros H Hd. pose proof (sigfig_round_close d v H Hd) as Hz.
  apply IZR_le in Hz. rewrite mult_IZR, plus_IZR, abs_IZR, minus_IZR in Hz.
  replace (IZR (2 * 10 ^ 7)) with (2 * 10 ^ 7) in Hz by (rewrite mult_IZR, (pow_IZR 10 7); reflexivity).
  unfold dR. pose proof pow18_pos as Hp. assert (0 < 2 * 10 ^ 7) as H7 by (assert (0 < 10 ^ 7) by (apply pow_lt; lra); lra).
  replace (IZR v / 10 ^ 18 - IZR d / 10 ^ 18) with ((IZR v - IZR d) / 10 ^ 18) by (field; lra).
  unfold Rdiv at 1. rewrite Rabs_mult, (Rabs_pos_eq (/ 10 ^ 18)) by (left; apply Rinv_0_lt_compat; assumption).
  remember (10 ^ 18) as p eqn:Hpe. clear Hpe. remember (2 * 10 ^ 7) as q eqn:Hqe. clear Hqe.
  remember (Rabs (IZR v - IZR d)) as a. remember (IZR d) as c.
  apply Rmult_le_reg_r with (p * q); [nra|].
  replace (a * / p * (p * q)) with (a * q) by (field; lra).
  replace ((c / p / q + 1 / p) * (p * q)) with (c + q) by (field; lra). lra.
Qed.

Section Value.
Variable ex : Z -> option Z.
Variable eta : R.
Hypothesis eta_small : 0 <= eta <= 1 / 10 ^ 18.
(* accuracy of Exp2 on the exponents it accepts *)
Hypothesis ex_acc : forall e E, ex e = Some E -> (0 <= e)%Z ->
  Rabs (bR E - Rpower 2 (bR e)) <= eta * Rpower 2 (bR e).

Lemma Rpower2_ge1 x : 0 <= x -> 1 <= Rpower 2 x.
Proof.
  intros Hx. destruct Hx as [Hx| <-]; [|rewrite Rpower_O; lra].
  left. rewrite <- (Rpower_O 2) by lra. apply Rpower_lt; lra.
Qed.

Lemma tiny18 : 1 / 10 ^ 18 <= 1 / 10 ^ 9.
Proof.
  unfold Rdiv. rewrite !Rmult_1_l. apply Rinv_le_contravar; [apply pow_lt; lra|apply Rle_pow; [lra|lia]].
Qed.

Theorem geom_value diff n q0 v :
  geom_answer ex diff n q0 v ->
  let m := Z.quot diff n in
  let T := Rpower 2 (dR (Z.abs m)) in
  let invert := (((m <? 0) && q0) || (negb (m <? 0) && negb q0))%bool in
  let target := if invert then / T else T in
  Rabs (dR v - target) <= 51 / 10 ^ 9 * target + 3 / 10 ^ 18.
Proof.
  intros (E & HE & HS). cbv zeta in *.
  set (m := Z.quot diff n) in *. set (T := Rpower 2 (dR (Z.abs m))).
  assert (0 <= bd_from_dec (Z.abs m))%Z as Hnn by (unfold bd_from_dec, P18; lia).
  pose proof (ex_acc _ _ HE Hnn) as Hacc. rewrite bR_from_dec in Hacc. fold T in Hacc.
  assert (1 <= T) as HT.
  { apply Rpower2_ge1. unfold dR. pose proof pow18_pos. apply Rmult_le_pos; [apply IZR_le; lia|left; apply Rinv_0_lt_compat; assumption]. }
  pose proof pow18_pos as Hp18. pose proof pow36_pos as Hp36. pose proof tiny18 as Ht18.
  assert (0 < 10 ^ 9) as Hp9 by (apply pow_lt; lra).
  assert (1 / 10 ^ 18 = / 10 ^ 18) as Hinv18 by (field; lra).
  set (u := 1 / 10 ^ 18) in *.
  assert (0 < u) as Hu by (subst u; apply Rdiv_lt_0_compat; lra).
  assert (u <= 1 / 10 ^ 9) as Hu9 by exact Ht18.
  assert (1 / 10 ^ 9 <= 1 / 1000) as H9.
  { unfold Rdiv. rewrite !Rmult_1_l. apply Rinv_le_contravar; [lra|].
    replace 1000 with (10 ^ 3) by ring. apply Rle_pow; [lra|lia]. }
  apply Rabs_le_inv in Hacc. destruct Hacc as [Ha1 Ha2].
  set (e := bR E) in *.
  assert (0 < e) as He by nra.
  assert (0 < E)%Z as HEpos.
  { apply lt_IZR. unfold e, bR in He. apply Rmult_lt_reg_r with (/ 10 ^ 36); [apply Rinv_0_lt_compat; assumption|]. lra. }
  destruct (((m <? 0)%Z && q0) || (negb (m <? 0)%Z && negb q0))%bool eqn:Einv.
  - (* reciprocal *)
    pose proof (bd_quo_recip E HEpos) as Hq.
    apply IZR_le in Hq. rewrite mult_IZR, abs_IZR, minus_IZR, !mult_IZR, plus_IZR, !mult_IZR, IZR_P36, IZR_P72 in Hq.
    set (X := bd_quo P36 E) in *. set (r := bR X).
    assert (IZR X = r * 10 ^ 36) as HXr by (subst r; unfold bR; field; lra).
    assert (IZR E = e * 10 ^ 36) as HEe by (subst e; unfold bR; field; lra).
    rewrite HXr, HEe in Hq.
    (* |r e - 1| <= e (1/2 + 1/10^36) / 10^36 *)
    assert (Rabs (r * e - 1) <= e / 10 ^ 36) as Hre.
    { replace (r * 10 ^ 36 * (e * 10 ^ 36) * 10 ^ 36 - 10 ^ 36 * 10 ^ 72)
        with ((r * e - 1) * (10 ^ 36 * 10 ^ 72)) in Hq by (rewrite pow72_split; ring).
      rewrite Rabs_mult, (Rabs_pos_eq (10 ^ 36 * 10 ^ 72)) in Hq by (assert (0 < 10 ^ 72) by (apply pow_lt; lra); nra).
      assert (0 < 10 ^ 72) as Hp72 by (apply pow_lt; lra).
      apply Rmult_le_reg_r with (10 ^ 36 * 10 ^ 72 * 2); [nra|].
      replace (e / 10 ^ 36 * (10 ^ 36 * 10 ^ 72 * 2)) with (e * 10 ^ 72 * 2) by (field; lra).
      assert (1 <= 10 ^ 36) by (apply pow_R1_Rle; lra).
      rewrite pow72_split in *. nra. }
    apply Rabs_le_inv in Hre. destruct Hre as [Hr1 Hr2].
    assert (/ 10 ^ 36 <= u * u) as H36u.
    { subst u. rewrite pow36_split. right. field; lra. }
    assert (0 < / T) as HiT by (apply Rinv_0_lt_compat; lra).
    assert (/ T <= 1) as HiT1 by (rewrite <- Rinv_1; apply Rinv_le_contravar; lra).
    assert (T * / T = 1) as HTi by (field; lra).
    (* r is within u*u + 2 eta / T of 1/T *)
    assert (Rabs (r - / T) <= u * u + 2 * eta * / T) as HrT.
    { assert (e * / e = 1) as Hei by (field; lra).
      assert (0 < / e) as Hie by (apply Rinv_0_lt_compat; assumption).
      assert (Rabs (r - / e) <= / 10 ^ 36) as H1.
      { apply Rabs_le. unfold Rdiv in Hr1, Hr2. split.
        - apply Rmult_le_reg_r with e; [assumption|]. replace ((r - / e) * e) with (r * e - 1) by (field; lra). nra.
        - apply Rmult_le_reg_r with e; [assumption|]. replace ((r - / e) * e) with (r * e - 1) by (field; lra). nra. }
      assert (Rabs (/ e - / T) <= 2 * eta * / T) as H2.
      { replace (/ e - / T) with ((T - e) * (/ e * / T)) by (field; lra).
        rewrite Rabs_mult, (Rabs_pos_eq (/ e * / T)) by nra.
        assert (Rabs (T - e) <= eta * T) as Hd by (apply Rabs_le; lra).
        assert (/ e <= 2 * / T) as He2.
        { apply Rmult_le_reg_r with (e * T); [nra|]. replace (/ e * (e * T)) with T by (field; lra).
          replace (2 * / T * (e * T)) with (2 * e) by (field; lra). nra. }
        assert (0 <= Rabs (T - e)) by apply Rabs_pos.
        assert (Rabs (T - e) * (/ e * / T) <= eta * T * (/ e * / T)) by (apply Rmult_le_compat_r; nra).
        replace (eta * T * (/ e * / T)) with (eta * / e) in * by (field; lra). nra. }
      replace (r - / T) with ((r - / e) + (/ e - / T)) by ring.
      eapply Rle_trans; [apply Rabs_triang|]. lra. }
    apply Rabs_le_inv in HrT. destruct HrT as [HrT1 HrT2].
    assert (0 <= X)%Z as HX0.
    { subst X. unfold bd_quo. pose proof (Z.quot_pos (P36 * P72) E ltac:(unfold P36, P72; lia) ltac:(lia)) as Hqp.
      unfold chop_round. destruct (Z.quot (P36 * P72) E <? 0)%Z eqn:En; [lia|].
      unfold chop_round_nonneg. assert (0 <= Z.quot (Z.quot (P36 * P72) E) P36)%Z by (apply Z.quot_pos; [lia|unfold P36; lia]).
      destruct (Z.rem _ P36 =? 0)%Z; [assumption|]. destruct (Z.rem _ P36 ?= Z.quot P36 2)%Z; [destruct (Z.even _)| |]; lia. }
    pose proof (dR_bd_to_dec X HX0) as [Hd1 Hd2]. fold r in Hd1, Hd2. fold u in Hd2.
    set (d := bd_to_dec X) in *.
    destruct (Z.eq_dec d 0) as [Hd0|Hd0].
    + (* the cut is 0: SigFigRound returns 0 *)
      rewrite Hd0 in HS. cbn in HS. injection HS as <-.
      assert (dR d = 0) as Hdd by (rewrite Hd0; unfold dR; lra). rewrite Hdd in *.
      replace (dR 0) with 0 by (unfold dR; lra).
      rewrite Rminus_0_l, Rabs_Ropp, Rabs_pos_eq by lra. nra.
    + assert (0 < d)%Z as Hdpos.
      { assert (0 <= d)%Z; [|lia]. subst d. unfold bd_to_dec. apply Z.quot_pos; [assumption|unfold P18; lia]. }
      pose proof (dR_sigfig d v HS Hdpos) as Hsf. fold u in Hsf.
      assert (0 < dR d) as Hddpos by (unfold dR; apply Rdiv_lt_0_compat; [apply IZR_lt; assumption|assumption]).
      apply Rabs_le_inv in Hsf. destruct Hsf as [Hs1 Hs2].
      assert (dR d / (2 * 10 ^ 7) <= 50 / 10 ^ 9 * dR d) as Hfac.
      { replace (10 ^ 9) with (10 ^ 7 * 100) by (replace 100 with (10 ^ 2) by ring; rewrite <- pow_add; reflexivity).
        assert (0 < 10 ^ 7) by (apply pow_lt; lra). right. field; lra. }
      apply Rabs_le. split; nra.
  - (* direct *)
    assert (0 <= E)%Z as HE0 by lia.
    pose proof (dR_bd_to_dec E HE0) as [Hd1 Hd2]. fold e in Hd1, Hd2. fold u in Hd2.
    set (d := bd_to_dec E) in *.
    assert (0 < d)%Z as Hdpos.
    { apply lt_IZR. assert (0 < dR d) as H0 by nra. unfold dR in H0.
      apply Rmult_lt_reg_r with (/ 10 ^ 18); [apply Rinv_0_lt_compat; assumption|]. unfold Rdiv in H0. lra. }
    pose proof (dR_sigfig d v HS Hdpos) as Hsf. fold u in Hsf.
    apply Rabs_le_inv in Hsf. destruct Hsf as [Hs1 Hs2].
    assert (dR d / (2 * 10 ^ 7) <= 50 / 10 ^ 9 * dR d) as Hfac.
    { replace (10 ^ 9) with (10 ^ 7 * 100) by (replace 100 with (10 ^ 2) by ring; rewrite <- pow_add; reflexivity).
      assert (0 < 10 ^ 7) by (apply pow_lt; lra). right. field; lra. }
    apply Rabs_le. split; nra.
Qed.

End Value.

(* ---- from the accumulated mean to the true time-weighted mean of log2(price) ---- *)
Definition log2R (x : R) : R := ln x / ln 2.

Fixpoint rsum (f : Z -> R) (a : Z) (n : nat) : R :=
  match n with O => 0 | S k => f a + rsum f (a + 1) k end.

Lemma IZR_zsum f a n : IZR (Spec.zsum f a n) = rsum (fun i => IZR (f i)) a n.
Proof. revert a; induction n as [|n IH]; intros a; cbn [Spec.zsum rsum]; [reflexivity|]. rewrite plus_IZR, IH. reflexivity. Qed.

Lemma rsum_close f g c : 0 <= c -> forall n a,
  (forall i, (a <= i < a + Z.of_nat n)%Z -> Rabs (f i - g i) <= c) ->
  Rabs (rsum f a n - rsum g a n) <= c * INR n.
Proof.
  intros Hc. induction n as [|n IH]; intros a H.
  - cbn [rsum INR]. rewrite Rminus_0_r, Rabs_R0. lra.
  - cbn [rsum]. rewrite S_INR.
    replace (f a + rsum f (a + 1) n - (g a + rsum g (a + 1) n)) with ((f a - g a) + (rsum f (a + 1) n - rsum g (a + 1) n)) by ring.
    eapply Rle_trans; [apply Rabs_triang|].
    pose proof (H a ltac:(lia)). pose proof (IH (a + 1)%Z ltac:(intros i Hi; apply H; lia)). lra.
Qed.

Lemma ln2_pos : 0 < ln 2. Proof. rewrite <- ln_1. apply ln_increasing; lra. Qed.
Lemma ln2_le1 : ln 2 <= 1.
Proof.
  assert (2 <= exp 1) by (pose proof (exp_ineq1_le 1); lra).
  destruct (Rle_lt_dec (ln 2) 1) as [|Hgt]; [assumption|]. exfalso.
  assert (exp 1 < exp (ln 2)) by (apply exp_increasing; assumption). rewrite exp_ln in * by lra. lra.
Qed.

(* exp y <= 1 + 2 y and exp (- y) >= 1 - y on [0, 1/2] *)
Lemma exp_up y : 0 <= y <= 1 / 2 -> exp y <= 1 + 2 * y.
Proof.
  intros Hy. pose proof (exp_ineq1_le (- y)) as H. pose proof (exp_pos y) as Hp. pose proof (exp_pos (- y)) as Hn.
  assert (exp y * exp (- y) = 1) as Hinv by (rewrite <- exp_plus; replace (y + - y) with 0 by ring; apply exp_0).
  (* exp y = 1 / exp(-y) <= 1 / (1 - y) <= 1 + 2y *)
  assert (exp y * (1 - y) <= 1) by nra.
  nra.
Qed.

(* |2^a - 2^b| <= 2^b * 2 |a - b| for |a - b| <= 1/2 *)
Lemma Rpower2_close a b : Rabs (a - b) <= 1 / 2 -> Rabs (Rpower 2 a - Rpower 2 b) <= Rpower 2 b * (2 * Rabs (a - b)).
Proof.
  intros H. unfold Rpower. pose proof ln2_pos as L0. pose proof ln2_le1 as L1.
  set (B := exp (b * ln 2)). assert (0 < B) as HB by apply exp_pos.
  replace (a * ln 2) with (b * ln 2 + (a - b) * ln 2) by ring. rewrite exp_plus. fold B.
  set (y := (a - b) * ln 2).
  assert (Rabs y <= Rabs (a - b)) as Hy.
  { subst y. rewrite Rabs_mult, (Rabs_pos_eq (ln 2)) by lra. pose proof (Rabs_pos (a - b)). nra. }
  replace (B * exp y - B) with (B * (exp y - 1)) by ring.
  rewrite Rabs_mult, (Rabs_pos_eq B) by lra.
  apply Rmult_le_compat_l; [lra|].
  destruct (Rle_lt_dec 0 y) as [Hy0|Hy0].
  - rewrite (Rabs_pos_eq y) in Hy by assumption.
    pose proof (exp_up y ltac:(lra)). pose proof (exp_ineq1_le y).
    rewrite Rabs_pos_eq by lra. lra.
  - rewrite (Rabs_left y) in Hy by assumption.
    pose proof (exp_ineq1_le y). assert (exp y < 1) by (rewrite <- exp_0; apply exp_increasing; assumption).
    rewrite Rabs_left by lra. lra.
Qed.
