(* C10: the state transitions evaluated by the correspondence check (C10/Corr.v [step], [init_state]) are the module
   history semantics the theorems quantify over (C10/Spec.v [gstep], [ginit]); query answers are [query]. *)
From Coq Require Import ZArith List Bool.
Import ListNotations.
From Osmo Require Import Base.Obs C10.Model C10.Spec C10.Corr.
Open Scope Z_scope.

Definition gop_of (o : cop) : option gop :=
  match o with
  | CCreate raws => Some (GCreate raws)
  | CTouch id => Some (GTouch id)
  | CEnd dt raws => Some (GEnd dt raws)
  | CPrune keep last => Some (GPrune keep last)
  | CEpoch => Some GEpoch
  | CQuery _ _ _ _ _ => None
  end.

Lemma step_is_gstep lg ex g st o :
  fst (step lg ex g st o) = match gop_of o with Some go => gstep lg st go | None => st end.
Proof. destruct o; reflexivity. Qed.

Lemma step_query_obs lg ex g st tg geom tonow start stop :
  snd (step lg ex g st (CQuery tg geom tonow start stop)) = flat_qres (query lg ex st tg geom tonow start stop).
Proof. reflexivity. Qed.

Lemma init_is_ginit c : init_state c = ginit (c_t0 c) (c_h0 c) (c_limit c) (c_keep_period c).
Proof. reflexivity. Qed.
