(* C10 correspondence glue: run the model on a harness history and flatten what the driver observes.
   The raw spot prices (outputs of PoolManager.RouteCalculateSpotPrice) are case inputs; everything the
   twap module derives from them - records, accumulators, error times, changed-pool sets, pruning state,
   query answers - is computed by the model and compared with the implementation's observations. *)
From Coq Require Import ZArith List Bool.
Import ListNotations.
From Osmo Require Import Base.Obs Base.DecModel Gen.C10_consts C10.Model C10.LogExp.
Open Scope Z_scope.

Inductive cop :=
| CCreate (raws : list (raw * raw))                       (* successful pool creation (afterCreatePool) *)
| CTouch (id : Z)                                         (* successful price-affecting operation (trackChangedPool) *)
| CEnd (dt : Z) (raws : list (Z * list (raw * raw)))      (* EndBlock; raw spot prices of every pool at that moment *)
| CPrune (keep last : Z)                                  (* SetPruningState{true, keep, last} *)
| CEpoch                                                  (* epoch hook AfterEpochEnd(prune identifier) *)
| CQuery (tg : qtarget) (geom tonow : bool) (start stop : Z).

Record case := mkCase {
  c_t0 : Z; c_h0 : Z; c_limit : Z; c_keep_period : Z;
  c_geom : bool;                 (* false: geometric accumulator not observed (log not evaluated) *)
  c_ops : list cop;
  c_expect : list Z }.

Section Run.
Variable lg : Z -> option Z.
Variable ex : Z -> option Z.
Variable with_g : bool.

Definition flat_rec (r : rec) : list Z :=
  [r_time r; r_height r; r_p0 r; r_p1 r; r_a0 r; r_a1 r] ++ (if with_g then [r_g r] else []) ++ [r_err r].
Definition flat_recent (st : state) : list Z :=
  flat_map (fun p : pool => Z.of_nat (length p) :: flat_map (fun ps => flat_rec (p_recent ps)) p) (s_pools st).
Definition flat_hist (st : state) : list Z :=
  flat_map (fun p : pool => Z.of_nat (length p) ::
              flat_map (fun ps => Z.of_nat (length (p_hist ps)) :: flat_map flat_rec (p_hist ps)) p) (s_pools st).
Definition flat_pruning (st : state) : list Z :=
  let pr := s_pruning st in [b2z (pr_on pr); pr_keep pr; pr_last pr].
Definition qerr_code (e : qerr) : Z :=
  match e with EStartAfterEnd => 2 | EEndInFuture => 3 | ETooOld => 4 | ENotInPool => 5 | ESameDenom => 6 | EPanic => 7 end.
Definition flat_qres (q : qres) : list Z :=
  match q with QVal f v => [b2z f; v] | QErr e => [qerr_code e; 0] end.

Definition step (st : state) (o : cop) : state * list Z :=
  match o with
  | CCreate raws =>
      let st' := create_pool st raws in
      (st', [Z.of_nat (length (s_pools st')); Z.of_nat (length raws)])
  | CTouch id => (track st id, [])
  | CEnd dt raws =>
      let was := pr_on (s_pruning st) in
      let st1 := end_block lg st raws in
      (next_block st1 dt,
       Z.of_nat (length (s_changed st)) :: s_changed st ++ flat_recent st1 ++ flat_pruning st1 ++
       (if was then flat_hist st1 else []) ++ [b2z (s_halted st1)])
  | CPrune keep last => let st' := set_pruning st keep last in (st', flat_pruning st')
  | CEpoch => let st' := epoch_end st in (st', flat_pruning st')
  | CQuery tg geom tonow start stop => (st, flat_qres (query lg ex st tg geom tonow start stop))
  end.

Fixpoint run (st : state) (ops : list cop) : state * list Z :=
  match ops with
  | [] => (st, [])
  | o :: r => let '(st1, l1) := step st o in let '(st2, l2) := run st1 r in (st2, l1 ++ l2)
  end.

Definition init_state (c : case) : state :=
  mkState (c_t0 c) (c_h0 c) [] [] (mkPruning false zero_time 0) (c_keep_period c) (c_limit c) false.

Definition obs_of (c : case) : list Z :=
  let '(st, l) := run (init_state c) (c_ops c) in
  [c_h0 c] ++ l ++ [-7] ++ flat_hist st.
End Run.

(* arithmetic-only cases never evaluate the logarithm: the geometric accumulator is then neither computed nor compared *)
Definition no_log (_ : Z) : option Z := Some 0.
Definition no_exp (_ : Z) : option Z := None.

Definition model_obs (c : case) : list Z :=
  if c_geom c then obs_of twap_log exp2 true c else obs_of no_log no_exp false c.
Definition case_ok (c : case) : bool := zlist_eqb (model_obs c) (c_expect c).

(* the same with the logarithms of a history taken from a table computed once by [build_tab]
   (C10/ProofsLog.v lg_cached_correct: [lg_cached (build_tab ps)] is pointwise [twap_log]) *)
Definition model_obs_tab (tab : list (Z * option Z)) (c : case) : list Z :=
  if c_geom c then obs_of (lg_cached tab) exp2 true c else obs_of no_log no_exp false c.
Definition case_ok_tab (tab : list (Z * option Z)) (c : case) : bool := zlist_eqb (model_obs_tab tab c) (c_expect c).
