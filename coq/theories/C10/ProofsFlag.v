(* C10: the error flag is not spurious - a flagged answer has a reason: an error record inside the interval, an error
   record or a zero asset-0 price in force at the start, or a zero asset-0 price in force at the end. *)
From Coq Require Import ZArith List Bool Lia Sorted.
Import ListNotations.
From Osmo Require Import Base.DecModel Gen.C10_consts C10.Model C10.Spec C10.ProofsSum C10.ProofsList C10.ProofsChain C10.ProofsTwap.
Open Scope Z_scope.

Section Flag.
Variable lg : Z -> option Z.
Variable ex : Z -> option Z.

(* every last-error time stored in a record is the time of an error record (or the zero time) *)
Definition ErrOrigin (G : list rec) : Prop :=
  forall r, In r G -> r_err r = zero_time \/
    exists r0, In r0 G /\ r_time r0 = r_err r /\ r_err r0 = r_time r0 /\ r_time r0 <= r_time r.

Lemma errorigin_snoc G r' :
  ErrOrigin G -> (r_err r' = r_time r' \/ (exists r, In r G /\ r_err r' = r_err r /\ r_time r <= r_time r')) ->
  ErrOrigin (G ++ [r']).
Proof.
  intros HG Hr' x Hx. rewrite in_app_iff in Hx. destruct Hx as [Hx|[<-|[]]].
  - destruct (HG x Hx) as [Hz|(r0 & H0 & H1 & H2 & H3)]; [left; assumption|].
    right. exists r0. rewrite in_app_iff. tauto.
  - destruct Hr' as [He|(r & Hr & He & Ht)].
    + right. exists r'. rewrite in_app_iff. split; [right; left; reflexivity|]. repeat split; try lia.
    + destruct (HG r Hr) as [Hz|(r0 & H0 & H1 & H2 & H3)]; [left; congruence|].
      right. exists r0. rewrite in_app_iff. split; [left; assumption|]. repeat split; try congruence; lia.
Qed.

Lemma prun_errorigin : forall evs K p G p' G',
  Inv lg K p G -> ErrOrigin G -> prun lg p G evs = Some (p', G') -> ErrOrigin G'.
Proof.
  induction evs as [|e evs IH]; intros K p G p' G' HI HO Hr; cbn [prun] in Hr.
  - injection Hr as <- <-. assumption.
  - destruct (pstep lg p e) as [[p1 o]|] eqn:Es; [|discriminate].
    pose proof (inv_step _ _ _ _ _ _ _ HI Es) as HI1. cbv zeta in HI1.
    destruct e as [now h w0 w1|keep b]; cbn [pstep] in Es.
    + pose proof HI as (HC & Hrec & _).
      destruct (update_record lg now h (p_recent p) w0 w1) as [r'| |] eqn:Eu; [| |discriminate].
      * injection Es as <- <-.
        destruct (chain_err _ _ HC) as (He & _).
        destruct (chain_last_form _ _ HC) as (G0 & r & HG & Hl).
        assert (In r G) as Hrin by (rewrite HG, in_app_iff; right; left; reflexivity).
        rewrite Hrec, Hl in Eu. destruct (update_record_spec _ _ _ _ _ _ _ Eu (He _ Hrin)) as ((Hle & _) & T1 & _ & _ & T4).
        eapply IH; [exact HI1| |exact Hr]. apply errorigin_snoc; [assumption|].
        destruct (spot_err w0 w1); [left; congruence|right; exists r; repeat split; assumption].
      * injection Es as <- <-. eapply IH; eassumption.
    + injection Es as <- <-. eapply IH; eassumption.
Qed.

Lemma history_errorigin t0 h0 w0 w1 evs p G : history lg t0 h0 w0 w1 evs p G -> ErrOrigin G.
Proof.
  intros (Hz & Hwf & Hrun).
  eapply prun_errorigin; [exact (inv_create lg t0 t0 h0 w0 w1 Hz)| |exact Hrun].
  intros r [<-|[]]. pose proof (new_record_spec lg t0 h0 w0 w1) as Hn. cbv zeta in Hn.
  destruct Hn as (N1 & _ & _ & _ & _ & _ & N7). destruct (spot_err w0 w1).
  - right. exists (new_record t0 h0 w0 w1). split; [left; reflexivity|]. repeat split; try congruence; lia.
  - left. assumption.
Qed.

(* how the last-error time of an interpolated record arises *)
Lemma rec_interp_err r t s : rec_interp lg r t = Some s -> r_time r <= t ->
  r_err s = r_err r \/ (r_err s = t /\ r_p0 r = 0).
Proof. intros H Hle. destruct (rec_interp_spec lg _ _ _ H Hle) as (_ & _ & _ & _ & _ & _ & _ & [He|(He & Hp & _)]); [left|right]; tauto. Qed.

Lemma interp_at_err r t s : interp_at lg r t = Some s -> r_time r <= t ->
  r_err s = r_err r \/ (r_err s = t /\ (r_time r = r_err r \/ r_p0 r = 0)).
Proof.
  unfold interp_at. intros H Hle. destruct (r_time r =? r_err r) eqn:E.
  - apply Z.eqb_eq in E. apply rec_interp_err in H; [|assumption]. cbn [r_err r_p0] in H.
    right. destruct H as [H|[H _]]; (split; [assumption|left; assumption]).
  - apply rec_interp_err in H; [|assumption]. destruct H as [H|[H Hp]]; [left; assumption|right; split; [assumption|right; assumption]].
Qed.

(* the record found for an earlier time inside the gap is the same *)
Lemma aob_same_in_gap G x t t' : StronglySorted le_t G ->
  hist_at_or_before G t' = Some x -> r_time x <= t <= t' -> hist_at_or_before G t = Some x.
Proof.
  revert x. induction G as [|y tl IH]; intros x Hs Hx Ht; [discriminate|].
  inversion Hs as [|? ? Hs' Hf]; subst. rewrite aob_cons in Hx. rewrite aob_cons.
  destruct (r_time y <=? t') eqn:E'; [|discriminate].
  destruct (hist_at_or_before tl t') as [z|] eqn:Ez.
  - injection Hx as ->. specialize (IH x Hs' eq_refl Ht).
    destruct (aob_in _ _ _ Ez) as [Hzin _]. rewrite Forall_forall in Hf. specialize (Hf _ Hzin). unfold le_t in Hf.
    destruct (r_time y <=? t) eqn:E; [|lia]. rewrite IH. reflexivity.
  - injection Hx as ->. destruct (r_time x <=? t) eqn:E; [|lia].
    destruct (hist_at_or_before tl t) as [z|] eqn:Ez2; [|reflexivity].
    destruct (aob_in _ _ _ Ez2) as [Hzin Hzt].
    destruct (aob_some_of_member tl z t' Hs' Hzin ltac:(lia)) as [w Hw]. congruence.
Qed.

Theorem flag_has_reason K p G now q0 geom start stop v :
  Inv lg K p G -> ErrOrigin G -> r_time (last G dr) <= now -> K <= start -> zero_time < start ->
  twap_between lg ex now p q0 geom start stop = QVal true v ->
  (exists r, In r G /\ r_err r = r_time r /\ start <= r_time r <= stop) \/
  (exists xs, hist_at_or_before G start = Some xs /\ (r_err xs = r_time xs \/ r_p0 xs = 0)) \/
  (exists xe, hist_at_or_before G stop = Some xe /\ r_p0 xe = 0).
Proof.
  intros HI HO Hnow HK Hzs H.
  pose proof HI as (HC & Hrec & Hs & Hb & Hag).
  destruct (chain_err _ _ HC) as (He & _ & Hst & _).
  (* the two interpolated records, with the way they were obtained *)
  assert (start <= stop <= now /\ exists xs s xe e,
            hist_at_or_before G start = Some xs /\ interp_at lg xs start = Some s /\
            hist_at_or_before G stop = Some xe /\
            (interp_at lg xe stop = Some e \/ rec_interp lg xe stop = Some e) /\
            compute_twap ex s e q0 geom = Some (true, v)) as (Hord & xs & s & xe & e & Hxs & Hsi & Hxe & Hei & Hc).
  { unfold twap_between in H. destruct (start >? stop) eqn:E1; [discriminate|].
    destruct (stop =? now) eqn:E2.
    - apply Z.eqb_eq in E2. subst stop. split; [lia|]. unfold twap_to_now in H.
      destruct (start >? now); [discriminate|]. rewrite Hag in H by assumption.
      destruct (hist_at_or_before G start) as [r0|] eqn:E0.
      2:{ unfold too_old in H. destruct (rec_interp lg (p_recent p) now); discriminate. }
      destruct (interp_at lg r0 start) as [s|] eqn:Es; [|discriminate].
      destruct (rec_interp lg (p_recent p) now) as [e|] eqn:Ee; [|discriminate]. rewrite Hrec in Ee.
      exists r0, s, (last G dr), e. repeat split; try assumption; try reflexivity.
      + apply (aob_last lg ex); assumption.
      + right; assumption.
      + unfold wrap in H. destruct (compute_twap ex s e q0 geom) as [[f' v']|]; [|discriminate]. injection H as <- <-. reflexivity.
    - destruct (stop >? now) eqn:E3; [discriminate|]. split; [lia|].
      rewrite Hag in H by assumption.
      destruct (hist_at_or_before G start) as [r0|] eqn:E0.
      2:{ unfold too_old in H. destruct (rec_interp lg (p_recent p) now); discriminate. }
      destruct (interp_at lg r0 start) as [s|] eqn:Es; [|discriminate].
      rewrite Hag in H by lia.
      destruct (hist_at_or_before G stop) as [r1|] eqn:E4.
      2:{ unfold too_old in H. destruct (rec_interp lg (p_recent p) now); discriminate. }
      destruct (interp_at lg r1 stop) as [e|] eqn:Ee; [|discriminate].
      exists r0, s, r1, e. repeat split; try assumption; try reflexivity.
      + left; assumption.
      + unfold wrap in H. destruct (compute_twap ex s e q0 geom) as [[f' v']|]; [|discriminate]. injection H as <- <-. reflexivity. }
  destruct (aob_in _ _ _ Hxs) as [Hxsin Hxst]. destruct (aob_in _ _ _ Hxe) as [Hxein Hxet].
  destruct (interp_at_spec lg _ _ _ Hsi Hxst) as (Ts & _).
  assert (r_time e = stop) as Te.
  { destruct Hei as [Hei|Hei]; [destruct (interp_at_spec lg _ _ _ Hei Hxet) as (T & _); exact T|
                                 destruct (rec_interp_spec lg _ _ _ Hei Hxet) as (T & _); exact T]. }
  (* the flag of computeTwap *)
  assert ((r_err e >? r_time s) || (r_err e =? r_time s) || (r_err s =? r_time s) = true) as Hflag.
  { unfold compute_twap in Hc.
    destruct ((r_err e >? r_time s) || (r_err e =? r_time s) || (r_err s =? r_time s)); [reflexivity|].
    destruct (r_time e - r_time s =? 0); [discriminate|].
    destruct (if geom then geom_twap ex s e q0 else arith_twap s e q0); discriminate. }
  rewrite Ts in Hflag.
  assert (start <= r_err e \/ r_err s = start) as Hcase.
  { destruct (r_err e >? start) eqn:E1; [left; lia|]. destruct (r_err e =? start) eqn:E2; [left; lia|].
    cbn [orb] in Hflag. right. lia. }
  (* an unchanged error time >= start comes from an error record in [start, time of the record] *)
  assert (forall x, In x G -> start <= r_err x -> r_time x <= stop ->
            exists r, In r G /\ r_err r = r_time r /\ start <= r_time r <= stop) as Horigin.
  { intros x Hx Hge Hle. destruct (HO x Hx) as [Hz|(r0 & H0 & H1 & H2 & H3)]; [lia|].
    exists r0. repeat split; try assumption; lia. }
  destruct Hcase as [Hge|Heq].
  - (* the end record's error time reaches the start *)
    assert (r_err e = r_err xe \/ (r_err e = stop /\ (r_time xe = r_err xe \/ r_p0 xe = 0))) as Hee.
    { destruct Hei as [Hei|Hei].
      - exact (interp_at_err _ _ _ Hei Hxet).
      - destruct (rec_interp_err _ _ _ Hei Hxet) as [Hu|[Hu Hp]]; [left; assumption|right; split; [assumption|right; assumption]]. }
    destruct Hee as [Hu|(Hu & [Herr|Hp0])].
    + left. apply (Horigin xe Hxein); lia.
    + destruct (Z_le_gt_dec start (r_time xe)) as [Hin|Hout].
      * left. exists xe. repeat split; try assumption; lia.
      * right. left. exists xe. split; [|left; congruence].
        eapply aob_same_in_gap; [exact Hst|exact Hxe|lia].
    + right. right. exists xe. split; assumption.
  - (* the start record's error time is the start itself *)
    destruct (interp_at_err _ _ _ Hsi Hxst) as [Hu|(Hu & Hwhy)].
    + left. apply (Horigin xs Hxsin); lia.
    + right. left. exists xs. split; [assumption|]. destruct Hwhy as [Hw|Hw]; [left; congruence|right; assumption].
Qed.

Theorem flag_has_reason_history t0 h0 w0 w1 evs p G now q0 geom start stop v :
  history lg t0 h0 w0 w1 evs p G -> r_time (p_recent p) <= now -> max_keep t0 evs <= start -> zero_time < start ->
  twap_between lg ex now p q0 geom start stop = QVal true v ->
  (exists r, In r G /\ r_err r = r_time r /\ start <= r_time r <= stop) \/
  (exists xs, hist_at_or_before G start = Some xs /\ (r_err xs = r_time xs \/ r_p0 xs = 0)) \/
  (exists xe, hist_at_or_before G stop = Some xe /\ r_p0 xe = 0).
Proof.
  intros Hh Hn Hk Hz H. destruct (history_inv lg _ _ _ _ _ _ _ Hh) as (HI & _ & _ & Hrec).
  eapply flag_has_reason; try eassumption; [eapply history_errorigin; eassumption|rewrite <- Hrec; assumption].
Qed.

End Flag.
