(* C08: consequences of the claim formula (C08/Claim.v) at the level of one state:
   never_in_range_earns_zero (formula level), identical_positions_identical_rewards, k_times_liquidity, unmet_uptime_not_paid. *)
From Coq Require Import ZArith List Bool Lia.
Import ListNotations.
From Osmo Require Import Base.DecModel CL.TickMath CL.CLMath CL.CLPool CL.CLSwap CL.CLStep
  CLR.Accum CLR.Rewards CLR.RSwap CLR.RStep C08.Telescope C08.View C08.Claim.
Open Scope Z_scope.

Lemma P18_pos : 0 < P18. Proof. reflexivity. Qed.

(* ---------- nothing grew inside and nothing was pending => nothing to claim ---------- *)
Lemma claim_scaled_zero : forall sh, claim_scaled 0 0 sh = 0.
Proof. intro sh. unfold claim_scaled, d_mul, chop_round, chop_round_nonneg, d_truncate_int. simpl. reflexivity. Qed.
Lemma unscale_zero : forall sc, unscale sc 0 = 0.
Proof. intro sc. unfold unscale, d_quo_truncate, d_from_int, d_truncate_int. simpl. destruct sc; reflexivity. Qed.

Theorem claimable_spread_zero : forall w sc cur lo hi id w' c r,
  prepare_claimable_spread w sc cur lo hi id = Some (w', c) -> acc_get (rw_spread w) id = Some r ->
  ar_unclaimed r = dc0 ->
  (forall d, dsel d (ar_snap r) = a_inside (view (CS d) w cur dc0) lo hi) ->
  c = (0, 0).
Proof.
  intros w sc cur lo hi id w' c r H R U S. destruct (claimable_spread_formula _ _ _ _ _ _ _ _ H) as [r' [R' F]].
  rewrite R in R'. inversion R'; subst r'. clear R'.
  assert (X : forall d, pr_sel d c = 0).
  { intro d. destruct (F d) as [_ E]. rewrite U, dsel_dc0, (S d), Z.sub_diag, claim_scaled_zero, unscale_zero in E.
    destruct (sc =? P18); exact E. }
  pose proof (X false) as X0. pose proof (X true) as X1. destruct c as [c0 c1]. simpl in *. subst. reflexivity.
Qed.

(* ---------- identical records => identical rewards ---------- *)
Theorem identical_positions_identical_spread_rewards : forall w sc cur lo hi id1 id2 w1 c1 w2 c2 r,
  prepare_claimable_spread w sc cur lo hi id1 = Some (w1, c1) ->
  prepare_claimable_spread w sc cur lo hi id2 = Some (w2, c2) ->
  acc_get (rw_spread w) id1 = Some r -> acc_get (rw_spread w) id2 = Some r ->
  c1 = c2.
Proof.
  intros w sc cur lo hi id1 id2 w1 c1 w2 c2 r H1 H2 R1 R2.
  destruct (claimable_spread_formula _ _ _ _ _ _ _ _ H1) as [r1 [A1 F1]].
  destruct (claimable_spread_formula _ _ _ _ _ _ _ _ H2) as [r2 [A2 F2]].
  rewrite R1 in A1. rewrite R2 in A2. inversion A1; inversion A2; subst r1 r2.
  assert (X : forall d, pr_sel d c1 = pr_sel d c2).
  { intro d. destruct (F1 d) as [_ E1]. destruct (F2 d) as [_ E2]. rewrite E1, E2. reflexivity. }
  pose proof (X false). pose proof (X true). destruct c1, c2. simpl in *. subst. reflexivity.
Qed.

(* ---------- k times the liquidity => k times the reward, up to k units ---------- *)
(* LegacyDec.Mul of non-negative operands: within half a unit of the last place of the exact product *)
Lemma d_mul_bounds : forall a b, 0 <= a -> 0 <= b -> 2 * (a * b) - P18 <= 2 * P18 * d_mul a b <= 2 * (a * b) + P18.
Proof.
  intros a b Ha Hb. unfold d_mul, chop_round. assert (N : 0 <= a * b) by nia. set (ab := a * b) in *.
  destruct (ab <? 0) eqn:E; [apply Z.ltb_lt in E; lia|]. unfold chop_round_nonneg.
  pose proof (Z.quot_rem' ab P18) as QR. pose proof (Z.rem_bound_pos ab P18 N P18_pos) as RB.
  set (q := Z.quot ab P18) in *. set (r := Z.rem ab P18) in *.
  change (Z.quot P18 2) with 500000000000000000. change P18 with 1000000000000000000 in *. clearbody q r. clearbody ab.
  destruct (r =? 0) eqn:E0; [apply Z.eqb_eq in E0; lia|].
  destruct (r ?= 500000000000000000) eqn:EC.
  - apply Z.compare_eq in EC. destruct (Z.even q); lia.
  - rewrite Z.compare_lt_iff in EC. lia.
  - rewrite Z.compare_gt_iff in EC. lia.
Qed.

Lemma quot_bounds : forall a b, 0 <= a -> 0 < b -> b * Z.quot a b <= a < b * Z.quot a b + b.
Proof. intros a b Ha Hb. pose proof (Z.quot_rem' a b). pose proof (Z.rem_bound_pos a b Ha Hb). lia. Qed.

(* truncated whole (scaled) units of g x sh *)
Lemma claim_scaled_bounds : forall g sh, 0 <= g -> 0 <= sh ->
  2 * P18 * P18 * claim_scaled 0 g sh <= 2 * (g * sh) + P18 /\ 2 * (g * sh) - P18 < 2 * P18 * P18 * (claim_scaled 0 g sh + 1).
Proof.
  intros g sh Hg Hs. unfold claim_scaled, d_truncate_int. rewrite Z.add_0_l.
  pose proof (d_mul_bounds g sh Hg Hs) as M. assert (N0 : 0 <= g * sh) by nia. set (gs := g * sh) in *.
  assert (N : 0 <= d_mul g sh) by (change P18 with 1000000000000000000 in *; clearbody gs; lia).
  pose proof (quot_bounds (d_mul g sh) P18 N P18_pos) as Q. set (m := d_mul g sh) in *. set (t := Z.quot m P18) in *.
  change P18 with 1000000000000000000 in *. clearbody t. clearbody m. clearbody gs. lia.
Qed.

Theorem k_times_liquidity_scaled : forall g sh k, 0 <= g -> 0 <= sh -> 1 <= k <= P18 ->
  -1 <= claim_scaled 0 g (k * sh) - k * claim_scaled 0 g sh <= k.
Proof.
  intros g sh k Hg Hs Hk.
  destruct (claim_scaled_bounds g sh Hg Hs) as [A1 A2].
  destruct (claim_scaled_bounds g (k * sh) Hg ltac:(nia)) as [B1 B2].
  replace (g * (k * sh)) with (k * (g * sh)) in * by ring.
  assert (N0 : 0 <= g * sh) by nia. set (gs := g * sh) in *.
  set (x := claim_scaled 0 g sh) in *. set (y := claim_scaled 0 g (k * sh)) in *.
  change P18 with 1000000000000000000 in *. clearbody x y. clearbody gs.
  set (M := 2 * 1000000000000000000 * 1000000000000000000) in *.
  assert (HM : M = 2000000000000000000000000000000000000) by reflexivity.
  (* multiply the bounds of the small position by k *)
  assert (U1 : k * (2 * gs - 1000000000000000000) < k * (M * (x + 1))) by (apply Z.mul_lt_mono_pos_l; lia).
  assert (U2 : k * (M * x) <= k * (2 * gs + 1000000000000000000)) by (apply Z.mul_le_mono_nonneg_l; lia).
  assert (R1 : k * (2 * gs - 1000000000000000000) = 2 * (k * gs) - 1000000000000000000 * k) by ring.
  assert (R2 : k * (M * (x + 1)) = M * (k * x) + M * k) by ring.
  assert (R3 : k * (M * x) = M * (k * x)) by ring.
  assert (R4 : k * (2 * gs + 1000000000000000000) = 2 * (k * gs) + 1000000000000000000 * k) by ring.
  rewrite R1, R2 in U1. rewrite R3, R4 in U2. clear R1 R2 R3 R4.
  set (kg := k * gs) in *. set (kx := k * x) in *. clearbody kg kx. rewrite HM in *. clearbody M.
  split.
  - (* M (y + 1) > 2 kg - P >= M kx - P k - P >= M kx - M  =>  y + 1 > kx - 1 *)
    assert (2000000000000000000000000000000000000 * (y + 1) > 2000000000000000000000000000000000000 * (kx - 1)) by lia.
    lia.
  - (* M y <= 2 kg + P < M kx + M k + P k + P <= M (kx + k) + M *)
    assert (2000000000000000000000000000000000000 * y < 2000000000000000000000000000000000000 * (kx + k + 1)) by lia.
    lia.
Qed.

(* scaling back down by the migration factor 10^27 (x 10^18 as a raw Dec) is a floor division by 10^27 *)
Definition big_scaling : Z := Gen.CL_consts.cl_perUnitLiqScalingFactor18.
Lemma unscale_big : forall t, 0 <= t -> unscale big_scaling t = Z.quot t (10 ^ 27).
Proof.
  intros t Ht. unfold unscale, d_truncate_int, d_quo_truncate, d_from_int, big_scaling.
  change Gen.CL_consts.cl_perUnitLiqScalingFactor18 with (10 ^ 9 * P18 * P18). change (10 ^ 27) with (10 ^ 9 * P18).
  rewrite Z.quot_mul_cancel_r by (unfold P18; lia).
  rewrite Z.quot_mul_cancel_r by (unfold P18; lia).
  rewrite Z.quot_quot by (unfold P18; lia). reflexivity.
Qed.

Lemma floor_k_times : forall x y k n, 0 <= x -> 0 <= y -> 1 <= k -> 0 < n -> -1 <= y - k * x <= k ->
  -1 <= Z.quot y n - k * Z.quot x n <= k.
Proof.
  intros x y k n Hx Hy Hk Hn H.
  pose proof (quot_bounds x n Hx Hn) as Bx. pose proof (quot_bounds y n Hy Hn) as By.
  set (x' := Z.quot x n) in *. set (y' := Z.quot y n) in *. clearbody x' y'.
  split.
  - (* n y' + n > y >= k x - 1 >= k n x' - 1 *)
    assert (k * (n * x') <= k * x) by (apply Z.mul_le_mono_nonneg_l; lia).
    assert (n * (y' + 1) > n * (k * x') - 1) by nia.
    assert (n * (y' + 1) >= n * (k * x')) by lia.
    assert (y' + 1 >= k * x') by nia. lia.
  - (* n y' <= y <= k x + k <= k (n x' + n - 1) + k = k n (x' + 1) *)
    assert (k * x <= k * (n * x' + n - 1)) by (apply Z.mul_le_mono_nonneg_l; lia).
    assert (n * y' <= n * (k * (x' + 1))) by nia.
    assert (y' <= k * (x' + 1)) by nia. lia.
Qed.

Lemma claim_scaled_nonneg : forall g sh, 0 <= g -> 0 <= sh -> 0 <= claim_scaled 0 g sh.
Proof.
  intros g sh Hg Hs. unfold claim_scaled, d_truncate_int. rewrite Z.add_0_l.
  pose proof (d_mul_bounds g sh Hg Hs) as M. assert (0 <= g * sh) by nia.
  apply Z.quot_pos; [|exact P18_pos]. change P18 with 1000000000000000000 in *. set (gs := g * sh) in *. clearbody gs. lia.
Qed.

(* k_times_liquidity: a position with k times the shares and the same snapshot claims k times as much, up to k units,
   on either side of the scaling migration *)
Theorem k_times_liquidity : forall sc g sh k, sc = P18 \/ sc = big_scaling -> 0 <= g -> 0 <= sh -> 1 <= k <= P18 ->
  let reward s := if sc =? P18 then claim_scaled 0 g s else unscale sc (claim_scaled 0 g s) in
  -1 <= reward (k * sh) - k * reward sh <= k.
Proof.
  intros sc g sh k Hsc Hg Hs Hk reward. unfold reward. pose proof (k_times_liquidity_scaled g sh k Hg Hs Hk) as K.
  destruct Hsc as [E|E]; subst sc.
  - rewrite Z.eqb_refl. exact K.
  - change (big_scaling =? P18) with false. cbv iota.
    rewrite !unscale_big by (apply claim_scaled_nonneg; nia).
    apply floor_k_times; try lia; try (apply claim_scaled_nonneg; nia); try reflexivity.
Qed.

(* ---------- unmet_uptime_not_paid: what prepareClaimAllIncentivesForPosition hands out ---------- *)
(* per uptime accumulator: the (scaled-down) coins its record yields for the position, if it has one *)
Fixpoint uptime_coins (ups : list accum) (outs : list dc) (id scaling : Z) : list (option (Z * Z)) :=
  match ups, outs with
  | a :: ups', o :: outs' =>
      (if acc_has a id then
         match update_accum_and_claim a id o with
         | Some (_, scaled, _) => scale_down2 scaled scaling
         | None => None
         end
       else Some (0, 0)) :: uptime_coins ups' outs' id scaling
  | _, _ => []
  end.
(* sum of the coins of the uptimes selected by f *)
Fixpoint sum_sel (f : Z -> bool) (uts : list Z) (cs : list (option (Z * Z))) : Z * Z :=
  match uts, cs with
  | ut :: uts', c :: cs' =>
      let r := sum_sel f uts' cs' in
      if f ut then match c with Some c => (fst r + fst c, snd r + snd c) | None => r end else r
  | _, _ => (0, 0)
  end.

Theorem unmet_uptime_not_paid : forall ups outs uts id age scaling ups' col forf byup,
  claim_uptimes ups outs uts id age scaling = Some (ups', col, forf, byup) ->
  col = sum_sel (fun ut => ut <=? age) uts (uptime_coins ups outs id scaling) /\
  forf = sum_sel (fun ut => age <? ut) uts (uptime_coins ups outs id scaling).
Proof.
  induction ups as [|a ups IH]; intros outs uts id age scaling ups' col forf byup H;
    destruct outs as [|o outs]; destruct uts as [|ut uts]; simpl in H; try discriminate H.
  - inversion H; subst. split; reflexivity.
  - destruct (claim_uptimes ups outs uts id age scaling) as [[[[ar c] f] b]|] eqn:E; [|discriminate H]. simpl in H.
    destruct (IH _ _ _ _ _ _ _ _ _ E) as [IC IF]. simpl.
    destruct (acc_has a id).
    + destruct (update_accum_and_claim a id o) as [[[a' scaled] dust]|]; [|discriminate H]. simpl in H.
      destruct (scale_down2 scaled scaling) as [coins|]; [|discriminate H]. simpl in H.
      destruct (age <? ut) eqn:EA.
      * assert ((ut <=? age) = false) as -> by (apply Z.leb_gt; apply Z.ltb_lt in EA; lia).
        inversion H; subst. split; reflexivity.
      * assert ((ut <=? age) = true) as -> by (apply Z.leb_le; apply Z.ltb_ge in EA; lia).
        inversion H; subst. split; reflexivity.
    + inversion H; subst.
      assert (Z0 : forall p : Z * Z, p = (fst p + 0, snd p + 0)) by (intros [p0 p1]; simpl; f_equal; lia).
      destruct (ut <=? age); destruct (age <? ut); simpl; split; try reflexivity; apply Z0.
Qed.
