(* C08: identical_positions_identical_rewards for incentives.  What the claim of incentives hands out for a position depends only on
   the position's records in the six uptime accumulators, its range and its age; hence two positions on the same range, created at
   the same time, with equal records, left alone through an arbitrary history, are offered exactly the same incentives. *)
From Coq Require Import ZArith List Bool Lia.
Import ListNotations.
From Osmo Require Import Base.DecModel CL.TickMath CL.CLMath CL.CLPool CL.CLSwap CL.CLStep
  CLR.Accum CLR.Rewards CLR.RSwap CLR.RStep C07.Base C07.TickLemmas C07.LP C07.Swap C07.Proofs C03.Steps
  C08.Proj C08.Telescope C08.View C08.Static C08.Stages C08.Ops C08.OpInside C08.SwapTrace C08.Crux
  C08.Claim C08.Conseq C08.Frame C08.Never C08.SwapWf C08.Dom C08.StaticOk C08.Final C08.Paid C08.PaidOps C08.PaidSwap C08.PaidHist
  C08.Twins C08.IncAcc C08.Inc C08.IncList C08.IncStage C08.IncOps C08.IncSwap C08.IncHist C08.UpNever.
Open Scope Z_scope.

Lemma pair_ext : forall (x y : Z * Z), (forall d, pr_sel d x = pr_sel d y) -> x = y.
Proof. intros [a b] [c e] H. pose proof (H false). pose proof (H true). simpl in *. subst. reflexivity. Qed.

(* the coins one accumulator yields depend only on the record *)
Lemma uac_coins_same : forall a id1 id2 o a1 c1 d1 a2 c2 d2 r,
  update_accum_and_claim a id1 o = Some (a1, c1, d1) -> update_accum_and_claim a id2 o = Some (a2, c2, d2) ->
  acc_get a id1 = Some r -> acc_get a id2 = Some r -> c1 = c2.
Proof.
  intros a id1 id2 o a1 c1 d1 a2 c2 d2 r E1 E2 R1 R2.
  destruct (uac_full _ _ _ _ _ _ _ E1 R1) as [_ [_ [_ [_ H1]]]]. destruct (uac_full _ _ _ _ _ _ _ E2 R2) as [_ [_ [_ [_ H2]]]].
  apply pair_ext. intro d. destruct (H1 d) as [_ [A _]]. destruct (H2 d) as [_ [B0 _]]. rewrite A, B0. reflexivity.
Qed.

Lemma claim_uptimes_same : forall age isc ups outs uts id1 id2 u1 col1 forf1 b1 u2 col2 forf2 b2,
  claim_uptimes ups outs uts id1 age isc = Some (u1, col1, forf1, b1) -> claim_uptimes ups outs uts id2 age isc = Some (u2, col2, forf2, b2) ->
  (forall u, acc_get (nth u ups acc_empty) id1 = acc_get (nth u ups acc_empty) id2) ->
  col1 = col2 /\ forf1 = forf2.
Proof.
  intros age isc. induction ups as [|a ups IH]; intros outs uts id1 id2 u1 col1 forf1 b1 u2 col2 forf2 b2 H1 H2 EQ;
    destruct outs as [|o outs]; destruct uts as [|ut uts]; simpl in H1, H2; try discriminate H1.
  - inversion H1; inversion H2; subst. auto.
  - destruct (claim_uptimes ups outs uts id1 age isc) as [[[[ar1 c01] f01] by1]|] eqn:ER1; [|discriminate H1]. cbv beta iota in H1.
    destruct (claim_uptimes ups outs uts id2 age isc) as [[[[ar2 c02] f02] by2]|] eqn:ER2; [|discriminate H2]. cbv beta iota in H2.
    destruct (IH _ _ _ _ _ _ _ _ _ _ _ _ ER1 ER2 (fun u => EQ (S u))) as [C F]. subst c02 f02.
    pose proof (EQ O) as E0. cbn [nth] in E0. unfold acc_has in H1, H2. rewrite <- E0 in H2.
    destruct (acc_get a id1) as [r|] eqn:R1.
    + destruct (update_accum_and_claim a id1 o) as [[[a1' s1] dd1]|] eqn:EU1; [|discriminate H1]. cbv beta iota in H1.
      destruct (update_accum_and_claim a id2 o) as [[[a2' s2] dd2]|] eqn:EU2; [|discriminate H2]. cbv beta iota in H2.
      assert (s1 = s2) by (eapply uac_coins_same; [exact EU1|exact EU2|exact R1|rewrite <- E0; reflexivity]). subst s2.
      destruct (scale_down2 s1 isc) as [coins|]; [|discriminate H1]. cbv beta iota in H1, H2.
      destruct (age <? ut); inversion H1; inversion H2; subst; auto.
    + inversion H1; inversion H2; subst. auto.
Qed.

(* state level: equal records in every uptime accumulator, same range, same join time => the same incentives are offered *)
Theorem identical_positions_identical_incentives : forall rs id1 id2 q1 q2 x1 x2,
  pos_get (s_pos (r_base rs)) id1 = Some q1 -> pos_get (s_pos (r_base rs)) id2 = Some q2 ->
  ps_lower q1 = ps_lower q2 -> ps_upper q1 = ps_upper q2 -> ps_join q1 = ps_join q2 ->
  (forall u, acc_get (acc_u u (r_rw rs)) id1 = acc_get (acc_u u (r_rw rs)) id2) ->
  claimable_incentives rs id1 = Some x1 -> claimable_incentives rs id2 = Some x2 -> x1 = x2.
Proof.
  intros rs id1 id2 q1 q2 x1 x2 Q1 Q2 EL EU EJ EQ H1 H2.
  unfold claimable_incentives in H1, H2. rewrite Q1 in H1. rewrite Q2 in H2. cbv beta iota in H1, H2. rewrite <- EL, <- EU, <- EJ in H2.
  unfold prepare_claim_all_incentives in H1, H2.
  destruct (update_uptime (r_rw rs) _ _) as [w1|] eqn:EUp; [|discriminate H1]. cbv beta iota in H1, H2.
  destruct (_ <? 0); [discriminate H1|].
  destruct (uptime_growth_outside w1 _ _ _) as [outs|]; [|discriminate H1]. cbv beta iota in H1, H2.
  destruct (claim_uptimes (rw_up w1) outs uptimes_ns id1 _ _) as [[[[u1 c1] f1] b1]|] eqn:E1; [|discriminate H1].
  destruct (claim_uptimes (rw_up w1) outs uptimes_ns id2 _ _) as [[[[u2 c2] f2] b2]|] eqn:E2; [|discriminate H2].
  inversion H1; inversion H2; subst.
  assert (EQ1 : forall u, acc_get (nth u (rw_up w1) acc_empty) id1 = acc_get (nth u (rw_up w1) acc_empty) id2).
  { intro u. pose proof (update_uptime_urecs _ _ _ _ EUp u id1) as A. pose proof (update_uptime_urecs _ _ _ _ EUp u id2) as B0.
    unfold acc_u in A, B0. rewrite A, B0. apply EQ. }
  destruct (claim_uptimes_same _ _ _ _ _ _ _ _ _ _ _ _ _ _ _ E1 E2 EQ1) as [C F]. subst. reflexivity.
Qed.

(* over histories: equal records at the start, both positions left alone *)
Theorem identical_incentives_over_history : forall ops rs id1 id2 q1 q2 x1 x2, RInv rs ->
  id1 < s_next_id (r_base rs) -> id2 < s_next_id (r_base rs) ->
  (forall u, acc_get (acc_u u (r_rw rs)) id1 = acc_get (acc_u u (r_rw rs)) id2) ->
  hist_untouchedI ops id1 = true -> hist_untouchedI ops id2 = true ->
  let rs' := rrun rs ops in
  pos_get (s_pos (r_base rs')) id1 = Some q1 -> pos_get (s_pos (r_base rs')) id2 = Some q2 ->
  ps_lower q1 = ps_lower q2 -> ps_upper q1 = ps_upper q2 -> ps_join q1 = ps_join q2 ->
  claimable_incentives rs' id1 = Some x1 -> claimable_incentives rs' id2 = Some x2 -> x1 = x2.
Proof.
  intros ops rs id1 id2 q1 q2 x1 x2 RI L1 L2 EQ U1 U2 rs' Q1 Q2 EL EU EJ H1 H2.
  apply (identical_positions_identical_incentives rs' id1 id2 q1 q2 x1 x2 Q1 Q2 EL EU EJ); [|exact H1|exact H2].
  intro u. unfold rs'. rewrite (run_urec_frame ops rs id1 RI U1 L1 u), (run_urec_frame ops rs id2 RI U2 L2 u). apply EQ.
Qed.
