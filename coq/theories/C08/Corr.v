(* C08 correspondence glue: the model's observables must equal the implementation's (CLR/RCorr.rcase_ok) and, in
   addition, every executed swap of the case must have a well-formed trace (C08/Check.swaps_wf_b) - the side condition
   of growth_inside_telescopes that is not yet proved for all reachable states is validated on every swap that the
   correspondence runs. *)
From Coq Require Import ZArith List Bool.
Import ListNotations.
From Osmo Require Import Base.Obs CL.CLPool CL.CLStep CLR.RStep CLR.RCorr C08.Check.
Open Scope Z_scope.

Definition c08_case_ok (c : rcase) : bool := rcase_ok c && swaps_wf_b (rcase_init c) (rc_ops c).
