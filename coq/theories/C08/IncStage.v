(* C08 / C01, incentive account, part 3: the stages of the reward model on the amounts owed by the uptime accumulators:
   initOrUpdatePositionUptimeAccumulators, prepareClaimAllIncentivesForPosition, redepositForfeitedIncentives. *)
From Coq Require Import ZArith List Bool Lia.
Import ListNotations.
From Osmo Require Import Base.DecModel CL.TickMath CL.CLMath CL.CLPool CL.CLSwap CL.CLStep
  CLR.Accum CLR.Rewards CLR.RSwap CLR.RStep C07.Base C07.LP C03.Steps
  C08.Proj C08.Telescope C08.View C08.Static C08.Stages C08.Ops C08.OpInside C08.SwapTrace C08.Crux
  C08.Claim C08.Conseq C08.Frame C08.Never C08.Paid C08.PaidOps C08.IncAcc C08.Inc C08.IncList.
Open Scope Z_scope.

(* growth outside as the model computes it for the uptime accumulators = value - growth inside (abstract) *)
Lemma outs_view : forall d w cur lo hi outs, uptime_growth_outside w cur lo hi = Some outs -> lo < hi ->
  length outs = length (rw_up w) /\
  forall u, (u < length (rw_up w))%nat -> dsel d (ac_value (acc_u u w)) - dsel d (nth u outs dc0) = insU u d w cur lo hi.
Proof.
  unfold uptime_growth_outside. intros d w cur lo hi outs H Hlu.
  destruct (uptime_growth_inside w cur lo hi) as [ins|] eqn:EI; [|discriminate H]. cbv beta iota in H.
  destruct (omap2_length _ _ _ _ H) as [L1 L2]. rewrite map_length in *. split; [exact L2|].
  intros u Hu. pose proof (omap2_nth _ _ _ _ u H ltac:(rewrite map_length; exact Hu)) as N.
  destruct (dsel_sub d _ _ _ N) as [A _]. rewrite A.
  change dc0 with (ac_value acc_empty) at 1. rewrite map_nth. fold (acc_u u w).
  rewrite (uptime_growth_inside_view u d w cur lo hi ins Hlu Hu EI). unfold insU. lia.
Qed.
Lemma ins_view : forall d w cur lo hi ins outs, uptime_growth_inside w cur lo hi = Some ins -> uptime_growth_outside w cur lo hi = Some outs ->
  lo < hi -> forall u, (u < length (rw_up w))%nat -> dsel d (nth u ins dc0) = dsel d (ac_value (nth u (rw_up w) acc_empty)) - dsel d (nth u outs dc0).
Proof.
  intros d w cur lo hi ins outs EI EO Hlu u Hu. destruct (outs_view d _ _ _ _ _ EO Hlu) as [_ OV]. specialize (OV u Hu). unfold acc_u in OV.
  rewrite (uptime_growth_inside_view u d w cur lo hi ins Hlu Hu EI). unfold insU in OV. lia.
Qed.

Lemma OwedI_split : forall d w cur P id q, pos_get P id = Some q ->
  OwedI d w cur P = OwedI d w cur (pos_remove P id) + usum NU (fun u => owedU u d w cur q).
Proof.
  intros d w cur P id q Q. unfold OwedI. rewrite <- usum_plus. apply usum_ext. intros u _. rewrite (zsum_remove _ _ _ _ Q). lia.
Qed.

Lemma target_lsum : forall d w cur q outs, uptime_growth_outside w cur (ps_lower q) (ps_upper q) = Some outs -> ps_lower q < ps_upper q ->
  length (rw_up w) = NU -> usum NU (fun u => owedU u d w cur q) = lsum2 (owedAO d (ps_id q)) (rw_up w) outs.
Proof.
  intros d w cur q outs EO Hlu LN. destruct (outs_view d _ _ _ _ _ EO Hlu) as [LO OV].
  rewrite (lsum2_nth (owedAO d (ps_id q)) acc_empty dc0) by lia. rewrite LN. apply usum_ext. intros u Hu.
  unfold owedU, owedAO. fold (acc_u u w). destruct (acc_get (acc_u u w) (ps_id q)); [|reflexivity].
  rewrite (OV u ltac:(lia)). reflexivity.
Qed.

Lemma target_lsum' : forall d w cur q outs, length outs = NU -> length (rw_up w) = NU ->
  (forall u, (u < NU)%nat -> dsel d (ac_value (acc_u u w)) - dsel d (nth u outs dc0) = insU u d w cur (ps_lower q) (ps_upper q)) ->
  usum NU (fun u => owedU u d w cur q) = lsum2 (owedAO d (ps_id q)) (rw_up w) outs.
Proof.
  intros d w cur q outs LO LN OV.
  rewrite (lsum2_nth (owedAO d (ps_id q)) acc_empty dc0) by lia. rewrite LN. apply usum_ext. intros u Hu.
  unfold owedU, owedAO. fold (acc_u u w). destruct (acc_get (acc_u u w) (ps_id q)); [|reflexivity].
  rewrite (OV u Hu). reflexivity.
Qed.

(* the context the incentive stages work in *)
Definition IW (w : rwd) (P : list position) : Prop :=
  recs_ok (rw_recs w) /\ 0 < rw_inc_scaling w /\ length (rw_up w) = NU /\ PT w P /\ RMU w P.

(* replacing the accumulator list by one with the same values: growth inside is unchanged *)
Lemma insU_set_up : forall u d w ups cur l h, (forall v, ac_value (nth v ups acc_empty) = ac_value (nth v (rw_up w) acc_empty)) ->
  insU u d (set_up w ups) cur l h = insU u d w cur l h.
Proof.
  intros u d w ups cur l h HV. unfold insU. rewrite (view_same (CU u d) w (set_up w ups) cur dc0); [reflexivity|reflexivity|].
  rewrite !sel_G_CU. unfold acc_u. simpl. rewrite HV. reflexivity.
Qed.
Lemma PT_set_up : forall w ups P, PT w P -> PT (set_up w ups) P.
Proof. intros w ups P H p Hp. destruct (H p Hp) as [A B]. split; [exact A|exact B]. Qed.

(* ---------- prepareClaimAllIncentivesForPosition ---------- *)
Lemma stage_inc_claim : forall d w cur pl now id join w' col forf byup P q,
  prepare_claim_all_incentives w cur pl now (ps_lower q) (ps_upper q) id join = Some (w', col, forf, byup) ->
  IW w P -> pl = sum_liq (f_range cur) P -> pos_get P id = Some q -> ids_sorted P -> (forall p, In p P -> 0 < ps_liq p) ->
  exists T, 0 <= T /\
    2 * (OwedI d w' cur P + remD d (rw_recs w') * rw_inc_scaling w) + 2 * (T * P18 * P18)
      <= 2 * (OwedI d w cur P + remD d (rw_recs w) * rw_inc_scaling w) + Z.of_nat NU * P18 /\
    0 <= pr_sel d col /\ 0 <= pr_sel d forf /\ 0 <= lsum byup d /\
    pr_sel d col * rw_inc_scaling w * P18 + lsum byup d * P18 * P18 <= T * P18 * P18 /\
    (pr_sel d col + pr_sel d forf) * rw_inc_scaling w * P18 <= T * P18 * P18 /\
  IW w' P /\ rw_tt w' = rw_tt w /\ rw_spread w' = rw_spread w /\ rw_inc_scaling w' = rw_inc_scaling w /\ rw_next_inc w' = rw_next_inc w /\
  (forall u j, j <> id -> acc_get (acc_u u w') j = acc_get (acc_u u w) j) /\ length byup = NU /\ (forall u, 0 <= pr_sel d (nth u byup (0, 0))).
Proof.
  intros d w cur pl now id join w' col forf byup P q H [OK [Hi [LN [HPT HRM]]]] HL Q OS LP.
  unfold prepare_claim_all_incentives in H.
  destruct (update_uptime w pl now) as [w1|] eqn:EU; [|discriminate H]. cbv beta iota in H.
  destruct ((now - join) * 1000000000 <? 0); [discriminate H|].
  destruct (uptime_growth_outside w1 cur (ps_lower q) (ps_upper q)) as [outs|] eqn:EO; [|discriminate H]. cbv beta iota in H.
  destruct (claim_uptimes (rw_up w1) outs uptimes_ns id ((now - join) * 1000000000) (rw_inc_scaling w1)) as [[[[ups c1] f1] b1]|] eqn:EC; [|discriminate H].
  inversion H; subst w' col forf byup. clear H.
  destruct (stage_accrue cur w pl now w1 P d EU OK Hi LN HPT HRM HL) as [ACC [PT1 [RM1 [OK1 [TT1 [SP1 [IS1 [LN1 [NI1 RG1]]]]]]]]].
  assert (QIn : In q P) by (eapply pos_get_in; exact Q). assert (QI : ps_id q = id) by (eapply pos_get_id; exact Q).
  destruct (PT1 q QIn) as [Hlu TK].
  assert (PS : Forall (pos_shares id) (rw_up w1)).
  { apply Forall_forall. intros a Ha. destruct (In_nth _ _ acc_empty Ha) as [u [Hu EQ]]. rewrite LN1 in Hu.
    intros r R. destruct (RM1 u q Hu QIn) as [r0 [R0 [S0 _]]]. unfold acc_u in R0. rewrite EQ, QI in R0. rewrite R in R0. inversion R0; subst r0.
    rewrite S0. apply LP. exact QIn. }
  rewrite IS1 in EC.
  destruct (claim_uptimes_spec d id _ _ _ _ _ _ _ _ _ EC Hi PS) as [L1 [L2 [L3 [PW [T [T0 [INEQ [C0 [F0 [B0 [RD [FO _]]]]]]]]]]]].
  exists T. split; [exact T0|].
  set (w' := set_up w1 ups).
  assert (HV : forall v, ac_value (nth v ups acc_empty) = ac_value (nth v (rw_up w1) acc_empty)) by (intro v; destruct (PW v) as [_ [V _]]; exact V).
  assert (INS : forall u l h, insU u d w' cur l h = insU u d w1 cur l h) by (intros; apply insU_set_up; exact HV).
  (* the others are untouched *)
  set (O := pos_remove P id).
  assert (OIn : forall p, In p O -> In p P /\ ps_id p <> id) by (intros p Hp; apply (in_pos_remove P id p OS Hp)).
  assert (OTH : OwedI d w' cur O = OwedI d w1 cur O).
  { unfold OwedI. apply usum_ext. intros u Hu. apply zsum_ext. intros p Hp. destruct (OIn p Hp) as [_ NE].
    rewrite (owedU_frame u d w1 w' cur cur p 0); [lia| |rewrite INS; lia].
    unfold acc_u, w'. simpl. destruct (PW u) as [SO _]. apply SO. exact NE. }
  (* the position itself *)
  destruct (outs_view d _ _ _ _ _ EO Hlu) as [LO OV]. rewrite LN1 in LO, OV.
  assert (TG1 : usum NU (fun u => owedU u d w1 cur q) = lsum2 (owedAO d id) (rw_up w1) outs).
  { rewrite <- QI. apply target_lsum'; assumption. }
  assert (TG2 : usum NU (fun u => owedU u d w' cur q) = lsum2 (owedAO d id) ups outs).
  { rewrite <- QI. apply (target_lsum' d w' cur q outs LO); [unfold w'; simpl; lia|].
    intros u Hu. rewrite INS, <- (OV u Hu). unfold acc_u, w'. simpl. rewrite HV. reflexivity. }
  rewrite (OwedI_split d w' cur P id q Q), (OwedI_split d w1 cur P id q Q) in *. fold O in ACC |- *.
  rewrite OTH, TG2. rewrite TG1 in ACC. rewrite LN1 in INEQ. change (rw_recs w') with (rw_recs w1).
  split; [lia|]. split; [exact C0|]. split; [exact F0|]. split; [exact B0|]. split; [exact RD|]. split; [exact FO|].
  split.
  - split; [exact OK1|]. split; [simpl; lia|]. split; [unfold w'; simpl; lia|]. split; [apply PT_set_up; exact PT1|].
    intros u p Hu Hp. destruct (RM1 u p Hu Hp) as [r [R [S UNN]]]. destruct (PW u) as [SO [_ [_ [KEEP _]]]].
    destruct (Z.eq_dec (ps_id p) id) as [EQ|NE].
    + unfold acc_u in R. rewrite EQ in R. destruct (KEEP r R) as [r' [R' [S' U']]]. exists r'. unfold acc_u, w'. simpl. rewrite EQ.
      split; [exact R'|]. split; [lia|]. intro d0. rewrite U', dsel_dc0. lia.
    + exists r. unfold acc_u, w'. simpl. rewrite (SO _ NE). auto.
  - split; [exact TT1|]. split; [exact SP1|]. split; [exact IS1|]. split; [exact NI1|]. split; [|split; [lia|apply (claim_uptimes_byup_nonneg d _ _ _ _ _ _ _ _ _ _ EC)]].
    intros u j NE. rewrite <- RG1. unfold acc_u, w'. simpl. destruct (PW u) as [SO _]. apply SO. exact NE.
Qed.

(* ---------- initOrUpdatePositionUptimeAccumulators ---------- *)
Lemma stage_upd_core : forall d w1 cur lo hi id liquidity delta ins outs ups,
  uptime_growth_inside w1 cur lo hi = Some ins -> uptime_growth_outside w1 cur lo hi = Some outs ->
  upd_uptime_accs (rw_up w1) ins outs id liquidity delta = Some ups -> length (rw_up w1) = NU -> lo < hi ->
  (forall u, (u < NU)%nat -> nn_shares id (acc_u u w1)) ->
  let w' := set_up w1 ups in
  (forall p u, ps_id p <> id -> owedU u d w' cur p = owedU u d w1 cur p) /\
  (forall tp, ps_id tp = id -> ps_lower tp = lo -> ps_upper tp = hi ->
     2 * usum NU (fun u => owedU u d w' cur tp) <= 2 * usum NU (fun u => owedU u d w1 cur tp) + Z.of_nat NU * P18) /\
  (forall u j, j <> id -> acc_get (acc_u u w') j = acc_get (acc_u u w1) j) /\
  (forall u, (u < NU)%nat ->
     (forall r, acc_get (acc_u u w1) id = Some r -> exists r', acc_get (acc_u u w') id = Some r' /\ ar_shares r' = ar_shares r + delta /\
        (0 <= dsel d (ar_unclaimed r) -> 0 <= dsel d (ar_unclaimed r'))) /\
     (acc_get (acc_u u w1) id = None -> exists r', acc_get (acc_u u w') id = Some r' /\ ar_shares r' = liquidity /\ 0 < delta /\ ar_unclaimed r' = dc0)) /\
  length (rw_up w') = NU /\ (forall u l h, insU u d w' cur l h = insU u d w1 cur l h).
Proof.
  intros d w1 cur lo hi id liquidity delta ins outs ups EI EO EUp LN Hlu NN w'.
  assert (NNF : Forall (nn_shares id) (rw_up w1)).
  { apply Forall_forall. intros a Ha. destruct (In_nth _ _ acc_empty Ha) as [u [Hu EQ]]. rewrite LN in Hu.
    pose proof (NN u Hu) as X. unfold acc_u in X. rewrite EQ in X. exact X. }
  assert (HI : forall u, (u < length (rw_up w1))%nat -> dsel d (nth u ins dc0) = dsel d (ac_value (nth u (rw_up w1) acc_empty)) - dsel d (nth u outs dc0)).
  { intros u Hu. apply (ins_view d w1 cur lo hi ins outs EI EO Hlu u Hu). }
  destruct (upd_uptime_accs_spec d id liquidity delta _ _ _ _ EUp NNF HI) as [L1 [L2 [PW [RC INEQ]]]].
  assert (HV : forall v, ac_value (nth v ups acc_empty) = ac_value (nth v (rw_up w1) acc_empty)) by (intro v; destruct (PW v) as [_ V]; exact V).
  assert (INS : forall u l h, insU u d w' cur l h = insU u d w1 cur l h) by (intros; apply insU_set_up; exact HV).
  split; [|split; [|split; [|split; [|split; [unfold w'; simpl; lia|exact INS]]]]].
  - intros p u NE. rewrite (owedU_frame u d w1 w' cur cur p 0); [lia| |rewrite INS; lia].
    unfold acc_u, w'. simpl. destruct (PW u) as [SO _]. apply SO. exact NE.
  - intros tp TI TL TH. destruct (outs_view d _ _ _ _ _ EO Hlu) as [LO OV]. rewrite LN in LO, OV.
    assert (TG1 : usum NU (fun u => owedU u d w1 cur tp) = lsum2 (owedAO d id) (rw_up w1) outs).
    { rewrite <- TI. apply target_lsum'; try assumption. rewrite TL, TH. exact OV. }
    assert (TG2 : usum NU (fun u => owedU u d w' cur tp) = lsum2 (owedAO d id) ups outs).
    { rewrite <- TI. apply (target_lsum' d w' cur tp outs LO); [unfold w'; simpl; lia|].
      intros u Hu. rewrite TL, TH, INS, <- (OV u Hu). unfold acc_u, w'. simpl. rewrite HV. reflexivity. }
    rewrite TG1, TG2. rewrite LN in INEQ. exact INEQ.
  - intros u j NE. unfold acc_u, w'. simpl. destruct (PW u) as [SO _]. apply SO. exact NE.
  - intros u Hu. unfold acc_u, w'. simpl. apply RC. lia.
Qed.

(* ---------- redepositForfeitedIncentives ---------- *)
Lemma stage_inc_redeposit : forall d w cur byup liq w' P, redeposit_forfeited w byup liq = Some w' -> IW w P -> 0 < liq ->
  liq = sum_liq (f_range cur) P -> (forall u, 0 <= pr_sel d (nth u byup (0, 0))) ->
  OwedI d w' cur P <= OwedI d w cur P + lsum byup d * P18 * P18 /\ IW w' P /\ rw_tt w' = rw_tt w /\ rw_spread w' = rw_spread w /\
  rw_recs w' = rw_recs w /\ rw_inc_scaling w' = rw_inc_scaling w /\ rw_next_inc w' = rw_next_inc w /\
  (forall u j, acc_get (acc_u u w') j = acc_get (acc_u u w) j).
Proof.
  intros d w cur byup liq w' P H [OK [Hi [LN [HPT HRM]]]] Hl HL NN.
  unfold redeposit_forfeited in H. destruct (redeposit_accs (rw_up w) byup liq) as [ups|] eqn:ER; [|discriminate H]. inversion H; subst w'. clear H.
  destruct (redeposit_accs_spec d liq _ _ _ ER Hl NN) as [L [PW SM]].
  assert (RG : forall u j, acc_get (acc_u u (set_up w ups)) j = acc_get (acc_u u w) j).
  { intros u j. unfold acc_get, acc_u. simpl. destruct (PW u) as [A _]. rewrite A. reflexivity. }
  destruct (stage_grow_U cur w (set_up w ups) P d eq_refl HPT HRM RG) as [OW [PT' RM']].
  rewrite OW, <- HL. rewrite LN in SM.
  assert (GE : usum NU (fun u => sel_G (CU u d) (set_up w ups) - sel_G (CU u d) w)
               = usum NU (fun u => dsel d (ac_value (nth u ups acc_empty)) - dsel d (ac_value (nth u (rw_up w) acc_empty)))).
  { apply usum_ext. intros u _. rewrite !sel_G_CU. unfold acc_u. simpl. reflexivity. }
  rewrite GE. split; [lia|]. split; [|simpl; repeat split; try reflexivity; exact RG].
  split; [exact OK|]. split; [exact Hi|]. split; [simpl; lia|]. split; assumption.
Qed.

(* ---------- a static evolution of the trackers with unchanged records ---------- *)
Lemma stage_grow_SE : forall cur T w w' P d, (forall u, SE (CU u d) cur T w w') -> PT w P -> RMU w P ->
  (forall p, In p P -> ~ In (ps_lower p) T /\ ~ In (ps_upper p) T) ->
  (forall u j, acc_get (acc_u u w') j = acc_get (acc_u u w) j) ->
  OwedI d w' cur P = OwedI d w cur P + usum NU (fun u => sel_G (CU u d) w' - sel_G (CU u d) w) * sum_liq (f_range cur) P /\
  PT w' P /\ RMU w' P.
Proof.
  intros cur T w w' P d HSE HPT HRM HT RG. split; [|split].
  - unfold OwedI. rewrite (Z.mul_comm (usum NU _) (sum_liq (f_range cur) P)), <- usum_scale, <- usum_plus. apply usum_ext. intros u Hu.
    rewrite (Z.mul_comm (sum_liq (f_range cur) P)), sum_liq_zsum', <- zsum_scale, <- zsum_plus. apply zsum_ext. intros p Hp.
    destruct (HPT p Hp) as [Hlu TK]. destruct (HT p Hp) as [Tl Tu].
    destruct (SE_inside_gen (CU u d) cur T w w' _ _ (HSE u) Hlu TK Tl Tu) as [I _].
    rewrite (owedU_frame u d w w' cur cur p _ (RG u _) I), (RMU_shares w P u p HRM Hu Hp).
    destruct (in_rng _ _ _); lia.
  - intros p Hp. destruct (HPT p Hp) as [Hlu TK]. destruct (HT p Hp) as [Tl Tu]. split; [exact Hlu|].
    apply (SE_inside_gen (CU O d) cur T w w' _ _ (HSE O) Hlu TK Tl Tu).
  - intros u p Hu Hp. rewrite RG. apply HRM; assumption.
Qed.

(* a stage that leaves the uptime accumulators and the records alone (spread accumulator, trackers of unused ticks) *)
Lemma stage_inc_neutral : forall cur T w w' P d, (forall u, SE (CU u d) cur T w w') -> rw_up w' = rw_up w -> IW w P ->
  rw_recs w' = rw_recs w -> rw_inc_scaling w' = rw_inc_scaling w ->
  (forall p, In p P -> ~ In (ps_lower p) T /\ ~ In (ps_upper p) T) ->
  OwedI d w' cur P = OwedI d w cur P /\ IW w' P.
Proof.
  intros cur T w w' P d HSE UP [OK [Hi [LN [HPT HRM]]]] RC IS HT.
  assert (RG : forall u j, acc_get (acc_u u w') j = acc_get (acc_u u w) j) by (intros; unfold acc_u; rewrite UP; reflexivity).
  destruct (stage_grow_SE cur T w w' P d HSE HPT HRM HT RG) as [OW [PT' RM']].
  assert (Z0 : usum NU (fun u => sel_G (CU u d) w' - sel_G (CU u d) w) = 0).
  { rewrite (usum_ext _ _ (fun _ => 0)); [clear; induction NU; simpl; lia|]. intros u _. unfold sel_G. rewrite UP. lia. }
  rewrite OW, Z0. split; [lia|]. split; [rewrite RC; exact OK|]. split; [rewrite IS; exact Hi|]. split; [rewrite UP; exact LN|]. split; assumption.
Qed.

(* initOrUpdateTick, tracker part *)
Lemma stage_ensure_tick : forall cur w liq now i w' P d, ensure_tick w cur liq now i = Some w' -> IW w P -> liq = sum_liq (f_range cur) P ->
  OwedI d w' cur P + remD d (rw_recs w') * rw_inc_scaling w <= OwedI d w cur P + remD d (rw_recs w) * rw_inc_scaling w /\
  IW w' P /\ rw_spread w' = rw_spread w /\ rw_inc_scaling w' = rw_inc_scaling w /\ rw_next_inc w' = rw_next_inc w /\
  (forall u j, acc_get (acc_u u w') j = acc_get (acc_u u w) j).
Proof.
  intros cur w liq now i w' P d H [OK [Hi [LN [HPT HRM]]]] HL.
  assert (SEu : forall u, SE (CU u d) cur (fresh w i) w w') by (intro u; eapply SE_ensure_tick; exact H).
  unfold ensure_tick in H. destruct (tt_get (rw_tt w) i) eqn:EG.
  - inversion H; subst w'. split; [lia|]. split; [exact (conj OK (conj Hi (conj LN (conj HPT HRM))))|]. repeat split; reflexivity.
  - destruct (update_uptime w liq now) as [w1|] eqn:EU; [|discriminate H]. inversion H; subst w'. clear H.
    destruct (update_uptime_spec _ _ _ _ d EU OK Hi) as [TT [SP [IS [LU [PW [SM [OK' NI]]]]]]].
    assert (RG : forall u j, acc_get (acc_u u (set_tt w1 (tt_set (rw_tt w1) i (mkRT (if i <=? cur then ac_value (rw_spread w) else dc0) (rt_up (init_tracker w1 cur i)))))) j
                             = acc_get (acc_u u w) j).
    { intros u j. unfold acc_get, acc_u. simpl. destruct (PW u) as [A _]. unfold acc_u in A. rewrite A. reflexivity. }
    assert (HT : forall p, In p P -> ~ In (ps_lower p) (fresh w i) /\ ~ In (ps_upper p) (fresh w i)) by (intros p Hp; apply (PT_fresh w P i p HPT Hp)).
    destruct (stage_grow_SE cur _ w _ P d SEu HPT HRM HT RG) as [OW [PT' RM']].
    rewrite OW, <- HL. rewrite LN in SM.
    assert (GE : usum NU (fun u => sel_G (CU u d) (set_tt w1 (tt_set (rw_tt w1) i (mkRT (if i <=? cur then ac_value (rw_spread w) else dc0) (rt_up (init_tracker w1 cur i))))) - sel_G (CU u d) w)
                 = usum NU (fun u => sel_G (CU u d) w1 - sel_G (CU u d) w)) by (apply usum_ext; intros u _; reflexivity).
    rewrite GE. cbn [rw_recs set_tt rw_spread rw_inc_scaling rw_next_inc].
    split; [lia|]. split; [|split; [exact SP|split; [exact IS|split; [exact NI|exact RG]]]].
    split; [exact OK'|]. split; [simpl; lia|]. split; [simpl; lia|]. split; assumption.
Qed.

(* the claim query of one position: what it reports (collected + forfeited) is covered by what the accumulators owe the position
   once they are brought up to date *)
Lemma claim_query_bound : forall d w cur pl now id join w' col forf byup P q,
  prepare_claim_all_incentives w cur pl now (ps_lower q) (ps_upper q) id join = Some (w', col, forf, byup) ->
  IW w P -> pl = sum_liq (f_range cur) P -> pos_get P id = Some q -> (forall p, In p P -> 0 < ps_liq p) ->
  exists w1, update_uptime w pl now = Some w1 /\
    2 * ((pr_sel d col + pr_sel d forf) * rw_inc_scaling w * P18) <= 2 * usum NU (fun u => owedU u d w1 cur q) + Z.of_nat NU * P18 /\
    0 <= pr_sel d col /\ 0 <= pr_sel d forf.
Proof.
  intros d w cur pl now id join w' col forf byup P q H [OK [Hi [LN [HPT HRM]]]] HL Q LP.
  unfold prepare_claim_all_incentives in H.
  destruct (update_uptime w pl now) as [w1|] eqn:EU; [|discriminate H]. cbv beta iota in H.
  destruct ((now - join) * 1000000000 <? 0); [discriminate H|].
  destruct (uptime_growth_outside w1 cur (ps_lower q) (ps_upper q)) as [outs|] eqn:EO; [|discriminate H]. cbv beta iota in H.
  destruct (claim_uptimes (rw_up w1) outs uptimes_ns id ((now - join) * 1000000000) (rw_inc_scaling w1)) as [[[[ups c1] f1] b1]|] eqn:EC; [|discriminate H].
  inversion H; subst w' col forf byup. clear H. exists w1. split; [reflexivity|].
  destruct (stage_accrue cur w pl now w1 P d EU OK Hi LN HPT HRM HL) as [_ [PT1 [RM1 [_ [_ [_ [IS1 [LN1 _]]]]]]]].
  assert (QIn : In q P) by (eapply pos_get_in; exact Q). assert (QI : ps_id q = id) by (eapply pos_get_id; exact Q).
  destruct (PT1 q QIn) as [Hlu TK].
  assert (PS : Forall (pos_shares id) (rw_up w1)).
  { apply Forall_forall. intros a Ha. destruct (In_nth _ _ acc_empty Ha) as [u [Hu EQ]]. rewrite LN1 in Hu.
    intros r R. destruct (RM1 u q Hu QIn) as [r0 [R0 [S0 _]]]. unfold acc_u in R0. rewrite EQ, QI in R0. rewrite R in R0. inversion R0; subst r0.
    rewrite S0. apply LP. exact QIn. }
  rewrite IS1 in EC.
  destruct (claim_uptimes_spec d id _ _ _ _ _ _ _ _ _ EC Hi PS) as [_ [_ [_ [_ [T [T0 [INEQ [C0 [F0 [_ [_ [FO ZR]]]]]]]]]]]].
  destruct (outs_view d _ _ _ _ _ EO Hlu) as [LO OV]. rewrite LN1 in LO, OV.
  assert (TG1 : usum NU (fun u => owedU u d w1 cur q) = lsum2 (owedAO d id) (rw_up w1) outs).
  { rewrite <- QI. apply target_lsum'; assumption. }
  rewrite TG1. rewrite ZR, LN1 in INEQ. split; [lia|]. split; assumption.
Qed.
