(* C08: WHEN DOES A SPREAD-REWARD CLAIM SUCCEED?  Forward direction of C08/Claim.v: prepareClaimableSpreadRewards (hence the
   claim query and every collect) returns a result as soon as
   - the SIGN conditions hold (the only "negative coin amount" panics of the path): the two growth-outside trackers of the
     position's ticks lie in [0, accumulator value], and the record's snapshot lies in [- accumulator value, growth inside];
   - the RANGE conditions hold (LegacyDec assertInValidRange): the accumulator value is at most a third of the LegacyDec
     limit 2^256 10^18, and unclaimed + 2 * value * shares / 10^18 + 1 is within the limit.
   The sign conditions are invariants of reachable states (C08/ClaimInv.v); the range conditions are the explicit arithmetic
   hypothesis that remains. *)
From Coq Require Import ZArith List Bool Lia.
Import ListNotations.
From Osmo Require Import Base.DecModel CL.TickMath CL.CLMath CL.CLPool CL.CLSwap CL.CLStep
  CLR.Accum CLR.Rewards CLR.RSwap CLR.RStep C08.Telescope C08.View C08.Claim C08.Conseq C08.Frame C08.Never C08.Paid.
Open Scope Z_scope.

Definition UL : Z := upper_limit18.
Lemma UL_big : P36 * 4 < UL. Proof. vm_compute. reflexivity. Qed.
Lemma UL_pos : 0 < UL. Proof. vm_compute. reflexivity. Qed.
Lemma P36_pos : 0 < P36. Proof. vm_compute. reflexivity. Qed.

Lemma dchk_ok : forall z, - UL <= z <= UL -> dchk z = Some z.
Proof.
  intros z H. unfold dchk, d_fits. fold UL.
  replace (z <=? UL) with true by (symmetry; apply Z.leb_le; lia).
  replace (- UL <=? z) with true by (symmetry; apply Z.leb_le; lia). reflexivity.
Qed.

Global Opaque UL.

Lemma dsel_pair : forall d x y, dsel d (x, y) = if d then y else x. Proof. destruct d; reflexivity. Qed.

Lemma dc_add_ok : forall a b, (forall d, - UL <= dsel d a + dsel d b <= UL) -> exists c, dc_add a b = Some c.
Proof.
  intros a b H. unfold dc_add. pose proof (H false) as H0. pose proof (H true) as H1. simpl in H0, H1.
  rewrite (dchk_ok _ H0), (dchk_ok _ H1). eexists; reflexivity.
Qed.
Lemma dc_safe_sub_ok : forall a b, (forall d, - UL <= dsel d a - dsel d b <= UL) -> exists c, dc_safe_sub a b = Some c.
Proof.
  intros a b H. unfold dc_safe_sub. pose proof (H false) as H0. pose proof (H true) as H1. simpl in H0, H1.
  rewrite (dchk_ok _ H0), (dchk_ok _ H1). eexists; reflexivity.
Qed.
Lemma dc_sub_ok : forall a b, (forall d, 0 <= dsel d a - dsel d b <= UL) -> exists c, dc_sub a b = Some c.
Proof.
  intros a b H. unfold dc_sub, dc_safe_sub. pose proof (H false) as H0. pose proof (H true) as H1. simpl in H0, H1.
  pose proof UL_big. rewrite (dchk_ok (fst a - fst b)), (dchk_ok (snd a - snd b)) by lia. cbv beta iota.
  unfold dc_any_neg. simpl. replace (fst a - fst b <? 0) with false by (symmetry; apply Z.ltb_ge; lia).
  replace (snd a - snd b <? 0) with false by (symmetry; apply Z.ltb_ge; lia). eexists; reflexivity.
Qed.

Lemma d_mul_nonneg_le : forall a b, 0 <= a -> 0 <= b -> 0 <= d_mul a b /\ d_mul a b * P18 <= a * b + P18.
Proof.
  intros a b Ha Hb. pose proof (d_mul_bounds a b Ha Hb) as [L R]. pose proof P18_pos. split; nia.
Qed.
Lemma dc_mul_dec_ok : forall a s, 0 <= s -> (forall d, 0 <= dsel d a /\ dsel d a * s + P18 <= UL * P18) -> exists c, dc_mul_dec a s = Some c.
Proof.
  intros a s Hs H. unfold dc_mul_dec. destruct (H false) as [A0 B0]. destruct (H true) as [A1 B1]. simpl in *.
  destruct (d_mul_nonneg_le _ _ A0 Hs) as [X0 Y0]. destruct (d_mul_nonneg_le _ _ A1 Hs) as [X1 Y1]. pose proof P18_pos. pose proof UL_pos.
  rewrite (dchk_ok (d_mul (fst a) s)), (dchk_ok (d_mul (snd a) s)) by (split; [lia|nia]). eexists; reflexivity.
Qed.
Lemma trunc1_ok : forall x, 0 <= x -> exists t ch, trunc1 x = Some (t, ch) /\ 0 <= ch < P18 /\ 0 <= t /\ t * P18 <= x.
Proof.
  intros x Hx. unfold trunc1, d_truncate_int, d_from_int. pose proof P18_pos as HP.
  destruct (quot_bounds x P18 Hx HP) as [A B]. assert (Q0 : 0 <= Z.quot x P18) by (apply Z.quot_pos; lia).
  replace (Z.quot x P18 <? 0) with false by (symmetry; apply Z.ltb_ge; lia).
  replace (x - Z.quot x P18 * P18 <? 0) with false by (symmetry; apply Z.ltb_ge; lia).
  eexists; eexists; split; [reflexivity|]. lia.
Qed.

(* ---------- getSpreadRewardGrowthOutside ---------- *)
Definition trackers_ok (w : rwd) (cur l u : Z) : Prop :=
  forall d, let s := view (CS d) w cur dc0 in 0 <= a_read s l <= a_G s /\ 0 <= a_read s u <= a_G s /\ 3 * a_G s + P36 <= UL.

Lemma spread_growth_outside_ok : forall w cur l u, trackers_ok w cur l u -> exists out, spread_growth_outside w cur l u = Some out.
Proof.
  intros w cur l u T. unfold spread_growth_outside, calc_spread_growth. cbn [andb negb orb]. rewrite !orb_false_r.
  assert (R : forall d i, a_read (view (CS d) w cur dc0) i = dsel d (rt_spread (tt_read w cur i))) by (intros; apply (a_read_view (CS d))).
  assert (GV : forall d, a_G (view (CS d) w cur dc0) = dsel d (ac_value (rw_spread w))) by (intro d; simpl; rewrite dsel_dc0; lia).
  pose proof P36_pos as HP.
  assert (TA : exists above, (if u <=? cur then dc_sub (ac_value (rw_spread w)) (rt_spread (tt_read w cur u)) else Some (rt_spread (tt_read w cur u))) = Some above
                 /\ forall d, 0 <= dsel d above <= dsel d (ac_value (rw_spread w))).
  { destruct (u <=? cur).
    - destruct (dc_sub_ok (ac_value (rw_spread w)) (rt_spread (tt_read w cur u))) as [c E].
      { intro d. destruct (T d) as [_ [B C]]. cbv zeta in B, C. rewrite R, GV in *. lia. }
      exists c. split; [exact E|]. intro d. destruct (dsel_sub d _ _ _ E) as [V N]. destruct (T d) as [_ [B _]]. cbv zeta in B. rewrite R, GV in B. lia.
    - eexists; split; [reflexivity|]. intro d. destruct (T d) as [_ [B _]]. cbv zeta in B. rewrite R, GV in B. exact B. }
  destruct TA as [above [EA BA]]. rewrite EA. cbv beta iota.
  assert (TB : exists below, (if cur <? l then dc_sub (ac_value (rw_spread w)) (rt_spread (tt_read w cur l)) else Some (rt_spread (tt_read w cur l))) = Some below
                 /\ forall d, 0 <= dsel d below <= dsel d (ac_value (rw_spread w))).
  { destruct (cur <? l).
    - destruct (dc_sub_ok (ac_value (rw_spread w)) (rt_spread (tt_read w cur l))) as [c E].
      { intro d. destruct (T d) as [B [_ C]]. cbv zeta in B, C. rewrite R, GV in *. lia. }
      exists c. split; [exact E|]. intro d. destruct (dsel_sub d _ _ _ E) as [V N]. destruct (T d) as [B _]. cbv zeta in B. rewrite R, GV in B. lia.
    - eexists; split; [reflexivity|]. intro d. destruct (T d) as [B _]. cbv zeta in B. rewrite R, GV in B. exact B. }
  destruct TB as [below [EB BB]]. rewrite EB. cbv beta iota.
  apply dc_add_ok. intro d. specialize (BA d). specialize (BB d). destruct (T d) as [_ [_ C]]. cbv zeta in C. rewrite GV in C. lia.
Qed.

(* ---------- updateAccumAndClaimRewards ---------- *)
Definition claim_arith_ok (a : accum) (r : arec) (out : dc) : Prop :=
  0 <= ar_shares r /\
  forall d, let G := dsel d (ac_value a) in let o := dsel d out in let sn := dsel d (ar_snap r) in let un := dsel d (ar_unclaimed r) in
    - UL <= sn + o /\ sn + o <= G /\ G <= UL /\ G - sn - o <= UL /\ - UL <= G - o <= UL /\ 0 <= un /\
    un * P18 + (G - sn - o) * ar_shares r + P18 <= UL * P18.

Lemma dc_truncate_decimal_ok : forall a, (forall d, 0 <= dsel d a) ->
  exists coins dust, dc_truncate_decimal a = Some (coins, dust) /\
    forall d, 0 <= dsel d dust < P18 /\ 0 <= pr_sel d coins /\ pr_sel d coins * P18 <= dsel d a.
Proof.
  intros a H. unfold dc_truncate_decimal.
  destruct (trunc1_ok (fst a) (H false)) as [t0 [c0 [E0 [A0 [B0 C0]]]]]. destruct (trunc1_ok (snd a) (H true)) as [t1 [c1 [E1 [A1 [B1 C1]]]]].
  rewrite E0, E1. cbv beta iota. eexists; eexists; split; [reflexivity|]. intros [|]; simpl; repeat split; lia.
Qed.

Lemma update_accum_and_claim_ok : forall a id out r, acc_get a id = Some r -> claim_arith_ok a r out ->
  exists a' coins dust, update_accum_and_claim a id out = Some (a', coins, dust) /\
    forall d, 0 <= dsel d dust < P18 /\ 0 <= pr_sel d coins /\ pr_sel d coins * P18 <= UL.
Proof.
  intros a id out r ER [Hsh C]. unfold update_accum_and_claim, to_init_plus_outside, acc_set_position.
  rewrite ER. cbv beta iota.
  destruct (dc_add_ok (ar_snap r) out) as [s1 ES]. { intro d. destruct (C d) as [A [B [B2 _]]]. cbv zeta in *. lia. }
  rewrite ES. cbv beta iota.
  unfold acc_claim_rewards, acc_get, acc_with_recs. cbn [ac_recs ac_value ac_total]. rewrite rec_get_set, Z.eqb_refl. cbv beta iota.
  unfold acc_total_rewards. cbn [ac_value ar_snap ar_shares ar_unclaimed].
  assert (S1 : forall d, dsel d s1 = dsel d (ar_snap r) + dsel d out) by (intro d; apply (dsel_add d _ _ _ ES)).
  destruct (dc_sub_ok (ac_value a) s1) as [diff ED]. { intro d. rewrite S1. destruct (C d) as [_ [B [_ [B' _]]]]. cbv zeta in *. lia. }
  rewrite ED. cbv beta iota.
  assert (D1 : forall d, dsel d diff = dsel d (ac_value a) - dsel d (ar_snap r) - dsel d out /\ 0 <= dsel d diff).
  { intro d. destruct (dsel_sub d _ _ _ ED) as [V N]. rewrite S1 in V. split; lia. }
  destruct (dc_mul_dec_ok diff (ar_shares r) Hsh) as [acr EM].
  { intro d. destruct (D1 d) as [V N]. split; [exact N|]. rewrite V. destruct (C d) as [_ [_ [_ [_ [_ [U0 X]]]]]]. cbv zeta in *. pose proof P18_pos. nia. }
  rewrite EM. cbv beta iota.
  assert (M1 : forall d, 0 <= dsel d acr /\ dsel d acr * P18 <= (dsel d (ac_value a) - dsel d (ar_snap r) - dsel d out) * ar_shares r + P18).
  { intro d. rewrite (dsel_mul_dec d _ _ _ EM). destruct (D1 d) as [V N]. rewrite <- V. apply d_mul_nonneg_le; assumption. }
  destruct (dc_add_ok (ar_unclaimed r) acr) as [tot ET].
  { intro d. destruct (M1 d) as [X Y]. destruct (C d) as [_ [_ [_ [_ [_ [U0 Z]]]]]]. cbv zeta in *. pose proof P18_pos. pose proof UL_pos. split; [lia|nia]. }
  rewrite ET. cbv beta iota.
  assert (T1 : forall d, 0 <= dsel d tot <= UL).
  { intro d. rewrite (dsel_add d _ _ _ ET). destruct (M1 d) as [X Y]. destruct (C d) as [_ [_ [_ [_ [_ [U0 Z]]]]]]. cbv zeta in *. pose proof P18_pos. split; [lia|nia]. }
  destruct (dc_truncate_decimal_ok tot (fun d => proj1 (T1 d))) as [coins [dust [ETr TD]]]. rewrite ETr. cbv beta iota.
  assert (RES : forall d, 0 <= dsel d dust < P18 /\ 0 <= pr_sel d coins /\ pr_sel d coins * P18 <= UL).
  { intro d. destruct (TD d) as [A [B B']]. destruct (T1 d). split; [exact A|]. split; [exact B|lia]. }
  unfold acc_has, acc_get. cbn [ac_recs ac_value ac_total].
  destruct (ar_shares r =? 0).
  - (* the empty record is deleted *)
    match goal with |- context [rec_get (rec_remove ?m id) id] => destruct (rec_get (rec_remove m id) id) eqn:EG end.
    + destruct (dc_safe_sub_ok (ac_value a) out) as [ins EI]. { intro d. destruct (C d) as [_ [_ [_ [_ [X _]]]]]. cbv zeta in X. exact X. }
      rewrite EI. cbv beta iota. eexists; eexists; eexists; split; [reflexivity|exact RES].
    + eexists; eexists; eexists; split; [reflexivity|exact RES].
  - rewrite rec_get_set, Z.eqb_refl.
    destruct (dc_safe_sub_ok (ac_value a) out) as [ins EI]. { intro d. destruct (C d) as [_ [_ [_ [_ [X _]]]]]. cbv zeta in X. exact X. }
    rewrite EI. cbv beta iota. eexists; eexists; eexists; split; [reflexivity|exact RES].
Qed.

(* ---------- prepareClaimableSpreadRewards ---------- *)
Definition spread_claim_ok (w : rwd) (sc cur l u : Z) (r : arec) : Prop :=
  P18 <= sc /\ 0 <= ac_total (rw_spread w) /\ trackers_ok w cur l u /\ 0 <= ar_shares r /\
  forall d, let s := view (CS d) w cur dc0 in
    - a_G s <= dsel d (ar_snap r) <= a_inside s l u /\ 0 <= dsel d (ar_unclaimed r) /\
    dsel d (ar_unclaimed r) * P18 + 2 * a_G s * ar_shares r + P18 <= UL * P18.

Lemma inside_bounds : forall s l u, 0 <= a_read s l <= a_G s -> 0 <= a_read s u <= a_G s -> - a_G s <= a_inside s l u <= a_G s.
Proof.
  intros s l u A B. unfold a_inside, a_below, a_above. destruct (l <=? a_c s); destruct (u <=? a_c s); lia.
Qed.

Lemma scale_down_ok : forall t sc, P18 <= sc -> 0 <= t -> t * P18 <= UL -> exists x, scale_down t sc = Some x.
Proof.
  intros t sc Hsc Ht Hb. unfold scale_down, nz. pose proof P18_pos as HP.
  replace (sc =? 0) with false by (symmetry; apply Z.eqb_neq; lia). cbv beta iota.
  unfold d_quo_truncate, d_from_int.
  assert (N : 0 <= t * P18 * P18) by nia.
  destruct (quot_bounds _ sc N ltac:(lia)) as [A B]. assert (Q0 : 0 <= Z.quot (t * P18 * P18) sc) by (apply Z.quot_pos; lia).
  rewrite dchk_ok; [eexists; reflexivity|]. pose proof UL_big. split; [lia|]. nia.
Qed.

Theorem prepare_claimable_spread_ok : forall w sc cur l u id r, acc_get (rw_spread w) id = Some r ->
  spread_claim_ok w sc cur l u r -> exists w' c, prepare_claimable_spread w sc cur l u id = Some (w', c).
Proof.
  intros w sc cur l u id r ER [Hsc [HT [TR [Hsh C]]]]. unfold prepare_claimable_spread.
  unfold acc_has. rewrite ER. cbn [negb]. 
  destruct (spread_growth_outside_ok w cur l u TR) as [out EO]. rewrite EO. cbv beta iota.
  assert (GV : forall d, a_G (view (CS d) w cur dc0) = dsel d (ac_value (rw_spread w))) by (intro d; simpl; rewrite dsel_dc0; lia).
  assert (OV : forall d, dsel d out = dsel d (ac_value (rw_spread w)) - a_inside (view (CS d) w cur dc0) l u).
  { intro d. rewrite (spread_growth_outside_view d _ _ _ _ _ EO). unfold a_inside. rewrite GV. lia. }
  assert (CA : claim_arith_ok (rw_spread w) r out).
  { split; [exact Hsh|]. intro d. cbv zeta. rewrite OV. destruct (C d) as [[S1 S2] [U0 RB]]. cbv zeta in *.
    destruct (TR d) as [TL [TU TG]]. cbv zeta in *. pose proof (inside_bounds _ l u TL TU) as IB. rewrite GV in *.
    pose proof P36_pos as HP.
    repeat split; try lia. nia. }
  destruct (update_accum_and_claim_ok _ id out r ER CA) as [a1 [cs [dust [EU RES]]]]. rewrite EU. cbv beta iota.
  pose proof (update_accum_and_claim_value _ _ _ _ _ _ EU) as V1.
  pose proof (update_accum_and_claim_total _ _ _ _ _ _ EU) as T1.
  assert (CD : exists claimed dust', (if sc =? P18 then Some (cs, dust) else do cl <- scale_down2 cs sc; Some (cl, dc0)) = Some (claimed, dust')
               /\ forall d, 0 <= dsel d dust' < P18).
  { destruct (sc =? P18).
    - eexists; eexists; split; [reflexivity|]. intro d. apply (RES d).
    - unfold scale_down2. destruct (RES false) as [_ [A0 B0]]. destruct (RES true) as [_ [A1 B1]]. simpl in A0, B0, A1, B1.
      destruct (scale_down_ok (fst cs) sc Hsc A0 B0) as [x0 E0]. destruct (scale_down_ok (snd cs) sc Hsc A1 B1) as [x1 E1].
      rewrite E0, E1. cbv beta iota. eexists; eexists; split; [reflexivity|]. intro d. rewrite dsel_dc0. pose proof P18_pos. lia. }
  destruct CD as [claimed [dust' [ECD DB]]]. rewrite ECD. cbv beta iota.
  destruct (negb (dc_is_zero dust') && negb (ac_total a1 =? 0)) eqn:EZ.
  - apply andb_true_iff in EZ. destruct EZ as [_ EZ]. apply negb_true_iff in EZ. apply Z.eqb_neq in EZ. rewrite T1 in EZ.
    unfold dc_quo_dec_truncate, nz. rewrite T1. replace (ac_total (rw_spread w) =? 0) with false by (symmetry; apply Z.eqb_neq; exact EZ). cbv beta iota.
    assert (QB : forall d, 0 <= d_quo_truncate (dsel d dust') (ac_total (rw_spread w)) <= P36).
    { intro d. unfold d_quo_truncate. destruct (DB d) as [D0 D1]. pose proof P18_pos as HP.
      assert (N : 0 <= dsel d dust' * P18) by nia.
      destruct (quot_bounds _ (ac_total (rw_spread w)) N ltac:(lia)) as [A B].
      split; [apply Z.quot_pos; lia|]. change P36 with (P18 * P18). nia. }
    pose proof UL_big as UB. pose proof (QB false) as Q0. pose proof (QB true) as Q1. simpl in Q0, Q1.
    rewrite (dchk_ok (d_quo_truncate (fst dust') (ac_total (rw_spread w)))), (dchk_ok (d_quo_truncate (snd dust') (ac_total (rw_spread w)))) by lia.
    cbv beta iota. unfold acc_add_to. rewrite V1.
    destruct (dc_add_ok (ac_value (rw_spread w)) (d_quo_truncate (fst dust') (ac_total (rw_spread w)), d_quo_truncate (snd dust') (ac_total (rw_spread w)))) as [v EV].
    { intro d. destruct (TR d) as [TL [_ TG]]. cbv zeta in *. rewrite GV in *. rewrite dsel_pair. destruct d; lia. }
    rewrite EV. cbv beta iota. eexists; eexists; reflexivity.
  - eexists; eexists; reflexivity.
Qed.
