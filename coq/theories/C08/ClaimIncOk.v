(* C08: WHEN DOES AN INCENTIVE CLAIM SUCCEED?  Forward direction for prepareClaimAllIncentivesForPosition: it returns a result
   as soon as the sign conditions (invariants: C08/ClaimIncInv.v), the TIME conditions (block time >= last liquidity update and
   >= join time) and explicit LegacyDec RANGE conditions hold.  Part 1: the accrual updateGivenPoolUptimeAccumulatorsToNow. *)
From Coq Require Import ZArith List Bool Lia.
Import ListNotations.
From Osmo Require Import Base.DecModel CL.TickMath CL.CLMath CL.CLPool CL.CLSwap CL.CLStep
  CLR.Accum CLR.Rewards CLR.RSwap CLR.RStep C07.Base C07.LP
  C08.Proj C08.Telescope C08.View C08.Static C08.Stages C08.Claim C08.Conseq C08.Frame C08.Never C08.Paid
  C08.IncAcc C08.Inc C08.IncList C08.IncStage C08.ClaimOk C08.ClaimInv C08.ClaimIncInv.
Open Scope Z_scope.

Lemma dchk_fits : forall z r, dchk z = Some r -> r = z /\ - UL <= z <= UL.
Proof.
  intros z r H. unfold dchk, d_fits in H. change upper_limit18 with UL in H.
  destruct ((z <=? UL) && (- UL <=? z)) eqn:E; [|discriminate H]. inversion H; subst.
  apply andb_true_iff in E. destruct E as [A B]. apply Z.leb_le in A, B. split; [reflexivity|lia].
Qed.

Lemma quot_nonneg_le : forall a b, 0 <= a -> 0 < b -> 0 <= Z.quot a b /\ Z.quot a b * b <= a.
Proof. intros a b Ha Hb. destruct (quot_bounds a b Ha Hb) as [A _]. split; [apply Z.quot_pos; lia|lia]. Qed.

(* ---------- one incentive record ---------- *)
Lemma accrue_one_ok : forall u liq dt18 isc now r acc, P18 <= liq -> 0 < isc -> 0 <= dt18 -> rec_ok r -> ir_remaining r <= UL ->
  (forall d, 0 <= dsel d acc /\ dsel d acc * P18 + (if den_match d r then ir_remaining r else 0) * isc <= UL * P18) ->
  exists acc' r', accrue_one u liq dt18 isc now r acc = Some (acc', r').
Proof.
  intros u liq dt18 isc now r acc Hl Hi Hd [RR R0] RU HA. pose proof P18_pos as HP. pose proof UL_pos as HU.
  unfold accrue_one. destruct (negb (ir_start r <? now) || negb (ir_up r =? u)); [eexists; eexists; reflexivity|].
  destruct (dchk (d_mul_truncate dt18 (ir_rate r))) as [total|] eqn:ET; [|eexists; eexists; reflexivity].
  destruct (dchk_fits _ _ ET) as [ET' _]. subst total. set (total := d_mul_truncate dt18 (ir_rate r)) in *.
  assert (T0 : 0 <= total) by (unfold total, d_mul_truncate, chop_trunc; apply Z.quot_pos; nia).
  destruct (dchk (d_mul_truncate total isc)) as [scaled|] eqn:ES; [|eexists; eexists; reflexivity].
  destruct (dchk_fits _ _ ES) as [ES' _]. subst scaled. set (scaled := d_mul_truncate total isc) in *.
  assert (SC : 0 <= scaled /\ scaled * P18 <= total * isc) by (unfold scaled, d_mul_truncate, chop_trunc; apply quot_nonneg_le; nia).
  destruct SC as [S0 S1].
  unfold nz. replace (liq =? 0) with false by (symmetry; apply Z.eqb_neq; lia). cbv beta iota.
  (* adding x with x * liq <= bound * P18 ... to the accumulated amount stays in range *)
  assert (ADD : forall x bound, 0 <= x -> x * liq <= bound * P18 -> bound * P18 <= ir_remaining r * isc ->
                exists c, dc_add acc (dc_one (ir_denom r) x) = Some c).
  { intros x bound X0 X1 X2. apply dc_add_ok. intro d. rewrite dsel_one. destruct (HA d) as [A0 A1]. fold (den_match d r). unfold den_match in *.
    destruct (Bool.eqb d (negb (ir_denom r =? 0))); [|nia]. split; [lia|]. nia. }
  assert (PER : forall y, 0 <= y -> y <= UL -> exists p, dchk (d_quo_truncate y liq) = Some p /\ p = d_quo_truncate y liq /\ 0 <= p /\ p * liq <= y * P18).
  { intros y Y0 YU. unfold d_quo_truncate. destruct (quot_nonneg_le (y * P18) liq ltac:(nia) ltac:(lia)) as [Q0 Q1].
    exists (Z.quot (y * P18) liq). split; [apply dchk_ok; split; [lia|nia]|]. split; [reflexivity|]. split; assumption. }
  destruct (dchk_fits _ _ ES) as [_ [_ SU]].
  destruct (PER scaled S0 SU) as [per [EP [_ [P0 P1]]]]. rewrite EP. cbv beta iota.
  destruct (total <=? ir_remaining r) eqn:EC.
  - apply Z.leb_le in EC. destruct (ADD per scaled P0 P1 ltac:(nia)) as [c EA]. rewrite EA. cbv beta iota.
    rewrite dchk_ok by lia. eexists; eexists; reflexivity.
  - destruct (dchk (d_mul_truncate (ir_remaining r) isc)) as [rs|] eqn:ER; [|eexists; eexists; reflexivity].
    destruct (dchk_fits _ _ ER) as [ER' [_ RSU]]. subst rs. set (rsc := d_mul_truncate (ir_remaining r) isc) in *.
    assert (RC : 0 <= rsc /\ rsc * P18 <= ir_remaining r * isc) by (unfold rsc, d_mul_truncate, chop_trunc; apply quot_nonneg_le; nia).
    destruct RC as [RC0 RC1].
    destruct (PER rsc RC0 RSU) as [per' [EP' [_ [P0' P1']]]]. rewrite EP'. cbv beta iota.
    destruct (ADD per' rsc P0' P1' RC1) as [c EA]. rewrite EA. eexists; eexists; reflexivity.
Qed.

Lemma remD_nonneg : forall d l, recs_ok l -> 0 <= remD d l.
Proof.
  induction l as [|r l IH]; intro OK; simpl; [lia|]. inversion OK as [|? ? [_ R0] H2]; subst. specialize (IH H2). destruct (den_match d r); lia.
Qed.
Definition rems_fit (l : list inc_rec) : Prop := Forall (fun r => ir_remaining r <= UL) l.

(* ---------- all records into one accumulator ---------- *)
Lemma calc_accrued_ok : forall u liq dt18 isc now recs acc, P18 <= liq -> 0 < isc -> 0 <= dt18 -> recs_ok recs -> rems_fit recs ->
  (forall d, 0 <= dsel d acc /\ dsel d acc * P18 + remD d recs * isc <= UL * P18) ->
  exists acc' recs', calc_accrued u liq dt18 isc now recs acc = Some (acc', recs').
Proof.
  intros u liq dt18 isc now. pose proof P18_pos as HP.
  induction recs as [|r rest IH]; intros acc Hl Hi Hd OK RF HA; simpl; [eexists; eexists; reflexivity|].
  inversion OK as [|? ? RO OK']; subst. inversion RF as [|? ? RU RF']; subst.
  pose proof (remD_nonneg false rest OK') as N0. pose proof (remD_nonneg true rest OK') as N1.
  destruct (accrue_one_ok u liq dt18 isc now r acc Hl Hi Hd RO RU) as [acc1 [r1 E1]].
  { intro d. destruct (HA d) as [A0 A1]. simpl in A1. split; [exact A0|]. destruct d; destruct (den_match _ r); nia. }
  rewrite E1. cbv beta iota.
  destruct (IH acc1 Hl Hi Hd OK' RF') as [acc2 [recs2 E2]].
  { intro d. destruct (accrue_one_spec _ _ _ _ _ _ _ _ _ d E1 ltac:(lia) Hi Hd RO) as [per [EA [P0 [P1 [RL [RO' _]]]]]].
    destruct (HA d) as [A0 A1]. simpl in A1. destruct RO' as [_ R0']. rewrite EA.
    destruct (den_match d r); [split; [lia|nia]|split; [lia|]; lia]. }
  rewrite E2. eexists; eexists; reflexivity.
Qed.

(* ---------- all accumulators ---------- *)
Lemma accrue_all_ok : forall liq dt18 isc now ups u recs, P18 <= liq -> 0 < isc -> 0 < dt18 -> recs_ok recs -> rems_fit recs ->
  (forall d, remD d recs * isc <= UL * P18) ->
  (forall d i, (i < length ups)%nat -> 0 <= dsel d (ac_value (nth i ups acc_empty)) /\
                  dsel d (ac_value (nth i ups acc_empty)) * P18 + remD d recs * isc <= UL * P18) ->
  exists ups' recs', accrue_all u ups liq dt18 isc now recs = Some (ups', recs').
Proof.
  intros liq dt18 isc now. pose proof P18_pos as HP.
  induction ups as [|a rest IH]; intros u recs Hl Hi Hd OK RF HR HV; simpl; [eexists; eexists; reflexivity|].
  unfold calc_accrued_for_accum.
  replace (negb (0 <? liq) || negb (0 <? dt18)) with false
    by (symmetry; apply orb_false_iff; split; apply negb_false_iff; apply Z.ltb_lt; lia).
  destruct (calc_accrued_ok u liq dt18 isc now recs dc0 Hl Hi ltac:(lia) OK RF) as [add [recs1 E1]].
  { intro d. rewrite dsel_dc0. split; [lia|]. specialize (HR d). lia. }
  rewrite E1. cbv beta iota.
  destruct (calc_accrued_spec u liq dt18 isc now false recs dc0 add recs1 E1 ltac:(lia) Hi ltac:(lia) OK) as [_ [_ [_ OK1]]].
  assert (RF1 : rems_fit recs1).
  { (* remaining amounts only shrink *)
    clear - E1 RF OK Hl Hi Hd HP. revert E1 RF OK. generalize dc0 as acc. revert add recs1.
    induction recs as [|r rs IHr]; intros add recs1 acc E RF OK; simpl in E; [inversion E; constructor|].
    destruct (accrue_one u liq dt18 isc now r acc) as [[acc1 r1]|] eqn:EA; [|discriminate E]. cbv beta iota in E.
    destruct (calc_accrued u liq dt18 isc now rs acc1) as [[acc2 rs2]|] eqn:EB; [|discriminate E]. inversion E; subst. simpl.
    inversion RF; subst. inversion OK; subst.
    destruct (accrue_one_spec _ _ _ _ _ _ _ _ _ false EA ltac:(lia) Hi ltac:(lia) H3) as [_ [_ [_ [_ [RL _]]]]].
    constructor; [lia|]. eapply IHr; eassumption. }
  assert (ADD : forall d, 0 <= dsel d add /\ dsel d add * P18 <= (remD d recs - remD d recs1) * isc /\ remD d recs1 <= remD d recs).
  { intro d. destruct (calc_accrued_spec u liq dt18 isc now d recs dc0 add recs1 E1 ltac:(lia) Hi ltac:(lia) OK) as [A [B [C _]]].
    rewrite dsel_dc0 in *. split; [lia|]. split; [nia|lia]. }
  unfold acc_add_to.
  destruct (dc_add_ok (ac_value a) add) as [v EV].
  { intro d. destruct (HV d O ltac:(simpl; lia)) as [V0 V1]. cbn [nth] in V0, V1. destruct (ADD d) as [A0 [A1 A2]].
    pose proof (remD_nonneg d recs1 OK1). pose proof UL_pos. split; [lia|nia]. }
  rewrite EV. cbv beta iota.
  destruct (IH (u + 1) recs1 Hl Hi Hd OK1 RF1) as [ups2 [recs2 E2]].
  - intro d. destruct (ADD d) as [_ [_ A2]]. specialize (HR d). nia.
  - intros d i Hi'. destruct (HV d (S i) ltac:(simpl; lia)) as [V0 V1]. cbn [nth] in V0, V1. destruct (ADD d) as [_ [_ A2]]. split; [exact V0|nia].
  - rewrite E2. eexists; eexists; reflexivity.
Qed.

(* ---------- updateGivenPoolUptimeAccumulatorsToNow ---------- *)
Definition accrual_range_ok (w : rwd) : Prop :=
  rems_fit (rw_recs w) /\
  forall d, remD d (rw_recs w) * rw_inc_scaling w <= UL * P18 /\
    forall i, (i < length (rw_up w))%nat -> 0 <= sel_G (CU i d) w /\ sel_G (CU i d) w * P18 + remD d (rw_recs w) * rw_inc_scaling w <= UL * P18.

Theorem update_uptime_ok : forall w liq now, rw_last w <= now -> WOK w -> accrual_range_ok w -> exists w', update_uptime w liq now = Some w'.
Proof.
  intros w liq now HT [OK [Hi LN]] [RF RG]. unfold update_uptime.
  destruct (now - rw_last w =? 0) eqn:E0; [eexists; reflexivity|]. apply Z.eqb_neq in E0.
  replace (now - rw_last w <? 0) with false by (symmetry; apply Z.ltb_ge; lia).
  destruct (liq <? P18) eqn:EL; [eexists; reflexivity|]. apply Z.ltb_ge in EL.
  destruct (accrue_all_ok liq (d_from_int (now - rw_last w)) (rw_inc_scaling w) now (rw_up w) 0 (rw_recs w) EL Hi) as [ups' [recs' E]]; try assumption.
  - unfold d_from_int. pose proof P18_pos. nia.
  - intro d. apply (RG d).
  - intros d i Hi'. destruct (RG d) as [_ R]. specialize (R i Hi'). rewrite sel_G_CU in R. unfold acc_u in R. exact R.
  - rewrite E. eexists; reflexivity.
Qed.

(* ---------- GetUptimeGrowthInsideRange / OutsideRange ---------- *)
Lemma omap2_ok : forall f a b, length a = length b ->
  (forall n, (n < length a)%nat -> exists c, f (nth n a dc0) (nth n b dc0) = Some c) -> exists r, omap2 f a b = Some r.
Proof.
  intros f. induction a as [|x a IH]; intros [|y b] L H; simpl in L; try discriminate L; simpl; [eexists; reflexivity|].
  destruct (H O ltac:(simpl; lia)) as [c E]. simpl in E. rewrite E. cbv beta iota.
  destruct (IH b ltac:(lia)) as [r ER]; [intros n Hn; apply (H (S n)); simpl; lia|]. rewrite ER. eexists; reflexivity.
Qed.

Definition lens_ok (w : rwd) (cur i : Z) : Prop := length (rt_up (tt_read w cur i)) = length (rw_up w).
Definition up_range_ok (w : rwd) : Prop := forall u d, 3 * sel_G (CU u d) w + P36 <= UL.

Lemma read_CU : forall u d w cur i, a_read (view (CU u d) w cur dc0) i = dsel d (nth u (rt_up (tt_read w cur i)) dc0).
Proof. intros. rewrite (a_read_view (CU u d)). reflexivity. Qed.
Lemma G_CU : forall u d w, sel_G (CU u d) w = dsel d (nth u (map ac_value (rw_up w)) dc0). Proof. reflexivity. Qed.

Lemma uptime_growth_outside_ok : forall w cur lo hi, lo < hi -> TBU w -> up_range_ok w -> lens_ok w cur lo -> lens_ok w cur hi ->
  exists outs, uptime_growth_outside w cur lo hi = Some outs.
Proof.
  intros w cur lo hi Hlh TB RG Ll Lh. pose proof P36_pos as HP.
  assert (RD : forall u d i, 0 <= dsel d (nth u (rt_up (tt_read w cur i)) dc0) <= sel_G (CU u d) w).
  { intros u d i. rewrite <- read_CU, <- (view_G (CU u d) w cur). apply TBk_read. apply TB. }
  assert (GU : forall u d, 0 <= sel_G (CU u d) w /\ 3 * sel_G (CU u d) w + P36 <= UL) by (intros u d; split; [apply (TB u d)|apply RG]).
  assert (LG : length (map ac_value (rw_up w)) = length (rw_up w)) by apply map_length.
  assert (INS : exists ins, uptime_growth_inside w cur lo hi = Some ins).
  { unfold uptime_growth_inside. destruct (cur <? lo).
    - apply omap2_ok; [unfold lens_ok in *; congruence|]. intros n _. apply dc_safe_sub_ok. intro d.
      pose proof (RD n d lo). pose proof (RD n d hi). destruct (GU n d). lia.
    - destruct (cur <? hi).
      + destruct (omap2_ok dc_sub (map ac_value (rw_up w)) (rt_up (tt_read w cur hi))) as [gm EG]; [unfold lens_ok in *; congruence| |].
        * intros n _. apply dc_sub_ok. intro d. pose proof (RD n d hi). destruct (GU n d). rewrite <- G_CU. lia.
        * rewrite EG. cbv beta iota. destruct (omap2_length _ _ _ _ EG) as [_ LGM].
          apply omap2_ok; [unfold lens_ok in *; congruence|]. intros n Hn. apply dc_safe_sub_ok. intro d.
          pose proof (omap2_nth _ _ _ _ n EG ltac:(lia)) as N. destruct (dsel_sub d _ _ _ N) as [V _]. rewrite V, <- G_CU.
          pose proof (RD n d lo). pose proof (RD n d hi). destruct (GU n d). lia.
      + apply omap2_ok; [unfold lens_ok in *; congruence|]. intros n _. apply dc_safe_sub_ok. intro d.
        pose proof (RD n d lo). pose proof (RD n d hi). destruct (GU n d). lia. }
  destruct INS as [ins EI]. unfold uptime_growth_outside. rewrite EI. cbv beta iota.
  assert (LI : length ins = length (rw_up w)).
  { unfold uptime_growth_inside in EI. unfold lens_ok in *. destruct (cur <? lo); [destruct (omap2_length _ _ _ _ EI); lia|].
    destruct (cur <? hi); [|destruct (omap2_length _ _ _ _ EI); lia].
    destruct (omap2 dc_sub (map ac_value (rw_up w)) (rt_up (tt_read w cur hi))) as [gm|] eqn:EG; [|discriminate EI]. cbv beta iota in EI.
    destruct (omap2_length _ _ _ _ EG). destruct (omap2_length _ _ _ _ EI). lia. }
  apply omap2_ok; [lia|]. intros n Hn. rewrite LG in Hn. apply dc_sub_ok. intro d.
  rewrite (uptime_growth_inside_view n d w cur lo hi ins Hlh Hn EI), <- G_CU.
  pose proof (TBk_ins (CU n d) w cur lo hi (TB n d)). destruct (GU n d). lia.
Qed.

(* ---------- the loop over the uptime accumulators ---------- *)
Lemma claim_uptimes_ok : forall id age isc ups outs uts, length outs = length ups -> length uts = length ups -> P18 <= isc ->
  (forall n r, acc_get (nth n ups acc_empty) id = Some r -> claim_arith_ok (nth n ups acc_empty) r (nth n outs dc0)) ->
  exists res, claim_uptimes ups outs uts id age isc = Some res.
Proof.
  intros id age isc. induction ups as [|a ups IH]; intros outs uts LO LU Hi CA.
  - destruct outs; [|discriminate LO]. destruct uts; [|discriminate LU]. simpl. eexists; reflexivity.
  - destruct outs as [|o outs]; [discriminate LO|]. destruct uts as [|ut uts]; [discriminate LU|]. cbn [claim_uptimes].
    destruct (IH outs uts ltac:(simpl in LO; lia) ltac:(simpl in LU; lia) Hi) as [[[[ar col] forf] byup] ER].
    { intros n r R. apply (CA (S n) r R). }
    rewrite ER. cbv beta iota. unfold acc_has. destruct (acc_get a id) as [r|] eqn:R; [|eexists; reflexivity].
    destruct (update_accum_and_claim_ok a id o r R (CA O r R)) as [a' [scaled [dust [EU RES]]]]. rewrite EU. cbv beta iota.
    unfold scale_down2. destruct (RES false) as [_ [A0 B0]]. destruct (RES true) as [_ [A1 B1]]. simpl in A0, B0, A1, B1.
    destruct (scale_down_ok (fst scaled) isc Hi A0 B0) as [x0 E0]. destruct (scale_down_ok (snd scaled) isc Hi A1 B1) as [x1 E1].
    rewrite E0, E1. cbv beta iota. destruct (age <? ut); eexists; reflexivity.
Qed.

(* ---------- how far the accrual can move an accumulator ---------- *)
Lemma usum_term_le : forall n f u, (forall i, (i < n)%nat -> 0 <= f i) -> (u < n)%nat -> f u <= usum n f.
Proof.
  induction n as [|n IH]; intros f u NN Hu; [lia|]. simpl.
  assert (0 <= usum n f) by (clear - NN; induction n as [|m IHm]; simpl; [lia|]; assert (0 <= usum m f) by (apply IHm; intros i Hi; apply NN; lia); pose proof (NN m ltac:(lia)); lia).
  destruct (Nat.eq_dec u n) as [E|E]; [subst u; lia|]. pose proof (IH f u ltac:(intros i Hi; apply NN; lia) ltac:(lia)). pose proof (NN n ltac:(lia)). lia.
Qed.

Lemma update_uptime_bound : forall w liq now w' d u, update_uptime w liq now = Some w' -> WOK w -> (u < length (rw_up w))%nat ->
  sel_G (CU u d) w' * P18 <= sel_G (CU u d) w * P18 + remD d (rw_recs w) * rw_inc_scaling w.
Proof.
  intros w liq now w' d u H [OK [Hi LN]] Hu. pose proof P18_pos as HP. pose proof (remD_nonneg d _ OK) as RN.
  unfold update_uptime in H. destruct (now - rw_last w =? 0); [inversion H; subst; nia|].
  destruct (now - rw_last w <? 0) eqn:ED; [discriminate H|]. apply Z.ltb_ge in ED.
  destruct (liq <? P18) eqn:EL.
  - inversion H; subst. simpl. nia.
  - apply Z.ltb_ge in EL. destruct (accrue_all 0 (rw_up w) liq (d_from_int (now - rw_last w)) (rw_inc_scaling w) now (rw_recs w)) as [[ups recs]|] eqn:EA; [|discriminate H].
    inversion H; subst w'. clear H.
    destruct (accrue_all_spec d _ _ _ _ _ _ _ _ _ EA EL Hi ltac:(unfold d_from_int; nia) OK) as [LL [F [SUM [RL OK']]]].
    pose proof (remD_nonneg d _ OK') as RN'.
    pose proof (usum_term_le (length (rw_up w)) (fun i => dsel d (ac_value (nth i ups acc_empty)) - dsel d (ac_value (nth i (rw_up w) acc_empty))) u
                  ltac:(intros i _; destruct (F i) as [_ [_ G]]; exact G) Hu) as T. cbv beta in T.
    destruct (F u) as [_ [_ G0]].
    rewrite !sel_G_CU. unfold acc_u. cbn [rw_up].
    set (g := dsel d (ac_value (nth u ups acc_empty)) - dsel d (ac_value (nth u (rw_up w) acc_empty))) in *.
    assert (g * P18 <= remD d (rw_recs w) * rw_inc_scaling w) by nia. lia.
Qed.

(* ---------- prepareClaimAllIncentivesForPosition ---------- *)
Definition inc_claim_ok (w : rwd) (cur now lo hi id join : Z) : Prop :=
  rw_last w <= now /\ join <= now /\ WOK w /\ P18 <= rw_inc_scaling w /\ lo < hi /\ tks w lo hi /\ TBU w /\ srecU w cur id lo hi /\
  wf_rwd w /\ rems_fit (rw_recs w) /\
  forall u d, (u < NU)%nat ->
    let B := sel_G (CU u d) w * P18 + remD d (rw_recs w) * rw_inc_scaling w in
    3 * B + P36 * P18 <= UL * P18 /\
    forall r, acc_get (acc_u u w) id = Some r -> 0 <= ar_shares r /\ 0 <= dsel d (ar_unclaimed r) /\
      dsel d (ar_unclaimed r) * P18 * P18 + 2 * B * ar_shares r + P18 * P18 <= UL * P18 * P18.

Lemma tt_get_in : forall m i t, tt_get m i = Some t -> In (i, t) m.
Proof.
  induction m as [|[k v] m IH]; intros i t H; simpl in H; [discriminate H|].
  destruct (i =? k) eqn:E; [apply Z.eqb_eq in E; inversion H; subst; left; reflexivity|right; apply IH; exact H].
Qed.
Lemma wf_lens : forall w w' cur i, wf_rwd w -> rw_tt w' = rw_tt w -> length (rw_up w') = length (rw_up w) -> lens_ok w' cur i.
Proof.
  intros w w' cur i WF T L. unfold lens_ok, tt_read. rewrite T. destruct (tt_get (rw_tt w) i) as [t|] eqn:E.
  - unfold wf_rwd in WF. rewrite Forall_forall in WF. rewrite L. exact (WF (i, t) (tt_get_in _ _ _ E)).
  - unfold init_tracker. destruct (i <=? cur); simpl; rewrite map_length; reflexivity.
Qed.
Lemma sel_G_overflow : forall u d w, (length (rw_up w) <= u)%nat -> sel_G (CU u d) w = 0.
Proof. intros u d w H. simpl. rewrite nth_overflow by (rewrite map_length; exact H). apply dsel_dc0. Qed.

Theorem prepare_claim_all_incentives_ok : forall w cur pl now lo hi id join, inc_claim_ok w cur now lo hi id join ->
  exists res, prepare_claim_all_incentives w cur pl now lo hi id join = Some res.
Proof.
  intros w cur pl now lo hi id join [HT [HJ [WK [His [Hlh [TK [TB [Z [WF [RF RG]]]]]]]]]].
  pose proof WK as [OK [Hi LN]]. pose proof P18_pos as HP. pose proof P36_pos as HP36. pose proof UL_pos as HU.
  assert (RN : forall d, 0 <= remD d (rw_recs w)) by (intro d; apply remD_nonneg; exact OK).
  assert (G0 : forall u d, 0 <= sel_G (CU u d) w) by (intros u d; apply (TB u d)).
  unfold prepare_claim_all_incentives.
  destruct (update_uptime_ok w pl now HT WK) as [w1 E1].
  { split; [exact RF|]. intro d. split.
    - destruct NU as [|n] eqn:EN; [|destruct (RG O d ltac:(lia)) as [A _]; cbv zeta in A; specialize (G0 O d); nia].
      (* no accumulators: nothing to bound against, but then there is nothing to accrue either; use the bound of remaining amounts *)
      exfalso. unfold NU, n_uptimes, uptimes_ns in EN. vm_compute in EN. discriminate EN.
    - intros i Hi'. rewrite LN in Hi'. destruct (RG i d Hi') as [A _]. cbv zeta in A. specialize (G0 i d). split; [exact G0|nia]. }
  rewrite E1. cbv beta iota.
  replace ((now - join) * 1000000000 <? 0) with false by (symmetry; apply Z.ltb_ge; lia).
  destruct (update_uptime_U _ _ _ _ E1 WK) as [[OK1 [Hi1 LN1]] [T1 [_ [GM1 R1]]]].
  assert (IS1 : rw_inc_scaling w1 = rw_inc_scaling w) by (apply (update_uptime_tt _ _ _ _ E1)).
  assert (TB1 : TBU w1) by (intros u d; apply (TBk_same _ w w1 T1 (GM1 u d) (TB u d))).
  destruct (srecU_SE cur [] w w1 id lo hi (fun u d => SE_same_tt (CU u d) cur _ _ T1) Hlh TK ltac:(simpl; tauto) ltac:(simpl; tauto) GM1
              (fun u => R1 u id) Z) as [Z1 _].
  assert (GB : forall u d, (u < NU)%nat -> sel_G (CU u d) w1 * P18 <= sel_G (CU u d) w * P18 + remD d (rw_recs w) * rw_inc_scaling w)
    by (intros u d Hu; apply (update_uptime_bound _ _ _ _ d u E1 WK); rewrite LN; exact Hu).
  assert (UR : up_range_ok w1).
  { intros u d. destruct (Nat.lt_ge_cases u NU) as [Hu|Hu].
    - destruct (RG u d Hu) as [A _]. cbv zeta in A. specialize (GB u d Hu). nia.
    - rewrite sel_G_overflow by (rewrite LN1; exact Hu). pose proof UL_big. lia. }
  destruct (uptime_growth_outside_ok w1 cur lo hi Hlh TB1 UR (wf_lens w w1 cur lo WF T1 ltac:(lia)) (wf_lens w w1 cur hi WF T1 ltac:(lia))) as [outs EO].
  rewrite EO. cbv beta iota.
  destruct (outs_view false _ _ _ _ _ EO Hlh) as [LO _].
  destruct (claim_uptimes_ok id ((now - join) * 1000000000) (rw_inc_scaling w1) (rw_up w1) outs uptimes_ns LO) as [[[[ups col] forf] byup] EC].
  - rewrite LN1. reflexivity.
  - rewrite IS1. exact His.
  - intros n r R. destruct (Nat.lt_ge_cases n NU) as [Hn|Hn].
    2:{ rewrite nth_overflow in R by (rewrite LN1; exact Hn). discriminate R. }
    fold (acc_u n w1) in *. pose proof R as R0. rewrite (R1 n id) in R0.
    split; [destruct (RG n false Hn) as [_ F]; apply (F r R0)|]. intro d. cbv zeta.
    destruct (outs_view d _ _ _ _ _ EO Hlh) as [_ OV]. specialize (OV n ltac:(rewrite LN1; exact Hn)).
    destruct (Z1 n d r Hn R) as [S1 S2]. rewrite <- sel_G_CU in *.
    pose proof (TBk_ins (CU n d) w1 cur lo hi (TB1 n d)) as IB. fold (insU n d w1 cur lo hi) in IB.
    destruct (RG n d Hn) as [A F]. cbv zeta in A, F. destruct (F r R0) as [SH [U0 CR]]. specialize (GB n d Hn).
    pose proof (TB1 n d) as [G10 _].
    set (G1 := sel_G (CU n d) w1) in *. set (o := dsel d (nth n outs dc0)) in *. set (I1 := insU n d w1 cur lo hi) in *.
    assert (G1U : G1 <= UL) by nia. pose proof (UR n d) as UR1. fold G1 in UR1.
    assert (OE : G1 - o = I1) by exact OV.
    split; [lia|]. split; [lia|]. split; [lia|]. split; [lia|]. split; [lia|]. split; [lia|].
    assert (X : (G1 - dsel d (ar_snap r) - o) * ar_shares r <= 2 * G1 * ar_shares r) by (apply Z.mul_le_mono_nonneg_r; lia).
    assert (Y : 2 * G1 * ar_shares r * P18 <= 2 * (sel_G (CU n d) w * P18 + remD d (rw_recs w) * rw_inc_scaling w) * ar_shares r) by nia.
    nia.
  - rewrite EC. eexists; reflexivity.
Qed.
