(* C08, growth_inside_telescopes for the MODEL: across any history of operations of CLR/RStep.v, for every accumulator
   component (each denomination of the spread accumulator and of the six uptime accumulators) and every pair of
   initialised ticks l < u that the history neither re-initialises nor removes, growth inside [l, u) changes by exactly
   the per-unit growth that accrued while l <= current tick < u.  Additions and subtractions only - no rounding. *)
From Coq Require Import ZArith List Bool Lia.
Import ListNotations.
From Osmo Require Import Base.DecModel CL.TickMath CL.CLMath CL.CLPool CL.CLSwap CL.CLStep
  CLR.Accum CLR.Rewards CLR.RSwap CLR.RStep C08.Proj C08.Telescope C08.View C08.Static C08.Stages C08.Ops C08.OpInside C08.SwapTrace.
Open Scope Z_scope.

Lemma a_run_keys : forall evs s i, tm_sorted (a_O s) -> keys s i -> evs_keep evs i -> keys (a_run s evs) i.
Proof.
  induction evs as [|e r IH]; intros s i S K P; simpl; [assumption|]. destruct P as [P1 P2].
  apply IH; [apply step_sorted; assumption|apply step_keys; assumption|assumption].
Qed.

(* ---------- swaps ---------- *)
Definition swap_args (o : rop) : option (bool * bool * Z) :=
  match o with
  | RBase (OSwapIn _ zfo amt _) => Some (true, zfo, amt)
  | RBase (OSwapOut _ zfo amt _) => Some (false, zfo, amt)
  | _ => None
  end.
(* the abstract events of component k performed by operation o when it is an executed swap *)
Definition op_trace (k : comp) (rs : rstate) (o : rop) : list aev :=
  match swap_args o with
  | Some (ei, zfo, amt) =>
    match swap_events (r_base rs) ei zfo amt with
    | Some evs => strace k zfo (denom_in zfo) (r_rw rs) (p_liq (s_pool (r_base rs))) (s_time (r_base rs)) 0 evs
    | None => []
    end
  | None => []
  end.

Lemma swap_view : forall k rs o rs' r, rhandler rs o = Some (rs', r) -> is_swap o = true ->
  rview k rs' = a_run (rview k rs) (op_trace k rs o).
Proof.
  intros k rs o rs' r H S. destruct o as [b|? ?|? ?|? ? ? ? ? ?]; simpl in S; try discriminate S.
  destruct b as [? ? ? ? ? ? ?|? ? ?|? ? ? ? ? ?|? ? ?|sender zfo amt mo|sender zfo amt mi|?]; simpl in S; try discriminate S.
  - simpl in H. unfold r_swap_in in H.
    destruct (swap_exact_in (r_base rs) sender zfo amt mo) as [[s' out]|] eqn:E1; [|discriminate H]. simpl in H.
    destruct (swap_rewards (r_rw rs) (r_base rs) true zfo amt (s_time (r_base rs))) as [w|] eqn:E2; [|discriminate H].
    inversion H; subst. clear H. unfold op_trace. simpl.
    destruct (swap_events (r_base rs) true zfo amt) as [evs|] eqn:E3.
    + unfold rview, cur_tick. simpl. rewrite (swap_in_tick _ _ _ _ _ _ _ _ E1 E3).
      eapply swap_rewards_view; eassumption.
    + unfold swap_rewards in E2. rewrite E3 in E2. discriminate E2.
  - simpl in H. unfold r_swap_out in H.
    destruct (swap_exact_out (r_base rs) sender zfo amt mi) as [[s' tin]|] eqn:E1; [|discriminate H]. simpl in H.
    destruct (swap_rewards (r_rw rs) (r_base rs) false zfo amt (s_time (r_base rs))) as [w|] eqn:E2; [|discriminate H].
    inversion H; subst. clear H. unfold op_trace. simpl.
    destruct (swap_events (r_base rs) false zfo amt) as [evs|] eqn:E3.
    + unfold rview, cur_tick. simpl. rewrite (swap_out_tick _ _ _ _ _ _ _ _ E1 E3).
      eapply swap_rewards_view; eassumption.
    + unfold swap_rewards in E2. rewrite E3 in E2. discriminate E2.
Qed.

Lemma op_trace_keep : forall k rs o j, evs_keep (op_trace k rs o) j.
Proof.
  intros. unfold op_trace. destruct (swap_args o) as [[[ei zfo] amt]|]; [|exact I].
  destruct (swap_events _ _ _ _); [apply strace_keep|exact I].
Qed.

(* THE CROSSING HALF: across an executed swap whose trace is well-formed *)
Theorem op_inside_swap : forall k rs o rs' r l u,
  rhandler rs o = Some (rs', r) -> is_swap o = true -> l < u -> tm_sorted (vmap k (rw_tt (r_rw rs))) ->
  tt_get (rw_tt (r_rw rs)) l <> None -> tt_get (rw_tt (r_rw rs)) u <> None ->
  evs_wf (rview k rs) (op_trace k rs o) ->
  a_inside (rview k rs') l u = a_inside (rview k rs) l u + in_range_growth (rview k rs) (op_trace k rs o) l u.
Proof.
  intros k rs o rs' r l u H S Hlu St Kl Ku W. rewrite (swap_view k _ _ _ _ H S).
  apply a_telescope; try assumption; try apply op_trace_keep.
  - unfold keys. simpl. rewrite vmap_get. destruct (tt_get (rw_tt (r_rw rs)) l); [discriminate|congruence].
  - unfold keys. simpl. rewrite vmap_get. destruct (tt_get (rw_tt (r_rw rs)) u); [discriminate|congruence].
Qed.

(* ---------- histories ---------- *)
Definition in_rng (l u c : Z) : bool := (l <=? c) && (c <? u).
(* per-unit growth of component k that accrued to the range [l, u) during operation o *)
Definition op_growth (k : comp) (rs : rstate) (o : rop) (l u : Z) : Z :=
  match rstep rs o with
  | (rs', Some _) =>
      if is_swap o then in_range_growth (rview k rs) (op_trace k rs o) l u
      else if in_rng l u (cur_tick rs) then sel_G k (r_rw rs') - sel_G k (r_rw rs) else 0
  | (_, None) => 0
  end.
(* side conditions of one operation: a swap's trace is well-formed (it changes the side of the current tick only for the
   ticks it crosses); any other operation leaves the current tick alone and neither initialises nor removes l, u *)
Definition op_ok (k : comp) (rs : rstate) (o : rop) (l u : Z) : Prop :=
  match rstep rs o with
  | (rs', Some _) =>
      if is_swap o then evs_wf (rview k rs) (op_trace k rs o)
      else cur_tick rs' = cur_tick rs /\ mid_tick_ok rs o /\ ~ In l (touched rs o) /\ ~ In u (touched rs o)
  | (_, None) => True
  end.
Fixpoint hist_ok (k : comp) (rs : rstate) (ops : list rop) (l u : Z) : Prop :=
  match ops with [] => True | o :: r => op_ok k rs o l u /\ hist_ok k (fst (rstep rs o)) r l u end.
Fixpoint hist_growth (k : comp) (rs : rstate) (ops : list rop) (l u : Z) : Z :=
  match ops with [] => 0 | o :: r => op_growth k rs o l u + hist_growth k (fst (rstep rs o)) r l u end.

Definition tt_ok (k : comp) (rs : rstate) (l u : Z) : Prop :=
  tm_sorted (vmap k (rw_tt (r_rw rs))) /\ tt_get (rw_tt (r_rw rs)) l <> None /\ tt_get (rw_tt (r_rw rs)) u <> None.

Lemma keys_view : forall k w c i, keys (view k w c dc0) i <-> tt_get (rw_tt w) i <> None.
Proof. intros. unfold keys. simpl. rewrite vmap_get. destruct (tt_get (rw_tt w) i); simpl; split; congruence. Qed.

Lemma op_step : forall k rs o l u, l < u -> tt_ok k rs l u -> op_ok k rs o l u ->
  tt_ok k (fst (rstep rs o)) l u /\
  a_inside (rview k (fst (rstep rs o))) l u = a_inside (rview k rs) l u + op_growth k rs o l u.
Proof.
  intros k rs o l u Hlu [St [Kl Ku]] OK. unfold op_ok, op_growth in *. unfold rstep in *.
  destruct (rhandler rs o) as [[rs' r]|] eqn:H; simpl; [|split; [repeat split; assumption|lia]].
  destruct (is_swap o) eqn:S.
  - pose proof (swap_view k _ _ _ _ H S) as V. split.
    + unfold tt_ok. assert (X : a_O (rview k rs') = vmap k (rw_tt (r_rw rs'))) by reflexivity.
      rewrite <- X, V. split; [apply a_run_sorted; exact St|].
      assert (Y : forall i, tt_get (rw_tt (r_rw rs)) i <> None -> tt_get (rw_tt (r_rw rs')) i <> None).
      { intros i Ki. apply (keys_view k (r_rw rs') (cur_tick rs') i). fold (rview k rs'). rewrite V.
        apply a_run_keys; [exact St|apply keys_view; exact Ki|apply op_trace_keep]. }
      split; apply Y; assumption.
    + apply (op_inside_swap k _ _ _ _ _ _ H S Hlu St Kl Ku OK).
  - destruct OK as [CT [MT [Tl Tu]]]. split.
    + destruct (op_static k _ _ _ _ H S CT MT) as [evs [A [B [C D]]]].
      unfold tt_ok. assert (X : a_O (view k (r_rw rs') (cur_tick rs) dc0) = vmap k (rw_tt (r_rw rs'))) by reflexivity.
      rewrite <- X, A. split; [apply a_run_sorted; exact St|].
      assert (Y : forall i, ~ In i (touched rs o) -> tt_get (rw_tt (r_rw rs)) i <> None -> tt_get (rw_tt (r_rw rs')) i <> None).
      { intros i Ti Ki. apply (keys_view k (r_rw rs') (cur_tick rs) i). rewrite A.
        apply a_run_keys; [exact St|apply keys_view; exact Ki|apply D; exact Ti]. }
      split; apply Y; assumption.
    + unfold in_rng. apply (op_inside_static k _ _ _ _ _ _ H S CT MT Hlu St Kl Ku Tl Tu).
Qed.

Theorem growth_inside_telescopes : forall ops k rs l u, l < u -> tt_ok k rs l u -> hist_ok k rs ops l u ->
  a_inside (rview k (rrun rs ops)) l u = a_inside (rview k rs) l u + hist_growth k rs ops l u.
Proof.
  induction ops as [|o r IH]; intros k rs l u Hlu T H; simpl; [lia|]. destruct H as [H1 H2].
  destruct (op_step k rs o l u Hlu T H1) as [T' E]. rewrite (IH k _ l u Hlu T' H2), E. lia.
Qed.
