(* C08 / C01, incentive account, part 5: swaps.  A swap brings the uptime accumulators up to the block time at its first
   tick crossing (with the liquidity the pool had before the swap, which is the liquidity in range at that moment); later
   crossings of the same swap find them up to date. *)
From Coq Require Import ZArith List Bool Lia.
Import ListNotations.
From Osmo Require Import Base.DecModel CL.TickMath CL.CLMath CL.CLPool CL.CLSwap CL.CLStep
  CLR.Accum CLR.Rewards CLR.RSwap CLR.RStep C07.Base C07.TickLemmas C07.LP C07.SwapDir C07.Swap C07.Proofs C03.Rounding C03.Steps C03.Path
  C08.Proj C08.Telescope C08.View C08.Static C08.Stages C08.Ops C08.OpInside C08.SwapTrace C08.Crux
  C08.Claim C08.Conseq C08.Frame C08.Never C08.SwapWf C08.Dom C08.StaticOk C08.Paid C08.PaidOps C08.PaidSwap C08.PaidHist
  C08.IncAcc C08.Inc C08.IncList C08.IncStage C08.IncOps.
Open Scope Z_scope.

(* growth of uptime component (u, d) inside [l, h) along the replay of a swap's events *)
Fixpoint ugrow (u : nat) (d zfo : bool) (din pl now : Z) (w : rwd) (pending c : Z) (evs : list sev) (l h : Z) : Z :=
  match evs with
  | [] => 0
  | EvGrow g :: r => ugrow u d zfo din pl now w (pending + g) c r l h
  | EvMove t :: r => ugrow u d zfo din pl now w pending t r l h
  | EvCross i :: r =>
    match update_uptime w pl now with
    | Some w1 =>
      match cross_trackers w1 din pending i with
      | Some w2 => (if in_rng l h c then sel_G (CU u d) w1 - sel_G (CU u d) w else 0)
                   + ugrow u d zfo din pl now w2 pending (if zfo then i - 1 else i) r l h
      | None => 0
      end
    | None => 0
    end
  end.
(* the same, weighted by the liquidity in range *)
Fixpoint uval (u : nat) (d zfo : bool) (din pl now : Z) (w : rwd) (pending c : Z) (evs : list sev) (P : list position) : Z :=
  match evs with
  | [] => 0
  | EvGrow g :: r => uval u d zfo din pl now w (pending + g) c r P
  | EvMove t :: r => uval u d zfo din pl now w pending t r P
  | EvCross i :: r =>
    match update_uptime w pl now with
    | Some w1 =>
      match cross_trackers w1 din pending i with
      | Some w2 => (sel_G (CU u d) w1 - sel_G (CU u d) w) * sum_liq (f_range c) P
                   + uval u d zfo din pl now w2 pending (if zfo then i - 1 else i) r P
      | None => 0
      end
    | None => 0
    end
  end.

Lemma strace_growth_CU : forall u d zfo evs din w pl now pending w' p' c l h,
  apply_events w din pl now pending evs = Some (w', p') ->
  in_range_growth (view (CU u d) w c (dc_one din pending)) (strace (CU u d) zfo din w pl now pending evs) l h
    = ugrow u d zfo din pl now w pending c evs l h.
Proof.
  induction evs as [|e r IH]; intros din w pl now pending w' p' c l h H; [reflexivity|].
  destruct e as [g|i|t]; cbn [strace ugrow] in *; simpl in H.
  - destruct (dchk (pending + g)) as [p|] eqn:E; [|discriminate H]. apply dchk_some in E. subst p.
    cbn [in_range_growth grow_inside]. rewrite <- view_pend_grow. rewrite (IH _ _ _ _ _ _ _ c l h H). simpl. destruct (_ && _); lia.
  - destruct (update_uptime w pl now) as [w1|] eqn:E1; [|discriminate H].
    destruct (cross_trackers w1 din pending i) as [w2|] eqn:E2; [|discriminate H].
    destruct (update_uptime_tt _ _ _ _ E1) as [T _].
    assert (V1 : a_step (view (CU u d) w c (dc_one din pending)) (AGrow (sel_G (CU u d) w1 - sel_G (CU u d) w)) = view (CU u d) w1 c (dc_one din pending)).
    { unfold view. simpl. rewrite T. f_equal. lia. }
    cbn [in_range_growth]. rewrite V1. cbn [grow_inside].
    rewrite <- (cross_trackers_view (CU u d) _ _ _ _ _ c (if zfo then i - 1 else i) E2).
    rewrite (IH _ _ _ _ _ _ _ _ l h H). unfold in_rng. simpl. destruct ((l <=? c) && (c <? h)); lia.
  - cbn [in_range_growth grow_inside].
    assert (A : a_step (view (CU u d) w c (dc_one din pending)) (AMove t) = view (CU u d) w t (dc_one din pending)) by reflexivity.
    rewrite A, (IH _ _ _ _ _ _ _ _ l h H). reflexivity.
Qed.

Lemma zsum_zero : forall f P, (forall p, f p = 0) -> zsum f P = 0.
Proof. intros f P H. induction P as [|a P IH]; simpl; [reflexivity|]. rewrite H, IH. reflexivity. Qed.

Lemma zsum_ugrow : forall u d zfo din pl now P evs w pending c,
  zsum (fun p => ps_liq p * ugrow u d zfo din pl now w pending c evs (ps_lower p) (ps_upper p)) P = uval u d zfo din pl now w pending c evs P.
Proof.
  induction evs as [|e r IH]; intros w pending c; simpl.
  - apply zsum_zero; intro p; lia.
  - destruct e as [g|i|t]; [apply IH| |apply IH].
    destruct (update_uptime w pl now) as [w1|]; [|apply zsum_zero; intro p; lia].
    destruct (cross_trackers w1 din pending i) as [w2|]; [|apply zsum_zero; intro p; lia].
    rewrite <- IH, sum_liq_zsum', <- zsum_scale, <- zsum_plus. apply zsum_ext. intros p _.
    destruct (in_rng _ _ _); ring.
Qed.

(* ---------- the accumulators are brought up to date once ---------- *)
Lemma update_uptime_last : forall w liq now w', update_uptime w liq now = Some w' -> rw_last w' = now.
Proof.
  unfold update_uptime. intros w liq now w' H. destruct (now - rw_last w =? 0) eqn:E; [inversion H; subst; apply Z.eqb_eq in E; lia|].
  destruct (now - rw_last w <? 0); [discriminate H|]. obind H. inversion H; reflexivity.
Qed.
Lemma update_uptime_noop : forall w liq now, rw_last w = now -> update_uptime w liq now = Some w.
Proof. unfold update_uptime. intros w liq now H. rewrite H, Z.sub_diag. reflexivity. Qed.

(* the liquidity in range at the first crossing of the event list is L *)
Fixpoint FC (P : list position) (zfo : bool) (c : Z) (evs : list sev) (L : Z) : Prop :=
  match evs with
  | [] => True
  | EvGrow _ :: r => FC P zfo c r L
  | EvMove t :: r => FC P zfo t r L
  | EvCross _ :: _ => sum_liq (f_range c) P = L
  end.

Lemma apply_events_inc : forall d zfo din pl now P evs w pending c w' p',
  apply_events w din pl now pending evs = Some (w', p') -> recs_ok (rw_recs w) -> 0 < rw_inc_scaling w -> length (rw_up w) = NU ->
  rw_last w = now \/ FC P zfo c evs pl ->
  usum NU (fun u => uval u d zfo din pl now w pending c evs P) + remD d (rw_recs w') * rw_inc_scaling w <= remD d (rw_recs w) * rw_inc_scaling w /\
  recs_ok (rw_recs w') /\ rw_inc_scaling w' = rw_inc_scaling w /\ length (rw_up w') = NU /\ rw_next_inc w' = rw_next_inc w /\
  (forall u j, acc_get (acc_u u w') j = acc_get (acc_u u w) j).
Proof.
  induction evs as [|e r IH]; intros w pending c w' p' H OK Hi LN HF; simpl in H.
  - inversion H; subst. cbn [uval]. rewrite usum_zero. repeat split; try assumption; try lia.
  - destruct e as [g|i|t]; cbn [uval].
    + destruct (dchk (pending + g)) as [p|] eqn:E; [|discriminate H]. apply dchk_some in E. subst p. apply (IH _ _ _ _ _ H OK Hi LN HF).
    + destruct (update_uptime w pl now) as [w1|] eqn:E1; [|discriminate H].
      destruct (cross_trackers w1 din pending i) as [w2|] eqn:E2; [|discriminate H].
      destruct (cross_trackers_other _ _ _ _ _ E2) as [_ [UP2 [RC2 [LS2 [NI2 IS2]]]]].
      pose proof (update_uptime_last _ _ _ _ E1) as L1.
      destruct (update_uptime_spec _ _ _ _ d E1 OK Hi) as [TT [SP [IS [LU [PW [SM [OK' NI]]]]]]].
      assert (OK2 : recs_ok (rw_recs w2)) by (rewrite RC2; exact OK').
      assert (Hi2 : 0 < rw_inc_scaling w2) by (rewrite IS2, IS; exact Hi).
      assert (LN2 : length (rw_up w2) = NU) by (rewrite UP2, LU; exact LN).
      destruct (IH w2 pending (if zfo then i - 1 else i) w' p' H OK2 Hi2 LN2 (or_introl (eq_trans LS2 L1)))
        as [A [OKf [ISf [LNf [NIf RGf]]]]].
      rewrite IS2, IS in A. rewrite RC2 in A.
      assert (FIRST : usum NU (fun u => (sel_G (CU u d) w1 - sel_G (CU u d) w) * sum_liq (f_range c) P) + remD d (rw_recs w1) * rw_inc_scaling w
                      <= remD d (rw_recs w) * rw_inc_scaling w).
      { destruct HF as [LW|FCc].
        - rewrite (update_uptime_noop w pl now LW) in E1. inversion E1; subst w1.
          rewrite (usum_ext _ _ (fun _ => 0)) by (intros; lia). rewrite usum_zero. lia.
        - simpl in FCc. rewrite FCc. rewrite LN in SM.
          rewrite (usum_ext _ _ (fun u => pl * (sel_G (CU u d) w1 - sel_G (CU u d) w))) by (intros; lia). rewrite usum_scale. lia. }
      rewrite usum_plus. split; [lia|]. split; [exact OKf|]. split; [rewrite ISf, IS2, IS; reflexivity|]. split; [exact LNf|].
      split; [rewrite NIf, NI2, NI; reflexivity|].
      intros u j. rewrite RGf. unfold acc_u. rewrite UP2. unfold acc_get. destruct (PW u) as [AR _]. unfold acc_u in AR. rewrite AR. reflexivity.
    + apply (IH _ _ _ _ _ H OK Hi LN). destruct HF as [A|B0]; [left; exact A|right; exact B0].
Qed.

(* ---------- the liquidity in range at the first crossing of a swap is the pool's liquidity before the swap ---------- *)
Lemma update_fee_growth_liq_tick : forall sc st fee st1, update_fee_growth sc st fee = Some st1 -> ss_liq st1 = ss_liq st /\ ss_tick st1 = ss_tick st.
Proof.
  unfold update_fee_growth. intros sc st fee st1 H.
  destruct (if sc =? P18 then Some fee else dchk (d_mul_truncate fee sc)); [|discriminate H]. cbv beta iota in H.
  destruct (dchk (ss_fee st + fee)); [|discriminate H]. cbv beta iota in H.
  destruct (ss_liq st =? 0); [inversion H; subst; auto|].
  destruct (dchk (d_quo_truncate z (ss_liq st))); [|discriminate H]. cbv beta iota in H.
  destruct (dchk (ss_growth st + z1)); [|discriminate H]. inversion H; subst. auto.
Qed.

Lemma step_FC : forall s zfo sc st nt info rest nts computed dspec dcalc fee st' iter' evs L,
  after_step zfo true sc st ((nt, info) :: rest) nt info nts computed dspec dcalc fee = Some (st', iter') ->
  sum_liq (f_range (ss_tick st)) (s_pos s) = L -> ss_liq st = L ->
  (ss_liq st' = L -> FC (s_pos s) zfo (ss_tick st') evs L) ->
  FC (s_pos s) zfo (ss_tick st) (step_events zfo true sc st nt nts computed fee ++ evs) L.
Proof.
  intros s zfo sc st nt info rest nts computed dspec dcalc fee st' iter' evs L H HS HL HR.
  unfold after_step in H. unfold step_events.
  destruct (update_fee_growth sc st fee) as [st1|] eqn:E1; [|discriminate H]. cbv beta iota in H.
  destruct (update_fee_growth_liq_tick _ _ _ _ E1) as [LQ TK].
  destruct (dchk (ss_remaining st1 - dspec)) as [rem|]; [|discriminate H]. cbv beta iota in H.
  destruct (dchk (ss_calculated st1 + dcalc)) as [calc|]; [|discriminate H]. cbv beta iota in H.
  destruct (nts =? computed).
  - simpl. exact HS.
  - destruct (edge_case zfo nts computed); [discriminate H|]. destruct (negb (ss_sqrt st =? computed)).
    + destruct (calculate_sqrt_price_to_tick computed) as [t|]; [|discriminate H]. inversion H; subst st' iter'. simpl in *.
      apply HR. rewrite LQ. exact HL.
    + inversion H; subst st' iter'. simpl in *. rewrite TK in HR. apply HR. rewrite LQ. exact HL.
Qed.

Lemma eloop_out_FC : forall s fuel zfo sc limit st iter noprog st' evs, Inv s ->
  sqrt_price_limit zfo = Some limit -> LI s zfo st iter ->
  eloop_out_given_in fuel zfo true (p_spread (s_pool s)) sc limit st iter noprog = (Some st', evs) ->
  FC (s_pos s) zfo (ss_tick st) evs (ss_liq st).
Proof.
  intros s fuel. induction fuel as [|f IH]; intros zfo sc limit st iter noprog st' evs I HL L H; simpl in H; [discriminate H|].
  destruct ((smallest_dec <? ss_remaining st) && negb (ss_sqrt st =? limit)) eqn:Econd; [|inversion H; subst; exact Logic.I].
  apply andb_true_iff in Econd. destruct Econd as [Erem _]. apply Z.ltb_lt in Erem. unfold smallest_dec in Erem.
  destruct iter as [|[nt info] rest]; [discriminate H|].
  destruct (tick_to_sqrt_price nt) as [nts|] eqn:Snt; [|discriminate H].
  destruct (LI_facts s zfo st nt info rest nts I L Snt) as [Fl [Fr Fz]].
  rewrite (sqrt_target_next zfo limit nt nts HL Fr Snt) in H.
  destruct (compute_out_given_in zfo (p_spread (s_pool s)) (ss_sqrt st) nts (ss_liq st) (ss_remaining st)) as [[[[computed ain] aout] fee]|] eqn:EC; [|discriminate H].
  destruct (negb (progress_ok computed (ss_sqrt st) ain aout)); [discriminate H|].
  destruct (dchk (ain + fee)) as [infee|]; [|discriminate H].
  destruct (after_step zfo true sc st ((nt, info) :: rest) nt info nts computed infee aout fee) as [[st1 iter1]|] eqn:EA; [|discriminate H].
  pose proof L as L0. destruct L0 as [L1 [L2 _]].
  assert (Dir : computed = nts \/ computed = ss_sqrt st \/ dir_ok zfo (ss_sqrt st) computed).
  { destruct (compute_out_given_in_dir _ _ _ _ _ _ _ _ _ _ EC Fl L2 Erem (inv_spread s I) Fz) as [D|D]; [left; assumption|right; right; assumption]. }
  assert (L' : LI s zfo st1 iter1) by (eapply after_step_LI; try eassumption; reflexivity).
  assert (REC : forall np evs1 r1, eloop_out_given_in f zfo true (p_spread (s_pool s)) sc limit st1 iter1 np = (r1, evs1) ->
            (Some st', evs) = (r1, step_events zfo true sc st nt nts computed fee ++ evs1) -> FC (s_pos s) zfo (ss_tick st) evs (ss_liq st)).
  { intros np evs1 r1 EL EQ. inversion EQ; subst r1 evs.
    apply (step_FC s zfo sc st nt info rest nts computed infee aout fee st1 iter1 evs1 (ss_liq st) EA (eq_sym L1) eq_refl).
    intro LQ. rewrite <- LQ. eapply IH; eassumption. }
  destruct (ain =? 0).
  - destruct (swap_no_progress_limit <=? noprog); [discriminate H|].
    destruct (eloop_out_given_in f zfo true (p_spread (s_pool s)) sc limit st1 iter1 (noprog + 1)) as [r1 evs1] eqn:EL. apply (REC _ _ _ EL). symmetry. exact H.
  - destruct (eloop_out_given_in f zfo true (p_spread (s_pool s)) sc limit st1 iter1 noprog) as [r1 evs1] eqn:EL. apply (REC _ _ _ EL). symmetry. exact H.
Qed.

Lemma eloop_in_FC : forall s fuel zfo sc limit st iter noprog st' evs, Inv s ->
  sqrt_price_limit zfo = Some limit -> LI s zfo st iter ->
  eloop_in_given_out fuel zfo true (p_spread (s_pool s)) sc limit st iter noprog = (Some st', evs) ->
  FC (s_pos s) zfo (ss_tick st) evs (ss_liq st).
Proof.
  intros s fuel. induction fuel as [|f IH]; intros zfo sc limit st iter noprog st' evs I HL L H; simpl in H; [discriminate H|].
  destruct ((smallest_dec <? ss_remaining st) && negb (ss_sqrt st =? limit)) eqn:Econd; [|inversion H; subst; exact Logic.I].
  apply andb_true_iff in Econd. destruct Econd as [Erem _]. apply Z.ltb_lt in Erem. unfold smallest_dec in Erem.
  destruct iter as [|[nt info] rest]; [discriminate H|].
  destruct (tick_to_sqrt_price nt) as [nts|] eqn:Snt; [|discriminate H].
  destruct (LI_facts s zfo st nt info rest nts I L Snt) as [Fl [Fr Fz]].
  rewrite (sqrt_target_next zfo limit nt nts HL Fr Snt) in H.
  destruct (compute_in_given_out zfo (p_spread (s_pool s)) (ss_sqrt st) nts (ss_liq st) (ss_remaining st)) as [[[[computed aout] ain] fee]|] eqn:EC; [|discriminate H].
  destruct (negb (progress_ok computed (ss_sqrt st) ain aout)); [discriminate H|].
  destruct (dchk (ain + fee)) as [infee|]; [|discriminate H].
  destruct (after_step zfo true sc st ((nt, info) :: rest) nt info nts computed aout infee fee) as [[st1 iter1]|] eqn:EA; [|discriminate H].
  pose proof L as L0. destruct L0 as [L1 [L2 _]].
  assert (Dir : computed = nts \/ computed = ss_sqrt st \/ dir_ok zfo (ss_sqrt st) computed).
  { destruct (compute_in_given_out_dir _ _ _ _ _ _ _ _ _ _ EC Fl L2 Erem) as [D|D]; [left; assumption|right; right; assumption]. }
  assert (L' : LI s zfo st1 iter1) by (eapply after_step_LI; try eassumption; reflexivity).
  assert (REC : forall np evs1 r1, eloop_in_given_out f zfo true (p_spread (s_pool s)) sc limit st1 iter1 np = (r1, evs1) ->
            (Some st', evs) = (r1, step_events zfo true sc st nt nts computed fee ++ evs1) -> FC (s_pos s) zfo (ss_tick st) evs (ss_liq st)).
  { intros np evs1 r1 EL EQ. inversion EQ; subst r1 evs.
    apply (step_FC s zfo sc st nt info rest nts computed aout infee fee st1 iter1 evs1 (ss_liq st) EA (eq_sym L1) eq_refl).
    intro LQ. rewrite <- LQ. eapply IH; eassumption. }
  destruct (aout =? 0).
  - destruct (swap_no_progress_limit <=? noprog); [discriminate H|].
    destruct (eloop_in_given_out f zfo true (p_spread (s_pool s)) sc limit st1 iter1 (noprog + 1)) as [r1 evs1] eqn:EL. apply (REC _ _ _ EL). symmetry. exact H.
  - destruct (eloop_in_given_out f zfo true (p_spread (s_pool s)) sc limit st1 iter1 noprog) as [r1 evs1] eqn:EL. apply (REC _ _ _ EL). symmetry. exact H.
Qed.

Theorem swap_events_FC : forall s ei zfo amt evs, Inv s -> swap_events s ei zfo amt = Some evs ->
  FC (s_pos s) zfo (p_tick (s_pool s)) evs (p_liq (s_pool s)).
Proof.
  unfold swap_events. intros s ei zfo amt evs I H.
  destruct (swap_setup s zfo) as [[limit iter]|] eqn:ES; [|discriminate H]. simpl in H.
  destruct (swap_setup_LI s zfo limit iter (d_from_int amt) I ES) as [HL [_ L]].
  destruct ei.
  - destruct (eloop_out_given_in _ _ _ _ _ _ _ _ _) as [r evs1] eqn:EL. destruct r as [st|]; [|discriminate H]. inversion H; subst.
    apply (eloop_out_FC _ _ _ _ _ _ _ _ _ _ I HL L EL).
  - destruct (eloop_in_given_out _ _ _ _ _ _ _ _ _) as [r evs1] eqn:EL. destruct r as [st|]; [|discriminate H]. inversion H; subst.
    apply (eloop_in_FC _ _ _ _ _ _ _ _ _ _ I HL L EL).
Qed.

(* ---------- the operation ---------- *)
Lemma update_pool_for_swap_binc : forall s sender zfo r s', update_pool_for_swap s sender zfo r = Some s' ->
  b_inc (s_bank s') = b_inc (s_bank s).
Proof.
  intros s sender zfo r s' H. unfold update_pool_for_swap in H. cbv zeta in H.
  destruct (sr_in r - d_truncate_int (d_ceil (sr_fee r)) <=? 0); [discriminate H|].
  destruct (user_bal (s_bank s) sender); [|discriminate H]. cbv beta iota in H.
  destruct (pick zfo (sr_in r - d_truncate_int (d_ceil (sr_fee r)))) as [i0 i1] eqn:EPi.
  destruct (send_user_to_pool (s_bank s) sender i0 i1) as [b1|] eqn:E1; [|discriminate H]. cbv beta iota in H.
  match type of H with (do b2 <- ?X; _) = _ => destruct X as [b2|] eqn:E2; [|discriminate H] end. cbv beta iota in H.
  destruct (sr_out r <=? 0); [discriminate H|].
  destruct (pick (negb zfo) (sr_out r)) as [o0 o1] eqn:EPo.
  destruct (send_pool_to_user b2 sender o0 o1) as [b3|] eqn:E3; [|discriminate H]. cbv beta iota in H.
  match type of H with (if ?b then None else _) = _ => destruct b; [discriminate H|] end.
  inversion H; subst. simpl.
  rewrite (send_pool_to_user_binc _ _ _ _ _ E3).
  assert (B2 : b_inc b2 = b_inc b1).
  { destruct (d_truncate_int (d_ceil (sr_fee r)) =? 0); [inversion E2; reflexivity|].
    destruct (user_bal b1 sender) as [ub1|]; [|discriminate E2]. cbv beta iota in E2.
    destruct (pick zfo (d_truncate_int (d_ceil (sr_fee r)))) as [f0 f1].
    destruct ((fst ub1 <? f0) || (snd ub1 <? f1)); [discriminate E2|]. inversion E2; subst. reflexivity. }
  rewrite B2. apply (send_user_to_pool_binc _ _ _ _ _ E1).
Qed.

Lemma swap_base_facts : forall rs o rs' res, rhandler rs o = Some (rs', res) -> is_swap o = true ->
  exists ei zfo amt evs, swap_args o = Some (ei, zfo, amt) /\ swap_events (r_base rs) ei zfo amt = Some evs /\
    swap_rewards (r_rw rs) (r_base rs) ei zfo amt (s_time (r_base rs)) = Some (r_rw rs') /\
    s_pos (r_base rs') = s_pos (r_base rs) /\ s_next_id (r_base rs') = s_next_id (r_base rs) /\
    b_inc (s_bank (r_base rs')) = b_inc (s_bank (r_base rs)).
Proof.
  intros rs o rs' res H S.
  destruct o as [b|? ?|? ?|? ? ? ? ? ?]; simpl in S; try discriminate S.
  destruct b as [? ? ? ? ? ? ?|? ? ?|? ? ? ? ? ?|? ? ?|sender zfo amt mo|sender zfo amt mi|?]; simpl in S; try discriminate S.
  - simpl in H. unfold r_swap_in in H.
    destruct (swap_exact_in (r_base rs) sender zfo amt mo) as [[s' out]|] eqn:E1; [|discriminate H]. simpl in H.
    destruct (swap_rewards (r_rw rs) (r_base rs) true zfo amt (s_time (r_base rs))) as [w|] eqn:E2; [|discriminate H].
    inversion H; subst rs' res. clear H.
    destruct (swap_events (r_base rs) true zfo amt) as [evs|] eqn:E3; [|unfold swap_rewards in E2; rewrite E3 in E2; discriminate E2].
    exists true, zfo, amt, evs. split; [reflexivity|]. split; [exact E3|]. split; [exact E2|]. simpl.
    unfold swap_exact_in in E1. destruct (negb (0 <? amt) || negb (0 <? mo)); [discriminate E1|].
    destruct (compute_out_amt_given_in (r_base rs) zfo true amt) as [r0|]; [|discriminate E1]. cbv beta iota in E1.
    destruct (negb (0 <? sr_out r0)); [discriminate E1|].
    destruct (update_pool_for_swap (r_base rs) sender zfo r0) as [s1|] eqn:EU; [|discriminate E1]. cbv beta iota in E1.
    destruct (sr_out r0 <? mo); [discriminate E1|]. inversion E1; subst s1 out.
    destruct (update_pool_for_swap_bspread _ _ _ _ _ EU) as [_ [SP [NX _]]]. split; [exact SP|]. split; [exact NX|].
    apply (update_pool_for_swap_binc _ _ _ _ _ EU).
  - simpl in H. unfold r_swap_out in H.
    destruct (swap_exact_out (r_base rs) sender zfo amt mi) as [[s' tin]|] eqn:E1; [|discriminate H]. simpl in H.
    destruct (swap_rewards (r_rw rs) (r_base rs) false zfo amt (s_time (r_base rs))) as [w|] eqn:E2; [|discriminate H].
    inversion H; subst rs' res. clear H.
    destruct (swap_events (r_base rs) false zfo amt) as [evs|] eqn:E3; [|unfold swap_rewards in E2; rewrite E3 in E2; discriminate E2].
    exists false, zfo, amt, evs. split; [reflexivity|]. split; [exact E3|]. split; [exact E2|]. simpl.
    unfold swap_exact_out in E1. destruct (negb (0 <? amt) || negb (0 <? mi)); [discriminate E1|].
    destruct (compute_in_amt_given_out (r_base rs) zfo true amt) as [r0|]; [|discriminate E1]. cbv beta iota in E1.
    destruct (negb (0 <? sr_in r0)); [discriminate E1|].
    destruct (update_pool_for_swap (r_base rs) sender zfo r0) as [s1|] eqn:EU; [|discriminate E1]. cbv beta iota in E1.
    destruct (mi <? sr_in r0); [discriminate E1|]. inversion E1; subst s1 tin.
    destruct (update_pool_for_swap_bspread _ _ _ _ _ EU) as [_ [SP [NX _]]]. split; [exact SP|]. split; [exact NX|].
    apply (update_pool_for_swap_binc _ _ _ _ _ EU).
Qed.

Theorem inc_swap : forall rs o rs' res d, PII rs -> rhandler rs o = Some (rs', res) -> is_swap o = true ->
  PII rs' /\ isc_of rs' = isc_of rs /\ PhiI d rs' <= PhiI d rs.
Proof.
  intros rs o rs' res d [RI [[OK [Hi [LN [HPT HRM]]]] FR]] H S.
  pose proof (rinv_handler _ _ _ _ H RI) as RI'. pose proof RI as [I [D _]].
  destruct (swap_base_facts _ _ _ _ H S) as [ei [zfo [amt [evs [SA [HE [HW [SP [NX BI]]]]]]]]].
  unfold swap_rewards in HW. rewrite HE in HW. cbv beta iota in HW.
  destruct (apply_events (r_rw rs) (if zfo then 0 else 1) (p_liq (s_pool (r_base rs))) (s_time (r_base rs)) 0 evs) as [[w1 pending]|] eqn:EA; [|discriminate HW].
  cbv beta iota in HW. destruct (acc_add_to (rw_spread w1) _) as [a|]; [|discriminate HW]. inversion HW as [EW]. clear HW.
  set (P := s_pos (r_base rs)) in *. set (cur := cur_tick rs). set (pl := p_liq (s_pool (r_base rs))) in *. set (now := s_time (r_base rs)) in *.
  change (if zfo then 0 else 1) with (denom_in zfo) in EA.
  pose proof (swap_events_FC _ _ _ _ _ I HE) as HFC. fold P pl in HFC.
  destruct (apply_events_inc d zfo (denom_in zfo) pl now P evs (r_rw rs) 0 cur w1 pending EA OK Hi LN (or_intror HFC))
    as [AV [OK1 [IS1 [LN1 [NI1 RG1]]]]].
  assert (UP' : rw_up (r_rw rs') = rw_up w1 /\ rw_recs (r_rw rs') = rw_recs w1 /\ rw_inc_scaling (r_rw rs') = rw_inc_scaling w1) by (rewrite <- EW; simpl; auto).
  destruct UP' as [UP' [RC' IS']].
  assert (RG' : forall u j, acc_get (acc_u u (r_rw rs')) j = acc_get (acc_u u (r_rw rs)) j) by (intros u j; unfold acc_u; rewrite UP'; apply RG1).
  assert (OW : OwedI d (r_rw rs') (cur_tick rs') P = OwedI d (r_rw rs) cur P + usum NU (fun u => uval u d zfo (denom_in zfo) pl now (r_rw rs) 0 cur evs P)).
  { unfold OwedI. rewrite <- usum_plus. apply usum_ext. intros u Hu. rewrite <- zsum_ugrow, <- zsum_plus. apply zsum_ext. intros p Hp.
    destruct (HPT p Hp) as [Hlu [St [Kl Ku]]].
    pose proof (swap_op_wf (CU u d) rs o rs' res I D H S) as W.
    pose proof (op_inside_swap (CU u d) rs o rs' res _ _ H S Hlu (vmap_sorted_any _ _ _ St) Kl Ku W) as INS.
    assert (TR : in_range_growth (rview (CU u d) rs) (op_trace (CU u d) rs o) (ps_lower p) (ps_upper p)
                 = ugrow u d zfo (denom_in zfo) pl now (r_rw rs) 0 cur evs (ps_lower p) (ps_upper p)).
    { unfold op_trace. rewrite SA, HE. unfold rview.
      replace dc0 with (dc_one (denom_in zfo) 0) by (unfold dc_one, denom_in; destruct zfo; reflexivity).
      apply (strace_growth_CU u d zfo evs (denom_in zfo) (r_rw rs) pl now 0 w1 pending _ _ _ EA). }
    rewrite TR in INS.
    rewrite (owedU_frame u d (r_rw rs) (r_rw rs') cur (cur_tick rs') p _ (RG' u _) INS).
    rewrite (RMU_shares _ P u p HRM Hu Hp). ring. }
  split; [|split].
  - split; [exact RI'|]. split.
    + split; [rewrite RC'; exact OK1|]. split; [rewrite IS', IS1; exact Hi|]. split; [rewrite UP'; exact LN1|]. split; [apply PI_PT; exact RI'|].
      intros u p Hu Hp. rewrite SP in Hp. rewrite RG'. apply HRM; assumption.
    + intros u j Hj. rewrite RG'. apply FR. rewrite <- NX. exact Hj.
  - unfold isc_of. rewrite IS', IS1. reflexivity.
  - unfold PhiI, OwedInc, inc_bal, isc_of. rewrite SP, BI. fold P. rewrite OW, RC', IS', IS1. fold cur. lia.
Qed.
