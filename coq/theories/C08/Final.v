(* C08: the consequences over histories, with all side conditions discharged from the invariants (C08/Dom.v RInv, which
   holds in every state reachable from a fresh pool). *)
From Coq Require Import ZArith List Bool Lia.
Import ListNotations.
From Osmo Require Import Base.DecModel CL.TickMath CL.CLMath CL.CLPool CL.CLSwap CL.CLStep
  CLR.Accum CLR.Rewards CLR.RSwap CLR.RStep C07.Base C07.TickLemmas C07.LP C07.Swap C07.Proofs
  C08.Proj C08.Telescope C08.View C08.Static C08.Stages C08.Ops C08.OpInside C08.SwapTrace C08.Crux C08.Claim C08.Conseq
  C08.Frame C08.Never C08.SwapWf C08.Dom C08.StaticOk.
Open Scope Z_scope.

(* the ticks the running swap is at when its events happen *)
Fixpoint ticks_visited (zfo : bool) (c : Z) (evs : list sev) : list Z :=
  match evs with
  | [] => [c]
  | EvGrow _ :: r => ticks_visited zfo c r
  | EvCross i :: r => c :: ticks_visited zfo (if zfo then i - 1 else i) r
  | EvMove t :: r => c :: ticks_visited zfo t r
  end.

Lemma strace_out_of_range : forall k zfo evs din w pl now pending c l u,
  (forall c', In c' (ticks_visited zfo c evs) -> in_rng l u c' = false) ->
  in_range_growth (view k w c (dc_one din pending)) (strace k zfo din w pl now pending evs) l u = 0.
Proof.
  induction evs as [|e r IH]; intros din w pl now pending c l u H; [reflexivity|]. destruct e as [g|i|t]; cbn [strace ticks_visited] in *.
  - cbn [in_range_growth grow_inside]. rewrite <- view_pend_grow. rewrite (IH _ _ _ _ _ _ _ _ H).
    assert (X : in_rng l u c = false).
    { apply H. clear. induction r as [|e r IHr]; simpl; [auto|]. destruct e; simpl; auto. }
    unfold in_rng in X. simpl. rewrite X. reflexivity.
  - destruct (update_uptime w pl now) as [w1|] eqn:E1; [|reflexivity].
    destruct (cross_trackers w1 din pending i) as [w2|] eqn:E2; [|reflexivity].
    destruct (update_uptime_tt _ _ _ _ E1) as [T _].
    assert (V1 : a_step (view k w c (dc_one din pending)) (AGrow (sel_G k w1 - sel_G k w)) = view k w1 c (dc_one din pending)).
    { unfold view. simpl. rewrite T. f_equal. lia. }
    cbn [in_range_growth]. rewrite V1. cbn [grow_inside].
    rewrite <- (cross_trackers_view k _ _ _ _ _ c (if zfo then i - 1 else i) E2).
    rewrite (IH _ _ _ _ _ _ _ _ (fun c' Hc => H c' (or_intror Hc))).
    assert (X : in_rng l u c = false) by (apply H; left; reflexivity). unfold in_rng in X. simpl. rewrite X. reflexivity.
  - cbn [in_range_growth grow_inside]. assert (A : a_step (view k w c (dc_one din pending)) (AMove t) = view k w t (dc_one din pending)) by reflexivity.
    rewrite A, (IH _ _ _ _ _ _ _ _ (fun c' Hc => H c' (or_intror Hc))). reflexivity.
Qed.

(* the current tick is outside [l, u) at every operation and at every step inside every swap *)
Definition op_outside (rs : rstate) (o : rop) (l u : Z) : Prop :=
  match rstep rs o with
  | (_, Some _) =>
      match swap_args o with
      | Some (ei, zfo, amt) =>
          match swap_events (r_base rs) ei zfo amt with
          | Some evs => forall c', In c' (ticks_visited zfo (cur_tick rs) evs) -> in_rng l u c' = false
          | None => True
          end
      | None => in_rng l u (cur_tick rs) = false
      end
  | (_, None) => True
  end.
Fixpoint hist_outside (rs : rstate) (ops : list rop) (l u : Z) : Prop :=
  match ops with [] => True | o :: r => op_outside rs o l u /\ hist_outside (fst (rstep rs o)) r l u end.

Lemma is_swap_args : forall o, is_swap o = true <-> swap_args o <> None.
Proof. intro o. destruct o as [b| | |]; simpl; try (split; [discriminate|congruence]). destruct b; simpl; split; try discriminate; congruence. Qed.

Lemma livep_live : forall s id l u, livep s id l u -> exists L, exists q, pos_get (s_pos s) id = Some q /\ ps_lower q = l /\ ps_upper q = u /\ ps_liq q = L.
Proof. intros s id l u [q [Q [A B]]]. exists (ps_liq q), q. auto. Qed.

Lemma hist_never_of_live : forall ops rs id l u, RInv rs -> live_through rs ops id l u -> hist_outside rs ops l u ->
  hist_never rs ops id l u.
Proof.
  induction ops as [|o r IH]; intros rs id l u RI LT HO; simpl; [exact Logic.I|]. destruct LT as [LV LT]. destruct HO as [OO HO].
  split; [|eapply IH; [apply rinv_step; exact RI|exact LT|exact HO]].
  split; [apply RI|]. pose proof (live_through_head _ _ _ _ _ LT) as LV'.
  assert (OK : forall d, op_ok (CS d) rs o l u) by (intro d; eapply op_ok_of_live; [exact RI|exact LV|exact LV']).
  unfold op_outside in OO. destruct (rstep rs o) as [rs' [res|]] eqn:ER; [|exact Logic.I]. simpl in LV'.
  split; [destruct (livep_live _ _ _ _ LV') as [L' X]; exists L'; exact X|].
  split; [exact OK|].
  destruct (is_swap o) eqn:S.
  - intro d. unfold op_trace. destruct (swap_args o) as [[[ei zfo] amt]|]; [|reflexivity].
    destruct (swap_events (r_base rs) ei zfo amt) as [evs|]; [|reflexivity].
    unfold rview. replace dc0 with (dc_one (denom_in zfo) 0) by (unfold dc_one, denom_in; destruct zfo; reflexivity).
    apply strace_out_of_range. exact OO.
  - destruct (swap_args o) eqn:SA; [|exact OO]. exfalso. assert (X : swap_args o <> None) by congruence. apply is_swap_args in X. congruence.
Qed.

(* NEVER_IN_RANGE_EARNS_ZERO (spread rewards), in any state satisfying the invariants: a position that stays open through a
   history during which the current tick is never inside its range - not at any operation, not at any step of any swap -
   and whose spread-reward record claims nothing at the start, claims nothing at the end, whatever was done to it or to
   others in between *)
Theorem never_in_range_earns_zero_live : forall ops rs id l u c, RInv rs -> live_through rs ops id l u -> hist_outside rs ops l u ->
  zero_rec rs id l u -> claimable_spread (rrun rs ops) id = Some c -> c = (0, 0).
Proof.
  intros ops rs id l u c RI LT HO ZR HC.
  destruct (has_range_tt_ok (CS false) rs l u RI (livep_has_range _ _ _ _ (live_through_head _ _ _ _ _ LT))) as [T Hlu].
  eapply never_in_range_claims_nothing; [exact Hlu|exact ZR| |eapply hist_never_of_live; eassumption|exact HC].
  destruct T as [A [B C]]. split; [exact A|auto].
Qed.

(* a position that was just created claims nothing: its record is (liquidity, growth inside now, nothing unclaimed) *)
Theorem create_zero_rec : forall rs owner a0 a1 m0 m1 lo hi rs' c, RInv rs ->
  r_create rs owner a0 a1 m0 m1 lo hi = Some (rs', c) -> acc_get (rw_spread (r_rw rs)) (cr_id c) = None ->
  zero_rec rs' (cr_id c) (cr_lower c) (cr_upper c).
Proof.
  intros rs owner a0 a1 m0 m1 lo hi rs' c [I [D S]] H NR. pose proof (r_create_base _ _ _ _ _ _ _ _ _ _ H) as B.
  destruct (create_position_spec _ _ _ _ _ _ _ _ _ _ I B) as [I' [_ [CI [SP [_ [LP _]]]]]].
  assert (EW : exists w, update_position_rewards (r_rw rs) (cur_tick rs') (p_liq (s_pool (r_base rs))) (s_time (r_base rs))
                           (cr_lower c) (cr_upper c) (cr_id c) (cr_liq c) (cr_liq c) = Some w /\ r_rw rs' = w).
  { unfold r_create in H. destruct (create_position _ _ _ _ _ _ _ _) as [[s2 c2]|]; [|discriminate H]. simpl in H.
    match type of H with (do w <- ?X; _) = _ => destruct X as [w|] eqn:E; [|discriminate H] end. inversion H; subst. simpl. eauto. }
  destruct EW as [w [E EW]]. unfold update_position_rewards in E.
  destruct (ensure_tick (r_rw rs) (cur_tick rs') (p_liq (s_pool (r_base rs))) (s_time (r_base rs)) (cr_lower c)) as [w1|] eqn:E1; [|discriminate E]. simpl in E.
  destruct (ensure_tick w1 (cur_tick rs') (p_liq (s_pool (r_base rs))) (s_time (r_base rs)) (cr_upper c)) as [w2|] eqn:E2; [|discriminate E]. simpl in E.
  destruct (init_or_update_uptime w2 (cur_tick rs') (p_liq (s_pool (r_base rs))) (s_time (r_base rs)) (cr_lower c) (cr_upper c) (cr_id c) (cr_liq c) (cr_liq c)) as [w3|] eqn:E3; [|discriminate E]. simpl in E.
  assert (SP3 : rw_spread w3 = rw_spread (r_rw rs)).
  { rewrite (init_or_update_uptime_spread _ _ _ _ _ _ _ _ _ _ E3), (ensure_tick_spread _ _ _ _ _ _ E2), (ensure_tick_spread _ _ _ _ _ _ E1). reflexivity. }
  unfold init_or_update_spread in E.
  destruct (spread_growth_outside w3 (cur_tick rs') (cr_lower c) (cr_upper c)) as [out|] eqn:EO; [|discriminate E]. simpl in E.
  destruct (dc_safe_sub (ac_value (rw_spread w3)) out) as [ins|] eqn:EI; [|discriminate E]. simpl in E.
  unfold acc_has in E. rewrite SP3, NR in E. simpl in E.
  destruct (negb (0 <? cr_liq c)); [discriminate E|].
  destruct (acc_new_position (rw_spread (r_rw rs)) (cr_id c) (cr_liq c) ins) as [a'|] eqn:EN; [|discriminate E]. inversion E as [EQW]. clear E. rewrite <- EQW in EW. clear EQW.
  exists (cr_liq c), (mkARec (cr_liq c) ins dc0).
  split; [exists (mkPos (s_next_id (r_base rs)) owner (cr_lower c) (cr_upper c) (cr_liq c) (s_time (r_base rs))); rewrite SP, pos_get_set; simpl; rewrite CI, Z.eqb_refl; auto|].
  split; [exact LP|]. rewrite EW. simpl.
  split; [unfold acc_new_position in EN; obind EN; inversion EN; subst; unfold acc_get; simpl; rewrite rec_get_set, Z.eqb_refl; reflexivity|].
  split; [reflexivity|]. split; [reflexivity|]. intro d. simpl.
  rewrite <- SP3 in EN. rewrite (spread_growth_inside_view d _ _ _ _ _ _ EO EI).
  unfold rview. rewrite EW. apply f_equal3; try reflexivity. apply view_same; [reflexivity|]. simpl.
  rewrite (acc_new_position_value _ _ _ _ _ EN). reflexivity.
Qed.
