(* C08: evolution of the abstract machine at a FIXED current tick: growth events, initialisation and removal of ticks
   (every operation of the pool except a swap is of this kind), and what it does to growth inside. *)
From Coq Require Import ZArith List Bool Lia.
Import ListNotations.
From Osmo Require Import C08.Telescope.
Open Scope Z_scope.

Lemma a_run_app : forall e1 e2 s, a_run s (e1 ++ e2) = a_run (a_run s e1) e2.
Proof. induction e1 as [|e r IH]; intros; simpl; [reflexivity|apply IH]. Qed.
Lemma evs_wf_app : forall e1 e2 s, evs_wf s (e1 ++ e2) <-> evs_wf s e1 /\ evs_wf (a_run s e1) e2.
Proof. induction e1 as [|e r IH]; intros; simpl; [tauto|]. rewrite IH. tauto. Qed.
Lemma evs_keep_app : forall e1 e2 i, evs_keep (e1 ++ e2) i <-> evs_keep e1 i /\ evs_keep e2 i.
Proof. induction e1 as [|e r IH]; intros; simpl; [tauto|]. rewrite IH. tauto. Qed.
Lemma in_range_growth_app : forall e1 e2 s l u,
  in_range_growth s (e1 ++ e2) l u = in_range_growth s e1 l u + in_range_growth (a_run s e1) e2 l u.
Proof. induction e1 as [|e r IH]; intros; simpl; [reflexivity|]. rewrite IH. lia. Qed.
Lemma a_run_sorted : forall evs s, tm_sorted (a_O s) -> tm_sorted (a_O (a_run s evs)).
Proof. induction evs as [|e r IH]; intros s S; simpl; [assumption|]. apply IH. apply step_sorted. assumption. Qed.

(* events that do not move the current tick *)
Definition ev_static (e : aev) : Prop := match e with AGrow _ | AInit _ | ARemove _ => True | _ => False end.
Fixpoint evs_static (evs : list aev) : Prop := match evs with [] => True | e :: r => ev_static e /\ evs_static r end.
Lemma evs_static_app : forall e1 e2, evs_static (e1 ++ e2) <-> evs_static e1 /\ evs_static e2.
Proof. induction e1 as [|e r IH]; intros; simpl; [tauto|]. rewrite IH. tauto. Qed.

Lemma static_c : forall evs s, evs_static evs -> a_c (a_run s evs) = a_c s.
Proof.
  induction evs as [|e r IH]; intros s H; simpl; [reflexivity|]. destruct H as [H1 H2]. rewrite IH by assumption.
  destruct e; simpl in *; tauto.
Qed.

(* at a fixed tick, growth inside changes by the whole growth of G when the tick is in range, by nothing otherwise *)
Lemma static_in_range_growth : forall evs s l u, evs_static evs ->
  in_range_growth s evs l u = if (l <=? a_c s) && (a_c s <? u) then a_G (a_run s evs) - a_G s else 0.
Proof.
  induction evs as [|e r IH]; intros s l u H; simpl.
  - destruct (_ && _); lia.
  - destruct H as [H1 H2]. rewrite IH by assumption.
    assert (C : a_c (a_step s e) = a_c s) by (destruct e; simpl in *; tauto). rewrite C.
    pose proof (step_G s e) as G. destruct e; simpl in *; try tauto; destruct (_ && _); lia.
Qed.

Theorem static_inside : forall evs s l u, l < u -> tm_sorted (a_O s) -> keys s l -> keys s u ->
  evs_static evs -> evs_wf s evs -> evs_keep evs l -> evs_keep evs u ->
  a_inside (a_run s evs) l u =
    a_inside s l u + (if (l <=? a_c s) && (a_c s <? u) then a_G (a_run s evs) - a_G s else 0).
Proof.
  intros. rewrite a_telescope by assumption. rewrite static_in_range_growth by assumption. reflexivity.
Qed.

(* static events are well-formed as soon as ticks are only initialised when absent *)
Definition ev_init_fresh (s : astate) (e : aev) : Prop := match e with AInit i => ~ keys s i | _ => True end.
Lemma static_wf_step : forall s e, ev_static e -> ev_init_fresh s e -> ev_wf s e.
Proof. intros s e H F. destruct e; simpl in *; tauto. Qed.
