(* C08 / C01, incentive account, part 6: every operation, every history, and the conclusion: in every reachable state the
   incentives all open positions can claim (collected + forfeitable), plus the whole units the incentive records still have
   to emit, are covered by the incentive account. *)
From Coq Require Import ZArith List Bool Lia.
Import ListNotations.
From Osmo Require Import Base.DecModel CL.TickMath CL.CLMath CL.CLPool CL.CLSwap CL.CLStep
  CLR.Accum CLR.Rewards CLR.RSwap CLR.RStep C07.Base C07.TickLemmas C07.LP C07.Swap C07.Proofs C03.Steps
  C08.Proj C08.Telescope C08.View C08.Static C08.Stages C08.Ops C08.OpInside C08.SwapTrace C08.Crux
  C08.Claim C08.Conseq C08.Frame C08.Never C08.SwapWf C08.Dom C08.StaticOk C08.Paid C08.PaidOps C08.PaidSwap C08.PaidHist
  C08.IncAcc C08.Inc C08.IncList C08.IncStage C08.IncOps C08.IncSwap.
Open Scope Z_scope.

Lemma r_collect_spread_loop_inc : forall ids rs owner tot rs' c, r_collect_spread_loop rs owner ids tot = Some (rs', c) ->
  rw_up (r_rw rs') = rw_up (r_rw rs) /\ rw_recs (r_rw rs') = rw_recs (r_rw rs) /\ rw_inc_scaling (r_rw rs') = rw_inc_scaling (r_rw rs) /\
  b_inc (s_bank (r_base rs')) = b_inc (s_bank (r_base rs)).
Proof.
  induction ids as [|id' rest IH]; intros rs owner tot rs' c H; simpl in H; [inversion H; auto|].
  destruct (pos_get (s_pos (r_base rs)) id') as [q|]; [|discriminate H].
  destruct (negb (ps_owner q =? owner)); [discriminate H|].
  destruct (collect_spread_rewards _ _ _ _ q) as [[[b w] x]|] eqn:E; [|discriminate H].
  destruct (IH _ _ _ _ _ H) as [A [B0 [C D]]]. simpl in A, B0, C, D. rewrite A, B0, C, D.
  unfold collect_spread_rewards in E.
  destruct (prepare_claimable_spread _ _ _ _ _ _) as [[w5 c5]|] eqn:EPC; [|discriminate E]. cbv beta iota in E.
  destruct (prepare_claimable_spread_up _ _ _ _ _ _ _ _ EPC) as [UP4 [RC4 [IS4 _]]].
  destruct ((fst c5 =? 0) && (snd c5 =? 0)); [inversion E; subst; auto|].
  destruct (send_spread_to_user _ _ _ _) as [bb|] eqn:ES; [|discriminate E]. inversion E; subst.
  repeat split; try assumption. eapply send_spread_to_user_binc; exact ES.
Qed.

(* the number of MulDec (half-even) roundings of incentives an operation performs, in units of the number of uptime accumulators *)
Definition icost (o : rop) : Z :=
  match o with
  | RBase (OCreate _ _ _ _ _ _ _) => 1
  | RBase (OWithdraw _ _ _) => 2
  | RBase (OAdd _ _ _ _ _ _) => 3
  | RCollectInc _ ids => Z.of_nat (length ids)
  | _ => 0
  end.
Lemma icost_nonneg : forall o, 0 <= icost o.
Proof. intros [[| | | | | |]| | |]; simpl; lia. Qed.

Theorem inc_handler : forall rs o rs' r d, PII rs -> rhandler rs o = Some (rs', r) ->
  PII rs' /\ isc_of rs' = isc_of rs /\ PhiI d rs' <= PhiI d rs + icost o * (Z.of_nat NU * P18).
Proof.
  intros rs o rs' r d HPI H. pose proof HPI as [RI _]. pose proof (rinv_handler _ _ _ _ H RI) as RI'. pose proof P18_pos as HP.
  destruct o as [b|owner ids|owner ids|sender denom amount rate dt uu].
  - destruct b as [owner a0 a1 m0 m1 lo hi|owner id liq|owner id a0 a1 m0 m1|sender ids recipient|sender zfo amt mo|sender zfo amt mi|dt].
    + simpl in H. destruct (r_create rs owner a0 a1 m0 m1 lo hi) as [[rs1 c]|] eqn:E; [|discriminate H]. inversion H; subst.
      destruct (inc_create _ _ _ _ _ _ _ _ _ _ d HPI E) as [A [B C]]. split; [exact A|]. split; [exact B|]. simpl icost. lia.
    + simpl in H. destruct (r_withdraw rs owner id liq) as [[rs1 [x0 x1]]|] eqn:E; [|discriminate H]. inversion H; subst.
      destruct (inc_withdraw _ _ _ _ _ _ d HPI E) as [A [B C]]. split; [exact A|]. split; [exact B|]. simpl icost. lia.
    + simpl in H. destruct (r_add rs owner id a0 a1 m0 m1) as [[rs1 [[nid y0] y1]]|] eqn:E; [|discriminate H]. inversion H; subst.
      assert (QX : exists q, pos_get (s_pos (r_base rs)) id = Some q).
      { unfold r_add in E. destruct (id <=? 0); [discriminate E|].
        destruct ((a0 <? 0) || (a1 <? 0) || (m0 <? 0) || (m1 <? 0)); [discriminate E|].
        destruct (pos_get (s_pos (r_base rs)) id) as [q|]; [eauto|discriminate E]. }
      destruct QX as [q Q]. destruct (r_add_split _ _ _ _ _ _ _ _ _ _ E Q) as [rs1 [w0 [w1 [m0' [m1' [cr [EW EC]]]]]]].
      destruct (inc_withdraw _ _ _ _ _ _ d HPI EW) as [A1 [B1 C1]].
      destruct (inc_create _ _ _ _ _ _ _ _ _ _ d A1 EC) as [A2 [B2 C2]].
      split; [exact A2|]. split; [rewrite B2; exact B1|]. simpl icost. lia.
    + simpl in H. destruct (transfer_positions (r_base rs) sender ids recipient) as [s'|] eqn:E; [|discriminate H]. inversion H; subst.
      destruct (inc_transfer _ _ _ _ _ d HPI E) as [A [B C]]. split; [exact A|]. split; [exact B|]. rewrite C. simpl icost. lia.
    + destruct (inc_swap _ _ _ _ d HPI H eq_refl) as [A [B C]]. split; [exact A|]. split; [exact B|]. simpl icost. lia.
    + destruct (inc_swap _ _ _ _ d HPI H eq_refl) as [A [B C]]. split; [exact A|]. split; [exact B|]. simpl icost. lia.
    + simpl in H. inversion H; subst.
      destruct (inc_same rs _ d HPI RI' eq_refl eq_refl eq_refl eq_refl eq_refl eq_refl eq_refl eq_refl) as [A [B C]].
      split; [exact A|]. split; [exact B|]. rewrite C. simpl icost. lia.
  - simpl in H. destruct (r_collect_spread rs owner ids) as [[rs1 c]|] eqn:E; [|discriminate H]. inversion H; subst.
    unfold r_collect_spread in E. destruct (r_collect_spread_loop_sbb _ _ _ _ _ _ E) as [[PL [_ [PS [NX _]]]] TT].
    destruct (r_collect_spread_loop_inc _ _ _ _ _ _ E) as [UP [RC [IS BI]]].
    destruct (inc_same rs _ d HPI RI' PS PL NX BI UP TT RC IS) as [A [B C]].
    split; [exact A|]. split; [exact B|]. rewrite C. simpl icost. lia.
  - simpl in H. destruct (r_collect_inc rs owner ids) as [[rs1 [c f]]|] eqn:E; [|discriminate H]. inversion H; subst.
    unfold r_collect_inc in E. destruct (inc_collect_loop _ _ _ _ _ _ _ d HPI E) as [A [B C]].
    split; [exact A|]. split; [exact B|]. simpl icost. lia.
  - simpl in H. destruct (r_incentive rs sender denom amount rate dt uu) as [rs1|] eqn:E; [|discriminate H]. inversion H; subst.
    destruct (inc_incentive _ _ _ _ _ _ _ _ d HPI E) as [A [B C]]. split; [exact A|]. split; [exact B|]. simpl icost. lia.
Qed.

Fixpoint hist_icost (rs : rstate) (ops : list rop) : Z :=
  match ops with
  | [] => 0
  | o :: r => (match rstep rs o with (_, Some _) => icost o | _ => 0 end) + hist_icost (fst (rstep rs o)) r
  end.
Lemma hist_icost_nonneg : forall ops rs, 0 <= hist_icost rs ops.
Proof.
  induction ops as [|o r IH]; intro rs; simpl; [lia|]. pose proof (IH (fst (rstep rs o))). pose proof (icost_nonneg o).
  destruct (rstep rs o) as [? [?|]]; lia.
Qed.

Theorem inc_run : forall ops rs d, PII rs ->
  PII (rrun rs ops) /\ isc_of (rrun rs ops) = isc_of rs /\ PhiI d (rrun rs ops) <= PhiI d rs + hist_icost rs ops * (Z.of_nat NU * P18).
Proof.
  induction ops as [|o r IH]; intros rs d HPI; cbn [rrun hist_icost].
  - split; [exact HPI|]. split; [reflexivity|]. lia.
  - unfold rstep. destruct (rhandler rs o) as [[rs' res]|] eqn:H; cbn [fst].
    + destruct (inc_handler _ _ _ _ d HPI H) as [A [B C]].
      destruct (IH rs' d A) as [A2 [B2 C2]]. split; [exact A2|]. split; [rewrite B2; exact B|]. rewrite Z.mul_add_distr_r. lia.
    + destruct (IH rs d HPI) as [A2 [B2 C2]]. split; [exact A2|]. split; [exact B2|]. lia.
Qed.

Lemma PII_init : forall sp spf ssc isc users t, 0 < sp -> 0 <= spf <= 500000000000000000 -> 0 < isc ->
  PII (rinit sp spf ssc isc users t) /\ forall d, PhiI d (rinit sp spf ssc isc users t) = 0.
Proof.
  intros sp spf ssc isc users t Hsp Hspf Hisc. split.
  - split; [apply rinv_init; assumption|]. split.
    + split; [constructor|]. split; [exact Hisc|]. split; [unfold rinit, rwd_init, NU, n_uptimes; cbn [r_rw rw_up]; apply map_length|].
      split; [intros p []|intros u p _ []].
    + intros u j _. unfold acc_u, rinit, rwd_init. cbn [r_rw rw_up].
      assert (X : forall l : list Z, nth u (map (fun _ : Z => acc_empty) l) acc_empty = acc_empty).
      { induction u as [|u IHu]; intros [|a l]; simpl; auto. }
      rewrite X. reflexivity.
  - intro d. unfold PhiI, OwedInc, inc_bal. change (s_pos (r_base (rinit sp spf ssc isc users t))) with (@nil position).
    assert (ON : forall w c, OwedI d w c [] = 0) by (intros; unfold OwedI; rewrite (usum_ext NU _ (fun _ => 0)) by (intros; reflexivity); apply usum_zero).
    rewrite ON. simpl. destruct d; reflexivity.
Qed.
