(* C08 / C01, incentive account, part 6: every operation, every history, and the conclusion: in every reachable state the
   incentives all open positions can claim (collected + forfeitable), plus the whole units the incentive records still have
   to emit, are covered by the incentive account. *)
From Coq Require Import ZArith List Bool Lia.
Import ListNotations.
From Osmo Require Import Base.DecModel CL.TickMath CL.CLMath CL.CLPool CL.CLSwap CL.CLStep
  CLR.Accum CLR.Rewards CLR.RSwap CLR.RStep C07.Base C07.TickLemmas C07.LP C07.Swap C07.Proofs C03.Steps
  C08.Proj C08.Telescope C08.View C08.Static C08.Stages C08.Ops C08.OpInside C08.SwapTrace C08.Crux
  C08.Claim C08.Conseq C08.Frame C08.Never C08.SwapWf C08.Dom C08.StaticOk C08.Paid C08.PaidOps C08.PaidSwap C08.PaidHist
  C08.IncAcc C08.Inc C08.IncList C08.IncStage C08.IncOps C08.IncSwap.
Open Scope Z_scope.

Lemma r_collect_spread_loop_inc : forall ids rs owner tot rs' c, r_collect_spread_loop rs owner ids tot = Some (rs', c) ->
  rw_up (r_rw rs') = rw_up (r_rw rs) /\ rw_recs (r_rw rs') = rw_recs (r_rw rs) /\ rw_inc_scaling (r_rw rs') = rw_inc_scaling (r_rw rs) /\
  b_inc (s_bank (r_base rs')) = b_inc (s_bank (r_base rs)).
Proof.
  induction ids as [|id' rest IH]; intros rs owner tot rs' c H; simpl in H; [inversion H; auto|].
  destruct (pos_get (s_pos (r_base rs)) id') as [q|]; [|discriminate H].
  destruct (negb (ps_owner q =? owner)); [discriminate H|].
  destruct (collect_spread_rewards _ _ _ _ q) as [[[b w] x]|] eqn:E; [|discriminate H].
  destruct (IH _ _ _ _ _ H) as [A [B0 [C D]]]. simpl in A, B0, C, D. rewrite A, B0, C, D.
  unfold collect_spread_rewards in E.
  destruct (prepare_claimable_spread _ _ _ _ _ _) as [[w5 c5]|] eqn:EPC; [|discriminate E]. cbv beta iota in E.
  destruct (prepare_claimable_spread_up _ _ _ _ _ _ _ _ EPC) as [UP4 [RC4 [IS4 _]]].
  destruct ((fst c5 =? 0) && (snd c5 =? 0)); [inversion E; subst; auto|].
  destruct (send_spread_to_user _ _ _ _) as [bb|] eqn:ES; [|discriminate E]. inversion E; subst.
  repeat split; try assumption. eapply send_spread_to_user_binc; exact ES.
Qed.

(* the number of MulDec (half-even) roundings of incentives an operation performs, in units of the number of uptime accumulators *)
Definition icost (o : rop) : Z :=
  match o with
  | RBase (OCreate _ _ _ _ _ _ _) => 1
  | RBase (OWithdraw _ _ _) => 2
  | RBase (OAdd _ _ _ _ _ _) => 3
  | RCollectInc _ ids => Z.of_nat (length ids)
  | _ => 0
  end.
Lemma icost_nonneg : forall o, 0 <= icost o.
Proof. intros [[| | | | | |]| | |]; simpl; lia. Qed.

Theorem inc_handler : forall rs o rs' r d, PII rs -> rhandler rs o = Some (rs', r) ->
  PII rs' /\ isc_of rs' = isc_of rs /\ PhiI d rs' <= PhiI d rs + icost o * (Z.of_nat NU * P18).
Proof.
  intros rs o rs' r d HPI H. pose proof HPI as [RI _]. pose proof (rinv_handler _ _ _ _ H RI) as RI'. pose proof P18_pos as HP.
  destruct o as [b|owner ids|owner ids|sender denom amount rate dt uu].
  - destruct b as [owner a0 a1 m0 m1 lo hi|owner id liq|owner id a0 a1 m0 m1|sender ids recipient|sender zfo amt mo|sender zfo amt mi|dt].
    + simpl in H. destruct (r_create rs owner a0 a1 m0 m1 lo hi) as [[rs1 c]|] eqn:E; [|discriminate H]. inversion H; subst.
      destruct (inc_create _ _ _ _ _ _ _ _ _ _ d HPI E) as [A [B C]]. split; [exact A|]. split; [exact B|]. simpl icost. lia.
    + simpl in H. destruct (r_withdraw rs owner id liq) as [[rs1 [x0 x1]]|] eqn:E; [|discriminate H]. inversion H; subst.
      destruct (inc_withdraw _ _ _ _ _ _ d HPI E) as [A [B C]]. split; [exact A|]. split; [exact B|]. simpl icost. lia.
    + simpl in H. destruct (r_add rs owner id a0 a1 m0 m1) as [[rs1 [[nid y0] y1]]|] eqn:E; [|discriminate H]. inversion H; subst.
      assert (QX : exists q, pos_get (s_pos (r_base rs)) id = Some q).
      { unfold r_add in E. destruct (id <=? 0); [discriminate E|].
        destruct ((a0 <? 0) || (a1 <? 0) || (m0 <? 0) || (m1 <? 0)); [discriminate E|].
        destruct (pos_get (s_pos (r_base rs)) id) as [q|]; [eauto|discriminate E]. }
      destruct QX as [q Q]. destruct (r_add_split _ _ _ _ _ _ _ _ _ _ E Q) as [rs1 [w0 [w1 [m0' [m1' [cr [EW EC]]]]]]].
      destruct (inc_withdraw _ _ _ _ _ _ d HPI EW) as [A1 [B1 C1]].
      destruct (inc_create _ _ _ _ _ _ _ _ _ _ d A1 EC) as [A2 [B2 C2]].
      split; [exact A2|]. split; [rewrite B2; exact B1|]. simpl icost. lia.
    + simpl in H. destruct (transfer_positions (r_base rs) sender ids recipient) as [s'|] eqn:E; [|discriminate H]. inversion H; subst.
      destruct (inc_transfer _ _ _ _ _ d HPI E) as [A [B C]]. split; [exact A|]. split; [exact B|]. rewrite C. simpl icost. lia.
    + destruct (inc_swap _ _ _ _ d HPI H eq_refl) as [A [B C]]. split; [exact A|]. split; [exact B|]. simpl icost. lia.
    + destruct (inc_swap _ _ _ _ d HPI H eq_refl) as [A [B C]]. split; [exact A|]. split; [exact B|]. simpl icost. lia.
    + simpl in H. inversion H; subst.
      destruct (inc_same rs _ d HPI RI' eq_refl eq_refl eq_refl eq_refl eq_refl eq_refl eq_refl eq_refl) as [A [B C]].
      split; [exact A|]. split; [exact B|]. rewrite C. simpl icost. lia.
  - simpl in H. destruct (r_collect_spread rs owner ids) as [[rs1 c]|] eqn:E; [|discriminate H]. inversion H; subst.
    unfold r_collect_spread in E. destruct (r_collect_spread_loop_sbb _ _ _ _ _ _ E) as [[PL [_ [PS [NX _]]]] TT].
    destruct (r_collect_spread_loop_inc _ _ _ _ _ _ E) as [UP [RC [IS BI]]].
    destruct (inc_same rs _ d HPI RI' PS PL NX BI UP TT RC IS) as [A [B C]].
    split; [exact A|]. split; [exact B|]. rewrite C. simpl icost. lia.
  - simpl in H. destruct (r_collect_inc rs owner ids) as [[rs1 [c f]]|] eqn:E; [|discriminate H]. inversion H; subst.
    unfold r_collect_inc in E. destruct (inc_collect_loop _ _ _ _ _ _ _ d HPI E) as [A [B C]].
    split; [exact A|]. split; [exact B|]. simpl icost. lia.
  - simpl in H. destruct (r_incentive rs sender denom amount rate dt uu) as [rs1|] eqn:E; [|discriminate H]. inversion H; subst.
    destruct (inc_incentive _ _ _ _ _ _ _ _ d HPI E) as [A [B C]]. split; [exact A|]. split; [exact B|]. simpl icost. lia.
Qed.

Fixpoint hist_icost (rs : rstate) (ops : list rop) : Z :=
  match ops with
  | [] => 0
  | o :: r => (match rstep rs o with (_, Some _) => icost o | _ => 0 end) + hist_icost (fst (rstep rs o)) r
  end.
Lemma hist_icost_nonneg : forall ops rs, 0 <= hist_icost rs ops.
Proof.
  induction ops as [|o r IH]; intro rs; simpl; [lia|]. pose proof (IH (fst (rstep rs o))). pose proof (icost_nonneg o).
  destruct (rstep rs o) as [? [?|]]; lia.
Qed.

Theorem inc_run : forall ops rs d, PII rs ->
  PII (rrun rs ops) /\ isc_of (rrun rs ops) = isc_of rs /\ PhiI d (rrun rs ops) <= PhiI d rs + hist_icost rs ops * (Z.of_nat NU * P18).
Proof.
  induction ops as [|o r IH]; intros rs d HPI; cbn [rrun hist_icost].
  - split; [exact HPI|]. split; [reflexivity|]. lia.
  - unfold rstep. destruct (rhandler rs o) as [[rs' res]|] eqn:H; cbn [fst].
    + destruct (inc_handler _ _ _ _ d HPI H) as [A [B C]].
      destruct (IH rs' d A) as [A2 [B2 C2]]. split; [exact A2|]. split; [rewrite B2; exact B|]. rewrite Z.mul_add_distr_r. lia.
    + destruct (IH rs d HPI) as [A2 [B2 C2]]. split; [exact A2|]. split; [exact B2|]. lia.
Qed.

Lemma PII_init : forall sp spf ssc isc users t, 0 < sp -> 0 <= spf <= 500000000000000000 -> 0 < isc ->
  PII (rinit sp spf ssc isc users t) /\ forall d, PhiI d (rinit sp spf ssc isc users t) = 0.
Proof.
  intros sp spf ssc isc users t Hsp Hspf Hisc. split.
  - split; [apply rinv_init; assumption|]. split.
    + split; [constructor|]. split; [exact Hisc|]. split; [unfold rinit, rwd_init, NU, n_uptimes; cbn [r_rw rw_up]; apply map_length|].
      split; [intros p []|intros u p _ []].
    + intros u j _. unfold acc_u, rinit, rwd_init. cbn [r_rw rw_up].
      assert (X : forall l : list Z, nth u (map (fun _ : Z => acc_empty) l) acc_empty = acc_empty).
      { induction u as [|u IHu]; intros [|a l]; simpl; auto. }
      rewrite X. reflexivity.
  - intro d. unfold PhiI, OwedInc, inc_bal. change (s_pos (r_base (rinit sp spf ssc isc users t))) with (@nil position).
    assert (ON : forall w c, OwedI d w c [] = 0) by (intros; unfold OwedI; rewrite (usum_ext NU _ (fun _ => 0)) by (intros; reflexivity); apply usum_zero).
    rewrite ON. simpl. destruct d; reflexivity.
Qed.

(* ---------- the conclusion ---------- *)
Definition iclaim_of (d : bool) (rs : rstate) (p : position) : Z :=
  match claimable_incentives rs (ps_id p) with Some (c, f) => pr_sel d c + pr_sel d f | None => 0 end.

Lemma zsum_usum : forall n (f : nat -> position -> Z) P, zsum (fun p => usum n (fun u => f u p)) P = usum n (fun u => zsum (f u) P).
Proof.
  induction n as [|n IH]; intros f P; simpl.
  - induction P; simpl; lia.
  - rewrite zsum_plus, IH. reflexivity.
Qed.
Lemma remD_nonneg : forall d l, recs_ok l -> 0 <= remD d l.
Proof.
  induction l as [|r l IH]; intro H; simpl; [lia|]. inversion H as [|? ? [_ R0] HR]; subst. specialize (IH HR). destruct (den_match d r); lia.
Qed.

Lemma list_eq_dec_pos : forall (l : list position), {l = []} + {l <> []}.
Proof. intros [|a l]; [left; reflexivity|right; discriminate]. Qed.

Theorem inc_claims_covered : forall rs d K, PII rs -> PhiI d rs <= K * (Z.of_nat NU * P18) ->
  (forall p, In p (s_pos (r_base rs)) -> claimable_incentives rs (ps_id p) <> None) ->
  0 <= K -> (K + Z.of_nat (length (s_pos (r_base rs)))) * Z.of_nat NU < 2 * isc_of rs ->
  zsum (iclaim_of d rs) (s_pos (r_base rs)) <= inc_bal d rs.
Proof.
  intros rs d K [RI [HIW FR]] HPhi HQ HK0 HK. pose proof RI as [I _]. pose proof P18_pos as HP.
  pose proof HIW as [OK [Hi [LN [HPT HRM]]]].
  set (P := s_pos (r_base rs)) in *. set (w := r_rw rs) in *. set (cur := p_tick (s_pool (r_base rs))) in *.
  set (pl := p_liq (s_pool (r_base rs))) in *. set (now := s_time (r_base rs)) in *.
  assert (HL : pl = sum_liq (f_range cur) P) by apply (inv_liq _ I).
  assert (LP : forall p, In p P -> 0 < ps_liq p).
  { intros p Hp. pose proof (inv_pos_ok _ I) as F. rewrite Forall_forall in F. destruct (F p Hp) as [_ [X _]]. exact X. }
  assert (NUP : 0 <= Z.of_nat NU) by lia.
  unfold PhiI, OwedInc, isc_of in HPhi, HK. fold w P in HPhi, HK. change (cur_tick rs) with cur in HPhi.
  set (isc := rw_inc_scaling w) in *. set (bal := inc_bal d rs) in *.
  (* every query brings the accumulators up to date in the same way *)
  assert (QB : forall p, In p P -> exists w1, update_uptime w pl now = Some w1 /\
            2 * (iclaim_of d rs p * isc * P18) <= 2 * usum NU (fun u => owedU u d w1 cur p) + Z.of_nat NU * P18).
  { intros p Hp. pose proof (HQ p Hp) as NN. unfold iclaim_of. unfold claimable_incentives in NN |- *.
    change (r_rw rs) with w in NN |- *.
    rewrite (in_pos_get _ _ (inv_pos_sorted _ I) Hp) in NN |- *. cbv beta iota in NN |- *.
    change (p_tick (s_pool (r_base rs))) with cur in NN |- *. change (p_liq (s_pool (r_base rs))) with pl in NN |- *. change (s_time (r_base rs)) with now in NN |- *.
    destruct (prepare_claim_all_incentives w cur pl now (ps_lower p) (ps_upper p) (ps_id p) (ps_join p)) as [[[[w' col] forf] byup]|] eqn:E; [|congruence].
    destruct (claim_query_bound d w cur pl now (ps_id p) (ps_join p) w' col forf byup P p E HIW HL (in_pos_get _ _ (inv_pos_sorted _ I) Hp) LP)
      as [w1 [EU [B _]]].
    exists w1. split; [exact EU|exact B]. }
  destruct (list_eq_dec_pos P) as [EP|NE].
  - rewrite EP in *. simpl. assert (ON : OwedI d w cur [] = 0) by (unfold OwedI; rewrite (usum_ext NU _ (fun _ => 0)) by (intros; reflexivity); apply usum_zero).
    rewrite ON in HPhi. pose proof (remD_nonneg d _ OK) as R0. simpl length in HK. change (Z.of_nat 0) with 0 in HK. rewrite Z.add_0_r in HK.
    destruct (Z_lt_le_dec bal 0) as [NEG|]; [exfalso|lia].
    set (M := isc * P18). assert (MP : 0 < M) by (unfold M; nia).
    assert (E1 : bal * isc * P18 = bal * M) by (unfold M; ring). rewrite E1 in HPhi.
    assert (E2 : bal * M <= - M) by nia.
    assert (E3 : K * (Z.of_nat NU * P18) < 2 * M) by (unfold M; nia).
    set (r0 := remD d (rw_recs w)) in *. assert (0 <= r0 * isc) by nia. lia.
  - destruct P as [|p0 P0] eqn:EP; [congruence|]. rewrite <- EP in *. assert (P0In : In p0 P) by (rewrite EP; left; reflexivity).
    destruct (QB p0 P0In) as [w1 [EU _]].
    destruct (stage_accrue cur w pl now w1 P d EU OK Hi LN HPT HRM HL) as [ACC [_ [_ [OK1 _]]]].
    pose proof (remD_nonneg d _ OK1) as R1.
    assert (SUM : forall l, (forall p, In p l -> In p P) ->
              2 * (zsum (iclaim_of d rs) l * isc * P18) <= 2 * zsum (fun p => usum NU (fun u => owedU u d w1 cur p)) l + Z.of_nat (length l) * (Z.of_nat NU * P18)).
    { induction l as [|a l IHl]; intro Hl; [simpl; lia|].
      change (length (a :: l)) with (S (length l)). rewrite Nat2Z.inj_succ. cbn [zsum].
      destruct (QB a (Hl a (or_introl eq_refl))) as [w1' [EU' Ba]]. rewrite EU in EU'. inversion EU'; subst w1'.
      assert (Bl : forall p, In p l -> In p P) by (intros p X; apply Hl; right; exact X). specialize (IHl Bl).
      set (ca := iclaim_of d rs a) in *. set (cl := zsum (iclaim_of d rs) l) in *.
      replace (2 * ((ca + cl) * isc * P18)) with (2 * (ca * isc * P18) + 2 * (cl * isc * P18)) by ring.
      unfold Z.succ. rewrite Z.mul_add_distr_r. lia. }
    specialize (SUM P (fun p X => X)). rewrite zsum_usum in SUM.
    change (usum NU (fun u => zsum (fun p => owedU u d w1 cur p) P)) with (OwedI d w1 cur P) in SUM. fold isc in ACC.
    set (C := zsum (iclaim_of d rs) P) in *. set (n := Z.of_nat (length P)) in *. set (nu := Z.of_nat NU) in *.
    set (o1 := OwedI d w1 cur P) in *. set (o0 := OwedI d w cur P) in *. set (r1 := remD d (rw_recs w1)) in *. set (r0 := remD d (rw_recs w)) in *.
    assert (RI1 : 0 <= r1 * isc) by (clearbody r1 isc; nia).
    assert (X : 2 * isc * P18 * (C - bal) <= (K + n) * nu * P18) by (clearbody C n nu o1 o0 r1 r0 bal isc; lia).
    assert (Y : 2 * isc * (C - bal) <= (K + n) * nu) by (clearbody C n nu o1 o0 r1 r0 bal isc; nia).
    clearbody C n nu o1 o0 r1 r0 bal isc. nia.
Qed.

Theorem inc_claims_remaining_covered : forall rs d K, PII rs -> PhiI d rs <= K * (Z.of_nat NU * P18) ->
  (forall p, In p (s_pos (r_base rs)) -> claimable_incentives rs (ps_id p) <> None) ->
  0 <= K -> (K + Z.of_nat (length (s_pos (r_base rs)))) * Z.of_nat NU < 2 * isc_of rs ->
  s_pos (r_base rs) <> [] ->
  exists w1, update_uptime (r_rw rs) (p_liq (s_pool (r_base rs))) (s_time (r_base rs)) = Some w1 /\
    zsum (iclaim_of d rs) (s_pos (r_base rs)) * P18 + remD d (rw_recs w1) < (inc_bal d rs + 1) * P18.
Proof.
  intros rs d K [RI [HIW FR]] HPhi HQ HK0 HK NEP. pose proof RI as [I _]. pose proof P18_pos as HP.
  pose proof HIW as [OK [Hi [LN [HPT HRM]]]].
  set (P := s_pos (r_base rs)) in *. set (w := r_rw rs) in *. set (cur := p_tick (s_pool (r_base rs))) in *.
  set (pl := p_liq (s_pool (r_base rs))) in *. set (now := s_time (r_base rs)) in *.
  assert (HL : pl = sum_liq (f_range cur) P) by apply (inv_liq _ I).
  assert (LP : forall p, In p P -> 0 < ps_liq p).
  { intros p Hp. pose proof (inv_pos_ok _ I) as F. rewrite Forall_forall in F. destruct (F p Hp) as [_ [X _]]. exact X. }
  assert (NUP : 0 <= Z.of_nat NU) by lia.
  unfold PhiI, OwedInc, isc_of in HPhi, HK. fold w P in HPhi, HK. change (cur_tick rs) with cur in HPhi.
  set (isc := rw_inc_scaling w) in *. set (bal := inc_bal d rs) in *.
  (* every query brings the accumulators up to date in the same way *)
  assert (QB : forall p, In p P -> exists w1, update_uptime w pl now = Some w1 /\
            2 * (iclaim_of d rs p * isc * P18) <= 2 * usum NU (fun u => owedU u d w1 cur p) + Z.of_nat NU * P18).
  { intros p Hp. pose proof (HQ p Hp) as NN. unfold iclaim_of. unfold claimable_incentives in NN |- *.
    change (r_rw rs) with w in NN |- *.
    rewrite (in_pos_get _ _ (inv_pos_sorted _ I) Hp) in NN |- *. cbv beta iota in NN |- *.
    change (p_tick (s_pool (r_base rs))) with cur in NN |- *. change (p_liq (s_pool (r_base rs))) with pl in NN |- *. change (s_time (r_base rs)) with now in NN |- *.
    destruct (prepare_claim_all_incentives w cur pl now (ps_lower p) (ps_upper p) (ps_id p) (ps_join p)) as [[[[w' col] forf] byup]|] eqn:E; [|congruence].
    destruct (claim_query_bound d w cur pl now (ps_id p) (ps_join p) w' col forf byup P p E HIW HL (in_pos_get _ _ (inv_pos_sorted _ I) Hp) LP)
      as [w1 [EU [B _]]].
    exists w1. split; [exact EU|exact B]. }
  assert (NE : P <> []) by exact NEP.
  destruct P as [|p0 P0] eqn:EP; [congruence|]. rewrite <- EP in *. assert (P0In : In p0 P) by (rewrite EP; left; reflexivity).
    destruct (QB p0 P0In) as [w1 [EU _]].
    destruct (stage_accrue cur w pl now w1 P d EU OK Hi LN HPT HRM HL) as [ACC [_ [_ [OK1 _]]]].
    pose proof (remD_nonneg d _ OK1) as R1.
    assert (SUM : forall l, (forall p, In p l -> In p P) ->
              2 * (zsum (iclaim_of d rs) l * isc * P18) <= 2 * zsum (fun p => usum NU (fun u => owedU u d w1 cur p)) l + Z.of_nat (length l) * (Z.of_nat NU * P18)).
    { induction l as [|a l IHl]; intro Hl; [simpl; lia|].
      change (length (a :: l)) with (S (length l)). rewrite Nat2Z.inj_succ. cbn [zsum].
      destruct (QB a (Hl a (or_introl eq_refl))) as [w1' [EU' Ba]]. rewrite EU in EU'. inversion EU'; subst w1'.
      assert (Bl : forall p, In p l -> In p P) by (intros p X; apply Hl; right; exact X). specialize (IHl Bl).
      set (ca := iclaim_of d rs a) in *. set (cl := zsum (iclaim_of d rs) l) in *.
      replace (2 * ((ca + cl) * isc * P18)) with (2 * (ca * isc * P18) + 2 * (cl * isc * P18)) by ring.
      unfold Z.succ. rewrite Z.mul_add_distr_r. lia. }
    specialize (SUM P (fun p X => X)). rewrite zsum_usum in SUM.
    change (usum NU (fun u => zsum (fun p => owedU u d w1 cur p) P)) with (OwedI d w1 cur P) in SUM. fold isc in ACC.
    set (C := zsum (iclaim_of d rs) P) in *. set (n := Z.of_nat (length P)) in *. set (nu := Z.of_nat NU) in *.
    set (o1 := OwedI d w1 cur P) in *. set (o0 := OwedI d w cur P) in *. set (r1 := remD d (rw_recs w1)) in *. set (r0 := remD d (rw_recs w)) in *.
    assert (RI1 : 0 <= r1 * isc) by (clearbody r1 isc; nia).
    exists w1. split; [exact EU|]. fold r1.
    assert (X2 : 2 * isc * (C * P18 + r1 - bal * P18) <= (K + n) * nu * P18) by (clearbody C n nu o1 o0 r1 r0 bal isc; lia).
    clearbody C n nu o1 o0 r1 r0 bal isc. nia.
Qed.


(* TOTAL_CLAIMABLE_LE_PAID (incentives): in every state reachable from a fresh pool, whatever the history, the incentives all open
   positions can claim - collected and forfeitable - are covered by the incentive account *)
Theorem total_incentives_le_paid : forall sp spf ssc isc users t ops d, 0 < sp -> 0 <= spf <= 500000000000000000 -> 0 < isc ->
  let rs0 := rinit sp spf ssc isc users t in
  let rs := rrun rs0 ops in
  (forall p, In p (s_pos (r_base rs)) -> claimable_incentives rs (ps_id p) <> None) ->
  (hist_icost rs0 ops + Z.of_nat (length (s_pos (r_base rs)))) * Z.of_nat NU < 2 * isc ->
  zsum (iclaim_of d rs) (s_pos (r_base rs)) <= inc_bal d rs.
Proof.
  intros sp spf ssc isc users t ops d Hsp Hspf Hisc rs0 rs HQ HK.
  destruct (PII_init sp spf ssc isc users t Hsp Hspf Hisc) as [P0 F0].
  destruct (inc_run ops rs0 d P0) as [A [B C]]. fold rs in A, B, C.
  assert (IS0 : isc_of rs0 = isc) by reflexivity.
  apply (inc_claims_covered rs d (hist_icost rs0 ops) A); [|exact HQ|apply hist_icost_nonneg|rewrite B, IS0; exact HK].
  pose proof (F0 d) as F0d. fold rs0 in F0d. rewrite F0d in C. lia.
Qed.
