(* C08 / C01, incentive account, part 2: the loops over the six uptime accumulators (claim, share change, re-deposit of
   forfeited incentives), at the level of the accumulator list. *)
From Coq Require Import ZArith List Bool Lia.
Import ListNotations.
From Osmo Require Import Base.DecModel CL.TickMath CL.CLMath CL.CLPool CL.CLSwap CL.CLStep
  CLR.Accum CLR.Rewards CLR.RSwap CLR.RStep C07.Base C07.LP C03.Steps
  C08.Proj C08.Telescope C08.View C08.Claim C08.Conseq C08.Frame C08.Never C08.Paid C08.IncAcc C08.Inc.
Open Scope Z_scope.

(* what accumulator a owes to position id when the growth outside its range is o *)
Definition owedAO (d : bool) (id : Z) (a : accum) (o : dc) : Z :=
  match acc_get a id with Some r => owedA d (dsel d (ac_value a) - dsel d o) r | None => 0 end.
Fixpoint lsum2 {A B : Type} (f : A -> B -> Z) (l : list A) (m : list B) : Z :=
  match l, m with x :: l', y :: m' => f x y + lsum2 f l' m' | _, _ => 0 end.
Fixpoint lsum (l : list (Z * Z)) (d : bool) : Z := match l with [] => 0 | x :: r => pr_sel d x + lsum r d end.

Lemma lsum2_nth : forall {A B} (f : A -> B -> Z) (da : A) (db : B) l m, length l = length m ->
  lsum2 f l m = usum (length l) (fun u => f (nth u l da) (nth u m db)).
Proof.
  induction l as [|x l IH]; intros m L; destruct m as [|y m]; simpl in L; try discriminate; [reflexivity|].
  change (length (x :: l)) with (S (length l)). rewrite usum_shift. simpl. rewrite (IH m) by lia. reflexivity.
Qed.

(* ---------- claim over the accumulators ---------- *)
Definition pos_shares (id : Z) (a : accum) : Prop := forall r, acc_get a id = Some r -> 0 < ar_shares r.

Lemma claim_uptimes_spec : forall d id age isc ups outs uts ups' col forf byup,
  claim_uptimes ups outs uts id age isc = Some (ups', col, forf, byup) -> 0 < isc -> Forall (pos_shares id) ups ->
  length ups' = length ups /\ length byup = length ups /\ length outs = length ups /\
  (forall u, same_other (nth u ups acc_empty) (nth u ups' acc_empty) id /\ ac_value (nth u ups' acc_empty) = ac_value (nth u ups acc_empty) /\
             ac_total (nth u ups' acc_empty) = ac_total (nth u ups acc_empty) /\
             (forall r, acc_get (nth u ups acc_empty) id = Some r -> exists r', acc_get (nth u ups' acc_empty) id = Some r' /\ ar_shares r' = ar_shares r /\ ar_unclaimed r' = dc0) /\
             (acc_get (nth u ups acc_empty) id = None -> acc_get (nth u ups' acc_empty) id = None)) /\
  exists T, 0 <= T /\
    2 * lsum2 (owedAO d id) ups' outs + 2 * (T * P18 * P18) <= 2 * lsum2 (owedAO d id) ups outs + Z.of_nat (length ups) * P18 /\
    0 <= pr_sel d col /\ 0 <= pr_sel d forf /\ 0 <= lsum byup d /\
    pr_sel d col * isc * P18 + lsum byup d * P18 * P18 <= T * P18 * P18 /\
    (pr_sel d col + pr_sel d forf) * isc * P18 <= T * P18 * P18 /\ lsum2 (owedAO d id) ups' outs = 0.
Proof.
  intros d id age isc. pose proof P18_pos as HP.
  induction ups as [|a ups IH]; intros outs uts ups' col forf byup H Hi PS; destruct outs as [|o outs]; destruct uts as [|ut uts]; simpl in H; try discriminate H.
  - inversion H; subst. split; [reflexivity|]. split; [reflexivity|]. split; [reflexivity|]. split.
    + intro u. destruct u; simpl; repeat split; try reflexivity; try (intros j _; reflexivity); try (intros r X; discriminate X); auto.
    + exists 0. simpl. destruct d; simpl; lia.
  - inversion PS as [|? ? PSa PSr]; subst.
    destruct (claim_uptimes ups outs uts id age isc) as [[[[ar col0] forf0] byup0]|] eqn:ER; [|discriminate H]. cbv beta iota in H.
    destruct (IH _ _ _ _ _ _ ER Hi PSr) as [L1 [L2 [L3 [PW [T [T0 [INEQ [C0 [F0 [B0 [RD [FO ZR]]]]]]]]]]]].
    destruct (acc_has a id) eqn:EH.
    + destruct (update_accum_and_claim a id o) as [[[a' scaled] dust]|] eqn:EU; [|discriminate H]. cbv beta iota in H.
      destruct (scale_down2 scaled isc) as [coins|] eqn:ESD; [|discriminate H]. cbv beta iota in H.
      unfold acc_has in EH. destruct (acc_get a id) as [r|] eqn:R; [|discriminate EH].
      destruct (uac_full _ _ _ _ _ _ _ EU R) as [SO [VV [TT [REC HD]]]].
      pose proof (PSa r R) as SHP. assert (NZ : ar_shares r <> 0) by lia.
      destruct (REC NZ) as [insv [EI RA]].
      destruct (HD d) as [G0 [CO [CO0 [DU DU0]]]]. cbv zeta in G0, CO, DU, DU0.
      set (I := dsel d (ac_value a) - dsel d o) in *.
      set (tr := pr_sel d scaled) in *.
      assert (D0' : 0 <= dsel d (ar_unclaimed r) + d_mul (I - dsel d (ar_snap r)) (ar_shares r) - tr * P18) by (rewrite CO, <- DU; exact DU0).
      pose proof (owedA_claim d I r tr G0 ltac:(lia) CO D0') as OC.
      assert (NEW : owedAO d id a' o = 0).
      { unfold owedAO. rewrite RA, VV. unfold owedA. cbn [ar_shares ar_snap ar_unclaimed]. rewrite (dsel_safe_sub d _ _ _ EI), dsel_dc0. lia. }
      assert (OLD : owedAO d id a o = owedA d I r) by (unfold owedAO; rewrite R; reflexivity).
      assert (CB : 0 <= pr_sel d coins /\ pr_sel d coins * isc <= tr * P18).
      { rewrite (scale_down2_sel d _ _ _ ESD). apply unscale_le; [exact Hi|exact CO0]. }
      destruct CB as [CB0 CB1].
      assert (PWH : forall u, same_other (nth u (a :: ups) acc_empty) (nth u (a' :: ar) acc_empty) id /\
                 ac_value (nth u (a' :: ar) acc_empty) = ac_value (nth u (a :: ups) acc_empty) /\
                 ac_total (nth u (a' :: ar) acc_empty) = ac_total (nth u (a :: ups) acc_empty) /\
                 (forall r0, acc_get (nth u (a :: ups) acc_empty) id = Some r0 -> exists r', acc_get (nth u (a' :: ar) acc_empty) id = Some r' /\ ar_shares r' = ar_shares r0 /\ ar_unclaimed r' = dc0) /\
                 (acc_get (nth u (a :: ups) acc_empty) id = None -> acc_get (nth u (a' :: ar) acc_empty) id = None)).
      { intro u. destruct u as [|u]; [|apply PW]. cbn [nth]. split; [exact SO|]. split; [exact VV|]. split; [exact TT|]. split.
        - intros r0 R0. rewrite R in R0. inversion R0; subst r0. eexists. split; [exact RA|split; reflexivity].
        - intro X. congruence. }
      destruct (age <? ut) eqn:EAge; inversion H; subst ups' col forf byup; clear H.
      * split; [simpl; lia|]. split; [simpl; lia|]. split; [simpl; lia|]. split; [exact PWH|].
        exists (T + tr). split; [lia|]. cbn [lsum2 lsum length]. rewrite NEW, OLD, Nat2Z.inj_succ.
        assert (PF : pr_sel d (fst forf0 + fst coins, snd forf0 + snd coins) = pr_sel d forf0 + pr_sel d coins) by (destruct d; reflexivity).
        rewrite PF. fold tr. rewrite ZR. repeat split; try lia; nia.
      * split; [simpl; lia|]. split; [simpl; lia|]. split; [simpl; lia|]. split; [exact PWH|].
        exists (T + tr). split; [lia|]. cbn [lsum2 lsum length]. rewrite NEW, OLD, Nat2Z.inj_succ.
        assert (PF : pr_sel d (fst col0 + fst coins, snd col0 + snd coins) = pr_sel d col0 + pr_sel d coins) by (destruct d; reflexivity).
        rewrite PF. assert (Z0 : pr_sel d (0, 0) = 0) by (destruct d; reflexivity). rewrite Z0, ZR. repeat split; try lia; nia.
    + inversion H; subst ups' col forf byup; clear H.
      unfold acc_has in EH. destruct (acc_get a id) as [r|] eqn:R; [discriminate EH|].
      split; [simpl; lia|]. split; [simpl; lia|]. split; [simpl; lia|]. split.
      * intro u. destruct u as [|u]; [|apply PW]. cbn [nth]. split; [apply same_other_refl|]. split; [reflexivity|]. split; [reflexivity|].
        split; [intros r0 X; congruence|auto].
      * exists T. split; [exact T0|]. cbn [lsum2 lsum length]. rewrite Nat2Z.inj_succ.
        assert (Z0 : pr_sel d (0, 0) = 0) by (destruct d; reflexivity). rewrite Z0, ZR.
        assert (OA : owedAO d id a o = 0) by (unfold owedAO; rewrite R; reflexivity). rewrite OA. repeat split; try lia.
Qed.

(* ---------- share change over the accumulators ---------- *)
Definition nn_shares (id : Z) (a : accum) : Prop := forall r, acc_get a id = Some r -> 0 <= ar_shares r.

Lemma upd_uptime_accs_spec : forall d id liquidity delta ups ins outs ups',
  upd_uptime_accs ups ins outs id liquidity delta = Some ups' -> Forall (nn_shares id) ups ->
  (forall u, (u < length ups)%nat -> dsel d (nth u ins dc0) = dsel d (ac_value (nth u ups acc_empty)) - dsel d (nth u outs dc0)) ->
  length ups' = length ups /\ length outs = length ups /\
  (forall u, same_other (nth u ups acc_empty) (nth u ups' acc_empty) id /\ ac_value (nth u ups' acc_empty) = ac_value (nth u ups acc_empty)) /\
  (forall u, (u < length ups)%nat ->
     (forall r, acc_get (nth u ups acc_empty) id = Some r -> exists r', acc_get (nth u ups' acc_empty) id = Some r' /\ ar_shares r' = ar_shares r + delta /\
        (0 <= dsel d (ar_unclaimed r) -> 0 <= dsel d (ar_unclaimed r'))) /\
     (acc_get (nth u ups acc_empty) id = None -> exists r', acc_get (nth u ups' acc_empty) id = Some r' /\ ar_shares r' = liquidity /\ 0 < delta /\ ar_unclaimed r' = dc0)) /\
  2 * lsum2 (owedAO d id) ups' outs <= 2 * lsum2 (owedAO d id) ups outs + Z.of_nat (length ups) * P18.
Proof.
  intros d id liquidity delta. pose proof P18_pos as HP.
  induction ups as [|a ups IH]; intros ins outs ups' H NN HI; destruct ins as [|i ins]; destruct outs as [|o outs]; simpl in H; try discriminate H.
  - inversion H; subst. split; [reflexivity|]. split; [reflexivity|]. split.
    + intro u. destruct u; simpl; split; try reflexivity; intros j _; reflexivity.
    + split; [intros u Hu; simpl in Hu; lia|simpl; lia].
  - inversion NN as [|? ? NNa NNr]; subst.
    match type of H with (do a' <- ?X; _) = _ => destruct X as [a'|] eqn:EA; [|discriminate H] end. cbv beta iota in H.
    destruct (upd_uptime_accs ups ins outs id liquidity delta) as [rest'|] eqn:ER; [|discriminate H]. inversion H; subst ups'. clear H.
    assert (HI' : forall u, (u < length ups)%nat -> dsel d (nth u ins dc0) = dsel d (ac_value (nth u ups acc_empty)) - dsel d (nth u outs dc0)).
    { intros u Hu. apply (HI (S u)). simpl. lia. }
    destruct (IH _ _ _ ER NNr HI') as [L1 [L2 [PW [RC INEQ]]]].
    pose proof (HI O ltac:(simpl; lia)) as HI0. cbn [nth] in HI0.
    (* the head accumulator *)
    assert (HEAD : same_other a a' id /\ ac_value a' = ac_value a /\
              (forall r, acc_get a id = Some r -> exists r', acc_get a' id = Some r' /\ ar_shares r' = ar_shares r + delta /\ (0 <= dsel d (ar_unclaimed r) -> 0 <= dsel d (ar_unclaimed r'))) /\
              (acc_get a id = None -> exists r', acc_get a' id = Some r' /\ ar_shares r' = liquidity /\ 0 < delta /\ ar_unclaimed r' = dc0) /\
              2 * owedAO d id a' o <= 2 * owedAO d id a o + P18).
    { unfold acc_has in EA. destruct (acc_get a id) as [r|] eqn:R; cbn [negb] in EA.
      - destruct (to_init_plus_outside a id o) as [a1|] eqn:E1; [|discriminate EA]. cbv beta iota in EA.
        destruct (upd_existing _ _ _ _ _ _ _ _ E1 EA R) as [SO [VV [_ [un [RA HU]]]]].
        split; [exact SO|]. split; [exact VV|].
        split; [intros r0 X; inversion X; subst r0; eexists; split; [exact RA|split; [reflexivity|]]|].
        { cbn [ar_unclaimed]. intro U0. destruct (HU d) as [G0' UN']. cbv zeta in G0', UN'. rewrite UN'.
          pose proof (d_mul_bounds _ _ G0' (NNa r R)) as MB. pose proof P18_pos.
          assert (0 <= (dsel d (ac_value a) - dsel d o - dsel d (ar_snap r)) * ar_shares r) by (pose proof (NNa r R); nia).
          set (m := d_mul _ _) in *. clearbody m. nia. }
        split; [intro X; discriminate X|].
        unfold owedAO. rewrite RA, R, VV. destruct (HU d) as [G0 UN]. cbv zeta in G0, UN.
        set (I := dsel d (ac_value a) - dsel d o) in *.
        apply (owedA_update d I r (ar_shares r + delta) _ G0 (NNa r R) eq_refl i un); [exact HI0|exact UN].
      - destruct (negb (0 <? delta)) eqn:ED; [discriminate EA|]. apply negb_false_iff, Z.ltb_lt in ED.
        destruct (new_position_rec _ _ _ _ _ EA) as [SO [VV [_ RA]]].
        split; [exact SO|]. split; [exact VV|]. split; [intros r0 X; discriminate X|]. split; [intros _; eexists; split; [exact RA|split; [reflexivity|split; [exact ED|reflexivity]]]|].
        unfold owedAO. rewrite RA, R, VV. unfold owedA. cbn [ar_shares ar_snap ar_unclaimed]. rewrite HI0, dsel_dc0. lia. }
    destruct HEAD as [SO [VV [RS [RN OW]]]].
    split; [simpl; lia|]. split; [simpl; lia|]. split.
    + intro u. destruct u as [|u]; [cbn [nth]; auto|apply PW].
    + split.
      * intros u Hu. destruct u as [|u]; [cbn [nth]; auto|apply RC; simpl in Hu; lia].
      * cbn [lsum2 length]. rewrite Nat2Z.inj_succ. lia.
Qed.

(* ---------- re-deposit of forfeited incentives ---------- *)
Lemma redeposit_accs_spec : forall d liq ups byup ups', redeposit_accs ups byup liq = Some ups' -> 0 < liq ->
  (forall u, 0 <= pr_sel d (nth u byup (0, 0))) ->
  length ups' = length ups /\
  (forall u, ac_recs (nth u ups' acc_empty) = ac_recs (nth u ups acc_empty) /\
             0 <= dsel d (ac_value (nth u ups' acc_empty)) - dsel d (ac_value (nth u ups acc_empty))) /\
  usum (length ups) (fun u => dsel d (ac_value (nth u ups' acc_empty)) - dsel d (ac_value (nth u ups acc_empty))) * liq <= lsum byup d * P18 * P18.
Proof.
  intros d liq. pose proof P18_pos as HP.
  induction ups as [|a ups IH]; intros byup ups' H Hl NN; destruct byup as [|f byup]; simpl in H; try discriminate H.
  - inversion H; subst. split; [reflexivity|]. split; [intro u; destruct u; simpl; split; try reflexivity; lia|simpl; lia].
  - match type of H with (do a' <- ?X; _) = _ => destruct X as [a'|] eqn:EA; [|discriminate H] end. cbv beta iota in H.
    destruct (redeposit_accs ups byup liq) as [rest'|] eqn:ER; [|discriminate H]. inversion H; subst ups'. clear H.
    assert (NN' : forall u, 0 <= pr_sel d (nth u byup (0, 0))) by (intro u; apply (NN (S u))).
    pose proof (NN O) as NN0. cbn [nth] in NN0.
    destruct (IH _ _ ER Hl NN') as [L [PW SM]].
    assert (HEAD : ac_recs a' = ac_recs a /\ 0 <= dsel d (ac_value a') - dsel d (ac_value a) /\
                   (dsel d (ac_value a') - dsel d (ac_value a)) * liq <= pr_sel d f * P18 * P18).
    { destruct ((fst f =? 0) && (snd f =? 0)) eqn:EZ.
      - inversion EA; subst a'. split; [reflexivity|]. split; [lia|]. rewrite Z.sub_diag. nia.
      - destruct (nz liq); [|discriminate EA]. cbv beta iota in EA.
        destruct (dchk (d_quo_truncate (d_from_int (fst f)) liq)) as [x|] eqn:EX; [|discriminate EA]. cbv beta iota in EA.
        destruct (dchk (d_quo_truncate (d_from_int (snd f)) liq)) as [y|] eqn:EY; [|discriminate EA]. cbv beta iota in EA.
        apply dchk_some in EX, EY. destruct (acc_add_to_recs _ _ _ EA) as [RR _]. split; [exact RR|].
        unfold acc_add_to in EA. destruct (dc_add (ac_value a) (x, y)) as [v|] eqn:EV; [|discriminate EA]. inversion EA; subst a'. simpl.
        rewrite (dsel_add d _ _ _ EV).
        assert (XY : dsel d (x, y) = Z.quot (pr_sel d f * P18 * P18) liq).
        { subst x y. unfold d_quo_truncate, d_from_int. destruct d; reflexivity. }
        rewrite XY. assert (N : 0 <= pr_sel d f * P18 * P18) by nia.
        destruct (quot_bounds _ _ N Hl) as [QB _]. assert (Q0 : 0 <= Z.quot (pr_sel d f * P18 * P18) liq) by (apply Z.quot_pos; lia).
        split; [lia|]. replace (dsel d (ac_value a) + Z.quot (pr_sel d f * P18 * P18) liq - dsel d (ac_value a)) with (Z.quot (pr_sel d f * P18 * P18) liq) by lia. lia. }
    destruct HEAD as [RR [G0 GV]].
    split; [simpl; lia|]. split.
    + intro u. destruct u as [|u]; [cbn [nth]; auto|apply PW].
    + change (length (a :: ups)) with (S (length ups)). rewrite usum_shift. cbn [nth lsum]. nia.
Qed.

Lemma claim_uptimes_byup_nonneg : forall d id age isc ups outs uts ups' col forf byup,
  claim_uptimes ups outs uts id age isc = Some (ups', col, forf, byup) -> forall u, 0 <= pr_sel d (nth u byup (0, 0)).
Proof.
  intros d id age isc. induction ups as [|a ups IH]; intros outs uts ups' col forf byup H; destruct outs as [|o outs]; destruct uts as [|ut uts]; simpl in H; try discriminate H.
  - inversion H; subst. intro u. destruct u; destruct d; simpl; lia.
  - destruct (claim_uptimes ups outs uts id age isc) as [[[[ar col0] forf0] byup0]|] eqn:ER; [|discriminate H]. cbv beta iota in H.
    pose proof (IH _ _ _ _ _ _ ER) as B0.
    destruct (acc_has a id) eqn:EH.
    + destruct (update_accum_and_claim a id o) as [[[a' scaled] dust]|] eqn:EU; [|discriminate H]. cbv beta iota in H.
      destruct (scale_down2 scaled isc) as [coins|]; [|discriminate H]. cbv beta iota in H.
      unfold acc_has in EH. destruct (acc_get a id) as [r|] eqn:R; [|discriminate EH].
      destruct (uac_full _ _ _ _ _ _ _ EU R) as [_ [_ [_ [_ HD]]]]. destruct (HD d) as [_ [_ [CO0 _]]].
      destruct (age <? ut); inversion H; subst; intro u; destruct u as [|u]; cbn [nth]; try apply B0; try exact CO0; destruct d; simpl; lia.
    + inversion H; subst. intro u. destruct u as [|u]; cbn [nth]; [destruct d; simpl; lia|apply B0].
Qed.
