(* C08: every stage of the non-swap handlers of CLR/RStep.v is, for every accumulator component, a static evolution of
   the abstract machine (growth events; initialisation of absent ticks; removal of ticks). *)
From Coq Require Import ZArith List Bool Lia.
Import ListNotations.
From Osmo Require Import Base.DecModel CL.TickMath CL.CLMath CL.CLPool CL.CLSwap CL.CLStep
  CLR.Accum CLR.Rewards CLR.RSwap CLR.RStep C08.Telescope C08.View C08.Static.
Open Scope Z_scope.

(* SE k cur T w w': for component k the reward state evolves from w to w' at the fixed current tick cur by a well-formed
   static event list that initialises / removes only ticks in T *)
Definition SE (k : comp) (cur : Z) (T : list Z) (w w' : rwd) : Prop :=
  exists evs, view k w' cur dc0 = a_run (view k w cur dc0) evs /\ evs_static evs /\ evs_wf (view k w cur dc0) evs
              /\ forall j, ~ In j T -> evs_keep evs j.

Lemma SE_refl : forall k cur w, SE k cur [] w w.
Proof. intros. exists []. simpl. repeat split; auto. Qed.

Lemma SE_trans : forall k cur T1 T2 w w1 w2, SE k cur T1 w w1 -> SE k cur T2 w1 w2 -> SE k cur (T1 ++ T2) w w2.
Proof.
  intros k cur T1 T2 w w1 w2 [e1 [A1 [B1 [C1 D1]]]] [e2 [A2 [B2 [C2 D2]]]]. exists (e1 ++ e2).
  rewrite a_run_app, <- A1, A2. repeat split.
  - apply evs_static_app; auto.
  - apply evs_wf_app. rewrite <- A1. auto.
  - intros j Hj. apply evs_keep_app. split; [apply D1|apply D2]; intro X; apply Hj; apply in_or_app; auto.
Qed.

Lemma SE_weaken : forall k cur T T' w w', SE k cur T w w' -> (forall j, In j T -> In j T') -> SE k cur T' w w'.
Proof. intros k cur T T' w w' [e [A [B [C D]]]] H. exists e. repeat split; auto. Qed.

(* a stage that leaves the trackers alone *)
Lemma SE_same_tt : forall k cur w w', rw_tt w' = rw_tt w -> SE k cur [] w w'.
Proof.
  intros k cur w w' H. exists [AGrow (sel_G k w' - sel_G k w)]. repeat split; simpl; auto.
  apply view_grow. assumption.
Qed.

Lemma SE_ensure_tick : forall k w cur liq now i w', ensure_tick w cur liq now i = Some w' ->
  SE k cur (match tt_get (rw_tt w) i with Some _ => [] | None => [i] end) w w'.
Proof.
  intros k w cur liq now i w' H. pose proof (ensure_tick_view k _ _ _ _ _ _ H) as V.
  destruct (tt_get (rw_tt w) i) eqn:EG.
  - exists []. simpl. repeat split; auto.
  - exists [AGrow (sel_G k w' - sel_G k w); AInit i]. split; [exact V|]. split; [simpl; tauto|]. split.
    + simpl. split; [exact I|]. split; [|exact I]. unfold keys. simpl. rewrite vmap_get, EG. simpl. tauto.
    + intros j0 Hj. simpl. split; [exact I|]. split; [|exact I]. intro; subst. apply Hj. left. reflexivity.
Qed.

Lemma SE_remove : forall k cur w i, SE k cur [i] w (set_tt w (tt_remove (rw_tt w) i)).
Proof.
  intros k cur w i. exists [ARemove i]. split; [|split; [simpl; tauto|split; [simpl; tauto|]]].
  - unfold view. simpl. rewrite vmap_remove. reflexivity.
  - intros j0 Hj. simpl. split; [|exact I]. intro; subst. apply Hj. left. reflexivity.
Qed.

(* ---------- which stages leave the trackers alone ---------- *)
Lemma init_or_update_uptime_tt : forall w cur pl now lo hi id liq delta w',
  init_or_update_uptime w cur pl now lo hi id liq delta = Some w' -> rw_tt w' = rw_tt w.
Proof.
  unfold init_or_update_uptime. intros. obind H. inversion H; subst. simpl. apply (update_uptime_tt _ _ _ _ E).
Qed.
Lemma init_or_update_spread_tt : forall w cur lo hi id delta w',
  init_or_update_spread w cur lo hi id delta = Some w' -> rw_tt w' = rw_tt w.
Proof.
  unfold init_or_update_spread. intros. obind H.
  destruct (negb (acc_has (rw_spread w) id)); obind H; inversion H; reflexivity.
Qed.
Lemma prepare_claimable_spread_tt : forall w sc cur lo hi id w' c,
  prepare_claimable_spread w sc cur lo hi id = Some (w', c) -> rw_tt w' = rw_tt w.
Proof.
  unfold prepare_claimable_spread. intros. obind H. inversion H; reflexivity.
Qed.
Lemma prepare_claim_all_incentives_tt : forall w cur pl now lo hi id join w' c f b,
  prepare_claim_all_incentives w cur pl now lo hi id join = Some (w', c, f, b) -> rw_tt w' = rw_tt w.
Proof.
  unfold prepare_claim_all_incentives. intros. obind H. inversion H; subst. simpl. apply (update_uptime_tt _ _ _ _ E).
Qed.
Lemma redeposit_forfeited_tt : forall w byup liq w', redeposit_forfeited w byup liq = Some w' -> rw_tt w' = rw_tt w.
Proof. unfold redeposit_forfeited. intros. obind H. inversion H; reflexivity. Qed.

(* ---------- UpdatePosition, reward side ---------- *)
Definition fresh (w : rwd) (i : Z) : list Z := match tt_get (rw_tt w) i with Some _ => [] | None => [i] end.

Lemma SE_update_position_rewards : forall k w cur pl now lo hi id liq delta w',
  update_position_rewards w cur pl now lo hi id liq delta = Some w' ->
  SE k cur (fresh w lo ++ fresh w hi) w w'.
Proof.
  unfold update_position_rewards. intros k w cur pl now lo hi id liq delta w' H. obind H.
  pose proof (SE_ensure_tick k _ _ _ _ _ _ E) as S1. pose proof (SE_ensure_tick k _ _ _ _ _ _ E0) as S2.
  pose proof (SE_same_tt k cur _ _ (init_or_update_uptime_tt _ _ _ _ _ _ _ _ _ _ E1)) as S3.
  pose proof (SE_same_tt k cur _ _ (init_or_update_spread_tt _ _ _ _ _ _ _ H)) as S4.
  pose proof (SE_trans _ _ _ _ _ _ _ S1 (SE_trans _ _ _ _ _ _ _ S2 (SE_trans _ _ _ _ _ _ _ S3 S4))) as S.
  eapply SE_weaken; [exact S|]. intros j Hj. rewrite !app_nil_r in Hj. apply in_app_or in Hj. apply in_or_app.
  destruct Hj as [Hj|Hj]; [left; exact Hj|right].
  unfold fresh. destruct (tt_get (rw_tt r) hi) eqn:E2; [destruct Hj|].
  destruct (tt_get (rw_tt w) hi) eqn:E3; [|exact Hj].
  exfalso. assert (A : tt_get (rw_tt r) hi <> None). { apply (ensure_tick_keys _ _ _ _ _ _ E). right. congruence. } congruence.
Qed.
