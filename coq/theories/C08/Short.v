(* C08, shortfall_bounded (work in progress): LOWER bounds matching the upper bounds of C08/Paid.v - how much of a position's
   exact entitlement a claim / an update can lose to rounding.  Stage lemmas only; the operations and the history theorem are
   still to be done (see STATUS.md).
   Per claim the entitlement of all positions together drops by at most
     claimed x scaling x 10^18  +  LC,   LC = 10^18 + 2 10^36 + 2 (10^18 scaling + scaling)
   (half-even MulDec: 1/2 unit; TruncateDecimal: < 1 scaled unit, which is either re-deposited - and then partly lost to the positions
   out of range - or dropped on a scaled pool; scale-down truncation: < 1 token + 1 scaled unit). *)
From Coq Require Import ZArith List Bool Lia.
Import ListNotations.
From Osmo Require Import Base.DecModel CL.TickMath CL.CLMath CL.CLPool CL.CLSwap CL.CLStep
  CLR.Accum CLR.Rewards CLR.RSwap CLR.RStep C07.Base C07.LP
  C08.Proj C08.Telescope C08.View C08.Static C08.Stages C08.Ops C08.OpInside C08.SwapTrace C08.Crux C08.Claim C08.Conseq C08.Frame C08.Never C08.SwapWf C08.Dom C08.StaticOk C08.Paid C08.PaidOps C08.PaidSwap C08.PaidHist.
Open Scope Z_scope.

Lemma unscale_ge : forall sc t, 0 < sc -> 0 <= t -> t * P18 * P18 < unscale sc t * sc * P18 + P18 * sc + sc.
Proof.
  intros sc t Hsc Ht. unfold unscale, d_truncate_int, d_quo_truncate, d_from_int. pose proof P18_pos as HP.
  assert (N : 0 <= t * P18 * P18) by nia.
  destruct (quot_bounds (t * P18 * P18) sc N Hsc) as [_ A]. set (q := Z.quot (t * P18 * P18) sc) in *.
  assert (Q0 : 0 <= q) by (apply Z.quot_pos; lia).
  destruct (quot_bounds q P18 Q0 HP) as [_ B]. set (cc := Z.quot q P18) in *. nia.
Qed.

Definition LC (sc : Z) : Z := P18 + 2 * (P18 * P18) + 2 * (P18 * sc + sc).

(* the claimed amount is not much less than the truncated total *)
Lemma claim_low : forall w sc cur l u id w' c r, prepare_claimable_spread w sc cur l u id = Some (w', c) ->
  acc_get (rw_spread w) id = Some r -> 0 < sc -> 0 <= ar_shares r -> (forall d, 0 <= dsel d (ar_unclaimed r)) ->
  forall d, let g := ins d w cur l u - dsel d (ar_snap r) in
    let tot := dsel d (ar_unclaimed r) + d_mul g (ar_shares r) in
    d_truncate_int tot * P18 * P18 <= pr_sel d c * sc * P18 + P18 * sc + sc.
Proof.
  intros w sc cur l u id w' c r H R Hsc HS HU d. cbv zeta.
  destruct (claimable_spread_formula _ _ _ _ _ _ _ _ H) as [r0 [R0 F]]. rewrite R in R0. inversion R0; subst r0.
  destruct (F d) as [G0 FC]. cbv zeta in *. unfold ins. rewrite FC. unfold claim_scaled.
  set (tot := dsel d (ar_unclaimed r) + d_mul (a_inside (view (CS d) w cur dc0) l u - dsel d (ar_snap r)) (ar_shares r)).
  assert (T0 : 0 <= d_truncate_int tot).
  { unfold d_truncate_int. apply Z.quot_pos; [|pose proof P18_pos; lia]. unfold tot.
    destruct (d_mul_bounds _ _ G0 HS) as [A _]. pose proof P18_pos. specialize (HU d). nia. }
  pose proof P18_pos as HP.
  destruct (sc =? P18) eqn:E.
  - apply Z.eqb_eq in E. subst sc. nia.
  - pose proof (unscale_ge sc (d_truncate_int tot) Hsc T0). lia.
Qed.

(* ---------- the claim stage, from below ---------- *)
Lemma stage_claim_low : forall w sc cur id l u w' c r O,
  prepare_claimable_spread w sc cur l u id = Some (w', c) -> acc_get (rw_spread w) id = Some r -> 0 <= ar_shares r ->
  (forall d, 0 <= dsel d (ar_unclaimed r)) ->
  l < u -> tks w l u -> (forall p, In p O -> ps_id p <> id) -> PT w O -> (forall p, In p O -> 0 <= shares_of w p) ->
  0 <= ac_total (rw_spread w) -> 0 < sc ->
  forall d, exists oq, (forall r', acc_get (rw_spread w') id = Some r' -> ar_shares r <> 0 -> owedr d w' cur l u r' = oq) /\ 0 <= oq /\
     2 * (zsum (owed d w cur) O + owedr d w cur l u r)
       <= 2 * (zsum (owed d w' cur) O + oq) + 2 * (pr_sel d c * sc * P18) + LC sc.
Proof.
  intros w sc cur id l u w' c r O H R HS HU Hlu TK HO HPT HSH HT' Hsc d.
  destruct (prepare_claimable_spread_full _ _ _ _ _ _ _ _ _ H R HT' Hsc) as [REC [SO [TT [TOT HD]]]].
  pose proof (claim_low _ _ _ _ _ _ _ _ _ H R Hsc HS HU d) as CL. cbv zeta in CL.
  assert (SEd : SE (CS d) cur [] w w') by (apply SE_same_tt; exact TT).
  destruct (HD d) as [G0 [C0 [CSc [per [GV [P0 [PT' D0]]]]]]]. cbv zeta in *.
  set (g := ins d w cur l u - dsel d (ar_snap r)) in *. set (tot := dsel d (ar_unclaimed r) + d_mul g (ar_shares r)) in *.
  set (tr := d_truncate_int tot) in *.
  assert (GG : sel_G (CS d) w' - sel_G (CS d) w = per) by (simpl; lia).
  (* the others only gain *)
  assert (OTH : zsum (owed d w cur) O <= zsum (owed d w' cur) O).
  { apply zsum_le. intros p Hp. destruct (HPT p Hp) as [Hlu' TK'].
    destruct (SE_inside_gen (CS d) cur [] w w' _ _ SEd Hlu' TK' ltac:(simpl; tauto) ltac:(simpl; tauto)) as [I _].
    rewrite (owed_frame d w w' cur p (if in_rng (ps_lower p) (ps_upper p) cur then per else 0));
      [|apply SO; apply HO; exact Hp|unfold ins; rewrite I, GG; reflexivity].
    pose proof (HSH p Hp). destruct (in_rng (ps_lower p) (ps_upper p) cur); nia. }
  destruct (SE_inside_gen (CS d) cur [] w w' l u SEd Hlu TK ltac:(simpl; tauto) ltac:(simpl; tauto)) as [Iq _]. rewrite GG in Iq.
  exists ((if in_rng l u cur then per else 0) * ar_shares r). split; [|split].
  - intros r' R' NZ. destruct (REC NZ) as [insv [HI RA]]. rewrite RA in R'. inversion R'; subst r'. unfold owedr. simpl.
    rewrite dsel_dc0, (HI d). unfold ins. rewrite Iq. fold (ins d w cur l u). lia.
  - destruct (in_rng l u cur); nia.
  - assert (Q0 : 0 <= (if in_rng l u cur then per else 0) * ar_shares r) by (destruct (in_rng l u cur); nia).
    pose proof (d_mul_bounds g (ar_shares r) G0 HS) as MB.
    assert (OW : owedr d w cur l u r = dsel d (ar_unclaimed r) * P18 + g * ar_shares r) by reflexivity.
    pose proof P18_pos as HP.
    (* tot < (tr + 1) 10^18 *)
    assert (TRB : tot < tr * P18 + P18).
    { unfold tr, d_truncate_int. assert (T0 : 0 <= tot) by (unfold tot; specialize (HU d); nia).
      destruct (quot_bounds tot P18 T0 HP) as [_ B]. lia. }
    set (un := dsel d (ar_unclaimed r)) in *. set (m := d_mul g (ar_shares r)) in *. set (gs := g * ar_shares r) in *.
    assert (TU : tot = un + m) by reflexivity. unfold LC. rewrite OW.
    clearbody gs m un tr. nia.
Qed.

(* ---------- the share-change stage, from below ---------- *)
Lemma stage_update_low : forall w cur id l u delta w' r, init_or_update_spread w cur l u id delta = Some w' ->
  acc_get (rw_spread w) id = Some r -> 0 <= ar_shares r ->
  forall r', acc_get (rw_spread w') id = Some r' -> forall d, 2 * owedr d w cur l u r <= 2 * owedr d w' cur l u r' + P18.
Proof.
  intros w cur id l u delta w' r H R HS r' R' d.
  destruct (init_or_update_spread_gen _ _ _ _ _ _ _ _ H R) as [insv [un [RA [HI [HU [TT [VV TOT]]]]]]].
  rewrite RA in R'. inversion R'; subst r'.
  assert (IS : ins d w' cur l u = ins d w cur l u).
  { unfold ins. f_equal. apply view_same; [exact TT|]. simpl. rewrite VV. reflexivity. }
  unfold owedr. cbn [ar_shares ar_snap ar_unclaimed]. rewrite IS, (HI d). destruct (HU d) as [G0 UN]. rewrite UN.
  pose proof (d_mul_bounds _ _ G0 HS) as MB. rewrite Z.sub_diag, Z.mul_0_l.
  set (g := ins d w cur l u - dsel d (ar_snap r)) in *. set (m := d_mul g (ar_shares r)) in *. set (gs := g * ar_shares r) in *.
  clearbody gs m. lia.
Qed.

(* ---------- one collect, from below ---------- *)
Lemma short_collect_one : forall rs id q b w x, PI rs -> 0 < sc_of rs ->
  pos_get (s_pos (r_base rs)) id = Some q ->
  (forall r, acc_get (rw_spread (r_rw rs)) id = Some r -> forall d, 0 <= dsel d (ar_unclaimed r)) ->
  collect_spread_rewards (s_bank (r_base rs)) (r_rw rs) (p_scaling (s_pool (r_base rs))) (p_tick (s_pool (r_base rs))) q = Some (b, w, x) ->
  let rs' := mkRS (set_bank (r_base rs) b) w in
  forall d, Phi d rs <= Phi d rs' + LC (sc_of rs).
Proof.
  intros rs id q b w x [RI [RM [TOT FR]]] HSC Q HUN E rs'. pose proof RI as [I [D S]].
  destruct (collect_spread_rewards_bank _ _ _ _ _ _ _ _ E) as [PC BC].
  assert (QI : ps_id q = id) by (eapply pos_get_id; exact Q). assert (QIn : In q (s_pos (r_base rs))) by (eapply pos_get_in; exact Q).
  rewrite QI in PC. set (cur := p_tick (s_pool (r_base rs))) in *. set (P := s_pos (r_base rs)) in *.
  set (lo := ps_lower q) in *. set (hi := ps_upper q) in *. set (O := pos_remove P id).
  assert (OS : ids_sorted P) by apply (inv_pos_sorted _ I).
  assert (OIn : forall p, In p O -> In p P /\ ps_id p <> id) by (intros p Hp; apply (in_pos_remove P id p OS Hp)).
  pose proof (PI_PT rs RI) as HPT. fold P in HPT.
  assert (PTO : PT (r_rw rs) O) by (apply (PT_subset _ P); [exact HPT|intros p Hp; apply OIn; exact Hp]).
  destruct (HPT q QIn) as [Hlu TK]. fold lo hi in Hlu, TK.
  destruct (RM q QIn) as [r [R SH]]. rewrite QI in R.
  assert (LP : forall p, In p P -> 0 < ps_liq p).
  { intros p Hp. pose proof (inv_pos_ok _ I) as F. rewrite Forall_forall in F. destruct (F p Hp) as [_ [X _]]. exact X. }
  assert (SHO : forall p, In p O -> shares_of (r_rw rs) p = ps_liq p) by (intros p Hp; apply recs_match_shares; [exact RM|apply OIn; exact Hp]).
  assert (ZSH : zsum (shares_of (r_rw rs)) O = zsum ps_liq O) by (apply zsum_ext; exact SHO).
  assert (NNO : 0 <= zsum ps_liq O) by (apply zsum_nonneg; intros p Hp; pose proof (LP p (proj1 (OIn p Hp))); lia).
  assert (TO : zsum ps_liq O = zsum ps_liq P - ps_liq q) by (apply zsum_remove; exact Q).
  pose proof (LP q QIn) as LQ.
  destruct (stage_claim _ _ cur _ _ _ _ _ _ O PC R ltac:(lia) Hlu TK (fun p Hp => proj2 (OIn p Hp)) PTO
             ltac:(intros p Hp; rewrite (SHO p Hp); pose proof (LP p (proj1 (OIn p Hp))); lia)
             ltac:(rewrite ZSH, TOT; fold P; lia) HSC) as [CL [PTD [TKD [SHD [TOTD [REC SOD]]]]]].
  assert (NZ : ar_shares r <> 0) by lia. destruct (REC NZ) as [r' [R' SH']].
  intro d.
  destruct (stage_claim_low _ _ cur _ _ _ _ _ _ O PC R ltac:(lia) (HUN r R) Hlu TK (fun p Hp => proj2 (OIn p Hp)) PTO
             ltac:(intros p Hp; rewrite (SHO p Hp); pose proof (LP p (proj1 (OIn p Hp))); lia)
             ltac:(rewrite TOT; fold P; lia) HSC d) as [oq [OQ [OQ0 INEQ]]].
  assert (ON : Owed d rs' = zsum (owed d w cur) O + oq).
  { unfold Owed, cur_tick. simpl. fold P cur. rewrite <- (OQ r' R' NZ).
    pose proof (zsum_remove (owed d w cur) P id q Q) as ZR. fold O in ZR. rewrite ZR.
    unfold owed at 3. rewrite QI, R'. fold lo hi. lia. }
  assert (OLD : Owed d rs = zsum (owed d (r_rw rs) cur) O + owedr d (r_rw rs) cur lo hi r).
  { unfold Owed. fold P. change (cur_tick rs) with cur. pose proof (zsum_remove (owed d (r_rw rs) cur) P id q Q) as ZR. fold O in ZR. rewrite ZR.
    unfold owed at 3. rewrite QI, R. fold lo hi. lia. }
  unfold Phi. rewrite ON, OLD. unfold spread_bal, sc_of, rs', set_bank. cbn [r_base r_rw s_bank s_pool]. rewrite BC.
  set (bal := b_spread (s_bank (r_base rs))) in *.
  assert (BD : pr_sel d (fst bal - fst x, snd bal - snd x) = pr_sel d bal - pr_sel d x) by (destruct d; reflexivity).
  rewrite BD. fold (sc_of rs) in INEQ |- *.
  set (so := zsum (owed d (r_rw rs) cur) O) in *. set (o4 := zsum (owed d w cur) O) in *. set (o0 := owedr d (r_rw rs) cur lo hi r) in *.
  set (cd := pr_sel d x) in *. set (bd := pr_sel d bal) in *. set (scv := sc_of rs) in *.
  assert (LCP : 0 <= LC scv) by (unfold LC; pose proof P18_pos; nia).
  clearbody so o4 o0 cd bd scv. nia.
Qed.
