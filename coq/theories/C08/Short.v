(* C08, shortfall_bounded (work in progress): LOWER bounds matching the upper bounds of C08/Paid.v - how much of a position's
   exact entitlement a claim / an update can lose to rounding.  Stage lemmas only; the operations and the history theorem are
   still to be done (see STATUS.md).
   Per claim the entitlement of all positions together drops by at most
     claimed x scaling x 10^18  +  LC,   LC = 10^18 + 2 10^36 + 2 (10^18 scaling + scaling)
   (half-even MulDec: 1/2 unit; TruncateDecimal: < 1 scaled unit, which is either re-deposited - and then partly lost to the positions
   out of range - or dropped on a scaled pool; scale-down truncation: < 1 token + 1 scaled unit). *)
From Coq Require Import ZArith List Bool Lia.
Import ListNotations.
From Osmo Require Import Base.DecModel CL.TickMath CL.CLMath CL.CLPool CL.CLSwap CL.CLStep
  CLR.Accum CLR.Rewards CLR.RSwap CLR.RStep C07.Base C07.LP
  C08.Proj C08.Telescope C08.View C08.Static C08.Stages C08.Ops C08.OpInside C08.SwapTrace C08.Crux C08.Claim C08.Conseq C08.Frame C08.Never C08.Paid.
Open Scope Z_scope.

Lemma unscale_ge : forall sc t, 0 < sc -> 0 <= t -> t * P18 * P18 < unscale sc t * sc * P18 + P18 * sc + sc.
Proof.
  intros sc t Hsc Ht. unfold unscale, d_truncate_int, d_quo_truncate, d_from_int. pose proof P18_pos as HP.
  assert (N : 0 <= t * P18 * P18) by nia.
  destruct (quot_bounds (t * P18 * P18) sc N Hsc) as [_ A]. set (q := Z.quot (t * P18 * P18) sc) in *.
  assert (Q0 : 0 <= q) by (apply Z.quot_pos; lia).
  destruct (quot_bounds q P18 Q0 HP) as [_ B]. set (cc := Z.quot q P18) in *. nia.
Qed.

Definition LC (sc : Z) : Z := P18 + 2 * (P18 * P18) + 2 * (P18 * sc + sc).

(* the claimed amount is not much less than the truncated total *)
Lemma claim_low : forall w sc cur l u id w' c r, prepare_claimable_spread w sc cur l u id = Some (w', c) ->
  acc_get (rw_spread w) id = Some r -> 0 < sc -> 0 <= ar_shares r -> (forall d, 0 <= dsel d (ar_unclaimed r)) ->
  forall d, let g := ins d w cur l u - dsel d (ar_snap r) in
    let tot := dsel d (ar_unclaimed r) + d_mul g (ar_shares r) in
    d_truncate_int tot * P18 * P18 <= pr_sel d c * sc * P18 + P18 * sc + sc.
Proof.
  intros w sc cur l u id w' c r H R Hsc HS HU d. cbv zeta.
  destruct (claimable_spread_formula _ _ _ _ _ _ _ _ H) as [r0 [R0 F]]. rewrite R in R0. inversion R0; subst r0.
  destruct (F d) as [G0 FC]. cbv zeta in *. unfold ins. rewrite FC. unfold claim_scaled.
  set (tot := dsel d (ar_unclaimed r) + d_mul (a_inside (view (CS d) w cur dc0) l u - dsel d (ar_snap r)) (ar_shares r)).
  assert (T0 : 0 <= d_truncate_int tot).
  { unfold d_truncate_int. apply Z.quot_pos; [|pose proof P18_pos; lia]. unfold tot.
    destruct (d_mul_bounds _ _ G0 HS) as [A _]. pose proof P18_pos. specialize (HU d). nia. }
  pose proof P18_pos as HP.
  destruct (sc =? P18) eqn:E.
  - apply Z.eqb_eq in E. subst sc. nia.
  - pose proof (unscale_ge sc (d_truncate_int tot) Hsc T0). lia.
Qed.

(* ---------- the claim stage, from below ---------- *)
Lemma stage_claim_low : forall w sc cur id l u w' c r O,
  prepare_claimable_spread w sc cur l u id = Some (w', c) -> acc_get (rw_spread w) id = Some r -> 0 <= ar_shares r ->
  (forall d, 0 <= dsel d (ar_unclaimed r)) ->
  l < u -> tks w l u -> (forall p, In p O -> ps_id p <> id) -> PT w O -> (forall p, In p O -> 0 <= shares_of w p) ->
  0 <= ac_total (rw_spread w) -> 0 < sc ->
  forall d, exists oq, (forall r', acc_get (rw_spread w') id = Some r' -> ar_shares r <> 0 -> owedr d w' cur l u r' = oq) /\ 0 <= oq /\
     2 * (zsum (owed d w cur) O + owedr d w cur l u r)
       <= 2 * (zsum (owed d w' cur) O + oq) + 2 * (pr_sel d c * sc * P18) + LC sc.
Proof.
  intros w sc cur id l u w' c r O H R HS HU Hlu TK HO HPT HSH HT' Hsc d.
  destruct (prepare_claimable_spread_full _ _ _ _ _ _ _ _ _ H R HT' Hsc) as [REC [SO [TT [TOT HD]]]].
  pose proof (claim_low _ _ _ _ _ _ _ _ _ H R Hsc HS HU d) as CL. cbv zeta in CL.
  assert (SEd : SE (CS d) cur [] w w') by (apply SE_same_tt; exact TT).
  destruct (HD d) as [G0 [C0 [CSc [per [GV [P0 [PT' D0]]]]]]]. cbv zeta in *.
  set (g := ins d w cur l u - dsel d (ar_snap r)) in *. set (tot := dsel d (ar_unclaimed r) + d_mul g (ar_shares r)) in *.
  set (tr := d_truncate_int tot) in *.
  assert (GG : sel_G (CS d) w' - sel_G (CS d) w = per) by (simpl; lia).
  (* the others only gain *)
  assert (OTH : zsum (owed d w cur) O <= zsum (owed d w' cur) O).
  { apply zsum_le. intros p Hp. destruct (HPT p Hp) as [Hlu' TK'].
    destruct (SE_inside_gen (CS d) cur [] w w' _ _ SEd Hlu' TK' ltac:(simpl; tauto) ltac:(simpl; tauto)) as [I _].
    rewrite (owed_frame d w w' cur p (if in_rng (ps_lower p) (ps_upper p) cur then per else 0));
      [|apply SO; apply HO; exact Hp|unfold ins; rewrite I, GG; reflexivity].
    pose proof (HSH p Hp). destruct (in_rng (ps_lower p) (ps_upper p) cur); nia. }
  destruct (SE_inside_gen (CS d) cur [] w w' l u SEd Hlu TK ltac:(simpl; tauto) ltac:(simpl; tauto)) as [Iq _]. rewrite GG in Iq.
  exists ((if in_rng l u cur then per else 0) * ar_shares r). split; [|split].
  - intros r' R' NZ. destruct (REC NZ) as [insv [HI RA]]. rewrite RA in R'. inversion R'; subst r'. unfold owedr. simpl.
    rewrite dsel_dc0, (HI d). unfold ins. rewrite Iq. fold (ins d w cur l u). lia.
  - destruct (in_rng l u cur); nia.
  - assert (Q0 : 0 <= (if in_rng l u cur then per else 0) * ar_shares r) by (destruct (in_rng l u cur); nia).
    pose proof (d_mul_bounds g (ar_shares r) G0 HS) as MB.
    assert (OW : owedr d w cur l u r = dsel d (ar_unclaimed r) * P18 + g * ar_shares r) by reflexivity.
    pose proof P18_pos as HP.
    (* tot < (tr + 1) 10^18 *)
    assert (TRB : tot < tr * P18 + P18).
    { unfold tr, d_truncate_int. assert (T0 : 0 <= tot) by (unfold tot; specialize (HU d); nia).
      destruct (quot_bounds tot P18 T0 HP) as [_ B]. lia. }
    set (un := dsel d (ar_unclaimed r)) in *. set (m := d_mul g (ar_shares r)) in *. set (gs := g * ar_shares r) in *.
    assert (TU : tot = un + m) by reflexivity. unfold LC. rewrite OW.
    clearbody gs m un tr. nia.
Qed.

(* ---------- the share-change stage, from below ---------- *)
Lemma stage_update_low : forall w cur id l u delta w' r, init_or_update_spread w cur l u id delta = Some w' ->
  acc_get (rw_spread w) id = Some r -> 0 <= ar_shares r ->
  forall r', acc_get (rw_spread w') id = Some r' -> forall d, 2 * owedr d w cur l u r <= 2 * owedr d w' cur l u r' + P18.
Proof.
  intros w cur id l u delta w' r H R HS r' R' d.
  destruct (init_or_update_spread_gen _ _ _ _ _ _ _ _ H R) as [insv [un [RA [HI [HU [TT [VV TOT]]]]]]].
  rewrite RA in R'. inversion R'; subst r'.
  assert (IS : ins d w' cur l u = ins d w cur l u).
  { unfold ins. f_equal. apply view_same; [exact TT|]. simpl. rewrite VV. reflexivity. }
  unfold owedr. cbn [ar_shares ar_snap ar_unclaimed]. rewrite IS, (HI d). destruct (HU d) as [G0 UN]. rewrite UN.
  pose proof (d_mul_bounds _ _ G0 HS) as MB. rewrite Z.sub_diag, Z.mul_0_l.
  set (g := ins d w cur l u - dsel d (ar_snap r)) in *. set (m := d_mul g (ar_shares r)) in *. set (gs := g * ar_shares r) in *.
  clearbody gs m. lia.
Qed.
