(* C08: the trace of every swap from a state satisfying the bookkeeping invariant of C07 (C07/LP.v Inv) is well-formed:
   a crossing changes the side of the current tick for the crossed tick only, landing inside a bucket does not change it
   for any stored tick.  This discharges the side condition of growth_inside_telescopes for swaps; it rests on b-cl's
   loop invariant for the swap loops (C07/Swap.v: LI, after_step_LI, landing_equiv, the direction lemmas). *)
From Coq Require Import ZArith List Bool Lia.
Import ListNotations.
From Osmo Require Import Base.DecModel CL.TickMath CL.CLMath CL.CLPool CL.CLSwap CL.CLStep
  CLR.Accum CLR.Rewards CLR.RSwap CLR.RStep C07.Base C07.TickLemmas C07.LP C07.Swap
  C08.Proj C08.Telescope C08.View C08.Static C08.Stages C08.Ops C08.OpInside C08.SwapTrace C08.Crux.
Open Scope Z_scope.

Fixpoint sev_wf (K : Z -> Prop) (zfo : bool) (c : Z) (evs : list sev) : Prop :=
  match evs with
  | [] => True
  | EvGrow _ :: r => sev_wf K zfo c r
  | EvCross i :: r =>
      let c' := if zfo then i - 1 else i in
      K i /\ ~ same_side c c' i /\ (forall j, K j -> j <> i -> same_side c c' j) /\ sev_wf K zfo c' r
  | EvMove t :: r => (forall j, K j -> same_side c t j) /\ sev_wf K zfo t r
  end.

Lemma sev_wf_app : forall K zfo e1 e2 c, sev_wf K zfo c (e1 ++ e2) <-> sev_wf K zfo c e1 /\ sev_wf K zfo (run_tick zfo c e1) e2.
Proof.
  induction e1 as [|e r IH]; intros e2 c; simpl; [tauto|]. destruct e as [g|i|t]; simpl; rewrite ?IH; tauto.
Qed.

Definition stored (s : state) (j : Z) : Prop := exists v, In (j, v) (s_ticks s).

Lemma beyond_same_side : forall zfo c c' k, beyond zfo c k = beyond zfo c' k -> same_side c c' k.
Proof.
  unfold beyond, same_side. intros zfo c c' k H. destruct zfo.
  - destruct (k <=? c) eqn:E1; destruct (k <=? c') eqn:E2; try discriminate;
      try apply Z.leb_le in E1; try apply Z.leb_gt in E1; try apply Z.leb_le in E2; try apply Z.leb_gt in E2; split; lia.
  - destruct (c <? k) eqn:E1; destruct (c' <? k) eqn:E2; try discriminate;
      try apply Z.ltb_lt in E1; try apply Z.ltb_ge in E1; try apply Z.ltb_lt in E2; try apply Z.ltb_ge in E2; split; lia.
Qed.

Lemma step_events_wf : forall s zfo accum sc st nt info rest nts computed dspec dcalc fee st' iter',
  Inv s -> LI s zfo st ((nt, info) :: rest) -> tick_to_sqrt_price nt = Some nts ->
  (computed = nts \/ computed = ss_sqrt st \/ dir_ok zfo (ss_sqrt st) computed) ->
  after_step zfo accum sc st ((nt, info) :: rest) nt info nts computed dspec dcalc fee = Some (st', iter') ->
  sev_wf (stored s) zfo (ss_tick st) (step_events zfo accum sc st nt nts computed fee).
Proof.
  intros s zfo accum sc st nt info rest nts computed dspec dcalc fee st' iter' I [L1 [L2 [L3 L4]]] Snt Dir H.
  unfold after_step in H. unfold step_events.
  destruct (if accum then update_fee_growth sc st fee else Some st) as [st1|] eqn:E1; [|discriminate H]. simpl in H. simpl.
  destruct (dchk (ss_remaining st1 - dspec)) as [rem|]; [|discriminate H]. simpl in H.
  destruct (dchk (ss_calculated st1 + dcalc)) as [calc|]; [|discriminate H]. simpl in H.
  destruct (iter_ok_head _ _ _ _ _ _ L4) as [Hin [Hb [Near Hrest]]].
  destruct (nts =? computed) eqn:Ec.
  - (* crossing nt *)
    simpl. split; [exists info; exact Hin|]. unfold beyond in Hb. split; [|split; [|exact Logic.I]].
    + unfold same_side. destruct zfo; [apply Z.leb_le in Hb|apply Z.ltb_lt in Hb]; intro X; lia.
    + intros j [v Hj] Nj. unfold same_side. specialize (Near j v Hj). unfold beyond in Near. destruct zfo.
      * apply Z.leb_le in Hb. split; intro X.
        -- assert (j <= nt) by (apply Near; apply Z.leb_le; exact X). lia.
        -- lia.
      * apply Z.ltb_lt in Hb. split; intro X.
        -- lia.
        -- destruct (Z_le_gt_dec j (ss_tick st)) as [A|A]; [exact A|].
           assert (nt <= j) by (apply Near; apply Z.ltb_lt; lia). lia.
  - apply Z.eqb_neq in Ec. destruct (edge_case zfo nts computed) eqn:Ee; [discriminate H|].
    destruct (negb (ss_sqrt st =? computed)) eqn:Es; [|simpl; exact Logic.I].
    apply negb_true_iff in Es. apply Z.eqb_neq in Es.
    destruct (calculate_sqrt_price_to_tick computed) as [t|] eqn:Et; [|discriminate H]. simpl.
    apply calculate_sqrt_price_to_tick_cert in Et. pose proof (bucket_cert_pos _ _ Et) as Cpos.
    assert (Dir' : if zfo then nts < computed /\ computed < ss_sqrt st else computed < nts /\ ss_sqrt st <= computed).
    { destruct Dir as [D|[D|[D|D]]]; try congruence; try lia.
      unfold edge_case in Ee. destruct zfo; [apply Z.ltb_ge in Ee|apply Z.ltb_ge in Ee]; lia. }
    pose proof (landing_equiv s zfo (ss_tick st) (ss_sqrt st) computed t nt info nts I L3 Et Hin Snt Near Dir') as EQ.
    split; [|exact Logic.I]. intros j [v Hj]. apply (beyond_same_side zfo). apply (EQ j v Hj).
Qed.

Lemma eloop_out_wf : forall s fuel zfo accum sc limit st iter noprog st' evs, Inv s ->
  sqrt_price_limit zfo = Some limit -> LI s zfo st iter ->
  eloop_out_given_in fuel zfo accum (p_spread (s_pool s)) sc limit st iter noprog = (Some st', evs) ->
  sev_wf (stored s) zfo (ss_tick st) evs.
Proof.
  intros s fuel. induction fuel as [|f IH]; intros zfo accum sc limit st iter noprog st' evs I HL L H; simpl in H; [discriminate H|].
  destruct ((smallest_dec <? ss_remaining st) && negb (ss_sqrt st =? limit)) eqn:Econd; [|inversion H; subst; exact Logic.I].
  apply andb_true_iff in Econd. destruct Econd as [Erem _]. apply Z.ltb_lt in Erem. unfold smallest_dec in Erem.
  destruct iter as [|[nt info] rest]; [discriminate H|].
  destruct (tick_to_sqrt_price nt) as [nts|] eqn:Snt; [|discriminate H].
  destruct (LI_facts s zfo st nt info rest nts I L Snt) as [Fl [Fr Fz]].
  rewrite (sqrt_target_next zfo limit nt nts HL Fr Snt) in H.
  destruct (compute_out_given_in zfo (p_spread (s_pool s)) (ss_sqrt st) nts (ss_liq st) (ss_remaining st)) as [[[[computed ain] aout] fee]|] eqn:EC; [|discriminate H].
  destruct (negb (progress_ok computed (ss_sqrt st) ain aout)); [discriminate H|].
  destruct (dchk (ain + fee)) as [infee|]; [|discriminate H].
  destruct (after_step zfo accum sc st ((nt, info) :: rest) nt info nts computed infee aout fee) as [[st1 iter1]|] eqn:EA; [|discriminate H].
  assert (Dir : computed = nts \/ computed = ss_sqrt st \/ dir_ok zfo (ss_sqrt st) computed).
  { destruct L as [_ [L2 _]].
    destruct (compute_out_given_in_dir _ _ _ _ _ _ _ _ _ _ EC Fl L2 Erem (inv_spread s I) Fz) as [D|D]; [left; assumption|right; right; assumption]. }
  assert (L' : LI s zfo st1 iter1) by (eapply after_step_LI; try eassumption; reflexivity).
  pose proof (step_events_wf _ _ _ _ _ _ _ _ _ _ _ _ _ _ _ I L Snt Dir EA) as W1.
  pose proof (after_step_tick _ _ _ _ _ _ _ _ _ _ _ _ _ _ EA) as T1.
  destruct (ain =? 0).
  - destruct (swap_no_progress_limit <=? noprog); [discriminate H|].
    destruct (eloop_out_given_in f zfo accum (p_spread (s_pool s)) sc limit st1 iter1 (noprog + 1)) as [r1 evs1] eqn:EL. inversion H; subst.
    apply sev_wf_app. split; [exact W1|]. rewrite <- T1. eapply IH; eassumption.
  - destruct (eloop_out_given_in f zfo accum (p_spread (s_pool s)) sc limit st1 iter1 noprog) as [r1 evs1] eqn:EL. inversion H; subst.
    apply sev_wf_app. split; [exact W1|]. rewrite <- T1. eapply IH; eassumption.
Qed.

Lemma eloop_in_wf : forall s fuel zfo accum sc limit st iter noprog st' evs, Inv s ->
  sqrt_price_limit zfo = Some limit -> LI s zfo st iter ->
  eloop_in_given_out fuel zfo accum (p_spread (s_pool s)) sc limit st iter noprog = (Some st', evs) ->
  sev_wf (stored s) zfo (ss_tick st) evs.
Proof.
  intros s fuel. induction fuel as [|f IH]; intros zfo accum sc limit st iter noprog st' evs I HL L H; simpl in H; [discriminate H|].
  destruct ((smallest_dec <? ss_remaining st) && negb (ss_sqrt st =? limit)) eqn:Econd; [|inversion H; subst; exact Logic.I].
  apply andb_true_iff in Econd. destruct Econd as [Erem _]. apply Z.ltb_lt in Erem. unfold smallest_dec in Erem.
  destruct iter as [|[nt info] rest]; [discriminate H|].
  destruct (tick_to_sqrt_price nt) as [nts|] eqn:Snt; [|discriminate H].
  destruct (LI_facts s zfo st nt info rest nts I L Snt) as [Fl [Fr Fz]].
  rewrite (sqrt_target_next zfo limit nt nts HL Fr Snt) in H.
  destruct (compute_in_given_out zfo (p_spread (s_pool s)) (ss_sqrt st) nts (ss_liq st) (ss_remaining st)) as [[[[computed aout] ain] fee]|] eqn:EC; [|discriminate H].
  destruct (negb (progress_ok computed (ss_sqrt st) ain aout)); [discriminate H|].
  destruct (dchk (ain + fee)) as [infee|]; [|discriminate H].
  destruct (after_step zfo accum sc st ((nt, info) :: rest) nt info nts computed aout infee fee) as [[st1 iter1]|] eqn:EA; [|discriminate H].
  assert (Dir : computed = nts \/ computed = ss_sqrt st \/ dir_ok zfo (ss_sqrt st) computed).
  { destruct L as [_ [L2 _]].
    destruct (compute_in_given_out_dir _ _ _ _ _ _ _ _ _ _ EC Fl L2 Erem) as [D|D]; [left; assumption|right; right; assumption]. }
  assert (L' : LI s zfo st1 iter1) by (eapply after_step_LI; try eassumption; reflexivity).
  pose proof (step_events_wf _ _ _ _ _ _ _ _ _ _ _ _ _ _ _ I L Snt Dir EA) as W1.
  pose proof (after_step_tick _ _ _ _ _ _ _ _ _ _ _ _ _ _ EA) as T1.
  destruct (aout =? 0).
  - destruct (swap_no_progress_limit <=? noprog); [discriminate H|].
    destruct (eloop_in_given_out f zfo accum (p_spread (s_pool s)) sc limit st1 iter1 (noprog + 1)) as [r1 evs1] eqn:EL. inversion H; subst.
    apply sev_wf_app. split; [exact W1|]. rewrite <- T1. eapply IH; eassumption.
  - destruct (eloop_in_given_out f zfo accum (p_spread (s_pool s)) sc limit st1 iter1 noprog) as [r1 evs1] eqn:EL. inversion H; subst.
    apply sev_wf_app. split; [exact W1|]. rewrite <- T1. eapply IH; eassumption.
Qed.

(* every swap from a state satisfying Inv has a well-formed event list *)
Theorem swap_events_wf : forall s ei zfo amt evs, Inv s -> swap_events s ei zfo amt = Some evs ->
  sev_wf (stored s) zfo (p_tick (s_pool s)) evs.
Proof.
  unfold swap_events. intros s ei zfo amt evs I H.
  destruct (swap_setup s zfo) as [[limit iter]|] eqn:ES; [|discriminate H]. simpl in H.
  destruct (swap_setup_LI s zfo limit iter (d_from_int amt) I ES) as [HL [_ L]].
  destruct ei.
  - destruct (eloop_out_given_in _ _ _ _ _ _ _ _ _) as [r evs1] eqn:EL. destruct r as [st|]; [|discriminate H]. inversion H; subst.
    apply (eloop_out_wf _ _ _ _ _ _ _ _ _ _ _ I HL L EL).
  - destruct (eloop_in_given_out _ _ _ _ _ _ _ _ _) as [r evs1] eqn:EL. destruct r as [st|]; [|discriminate H]. inversion H; subst.
    apply (eloop_in_wf _ _ _ _ _ _ _ _ _ _ _ I HL L EL).
Qed.

(* ---------- from the event list to the abstract trace of every component ---------- *)
Definition tkeys (w : rwd) (j : Z) : Prop := tt_get (rw_tt w) j <> None.

Lemma tt_get_set : forall m k v k', tt_get (tt_set m k v) k' = if k' =? k then Some v else tt_get m k'.
Proof.
  induction m as [|[a b] m IH]; intros k v k'; simpl.
  - destruct (k' =? k); reflexivity.
  - destruct (k <? a) eqn:E1; simpl.
    + destruct (k' =? k); reflexivity.
    + destruct (k =? a) eqn:E2; simpl.
      * apply Z.eqb_eq in E2. subst a. destruct (k' =? k); reflexivity.
      * rewrite IH. destruct (k' =? a) eqn:E3; [|reflexivity].
        apply Z.eqb_eq in E3. subst a. destruct (k' =? k) eqn:E4; [|reflexivity].
        apply Z.eqb_eq in E4. subst k'. rewrite Z.eqb_refl in E2. discriminate.
Qed.

Lemma keys_view_p : forall k w c p j, keys (view k w c p) j <-> tt_get (rw_tt w) j <> None.
Proof. intros. unfold keys. simpl. rewrite vmap_get. destruct (tt_get (rw_tt w) j); simpl; split; congruence. Qed.

Lemma cross_trackers_keys : forall w din pending i w', cross_trackers w din pending i = Some w' ->
  forall j, tkeys w' j <-> tkeys w j.
Proof.
  unfold cross_trackers, tkeys. intros w din pending i w' H j. obind H. inversion H; subst. simpl. rewrite tt_get_set.
  destruct (j =? i) eqn:EJ; [|tauto]. apply Z.eqb_eq in EJ. subst j. rewrite E. split; discriminate.
Qed.

Lemma sev_wf_ext : forall K K' zfo evs c, (forall j, K j <-> K' j) -> sev_wf K zfo c evs -> sev_wf K' zfo c evs.
Proof.
  induction evs as [|e r IH]; intros c HK H; simpl in *; [exact I|]. destruct e as [g|i|t].
  - apply IH; assumption.
  - destruct H as [A [B [C D]]]. split; [apply HK; exact A|]. split; [exact B|]. split; [|apply IH; assumption].
    intros j Kj. apply C. apply HK. exact Kj.
  - destruct H as [A B]. split; [|apply IH; assumption]. intros j Kj. apply A. apply HK. exact Kj.
Qed.

Lemma strace_wf : forall k zfo evs din w pl now pending c,
  sev_wf (tkeys w) zfo c evs -> evs_wf (view k w c (dc_one din pending)) (strace k zfo din w pl now pending evs).
Proof.
  induction evs as [|e r IH]; intros din w pl now pending c H; [exact I|]. destruct e as [g|i|t]; cbn [strace sev_wf] in *.
  - cbn [evs_wf ev_wf]. split; [exact I|]. rewrite <- view_pend_grow. apply IH. exact H.
  - destruct (update_uptime w pl now) as [w1|] eqn:E1; [|exact I].
    destruct (cross_trackers w1 din pending i) as [w2|] eqn:E2; [|exact I].
    destruct H as [Ki [NS [OT R]]]. destruct (update_uptime_tt _ _ _ _ E1) as [T _].
    assert (V1 : a_step (view k w c (dc_one din pending)) (AGrow (sel_G k w1 - sel_G k w)) = view k w1 c (dc_one din pending)).
    { unfold view. simpl. rewrite T. f_equal. lia. }
    cbn [evs_wf]. split; [exact I|]. rewrite V1. split.
    + cbn [ev_wf]. split; [apply keys_view_p|split; [exact NS|]].
      * unfold tkeys in Ki. rewrite <- T in Ki. exact Ki.
      * intros j Kj Nj. apply OT; [|exact Nj]. unfold tkeys. rewrite <- T. apply keys_view_p in Kj. exact Kj.
    + rewrite <- (cross_trackers_view k _ _ _ _ _ c (if zfo then i - 1 else i) E2). apply IH.
      eapply sev_wf_ext; [|exact R]. intro j. rewrite (cross_trackers_keys _ _ _ _ _ E2 j). unfold tkeys. rewrite T. tauto.
  - destruct H as [A R]. cbn [evs_wf ev_wf]. split; [|apply IH; exact R]. intros j Kj. apply A. apply keys_view_p in Kj. exact Kj.
Qed.

(* ---------- the trackers are kept for exactly the stored ticks ---------- *)
Definition dom_ok (rs : rstate) : Prop :=
  forall j, tt_get (rw_tt (r_rw rs)) j = None <-> tick_get (s_ticks (r_base rs)) j = None.

Lemma stored_get : forall s j, Inv s -> (stored s j <-> tick_get (s_ticks s) j <> None).
Proof.
  intros s j I. unfold stored. split.
  - intros [v Hv]. rewrite (in_tick_get _ _ _ (inv_ticks_sorted s I) Hv). discriminate.
  - intro H. destruct (tick_get (s_ticks s) j) as [v|] eqn:E; [|congruence]. exists v. apply tick_get_in. exact E.
Qed.

(* THE SWAP SIDE CONDITION DISCHARGED: in a state whose pool part satisfies C07's invariant and whose trackers sit on
   exactly the stored ticks, the trace of every executed swap is well-formed for every accumulator component *)
Theorem swap_op_wf : forall k rs o rs' r, Inv (r_base rs) -> dom_ok rs ->
  rhandler rs o = Some (rs', r) -> is_swap o = true -> evs_wf (rview k rs) (op_trace k rs o).
Proof.
  intros k rs o rs' r I D H S. unfold op_trace.
  destruct (swap_args o) as [[[ei zfo] amt]|] eqn:EA; [|exact Logic.I].
  destruct (swap_events (r_base rs) ei zfo amt) as [evs|] eqn:EE; [|exact Logic.I].
  pose proof (swap_events_wf _ _ _ _ _ I EE) as W.
  assert (W' : sev_wf (tkeys (r_rw rs)) zfo (cur_tick rs) evs).
  { eapply sev_wf_ext; [|exact W]. intro j. rewrite (stored_get _ _ I). unfold tkeys. specialize (D j). split; intros A B; apply A; apply D; exact B. }
  pose proof (strace_wf k zfo evs (denom_in zfo) (r_rw rs) (p_liq (s_pool (r_base rs))) (s_time (r_base rs)) 0 (cur_tick rs) W') as X.
  unfold rview. replace dc0 with (dc_one (denom_in zfo) 0); [exact X|]. unfold dc_one, denom_in. destruct zfo; reflexivity.
Qed.
