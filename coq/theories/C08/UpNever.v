(* C08: never_in_range_earns_zero for incentives.  A position whose uptime-accumulator records claim nothing, that is left alone
   (no withdrawal, add or incentive collection on it) through a history during which the current tick is never inside its range,
   can claim no incentives at the end - neither collected nor forfeited. *)
From Coq Require Import ZArith List Bool Lia.
Import ListNotations.
From Osmo Require Import Base.DecModel CL.TickMath CL.CLMath CL.CLPool CL.CLSwap CL.CLStep
  CLR.Accum CLR.Rewards CLR.RSwap CLR.RStep C07.Base C07.TickLemmas C07.LP C07.Swap C07.Proofs C03.Steps
  C08.Proj C08.Telescope C08.View C08.Static C08.Stages C08.Ops C08.OpInside C08.SwapTrace C08.Crux
  C08.Claim C08.Conseq C08.Frame C08.Never C08.SwapWf C08.Dom C08.StaticOk C08.Final C08.Paid C08.PaidOps C08.PaidSwap C08.PaidHist
  C08.Twins C08.IncAcc C08.Inc C08.IncList C08.IncStage C08.IncOps C08.IncSwap C08.IncHist.
Open Scope Z_scope.

(* ---------- which uptime records the stages write (structural, no side conditions) ---------- *)
Lemma accrue_all_recs : forall ups u liq dt18 isc now recs ups' recs', accrue_all u ups liq dt18 isc now recs = Some (ups', recs') ->
  forall i, ac_recs (nth i ups' acc_empty) = ac_recs (nth i ups acc_empty).
Proof.
  induction ups as [|a rest IH]; intros u liq dt18 isc now recs ups' recs' H i; simpl in H.
  - inversion H; subst. reflexivity.
  - destruct (calc_accrued_for_accum u liq dt18 isc now recs) as [[add recs1]|]; [|discriminate H]. cbv beta iota in H.
    destruct (acc_add_to a add) as [a'|] eqn:EA; [|discriminate H]. cbv beta iota in H.
    destruct (accrue_all (u + 1) rest liq dt18 isc now recs1) as [[rest' recs2]|] eqn:E2; [|discriminate H]. inversion H; subst.
    destruct i as [|i]; simpl; [apply (acc_add_to_recs _ _ _ EA)|apply (IH _ _ _ _ _ _ _ _ E2)].
Qed.
Lemma update_uptime_urecs : forall w liq now w', update_uptime w liq now = Some w' -> forall u j, acc_get (acc_u u w') j = acc_get (acc_u u w) j.
Proof.
  unfold update_uptime. intros w liq now w' H u j. destruct (now - rw_last w =? 0); [inversion H; reflexivity|].
  destruct (now - rw_last w <? 0); [discriminate H|].
  destruct (liq <? P18); [inversion H; subst; reflexivity|].
  destruct (accrue_all _ _ _ _ _ _ _) as [[ups recs]|] eqn:EA; [|discriminate H]. inversion H; subst.
  unfold acc_get, acc_u. simpl. rewrite (accrue_all_recs _ _ _ _ _ _ _ _ _ EA u). reflexivity.
Qed.
Lemma upd_uptime_accs_other : forall ups ins outs id liquidity delta ups', upd_uptime_accs ups ins outs id liquidity delta = Some ups' ->
  forall u j, j <> id -> acc_get (nth u ups' acc_empty) j = acc_get (nth u ups acc_empty) j.
Proof.
  induction ups as [|a ups IH]; intros ins outs id liquidity delta ups' H u j NE; destruct ins as [|i ins]; destruct outs as [|o outs]; simpl in H; try discriminate H.
  - inversion H; subst. reflexivity.
  - match type of H with (do a' <- ?X; _) = _ => destruct X as [a'|] eqn:EA; [|discriminate H] end. cbv beta iota in H.
    destruct (upd_uptime_accs ups ins outs id liquidity delta) as [rest'|] eqn:ER; [|discriminate H]. inversion H; subst.
    destruct u as [|u]; simpl; [|apply (IH _ _ _ _ _ _ ER u j NE)].
    destruct (negb (acc_has a id)).
    + destruct (negb (0 <? delta)); [discriminate EA|]. apply (acc_new_position_other _ _ _ _ _ EA j NE).
    + destruct (to_init_plus_outside a id o) as [a1|] eqn:E1; [|discriminate EA]. cbv beta iota in EA.
      rewrite (acc_update_position_other _ _ _ _ _ EA j NE). apply (to_init_plus_outside_other _ _ _ _ E1 j NE).
Qed.
Lemma claim_uptimes_other : forall ups outs uts id age isc ups' col forf byup, claim_uptimes ups outs uts id age isc = Some (ups', col, forf, byup) ->
  forall u j, j <> id -> acc_get (nth u ups' acc_empty) j = acc_get (nth u ups acc_empty) j.
Proof.
  induction ups as [|a ups IH]; intros outs uts id age isc ups' col forf byup H u j NE; destruct outs as [|o outs]; destruct uts as [|ut uts]; simpl in H; try discriminate H.
  - inversion H; subst. reflexivity.
  - destruct (claim_uptimes ups outs uts id age isc) as [[[[ar col0] forf0] byup0]|] eqn:ER; [|discriminate H]. cbv beta iota in H.
    destruct (acc_has a id).
    + destruct (update_accum_and_claim a id o) as [[[a' scaled] dust]|] eqn:EU; [|discriminate H]. cbv beta iota in H.
      destruct (scale_down2 scaled isc) as [coins|]; [|discriminate H]. cbv beta iota in H.
      destruct (age <? ut); inversion H; subst; (destruct u as [|u]; simpl; [apply (update_accum_and_claim_other _ _ _ _ _ _ EU j NE)|apply (IH _ _ _ _ _ _ _ _ _ ER u j NE)]).
    + inversion H; subst. destruct u as [|u]; simpl; [reflexivity|apply (IH _ _ _ _ _ _ _ _ _ ER u j NE)].
Qed.
Lemma redeposit_accs_recs : forall ups byup liq ups', redeposit_accs ups byup liq = Some ups' ->
  forall u j, acc_get (nth u ups' acc_empty) j = acc_get (nth u ups acc_empty) j.
Proof.
  induction ups as [|a ups IH]; intros byup liq ups' H u j; destruct byup as [|f byup]; simpl in H; try discriminate H.
  - inversion H; subst. reflexivity.
  - match type of H with (do a' <- ?X; _) = _ => destruct X as [a'|] eqn:EA; [|discriminate H] end. cbv beta iota in H.
    destruct (redeposit_accs ups byup liq) as [rest'|] eqn:ER; [|discriminate H]. inversion H; subst.
    destruct u as [|u]; simpl; [|apply (IH _ _ _ ER u j)].
    destruct ((fst f =? 0) && (snd f =? 0)); [inversion EA; reflexivity|]. obind EA.
    unfold acc_get. rewrite (proj1 (acc_add_to_recs _ _ _ EA)). reflexivity.
Qed.

Lemma ensure_tick_urecs : forall w cur liq now i w', ensure_tick w cur liq now i = Some w' -> forall u j, acc_get (acc_u u w') j = acc_get (acc_u u w) j.
Proof.
  unfold ensure_tick. intros w cur liq now i w' H u j. destruct (tt_get (rw_tt w) i); [inversion H; reflexivity|].
  destruct (update_uptime w liq now) as [w1|] eqn:E; [|discriminate H]. inversion H; subst.
  change (acc_u u (set_tt w1 _)) with (acc_u u w1). apply (update_uptime_urecs _ _ _ _ E).
Qed.
Lemma init_or_update_uptime_uother : forall w cur pl now lo hi id liq delta w', init_or_update_uptime w cur pl now lo hi id liq delta = Some w' ->
  forall u j, j <> id -> acc_get (acc_u u w') j = acc_get (acc_u u w) j.
Proof.
  unfold init_or_update_uptime. intros w cur pl now lo hi id liq delta w' H u j NE.
  destruct (update_uptime w pl now) as [w1|] eqn:E; [|discriminate H]. cbv beta iota in H.
  destruct (uptime_growth_inside w1 cur lo hi) as [ins|]; [|discriminate H]. cbv beta iota in H.
  destruct (uptime_growth_outside w1 cur lo hi) as [outs|]; [|discriminate H]. cbv beta iota in H.
  destruct (upd_uptime_accs (rw_up w1) ins outs id liq delta) as [ups|] eqn:EU; [|discriminate H]. inversion H; subst.
  unfold acc_u at 1. simpl. rewrite (upd_uptime_accs_other _ _ _ _ _ _ _ EU u j NE). apply (update_uptime_urecs _ _ _ _ E).
Qed.
Lemma init_or_update_spread_up : forall w cur lo hi id delta w', init_or_update_spread w cur lo hi id delta = Some w' -> rw_up w' = rw_up w.
Proof. unfold init_or_update_spread. intros. obind H. destruct (negb (acc_has (rw_spread w) id)); obind H; inversion H; reflexivity. Qed.
Lemma update_position_rewards_uother : forall w cur pl now lo hi id liq delta w', update_position_rewards w cur pl now lo hi id liq delta = Some w' ->
  forall u j, j <> id -> acc_get (acc_u u w') j = acc_get (acc_u u w) j.
Proof.
  unfold update_position_rewards. intros w cur pl now lo hi id liq delta w' H u j NE.
  destruct (ensure_tick w cur pl now lo) as [w1|] eqn:E1; [|discriminate H]. simpl in H.
  destruct (ensure_tick w1 cur pl now hi) as [w2|] eqn:E2; [|discriminate H]. simpl in H.
  destruct (init_or_update_uptime w2 cur pl now lo hi id liq delta) as [w3|] eqn:E3; [|discriminate H]. simpl in H.
  unfold acc_u at 1. rewrite (init_or_update_spread_up _ _ _ _ _ _ _ H). fold (acc_u u w3).
  rewrite (init_or_update_uptime_uother _ _ _ _ _ _ _ _ _ _ E3 u j NE), (ensure_tick_urecs _ _ _ _ _ _ E2), (ensure_tick_urecs _ _ _ _ _ _ E1). reflexivity.
Qed.
Lemma prepare_claim_all_incentives_uother : forall w cur pl now lo hi id join w' c f b, prepare_claim_all_incentives w cur pl now lo hi id join = Some (w', c, f, b) ->
  forall u j, j <> id -> acc_get (acc_u u w') j = acc_get (acc_u u w) j.
Proof.
  unfold prepare_claim_all_incentives. intros w cur pl now lo hi id join w' c f b H u j NE.
  destruct (update_uptime w pl now) as [w1|] eqn:E; [|discriminate H]. cbv beta iota in H.
  destruct ((now - join) * 1000000000 <? 0); [discriminate H|].
  destruct (uptime_growth_outside w1 cur lo hi) as [outs|]; [|discriminate H]. cbv beta iota in H.
  destruct (claim_uptimes _ _ _ _ _ _) as [[[[ups c1] f1] b1]|] eqn:EC; [|discriminate H]. inversion H; subst.
  unfold acc_u at 1. simpl. rewrite (claim_uptimes_other _ _ _ _ _ _ _ _ _ _ EC u j NE). apply (update_uptime_urecs _ _ _ _ E).
Qed.
Lemma collect_incentives_uother : forall b w cur pl now q b' w' c f byup, collect_incentives b w cur pl now q = Some (b', w', c, f, byup) ->
  forall u j, j <> ps_id q -> acc_get (acc_u u w') j = acc_get (acc_u u w) j.
Proof.
  intros b w cur pl now q b' w' c f byup H u j NE. destruct (collect_incentives_parts _ _ _ _ _ _ _ _ _ _ _ H) as [PC _].
  apply (prepare_claim_all_incentives_uother _ _ _ _ _ _ _ _ _ _ _ _ PC u j NE).
Qed.
Lemma redeposit_forfeited_urecs : forall w byup liq w', redeposit_forfeited w byup liq = Some w' -> forall u j, acc_get (acc_u u w') j = acc_get (acc_u u w) j.
Proof.
  unfold redeposit_forfeited. intros w byup liq w' H u j. destruct (redeposit_accs (rw_up w) byup liq) as [ups|] eqn:E; [|discriminate H]. inversion H; subst.
  unfold acc_u. simpl. apply (redeposit_accs_recs _ _ _ _ E).
Qed.

Lemma r_create_uother : forall rs owner a0 a1 m0 m1 lo hi rs' c, r_create rs owner a0 a1 m0 m1 lo hi = Some (rs', c) ->
  forall u j, j <> cr_id c -> acc_get (acc_u u (r_rw rs')) j = acc_get (acc_u u (r_rw rs)) j.
Proof.
  unfold r_create. intros rs owner a0 a1 m0 m1 lo hi rs' c H u j NE.
  destruct (create_position (r_base rs) owner a0 a1 m0 m1 lo hi) as [[s' c']|]; [|discriminate H]. simpl in H.
  match type of H with (do w <- ?X; _) = _ => destruct X as [w|] eqn:E; [|discriminate H] end. inversion H; subst. simpl.
  apply (update_position_rewards_uother _ _ _ _ _ _ _ _ _ _ E u j NE).
Qed.
Lemma r_withdraw_uother : forall rs owner id liq rs' amts, r_withdraw rs owner id liq = Some (rs', amts) ->
  forall u j, j <> id -> acc_get (acc_u u (r_rw rs')) j = acc_get (acc_u u (r_rw rs)) j.
Proof.
  unfold r_withdraw. intros rs owner id liq rs' amts H u j NE.
  destruct (withdraw_position (r_base rs) owner id liq) as [[s amts']|]; [|discriminate H]. simpl in H.
  destruct (pos_get (s_pos (r_base rs)) id) as [q|] eqn:Q; [|discriminate H]. simpl in H.
  assert (QI : ps_id q = id) by (eapply pos_get_id; exact Q).
  destruct (collect_incentives _ _ _ _ _ q) as [[[[[b1 w1] col] forf] byup]|] eqn:E1; [|discriminate H]. simpl in H.
  destruct (update_position_rewards w1 _ _ _ _ _ id _ _) as [w2|] eqn:E2; [|discriminate H]. simpl in H.
  match type of H with (do bw <- ?X; _) = _ => destruct X as [[b2 w3]|] eqn:E3; [|discriminate H] end. simpl in H.
  match type of H with (do bw2 <- ?X; _) = _ => destruct X as [[b3 w4]|] eqn:E4; [|discriminate H] end. simpl in H.
  inversion H; subst rs' amts. simpl. change (acc_u u (set_tt w4 _)) with (acc_u u w4).
  assert (S4 : acc_get (acc_u u w4) j = acc_get (acc_u u w3) j).
  { destruct (liq =? ps_liq q); [|inversion E4; subst; reflexivity].
    destruct (collect_spread_rewards b2 w3 _ _ q) as [[[b4 w5] c5]|] eqn:E5; [|discriminate E4]. inversion E4; subst.
    unfold collect_spread_rewards in E5. destruct (prepare_claimable_spread w3 _ _ _ _ _) as [[w6 c6]|] eqn:EP; [|discriminate E5]. cbv beta iota in E5.
    destruct (prepare_claimable_spread_up _ _ _ _ _ _ _ _ EP) as [UP _].
    assert (w4 = w6) by (destruct ((fst c6 =? 0) && (snd c6 =? 0)); [inversion E5; reflexivity|]; destruct (send_spread_to_user _ _ _ _); [inversion E5; reflexivity|discriminate E5]).
    subst w6. unfold acc_u. rewrite UP. reflexivity. }
  assert (S3 : acc_get (acc_u u w3) j = acc_get (acc_u u w2) j).
  { destruct (p_liq (s_pool s) <? P18); obind E3; inversion E3; subst; [reflexivity|]. eapply redeposit_forfeited_urecs. eassumption. }
  rewrite S4, S3, (update_position_rewards_uother _ _ _ _ _ _ _ _ _ _ E2 u j NE). apply (collect_incentives_uother _ _ _ _ _ _ _ _ _ _ _ E1 u j). congruence.
Qed.

Lemma apply_events_urecs : forall evs w din pl now pending w' p', apply_events w din pl now pending evs = Some (w', p') ->
  forall u j, acc_get (acc_u u w') j = acc_get (acc_u u w) j.
Proof.
  induction evs as [|e r IH]; intros w din pl now pending w' p' H u j; simpl in H; [inversion H; reflexivity|].
  destruct e as [g|i|t].
  - destruct (dchk (pending + g)); [|discriminate H]. eapply IH. exact H.
  - destruct (update_uptime w pl now) as [w1|] eqn:E1; [|discriminate H].
    destruct (cross_trackers w1 din pending i) as [w2|] eqn:E2; [|discriminate H].
    rewrite (IH _ _ _ _ _ _ _ H u j). destruct (cross_trackers_other _ _ _ _ _ E2) as [_ [UP _]]. unfold acc_u. rewrite UP.
    apply (update_uptime_urecs _ _ _ _ E1).
  - eapply IH. exact H.
Qed.
Lemma swap_rewards_urecs : forall w s ei zfo amt now w', swap_rewards w s ei zfo amt now = Some w' -> forall u j, acc_get (acc_u u w') j = acc_get (acc_u u w) j.
Proof.
  unfold swap_rewards. intros w s ei zfo amt now w' H u j.
  destruct (swap_events s ei zfo amt) as [evs|]; [|discriminate H]. simpl in H.
  destruct (apply_events _ _ _ _ _ _) as [[w1 pending]|] eqn:EA; [|discriminate H]. simpl in H.
  destruct (acc_add_to (rw_spread w1) _) as [a|]; [|discriminate H]. inversion H; subst.
  change (acc_u u (set_spread_acc w1 a)) with (acc_u u w1). apply (apply_events_urecs _ _ _ _ _ _ _ _ EA).
Qed.
Lemma r_collect_inc_loop_uother : forall ids rs owner col forf rs' c j, r_collect_inc_loop rs owner ids col forf = Some (rs', c) ->
  z_mem j ids = false -> forall u, acc_get (acc_u u (r_rw rs')) j = acc_get (acc_u u (r_rw rs)) j.
Proof.
  induction ids as [|id' rest IH]; intros rs owner col forf rs' c j H M u; simpl in H; [inversion H; reflexivity|].
  simpl in M. apply orb_false_iff in M. destruct M as [M1 M2]. apply Z.eqb_neq in M1.
  destruct (pos_get (s_pos (r_base rs)) id') as [q|] eqn:Q; [|discriminate H].
  destruct (negb (ps_owner q =? owner)); [discriminate H|].
  destruct (collect_incentives _ _ _ _ _ q) as [[[[[b w] x] f] byup]|] eqn:E; [|discriminate H].
  rewrite (IH _ _ _ _ _ _ j H M2 u). simpl. apply (collect_incentives_uother _ _ _ _ _ _ _ _ _ _ _ E u j). rewrite (pos_get_id _ _ _ Q). exact M1.
Qed.

(* the operations that write the uptime-accumulator records of position id *)
Definition touchesI (o : rop) (id : Z) : bool :=
  match o with
  | RBase (OWithdraw _ i _) => i =? id
  | RBase (OAdd _ i _ _ _ _) => i =? id
  | RCollectInc _ ids => z_mem id ids
  | _ => false
  end.

Lemma handler_urec_frame : forall rs o rs' r id, RInv rs -> rhandler rs o = Some (rs', r) -> touchesI o id = false ->
  id < s_next_id (r_base rs) -> forall u, acc_get (acc_u u (r_rw rs')) id = acc_get (acc_u u (r_rw rs)) id.
Proof.
  intros rs o rs' r id RI H T LT u. pose proof RI as [I _].
  destruct o as [b|owner ids|owner ids|sender denom amount rate dt uu]; simpl in H, T.
  - destruct b as [owner a0 a1 m0 m1 lo hi|owner id' liq|owner id' a0 a1 m0 m1|sender ids recipient|sender zfo amt mo|sender zfo amt mi|dt].
    + destruct (r_create rs owner a0 a1 m0 m1 lo hi) as [[rs1 c]|] eqn:E; [|discriminate H]. inversion H; subst.
      destruct (create_position_spec _ _ _ _ _ _ _ _ _ _ I (r_create_base _ _ _ _ _ _ _ _ _ _ E)) as [_ [_ [CI _]]].
      apply (r_create_uother _ _ _ _ _ _ _ _ _ _ E). lia.
    + destruct (r_withdraw rs owner id' liq) as [[rs1 [x0 x1]]|] eqn:E; [|discriminate H]. inversion H; subst.
      apply Z.eqb_neq in T. apply (r_withdraw_uother _ _ _ _ _ _ E). congruence.
    + destruct (r_add rs owner id' a0 a1 m0 m1) as [[rs1 [[nid y0] y1]]|] eqn:E; [|discriminate H]. inversion H; subst.
      assert (QX : exists q, pos_get (s_pos (r_base rs)) id' = Some q).
      { unfold r_add in E. destruct (id' <=? 0); [discriminate E|].
        destruct ((a0 <? 0) || (a1 <? 0) || (m0 <? 0) || (m1 <? 0)); [discriminate E|].
        destruct (pos_get (s_pos (r_base rs)) id') as [q|]; [eauto|discriminate E]. }
      destruct QX as [q Q]. destruct (r_add_split _ _ _ _ _ _ _ _ _ _ E Q) as [rs1 [w0 [w1 [m0' [m1' [cr [EW EC]]]]]]].
      apply Z.eqb_neq in T. pose proof (rinv_withdraw _ _ _ _ _ _ EW RI) as [I1 _].
      destruct (r_withdraw_base _ _ _ _ _ _ EW) as [s1 [WB [_ [_ [_ [NX1 _]]]]]].
      destruct (withdraw_position_spec _ _ _ _ _ _ _ I WB) as [_ [NX _]].
      destruct (create_position_spec _ _ _ _ _ _ _ _ _ _ I1 (r_create_base _ _ _ _ _ _ _ _ _ _ EC)) as [_ [_ [CI _]]].
      rewrite (r_create_uother _ _ _ _ _ _ _ _ _ _ EC u id) by lia. apply (r_withdraw_uother _ _ _ _ _ _ EW). congruence.
    + destruct (transfer_positions (r_base rs) sender ids recipient) as [s'|]; [|discriminate H]. inversion H; subst. reflexivity.
    + destruct (r_swap_in rs sender zfo amt mo) as [[rs1 out]|] eqn:E; [|discriminate H]. inversion H; subst.
      unfold r_swap_in in E. destruct (swap_exact_in _ _ _ _ _) as [[s' out']|]; [|discriminate E]. simpl in E.
      destruct (swap_rewards _ _ _ _ _ _) as [w|] eqn:E2; [|discriminate E]. inversion E; subst. simpl.
      apply (swap_rewards_urecs _ _ _ _ _ _ _ E2).
    + destruct (r_swap_out rs sender zfo amt mi) as [[rs1 tin]|] eqn:E; [|discriminate H]. inversion H; subst.
      unfold r_swap_out in E. destruct (swap_exact_out _ _ _ _ _) as [[s' tin']|]; [|discriminate E]. simpl in E.
      destruct (swap_rewards _ _ _ _ _ _) as [w|] eqn:E2; [|discriminate E]. inversion E; subst. simpl.
      apply (swap_rewards_urecs _ _ _ _ _ _ _ E2).
    + inversion H; subst. reflexivity.
  - destruct (r_collect_spread rs owner ids) as [[rs1 c]|] eqn:E; [|discriminate H]. inversion H; subst.
    destruct (r_collect_spread_loop_inc _ _ _ _ _ _ E) as [UP _]. unfold acc_u. rewrite UP. reflexivity.
  - destruct (r_collect_inc rs owner ids) as [[rs1 [c f]]|] eqn:E; [|discriminate H]. inversion H; subst.
    apply (r_collect_inc_loop_uother _ _ _ _ _ _ _ _ E T).
  - destruct (r_incentive rs sender denom amount rate dt uu) as [rs1|] eqn:E; [|discriminate H]. inversion H; subst.
    unfold r_incentive in E.
    repeat match type of E with (if ?b then None else _) = _ => destruct b; [discriminate E|] end.
    destruct (user_bal _ sender) as [ub|]; [|discriminate E]. cbv beta iota in E.
    repeat match type of E with (if ?b then None else _) = _ => destruct b; [discriminate E|] end.
    destruct (update_uptime _ _ _) as [w1|] eqn:EU; [|discriminate E]. cbv beta iota in E.
    destruct (send_user_to_inc _ _ _ _) as [b|]; [|discriminate E]. inversion E; subst. simpl.
    change (acc_u u (add_incentive_record w1 uu denom amount rate (s_time (r_base rs) + dt))) with (acc_u u w1).
    apply (update_uptime_urecs _ _ _ _ EU).
Qed.

(* ---------- histories ---------- *)
Fixpoint hist_untouchedI (ops : list rop) (id : Z) : bool :=
  match ops with [] => true | o :: r => negb (touchesI o id) && hist_untouchedI r id end.

Lemma run_urec_frame : forall ops rs id, RInv rs -> hist_untouchedI ops id = true -> id < s_next_id (r_base rs) ->
  forall u, acc_get (acc_u u (r_rw (rrun rs ops))) id = acc_get (acc_u u (r_rw rs)) id.
Proof.
  induction ops as [|o r IH]; intros rs id RI HU LT u; simpl; [reflexivity|].
  simpl in HU. apply andb_true_iff in HU. destruct HU as [T HU]. apply negb_true_iff in T.
  unfold rstep. destruct (rhandler rs o) as [[rs' res]|] eqn:H; simpl.
  - pose proof (rinv_handler _ _ _ _ H RI) as RI'. pose proof (handler_next_id _ _ _ _ RI H) as NX.
    rewrite (IH rs' id RI' HU ltac:(lia) u). apply (handler_urec_frame _ _ _ _ _ RI H T LT).
  - apply IH; assumption.
Qed.

(* no growth accrues to a range the current tick never enters - any component *)
Lemma hist_growth_outside : forall k ops rs l u, hist_outside rs ops l u -> hist_growth k rs ops l u = 0.
Proof.
  intros k. induction ops as [|o r IH]; intros rs l u HO; simpl; [reflexivity|]. destruct HO as [OO HO]. rewrite (IH _ _ _ HO), Z.add_0_r.
  unfold op_growth. unfold op_outside in OO. destruct (rstep rs o) as [rs' [res|]] eqn:ER; [|reflexivity].
  destruct (is_swap o) eqn:S.
  - unfold op_trace. destruct (swap_args o) as [[[ei zfo] amt]|]; [|reflexivity].
    destruct (swap_events (r_base rs) ei zfo amt) as [evs|]; [|reflexivity].
    unfold rview. replace dc0 with (dc_one (denom_in zfo) 0) by (unfold dc_one, denom_in; destruct zfo; reflexivity).
    apply strace_out_of_range. exact OO.
  - destruct (swap_args o) eqn:SA; [exfalso; assert (X : swap_args o <> None) by congruence; apply is_swap_args in X; congruence|].
    rewrite OO. reflexivity.
Qed.

(* ---------- records that claim nothing ---------- *)
Definition zero_urec (rs : rstate) (id l h : Z) : Prop :=
  forall u r, (u < NU)%nat -> acc_get (acc_u u (r_rw rs)) id = Some r ->
    ar_unclaimed r = dc0 /\ forall d, dsel d (ar_snap r) = insU u d (r_rw rs) (cur_tick rs) l h.

Lemma scale_down2_zero : forall isc c, scale_down2 (0, 0) isc = Some c -> c = (0, 0).
Proof.
  unfold scale_down2, scale_down. intros isc c H. destruct (nz isc); [|discriminate H]. cbn [fst snd] in H.
  change (d_quo_truncate (d_from_int 0) isc) with 0 in H. change (dchk 0) with (Some 0) in H. cbv beta iota in H.
  inversion H; reflexivity.
Qed.

Lemma claim_uptimes_zero : forall id age isc ups outs uts ups' col forf byup,
  claim_uptimes ups outs uts id age isc = Some (ups', col, forf, byup) ->
  (forall u r, (u < length ups)%nat -> acc_get (nth u ups acc_empty) id = Some r ->
     ar_unclaimed r = dc0 /\ forall d, dsel d (ac_value (nth u ups acc_empty)) - dsel d (nth u outs dc0) - dsel d (ar_snap r) = 0) ->
  col = (0, 0) /\ forf = (0, 0).
Proof.
  intros id age isc. induction ups as [|a ups IH]; intros outs uts ups' col forf byup H Z; destruct outs as [|o outs]; destruct uts as [|ut uts]; simpl in H; try discriminate H.
  - inversion H; subst. auto.
  - destruct (claim_uptimes ups outs uts id age isc) as [[[[ar col0] forf0] byup0]|] eqn:ER; [|discriminate H]. cbv beta iota in H.
    assert (Z' : forall u r, (u < length ups)%nat -> acc_get (nth u ups acc_empty) id = Some r ->
              ar_unclaimed r = dc0 /\ forall d, dsel d (ac_value (nth u ups acc_empty)) - dsel d (nth u outs dc0) - dsel d (ar_snap r) = 0).
    { intros u r Hu R. apply (Z (S u) r); [simpl; lia|exact R]. }
    destruct (IH _ _ _ _ _ _ ER Z') as [C0 F0]. subst col0 forf0.
    destruct (acc_has a id) eqn:EH.
    + destruct (update_accum_and_claim a id o) as [[[a' scaled] dust]|] eqn:EU; [|discriminate H]. cbv beta iota in H.
      destruct (scale_down2 scaled isc) as [coins|] eqn:ESD; [|discriminate H]. cbv beta iota in H.
      unfold acc_has in EH. destruct (acc_get a id) as [r|] eqn:R; [|discriminate EH].
      destruct (Z O r ltac:(simpl; lia) R) as [U0 G0]. cbn [nth] in G0.
      destruct (uac_full _ _ _ _ _ _ _ EU R) as [_ [_ [_ [_ HD]]]].
      assert (SC : scaled = (0, 0)).
      { destruct (HD false) as [_ [A _]]. destruct (HD true) as [_ [B0 _]]. cbv zeta in A, B0.
        rewrite (G0 false), U0, dsel_dc0, d_mul_zero in A. rewrite (G0 true), U0, dsel_dc0, d_mul_zero in B0.
        simpl in A, B0. destruct scaled. simpl in *. subst. reflexivity. }
      subst scaled. apply scale_down2_zero in ESD. subst coins.
      destruct (age <? ut); inversion H; subst; auto.
    + inversion H; subst. auto.
Qed.

Lemma accrue_all_length : forall ups u liq dt18 isc now recs ups' recs', accrue_all u ups liq dt18 isc now recs = Some (ups', recs') ->
  length ups' = length ups.
Proof.
  induction ups as [|a rest IH]; intros u liq dt18 isc now recs ups' recs' H; simpl in H; [inversion H; reflexivity|].
  destruct (calc_accrued_for_accum u liq dt18 isc now recs) as [[add recs1]|]; [|discriminate H]. cbv beta iota in H.
  destruct (acc_add_to a add) as [a'|]; [|discriminate H]. cbv beta iota in H.
  destruct (accrue_all (u + 1) rest liq dt18 isc now recs1) as [[rest' recs2]|] eqn:E2; [|discriminate H]. inversion H; subst.
  simpl. f_equal. apply (IH _ _ _ _ _ _ _ _ E2).
Qed.
Lemma update_uptime_length : forall w liq now w', update_uptime w liq now = Some w' -> length (rw_up w') = length (rw_up w).
Proof.
  unfold update_uptime. intros w liq now w' H. destruct (now - rw_last w =? 0); [inversion H; reflexivity|].
  destruct (now - rw_last w <? 0); [discriminate H|]. destruct (liq <? P18); [inversion H; subst; reflexivity|].
  destruct (accrue_all _ _ _ _ _ _ _) as [[ups recs]|] eqn:EA; [|discriminate H]. inversion H; subst. simpl.
  apply (accrue_all_length _ _ _ _ _ _ _ _ _ EA).
Qed.

Lemma live_through_last : forall ops rs id l h, live_through rs ops id l h -> livep (r_base (rrun rs ops)) id l h.
Proof. induction ops as [|o r IH]; intros rs id l h LT; simpl in *; [tauto|]. destruct LT as [_ LT]. apply IH. exact LT. Qed.

(* NEVER_IN_RANGE_EARNS_ZERO, incentives *)
Theorem never_in_range_no_incentives : forall ops rs id l h c f, RInv rs -> length (rw_up (r_rw rs)) = NU ->
  live_through rs ops id l h -> hist_outside rs ops l h -> hist_untouchedI ops id = true -> id < s_next_id (r_base rs) ->
  zero_urec rs id l h ->
  let rs' := rrun rs ops in
  length (rw_up (r_rw rs')) = NU -> in_rng l h (cur_tick rs') = false ->
  claimable_incentives rs' id = Some (c, f) -> c = (0, 0) /\ f = (0, 0).
Proof.
  intros ops rs id l h c f RI LN LT HO HU LTI ZR rs' LN' NR HC.
  assert (RI' : RInv rs') by (apply rinv_run; exact RI).
  (* the records and the growth inside are those of the start *)
  assert (ZR' : zero_urec rs' id l h).
  { intros u r Hu R. unfold rs' in R. rewrite (run_urec_frame ops rs id RI HU LTI u) in R. destruct (ZR u r Hu R) as [U S].
    split; [exact U|]. intro d. rewrite (S d). unfold insU. fold (rview (CU u d) rs) (rview (CU u d) rs').
    unfold rs'. rewrite (growth_inside_telescopes_live ops (CU u d) rs id l h RI LT), (hist_growth_outside _ _ _ _ _ HO). lia. }
  (* the position at the end *)
  assert (LV' : livep (r_base rs') id l h) by (apply live_through_last; exact LT).
  destruct LV' as [q [Q [Ql Qu]]].
  destruct (has_range_tt_ok (CS false) rs' l h RI' (livep_has_range _ _ _ _ (ex_intro _ q (conj Q (conj Ql Qu))))) as [TKK Hlu].
  unfold claimable_incentives in HC. rewrite Q in HC. cbv beta iota in HC. rewrite Ql, Qu in HC.
  destruct (prepare_claim_all_incentives (r_rw rs') _ _ _ l h id (ps_join q)) as [[[[w' col] forf] byup]|] eqn:E; [|discriminate HC].
  inversion HC; subst col forf. clear HC.
  unfold prepare_claim_all_incentives in E.
  destruct (update_uptime (r_rw rs') _ _) as [w1|] eqn:EU; [|discriminate E]. cbv beta iota in E.
  destruct (_ <? 0); [discriminate E|].
  destruct (uptime_growth_outside w1 _ l h) as [outs|] eqn:EO; [|discriminate E]. cbv beta iota in E.
  destruct (claim_uptimes (rw_up w1) outs uptimes_ns id _ (rw_inc_scaling w1)) as [[[[ups c1] f1] b1]|] eqn:EC; [|discriminate E].
  inversion E; subst w' c f byup. clear E.
  destruct (update_uptime_tt _ _ _ _ EU) as [TT1 _].
  assert (LN1 : length (rw_up w1) = NU) by (rewrite (update_uptime_length _ _ _ _ EU); exact LN').
  destruct (outs_view false _ _ _ _ _ EO Hlu) as [LO _].
  apply (claim_uptimes_zero _ _ _ _ _ _ _ _ _ _ EC).
  intros u r Hu R. rewrite LN1 in Hu.
  assert (R' : acc_get (acc_u u (r_rw rs')) id = Some r) by (rewrite <- (update_uptime_urecs _ _ _ _ EU u id); exact R).
  destruct (ZR' u r Hu R') as [U S]. split; [exact U|]. intro d.
  destruct (outs_view d _ _ _ _ _ EO Hlu) as [_ OV]. specialize (OV u ltac:(lia)). unfold acc_u in OV. rewrite OV, (S d).
  (* bringing the accumulators up to date does not change the growth inside a range that does not contain the current tick *)
  destruct TKK as [St [Kl Ku]].
  destruct (SE_inside_gen (CU u d) (cur_tick rs') [] (r_rw rs') w1 l h (SE_same_tt _ _ _ _ TT1) Hlu (conj (vmap_sorted_any _ _ _ St) (conj Kl Ku))
              ltac:(simpl; tauto) ltac:(simpl; tauto)) as [I _].
  unfold insU. change (p_tick (s_pool (r_base rs'))) with (cur_tick rs'). rewrite I, NR. lia.
Qed.

(* ---------- a position that was just created has zero records in all uptime accumulators ---------- *)
Lemma upd_uptime_accs_new_rec : forall ups ins outs id liquidity delta ups', upd_uptime_accs ups ins outs id liquidity delta = Some ups' ->
  forall u, (u < length ups)%nat -> acc_get (nth u ups acc_empty) id = None ->
  acc_get (nth u ups' acc_empty) id = Some (mkARec liquidity (nth u ins dc0) dc0).
Proof.
  induction ups as [|a ups IH]; intros ins outs id liquidity delta ups' H u Hu N; destruct ins as [|i ins]; destruct outs as [|o outs]; simpl in H; try discriminate H.
  - simpl in Hu. lia.
  - match type of H with (do a' <- ?X; _) = _ => destruct X as [a'|] eqn:EA; [|discriminate H] end. cbv beta iota in H.
    destruct (upd_uptime_accs ups ins outs id liquidity delta) as [rest'|] eqn:ER; [|discriminate H]. inversion H; subst.
    destruct u as [|u]; cbn [nth] in *; [|apply (IH _ _ _ _ _ _ ER u ltac:(simpl in Hu; lia) N)].
    unfold acc_has in EA. rewrite N in EA. cbn [negb] in EA. destruct (negb (0 <? delta)); [discriminate EA|].
    destruct (new_position_rec _ _ _ _ _ EA) as [_ [_ [_ RA]]]. exact RA.
Qed.

Lemma upd_uptime_accs_value : forall ups ins outs id liquidity delta ups', upd_uptime_accs ups ins outs id liquidity delta = Some ups' ->
  forall v, ac_value (nth v ups' acc_empty) = ac_value (nth v ups acc_empty).
Proof.
  induction ups as [|a ups IH]; intros ins outs id liquidity delta ups' E v; destruct ins as [|i ins]; destruct outs as [|o outs]; simpl in E; try discriminate E.
  - inversion E; subst. reflexivity.
  - match type of E with (do a' <- ?X; _) = _ => destruct X as [a'|] eqn:EA; [|discriminate E] end. cbv beta iota in E.
    destruct (upd_uptime_accs ups ins outs id liquidity delta) as [rest'|] eqn:ER; [|discriminate E]. inversion E; subst.
    destruct v as [|v]; cbn [nth]; [|apply (IH _ _ _ _ _ _ ER v)].
    destruct (negb (acc_has a id)).
    + destruct (negb (0 <? delta)); [discriminate EA|]. apply (acc_new_position_value _ _ _ _ _ EA).
    + destruct (to_init_plus_outside a id o) as [a1|] eqn:E1; [|discriminate EA]. cbv beta iota in EA.
      rewrite (acc_update_position_value _ _ _ _ _ EA). apply (to_init_plus_outside_value _ _ _ _ E1).
Qed.

Theorem create_zero_urec : forall rs owner a0 a1 m0 m1 lo hi rs' c, PII rs ->
  r_create rs owner a0 a1 m0 m1 lo hi = Some (rs', c) -> zero_urec rs' (cr_id c) (cr_lower c) (cr_upper c).
Proof.
  intros rs owner a0 a1 m0 m1 lo hi rs' c [RI [HIW FR]] H.
  pose proof (rinv_create _ _ _ _ _ _ _ _ _ _ H RI) as RI'. pose proof RI as [I _].
  pose proof (r_create_base _ _ _ _ _ _ _ _ _ _ H) as B.
  destruct (create_position_spec _ _ _ _ _ _ _ _ _ _ I B) as [I' [NX [CI [SP [_ [LP _]]]]]].
  set (id := cr_id c) in *.
  set (newp := mkPos (s_next_id (r_base rs)) owner (cr_lower c) (cr_upper c) (cr_liq c) (s_time (r_base rs))) in *.
  assert (EW : update_position_rewards (r_rw rs) (cur_tick rs') (p_liq (s_pool (r_base rs))) (s_time (r_base rs))
                 (cr_lower c) (cr_upper c) id (cr_liq c) (cr_liq c) = Some (r_rw rs')).
  { unfold r_create in H. destruct (create_position _ _ _ _ _ _ _ _) as [[s2 c2]|]; [|discriminate H]. simpl in H.
    match type of H with (do w <- ?X; _) = _ => destruct X as [w|] eqn:E; [|discriminate H] end. inversion H; subst. simpl. exact E. }
  set (cur := cur_tick rs') in *. set (pl := p_liq (s_pool (r_base rs))) in *.
  unfold update_position_rewards in EW.
  destruct (ensure_tick (r_rw rs) cur pl _ (cr_lower c)) as [w1|] eqn:E1; [|discriminate EW]. simpl in EW.
  destruct (ensure_tick w1 cur pl _ (cr_upper c)) as [w2|] eqn:E2; [|discriminate EW]. simpl in EW.
  destruct (init_or_update_uptime w2 cur pl _ (cr_lower c) (cr_upper c) id (cr_liq c) (cr_liq c)) as [w3|] eqn:E3; [|discriminate EW]. simpl in EW.
  unfold init_or_update_uptime in E3.
  destruct (update_uptime w2 pl (s_time (r_base rs))) as [w2a|] eqn:EU; [|discriminate E3]. cbv beta iota in E3.
  destruct (uptime_growth_inside w2a cur (cr_lower c) (cr_upper c)) as [ins|] eqn:EI; [|discriminate E3]. cbv beta iota in E3.
  destruct (uptime_growth_outside w2a cur (cr_lower c) (cr_upper c)) as [outs|] eqn:EO; [|discriminate E3]. cbv beta iota in E3.
  destruct (upd_uptime_accs (rw_up w2a) ins outs id (cr_liq c) (cr_liq c)) as [ups|] eqn:EUp; [|discriminate E3]. inversion E3; subst w3. clear E3.
  assert (NIN : In newp (s_pos (r_base rs'))) by (rewrite SP; eapply pos_get_in; rewrite pos_get_set; simpl; rewrite Z.eqb_refl; reflexivity).
  destruct (PI_PT rs' RI' newp NIN) as [Hlu _]. simpl in Hlu.
  destruct HIW as [_ [_ [LN _]]].
  assert (LN2a : length (rw_up w2a) = NU).
  { rewrite (update_uptime_length _ _ _ _ EU).
    assert (L2 : length (rw_up w2) = length (rw_up w1)).
    { unfold ensure_tick in E2. destruct (tt_get (rw_tt w1) (cr_upper c)); [inversion E2; reflexivity|].
      destruct (update_uptime w1 pl _) as [wx|] eqn:EX; [|discriminate E2]. inversion E2; subst. simpl. apply (update_uptime_length _ _ _ _ EX). }
    assert (L1 : length (rw_up w1) = length (rw_up (r_rw rs))).
    { unfold ensure_tick in E1. destruct (tt_get (rw_tt (r_rw rs)) (cr_lower c)); [inversion E1; reflexivity|].
      destruct (update_uptime (r_rw rs) pl _) as [wx|] eqn:EX; [|discriminate E1]. inversion E1; subst. simpl. apply (update_uptime_length _ _ _ _ EX). }
    congruence. }
  assert (NR : forall u, acc_get (acc_u u w2a) id = None).
  { intro u. rewrite (update_uptime_urecs _ _ _ _ EU), (ensure_tick_urecs _ _ _ _ _ _ E2), (ensure_tick_urecs _ _ _ _ _ _ E1). apply FR. rewrite CI. lia. }
  pose proof (init_or_update_spread_tt _ _ _ _ _ _ _ EW) as TT5. pose proof (init_or_update_spread_up _ _ _ _ _ _ _ EW) as UP5.
  set (w3 := set_up w2a ups) in *.
  assert (HV : forall v, ac_value (nth v ups acc_empty) = ac_value (nth v (rw_up w2a) acc_empty)) by (intro v; apply (upd_uptime_accs_value _ _ _ _ _ _ _ EUp v)).
  intros u r Hu R.
  assert (R3 : acc_get (acc_u u w3) id = Some (mkARec (cr_liq c) (nth u ins dc0) dc0)).
  { unfold acc_u, w3. simpl. apply (upd_uptime_accs_new_rec _ _ _ _ _ _ _ EUp u ltac:(lia)). apply NR. }
  unfold acc_u in R. rewrite UP5 in R. fold (acc_u u w3) in R. rewrite R3 in R. inversion R; subst r. cbn [ar_unclaimed ar_snap].
  split; [reflexivity|]. intro d. change (cur_tick rs') with cur.
  rewrite (uptime_growth_inside_view u d w2a cur _ _ ins Hlu ltac:(lia) EI).
  transitivity (insU u d w3 cur (cr_lower c) (cr_upper c)); [symmetry; apply (insU_set_up u d w2a ups cur _ _ HV)|].
  unfold insU. rewrite (view_same (CU u d) w3 (r_rw rs') cur dc0 TT5); [reflexivity|]. unfold sel_G. rewrite UP5. reflexivity.
Qed.
