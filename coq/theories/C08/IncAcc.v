(* C08 / C01, incentive account: accumulator-level facts shared by the six uptime accumulators.
   What updateAccumAndClaimRewards, the share-change path (updatePositionToInitValuePlusGrowthOutside + UpdatePosition) and
   NewPosition do to one accumulator record, in terms of the growth inside  I = value - growth outside. *)
From Coq Require Import ZArith List Bool Lia.
Import ListNotations.
From Osmo Require Import Base.DecModel CL.TickMath CL.CLMath CL.CLPool CL.CLSwap CL.CLStep
  CLR.Accum CLR.Rewards CLR.RSwap CLR.RStep C07.Base C07.LP C03.Steps
  C08.Proj C08.Telescope C08.View C08.Claim C08.Conseq C08.Frame C08.Never C08.Paid.
Open Scope Z_scope.

(* the exact amount a record is worth when the growth inside its range is I (units: 10^-36 scaled tokens) *)
Definition owedA (d : bool) (I : Z) (r : arec) : Z := dsel d (ar_unclaimed r) * P18 + (I - dsel d (ar_snap r)) * ar_shares r.

(* ---------- claim ---------- *)
Lemma uac_full : forall a id out a' coins dust r, update_accum_and_claim a id out = Some (a', coins, dust) -> acc_get a id = Some r ->
  same_other a a' id /\ ac_value a' = ac_value a /\ ac_total a' = ac_total a /\
  (ar_shares r <> 0 -> exists insv, dc_safe_sub (ac_value a) out = Some insv /\ acc_get a' id = Some (mkARec (ar_shares r) insv dc0)) /\
  forall d, let g := dsel d (ac_value a) - dsel d out - dsel d (ar_snap r) in
    let tot := dsel d (ar_unclaimed r) + d_mul g (ar_shares r) in
    0 <= g /\ pr_sel d coins = d_truncate_int tot /\ 0 <= pr_sel d coins /\ dsel d dust = tot - d_truncate_int tot * P18 /\ 0 <= dsel d dust.
Proof.
  intros a id out a' coins dust r EU R.
  split; [eapply update_accum_and_claim_other; exact EU|]. split; [eapply update_accum_and_claim_value; exact EU|].
  split; [eapply update_accum_and_claim_total; exact EU|].
  split; [intro NZ; eapply update_accum_and_claim_rec; eassumption|].
  unfold update_accum_and_claim, to_init_plus_outside, acc_claim_rewards, acc_total_rewards, acc_set_position in EU.
  rewrite R in EU. simpl in EU.
  destruct (dc_add (ar_snap r) out) as [snap'|] eqn:ES; [|discriminate EU]. simpl in EU.
  unfold acc_get, acc_with_recs in EU. simpl in EU. rewrite rec_get_set, Z.eqb_refl in EU. simpl in EU.
  destruct (dc_sub (ac_value a) snap') as [diff|] eqn:ED; [|discriminate EU]. simpl in EU.
  destruct (dc_mul_dec diff (ar_shares r)) as [acr|] eqn:EM; [|discriminate EU]. simpl in EU.
  destruct (dc_add (ar_unclaimed r) acr) as [tot|] eqn:ET; [|discriminate EU]. simpl in EU.
  destruct (dc_truncate_decimal tot) as [[cs' ds]|] eqn:ETr; [|discriminate EU]. simpl in EU.
  assert (EQ : coins = cs' /\ dust = ds).
  { match type of EU with (if ?b then _ else _) = _ => destruct b end.
    - destruct (dc_safe_sub _ out); [|discriminate EU]. simpl in EU.
      destruct (rec_get _ id); [|discriminate EU]. simpl in EU. inversion EU; subst. auto.
    - inversion EU; subst. auto. }
  destruct EQ as [-> ->]. intro d. cbv zeta.
  destruct (dsel_sub d _ _ _ ED) as [D1 D2]. rewrite (dsel_add d _ _ _ ES) in D1.
  assert (G : dsel d diff = dsel d (ac_value a) - dsel d out - dsel d (ar_snap r)) by lia.
  rewrite <- G. split; [exact D2|].
  destruct (sel_truncate_decimal d _ _ _ ETr) as [T1' [T2 T3]].
  rewrite (dsel_add d _ _ _ ET), (dsel_mul_dec d _ _ _ EM) in T1', T2.
  split; [exact T1'|]. split; [exact T3|]. split; [rewrite T2, T1'; unfold d_from_int; reflexivity|].
  unfold dc_truncate_decimal in ETr. obind ETr. inversion ETr; subst. destruct p as [t0 c0]. destruct p0 as [t1 c1].
  apply trunc1_some in E, E0. destruct d; simpl; tauto.
Qed.

(* ---------- share change of an existing record ---------- *)
Lemma upd_existing : forall a id out ins delta a1 a2 r,
  to_init_plus_outside a id out = Some a1 -> acc_update_position a1 id delta ins = Some a2 -> acc_get a id = Some r ->
  same_other a a2 id /\ ac_value a2 = ac_value a /\ ac_total a2 = ac_total a + delta /\
  exists un, acc_get a2 id = Some (mkARec (ar_shares r + delta) ins un) /\
    forall d, let g := dsel d (ac_value a) - dsel d out - dsel d (ar_snap r) in
      0 <= g /\ dsel d un = dsel d (ar_unclaimed r) + d_mul g (ar_shares r).
Proof.
  intros a id out ins delta a1 a2 r E1 E2 R.
  pose proof (to_init_plus_outside_other _ _ _ _ E1) as O1. pose proof (acc_update_position_other _ _ _ _ _ E2) as O2.
  pose proof (to_init_plus_outside_value _ _ _ _ E1) as V1. pose proof (acc_update_position_value _ _ _ _ _ E2) as V2.
  split; [eapply same_other_trans; eassumption|]. split; [congruence|].
  unfold to_init_plus_outside in E1. rewrite R in E1. simpl in E1.
  destruct (dc_add (ar_snap r) out) as [s1|] eqn:ES; [|discriminate E1]. simpl in E1.
  unfold acc_set_position in E1. rewrite R in E1. simpl in E1. inversion E1; subst a1. clear E1.
  set (a1 := acc_with_recs a (rec_set (ac_recs a) id (mkARec (ar_shares r) s1 (ar_unclaimed r)))) in *.
  assert (G1 : acc_get a1 id = Some (mkARec (ar_shares r) s1 (ar_unclaimed r))).
  { unfold acc_get, a1. simpl. rewrite rec_get_set, Z.eqb_refl. reflexivity. }
  assert (TR : forall un, acc_total_rewards a1 (mkARec (ar_shares r) s1 (ar_unclaimed r)) = Some un ->
               forall d, 0 <= dsel d (ac_value a) - dsel d out - dsel d (ar_snap r) /\
                         dsel d un = dsel d (ar_unclaimed r) + d_mul (dsel d (ac_value a) - dsel d out - dsel d (ar_snap r)) (ar_shares r)).
  { intros un HT d. unfold acc_total_rewards in HT. simpl in HT.
    destruct (dc_sub (ac_value a) s1) as [diff|] eqn:ED; [|discriminate HT]. simpl in HT.
    destruct (dc_mul_dec diff (ar_shares r)) as [acr|] eqn:EM; [|discriminate HT]. simpl in HT.
    destruct (dsel_sub d _ _ _ ED) as [D1 D2]. rewrite (dsel_add d _ _ _ ES) in D1.
    assert (G : dsel d diff = dsel d (ac_value a) - dsel d out - dsel d (ar_snap r)) by lia.
    rewrite <- G. split; [exact D2|]. rewrite (dsel_add d _ _ _ HT), (dsel_mul_dec d _ _ _ EM). reflexivity. }
  unfold acc_update_position in E2. destruct (delta =? 0); [discriminate E2|].
  destruct (delta <? 0).
  - unfold acc_remove_from_position in E2. rewrite G1 in E2. simpl in E2.
    destruct (negb (0 <? - delta)); [discriminate E2|]. destruct (ar_shares r <? - delta); [discriminate E2|].
    destruct (acc_total_rewards a1 _) as [un|] eqn:ET; [|discriminate E2]. simpl in E2.
    destruct (dchk (ar_shares r - - delta)) as [sh|] eqn:ESh; [|discriminate E2]. simpl in E2.
    match type of E2 with context [dchk (ac_total ?x - - delta)] => destruct (dchk (ac_total x - - delta)) as [tot|] eqn:ETo; [|discriminate E2] end.
    inversion E2; subst a2. simpl. apply dchk_some in ESh, ETo. subst sh tot.
    split; [lia|]. exists un. unfold acc_get. simpl. rewrite rec_get_set, Z.eqb_refl.
    split; [f_equal; f_equal; lia|]. exact (TR un eq_refl).
  - unfold acc_add_to_position in E2. rewrite G1 in E2. simpl in E2.
    destruct (negb (0 <? delta)); [discriminate E2|].
    destruct (acc_total_rewards a1 _) as [un|] eqn:ET; [|discriminate E2]. simpl in E2.
    destruct (dchk (ar_shares r + delta)) as [sh|] eqn:ESh; [|discriminate E2]. simpl in E2.
    match type of E2 with context [dchk (ac_total ?x + delta)] => destruct (dchk (ac_total x + delta)) as [tot|] eqn:ETo; [|discriminate E2] end.
    inversion E2; subst a2. simpl. apply dchk_some in ESh, ETo. subst sh tot.
    split; [reflexivity|]. exists un. unfold acc_get. simpl. rewrite rec_get_set, Z.eqb_refl.
    split; [reflexivity|]. exact (TR un eq_refl).
Qed.

Lemma new_position_rec : forall a id sh snap a', acc_new_position a id sh snap = Some a' ->
  same_other a a' id /\ ac_value a' = ac_value a /\ ac_total a' = ac_total a + sh /\ acc_get a' id = Some (mkARec sh snap dc0).
Proof.
  intros a id sh snap a' H. split; [eapply acc_new_position_other; exact H|]. split; [eapply acc_new_position_value; exact H|].
  unfold acc_new_position in H. destruct (dchk (ac_total a + sh)) as [t|] eqn:ET; [|discriminate H]. inversion H; subst. simpl.
  apply dchk_some in ET. split; [exact ET|]. unfold acc_get. simpl. rewrite rec_get_set, Z.eqb_refl. reflexivity.
Qed.

(* ---------- the value of a record before and after ---------- *)
(* claim: the record is worth at least what is handed out, up to half a unit *)
Lemma owedA_claim : forall d I r tr, 0 <= I - dsel d (ar_snap r) -> 0 <= ar_shares r ->
  tr = d_truncate_int (dsel d (ar_unclaimed r) + d_mul (I - dsel d (ar_snap r)) (ar_shares r)) ->
  0 <= dsel d (ar_unclaimed r) + d_mul (I - dsel d (ar_snap r)) (ar_shares r) - tr * P18 ->
  2 * (tr * P18 * P18) <= 2 * owedA d I r + P18.
Proof.
  intros d I r tr G0 S0 TR D0. unfold owedA. pose proof (d_mul_bounds _ _ G0 S0) as MB. pose proof P18_pos as HP.
  set (g := I - dsel d (ar_snap r)) in *. set (m := d_mul g (ar_shares r)) in *. set (un := dsel d (ar_unclaimed r)) in *.
  set (gs := g * ar_shares r) in *. clearbody gs m un. nia.
Qed.
(* share change: the new record (snapshot = I, unclaimed = total rewards) is worth at most the old one plus half a unit *)
Lemma owedA_update : forall d I r sh' un', 0 <= I - dsel d (ar_snap r) -> 0 <= ar_shares r ->
  un' = dsel d (ar_unclaimed r) + d_mul (I - dsel d (ar_snap r)) (ar_shares r) ->
  forall insv unv, dsel d insv = I -> dsel d unv = un' ->
  2 * owedA d I (mkARec sh' insv unv) <= 2 * owedA d I r + P18.
Proof.
  intros d I r sh' un' G0 S0 UN insv unv HI HU. unfold owedA. cbn [ar_shares ar_snap ar_unclaimed]. rewrite HI, HU, Z.sub_diag, Z.mul_0_l.
  pose proof (d_mul_bounds _ _ G0 S0) as MB.
  set (g := I - dsel d (ar_snap r)) in *. set (m := d_mul g (ar_shares r)) in *. set (un := dsel d (ar_unclaimed r)) in *.
  set (gs := g * ar_shares r) in *. subst un'. clearbody gs m un. lia.
Qed.
