(* C08: identical_positions_identical_rewards and k_times_liquidity over histories (spread rewards).
   A position's spread-reward record changes only when the position itself is withdrawn from, added to or collected; two
   positions created one after the other on the same range get records with the same snapshot; hence twins (equal liquidity)
   that are left alone claim exactly the same at any later time, whatever else happens, and a k-fold position claims k times
   the unit position's amount up to the rounding of C08_k_times_liquidity. *)
From Coq Require Import ZArith List Bool Lia.
Import ListNotations.
From Osmo Require Import Base.DecModel CL.TickMath CL.CLMath CL.CLPool CL.CLSwap CL.CLStep
  CLR.Accum CLR.Rewards CLR.RSwap CLR.RStep C07.Base C07.TickLemmas C07.LP C07.Swap C07.Proofs C03.Steps
  C08.Proj C08.Telescope C08.View C08.Static C08.Stages C08.Ops C08.OpInside C08.SwapTrace C08.Crux
  C08.Claim C08.Conseq C08.Frame C08.Never C08.SwapWf C08.Dom C08.StaticOk C08.Final C08.Paid C08.PaidOps C08.PaidSwap C08.PaidHist.
Open Scope Z_scope.

(* the operations that write the spread-reward record of position id *)
Definition touches (o : rop) (id : Z) : bool :=
  match o with
  | RBase (OWithdraw _ i _) => i =? id
  | RBase (OAdd _ i _ _ _ _) => i =? id
  | RCollectSpread _ ids => z_mem id ids
  | _ => false
  end.

Lemma r_collect_spread_loop_other : forall ids rs owner tot rs' c j, r_collect_spread_loop rs owner ids tot = Some (rs', c) ->
  z_mem j ids = false -> acc_get (rw_spread (r_rw rs')) j = acc_get (rw_spread (r_rw rs)) j.
Proof.
  induction ids as [|id' rest IH]; intros rs owner tot rs' c j H M; simpl in H; [inversion H; reflexivity|].
  simpl in M. apply orb_false_iff in M. destruct M as [M1 M2]. apply Z.eqb_neq in M1.
  destruct (pos_get (s_pos (r_base rs)) id') as [q|] eqn:Q; [|discriminate H].
  destruct (negb (ps_owner q =? owner)); [discriminate H|].
  destruct (collect_spread_rewards _ _ _ _ q) as [[[b w] x]|] eqn:E; [|discriminate H].
  rewrite (IH _ _ _ _ _ j H M2). simpl. apply (collect_spread_rewards_other _ _ _ _ _ _ _ _ E).
  rewrite (pos_get_id _ _ _ Q). exact M1.
Qed.

Lemma handler_rec_frame : forall rs o rs' r id, RInv rs -> rhandler rs o = Some (rs', r) -> touches o id = false ->
  id < s_next_id (r_base rs) -> acc_get (rw_spread (r_rw rs')) id = acc_get (rw_spread (r_rw rs)) id.
Proof.
  intros rs o rs' r id RI H T LT. pose proof RI as [I _].
  destruct o as [b|owner ids|owner ids|sender denom amount rate dt uu]; simpl in H, T.
  - destruct b as [owner a0 a1 m0 m1 lo hi|owner id' liq|owner id' a0 a1 m0 m1|sender ids recipient|sender zfo amt mo|sender zfo amt mi|dt].
    + destruct (r_create rs owner a0 a1 m0 m1 lo hi) as [[rs1 c]|] eqn:E; [|discriminate H]. inversion H; subst.
      destruct (create_position_spec _ _ _ _ _ _ _ _ _ _ I (r_create_base _ _ _ _ _ _ _ _ _ _ E)) as [_ [_ [CI _]]].
      apply (r_create_other _ _ _ _ _ _ _ _ _ _ E). lia.
    + destruct (r_withdraw rs owner id' liq) as [[rs1 [x0 x1]]|] eqn:E; [|discriminate H]. inversion H; subst.
      apply Z.eqb_neq in T. apply (r_withdraw_other _ _ _ _ _ _ E). congruence.
    + destruct (r_add rs owner id' a0 a1 m0 m1) as [[rs1 [[nid y0] y1]]|] eqn:E; [|discriminate H]. inversion H; subst.
      assert (QX : exists q, pos_get (s_pos (r_base rs)) id' = Some q).
      { unfold r_add in E. destruct (id' <=? 0); [discriminate E|].
        destruct ((a0 <? 0) || (a1 <? 0) || (m0 <? 0) || (m1 <? 0)); [discriminate E|].
        destruct (pos_get (s_pos (r_base rs)) id') as [q|]; [eauto|discriminate E]. }
      destruct QX as [q Q]. destruct (r_add_split _ _ _ _ _ _ _ _ _ _ E Q) as [rs1 [w0 [w1 [m0' [m1' [cr [EW EC]]]]]]].
      apply Z.eqb_neq in T. pose proof (rinv_withdraw _ _ _ _ _ _ EW RI) as [I1 _].
      destruct (r_withdraw_base _ _ _ _ _ _ EW) as [s1 [WB [_ [_ [_ [NX1 _]]]]]].
      destruct (withdraw_position_spec _ _ _ _ _ _ _ I WB) as [_ [NX _]].
      destruct (create_position_spec _ _ _ _ _ _ _ _ _ _ I1 (r_create_base _ _ _ _ _ _ _ _ _ _ EC)) as [_ [_ [CI _]]].
      rewrite (r_create_other _ _ _ _ _ _ _ _ _ _ EC id) by lia. apply (r_withdraw_other _ _ _ _ _ _ EW). congruence.
    + destruct (transfer_positions (r_base rs) sender ids recipient) as [s'|]; [|discriminate H]. inversion H; subst. reflexivity.
    + destruct (r_swap_in rs sender zfo amt mo) as [[rs1 out]|] eqn:E; [|discriminate H]. inversion H; subst.
      unfold r_swap_in in E. destruct (swap_exact_in _ _ _ _ _) as [[s' out']|]; [|discriminate E]. simpl in E.
      destruct (swap_rewards _ _ _ _ _ _) as [w|] eqn:E2; [|discriminate E]. inversion E; subst. simpl.
      unfold acc_get. rewrite (swap_rewards_recs _ _ _ _ _ _ _ E2). reflexivity.
    + destruct (r_swap_out rs sender zfo amt mi) as [[rs1 tin]|] eqn:E; [|discriminate H]. inversion H; subst.
      unfold r_swap_out in E. destruct (swap_exact_out _ _ _ _ _) as [[s' tin']|]; [|discriminate E]. simpl in E.
      destruct (swap_rewards _ _ _ _ _ _) as [w|] eqn:E2; [|discriminate E]. inversion E; subst. simpl.
      unfold acc_get. rewrite (swap_rewards_recs _ _ _ _ _ _ _ E2). reflexivity.
    + inversion H; subst. reflexivity.
  - destruct (r_collect_spread rs owner ids) as [[rs1 c]|] eqn:E; [|discriminate H]. inversion H; subst.
    apply (r_collect_spread_loop_other _ _ _ _ _ _ _ E T).
  - destruct (r_collect_inc rs owner ids) as [[rs1 [c f]]|] eqn:E; [|discriminate H]. inversion H; subst.
    destruct (r_collect_inc_loop_spread _ _ _ _ _ _ _ E) as [SR _]. rewrite SR. reflexivity.
  - destruct (r_incentive rs sender denom amount rate dt uu) as [rs1|] eqn:E; [|discriminate H]. inversion H; subst.
    unfold r_incentive in E.
    repeat match type of E with (if ?b then None else _) = _ => destruct b; [discriminate E|] end.
    destruct (user_bal _ sender) as [ub|]; [|discriminate E]. cbv beta iota in E.
    repeat match type of E with (if ?b then None else _) = _ => destruct b; [discriminate E|] end.
    destruct (update_uptime _ _ _) as [w1|] eqn:EU; [|discriminate E]. cbv beta iota in E.
    destruct (send_user_to_inc _ _ _ _) as [b|]; [|discriminate E]. inversion E; subst. simpl.
    destruct (update_uptime_tt _ _ _ _ EU) as [_ [SR _]]. rewrite SR. reflexivity.
Qed.

Lemma handler_next_id : forall rs o rs' r, RInv rs -> rhandler rs o = Some (rs', r) -> s_next_id (r_base rs) <= s_next_id (r_base rs').
Proof.
  intros rs o rs' r RI H. pose proof RI as [I _].
  (* the base component of every handler is the base handler or leaves the pool state but for the bank *)
  destruct o as [b|owner ids|owner ids|sender denom amount rate dt uu]; simpl in H.
  - destruct b as [owner a0 a1 m0 m1 lo hi|owner id' liq|owner id' a0 a1 m0 m1|sender ids recipient|sender zfo amt mo|sender zfo amt mi|dt].
    + destruct (r_create rs owner a0 a1 m0 m1 lo hi) as [[rs1 c]|] eqn:E; [|discriminate H]. inversion H; subst.
      destruct (create_position_spec _ _ _ _ _ _ _ _ _ _ I (r_create_base _ _ _ _ _ _ _ _ _ _ E)) as [_ [NX _]]. lia.
    + destruct (r_withdraw rs owner id' liq) as [[rs1 [x0 x1]]|] eqn:E; [|discriminate H]. inversion H; subst.
      destruct (r_withdraw_base _ _ _ _ _ _ E) as [s1 [WB [_ [_ [_ [NX1 _]]]]]].
      destruct (withdraw_position_spec _ _ _ _ _ _ _ I WB) as [_ [NX _]]. lia.
    + destruct (r_add rs owner id' a0 a1 m0 m1) as [[rs1 [[nid y0] y1]]|] eqn:E; [|discriminate H]. inversion H; subst.
      assert (QX : exists q, pos_get (s_pos (r_base rs)) id' = Some q).
      { unfold r_add in E. destruct (id' <=? 0); [discriminate E|].
        destruct ((a0 <? 0) || (a1 <? 0) || (m0 <? 0) || (m1 <? 0)); [discriminate E|].
        destruct (pos_get (s_pos (r_base rs)) id') as [q|]; [eauto|discriminate E]. }
      destruct QX as [q Q]. destruct (r_add_split _ _ _ _ _ _ _ _ _ _ E Q) as [rs1 [w0 [w1 [m0' [m1' [cr [EW EC]]]]]]].
      pose proof (rinv_withdraw _ _ _ _ _ _ EW RI) as [I1 _].
      destruct (r_withdraw_base _ _ _ _ _ _ EW) as [s1 [WB [_ [_ [_ [NX1 _]]]]]].
      destruct (withdraw_position_spec _ _ _ _ _ _ _ I WB) as [_ [NX _]].
      destruct (create_position_spec _ _ _ _ _ _ _ _ _ _ I1 (r_create_base _ _ _ _ _ _ _ _ _ _ EC)) as [_ [NX2 _]]. lia.
    + destruct (transfer_positions (r_base rs) sender ids recipient) as [s'|] eqn:E; [|discriminate H]. inversion H; subst.
      destruct (transfer_positions_spec _ _ _ _ _ I E) as [_ [NX _]]. simpl. lia.
    + destruct (r_swap_in rs sender zfo amt mo) as [[rs1 out]|] eqn:E; [|discriminate H]. inversion H; subst.
      unfold r_swap_in in E. destruct (swap_exact_in _ _ _ _ _) as [[s' out']|] eqn:E1; [|discriminate E]. simpl in E.
      destruct (swap_rewards _ _ _ _ _ _) as [w|]; [|discriminate E]. inversion E; subst. simpl.
      unfold swap_exact_in in E1. destruct (negb (0 <? amt) || negb (0 <? mo)); [discriminate E1|].
      destruct (compute_out_amt_given_in _ _ _ _) as [rr|]; [|discriminate E1]. simpl in E1. destruct (negb (0 <? sr_out rr)); [discriminate E1|].
      destruct (update_pool_for_swap (r_base rs) sender zfo rr) as [s0|] eqn:EU; [|discriminate E1]. simpl in E1.
      destruct (sr_out rr <? mo); [discriminate E1|]. inversion E1; subst.
      destruct (update_pool_for_swap_spec _ _ _ _ _ EU) as [b Hb]. rewrite Hb. simpl. lia.
    + destruct (r_swap_out rs sender zfo amt mi) as [[rs1 tin]|] eqn:E; [|discriminate H]. inversion H; subst.
      unfold r_swap_out in E. destruct (swap_exact_out _ _ _ _ _) as [[s' tin']|] eqn:E1; [|discriminate E]. simpl in E.
      destruct (swap_rewards _ _ _ _ _ _) as [w|]; [|discriminate E]. inversion E; subst. simpl.
      unfold swap_exact_out in E1. destruct (negb (0 <? amt) || negb (0 <? mi)); [discriminate E1|].
      destruct (compute_in_amt_given_out _ _ _ _) as [rr|]; [|discriminate E1]. simpl in E1. destruct (negb (0 <? sr_in rr)); [discriminate E1|].
      destruct (update_pool_for_swap (r_base rs) sender zfo rr) as [s0|] eqn:EU; [|discriminate E1]. simpl in E1.
      destruct (mi <? sr_in rr); [discriminate E1|]. inversion E1; subst.
      destruct (update_pool_for_swap_spec _ _ _ _ _ EU) as [b Hb]. rewrite Hb. simpl. lia.
    + inversion H; subst. simpl. lia.
  - destruct (r_collect_spread rs owner ids) as [[rs1 c]|] eqn:E; [|discriminate H]. inversion H; subst.
    destruct (r_collect_spread_loop_sbb _ _ _ _ _ _ E) as [[_ [_ [_ [NX _]]]] _]. lia.
  - destruct (r_collect_inc rs owner ids) as [[rs1 [c f]]|] eqn:E; [|discriminate H]. inversion H; subst.
    destruct (r_collect_inc_loop_sbb _ _ _ _ _ _ _ E) as [[_ [_ [_ [NX _]]]] _]. lia.
  - destruct (r_incentive rs sender denom amount rate dt uu) as [rs1|] eqn:E; [|discriminate H]. inversion H; subst.
    unfold r_incentive in E. obind E. inversion E; subst. simpl. lia.
Qed.

(* ---------- histories that leave a position's record alone ---------- *)
Fixpoint hist_untouched (ops : list rop) (id : Z) : bool :=
  match ops with [] => true | o :: r => negb (touches o id) && hist_untouched r id end.

Lemma run_rec_frame : forall ops rs id, RInv rs -> hist_untouched ops id = true -> id < s_next_id (r_base rs) ->
  acc_get (rw_spread (r_rw (rrun rs ops))) id = acc_get (rw_spread (r_rw rs)) id /\ id < s_next_id (r_base (rrun rs ops)).
Proof.
  induction ops as [|o r IH]; intros rs id RI HU LT; simpl; [split; [reflexivity|exact LT]|].
  simpl in HU. apply andb_true_iff in HU. destruct HU as [T HU]. apply negb_true_iff in T.
  unfold rstep. destruct (rhandler rs o) as [[rs' res]|] eqn:H; simpl.
  - pose proof (rinv_handler _ _ _ _ H RI) as RI'. pose proof (handler_next_id _ _ _ _ RI H) as NX.
    destruct (IH rs' id RI' HU ltac:(lia)) as [A B]. split; [|exact B]. rewrite A. apply (handler_rec_frame _ _ _ _ _ RI H T LT).
  - apply IH; assumption.
Qed.

(* IDENTICAL_POSITIONS_IDENTICAL_REWARDS over histories: two positions on the same range whose records are equal and that are
   left alone (no withdrawal, add or collect on them) through an arbitrary history claim exactly the same at the end *)
Theorem identical_positions_over_history : forall ops rs id1 id2 r q1 q2 c1 c2, RInv rs ->
  id1 < s_next_id (r_base rs) -> id2 < s_next_id (r_base rs) ->
  acc_get (rw_spread (r_rw rs)) id1 = Some r -> acc_get (rw_spread (r_rw rs)) id2 = Some r ->
  hist_untouched ops id1 = true -> hist_untouched ops id2 = true ->
  let rs' := rrun rs ops in
  pos_get (s_pos (r_base rs')) id1 = Some q1 -> pos_get (s_pos (r_base rs')) id2 = Some q2 ->
  ps_lower q1 = ps_lower q2 -> ps_upper q1 = ps_upper q2 ->
  claimable_spread rs' id1 = Some c1 -> claimable_spread rs' id2 = Some c2 -> c1 = c2.
Proof.
  intros ops rs id1 id2 r q1 q2 c1 c2 RI L1 L2 R1 R2 U1 U2 rs' Q1 Q2 EL EU H1 H2.
  destruct (run_rec_frame ops rs id1 RI U1 L1) as [F1 _]. destruct (run_rec_frame ops rs id2 RI U2 L2) as [F2 _]. fold rs' in F1, F2.
  rewrite R1 in F1. rewrite R2 in F2.
  unfold claimable_spread in H1, H2. rewrite Q1 in H1. rewrite Q2 in H2. cbv beta iota in H1, H2. rewrite <- EL, <- EU in H2.
  destruct (prepare_claimable_spread _ _ _ _ _ id1) as [[w1 x1]|] eqn:E1; [|discriminate H1]. inversion H1; subst x1.
  destruct (prepare_claimable_spread _ _ _ _ _ id2) as [[w2 x2]|] eqn:E2; [|discriminate H2]. inversion H2; subst x2.
  exact (identical_positions_identical_spread_rewards _ _ _ _ _ _ _ _ _ _ _ r E1 E2 F1 F2).
Qed.

(* ---------- positions created one after the other on the same range ---------- *)
Lemma r_create_value : forall rs owner a0 a1 m0 m1 lo hi rs' c, r_create rs owner a0 a1 m0 m1 lo hi = Some (rs', c) ->
  ac_value (rw_spread (r_rw rs')) = ac_value (rw_spread (r_rw rs)).
Proof.
  unfold r_create. intros rs owner a0 a1 m0 m1 lo hi rs' c H.
  destruct (create_position _ _ _ _ _ _ _ _) as [[s2 c2]|]; [|discriminate H]. simpl in H.
  match type of H with (do w <- ?X; _) = _ => destruct X as [w|] eqn:E; [|discriminate H] end. inversion H; subst. simpl.
  unfold update_position_rewards in E.
  destruct (ensure_tick _ _ _ _ (cr_lower c)) as [w1|] eqn:E1; [|discriminate E]. simpl in E.
  destruct (ensure_tick w1 _ _ _ (cr_upper c)) as [w2|] eqn:E2; [|discriminate E]. simpl in E.
  destruct (init_or_update_uptime w2 _ _ _ _ _ _ _ _) as [w3|] eqn:E3; [|discriminate E]. simpl in E.
  assert (SP3 : rw_spread w3 = rw_spread (r_rw rs)).
  { rewrite (init_or_update_uptime_spread _ _ _ _ _ _ _ _ _ _ E3), (ensure_tick_spread _ _ _ _ _ _ E2), (ensure_tick_spread _ _ _ _ _ _ E1). reflexivity. }
  rewrite <- SP3. destruct (acc_get (rw_spread w3) (cr_id c)) as [r|] eqn:R.
  - destruct (init_or_update_spread_gen _ _ _ _ _ _ _ _ E R) as [? [? [_ [_ [_ [_ [V _]]]]]]]. exact V.
  - destruct (init_or_update_spread_new _ _ _ _ _ _ _ E R) as [? [_ [_ [_ [V _]]]]]. exact V.
Qed.

(* two creations in a row on the same range: the two records have the same snapshot and nothing unclaimed *)
Theorem created_together : forall rs o1 a0 a1 m0 m1 lo hi rs1 c1 o2 b0 b1 n0 n1 rs2 c2, PI rs ->
  r_create rs o1 a0 a1 m0 m1 lo hi = Some (rs1, c1) -> r_create rs1 o2 b0 b1 n0 n1 lo hi = Some (rs2, c2) ->
  cr_lower c2 = cr_lower c1 -> cr_upper c2 = cr_upper c1 ->
  exists snap, acc_get (rw_spread (r_rw rs2)) (cr_id c1) = Some (mkARec (cr_liq c1) snap dc0) /\
               acc_get (rw_spread (r_rw rs2)) (cr_id c2) = Some (mkARec (cr_liq c2) snap dc0).
Proof.
  intros rs o1 a0 a1 m0 m1 lo hi rs1 c1 o2 b0 b1 n0 n1 rs2 c2 HPI E1 E2 EL EU.
  pose proof HPI as [RI [_ [_ FR]]]. pose proof RI as [I _].
  destruct (paid_create _ _ _ _ _ _ _ _ _ _ HPI E1) as [HPI1 _]. pose proof HPI1 as [RI1 [_ [_ FR1]]]. pose proof RI1 as [I1 _].
  destruct (create_position_spec _ _ _ _ _ _ _ _ _ _ I (r_create_base _ _ _ _ _ _ _ _ _ _ E1)) as [_ [NX1 [CI1 _]]].
  destruct (create_position_spec _ _ _ _ _ _ _ _ _ _ I1 (r_create_base _ _ _ _ _ _ _ _ _ _ E2)) as [_ [NX2 [CI2 _]]].
  pose proof (create_zero_rec _ _ _ _ _ _ _ _ _ _ RI E1 (FR (cr_id c1) ltac:(lia))) as Z1.
  pose proof (create_zero_rec _ _ _ _ _ _ _ _ _ _ RI1 E2 (FR1 (cr_id c2) ltac:(lia))) as Z2.
  destruct Z1 as [L1 [r1 [LV1 [LP1 [R1 [SH1 [U1 S1]]]]]]]. destruct Z2 as [L2 [r2 [LV2 [LP2 [R2 [SH2 [U2 S2]]]]]]].
  destruct LV1 as [q1 [Q1 [Ql1 [Qu1 QL1]]]]. destruct LV2 as [q2 [Q2 [Ql2 [Qu2 QL2]]]].
  assert (QLa : ps_liq q1 = cr_liq c1).
  { destruct (create_position_spec _ _ _ _ _ _ _ _ _ _ I (r_create_base _ _ _ _ _ _ _ _ _ _ E1)) as [_ [_ [_ [SPa _]]]].
    rewrite SPa, pos_get_set in Q1. simpl in Q1. rewrite CI1, Z.eqb_refl in Q1. inversion Q1; reflexivity. }
  assert (QLb : ps_liq q2 = cr_liq c2).
  { destruct (create_position_spec _ _ _ _ _ _ _ _ _ _ I1 (r_create_base _ _ _ _ _ _ _ _ _ _ E2)) as [_ [_ [_ [SPb _]]]].
    rewrite SPb, pos_get_set in Q2. simpl in Q2. rewrite CI2, Z.eqb_refl in Q2. inversion Q2; reflexivity. }
  (* the first record is not written by the second creation *)
  assert (R1' : acc_get (rw_spread (r_rw rs2)) (cr_id c1) = Some r1).
  { rewrite (r_create_other _ _ _ _ _ _ _ _ _ _ E2 (cr_id c1)) by lia. exact R1. }
  (* growth inside the range is the same before and after the second creation *)
  assert (LVa : livep (r_base rs1) (cr_id c1) (cr_lower c1) (cr_upper c1)) by (exists q1; auto).
  assert (LVb : livep (r_base rs2) (cr_id c1) (cr_lower c1) (cr_upper c1)).
  { destruct (create_position_spec _ _ _ _ _ _ _ _ _ _ I1 (r_create_base _ _ _ _ _ _ _ _ _ _ E2)) as [_ [_ [_ [SP _]]]].
    exists q1. rewrite SP, pos_get_set. simpl. assert (X : (cr_id c1 =? s_next_id (r_base rs1)) = false) by (apply Z.eqb_neq; lia).
    rewrite X. auto. }
  set (oc := RBase (OCreate o2 b0 b1 n0 n1 lo hi)).
  assert (HH : rhandler rs1 oc = Some (rs2, [cr_id c2; cr_amount0 c2; cr_amount1 c2; cr_liq c2; cr_lower c2; cr_upper c2])) by (simpl; rewrite E2; reflexivity).
  assert (ST : fst (rstep rs1 oc) = rs2) by (unfold rstep; rewrite HH; reflexivity).
  assert (INS : forall d, a_inside (rview (CS d) rs2) (cr_lower c1) (cr_upper c1) = a_inside (rview (CS d) rs1) (cr_lower c1) (cr_upper c1)).
  { intro d. destruct (has_range_tt_ok (CS d) rs1 _ _ RI1 (livep_has_range _ _ _ _ LVa)) as [T Hlu].
    pose proof (op_ok_of_live (CS d) rs1 oc _ _ _ RI1 LVa ltac:(rewrite ST; exact LVb)) as OK.
    destruct (op_step (CS d) rs1 oc _ _ Hlu T OK) as [_ STEP]. rewrite ST in STEP. rewrite STEP.
    unfold op_growth, rstep. rewrite HH. simpl is_swap. cbv iota. simpl sel_G. rewrite (r_create_value _ _ _ _ _ _ _ _ _ _ E2).
    destruct (in_rng _ _ _); lia. }
  exists (ar_snap r1). split.
  - rewrite R1'. f_equal. destruct r1 as [sh sn un]. simpl in *. rewrite SH1, U1, <- QLa, QL1. reflexivity.
  - rewrite R2. f_equal. destruct r2 as [sh sn un]. simpl in *. rewrite SH2, U2, <- QLb, QL2. f_equal.
    apply dc_ext. intro d. rewrite (S2 d), EL, EU, (INS d). symmetry. apply S1.
Qed.

(* K_TIMES_LIQUIDITY over histories: a position with k times the shares of another one on the same range, same snapshot, nothing
   unclaimed, both left alone through an arbitrary history: its claim is k times the other's up to the rounding of the claim *)
Theorem k_times_over_history : forall ops rs id1 idk L k snap q1 qk c1 ck d, RInv rs ->
  id1 < s_next_id (r_base rs) -> idk < s_next_id (r_base rs) ->
  acc_get (rw_spread (r_rw rs)) id1 = Some (mkARec L snap dc0) -> acc_get (rw_spread (r_rw rs)) idk = Some (mkARec (k * L) snap dc0) ->
  0 <= L -> 1 <= k <= P18 ->
  hist_untouched ops id1 = true -> hist_untouched ops idk = true ->
  let rs' := rrun rs ops in
  p_scaling (s_pool (r_base rs')) = P18 \/ p_scaling (s_pool (r_base rs')) = big_scaling ->
  pos_get (s_pos (r_base rs')) id1 = Some q1 -> pos_get (s_pos (r_base rs')) idk = Some qk ->
  ps_lower q1 = ps_lower qk -> ps_upper q1 = ps_upper qk ->
  claimable_spread rs' id1 = Some c1 -> claimable_spread rs' idk = Some ck ->
  -1 <= pr_sel d ck - k * pr_sel d c1 <= k.
Proof.
  intros ops rs id1 idk L k snap q1 qk c1 ck d RI L1 L2 R1 R2 HL Hk U1 U2 rs' HSC Q1 Q2 EL EU H1 H2.
  destruct (run_rec_frame ops rs id1 RI U1 L1) as [F1 _]. destruct (run_rec_frame ops rs idk RI U2 L2) as [F2 _]. fold rs' in F1, F2.
  rewrite R1 in F1. rewrite R2 in F2.
  unfold claimable_spread in H1, H2. rewrite Q1 in H1. rewrite Q2 in H2. cbv beta iota in H1, H2. rewrite <- EL, <- EU in H2.
  destruct (prepare_claimable_spread _ _ _ _ _ id1) as [[w1 x1]|] eqn:E1; [|discriminate H1]. inversion H1; subst x1.
  destruct (prepare_claimable_spread _ _ _ _ _ idk) as [[w2 x2]|] eqn:E2; [|discriminate H2]. inversion H2; subst x2.
  destruct (claimable_spread_formula _ _ _ _ _ _ _ _ E1) as [ra [RA FA]]. rewrite F1 in RA. inversion RA; subst ra. clear RA.
  destruct (claimable_spread_formula _ _ _ _ _ _ _ _ E2) as [rb [RB FB]]. rewrite F2 in RB. inversion RB; subst rb. clear RB.
  destruct (FA d) as [G0 CA]. destruct (FB d) as [_ CB]. simpl in CA, CB, G0. rewrite dsel_dc0 in CA, CB.
  rewrite CA, CB. apply (k_times_liquidity _ _ L k HSC G0 HL Hk).
Qed.
