(* C08: the TIME and SHAPE conditions of the incentive claim as invariants: the last liquidity update and every position's
   join time are at most the block time, and every stored tick carries one uptime tracker per uptime accumulator.
   Time only moves through OTime; the model accepts negative steps there, so the history must not contain one. *)
From Coq Require Import ZArith List Bool Lia.
Import ListNotations.
From Osmo Require Import Base.DecModel CL.TickMath CL.CLMath CL.CLPool CL.CLSwap CL.CLStep
  CLR.Accum CLR.Rewards CLR.RSwap CLR.RStep C07.Base C07.TickLemmas C07.LP C07.Swap
  C08.Proj C08.Telescope C08.View C08.Static C08.Stages C08.Ops C08.Claim C08.Conseq C08.Frame C08.Never C08.SwapWf C08.Dom
  C08.StaticOk C08.Paid C08.PaidOps C08.IncAcc C08.Inc C08.IncList C08.IncStage C08.IncOps C08.IncSwap C08.IncHist C08.UpNever C08.ClaimOk C08.ClaimInv C08.ClaimIncInv C08.ClaimIncOk.
Open Scope Z_scope.

(* the reward-state part: last update <= now, tracker lists of the right length *)
Definition TWw (w : rwd) (now : Z) : Prop := rw_last w <= now /\ wf_rwd w.

Lemma wf_same : forall w w', rw_tt w' = rw_tt w -> length (rw_up w') = length (rw_up w) -> wf_rwd w -> wf_rwd w'.
Proof. intros w w' T L WF. unfold wf_rwd in *. rewrite T, L. exact WF. Qed.

Lemma update_uptime_TW : forall w liq now w', update_uptime w liq now = Some w' -> wf_rwd w ->
  rw_last w' = now /\ wf_rwd w' /\ length (rw_up w') = length (rw_up w).
Proof.
  intros w liq now w' H WF.
  assert (L : length (rw_up w') = length (rw_up w)) by (apply (update_uptime_length _ _ _ _ H)).
  split; [|split; [apply (wf_same w w' (proj1 (update_uptime_tt _ _ _ _ H)) L WF)|exact L]].
  unfold update_uptime in H. destruct (now - rw_last w =? 0) eqn:E0; [inversion H; subst; apply Z.eqb_eq in E0; lia|].
  destruct (now - rw_last w <? 0); [discriminate H|]. destruct (liq <? P18); [inversion H; reflexivity|].
  destruct (accrue_all _ _ _ _ _ _ _) as [[ups recs]|]; [|discriminate H]. inversion H; reflexivity.
Qed.

Lemma tt_set_in : forall m k v x, In x (tt_set m k v) -> x = (k, v) \/ In x m.
Proof.
  induction m as [|[k' v'] m IH]; intros k v x H; simpl in H; [destruct H as [H|[]]; auto|].
  destruct (k <? k'); [destruct H as [H|H]; auto|]. destruct (k =? k'); [destruct H as [H|H]; [auto|right; right; exact H]|].
  destruct H as [H|H]; [right; left; exact H|]. destruct (IH _ _ _ H) as [A|A]; [auto|right; right; exact A].
Qed.
Lemma tt_remove_in : forall m k x, In x (tt_remove m k) -> In x m.
Proof.
  induction m as [|[k' v'] m IH]; intros k x H; simpl in H; [exact H|].
  destruct (k =? k'); [right; exact H|]. destruct H as [H|H]; [left; exact H|right; eapply IH; exact H].
Qed.

Lemma ensure_tick_TW : forall w cur liq now i w', ensure_tick w cur liq now i = Some w' -> TWw w now -> TWw w' now /\ length (rw_up w') = length (rw_up w).
Proof.
  unfold ensure_tick. intros w cur liq now i w' H [HL WF]. destruct (tt_get (rw_tt w) i); [inversion H; subst; split; [split; assumption|reflexivity]|].
  destruct (update_uptime w liq now) as [w1|] eqn:E; [|discriminate H]. inversion H; subst. clear H.
  destruct (update_uptime_TW _ _ _ _ E WF) as [L1 [WF1 LN1]]. split; [|exact LN1]. split; [simpl; lia|].
  unfold wf_rwd in *. simpl. rewrite Forall_forall in *. intros x Hx. destruct (tt_set_in _ _ _ _ Hx) as [A|A]; [|apply WF1; exact A].
  subst x. simpl. unfold init_tracker. destruct (i <=? cur); simpl; apply map_length.
Qed.

Lemma updU_TW : forall w cur pl now lo hi id liq delta w', init_or_update_uptime w cur pl now lo hi id liq delta = Some w' -> TWw w now ->
  TWw w' now /\ length (rw_up w') = length (rw_up w).
Proof.
  unfold init_or_update_uptime. intros w cur pl now lo hi id liq delta w' H [HL WF].
  destruct (update_uptime w pl now) as [w1|] eqn:E1; [|discriminate H]. cbv beta iota in H.
  destruct (uptime_growth_inside w1 cur lo hi) as [ins|]; [|discriminate H]. cbv beta iota in H.
  destruct (uptime_growth_outside w1 cur lo hi) as [outs|]; [|discriminate H]. cbv beta iota in H.
  destruct (upd_uptime_accs (rw_up w1) ins outs id liq delta) as [ups|] eqn:EU; [|discriminate H]. inversion H; subst w'. clear H.
  destruct (update_uptime_TW _ _ _ _ E1 WF) as [L1 [WF1 LN1]]. destruct (upd_uptime_accs_values _ _ _ _ _ _ _ EU) as [LU _].
  split; [split; [simpl; lia|apply (wf_same w1); [reflexivity|simpl; exact LU|exact WF1]]|simpl; lia].
Qed.

Lemma claimI_TW : forall w cur pl now lo hi id join w' col forf byup,
  prepare_claim_all_incentives w cur pl now lo hi id join = Some (w', col, forf, byup) -> TWw w now ->
  TWw w' now /\ length (rw_up w') = length (rw_up w).
Proof.
  unfold prepare_claim_all_incentives. intros w cur pl now lo hi id join w' col forf byup H [HL WF].
  destruct (update_uptime w pl now) as [w1|] eqn:E1; [|discriminate H]. cbv beta iota in H.
  destruct ((now - join) * 1000000000 <? 0); [discriminate H|].
  destruct (uptime_growth_outside w1 cur lo hi) as [outs|]; [|discriminate H]. cbv beta iota in H.
  destruct (claim_uptimes _ _ _ _ _ _) as [[[[ups c1] f1] b1]|] eqn:EC; [|discriminate H]. inversion H; subst w'. clear H.
  destruct (update_uptime_TW _ _ _ _ E1 WF) as [L1 [WF1 LN1]]. destruct (claim_uptimes_values _ _ _ _ _ _ _ _ _ _ EC) as [LU _].
  split; [split; [simpl; lia|apply (wf_same w1); [reflexivity|simpl; exact LU|exact WF1]]|simpl; lia].
Qed.

Lemma redeposit_accs_length : forall ups byup liq ups', redeposit_accs ups byup liq = Some ups' -> length ups' = length ups.
Proof.
  induction ups as [|a ups IH]; intros byup liq ups' H; destruct byup as [|f byup]; simpl in H; try discriminate H; [inversion H; reflexivity|].
  match type of H with (do a' <- ?X; _) = _ => destruct X as [a'|]; [|discriminate H] end. cbv beta iota in H.
  destruct (redeposit_accs ups byup liq) as [r|] eqn:E; [|discriminate H]. inversion H; subst. simpl. rewrite (IH _ _ _ E). reflexivity.
Qed.
Lemma redeposit_TW : forall w byup liq w' now, redeposit_forfeited w byup liq = Some w' -> TWw w now -> TWw w' now /\ length (rw_up w') = length (rw_up w).
Proof.
  unfold redeposit_forfeited. intros w byup liq w' now H [HL WF]. destruct (redeposit_accs (rw_up w) byup liq) as [ups|] eqn:E; [|discriminate H].
  inversion H; subst. pose proof (redeposit_accs_length _ _ _ _ E) as L.
  split; [split; [exact HL|apply (wf_same w); [reflexivity|exact L|exact WF]]|exact L].
Qed.

Lemma init_or_update_spread_TW : forall w cur lo hi id delta w' now, init_or_update_spread w cur lo hi id delta = Some w' -> TWw w now ->
  TWw w' now /\ length (rw_up w') = length (rw_up w).
Proof.
  intros w cur lo hi id delta w' now H [HL WF]. pose proof (init_or_update_spread_tt _ _ _ _ _ _ _ H) as T. pose proof (init_or_update_spread_up _ _ _ _ _ _ _ H) as U.
  assert (L : rw_last w' = rw_last w).
  { unfold init_or_update_spread in H. obind H. destruct (negb (acc_has (rw_spread w) id)); obind H; inversion H; reflexivity. }
  split; [split; [lia|apply (wf_same w); [exact T|rewrite U; reflexivity|exact WF]]|rewrite U; reflexivity].
Qed.

Lemma prepare_claimable_spread_TW : forall w sc cur l u id w' c now, prepare_claimable_spread w sc cur l u id = Some (w', c) -> TWw w now ->
  TWw w' now /\ length (rw_up w') = length (rw_up w).
Proof.
  intros w sc cur l u id w' c now H [HL WF]. destruct (prepare_claimable_spread_upfields _ _ _ _ _ _ _ _ H) as [U [T _]].
  assert (L : rw_last w' = rw_last w).
  { unfold prepare_claimable_spread in H. destruct (negb (acc_has (rw_spread w) id)); [discriminate H|].
    destruct (spread_growth_outside w cur l u) as [out|]; [|discriminate H]. simpl in H.
    destruct (update_accum_and_claim (rw_spread w) id out) as [[[a1 cs] dust]|]; [|discriminate H]. simpl in H.
    match type of H with (do cd <- ?X; _) = _ => destruct X as [[cl du]|]; [|discriminate H] end. simpl in H.
    match type of H with (do a2 <- ?X; _) = _ => destruct X as [a2|]; [|discriminate H] end. simpl in H. inversion H; reflexivity. }
  split; [split; [lia|apply (wf_same w); [exact T|rewrite U; reflexivity|exact WF]]|rewrite U; reflexivity].
Qed.

Lemma remove_TW : forall w i now, TWw w now -> TWw (set_tt w (tt_remove (rw_tt w) i)) now.
Proof.
  intros w i now [HL WF]. split; [exact HL|]. unfold wf_rwd in *. simpl. rewrite Forall_forall in *. intros x Hx. apply WF. eapply tt_remove_in. exact Hx.
Qed.

Lemma upr_TW : forall w cur pl now lo hi id liq delta w', update_position_rewards w cur pl now lo hi id liq delta = Some w' -> TWw w now ->
  TWw w' now /\ length (rw_up w') = length (rw_up w).
Proof.
  unfold update_position_rewards. intros w cur pl now lo hi id liq delta w' H TW.
  destruct (ensure_tick w cur pl now lo) as [w1|] eqn:E1; [|discriminate H]. simpl in H.
  destruct (ensure_tick w1 cur pl now hi) as [w2|] eqn:E2; [|discriminate H]. simpl in H.
  destruct (init_or_update_uptime w2 cur pl now lo hi id liq delta) as [w3|] eqn:E3; [|discriminate H]. simpl in H.
  destruct (ensure_tick_TW _ _ _ _ _ _ E1 TW) as [TW1 L1]. destruct (ensure_tick_TW _ _ _ _ _ _ E2 TW1) as [TW2 L2].
  destruct (updU_TW _ _ _ _ _ _ _ _ _ _ E3 TW2) as [TW3 L3]. destruct (init_or_update_spread_TW _ _ _ _ _ _ _ now H TW3) as [TW4 L4].
  split; [exact TW4|lia].
Qed.

(* ---------- swaps ---------- *)
Lemma cross_trackers_TW : forall w din pending i w' now, cross_trackers w din pending i = Some w' -> TWw w now ->
  TWw w' now /\ length (rw_up w') = length (rw_up w).
Proof.
  unfold cross_trackers. intros w din pending i w' now H [HL WF].
  destruct (tt_get (rw_tt w) i) as [t|]; [|discriminate H]. cbv beta iota in H.
  destruct (dc_add (ac_value (rw_spread w)) (dc_one din pending)) as [g|]; [|discriminate H]. cbv beta iota in H.
  destruct (dc_sub g (rt_spread t)) as [sp|]; [|discriminate H]. cbv beta iota in H.
  destruct (omap2 dc_sub (map ac_value (rw_up w)) (rt_up t)) as [up|] eqn:EO; [|discriminate H]. inversion H; subst. clear H.
  split; [|reflexivity]. split; [exact HL|]. unfold wf_rwd in *. simpl. rewrite Forall_forall in *. intros x Hx.
  destruct (tt_set_in _ _ _ _ Hx) as [A|A]; [|apply WF; exact A]. subst x. simpl.
  destruct (omap2_length _ _ _ _ EO) as [_ L]. rewrite L. apply map_length.
Qed.

Lemma apply_events_TW : forall evs w din pl now pending w' p', apply_events w din pl now pending evs = Some (w', p') -> TWw w now ->
  TWw w' now /\ length (rw_up w') = length (rw_up w).
Proof.
  induction evs as [|e r IH]; intros w din pl now pending w' p' H TW; simpl in H; [inversion H; subst; split; [exact TW|reflexivity]|].
  destruct e as [g|i|t].
  - destruct (dchk (pending + g)); [|discriminate H]. eapply IH; eassumption.
  - destruct (update_uptime w pl now) as [w1|] eqn:E1; [|discriminate H].
    destruct (cross_trackers w1 din pending i) as [w2|] eqn:E2; [|discriminate H].
    destruct TW as [HL WF]. destruct (update_uptime_TW _ _ _ _ E1 WF) as [L1 [WF1 LN1]].
    destruct (cross_trackers_TW _ _ _ _ _ now E2 (conj (Z.eq_le_incl _ _ L1) WF1)) as [TW2 LN2].
    destruct (IH _ _ _ _ _ _ _ H TW2) as [A B]. split; [exact A|lia].
  - eapply IH; eassumption.
Qed.

Lemma swap_rewards_TW : forall w s ei zfo amt now w', swap_rewards w s ei zfo amt now = Some w' -> TWw w now ->
  TWw w' now /\ length (rw_up w') = length (rw_up w).
Proof.
  unfold swap_rewards. intros w s ei zfo amt now w' H TW.
  destruct (swap_events s ei zfo amt) as [evs|]; [|discriminate H]. simpl in H.
  destruct (apply_events w (if zfo then 0 else 1) (p_liq (s_pool s)) now 0 evs) as [[w1 pending]|] eqn:EA; [|discriminate H]. simpl in H.
  destruct (acc_add_to (rw_spread w1) _) as [a|]; [|discriminate H]. inversion H; subst.
  destruct (apply_events_TW _ _ _ _ _ _ _ _ EA TW) as [[A B] C]. split; [split; [exact A|]|exact C].
  apply (wf_same w1); [reflexivity|reflexivity|exact B].
Qed.

(* ---------- the state-level invariant ---------- *)
Definition TW (rs : rstate) : Prop :=
  TWw (r_rw rs) (s_time (r_base rs)) /\ forall q, In q (s_pos (r_base rs)) -> ps_join q <= s_time (r_base rs).

Definition op_time_ok (o : rop) : Prop := match o with RBase (OTime dt) => 0 <= dt | _ => True end.

Lemma TW_create : forall rs owner a0 a1 m0 m1 lo hi rs' c, r_create rs owner a0 a1 m0 m1 lo hi = Some (rs', c) -> Inv (r_base rs) -> TW rs -> TW rs'.
Proof.
  intros rs owner a0 a1 m0 m1 lo hi rs' c H I [TWr JN].
  pose proof (r_create_base _ _ _ _ _ _ _ _ _ _ H) as B.
  destruct (create_position_spec _ _ _ _ _ _ _ _ _ _ I B) as [_ [_ [_ [SP [TM _]]]]].
  unfold r_create in H. rewrite B in H. cbv beta iota in H.
  match type of H with (do w <- ?X; _) = _ => destruct X as [w|] eqn:EU; [|discriminate H] end.
  assert (RW : r_rw rs' = w) by (inversion H as [E']; rewrite <- E' at 1; reflexivity). clear H.
  destruct (upr_TW _ _ _ _ _ _ _ _ _ _ EU TWr) as [TW' _]. split; [rewrite RW, TM; exact TW'|].
  intros q Hq. rewrite SP in Hq. rewrite TM. destruct (in_pos_set _ _ _ Hq) as [A|A]; [subst q; simpl; lia|apply JN; exact A].
Qed.

Lemma TW_withdraw : forall rs owner id' liq rs' amts, r_withdraw rs owner id' liq = Some (rs', amts) -> Inv (r_base rs) -> TW rs -> TW rs'.
Proof.
  intros rs owner id' liq rs' [y0 y1] H I [TWr JN].
  destruct (r_withdraw_base _ _ _ _ _ _ H) as [s' [W [_ [_ [SPB [_ TMB]]]]]].
  destruct (withdraw_position_spec _ _ _ _ _ _ _ I W) as [_ [_ [TM [_ [q0 [Q0 [_ [_ SP]]]]]]]].
  split.
  - unfold r_withdraw in H. rewrite W in H. cbv beta iota in H.
    destruct (pos_get (s_pos (r_base rs)) id') as [q|]; [|discriminate H]. simpl in H.
    set (cur := p_tick (s_pool (r_base rs))) in *. set (now := s_time (r_base rs)) in *.
    destruct (collect_incentives (s_bank s') (r_rw rs) cur (p_liq (s_pool (r_base rs))) now q) as [[[[[b1 w1] col] forf] byup]|] eqn:E1; [|discriminate H]. simpl in H.
    destruct (update_position_rewards w1 cur (p_liq (s_pool (r_base rs))) now (ps_lower q) (ps_upper q) id' (ps_liq q - liq) (- liq)) as [w2|] eqn:E2; [|discriminate H]. simpl in H.
    match type of H with (do bw <- ?X; _) = _ => destruct X as [[b2 w3]|] eqn:E3; [|discriminate H] end. simpl in H.
    match type of H with (do bw2 <- ?X; _) = _ => destruct X as [[b3 w4]|] eqn:E4; [|discriminate H] end. simpl in H.
    inversion H; subst rs'. clear H. cbn [r_rw r_base s_time set_bank]. rewrite TM. fold now.
    destruct (collect_incentives_parts _ _ _ _ _ _ _ _ _ _ _ E1) as [PC _].
    destruct (claimI_TW _ _ _ _ _ _ _ _ _ _ _ _ PC TWr) as [TW1 _]. destruct (upr_TW _ _ _ _ _ _ _ _ _ _ E2 TW1) as [TW2 _].
    assert (TW3 : TWw w3 now).
    { destruct (p_liq (s_pool s') <? P18); obind E3; inversion E3; subst; [exact TW2|]. eapply redeposit_TW; eassumption. }
    assert (TW4 : TWw w4 now).
    { destruct (liq =? ps_liq q); [|inversion E4; subst; exact TW3].
      destruct (collect_spread_rewards b2 w3 _ cur q) as [[[b5 w5] c5]|] eqn:E5; [|discriminate E4]. inversion E4; subst.
      apply collect_spread_rewards_inv in E5. eapply prepare_claimable_spread_TW; eassumption. }
    destruct (tick_get (s_ticks s') (ps_lower q)); destruct (tick_get (s_ticks s') (ps_upper q)).
    + replace (set_tt w4 (rw_tt w4)) with w4 by (destruct w4; reflexivity). exact TW4.
    + apply remove_TW. exact TW4.
    + apply remove_TW. exact TW4.
    + pose proof (remove_TW _ (ps_upper q) now (remove_TW _ (ps_lower q) now TW4)) as X. simpl in X. exact X.
  - intros q Hq. rewrite SPB, SP in Hq. rewrite TMB, TM. destruct (liq =? ps_liq q0).
    + apply JN. eapply C08.Paid.in_pos_remove; [apply (inv_pos_sorted _ I)|exact Hq].
    + destruct (in_pos_set _ _ _ Hq) as [A|A]; [subst q; simpl; apply JN; eapply pos_get_in; exact Q0|apply JN; exact A].
Qed.

Lemma TW_collect_spread_loop : forall ids rs owner tot rs' c, r_collect_spread_loop rs owner ids tot = Some (rs', c) ->
  TWw (r_rw rs) (s_time (r_base rs)) -> TWw (r_rw rs') (s_time (r_base rs)).
Proof.
  induction ids as [|id' rest IH]; intros rs owner tot rs' c H TWr; simpl in H; [inversion H; subst; exact TWr|].
  destruct (pos_get (s_pos (r_base rs)) id') as [q|]; [|discriminate H]. destruct (negb (ps_owner q =? owner)); [discriminate H|].
  destruct (collect_spread_rewards _ _ _ _ q) as [[[b w] x]|] eqn:E; [|discriminate H].
  apply collect_spread_rewards_inv in E. destruct (prepare_claimable_spread_TW _ _ _ _ _ _ _ _ _ E TWr) as [TW1 _].
  apply (IH (mkRS (set_bank (r_base rs) b) w) owner _ rs' c H). exact TW1.
Qed.
Lemma TW_collect_inc_loop : forall ids rs owner col forf rs' c, r_collect_inc_loop rs owner ids col forf = Some (rs', c) ->
  TWw (r_rw rs) (s_time (r_base rs)) -> TWw (r_rw rs') (s_time (r_base rs)).
Proof.
  induction ids as [|id' rest IH]; intros rs owner col forf rs' c H TWr; simpl in H; [inversion H; subst; exact TWr|].
  destruct (pos_get (s_pos (r_base rs)) id') as [q|]; [|discriminate H]. destruct (negb (ps_owner q =? owner)); [discriminate H|].
  destruct (collect_incentives _ _ _ _ _ q) as [[[[[b w] x] f] byup]|] eqn:E; [|discriminate H].
  destruct (collect_incentives_parts _ _ _ _ _ _ _ _ _ _ _ E) as [PC _]. destruct (claimI_TW _ _ _ _ _ _ _ _ _ _ _ _ PC TWr) as [TW1 _].
  apply (IH (mkRS (set_bank (r_base rs) b) w) owner _ _ rs' c H). exact TW1.
Qed.

Theorem TW_handler : forall rs o rs' r, RInv rs -> rhandler rs o = Some (rs', r) -> op_time_ok o -> TW rs -> TW rs'.
Proof.
  intros rs o rs' r RI H OT HTW. pose proof RI as [I _]. pose proof HTW as [TWr JN].
  destruct o as [b|owner ids|owner ids|sender denom amount rate dt uu]; simpl in H.
  - destruct b as [owner a0 a1 m0 m1 lo hi|owner id' liq|owner id' a0 a1 m0 m1|sender ids recipient|sender zfo amt mo|sender zfo amt mi|dt].
    + destruct (r_create rs owner a0 a1 m0 m1 lo hi) as [[rs1 c]|] eqn:E; [|discriminate H]. inversion H; subst. eapply TW_create; eassumption.
    + destruct (r_withdraw rs owner id' liq) as [[rs1 [x0 x1]]|] eqn:E; [|discriminate H]. inversion H; subst. eapply TW_withdraw; eassumption.
    + destruct (r_add rs owner id' a0 a1 m0 m1) as [[rs1 [[nid x0] x1]]|] eqn:E; [|discriminate H]. inversion H; subst rs1 r. clear H.
      assert (Q : exists q, pos_get (s_pos (r_base rs)) id' = Some q).
      { unfold r_add in E. destruct (id' <=? 0); [discriminate E|]. destruct ((a0 <? 0) || (a1 <? 0) || (m0 <? 0) || (m1 <? 0)); [discriminate E|].
        destruct (pos_get (s_pos (r_base rs)) id') as [q|]; [eexists; reflexivity|discriminate E]. }
      destruct Q as [q Q]. destruct (r_add_split _ _ _ _ _ _ _ _ _ _ E Q) as [rs1 [w0 [w1 [m0' [m1' [cr [EW EC]]]]]]].
      assert (HW : rhandler rs (RBase (OWithdraw owner id' (ps_liq q))) = Some (rs1, [w0; w1])) by (simpl; rewrite EW; reflexivity).
      pose proof (rinv_handler _ _ _ _ HW RI) as [I1 _].
      apply (TW_create _ _ _ _ _ _ _ _ _ _ EC I1). eapply TW_withdraw; eassumption.
    + destruct (transfer_positions (r_base rs) sender ids recipient) as [s'|] eqn:E; [|discriminate H]. inversion H; subst. clear H.
      destruct (transfer_positions_spec _ _ _ _ _ I E) as [I' [_ [TM [_ [_ [PG _]]]]]].
      split; [cbn [r_rw r_base]; rewrite TM; exact TWr|]. cbn [r_base]. rewrite TM. intros q' Hq'.
      pose proof (in_pos_get _ _ (inv_pos_sorted _ I') Hq') as G. rewrite PG in G.
      destruct (pos_get (s_pos (r_base rs)) (ps_id q')) as [q|] eqn:Q0; [|discriminate G].
      pose proof (JN q (pos_get_in _ _ _ Q0)) as J. destruct (z_mem (ps_id q') ids); inversion G; subst q'; [destruct q; simpl in *; exact J|exact J].
    + unfold r_swap_in in H. destruct (swap_exact_in (r_base rs) sender zfo amt mo) as [[s' out]|] eqn:E1; [|discriminate H]. simpl in H.
      destruct (swap_rewards (r_rw rs) (r_base rs) true zfo amt (s_time (r_base rs))) as [w|] eqn:E2; [|discriminate H]. inversion H; subst. clear H.
      assert (X : s_time s' = s_time (r_base rs) /\ s_pos s' = s_pos (r_base rs)).
      { pose proof (swap_exact_in_pos _ _ _ _ _ _ _ E1) as SP. split; [|exact SP].
        unfold swap_exact_in in E1. destruct (negb (0 <? amt) || negb (0 <? mo)); [discriminate E1|].
        destruct (compute_out_amt_given_in (r_base rs) zfo true amt) as [r0|]; [|discriminate E1]. cbv beta iota in E1.
        destruct (negb (0 <? sr_out r0)); [discriminate E1|].
        destruct (update_pool_for_swap (r_base rs) sender zfo r0) as [s1|] eqn:EU; [|discriminate E1]. cbv beta iota in E1.
        destruct (sr_out r0 <? mo); [discriminate E1|]. inversion E1; subst.
        destruct (update_pool_for_swap_spec _ _ _ _ _ EU) as [bb Hb]. rewrite Hb. reflexivity. }
      destruct X as [TM SP]. destruct (swap_rewards_TW _ _ _ _ _ _ _ E2 TWr) as [TW' _].
      split; [cbn [r_rw r_base]; rewrite TM; exact TW'|]. cbn [r_base]. rewrite TM, SP. exact JN.
    + unfold r_swap_out in H. destruct (swap_exact_out (r_base rs) sender zfo amt mi) as [[s' tin]|] eqn:E1; [|discriminate H]. simpl in H.
      destruct (swap_rewards (r_rw rs) (r_base rs) false zfo amt (s_time (r_base rs))) as [w|] eqn:E2; [|discriminate H]. inversion H; subst. clear H.
      assert (X : s_time s' = s_time (r_base rs) /\ s_pos s' = s_pos (r_base rs)).
      { pose proof (swap_exact_out_pos _ _ _ _ _ _ _ E1) as SP. split; [|exact SP].
        unfold swap_exact_out in E1. destruct (negb (0 <? amt) || negb (0 <? mi)); [discriminate E1|].
        destruct (compute_in_amt_given_out (r_base rs) zfo true amt) as [r0|]; [|discriminate E1]. cbv beta iota in E1.
        destruct (negb (0 <? sr_in r0)); [discriminate E1|].
        destruct (update_pool_for_swap (r_base rs) sender zfo r0) as [s1|] eqn:EU; [|discriminate E1]. cbv beta iota in E1.
        destruct (mi <? sr_in r0); [discriminate E1|]. inversion E1; subst.
        destruct (update_pool_for_swap_spec _ _ _ _ _ EU) as [bb Hb]. rewrite Hb. reflexivity. }
      destruct X as [TM SP]. destruct (swap_rewards_TW _ _ _ _ _ _ _ E2 TWr) as [TW' _].
      split; [cbn [r_rw r_base]; rewrite TM; exact TW'|]. cbn [r_base]. rewrite TM, SP. exact JN.
    + (* time *) inversion H; subst. clear H. simpl in OT. destruct TWr as [HL WF]. split; [split; [simpl; lia|exact WF]|].
      simpl. intros q Hq. specialize (JN q Hq). lia.
  - destruct (r_collect_spread rs owner ids) as [[rs1 c]|] eqn:E; [|discriminate H]. inversion H; subst. clear H.
    unfold r_collect_spread in E. destruct (r_collect_spread_loop_sbb _ _ _ _ _ _ E) as [[_ [_ [SP [_ TM]]]] _].
    split; [rewrite TM; eapply TW_collect_spread_loop; eassumption|]. rewrite SP, TM. exact JN.
  - destruct (r_collect_inc rs owner ids) as [[rs1 [c f]]|] eqn:E; [|discriminate H]. inversion H; subst. clear H.
    unfold r_collect_inc in E. destruct (r_collect_inc_loop_sbb _ _ _ _ _ _ _ E) as [[_ [_ [SP [_ TM]]]] _].
    split; [rewrite TM; eapply TW_collect_inc_loop; eassumption|]. rewrite SP, TM. exact JN.
  - destruct (r_incentive rs sender denom amount rate dt uu) as [rs1|] eqn:E; [|discriminate H]. inversion H; subst. clear H.
    unfold r_incentive in E. obind E. inversion E; subst. clear E. cbn [r_rw r_base s_time s_pos set_bank].
    match goal with E0 : update_uptime _ _ _ = Some ?w1 |- _ =>
      destruct (update_uptime_TW _ _ _ _ E0 (proj2 TWr)) as [L1 [WF1 LN1]];
      split; [|exact JN]; split; [simpl; lia|apply (wf_same w1); [reflexivity|reflexivity|exact WF1]] end.
Qed.

Fixpoint hist_time_ok (ops : list rop) : Prop := match ops with [] => True | o :: r => op_time_ok o /\ hist_time_ok r end.

Theorem TW_run : forall ops rs, RInv rs -> hist_time_ok ops -> TW rs -> TW (rrun rs ops).
Proof.
  induction ops as [|o r IH]; intros rs RI HT HTW; simpl; [exact HTW|]. destruct HT as [OT HT].
  unfold rstep. destruct (rhandler rs o) as [[rs' res]|] eqn:H; simpl.
  - apply IH; [eapply rinv_handler; eassumption|exact HT|eapply TW_handler; eassumption].
  - apply IH; assumption.
Qed.
Lemma TW_init : forall sp spf ssc isc users t, TW (rinit sp spf ssc isc users t).
Proof. intros. split; [split; [simpl; lia|constructor]|intros q []]. Qed.

(* ---------- CLAIM QUERIES NEVER FAIL, incentives: reduced to the LegacyDec range ---------- *)
Definition inc_range_ok (rs : rstate) (p : position) : Prop :=
  rems_fit (rw_recs (r_rw rs)) /\
  forall u d, (u < NU)%nat ->
    let B := sel_G (CU u d) (r_rw rs) * P18 + remD d (rw_recs (r_rw rs)) * rw_inc_scaling (r_rw rs) in
    3 * B + P36 * P18 <= UL * P18 /\
    forall r, acc_get (acc_u u (r_rw rs)) (ps_id p) = Some r ->
      dsel d (ar_unclaimed r) * P18 * P18 + 2 * B * ps_liq p + P18 * P18 <= UL * P18 * P18.

Theorem claimable_incentives_succeeds : forall rs p, CII rs -> TW rs -> P18 <= isc_of rs -> In p (s_pos (r_base rs)) -> inc_range_ok rs p ->
  exists x, claimable_incentives rs (ps_id p) = Some x.
Proof.
  intros rs p [HPI [TB SR]] [[HL WF] JN] His HIn [RF RG]. pose proof HPI as [RI [[OK [Hi [LN [_ RM]]]] _]]. pose proof RI as [I _].
  pose proof (in_pos_get _ _ (inv_pos_sorted _ I) HIn) as Q.
  assert (LV : livep (r_base rs) (ps_id p) (ps_lower p) (ps_upper p)) by (exists p; auto).
  destruct (livep_tks _ _ _ _ RI LV) as [Hlh TK].
  pose proof (inv_pos_ok _ I) as F. rewrite Forall_forall in F. destruct (F p HIn) as [_ [LP _]].
  unfold claimable_incentives. rewrite Q. cbv beta iota.
  destruct (prepare_claim_all_incentives_ok (r_rw rs) (p_tick (s_pool (r_base rs))) (p_liq (s_pool (r_base rs))) (s_time (r_base rs))
              (ps_lower p) (ps_upper p) (ps_id p) (ps_join p)) as [[[[w' col] forf] byup] E].
  - split; [exact HL|]. split; [apply JN; exact HIn|]. split; [apply (PII_WOK _ HPI)|]. split; [exact His|]. split; [exact Hlh|].
    split; [exact TK|]. split; [exact TB|]. split; [apply (SR _ _ _ LV)|]. split; [exact WF|]. split; [exact RF|].
    intros u d Hu. cbv zeta. destruct (RG u d Hu) as [A B]. cbv zeta in A, B. split; [exact A|].
    intros r R. destruct (RM u p Hu HIn) as [r' [R' [SH UN]]]. rewrite R in R'. inversion R'; subst r'.
    split; [lia|]. split; [apply UN|]. rewrite SH. apply (B r R).
  - rewrite E. eexists; reflexivity.
Qed.

Theorem claimable_incentives_succeeds_reachable : forall sp spf ssc isc users t ops p, 0 < sp -> 0 <= spf <= 500000000000000000 -> P18 <= isc ->
  hist_time_ok ops ->
  let rs := rrun (rinit sp spf ssc isc users t) ops in
  In p (s_pos (r_base rs)) -> inc_range_ok rs p -> exists x, claimable_incentives rs (ps_id p) = Some x.
Proof.
  intros sp spf ssc isc users t ops p Hsp Hspf His HT rs HIn RG. pose proof P18_pos as HP.
  pose proof (CII_run ops _ (CII_init sp spf ssc isc users t Hsp Hspf ltac:(lia))) as HCI.
  pose proof (TW_run ops _ (rinv_init sp spf ssc isc users t Hsp Hspf) HT (TW_init sp spf ssc isc users t)) as HTW.
  apply claimable_incentives_succeeds; try assumption.
  destruct HCI as [HPI _]. destruct (inc_run ops _ false (proj1 (PII_init sp spf ssc isc users t Hsp Hspf ltac:(lia)))) as [_ [IS _]].
  fold rs in IS. rewrite IS. exact His.
Qed.
