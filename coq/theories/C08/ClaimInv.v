(* C08: the SIGN conditions of a spread-reward claim (C08/ClaimOk.v) are invariants of reachable states.
   TBv: every stored growth-outside tracker of the spread accumulator lies in [0, accumulator value] (so "global - tracker" of
        calculateSpreadRewardGrowth / crossTick never goes negative);
   srec: the snapshot of every open position's record lies in [- accumulator value, growth inside its range] and nothing
        unclaimed is negative (so GetTotalRewards' "value - snapshot" never goes negative).
   Both are preserved by every operation of the reward-aware model; the argument is the one of C08/Never.v with equalities
   relaxed to monotonicity: the accumulator only grows, growth inside a range only grows while its two ticks are kept. *)
From Coq Require Import ZArith List Bool Lia.
Import ListNotations.
From Osmo Require Import Base.DecModel CL.TickMath CL.CLMath CL.CLPool CL.CLSwap CL.CLStep
  CLR.Accum CLR.Rewards CLR.RSwap CLR.RStep C07.Base C07.TickLemmas C07.LP C07.SwapDir C07.Swap C07.Proofs C03.Rounding C03.Steps C03.Path
  C08.Proj C08.Telescope C08.View C08.Static C08.Stages C08.Ops C08.OpInside C08.SwapTrace C08.Crux C08.Claim C08.Conseq C08.Frame
  C08.Never C08.SwapWf C08.Dom C08.StaticOk C08.Final C08.Paid C08.PaidOps C08.PaidSwap C08.PaidHist C08.Twins C08.ClaimOk.
Open Scope Z_scope.

(* ---------- trackers within [0, G] ---------- *)
Definition TBv (w : rwd) : Prop :=
  forall d, 0 <= sel_G (CS d) w /\ forall i o, tm_get (vmap (CS d) (rw_tt w)) i = Some o -> 0 <= o <= sel_G (CS d) w.

Lemma pend0 : forall k, sel_pend k dc0 = 0.
Proof. destruct k as [d|u d]; simpl; [apply dsel_dc0|reflexivity]. Qed.
Lemma view_G : forall k w cur, a_G (view k w cur dc0) = sel_G k w.
Proof. intros. simpl. rewrite pend0. lia. Qed.

Lemma TBv_view : forall w, TBv w <-> forall d cur, 0 <= a_G (view (CS d) w cur dc0) /\ trackers_bounded (view (CS d) w cur dc0).
Proof.
  intro w. split.
  - intros H d cur. destruct (H d) as [A B]. rewrite view_G. split; [exact A|]. intros i o E. simpl in E. rewrite view_G. exact (B i o E).
  - intros H d. destruct (H d 0) as [A B]. rewrite view_G in A. split; [exact A|]. intros i o E. specialize (B i o E). rewrite view_G in B. exact B.
Qed.

Lemma TBv_read : forall w d cur i, TBv w -> 0 <= a_read (view (CS d) w cur dc0) i <= a_G (view (CS d) w cur dc0).
Proof.
  intros w d cur i H. destruct (H d) as [A B]. unfold a_read, a_init_val. rewrite !view_G. unfold view. cbn [a_O a_c].
  destruct (tm_get (vmap (CS d) (rw_tt w)) i) as [o|] eqn:E; [exact (B i o E)|]. destruct (i <=? cur); lia.
Qed.
Lemma TBv_ins : forall w d cur l u, TBv w -> - sel_G (CS d) w <= ins d w cur l u <= sel_G (CS d) w.
Proof.
  intros w d cur l u H. unfold ins. rewrite <- (view_G (CS d) w cur). apply inside_bounds; apply TBv_read; exact H.
Qed.

Lemma a_run_bounded : forall evs s, tm_sorted (a_O s) -> 0 <= a_G s -> trackers_bounded s -> Forall ev_nonneg evs ->
  trackers_bounded (a_run s evs) /\ 0 <= a_G (a_run s evs).
Proof.
  induction evs as [|e r IH]; intros s S G0 B F; simpl; [auto|]. inversion F; subst.
  destruct (step_bounded s e S G0 B H1) as [B' G']. apply IH; try assumption. apply step_sorted. exact S.
Qed.

(* a stage that leaves the trackers alone and lets the accumulator grow *)
Lemma TBv_same : forall w w', rw_tt w' = rw_tt w -> (forall d, sel_G (CS d) w <= sel_G (CS d) w') -> TBv w -> TBv w'.
Proof.
  intros w w' T G H d. destruct (H d) as [A B]. specialize (G d). split; [lia|]. intros i o E. rewrite T in E. specialize (B i o E). lia.
Qed.
Lemma TBv_ensure_tick : forall w cur liq now i w', ensure_tick w cur liq now i = Some w' -> tt_sorted w -> TBv w -> TBv w'.
Proof.
  intros w cur liq now i w' E St H. apply TBv_view. intros d c.
  assert (SG : sel_G (CS d) w' = sel_G (CS d) w) by (simpl; rewrite (ensure_tick_spread _ _ _ _ _ _ E); reflexivity).
  destruct (proj1 (TBv_view w) H d cur) as [A B].
  assert (X : 0 <= a_G (view (CS d) w' cur dc0) /\ trackers_bounded (view (CS d) w' cur dc0)).
  { rewrite (ensure_tick_view (CS d) _ _ _ _ _ _ E). destruct (tt_get (rw_tt w) i); [split; assumption|].
    assert (S' : tm_sorted (a_O (view (CS d) w cur dc0))) by (simpl; eapply vmap_sorted_any; exact St).
    destruct (a_run_bounded [AGrow (sel_G (CS d) w' - sel_G (CS d) w); AInit i] _ S' A B) as [B' A'].
    { constructor; [cbn [ev_nonneg]; lia|]. constructor; [exact I|constructor]. }
    split; assumption. }
  destruct X as [X1 X2]. rewrite view_G in *. split; [exact X1|]. intros j o EJ. specialize (X2 j o EJ). rewrite view_G in X2. rewrite view_G. exact X2.
Qed.
Lemma TBv_remove : forall w i, tt_sorted w -> TBv w -> TBv (set_tt w (tt_remove (rw_tt w) i)).
Proof.
  intros w i St H d. destruct (H d) as [A B]. split; [exact A|]. intros j o E. simpl in E. rewrite vmap_remove in E.
  rewrite tm_get_remove in E by (eapply vmap_sorted_any; exact St). destruct (j =? i); [discriminate E|]. exact (B j o E).
Qed.

(* ---------- the record of one position ---------- *)
Definition srec (w : rwd) (cur id l u : Z) : Prop :=
  forall r, acc_get (rw_spread w) id = Some r ->
    forall d, - sel_G (CS d) w <= dsel d (ar_snap r) <= ins d w cur l u /\ 0 <= dsel d (ar_unclaimed r).

(* a static stage that keeps l and u, lets the accumulator grow and leaves the record of id alone *)
Lemma srec_SE : forall cur T w w' id l u, (forall d, SE (CS d) cur T w w') -> l < u -> tks w l u -> ~ In l T -> ~ In u T ->
  (forall d, sel_G (CS d) w <= sel_G (CS d) w') -> acc_get (rw_spread w') id = acc_get (rw_spread w) id ->
  srec w cur id l u -> srec w' cur id l u /\ tks w' l u.
Proof.
  intros cur T w w' id l u HSE Hlu TK Tl Tu GM RG Z. split.
  - intros r R d. rewrite RG in R. destruct (Z r R d) as [[A B] C]. specialize (GM d).
    destruct (SE_inside_gen (CS d) cur T w w' l u (HSE d) Hlu TK Tl Tu) as [E _]. unfold ins in *. rewrite E.
    split; [|exact C]. destruct (in_rng l u cur); lia.
  - apply (SE_inside_gen (CS false) cur T w w' l u (HSE false) Hlu TK Tl Tu).
Qed.

(* ---------- claims ---------- *)
Lemma prepare_claimable_spread_mono : forall w sc cur l u id w' c, prepare_claimable_spread w sc cur l u id = Some (w', c) ->
  0 <= ac_total (rw_spread w) -> 0 < sc -> rw_tt w' = rw_tt w /\ forall d, sel_G (CS d) w <= sel_G (CS d) w'.
Proof.
  intros w sc cur l u id w' c H HT Hsc.
  destruct (acc_get (rw_spread w) id) as [r|] eqn:R.
  - destruct (prepare_claimable_spread_full _ _ _ _ _ _ _ _ _ H R HT Hsc) as [_ [_ [TT [_ F]]]]. split; [exact TT|].
    intro d. destruct (F d) as [_ [_ [_ [per [E [P0 _]]]]]]. simpl. lia.
  - unfold prepare_claimable_spread, acc_has in H. rewrite R in H. discriminate H.
Qed.

Lemma srec_claim_self : forall w sc cur id l u w' c r, prepare_claimable_spread w sc cur l u id = Some (w', c) ->
  acc_get (rw_spread w) id = Some r -> ar_shares r <> 0 -> 0 <= ac_total (rw_spread w) -> 0 < sc ->
  l < u -> tks w l u -> TBv w -> srec w' cur id l u /\ tks w' l u.
Proof.
  intros w sc cur id l u w' c r H R NZ HT Hsc Hlu TK TB.
  destruct (prepare_claimable_spread_mono _ _ _ _ _ _ _ _ H HT Hsc) as [TT GM].
  destruct (prepare_claimable_spread_full _ _ _ _ _ _ _ _ _ H R HT Hsc) as [RA _]. destruct (RA NZ) as [insv [HI R']].
  assert (IO : forall d, a_inside (view (CS d) w' cur dc0) l u
                 = a_inside (view (CS d) w cur dc0) l u + (if in_rng l u cur then sel_G (CS d) w' - sel_G (CS d) w else 0) /\ tks w' l u).
  { intro d. apply (SE_inside_gen (CS d) cur [] w w' l u (SE_same_tt (CS d) cur _ _ TT) Hlu TK); simpl; tauto. }
  split; [|apply (IO false)]. intros r0 R0 d. rewrite R' in R0. inversion R0; subst r0. cbn [ar_snap ar_unclaimed ar_shares].
  rewrite (HI d), dsel_dc0. destruct (IO d) as [E _]. unfold ins in *. rewrite E. specialize (GM d).
  pose proof (TBv_ins w d cur l u TB) as IB. unfold ins in IB. split; [|lia]. destruct (in_rng l u cur); lia.
Qed.
Lemma srec_claim_other : forall w sc cur id id' l u lo hi w' c, prepare_claimable_spread w sc cur lo hi id' = Some (w', c) ->
  id' <> id -> 0 <= ac_total (rw_spread w) -> 0 < sc -> l < u -> tks w l u -> srec w cur id l u -> srec w' cur id l u /\ tks w' l u.
Proof.
  intros w sc cur id id' l u lo hi w' c H N HT Hsc Hlu TK Z.
  destruct (prepare_claimable_spread_mono _ _ _ _ _ _ _ _ H HT Hsc) as [TT GM].
  apply (srec_SE cur [] w w' id l u); try assumption; simpl; try tauto.
  - intro d. apply SE_same_tt. exact TT.
  - apply (prepare_claimable_spread_other _ _ _ _ _ _ _ _ H id). congruence.
Qed.
Lemma TBv_claim : forall w sc cur lo hi id' w' c, prepare_claimable_spread w sc cur lo hi id' = Some (w', c) ->
  0 <= ac_total (rw_spread w) -> 0 < sc -> TBv w -> TBv w'.
Proof.
  intros w sc cur lo hi id' w' c H HT Hsc TB. destruct (prepare_claimable_spread_mono _ _ _ _ _ _ _ _ H HT Hsc) as [TT GM].
  eapply TBv_same; eassumption.
Qed.

(* ---------- initOrUpdatePositionSpreadRewardAccumulator on the position itself ---------- *)
Lemma srec_update_self : forall w cur id l u delta w', init_or_update_spread w cur l u id delta = Some w' ->
  (forall r, acc_get (rw_spread w) id = Some r -> 0 <= ar_shares r) -> TBv w -> srec w cur id l u ->
  srec w' cur id l u /\ rw_tt w' = rw_tt w /\ ac_value (rw_spread w') = ac_value (rw_spread w).
Proof.
  intros w cur id l u delta w' H SH TB Z.
  assert (VS : rw_tt w' = rw_tt w -> ac_value (rw_spread w') = ac_value (rw_spread w) -> forall d, ins d w' cur l u = ins d w cur l u).
  { intros TT VV d. unfold ins. f_equal. apply view_same; [exact TT|]. simpl. rewrite VV. reflexivity. }
  destruct (acc_get (rw_spread w) id) as [r|] eqn:R.
  - destruct (init_or_update_spread_gen _ _ _ _ _ _ _ _ H R) as [insv [un [R' [HI [HU [TT [VV _]]]]]]].
    split; [|split; assumption]. intros r0 R0 d. rewrite R' in R0. inversion R0; subst r0. cbn [ar_snap ar_unclaimed ar_shares].
    rewrite (VS TT VV d), (HI d). pose proof (TBv_ins w d cur l u TB) as IB.
    assert (SG : sel_G (CS d) w' = sel_G (CS d) w) by (simpl; rewrite VV; reflexivity). rewrite SG.
    split; [lia|]. destruct (HU d) as [G0 UE]. rewrite UE. destruct (Z r R d) as [_ U0].
    destruct (d_mul_nonneg_le _ _ G0 (SH r eq_refl)) as [M0 _]. lia.
  - destruct (init_or_update_spread_new _ _ _ _ _ _ _ H R) as [insv [R' [HI [TT [VV _]]]]].
    split; [|split; assumption]. intros r0 R0 d. rewrite R' in R0. inversion R0; subst r0. cbn [ar_snap ar_unclaimed ar_shares].
    rewrite (VS TT VV d), (HI d), dsel_dc0. pose proof (TBv_ins w d cur l u TB) as IB.
    assert (SG : sel_G (CS d) w' = sel_G (CS d) w) by (simpl; rewrite VV; reflexivity). rewrite SG. lia.
Qed.

Lemma SE_sorted : forall cur T w w', SE (CS false) cur T w w' -> tt_sorted w -> tt_sorted w'.
Proof.
  intros cur T w w' [evs [A _]] St. unfold tt_sorted in *.
  change (vmap (CS false) (rw_tt w')) with (a_O (view (CS false) w' cur dc0)). rewrite A. apply a_run_sorted. exact St.
Qed.

(* ---------- UpdatePosition, reward side ---------- *)
Lemma TBv_update_position : forall w cur pl now lo hi id' liq delta w',
  update_position_rewards w cur pl now lo hi id' liq delta = Some w' -> tt_sorted w -> TBv w -> TBv w' /\ tt_sorted w'.
Proof.
  unfold update_position_rewards. intros w cur pl now lo hi id' liq delta w' H St TB.
  destruct (ensure_tick w cur pl now lo) as [w1|] eqn:E1; [|discriminate H]. simpl in H.
  destruct (ensure_tick w1 cur pl now hi) as [w2|] eqn:E2; [|discriminate H]. simpl in H.
  destruct (init_or_update_uptime w2 cur pl now lo hi id' liq delta) as [w3|] eqn:E3; [|discriminate H]. simpl in H.
  pose proof (TBv_ensure_tick _ _ _ _ _ _ E1 St TB) as TB1.
  pose proof (SE_sorted cur _ _ _ (SE_ensure_tick (CS false) _ _ _ _ _ _ E1) St) as St1.
  pose proof (TBv_ensure_tick _ _ _ _ _ _ E2 St1 TB1) as TB2.
  pose proof (SE_sorted cur _ _ _ (SE_ensure_tick (CS false) _ _ _ _ _ _ E2) St1) as St2.
  pose proof (init_or_update_uptime_tt _ _ _ _ _ _ _ _ _ _ E3) as T3. pose proof (init_or_update_uptime_spread _ _ _ _ _ _ _ _ _ _ E3) as S3.
  assert (TB3 : TBv w3) by (apply (TBv_same w2 w3 T3); [intro d; simpl; rewrite S3; lia|exact TB2]).
  pose proof (init_or_update_spread_tt _ _ _ _ _ _ _ H) as T4.
  assert (V4 : ac_value (rw_spread w') = ac_value (rw_spread w3)).
  { destruct (acc_get (rw_spread w3) id') as [r|] eqn:R.
    - destruct (init_or_update_spread_gen _ _ _ _ _ _ _ _ H R) as [_ [_ [_ [_ [_ [_ [VV _]]]]]]]. exact VV.
    - destruct (init_or_update_spread_new _ _ _ _ _ _ _ H R) as [_ [_ [_ [_ [VV _]]]]]. exact VV. }
  split.
  - apply (TBv_same w3 w' T4); [intro d; simpl; rewrite V4; lia|exact TB3].
  - unfold tt_sorted in *. rewrite T4, T3. exact St2.
Qed.

Lemma srec_update_position : forall w cur pl now lo hi id' liq delta w' id l u,
  update_position_rewards w cur pl now lo hi id' liq delta = Some w' ->
  l < u -> tks w l u -> TBv w -> (forall r, acc_get (rw_spread w) id = Some r -> 0 <= ar_shares r) ->
  srec w cur id l u -> (id' <> id \/ (lo = l /\ hi = u)) ->
  srec w' cur id l u /\ tks w' l u.
Proof.
  unfold update_position_rewards. intros w cur pl now lo hi id' liq delta w' id l u H Hlu TK TB SH Z Hid.
  destruct (ensure_tick w cur pl now lo) as [w1|] eqn:E1; [|discriminate H]. simpl in H.
  destruct (ensure_tick w1 cur pl now hi) as [w2|] eqn:E2; [|discriminate H]. simpl in H.
  destruct (init_or_update_uptime w2 cur pl now lo hi id' liq delta) as [w3|] eqn:E3; [|discriminate H]. simpl in H.
  pose proof TK as [St [Kl Ku]].
  pose proof (TBv_ensure_tick _ _ _ _ _ _ E1 St TB) as TB1.
  assert (GE : forall wa wb, rw_spread wb = rw_spread wa -> forall d, sel_G (CS d) wa <= sel_G (CS d) wb) by (intros wa wb E d; simpl; rewrite E; lia).
  pose proof (ensure_tick_spread _ _ _ _ _ _ E1) as S1. pose proof (ensure_tick_spread _ _ _ _ _ _ E2) as S2.
  pose proof (init_or_update_uptime_spread _ _ _ _ _ _ _ _ _ _ E3) as S3.
  destruct (srec_SE cur (fresh w lo) w w1 id l u (fun d => SE_ensure_tick (CS d) _ _ _ _ _ _ E1) Hlu TK
              (fresh_not_in _ _ _ Kl) (fresh_not_in _ _ _ Ku) (GE _ _ S1) ltac:(rewrite S1; reflexivity) Z) as [Z1 TK1].
  pose proof TK1 as [St1 [Kl1 Ku1]].
  pose proof (TBv_ensure_tick _ _ _ _ _ _ E2 St1 TB1) as TB2.
  destruct (srec_SE cur (fresh w1 hi) w1 w2 id l u (fun d => SE_ensure_tick (CS d) _ _ _ _ _ _ E2) Hlu TK1
              (fresh_not_in _ _ _ Kl1) (fresh_not_in _ _ _ Ku1) (GE _ _ S2) ltac:(rewrite S2; reflexivity) Z1) as [Z2 TK2].
  pose proof (init_or_update_uptime_tt _ _ _ _ _ _ _ _ _ _ E3) as T3.
  destruct (srec_SE cur [] w2 w3 id l u (fun d => SE_same_tt (CS d) cur _ _ T3) Hlu TK2
              ltac:(simpl; tauto) ltac:(simpl; tauto) (GE _ _ S3) ltac:(rewrite S3; reflexivity) Z2) as [Z3 TK3].
  assert (TB3 : TBv w3) by (apply (TBv_same w2 w3 T3); [exact (GE _ _ S3)|exact TB2]).
  destruct (Z.eq_dec id' id) as [EQ|NE].
  - subst id'. destruct Hid as [X|[Hl Hh]]; [congruence|]. subst lo hi.
    assert (SH3 : forall r, acc_get (rw_spread w3) id = Some r -> 0 <= ar_shares r) by (rewrite S3, S2, S1; exact SH).
    destruct (srec_update_self _ _ _ _ _ _ _ H SH3 TB3 Z3) as [Z4 [T4 _]]. split; [exact Z4|].
    destruct TK3 as [A [B C]]. unfold tks. rewrite T4. auto.
  - pose proof (init_or_update_spread_tt _ _ _ _ _ _ _ H) as T4.
    assert (V4 : ac_value (rw_spread w') = ac_value (rw_spread w3)).
    { destruct (acc_get (rw_spread w3) id') as [r|] eqn:R.
      - destruct (init_or_update_spread_gen _ _ _ _ _ _ _ _ H R) as [_ [_ [_ [_ [_ [_ [VV _]]]]]]]. exact VV.
      - destruct (init_or_update_spread_new _ _ _ _ _ _ _ H R) as [_ [_ [_ [_ [VV _]]]]]. exact VV. }
    apply (srec_SE cur [] w3 w' id l u); try assumption; simpl; try tauto.
    + intro d. apply SE_same_tt. exact T4.
    + intro d. simpl. rewrite V4. lia.
    + apply (init_or_update_spread_other _ _ _ _ _ _ _ H id). congruence.
Qed.

(* ---------- operations: trackers bounded, accumulator monotone ---------- *)
Definition Gmono (w w' : rwd) : Prop := forall d, sel_G (CS d) w <= sel_G (CS d) w'.
Lemma Gmono_refl : forall w, Gmono w w. Proof. intros w d. lia. Qed.
Lemma Gmono_trans : forall a b c, Gmono a b -> Gmono b c -> Gmono a c. Proof. intros a b c H1 H2 d. specialize (H1 d). specialize (H2 d). lia. Qed.
Lemma Gmono_same : forall w w', rw_spread w' = rw_spread w -> Gmono w w'. Proof. intros w w' E d. simpl. rewrite E. lia. Qed.
Lemma Gmono_value : forall w w', ac_value (rw_spread w') = ac_value (rw_spread w) -> Gmono w w'. Proof. intros w w' E d. simpl. rewrite E. lia. Qed.

Lemma update_position_rewards_value : forall w cur pl now lo hi id' liq delta w',
  update_position_rewards w cur pl now lo hi id' liq delta = Some w' -> ac_value (rw_spread w') = ac_value (rw_spread w).
Proof.
  unfold update_position_rewards. intros w cur pl now lo hi id' liq delta w' H.
  destruct (ensure_tick w cur pl now lo) as [w1|] eqn:E1; [|discriminate H]. simpl in H.
  destruct (ensure_tick w1 cur pl now hi) as [w2|] eqn:E2; [|discriminate H]. simpl in H.
  destruct (init_or_update_uptime w2 cur pl now lo hi id' liq delta) as [w3|] eqn:E3; [|discriminate H]. simpl in H.
  rewrite <- (ensure_tick_spread _ _ _ _ _ _ E1), <- (ensure_tick_spread _ _ _ _ _ _ E2), <- (init_or_update_uptime_spread _ _ _ _ _ _ _ _ _ _ E3).
  destruct (acc_get (rw_spread w3) id') as [r|] eqn:R.
  - destruct (init_or_update_spread_gen _ _ _ _ _ _ _ _ H R) as [_ [_ [_ [_ [_ [_ [VV _]]]]]]]. exact VV.
  - destruct (init_or_update_spread_new _ _ _ _ _ _ _ H R) as [_ [_ [_ [_ [VV _]]]]]. exact VV.
Qed.

Lemma TB_create : forall rs owner a0 a1 m0 m1 lo hi rs' c, r_create rs owner a0 a1 m0 m1 lo hi = Some (rs', c) ->
  tt_sorted (r_rw rs) -> TBv (r_rw rs) -> TBv (r_rw rs') /\ Gmono (r_rw rs) (r_rw rs').
Proof.
  unfold r_create. intros rs owner a0 a1 m0 m1 lo hi rs' c H St TB.
  destruct (create_position (r_base rs) owner a0 a1 m0 m1 lo hi) as [[s' c']|]; [|discriminate H]. simpl in H.
  match type of H with (do w <- ?X; _) = _ => destruct X as [w|] eqn:E; [|discriminate H] end. inversion H; subst. clear H. simpl.
  split; [apply (TBv_update_position _ _ _ _ _ _ _ _ _ _ E St TB)|]. apply Gmono_value. eapply update_position_rewards_value. exact E.
Qed.

Lemma prepare_claimable_spread_total : forall w sc cur l u id w' c, prepare_claimable_spread w sc cur l u id = Some (w', c) ->
  ac_total (rw_spread w') = ac_total (rw_spread w).
Proof.
  unfold prepare_claimable_spread. intros w sc cur l u id w' c H.
  destruct (negb (acc_has (rw_spread w) id)); [discriminate H|].
  destruct (spread_growth_outside w cur l u) as [out|]; [|discriminate H]. simpl in H.
  destruct (update_accum_and_claim (rw_spread w) id out) as [[[a1 cs] dust]|] eqn:EU; [|discriminate H]. simpl in H.
  pose proof (update_accum_and_claim_total _ _ _ _ _ _ EU) as T1.
  match type of H with (do cd <- ?X; _) = _ => destruct X as [[cl du]|]; [|discriminate H] end. simpl in H.
  match type of H with (do a2 <- ?X; _) = _ => destruct X as [a2|] eqn:EA; [|discriminate H] end. simpl in H.
  inversion H; subst. simpl. rewrite <- T1.
  destruct (negb (dc_is_zero du) && negb (ac_total a1 =? 0)).
  - destruct (dc_quo_dec_truncate du (ac_total a1)) as [per|]; [|discriminate EA]. simpl in EA.
    destruct (acc_add_to_recs _ _ _ EA) as [_ TB']. exact TB'.
  - inversion EA; subst. reflexivity.
Qed.

(* the total shares at the claim stage of a full withdrawal are those of the final state *)
Lemma TB_withdraw : forall rs owner id' liq rs' amts, r_withdraw rs owner id' liq = Some (rs', amts) ->
  0 <= ac_total (rw_spread (r_rw rs')) -> 0 < sc_of rs -> tt_sorted (r_rw rs) -> TBv (r_rw rs) ->
  TBv (r_rw rs') /\ Gmono (r_rw rs) (r_rw rs').
Proof.
  unfold r_withdraw. intros rs owner id' liq rs' amts H HT Hsc St TB.
  destruct (withdraw_position (r_base rs) owner id' liq) as [[s amts']|]; [|discriminate H]. simpl in H.
  destruct (pos_get (s_pos (r_base rs)) id') as [q|] eqn:Q; [|discriminate H]. simpl in H.
  set (cur := p_tick (s_pool (r_base rs))) in *.
  destruct (collect_incentives (s_bank s) (r_rw rs) cur (p_liq (s_pool (r_base rs))) (s_time (r_base rs)) q)
    as [[[[[b1 w1] col] forf] byup]|] eqn:E1; [|discriminate H]. simpl in H.
  destruct (update_position_rewards w1 cur (p_liq (s_pool (r_base rs))) (s_time (r_base rs)) (ps_lower q) (ps_upper q) id' (ps_liq q - liq) (- liq))
    as [w2|] eqn:E2; [|discriminate H]. simpl in H.
  match type of H with (do bw <- ?X; _) = _ => destruct X as [[b2 w3]|] eqn:E3; [|discriminate H] end. simpl in H.
  match type of H with (do bw2 <- ?X; _) = _ => destruct X as [[b3 w4]|] eqn:E4; [|discriminate H] end. simpl in H.
  inversion H; subst rs' amts. clear H. simpl in *.
  pose proof (collect_incentives_tt _ _ _ _ _ _ _ _ _ _ _ E1) as T1. pose proof (collect_incentives_spread _ _ _ _ _ _ _ _ _ _ _ E1) as S1.
  assert (TB1 : TBv w1) by (apply (TBv_same _ _ T1 (Gmono_same _ _ S1) TB)).
  assert (St1 : tt_sorted w1) by (unfold tt_sorted; rewrite T1; exact St).
  destruct (TBv_update_position _ _ _ _ _ _ _ _ _ _ E2 St1 TB1) as [TB2 St2].
  pose proof (update_position_rewards_value _ _ _ _ _ _ _ _ _ _ E2) as V2.
  assert (T3 : rw_tt w3 = rw_tt w2 /\ rw_spread w3 = rw_spread w2).
  { destruct (p_liq (s_pool s) <? P18); obind E3; inversion E3; subst; [auto|].
    split; [eapply redeposit_forfeited_tt|eapply redeposit_forfeited_spread]; eassumption. }
  destruct T3 as [T3 S3].
  assert (TB3 : TBv w3) by (apply (TBv_same _ _ T3 (Gmono_same _ _ S3) TB2)).
  assert (St3 : tt_sorted w3) by (unfold tt_sorted; rewrite T3; exact St2).
  assert (X4 : TBv w4 /\ Gmono w3 w4 /\ rw_tt w4 = rw_tt w3).
  { destruct (liq =? ps_liq q); [|inversion E4; subst; split; [exact TB3|split; [apply Gmono_refl|reflexivity]]].
    destruct (collect_spread_rewards b2 w3 (p_scaling (s_pool (r_base rs))) cur q) as [[[b5 w5] c5]|] eqn:E5; [|discriminate E4].
    inversion E4; subst b3 w4. apply collect_spread_rewards_inv in E5.
    assert (HT3 : 0 <= ac_total (rw_spread w3)).
    { destruct (acc_get (rw_spread w3) (ps_id q)) as [r|] eqn:R.
      - rewrite <- (prepare_claimable_spread_total _ _ _ _ _ _ _ _ E5). exact HT.
      - unfold prepare_claimable_spread, acc_has in E5. rewrite R in E5. discriminate E5. }
    destruct (prepare_claimable_spread_mono _ _ _ _ _ _ _ _ E5 HT3 Hsc) as [TT GM].
    split; [eapply TBv_same; eassumption|]. split; [exact GM|exact TT]. }
  destruct X4 as [TB4 [GM4 T4]].
  assert (St4 : tt_sorted w4) by (unfold tt_sorted; rewrite T4; exact St3).
  split.
  - set (t1 := match tick_get (s_ticks s) (ps_lower q) with None => tt_remove (rw_tt w4) (ps_lower q) | Some _ => rw_tt w4 end).
    assert (TB5 : TBv (set_tt w4 t1) /\ tt_sorted (set_tt w4 t1)).
    { unfold t1. destruct (tick_get (s_ticks s) (ps_lower q)).
      - replace (set_tt w4 (rw_tt w4)) with w4 by (destruct w4; reflexivity). split; assumption.
      - split; [apply TBv_remove; assumption|]. apply (SE_sorted cur _ _ _ (SE_remove (CS false) cur w4 (ps_lower q)) St4). }
    destruct TB5 as [TB5 St5].
    destruct (tick_get (s_ticks s) (ps_upper q)).
    + exact TB5.
    + pose proof (TBv_remove (set_tt w4 t1) (ps_upper q) St5 TB5) as X. simpl in X. exact X.
  - intro d. specialize (GM4 d). simpl in *. rewrite S1 in *. rewrite <- V2. rewrite <- S3. destruct (tick_get (s_ticks s) (ps_upper q)); simpl; lia.
Qed.

Lemma TB_collect_spread_loop : forall ids rs owner tot rs' c, r_collect_spread_loop rs owner ids tot = Some (rs', c) ->
  0 <= ac_total (rw_spread (r_rw rs)) -> 0 < sc_of rs -> TBv (r_rw rs) ->
  TBv (r_rw rs') /\ Gmono (r_rw rs) (r_rw rs') /\ rw_tt (r_rw rs') = rw_tt (r_rw rs).
Proof.
  induction ids as [|id' rest IH]; intros rs owner tot rs' c H HT Hsc TB; simpl in H.
  - inversion H; subst. split; [exact TB|]. split; [apply Gmono_refl|reflexivity].
  - destruct (pos_get (s_pos (r_base rs)) id') as [q|] eqn:Q; [|discriminate H].
    destruct (negb (ps_owner q =? owner)); [discriminate H|].
    destruct (collect_spread_rewards (s_bank (r_base rs)) (r_rw rs) (p_scaling (s_pool (r_base rs))) (p_tick (s_pool (r_base rs))) q)
      as [[[b w] x]|] eqn:E; [|discriminate H].
    apply collect_spread_rewards_inv in E.
    destruct (prepare_claimable_spread_mono _ _ _ _ _ _ _ _ E HT Hsc) as [TT GM].
    pose proof (prepare_claimable_spread_total _ _ _ _ _ _ _ _ E) as TO.
    assert (TB1 : TBv w) by (eapply TBv_same; eassumption).
    destruct (IH (mkRS (set_bank (r_base rs) b) w) owner _ rs' c H) as [A [B C]]; simpl; try assumption; [rewrite TO; exact HT|].
    split; [exact A|]. split; [eapply Gmono_trans; [exact GM|exact B]|]. simpl in C. rewrite C. exact TT.
Qed.

(* every non-swap operation *)
Lemma TB_static : forall rs o rs' r, PI rs -> 0 < sc_of rs -> rhandler rs o = Some (rs', r) -> is_swap o = false ->
  TBv (r_rw rs) -> TBv (r_rw rs') /\ Gmono (r_rw rs) (r_rw rs').
Proof.
  intros rs o rs' r HPI Hsc H NS TB.
  destruct (paid_handler _ _ _ _ HPI Hsc H) as [HPI' [SC' _]].
  pose proof HPI as [[I [_ St]] [RM [TOT _]]]. pose proof HPI' as [[I' [_ St']] [RM' [TOT' _]]].
  assert (HT : 0 <= ac_total (rw_spread (r_rw rs))).
  { rewrite TOT. apply zsum_nonneg. intros p Hp. pose proof (inv_pos_ok _ I) as F. rewrite Forall_forall in F. destruct (F p Hp) as [_ [L _]]. lia. }
  assert (HT' : 0 <= ac_total (rw_spread (r_rw rs'))).
  { rewrite TOT'. apply zsum_nonneg. intros p Hp. pose proof (inv_pos_ok _ I') as F. rewrite Forall_forall in F. destruct (F p Hp) as [_ [L _]]. lia. }
  destruct o as [b|owner ids|owner ids|sender denom amount rate dt uu]; simpl in H.
  - destruct b as [owner a0 a1 m0 m1 lo hi|owner id' liq|owner id' a0 a1 m0 m1|sender ids recipient|sender zfo amt mo|sender zfo amt mi|dt];
      simpl in NS; try discriminate NS.
    + destruct (r_create rs owner a0 a1 m0 m1 lo hi) as [[rs1 c]|] eqn:E; [|discriminate H]. inversion H; subst.
      eapply TB_create; eassumption.
    + destruct (r_withdraw rs owner id' liq) as [[rs1 [x0 x1]]|] eqn:E; [|discriminate H]. inversion H; subst.
      eapply TB_withdraw; eassumption.
    + destruct (r_add rs owner id' a0 a1 m0 m1) as [[rs1 [[nid x0] x1]]|] eqn:E; [|discriminate H]. inversion H; subst rs1 r. clear H.
      assert (Q : exists q, pos_get (s_pos (r_base rs)) id' = Some q).
      { unfold r_add in E. destruct (id' <=? 0); [discriminate E|]. destruct ((a0 <? 0) || (a1 <? 0) || (m0 <? 0) || (m1 <? 0)); [discriminate E|].
        destruct (pos_get (s_pos (r_base rs)) id') as [q|]; [eexists; reflexivity|discriminate E]. }
      destruct Q as [q Q]. destruct (r_add_split _ _ _ _ _ _ _ _ _ _ E Q) as [rs1 [w0 [w1 [m0' [m1' [cr [EW EC]]]]]]].
      assert (HW : rhandler rs (RBase (OWithdraw owner id' (ps_liq q))) = Some (rs1, [w0; w1])) by (simpl; rewrite EW; reflexivity).
      destruct (paid_handler _ _ _ _ HPI Hsc HW) as [HPI1 [SC1 _]]. pose proof HPI1 as [[I1 [_ St1]] [_ [TOT1 _]]].
      assert (HT1 : 0 <= ac_total (rw_spread (r_rw rs1))).
      { rewrite TOT1. apply zsum_nonneg. intros p Hp. pose proof (inv_pos_ok _ I1) as F. rewrite Forall_forall in F. destruct (F p Hp) as [_ [L _]]. lia. }
      destruct (TB_withdraw _ _ _ _ _ _ EW HT1 Hsc St TB) as [TB1 G1].
      destruct (TB_create _ _ _ _ _ _ _ _ _ _ EC St1 TB1) as [TB2 G2].
      split; [exact TB2|eapply Gmono_trans; eassumption].
    + destruct (transfer_positions (r_base rs) sender ids recipient) as [s'|]; [|discriminate H]. inversion H; subst. simpl.
      split; [exact TB|apply Gmono_refl].
    + inversion H; subst. simpl. split; [exact TB|apply Gmono_refl].
  - destruct (r_collect_spread rs owner ids) as [[rs1 c]|] eqn:E; [|discriminate H]. inversion H; subst.
    unfold r_collect_spread in E. destruct (TB_collect_spread_loop _ _ _ _ _ _ E HT Hsc TB) as [A [B _]]. split; assumption.
  - destruct (r_collect_inc rs owner ids) as [[rs1 [c f]]|] eqn:E; [|discriminate H]. inversion H; subst.
    unfold r_collect_inc in E. destruct (r_collect_inc_loop_sbb _ _ _ _ _ _ _ E) as [_ TT].
    destruct (r_collect_inc_loop_base _ _ _ _ _ _ _ E) as [_ [_ SS]].
    split; [apply (TBv_same _ _ TT (Gmono_same _ _ SS) TB)|apply Gmono_same; exact SS].
  - destruct (r_incentive rs sender denom amount rate dt uu) as [rs1|] eqn:E; [|discriminate H]. inversion H; subst.
    unfold r_incentive in E. obind E. inversion E; subst. simpl.
    match goal with E0 : update_uptime _ _ _ = Some _ |- _ => destruct (update_uptime_tt _ _ _ _ E0) as [TT [SS _]] end.
    split; [apply (TBv_same (r_rw rs)); [exact TT|apply Gmono_same; exact SS|exact TB]|apply Gmono_same; exact SS].
Qed.

(* ---------- positions an operation does not write to ---------- *)
Lemma livep_tks : forall rs id l u, RInv rs -> livep (r_base rs) id l u -> l < u /\ tks (r_rw rs) l u.
Proof.
  intros rs id l u RI LV. pose proof (livep_has_range _ _ _ _ LV) as HR.
  split; [apply (has_range_tt_ok (CS false) rs l u RI HR)|]. apply tks_tt_ok. intro d. apply (has_range_tt_ok (CS d) rs l u RI HR).
Qed.
Lemma livep_lt : forall s id l u, Inv s -> livep s id l u -> 0 < id < s_next_id s.
Proof.
  intros s id l u I [q [Q _]]. pose proof (pos_get_in _ _ _ Q) as HIn. pose proof (pos_get_id _ _ _ Q) as HId.
  pose proof (inv_pos_ok _ I) as F. rewrite Forall_forall in F. destruct (F q HIn) as [A _]. subst. exact A.
Qed.

Lemma srec_bystander : forall rs o rs' r id l u, RInv rs -> rhandler rs o = Some (rs', r) -> is_swap o = false ->
  livep (r_base rs) id l u -> livep (r_base rs') id l u -> touches o id = false -> Gmono (r_rw rs) (r_rw rs') ->
  srec (r_rw rs) (cur_tick rs) id l u -> srec (r_rw rs') (cur_tick rs') id l u.
Proof.
  intros rs o rs' r id l u RI H NS LV LV' T GM Z.
  destruct (op_ok_static _ _ _ _ _ _ _ H NS (static_op_ok (CS false) _ _ _ _ _ _ _ RI H NS LV LV')) as [CT [MT [Tl Tu]]].
  destruct (livep_tks _ _ _ _ RI LV) as [Hlu TK].
  destruct (livep_lt _ _ _ _ (proj1 RI) LV) as [_ LT].
  pose proof (handler_rec_frame _ _ _ _ _ RI H T LT) as RF.
  rewrite CT. apply (srec_SE (cur_tick rs) (touched rs o) (r_rw rs) (r_rw rs') id l u); try assumption.
  intro d. apply (op_static (CS d) _ _ _ _ H NS CT MT).
Qed.

(* ---------- the position an operation writes to ---------- *)
Lemma srec_withdraw_self : forall rs owner id liq rs' amts q l u,
  r_withdraw rs owner id liq = Some (rs', amts) -> pos_get (s_pos (r_base rs)) id = Some q ->
  ps_lower q = l -> ps_upper q = u -> liq <> ps_liq q ->
  ~ In l (removed (r_base rs') (ps_lower q) ++ removed (r_base rs') (ps_upper q)) ->
  ~ In u (removed (r_base rs') (ps_lower q) ++ removed (r_base rs') (ps_upper q)) ->
  l < u -> tks (r_rw rs) l u -> TBv (r_rw rs) -> (forall r, acc_get (rw_spread (r_rw rs)) id = Some r -> 0 <= ar_shares r) ->
  srec (r_rw rs) (cur_tick rs) id l u -> srec (r_rw rs') (cur_tick rs) id l u.
Proof.
  unfold r_withdraw. intros rs owner id liq rs' amts q l u H Q Ql Qu NF Rl Ru Hlu TK TB SH Z. rewrite Q in H.
  destruct (withdraw_position (r_base rs) owner id liq) as [[s amts']|]; [|discriminate H]. simpl in H.
  unfold cur_tick in *. set (cur := p_tick (s_pool (r_base rs))) in *.
  destruct (collect_incentives (s_bank s) (r_rw rs) cur (p_liq (s_pool (r_base rs))) (s_time (r_base rs)) q)
    as [[[[[b1 w1] col] forf] byup]|] eqn:E1; [|discriminate H]. simpl in H.
  destruct (update_position_rewards w1 cur (p_liq (s_pool (r_base rs))) (s_time (r_base rs)) (ps_lower q) (ps_upper q) id (ps_liq q - liq) (- liq))
    as [w2|] eqn:E2; [|discriminate H]. simpl in H.
  match type of H with (do bw <- ?X; _) = _ => destruct X as [[b2 w3]|] eqn:E3; [|discriminate H] end. simpl in H.
  match type of H with (do bw2 <- ?X; _) = _ => destruct X as [[b3 w4]|] eqn:E4; [|discriminate H] end. simpl in H.
  inversion H; subst rs' amts. clear H. simpl in *.
  pose proof (collect_incentives_tt _ _ _ _ _ _ _ _ _ _ _ E1) as T1. pose proof (collect_incentives_spread _ _ _ _ _ _ _ _ _ _ _ E1) as S1.
  destruct (srec_SE cur [] (r_rw rs) w1 id l u (fun d => SE_same_tt (CS d) cur _ _ T1) Hlu TK
              ltac:(simpl; tauto) ltac:(simpl; tauto) (Gmono_same _ _ S1) ltac:(rewrite S1; reflexivity) Z) as [Z1 TK1].
  assert (TB1 : TBv w1) by (apply (TBv_same _ _ T1 (Gmono_same _ _ S1) TB)).
  assert (SH1 : forall r, acc_get (rw_spread w1) id = Some r -> 0 <= ar_shares r) by (rewrite S1; exact SH).
  destruct (srec_update_position _ _ _ _ _ _ _ _ _ _ id l u E2 Hlu TK1 TB1 SH1 Z1 (or_intror (conj Ql Qu))) as [Z2 TK2].
  assert (T3 : rw_tt w3 = rw_tt w2 /\ rw_spread w3 = rw_spread w2).
  { destruct (p_liq (s_pool s) <? P18); obind E3; inversion E3; subst; [auto|].
    split; [eapply redeposit_forfeited_tt|eapply redeposit_forfeited_spread]; eassumption. }
  destruct T3 as [T3 S3].
  destruct (srec_SE cur [] w2 w3 id l u (fun d => SE_same_tt (CS d) cur _ _ T3) Hlu TK2
              ltac:(simpl; tauto) ltac:(simpl; tauto) (Gmono_same _ _ S3) ltac:(rewrite S3; reflexivity) Z2) as [Z3 TK3].
  assert (EF : (liq =? ps_liq q) = false) by (apply Z.eqb_neq; exact NF). rewrite EF in E4. inversion E4; subst b3 w4. clear E4.
  set (t1 := match tick_get (s_ticks s) (ps_lower q) with None => tt_remove (rw_tt w3) (ps_lower q) | Some _ => rw_tt w3 end) in *.
  assert (S5 : forall d, SE (CS d) cur (removed s (ps_lower q) ++ removed s (ps_upper q)) w3
                  (set_tt w3 (match tick_get (s_ticks s) (ps_upper q) with None => tt_remove t1 (ps_upper q) | Some _ => t1 end))).
  { intro d. unfold removed, t1. destruct (tick_get (s_ticks s) (ps_lower q)); destruct (tick_get (s_ticks s) (ps_upper q)); simpl.
    - replace (set_tt w3 (rw_tt w3)) with w3 by (destruct w3; reflexivity). apply SE_refl.
    - apply SE_remove.
    - apply SE_remove.
    - pose proof (SE_trans (CS d) cur _ _ _ _ _ (SE_remove (CS d) cur w3 (ps_lower q)) (SE_remove (CS d) cur (set_tt w3 (tt_remove (rw_tt w3) (ps_lower q))) (ps_upper q))) as X.
      simpl in X. exact X. }
  apply (srec_SE cur _ w3 _ id l u S5 Hlu TK3 Rl Ru); [|reflexivity|exact Z3].
  intro d. simpl. lia.
Qed.

Lemma srec_collect_spread_loop : forall ids rs owner tot rs' c id l u,
  r_collect_spread_loop rs owner ids tot = Some (rs', c) ->
  (forall q, pos_get (s_pos (r_base rs)) id = Some q -> ps_lower q = l /\ ps_upper q = u) ->
  0 <= ac_total (rw_spread (r_rw rs)) -> 0 < sc_of rs -> TBv (r_rw rs) ->
  (forall r, acc_get (rw_spread (r_rw rs)) id = Some r -> ar_shares r <> 0) ->
  l < u -> tks (r_rw rs) l u -> srec (r_rw rs) (cur_tick rs) id l u ->
  srec (r_rw rs') (cur_tick rs) id l u.
Proof.
  induction ids as [|id' rest IH]; intros rs owner tot rs' c id l u H PQ HT Hsc TB SHN Hlu TK Z; simpl in H.
  - inversion H; subst. exact Z.
  - destruct (pos_get (s_pos (r_base rs)) id') as [q|] eqn:Q; [|discriminate H].
    destruct (negb (ps_owner q =? owner)); [discriminate H|].
    destruct (collect_spread_rewards (s_bank (r_base rs)) (r_rw rs) (p_scaling (s_pool (r_base rs))) (p_tick (s_pool (r_base rs))) q)
      as [[[b w] x]|] eqn:E; [|discriminate H].
    assert (QI : ps_id q = id') by (eapply pos_get_id; exact Q).
    apply collect_spread_rewards_inv in E.
    destruct (prepare_claimable_spread_mono _ _ _ _ _ _ _ _ E HT Hsc) as [TT GM].
    pose proof (prepare_claimable_spread_total _ _ _ _ _ _ _ _ E) as TO.
    assert (TB1 : TBv w) by (eapply TBv_same; eassumption).
    assert (Z1 : srec w (cur_tick rs) id l u /\ tks w l u /\ (forall r, acc_get (rw_spread w) id = Some r -> ar_shares r <> 0)).
    { destruct (Z.eq_dec id' id) as [EQ|NE].
      - destruct (PQ q ltac:(rewrite <- EQ; exact Q)) as [Pl Pu]. rewrite Pl, Pu, QI, EQ in E.
        destruct (acc_get (rw_spread (r_rw rs)) id) as [r|] eqn:R.
        + destruct (srec_claim_self _ _ _ _ _ _ _ _ _ E R (SHN r eq_refl) HT Hsc Hlu TK TB) as [A B]. split; [exact A|]. split; [exact B|].
          destruct (prepare_claimable_spread_full _ _ _ _ _ _ _ _ _ E R HT Hsc) as [RA _]. destruct (RA (SHN r eq_refl)) as [insv [_ R']].
          intros r0 R0. rewrite R' in R0. inversion R0; subst. simpl. apply SHN. reflexivity.
        + unfold prepare_claimable_spread, acc_has in E. rewrite R in E. discriminate E.
      - destruct (srec_claim_other _ _ _ _ _ _ _ _ _ _ _ E ltac:(rewrite QI; exact NE) HT Hsc Hlu TK Z) as [A B]. split; [exact A|]. split; [exact B|].
        rewrite (prepare_claimable_spread_other _ _ _ _ _ _ _ _ E id ltac:(rewrite QI; congruence)). exact SHN. }
    destruct Z1 as [Z1 [TK1 SHN1]].
    specialize (IH (mkRS (set_bank (r_base rs) b) w) owner _ rs' c id l u H). unfold cur_tick in *. simpl in IH.
    apply IH; try assumption. rewrite TO. exact HT.
Qed.

(* a position that has no record yet (a new id) *)
Lemma srec_update_position_new : forall w cur pl now lo hi id liq delta w',
  update_position_rewards w cur pl now lo hi id liq delta = Some w' -> acc_get (rw_spread w) id = None ->
  tt_sorted w -> TBv w -> srec w' cur id lo hi.
Proof.
  unfold update_position_rewards. intros w cur pl now lo hi id liq delta w' H R St TB.
  destruct (ensure_tick w cur pl now lo) as [w1|] eqn:E1; [|discriminate H]. simpl in H.
  destruct (ensure_tick w1 cur pl now hi) as [w2|] eqn:E2; [|discriminate H]. simpl in H.
  destruct (init_or_update_uptime w2 cur pl now lo hi id liq delta) as [w3|] eqn:E3; [|discriminate H]. simpl in H.
  pose proof (TBv_ensure_tick _ _ _ _ _ _ E1 St TB) as TB1.
  pose proof (SE_sorted cur _ _ _ (SE_ensure_tick (CS false) _ _ _ _ _ _ E1) St) as St1.
  pose proof (TBv_ensure_tick _ _ _ _ _ _ E2 St1 TB1) as TB2.
  pose proof (init_or_update_uptime_tt _ _ _ _ _ _ _ _ _ _ E3) as T3. pose proof (init_or_update_uptime_spread _ _ _ _ _ _ _ _ _ _ E3) as S3.
  assert (TB3 : TBv w3) by (apply (TBv_same w2 w3 T3 (Gmono_same _ _ S3) TB2)).
  assert (R3 : acc_get (rw_spread w3) id = None).
  { rewrite S3, (ensure_tick_spread _ _ _ _ _ _ E2), (ensure_tick_spread _ _ _ _ _ _ E1). exact R. }
  apply (srec_update_self _ _ _ _ _ _ _ H); [intros r X; rewrite R3 in X; discriminate X|exact TB3|].
  intros r X. rewrite R3 in X. discriminate X.
Qed.

(* ---------- swaps: every growth event is non-negative ---------- *)
Definition gnn (evs : list sev) : Prop := Forall (fun e => match e with EvGrow g => 0 <= g | _ => True end) evs.

Lemma step_events_gnn : forall zfo sc st nt nts computed fee, 0 <= fee -> 0 < sc -> 0 <= ss_liq st ->
  gnn (step_events zfo true sc st nt nts computed fee).
Proof.
  intros zfo sc st nt nts computed fee Hf Hsc Hl. unfold step_events.
  destruct (update_fee_growth sc st fee) as [st1|] eqn:E1; [|constructor].
  destruct (update_fee_growth_value _ _ _ _ E1 Hf Hsc Hl) as [G0 _].
  constructor; [exact G0|].
  destruct (nts =? computed); [constructor; [exact I|constructor]|].
  destruct (edge_case zfo nts computed); [constructor|]. destruct (negb (ss_sqrt st =? computed)); [|constructor].
  destruct (calculate_sqrt_price_to_tick computed); [constructor; [exact I|constructor]|constructor].
Qed.

Lemma eloop_out_gnn : forall s fuel zfo sc limit st iter noprog st' evs, Inv s -> 0 < sc ->
  sqrt_price_limit zfo = Some limit -> LI s zfo st iter ->
  eloop_out_given_in fuel zfo true (p_spread (s_pool s)) sc limit st iter noprog = (Some st', evs) -> gnn evs.
Proof.
  intros s fuel. induction fuel as [|f IH]; intros zfo sc limit st iter noprog st' evs I Hsc HL L H; simpl in H; [discriminate H|].
  destruct ((smallest_dec <? ss_remaining st) && negb (ss_sqrt st =? limit)) eqn:Econd; [|inversion H; subst; constructor].
  apply andb_true_iff in Econd. destruct Econd as [Erem _]. apply Z.ltb_lt in Erem. unfold smallest_dec in Erem.
  destruct iter as [|[nt info] rest]; [discriminate H|].
  destruct (tick_to_sqrt_price nt) as [nts|] eqn:Snt; [|discriminate H].
  destruct (LI_facts s zfo st nt info rest nts I L Snt) as [Fl [Fr Fz]].
  rewrite (sqrt_target_next zfo limit nt nts HL Fr Snt) in H.
  destruct (compute_out_given_in zfo (p_spread (s_pool s)) (ss_sqrt st) nts (ss_liq st) (ss_remaining st)) as [[[[computed ain] aout] fee]|] eqn:EC; [|discriminate H].
  destruct (negb (progress_ok computed (ss_sqrt st) ain aout)); [discriminate H|].
  destruct (dchk (ain + fee)) as [infee|]; [|discriminate H].
  destruct (after_step zfo true sc st ((nt, info) :: rest) nt info nts computed infee aout fee) as [[st1 iter1]|] eqn:EA; [|discriminate H].
  pose proof L as L0. destruct L0 as [_ [L2 _]].
  assert (Dir : computed = nts \/ computed = ss_sqrt st \/ dir_ok zfo (ss_sqrt st) computed).
  { destruct (compute_out_given_in_dir _ _ _ _ _ _ _ _ _ _ EC Fl L2 Erem (inv_spread s I) Fz) as [D|D]; [left; assumption|right; right; assumption]. }
  assert (L' : LI s zfo st1 iter1) by (eapply after_step_LI; try eassumption; reflexivity).
  destruct (after_step_sqrt_rem _ _ _ _ _ _ _ _ _ _ _ _ _ _ EA) as [Q1 _].
  assert (Cpos : 0 < computed) by (destruct L' as [_ [P _]]; rewrite Q1 in P; exact P).
  destruct (out_given_in_step _ _ _ _ _ _ _ _ _ _ EC Fl L2 Cpos Erem (inv_spread s I) Fz) as [_ [_ [F0 _]]].
  pose proof (step_events_gnn zfo sc st nt nts computed fee F0 Hsc Fl) as SG.
  destruct (ain =? 0).
  - destruct (swap_no_progress_limit <=? noprog); [discriminate H|].
    destruct (eloop_out_given_in f zfo true (p_spread (s_pool s)) sc limit st1 iter1 (noprog + 1)) as [r1 evs1] eqn:EL. inversion H; subst.
    apply Forall_app. split; [exact SG|]. exact (IH _ _ _ _ _ _ _ _ I Hsc HL L' EL).
  - destruct (eloop_out_given_in f zfo true (p_spread (s_pool s)) sc limit st1 iter1 noprog) as [r1 evs1] eqn:EL. inversion H; subst.
    apply Forall_app. split; [exact SG|]. exact (IH _ _ _ _ _ _ _ _ I Hsc HL L' EL).
Qed.

Lemma eloop_in_gnn : forall s fuel zfo sc limit st iter noprog st' evs, Inv s -> 0 < sc ->
  sqrt_price_limit zfo = Some limit -> LI s zfo st iter -> 0 <= ss_remaining st ->
  eloop_in_given_out fuel zfo true (p_spread (s_pool s)) sc limit st iter noprog = (Some st', evs) -> gnn evs.
Proof.
  intros s fuel. induction fuel as [|f IH]; intros zfo sc limit st iter noprog st' evs I Hsc HL L HR H; simpl in H; [discriminate H|].
  destruct ((smallest_dec <? ss_remaining st) && negb (ss_sqrt st =? limit)) eqn:Econd; [|inversion H; subst; constructor].
  apply andb_true_iff in Econd. destruct Econd as [Erem _]. apply Z.ltb_lt in Erem. unfold smallest_dec in Erem.
  destruct iter as [|[nt info] rest]; [discriminate H|].
  destruct (tick_to_sqrt_price nt) as [nts|] eqn:Snt; [|discriminate H].
  destruct (LI_facts s zfo st nt info rest nts I L Snt) as [Fl [Fr Fz]].
  rewrite (sqrt_target_next zfo limit nt nts HL Fr Snt) in H.
  destruct (compute_in_given_out zfo (p_spread (s_pool s)) (ss_sqrt st) nts (ss_liq st) (ss_remaining st)) as [[[[computed aout] ain] fee]|] eqn:EC; [|discriminate H].
  destruct (negb (progress_ok computed (ss_sqrt st) ain aout)); [discriminate H|].
  destruct (dchk (ain + fee)) as [infee|]; [|discriminate H].
  destruct (after_step zfo true sc st ((nt, info) :: rest) nt info nts computed aout infee fee) as [[st1 iter1]|] eqn:EA; [|discriminate H].
  pose proof L as L0. destruct L0 as [_ [L2 _]].
  assert (Dir : computed = nts \/ computed = ss_sqrt st \/ dir_ok zfo (ss_sqrt st) computed).
  { destruct (compute_in_given_out_dir _ _ _ _ _ _ _ _ _ _ EC Fl L2 Erem) as [D|D]; [left; assumption|right; right; assumption]. }
  assert (L' : LI s zfo st1 iter1) by (eapply after_step_LI; try eassumption; reflexivity).
  destruct (after_step_sqrt_rem _ _ _ _ _ _ _ _ _ _ _ _ _ _ EA) as [Q1 [Q2 _]].
  assert (Cpos : 0 < computed) by (destruct L' as [_ [P _]]; rewrite Q1 in P; exact P).
  assert (SPF : 0 <= p_spread (s_pool s) < P18) by (pose proof (inv_spread s I); rewrite P18_val; lia).
  destruct (in_given_out_step _ _ _ _ _ _ _ _ _ _ EC Fl L2 Cpos HR SPF) as [_ [_ [F0 [AR _]]]].
  pose proof (step_events_gnn zfo sc st nt nts computed fee F0 Hsc Fl) as SG.
  assert (HR1 : 0 <= ss_remaining st1) by lia.
  destruct (aout =? 0).
  - destruct (swap_no_progress_limit <=? noprog); [discriminate H|].
    destruct (eloop_in_given_out f zfo true (p_spread (s_pool s)) sc limit st1 iter1 (noprog + 1)) as [r1 evs1] eqn:EL. inversion H; subst.
    apply Forall_app. split; [exact SG|]. exact (IH _ _ _ _ _ _ _ _ I Hsc HL L' HR1 EL).
  - destruct (eloop_in_given_out f zfo true (p_spread (s_pool s)) sc limit st1 iter1 noprog) as [r1 evs1] eqn:EL. inversion H; subst.
    apply Forall_app. split; [exact SG|]. exact (IH _ _ _ _ _ _ _ _ I Hsc HL L' HR1 EL).
Qed.

Lemma swap_events_gnn : forall s ei zfo amt evs, Inv s -> 0 < p_scaling (s_pool s) -> 0 <= amt ->
  swap_events s ei zfo amt = Some evs -> gnn evs.
Proof.
  unfold swap_events. intros s ei zfo amt evs I Hsc Ha HE.
  destruct (swap_setup s zfo) as [[limit iter]|] eqn:ES; [|discriminate HE]. cbv beta iota in HE.
  destruct (swap_setup_LI s zfo limit iter (d_from_int amt) I ES) as [HL [_ L]].
  destruct ei.
  - destruct (eloop_out_given_in _ _ _ _ _ _ _ _ _) as [ro evs1] eqn:EL. destruct ro as [st|]; [|discriminate HE]. inversion HE; subst evs1.
    eapply eloop_out_gnn; eassumption.
  - destruct (eloop_in_given_out _ _ _ _ _ _ _ _ _) as [ro evs1] eqn:EL. destruct ro as [st|]; [|discriminate HE]. inversion HE; subst evs1.
    eapply (eloop_in_gnn s _ _ _ _ _ _ _ _ _ I Hsc HL L); [|exact EL]. simpl. unfold d_from_int. pose proof P18_pos. nia.
Qed.

Lemma strace_nonneg : forall d zfo evs din w pl now pending, gnn evs ->
  Forall ev_nonneg (strace (CS d) zfo din w pl now pending evs).
Proof.
  induction evs as [|e r IH]; intros din w pl now pending G; cbn [strace]; [constructor|]. inversion G; subst.
  destruct e as [g|i|t].
  - constructor; [|apply IH; assumption]. cbn [ev_nonneg sel_pend]. rewrite dsel_one. destruct (Bool.eqb d (negb (din =? 0))); lia.
  - destruct (update_uptime w pl now) as [w1|] eqn:E1; [|constructor].
    destruct (cross_trackers w1 din pending i) as [w2|]; [|constructor].
    destruct (update_uptime_tt _ _ _ _ E1) as [_ [SPR _]].
    constructor; [cbn [ev_nonneg]; simpl; rewrite SPR; lia|]. constructor; [exact I|]. apply IH. assumption.
  - constructor; [exact I|]. apply IH. assumption.
Qed.
Lemma in_range_growth_nonneg : forall evs s l u, Forall ev_nonneg evs -> 0 <= in_range_growth s evs l u.
Proof.
  induction evs as [|e r IH]; intros s l u F; simpl; [lia|]. inversion F; subst. specialize (IH (a_step s e) l u H2).
  assert (0 <= grow_inside s e l u) by (destruct e; simpl in *; try lia; destruct ((l <=? a_c s) && (a_c s <? u)); lia). lia.
Qed.
Lemma a_run_G_mono : forall evs s, Forall ev_nonneg evs -> a_G s <= a_G (a_run s evs).
Proof.
  induction evs as [|e r IH]; intros s F; simpl; [lia|]. inversion F; subst. specialize (IH (a_step s e) H2).
  rewrite step_G in IH. destruct e; simpl in *; lia.
Qed.

Lemma op_trace_nonneg : forall rs o rs' r d, Inv (r_base rs) -> 0 < sc_of rs -> rhandler rs o = Some (rs', r) -> is_swap o = true ->
  Forall ev_nonneg (op_trace (CS d) rs o).
Proof.
  intros rs o rs' r d I Hsc H S. unfold op_trace.
  destruct (swap_args o) as [[[ei zfo] amt]|] eqn:EA; [|constructor].
  destruct (swap_events (r_base rs) ei zfo amt) as [evs|] eqn:EE; [|constructor].
  apply strace_nonneg. apply (swap_events_gnn _ _ _ _ _ I Hsc) in EE; [exact EE|].
  destruct o as [b|? ?|? ?|? ? ? ? ? ?]; simpl in S; try discriminate S.
  destruct b as [? ? ? ? ? ? ?|? ? ?|? ? ? ? ? ?|? ? ?|sender zfo' amt' mo|sender zfo' amt' mi|?]; simpl in S; try discriminate S; simpl in EA; inversion EA; subst; simpl in H.
  - unfold r_swap_in, swap_exact_in in H. destruct (negb (0 <? amt) || negb (0 <? mo)) eqn:EV; [discriminate H|].
    apply orb_false_iff in EV. destruct EV as [EV _]. apply negb_false_iff, Z.ltb_lt in EV. lia.
  - unfold r_swap_out, swap_exact_out in H. destruct (negb (0 <? amt) || negb (0 <? mi)) eqn:EV; [discriminate H|].
    apply orb_false_iff in EV. destruct EV as [EV _]. apply negb_false_iff, Z.ltb_lt in EV. lia.
Qed.

Lemma swap_spread_recs : forall rs o rs' r, rhandler rs o = Some (rs', r) -> is_swap o = true ->
  ac_recs (rw_spread (r_rw rs')) = ac_recs (rw_spread (r_rw rs)).
Proof.
  intros rs o rs' r H S.
  destruct o as [b|? ?|? ?|? ? ? ? ? ?]; simpl in S; try discriminate S.
  destruct b as [? ? ? ? ? ? ?|? ? ?|? ? ? ? ? ?|? ? ?|sender zfo amt mo|sender zfo amt mi|?]; simpl in S; try discriminate S; simpl in H.
  - unfold r_swap_in in H. destruct (swap_exact_in (r_base rs) sender zfo amt mo) as [[s' out]|]; [|discriminate H]. simpl in H.
    destruct (swap_rewards (r_rw rs) (r_base rs) true zfo amt (s_time (r_base rs))) as [w|] eqn:E2; [|discriminate H].
    inversion H; subst. simpl. eapply swap_rewards_recs. exact E2.
  - unfold r_swap_out in H. destruct (swap_exact_out (r_base rs) sender zfo amt mi) as [[s' tin]|]; [|discriminate H]. simpl in H.
    destruct (swap_rewards (r_rw rs) (r_base rs) false zfo amt (s_time (r_base rs))) as [w|] eqn:E2; [|discriminate H].
    inversion H; subst. simpl. eapply swap_rewards_recs. exact E2.
Qed.

Lemma TB_swap : forall rs o rs' r, RInv rs -> 0 < sc_of rs -> rhandler rs o = Some (rs', r) -> is_swap o = true ->
  TBv (r_rw rs) -> TBv (r_rw rs') /\ Gmono (r_rw rs) (r_rw rs').
Proof.
  intros rs o rs' r [I [D St]] Hsc H S TB.
  assert (X : forall d, 0 <= a_G (rview (CS d) rs') /\ trackers_bounded (rview (CS d) rs') /\ a_G (rview (CS d) rs) <= a_G (rview (CS d) rs')).
  { intro d. rewrite (swap_view (CS d) _ _ _ _ H S). pose proof (op_trace_nonneg _ _ _ _ d I Hsc H S) as N.
    destruct (proj1 (TBv_view _) TB d (cur_tick rs)) as [A B].
    assert (S' : tm_sorted (a_O (rview (CS d) rs))) by (simpl; eapply vmap_sorted_any; exact St).
    destruct (a_run_bounded _ _ S' A B N) as [B' A']. split; [exact A'|]. split; [exact B'|]. apply a_run_G_mono. exact N. }
  split.
  - intro d. destruct (X d) as [A [B _]]. unfold rview in *. rewrite view_G in A. split; [exact A|]. intros i o0 E. specialize (B i o0 E). rewrite view_G in B. exact B.
  - intro d. destruct (X d) as [_ [_ C]]. unfold rview in C. rewrite !view_G in C. exact C.
Qed.

Lemma srec_swap : forall rs o rs' r id l u, RInv rs -> 0 < sc_of rs -> rhandler rs o = Some (rs', r) -> is_swap o = true ->
  livep (r_base rs) id l u -> Gmono (r_rw rs) (r_rw rs') ->
  srec (r_rw rs) (cur_tick rs) id l u -> srec (r_rw rs') (cur_tick rs') id l u.
Proof.
  intros rs o rs' r id l u RI Hsc H S LV GM Z. pose proof RI as [I [D St]].
  destruct (livep_tks _ _ _ _ RI LV) as [Hlu [_ [Kl Ku]]].
  intros r0 R0 d.
  assert (RG : acc_get (rw_spread (r_rw rs')) id = acc_get (rw_spread (r_rw rs)) id) by (unfold acc_get; rewrite (swap_spread_recs _ _ _ _ H S); reflexivity).
  rewrite RG in R0. destruct (Z r0 R0 d) as [[A B] C]. specialize (GM d).
  pose proof (op_inside_swap (CS d) _ _ _ _ l u H S Hlu (vmap_sorted_any _ (CS d) _ St) Kl Ku (swap_op_wf (CS d) _ _ _ _ I D H S)) as E.
  pose proof (in_range_growth_nonneg (op_trace (CS d) rs o) (rview (CS d) rs) l u (op_trace_nonneg _ _ _ _ d I Hsc H S)) as N.
  unfold ins, rview in *. rewrite E. split; [lia|exact C].
Qed.

(* ---------- the invariant ---------- *)
Definition CI (rs : rstate) : Prop :=
  PI rs /\ TBv (r_rw rs) /\ forall id l u, livep (r_base rs) id l u -> srec (r_rw rs) (cur_tick rs) id l u.

Lemma PI_shares : forall rs id l u r, PI rs -> livep (r_base rs) id l u -> acc_get (rw_spread (r_rw rs)) id = Some r -> 0 < ar_shares r.
Proof.
  intros rs id l u r [[I _] [RM _]] [q [Q _]] R. pose proof (pos_get_in _ _ _ Q) as HIn. pose proof (pos_get_id _ _ _ Q) as HId.
  destruct (RM q HIn) as [r' [R' SH]]. rewrite HId, R in R'. inversion R'; subst r'. rewrite SH.
  pose proof (inv_pos_ok _ I) as F. rewrite Forall_forall in F. destruct (F q HIn) as [_ [L _]]. exact L.
Qed.
Lemma PI_total : forall rs, PI rs -> 0 <= ac_total (rw_spread (r_rw rs)).
Proof.
  intros rs [[I _] [_ [TOT _]]]. rewrite TOT. apply zsum_nonneg. intros p Hp.
  pose proof (inv_pos_ok _ I) as F. rewrite Forall_forall in F. destruct (F p Hp) as [_ [L _]]. lia.
Qed.

Lemma CI_create : forall rs owner a0 a1 m0 m1 lo hi rs' c, CI rs -> 0 < sc_of rs ->
  r_create rs owner a0 a1 m0 m1 lo hi = Some (rs', c) -> CI rs'.
Proof.
  intros rs owner a0 a1 m0 m1 lo hi rs' c [HPI [TB SR]] Hsc E.
  assert (H : rhandler rs (RBase (OCreate owner a0 a1 m0 m1 lo hi)) = Some (rs', [cr_id c; cr_amount0 c; cr_amount1 c; cr_liq c; cr_lower c; cr_upper c]))
    by (simpl; rewrite E; reflexivity).
  destruct (paid_handler _ _ _ _ HPI Hsc H) as [HPI' _]. destruct (TB_static _ _ _ _ HPI Hsc H eq_refl TB) as [TB' GM].
  split; [exact HPI'|]. split; [exact TB'|]. intros id l u LV'.
  pose proof HPI as [RI [_ [_ FR]]]. pose proof RI as [I [_ St]].
  pose proof (r_create_base _ _ _ _ _ _ _ _ _ _ E) as B.
  destruct (create_position_spec _ _ _ _ _ _ _ _ _ _ I B) as [I' [NX [CID [SP _]]]].
  destruct LV' as [q' [Q' [Ql Qu]]]. rewrite SP, pos_get_set in Q'. cbn [ps_id] in Q'.
  destruct (id =? s_next_id (r_base rs)) eqn:EI.
  - apply Z.eqb_eq in EI. inversion Q'; subst q'. cbn [ps_lower ps_upper] in Ql, Qu. subst l u id.
    unfold r_create in E. rewrite B in E. cbv beta iota in E.
    match type of E with (do w <- ?X; _) = _ => destruct X as [w|] eqn:EU; [|discriminate E] end.
    assert (RW : r_rw rs' = w) by (inversion E as [E']; rewrite <- E' at 1; reflexivity). clear E.
    unfold cur_tick. rewrite RW, <- CID.
    apply (srec_update_position_new _ _ _ _ _ _ _ _ _ _ EU); [|exact St|exact TB]. apply FR. rewrite CID. lia.
  - assert (LV : livep (r_base rs) id l u) by (exists q'; auto).
    apply (srec_bystander _ _ _ _ id l u RI H eq_refl LV); try assumption; [|reflexivity|apply SR; exact LV].
    exists q'. rewrite SP, pos_get_set. cbn [ps_id]. rewrite EI. auto.
Qed.

Lemma CI_withdraw : forall rs owner id' liq rs' amts, CI rs -> 0 < sc_of rs ->
  r_withdraw rs owner id' liq = Some (rs', amts) -> CI rs'.
Proof.
  intros rs owner id' liq rs' [x0 x1] [HPI [TB SR]] Hsc E.
  assert (H : rhandler rs (RBase (OWithdraw owner id' liq)) = Some (rs', [x0; x1])) by (simpl; rewrite E; reflexivity).
  destruct (paid_handler _ _ _ _ HPI Hsc H) as [HPI' _]. destruct (TB_static _ _ _ _ HPI Hsc H eq_refl TB) as [TB' GM].
  split; [exact HPI'|]. split; [exact TB'|]. intros id l u LV'.
  pose proof HPI as [RI _]. pose proof RI as [I [_ St]]. pose proof HPI' as [RI' _].
  destruct (r_withdraw_base _ _ _ _ _ _ E) as [s' [W [_ [_ [SPB _]]]]].
  destruct (withdraw_position_spec _ _ _ _ _ _ _ I W) as [_ [_ [_ [_ [q [Q [_ [LQ SP]]]]]]]].
  pose proof LV' as [q' [Q' [Ql Qu]]]. rewrite SPB, SP in Q'.
  destruct (Z.eq_dec id id') as [EQ|NE].
  - subst id'. destruct (liq =? ps_liq q) eqn:EF.
    + rewrite pos_get_remove, Z.eqb_refl in Q' by (apply (inv_pos_sorted _ I)). discriminate Q'.
    + rewrite pos_get_set in Q'. cbn [ps_id] in Q'. rewrite Z.eqb_refl in Q'. inversion Q'; subst q'. cbn [ps_lower ps_upper] in Ql, Qu.
      assert (LV : livep (r_base rs) id l u) by (exists q; auto).
      destruct (op_ok_static _ _ _ _ _ _ _ H eq_refl (static_op_ok (CS false) _ _ _ _ _ _ _ RI H eq_refl LV LV')) as [CT _].
      destruct (livep_tks _ _ _ _ RI LV) as [Hlu TK].
      destruct (livep_keys _ _ _ _ RI' LV') as [_ [_ [K3 [K4 _]]]].
      rewrite CT. apply (srec_withdraw_self _ _ _ _ _ _ q l u E Q Ql Qu); try assumption.
      * apply Z.eqb_neq. exact EF.
      * intro X. apply in_app_or in X. destruct X as [X|X]; (eapply removed_stored; [|exact X]; assumption).
      * intro X. apply in_app_or in X. destruct X as [X|X]; (eapply removed_stored; [|exact X]; assumption).
      * intros r0 R0. pose proof (PI_shares _ _ _ _ _ HPI LV R0). lia.
      * apply SR. exact LV.
  - assert (LV : livep (r_base rs) id l u).
    { exists q'. split; [|auto]. destruct (liq =? ps_liq q).
      - rewrite pos_get_remove in Q' by (apply (inv_pos_sorted _ I)). rewrite (proj2 (Z.eqb_neq id id') NE) in Q'. exact Q'.
      - rewrite pos_get_set in Q'. cbn [ps_id] in Q'. rewrite (proj2 (Z.eqb_neq id id') NE) in Q'. exact Q'. }
    apply (srec_bystander _ _ _ _ id l u RI H eq_refl LV LV'); try assumption; [|apply SR; exact LV].
    simpl. apply Z.eqb_neq. congruence.
Qed.

(* operations that keep every position's id and range: all positions are bystanders, except the ids a collect names *)
Lemma CI_keep : forall rs o rs' r, CI rs -> 0 < sc_of rs -> rhandler rs o = Some (rs', r) -> is_swap o = false ->
  (forall id l u, livep (r_base rs') id l u -> livep (r_base rs) id l u) ->
  (forall id l u, livep (r_base rs) id l u -> livep (r_base rs') id l u -> touches o id = true ->
     srec (r_rw rs') (cur_tick rs') id l u) -> CI rs'.
Proof.
  intros rs o rs' r [HPI [TB SR]] Hsc H NS LB TCH.
  destruct (paid_handler _ _ _ _ HPI Hsc H) as [HPI' _]. destruct (TB_static _ _ _ _ HPI Hsc H NS TB) as [TB' GM].
  split; [exact HPI'|]. split; [exact TB'|]. intros id l u LV'. pose proof (LB _ _ _ LV') as LV. pose proof HPI as [RI _].
  destruct (touches o id) eqn:T; [apply TCH; assumption|].
  apply (srec_bystander _ _ _ _ id l u RI H NS LV LV' T GM). apply SR. exact LV.
Qed.

Theorem CI_handler : forall rs o rs' r, CI rs -> 0 < sc_of rs -> rhandler rs o = Some (rs', r) -> CI rs'.
Proof.
  intros rs o rs' r HCI Hsc H. pose proof HCI as [HPI [TB SR]]. pose proof HPI as [RI _]. pose proof RI as [I _].
  destruct (is_swap o) eqn:S.
  - (* swaps *)
    destruct (paid_handler _ _ _ _ HPI Hsc H) as [HPI' _]. destruct (TB_swap _ _ _ _ RI Hsc H S TB) as [TB' GM].
    split; [exact HPI'|]. split; [exact TB'|]. intros id l u LV'.
    assert (SP : s_pos (r_base rs') = s_pos (r_base rs)).
    { destruct o as [b|? ?|? ?|? ? ? ? ? ?]; simpl in S; try discriminate S.
      destruct b as [? ? ? ? ? ? ?|? ? ?|? ? ? ? ? ?|? ? ?|sender zfo amt mo|sender zfo amt mi|?]; simpl in S; try discriminate S; simpl in H.
      - unfold r_swap_in in H. destruct (swap_exact_in (r_base rs) sender zfo amt mo) as [[s' out]|] eqn:E1; [|discriminate H]. simpl in H.
        destruct (swap_rewards _ _ _ _ _ _); [|discriminate H]. inversion H; subst. simpl. eapply swap_exact_in_pos. exact E1.
      - unfold r_swap_out in H. destruct (swap_exact_out (r_base rs) sender zfo amt mi) as [[s' tin]|] eqn:E1; [|discriminate H]. simpl in H.
        destruct (swap_rewards _ _ _ _ _ _); [|discriminate H]. inversion H; subst. simpl. eapply swap_exact_out_pos. exact E1. }
    assert (LV : livep (r_base rs) id l u) by (unfold livep in *; rewrite SP in LV'; exact LV').
    apply (srec_swap _ _ _ _ id l u RI Hsc H S LV GM). apply SR. exact LV.
  - destruct o as [b|owner ids|owner ids|sender denom amount rate dt uu].
    + destruct b as [owner a0 a1 m0 m1 lo hi|owner id' liq|owner id' a0 a1 m0 m1|sender ids recipient|sender zfo amt mo|sender zfo amt mi|dt];
        simpl in S; try discriminate S.
      * simpl in H. destruct (r_create rs owner a0 a1 m0 m1 lo hi) as [[rs1 c]|] eqn:E; [|discriminate H]. inversion H; subst.
        eapply CI_create; eassumption.
      * simpl in H. destruct (r_withdraw rs owner id' liq) as [[rs1 [x0 x1]]|] eqn:E; [|discriminate H]. inversion H; subst.
        eapply CI_withdraw; eassumption.
      * simpl in H. destruct (r_add rs owner id' a0 a1 m0 m1) as [[rs1 [[nid x0] x1]]|] eqn:E; [|discriminate H]. inversion H; subst rs1 r. clear H.
        assert (Q : exists q, pos_get (s_pos (r_base rs)) id' = Some q).
        { unfold r_add in E. destruct (id' <=? 0); [discriminate E|]. destruct ((a0 <? 0) || (a1 <? 0) || (m0 <? 0) || (m1 <? 0)); [discriminate E|].
          destruct (pos_get (s_pos (r_base rs)) id') as [q|]; [eexists; reflexivity|discriminate E]. }
        destruct Q as [q Q]. destruct (r_add_split _ _ _ _ _ _ _ _ _ _ E Q) as [rs1 [w0 [w1 [m0' [m1' [cr [EW EC]]]]]]].
        pose proof (CI_withdraw _ _ _ _ _ _ HCI Hsc EW) as HCI1.
        assert (HW : rhandler rs (RBase (OWithdraw owner id' (ps_liq q))) = Some (rs1, [w0; w1])) by (simpl; rewrite EW; reflexivity).
        destruct (paid_handler _ _ _ _ HPI Hsc HW) as [_ [SC1 _]].
        apply (CI_create _ _ _ _ _ _ _ _ _ _ HCI1 ltac:(rewrite SC1; exact Hsc) EC).
      * (* transfer *)
        apply (CI_keep _ _ _ _ HCI Hsc H eq_refl); [|intros id l u _ _ T; discriminate T].
        simpl in H. destruct (transfer_positions (r_base rs) sender ids recipient) as [s'|] eqn:E; [|discriminate H]. inversion H; subst. simpl.
        destruct (transfer_positions_spec _ _ _ _ _ I E) as [_ [_ [_ [_ [_ [PG _]]]]]].
        intros id l u [q' [Q' [Ql Qu]]]. rewrite PG in Q'. destruct (pos_get (s_pos (r_base rs)) id) as [q|] eqn:Q0; [|discriminate Q'].
        exists q. split; [exact Q0|]. destruct (z_mem id ids); inversion Q'; subst q'; [destruct q; simpl in *; auto|auto].
      * (* time *)
        apply (CI_keep _ _ _ _ HCI Hsc H eq_refl); [|intros id l u _ _ T; discriminate T].
        simpl in H. inversion H; subst. simpl. auto.
    + (* collect spread rewards *)
      pose proof H as H0. simpl in H. destruct (r_collect_spread rs owner ids) as [[rs1 c]|] eqn:E; [|discriminate H]. inversion H; subst rs1 r. clear H.
      unfold r_collect_spread in E. destruct (r_collect_spread_loop_base _ _ _ _ _ _ E) as [SP PL].
      apply (CI_keep _ _ _ _ HCI Hsc H0 eq_refl).
      * intros id l u LV'. unfold livep in *. rewrite SP in LV'. exact LV'.
      * intros id l u LV LV' _. destruct (livep_tks _ _ _ _ RI LV) as [Hlu TK].
        assert (CT : cur_tick rs' = cur_tick rs) by (unfold cur_tick; rewrite PL; reflexivity). rewrite CT.
        apply (srec_collect_spread_loop _ _ _ _ _ _ id l u E); try assumption.
        -- intros q0 Q0. destruct LV as [q [Q [A B]]]. rewrite Q in Q0. inversion Q0; subst. auto.
        -- apply PI_total. exact HPI.
        -- intros r0 R0. pose proof (PI_shares _ _ _ _ _ HPI LV R0). lia.
        -- apply SR. exact LV.
    + (* collect incentives *)
      pose proof H as H0. simpl in H. destruct (r_collect_inc rs owner ids) as [[rs1 [c f]]|] eqn:E; [|discriminate H]. inversion H; subst rs1 r. clear H.
      unfold r_collect_inc in E. destruct (r_collect_inc_loop_base _ _ _ _ _ _ _ E) as [SP _].
      apply (CI_keep _ _ _ _ HCI Hsc H0 eq_refl); [|intros id l u _ _ T; discriminate T].
      intros id l u LV'. unfold livep in *. rewrite SP in LV'. exact LV'.
    + (* create incentive *)
      pose proof H as H0. simpl in H. destruct (r_incentive rs sender denom amount rate dt uu) as [rs1|] eqn:E; [|discriminate H]. inversion H; subst rs1 r. clear H.
      apply (CI_keep _ _ _ _ HCI Hsc H0 eq_refl); [|intros id l u _ _ T; discriminate T].
      unfold r_incentive in E. obind E. inversion E; subst. simpl. auto.
Qed.

Theorem CI_run : forall ops rs, CI rs -> 0 < sc_of rs -> CI (rrun rs ops) /\ sc_of (rrun rs ops) = sc_of rs.
Proof.
  induction ops as [|o r IH]; intros rs HCI Hsc; simpl; [auto|].
  unfold rstep. destruct (rhandler rs o) as [[rs' res]|] eqn:H; simpl.
  - pose proof (CI_handler _ _ _ _ HCI Hsc H) as HCI'. destruct HCI as [HPI _].
    destruct (paid_handler _ _ _ _ HPI Hsc H) as [_ [SC _]].
    destruct (IH rs' HCI' ltac:(rewrite SC; exact Hsc)) as [A B]. split; [exact A|]. rewrite B. exact SC.
  - apply IH; assumption.
Qed.

Lemma CI_init : forall sp spf ssc isc users t, 0 < sp -> 0 <= spf <= 500000000000000000 -> CI (rinit sp spf ssc isc users t).
Proof.
  intros sp spf ssc isc users t Hsp Hspf. split; [apply (PI_init sp spf ssc isc users t Hsp Hspf)|]. split.
  - intro d. split; [destruct d; simpl; lia|]. intros i o E. simpl in E. discriminate E.
  - intros id l u [q [Q _]]. simpl in Q. discriminate Q.
Qed.

(* ---------- CLAIM QUERIES NEVER FAIL, spread rewards: reduced to the LegacyDec range ---------- *)
(* the only hypothesis left is arithmetic: the accumulator value and the claim stay within the LegacyDec limit *)
Definition spread_range_ok (rs : rstate) (p : position) : Prop :=
  forall r, acc_get (rw_spread (r_rw rs)) (ps_id p) = Some r -> forall d,
    3 * sel_G (CS d) (r_rw rs) + P36 <= UL /\
    dsel d (ar_unclaimed r) * P18 + 2 * sel_G (CS d) (r_rw rs) * ps_liq p + P18 <= UL * P18.

Theorem claimable_spread_succeeds : forall rs p, CI rs -> P18 <= sc_of rs -> In p (s_pos (r_base rs)) -> spread_range_ok rs p ->
  exists c, claimable_spread rs (ps_id p) = Some c.
Proof.
  intros rs p [HPI [TB SR]] Hsc HIn RG. pose proof HPI as [[I _] [RM _]].
  pose proof (in_pos_get _ _ (inv_pos_sorted _ I) HIn) as Q.
  destruct (RM p HIn) as [r [R SH]].
  assert (LV : livep (r_base rs) (ps_id p) (ps_lower p) (ps_upper p)) by (exists p; auto).
  pose proof (inv_pos_ok _ I) as F. rewrite Forall_forall in F. destruct (F p HIn) as [_ [LP _]].
  unfold claimable_spread. rewrite Q. cbv beta iota.
  destruct (prepare_claimable_spread_ok (r_rw rs) (p_scaling (s_pool (r_base rs))) (p_tick (s_pool (r_base rs))) (ps_lower p) (ps_upper p) (ps_id p) r R) as [w' [c E]].
  - split; [exact Hsc|]. split; [apply PI_total; exact HPI|]. split.
    + intro d. cbv zeta. split; [apply TBv_read; exact TB|]. split; [apply TBv_read; exact TB|]. rewrite view_G. apply (RG r R d).
    + split; [lia|]. intro d. cbv zeta. rewrite view_G. destruct (SR _ _ _ LV r R d) as [[A B] C]. unfold ins, cur_tick in B.
      split; [split; assumption|]. split; [exact C|]. rewrite SH. apply (RG r R d).
  - rewrite E. eexists; reflexivity.
Qed.

Theorem claimable_spread_succeeds_reachable : forall sp spf ssc isc users t ops p, 0 < sp -> 0 <= spf <= 500000000000000000 -> P18 <= ssc ->
  let rs := rrun (rinit sp spf ssc isc users t) ops in
  In p (s_pos (r_base rs)) -> spread_range_ok rs p -> exists c, claimable_spread rs (ps_id p) = Some c.
Proof.
  intros sp spf ssc isc users t ops p Hsp Hspf Hsc rs HIn RG. pose proof P18_pos as HP.
  assert (S0 : sc_of (rinit sp spf ssc isc users t) = ssc) by reflexivity.
  destruct (CI_run ops _ (CI_init sp spf ssc isc users t Hsp Hspf) ltac:(rewrite S0; lia)) as [HCI SC].
  apply claimable_spread_succeeds; try assumption. fold rs in SC. rewrite SC, S0. exact Hsc.
Qed.
