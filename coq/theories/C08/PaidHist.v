(* C08 / C01: the spread-reward account covers what the positions can claim.  Part 4: the remaining operations, histories, and
   the conclusion: in every reachable state the sum of all claimable spread rewards is at most the balance of the
   spread-reward account (as long as the number of MulDec roundings of the history stays below 2 x scaling factor). *)
From Coq Require Import ZArith List Bool Lia.
Import ListNotations.
From Osmo Require Import Base.DecModel CL.TickMath CL.CLMath CL.CLPool CL.CLSwap CL.CLStep
  CLR.Accum CLR.Rewards CLR.RSwap CLR.RStep C07.Base C07.TickLemmas C07.LP C07.Swap C07.Proofs C03.Steps
  C08.Proj C08.Telescope C08.View C08.Static C08.Stages C08.Ops C08.OpInside C08.SwapTrace C08.Crux
  C08.Claim C08.Conseq C08.Frame C08.Never C08.SwapWf C08.Dom C08.StaticOk C08.Paid C08.PaidOps C08.PaidSwap.
Open Scope Z_scope.

(* ---------- operations that do not touch the spread bookkeeping ---------- *)
Lemma paid_same : forall rs rs', PI rs -> RInv rs' ->
  s_pos (r_base rs') = s_pos (r_base rs) -> s_pool (r_base rs') = s_pool (r_base rs) -> s_next_id (r_base rs') = s_next_id (r_base rs) ->
  b_spread (s_bank (r_base rs')) = b_spread (s_bank (r_base rs)) ->
  rw_spread (r_rw rs') = rw_spread (r_rw rs) -> rw_tt (r_rw rs') = rw_tt (r_rw rs) ->
  PI rs' /\ sc_of rs' = sc_of rs /\ forall d, Phi d rs' = Phi d rs.
Proof.
  intros rs rs' [RI [RM [TOT FR]]] RI' SP PL NX BS SR TT.
  split; [|split].
  - split; [exact RI'|]. split; [|split].
    + intros p Hp. rewrite SP in Hp. rewrite SR. apply RM. exact Hp.
    + rewrite SR, SP. exact TOT.
    + intros j Hj. rewrite SR. apply FR. rewrite <- NX. exact Hj.
  - unfold sc_of. rewrite PL. reflexivity.
  - intro d. unfold Phi, Owed, spread_bal, sc_of, cur_tick. rewrite SP, PL, BS. f_equal. f_equal.
    apply zsum_ext. intros p _. unfold owed, owedr, ins. rewrite SR.
    rewrite (view_same (CS d) (r_rw rs) (r_rw rs') _ dc0 TT); [reflexivity|]. simpl. rewrite SR. reflexivity.
Qed.

Lemma r_collect_inc_loop_spread : forall ids rs owner col forf rs' c, r_collect_inc_loop rs owner ids col forf = Some (rs', c) ->
  rw_spread (r_rw rs') = rw_spread (r_rw rs) /\ b_spread (s_bank (r_base rs')) = b_spread (s_bank (r_base rs)).
Proof.
  induction ids as [|id' rest IH]; intros rs owner col forf rs' c H; simpl in H; [inversion H; auto|].
  destruct (pos_get (s_pos (r_base rs)) id') as [q|]; [|discriminate H].
  destruct (negb (ps_owner q =? owner)); [discriminate H|].
  destruct (collect_incentives _ _ _ _ _ q) as [[[[[b w] x] f] byup]|] eqn:E; [|discriminate H].
  destruct (IH _ _ _ _ _ _ H) as [A B]. simpl in A, B. rewrite A, B.
  split; [eapply collect_incentives_spread; exact E|eapply collect_incentives_bspread; exact E].
Qed.

Lemma send_user_to_inc_bspread : forall b u a0 a1 b', send_user_to_inc b u a0 a1 = Some b' -> b_spread b' = b_spread b.
Proof.
  unfold send_user_to_inc. intros b u a0 a1 b' H. destruct ((a0 <? 0) || (a1 <? 0)); [discriminate H|].
  destruct (user_bal b u) as [[u0 u1]|]; [|discriminate H]. simpl in H.
  destruct ((u0 <? a0) || (u1 <? a1)); [discriminate H|]. destruct (b_inc b) as [p0 p1]. inversion H; subst. reflexivity.
Qed.

(* transfers change owners only *)
Lemma transfer_loop_zsum : forall (f : position -> Z),
  (forall q o, f (mkPos (ps_id q) o (ps_lower q) (ps_upper q) (ps_liq q) (ps_join q)) = f q) ->
  forall ids s sender recipient s', Inv s -> transfer_loop s ids sender recipient = Some s' ->
  zsum f (s_pos s') = zsum f (s_pos s) /\ s_bank s' = s_bank s.
Proof.
  intros f Hf. induction ids as [|id rest IH]; intros s sender recipient s' I H; simpl in H.
  - inversion H; subst. split; reflexivity.
  - destruct (pos_get (s_pos s) id) as [q|] eqn:Q; [|discriminate H]. cbv beta iota in H.
    destruct (negb (ps_owner q =? sender)) eqn:EO; [discriminate H|].
    destruct (negb (has_any_position (set_pos s (pos_remove (s_pos s) id)))) eqn:EH; [discriminate H|].
    set (s2 := set_pos (set_pos s (pos_remove (s_pos s) id))
                 (pos_set (s_pos (set_pos s (pos_remove (s_pos s) id))) (mkPos id recipient (ps_lower q) (ps_upper q) (ps_liq q) (ps_join q)))) in *.
    assert (I2 : Inv s2).
    { assert (T : transfer_loop s [id] sender recipient = Some s2) by (simpl; rewrite Q; cbv beta iota; rewrite EO, EH; reflexivity).
      exact (proj1 (transfer_loop_spec _ _ _ _ _ I T)). }
    destruct (IH s2 sender recipient s' I2 H) as [A B]. rewrite A, B. split; [|reflexivity].
    unfold s2. simpl.
    assert (IDq : ps_id q = id) by (eapply pos_get_id; exact Q).
    rewrite zsum_set_new.
    + rewrite (zsum_remove f _ _ _ Q). rewrite <- IDq. rewrite Hf. lia.
    + simpl. rewrite pos_get_remove by apply (inv_pos_sorted s I). rewrite Z.eqb_refl. reflexivity.
Qed.

Lemma paid_transfer : forall rs sender ids recipient s', PI rs ->
  transfer_positions (r_base rs) sender ids recipient = Some s' ->
  PI (mkRS s' (r_rw rs)) /\ sc_of (mkRS s' (r_rw rs)) = sc_of rs /\ forall d, Phi d (mkRS s' (r_rw rs)) = Phi d rs.
Proof.
  intros rs sender ids recipient s' HPI E. pose proof HPI as [RI [RM [TOT FR]]]. pose proof RI as [I _].
  assert (RI' : RInv (mkRS s' (r_rw rs))).
  { apply (rinv_handler rs (RBase (OTransfer sender ids recipient)) _ []); [simpl; rewrite E; reflexivity|exact RI]. }
  destruct (transfer_positions_spec _ _ _ _ _ I E) as [I' [NX [_ [PL [_ PG]]]]].
  unfold transfer_positions in E. destruct (sender =? recipient); [discriminate E|].
  destruct (negb (z_nodup ids)); [discriminate E|].
  assert (T : transfer_loop (r_base rs) ids sender recipient = Some s') by (destruct ids; [discriminate E|exact E]).
  split; [|split].
  - split; [exact RI'|]. split; [|split].
    + intros p Hp. simpl in Hp. simpl.
      pose proof (in_pos_get _ _ (inv_pos_sorted _ I') Hp) as G. destruct PG as [PG _]. rewrite PG in G.
      destruct (pos_get (s_pos (r_base rs)) (ps_id p)) as [q|] eqn:Q; [|discriminate G].
      pose proof (pos_get_in _ _ _ Q) as Qin. pose proof (pos_get_id _ _ _ Q) as Qid. destruct (RM q Qin) as [r [R S]].
      exists r. rewrite <- Qid. split; [exact R|]. rewrite S.
      destruct (z_mem (ps_id p) ids); inversion G; subst; reflexivity.
    + simpl. destruct (transfer_loop_zsum ps_liq (fun q o => eq_refl) _ _ _ _ _ I T) as [A _]. rewrite A. exact TOT.
    + intros j Hj. simpl in *. apply FR. rewrite <- NX. exact Hj.
  - unfold sc_of. simpl. rewrite PL. reflexivity.
  - intro d. unfold Phi, Owed, spread_bal, sc_of, cur_tick. simpl. rewrite PL.
    destruct (transfer_loop_zsum (owed d (r_rw rs) (p_tick (s_pool (r_base rs)))) (fun q o => eq_refl) _ _ _ _ _ I T) as [A B].
    rewrite A, B. reflexivity.
Qed.

(* ---------- CollectSpreadRewards of one live position ---------- *)
Lemma paid_collect_one : forall rs id q b w x, PI rs -> 0 < sc_of rs ->
  pos_get (s_pos (r_base rs)) id = Some q ->
  collect_spread_rewards (s_bank (r_base rs)) (r_rw rs) (p_scaling (s_pool (r_base rs))) (p_tick (s_pool (r_base rs))) q = Some (b, w, x) ->
  let rs' := mkRS (set_bank (r_base rs) b) w in
  PI rs' /\ sc_of rs' = sc_of rs /\ forall d, Phi d rs' <= Phi d rs + P18.
Proof.
  intros rs id q b w x [RI [RM [TOT FR]]] HSC Q E rs'. pose proof RI as [I [D S]].
  destruct (collect_spread_rewards_bank _ _ _ _ _ _ _ _ E) as [PC BC].
  assert (QI : ps_id q = id) by (eapply pos_get_id; exact Q). assert (QIn : In q (s_pos (r_base rs))) by (eapply pos_get_in; exact Q).
  rewrite QI in PC. set (cur := p_tick (s_pool (r_base rs))) in *. set (P := s_pos (r_base rs)) in *.
  set (lo := ps_lower q) in *. set (hi := ps_upper q) in *. set (O := pos_remove P id).
  assert (OS : ids_sorted P) by apply (inv_pos_sorted _ I).
  assert (OIn : forall p, In p O -> In p P /\ ps_id p <> id) by (intros p Hp; apply (in_pos_remove P id p OS Hp)).
  pose proof (PI_PT rs RI) as HPT. fold P in HPT.
  assert (PTO : PT (r_rw rs) O) by (apply (PT_subset _ P); [exact HPT|intros p Hp; apply OIn; exact Hp]).
  destruct (HPT q QIn) as [Hlu TK]. fold lo hi in Hlu, TK.
  destruct (RM q QIn) as [r [R SH]]. rewrite QI in R.
  assert (LP : forall p, In p P -> 0 < ps_liq p).
  { intros p Hp. pose proof (inv_pos_ok _ I) as F. rewrite Forall_forall in F. destruct (F p Hp) as [_ [X _]]. exact X. }
  assert (SHO : forall p, In p O -> shares_of (r_rw rs) p = ps_liq p) by (intros p Hp; apply recs_match_shares; [exact RM|apply OIn; exact Hp]).
  assert (ZSH : zsum (shares_of (r_rw rs)) O = zsum ps_liq O) by (apply zsum_ext; exact SHO).
  assert (NNO : 0 <= zsum ps_liq O) by (apply zsum_nonneg; intros p Hp; pose proof (LP p (proj1 (OIn p Hp))); lia).
  assert (TO : zsum ps_liq O = zsum ps_liq P - ps_liq q) by (apply zsum_remove; exact Q).
  pose proof (LP q QIn) as LQ.
  destruct (stage_claim _ _ cur _ _ _ _ _ _ O PC R ltac:(lia) Hlu TK (fun p Hp => proj2 (OIn p Hp)) PTO
             ltac:(intros p Hp; rewrite (SHO p Hp); pose proof (LP p (proj1 (OIn p Hp))); lia)
             ltac:(rewrite ZSH, TOT; fold P; lia) HSC) as [CL [PTD [TKD [SHD [TOTD [REC SOD]]]]]].
  assert (NZ : ar_shares r <> 0) by lia. destruct (REC NZ) as [r' [R' SH']].
  assert (RI' : RInv rs').
  { split; [eapply inv_same_but_bank; [apply same_but_bank_set|exact I]|].
    pose proof (prepare_claimable_spread_tt _ _ _ _ _ _ _ _ PC) as TT.
    split; [intro j; simpl; rewrite TT; apply D|unfold tt_sorted; simpl; rewrite TT; exact S]. }
  split; [|split].
  - split; [exact RI'|]. split; [|split].
    + intros p Hp. simpl in Hp. simpl. destruct (Z.eq_dec (ps_id p) id) as [EQ|NE].
      * assert (p = q) by (pose proof (in_pos_get _ _ OS Hp) as G; fold P in Q; rewrite EQ, Q in G; inversion G; reflexivity). subst p.
        exists r'. rewrite QI. split; [exact R'|]. rewrite SH'. exact SH.
      * destruct (RM p Hp) as [rp [Rp Sp]]. exists rp. rewrite (SOD _ NE). auto.
    + simpl. rewrite TOTD. exact TOT.
    + intros j Hj. simpl in *. assert (j <> id).
      { pose proof (inv_pos_ok _ I) as F. rewrite Forall_forall in F. destruct (F q QIn) as [[_ X] _]. lia. }
      rewrite (SOD _ H). apply FR. exact Hj.
  - reflexivity.
  - intro d. destruct (CL d) as [oq [OQ [OQ0 [INEQ C0]]]].
    assert (ON : Owed d rs' = zsum (owed d w cur) O + oq).
    { unfold Owed, cur_tick. simpl. fold P cur. rewrite <- (OQ r' R' NZ).
      pose proof (zsum_remove (owed d w cur) P id q Q) as ZR. fold O in ZR. rewrite ZR.
      unfold owed at 3. rewrite QI, R'. fold lo hi. lia. }
    assert (OLD : Owed d rs = zsum (owed d (r_rw rs) cur) O + owedr d (r_rw rs) cur lo hi r).
    { unfold Owed. fold P. change (cur_tick rs) with cur. pose proof (zsum_remove (owed d (r_rw rs) cur) P id q Q) as ZR. fold O in ZR. rewrite ZR.
      unfold owed at 3. rewrite QI, R. fold lo hi. lia. }
    unfold Phi. rewrite ON, OLD. unfold spread_bal, sc_of, rs', set_bank. cbn [r_base r_rw s_bank s_pool]. rewrite BC.
    set (bal := b_spread (s_bank (r_base rs))) in *.
    assert (BD : pr_sel d (fst bal - fst x, snd bal - snd x) = pr_sel d bal - pr_sel d x) by (destruct d; reflexivity).
    rewrite BD. fold (sc_of rs) in INEQ |- *. 
    set (so := zsum (owed d (r_rw rs) cur) O) in *. set (o4 := zsum (owed d w cur) O) in *. set (o0 := owedr d (r_rw rs) cur lo hi r) in *.
    set (cd := pr_sel d x) in *. set (bd := pr_sel d bal) in *. set (scv := sc_of rs) in *.
    clearbody so o4 o0 cd bd scv. nia.
Qed.

Lemma paid_collect_loop : forall ids rs owner tot rs' c, PI rs -> 0 < sc_of rs ->
  r_collect_spread_loop rs owner ids tot = Some (rs', c) ->
  PI rs' /\ sc_of rs' = sc_of rs /\ forall d, Phi d rs' <= Phi d rs + Z.of_nat (length ids) * P18.
Proof.
  induction ids as [|id rest IH]; intros rs owner tot rs' c HPI HSC H; simpl in H.
  - inversion H; subst. split; [exact HPI|]. split; [reflexivity|]. intro d. simpl. lia.
  - destruct (pos_get (s_pos (r_base rs)) id) as [q|] eqn:Q; [|discriminate H].
    destruct (negb (ps_owner q =? owner)); [discriminate H|].
    destruct (collect_spread_rewards _ _ _ _ q) as [[[b w] x]|] eqn:E; [|discriminate H].
    destruct (paid_collect_one rs id q b w x HPI HSC Q E) as [P1 [S1 F1]]. cbv zeta in P1, S1, F1.
    assert (HSC1 : 0 < sc_of (mkRS (set_bank (r_base rs) b) w)) by (rewrite S1; exact HSC).
    destruct (IH _ _ _ _ _ P1 HSC1 H) as [P2 [S2 F2]].
    split; [exact P2|]. split; [rewrite S2; exact S1|]. intro d. specialize (F1 d). specialize (F2 d).
    change (length (id :: rest)) with (S (length rest)). rewrite Nat2Z.inj_succ. lia.
Qed.

(* ---------- every operation ---------- *)
(* the number of MulDec (half-even) roundings of spread rewards an operation performs *)
Definition pcost (o : rop) : Z :=
  match o with
  | RBase (OWithdraw _ _ _) => 2
  | RBase (OAdd _ _ _ _ _ _) => 2
  | RCollectSpread _ ids => Z.of_nat (length ids)
  | _ => 0
  end.
Lemma pcost_nonneg : forall o, 0 <= pcost o.
Proof. intros [[| | | | | |]| | |]; simpl; lia. Qed.

Theorem paid_handler : forall rs o rs' r, PI rs -> 0 < sc_of rs -> rhandler rs o = Some (rs', r) ->
  PI rs' /\ sc_of rs' = sc_of rs /\ forall d, Phi d rs' <= Phi d rs + pcost o * P18.
Proof.
  intros rs o rs' r HPI HSC H. pose proof HPI as [RI _]. pose proof (rinv_handler _ _ _ _ H RI) as RI'. pose proof P18_pos as HP.
  destruct o as [b|owner ids|owner ids|sender denom amount rate dt uu].
  - destruct b as [owner a0 a1 m0 m1 lo hi|owner id liq|owner id a0 a1 m0 m1|sender ids recipient|sender zfo amt mo|sender zfo amt mi|dt].
    + simpl in H. destruct (r_create rs owner a0 a1 m0 m1 lo hi) as [[rs1 c]|] eqn:E; [|discriminate H]. inversion H; subst.
      destruct (paid_create _ _ _ _ _ _ _ _ _ _ HPI E) as [A [B C]]. split; [exact A|]. split; [exact B|]. intro d. rewrite (C d). simpl. lia.
    + simpl in H. destruct (r_withdraw rs owner id liq) as [[rs1 [x0 x1]]|] eqn:E; [|discriminate H]. inversion H; subst.
      exact (paid_withdraw _ _ _ _ _ _ HPI HSC E).
    + simpl in H. destruct (r_add rs owner id a0 a1 m0 m1) as [[rs1 [[nid y0] y1]]|] eqn:E; [|discriminate H]. inversion H; subst.
      assert (QX : exists q, pos_get (s_pos (r_base rs)) id = Some q).
      { unfold r_add in E. destruct (id <=? 0); [discriminate E|].
        destruct ((a0 <? 0) || (a1 <? 0) || (m0 <? 0) || (m1 <? 0)); [discriminate E|].
        destruct (pos_get (s_pos (r_base rs)) id) as [q|]; [eauto|discriminate E]. }
      destruct QX as [q Q]. destruct (r_add_split _ _ _ _ _ _ _ _ _ _ E Q) as [rs1 [w0 [w1 [m0' [m1' [cr [EW EC]]]]]]].
      destruct (paid_withdraw _ _ _ _ _ _ HPI HSC EW) as [A1 [B1 C1]].
      destruct (paid_create _ _ _ _ _ _ _ _ _ _ A1 EC) as [A2 [B2 C2]].
      split; [exact A2|]. split; [rewrite B2; exact B1|]. intro d. rewrite (C2 d). exact (C1 d).
    + simpl in H. destruct (transfer_positions (r_base rs) sender ids recipient) as [s'|] eqn:E; [|discriminate H]. inversion H; subst.
      destruct (paid_transfer _ _ _ _ _ HPI E) as [A [B C]]. split; [exact A|]. split; [exact B|]. intro d. rewrite (C d). simpl. lia.
    + destruct (paid_swap _ _ _ _ HPI HSC H eq_refl) as [A [B C]]. split; [exact A|]. split; [exact B|]. intro d. specialize (C d). simpl. lia.
    + destruct (paid_swap _ _ _ _ HPI HSC H eq_refl) as [A [B C]]. split; [exact A|]. split; [exact B|]. intro d. specialize (C d). simpl. lia.
    + simpl in H. inversion H; subst.
      destruct (paid_same rs _ HPI RI' eq_refl eq_refl eq_refl eq_refl eq_refl eq_refl) as [A [B C]].
      split; [exact A|]. split; [exact B|]. intro d. rewrite (C d). simpl. lia.
  - simpl in H. destruct (r_collect_spread rs owner ids) as [[rs1 c]|] eqn:E; [|discriminate H]. inversion H; subst.
    exact (paid_collect_loop _ _ _ _ _ _ HPI HSC E).
  - simpl in H. destruct (r_collect_inc rs owner ids) as [[rs1 [c f]]|] eqn:E; [|discriminate H]. inversion H; subst.
    unfold r_collect_inc in E. destruct (r_collect_inc_loop_sbb _ _ _ _ _ _ _ E) as [[PL [_ [PS [NX _]]]] TT].
    destruct (r_collect_inc_loop_spread _ _ _ _ _ _ _ E) as [SR BS].
    destruct (paid_same rs _ HPI RI' PS PL NX BS SR TT) as [A [B C]].
    split; [exact A|]. split; [exact B|]. intro d. rewrite (C d). simpl. lia.
  - simpl in H. destruct (r_incentive rs sender denom amount rate dt uu) as [rs1|] eqn:E; [|discriminate H]. inversion H; subst.
    unfold r_incentive in E.
    repeat match type of E with (if ?b then None else _) = _ => destruct b; [discriminate E|] end.
    destruct (user_bal _ sender) as [ub|]; [|discriminate E]. cbv beta iota in E.
    repeat match type of E with (if ?b then None else _) = _ => destruct b; [discriminate E|] end.
    destruct (update_uptime _ _ _) as [w1|] eqn:EU; [|discriminate E]. cbv beta iota in E.
    destruct (send_user_to_inc _ _ _ _) as [b|] eqn:EB; [|discriminate E]. inversion E; subst rs'. clear E.
    destruct (update_uptime_tt _ _ _ _ EU) as [TT [SR _]].
    destruct (paid_same rs _ HPI RI' eq_refl eq_refl eq_refl (send_user_to_inc_bspread _ _ _ _ _ EB) SR TT) as [A [B C]].
    split; [exact A|]. split; [exact B|]. intro d. rewrite (C d). simpl. lia.
Qed.

Fixpoint hist_pcost (rs : rstate) (ops : list rop) : Z :=
  match ops with
  | [] => 0
  | o :: r => (match rstep rs o with (_, Some _) => pcost o | _ => 0 end) + hist_pcost (fst (rstep rs o)) r
  end.
Lemma hist_pcost_nonneg : forall ops rs, 0 <= hist_pcost rs ops.
Proof.
  induction ops as [|o r IH]; intro rs; simpl; [lia|]. pose proof (IH (fst (rstep rs o))). pose proof (pcost_nonneg o).
  destruct (rstep rs o) as [? [?|]]; lia.
Qed.

Theorem paid_run : forall ops rs, PI rs -> 0 < sc_of rs ->
  PI (rrun rs ops) /\ sc_of (rrun rs ops) = sc_of rs /\ forall d, Phi d (rrun rs ops) <= Phi d rs + hist_pcost rs ops * P18.
Proof.
  induction ops as [|o r IH]; intros rs HPI HSC; simpl.
  - split; [exact HPI|]. split; [reflexivity|]. intro d. lia.
  - unfold rstep. destruct (rhandler rs o) as [[rs' res]|] eqn:H; simpl.
    + destruct (paid_handler _ _ _ _ HPI HSC H) as [A [B C]].
      assert (HSC' : 0 < sc_of rs') by (rewrite B; exact HSC).
      destruct (IH rs' A HSC') as [A2 [B2 C2]]. split; [exact A2|]. split; [rewrite B2; exact B|].
      intro d. specialize (C d). specialize (C2 d). lia.
    + destruct (IH rs HPI HSC) as [A2 [B2 C2]]. split; [exact A2|]. split; [exact B2|]. intro d. specialize (C2 d). lia.
Qed.

Lemma PI_init : forall sp spf ssc isc users t, 0 < sp -> 0 <= spf <= 500000000000000000 ->
  PI (rinit sp spf ssc isc users t) /\ forall d, Phi d (rinit sp spf ssc isc users t) = 0.
Proof.
  intros sp spf ssc isc users t Hsp Hspf. split.
  - split; [apply rinv_init; assumption|]. split; [intros p []|]. split; [reflexivity|]. intros j _. reflexivity.
  - intro d. unfold Phi, Owed, spread_bal. simpl. destruct d; reflexivity.
Qed.

(* ---------- the conclusion ---------- *)
Definition claim_of (d : bool) (rs : rstate) (p : position) : Z :=
  match claimable_spread rs (ps_id p) with Some c => pr_sel d c | None => 0 end.

Lemma claim_le_owed : forall rs p d, PI rs -> 0 < sc_of rs -> In p (s_pos (r_base rs)) -> claimable_spread rs (ps_id p) <> None ->
  2 * (claim_of d rs p * sc_of rs * P18) <= 2 * owed d (r_rw rs) (cur_tick rs) p + P18.
Proof.
  intros rs p d [RI [RM [TOT FR]]] HSC Hp NN. pose proof RI as [I _]. pose proof P18_pos as HP.
  unfold claim_of. destruct (claimable_spread rs (ps_id p)) as [c|] eqn:EC; [|congruence]. clear NN.
  unfold claimable_spread in EC. rewrite (in_pos_get _ _ (inv_pos_sorted _ I) Hp) in EC. cbv beta iota in EC.
  destruct (prepare_claimable_spread _ _ _ _ _ _) as [[w' c']|] eqn:E; [|discriminate EC]. inversion EC; subst c'. clear EC.
  destruct (RM p Hp) as [r [R SH]].
  assert (LP : forall q, In q (s_pos (r_base rs)) -> 0 < ps_liq q).
  { intros q Hq. pose proof (inv_pos_ok _ I) as F. rewrite Forall_forall in F. destruct (F q Hq) as [_ [X _]]. exact X. }
  assert (HT : 0 <= ac_total (rw_spread (r_rw rs))) by (rewrite TOT; apply zsum_nonneg; intros q Hq; pose proof (LP q Hq); lia).
  destruct (prepare_claimable_spread_full _ _ _ _ _ _ _ _ _ E R HT HSC) as [_ [_ [_ [_ HD]]]].
  destruct (HD d) as [G0 [C0 [CSc [per [_ [_ [_ D0]]]]]]]. cbv zeta in *.
  unfold owed. rewrite R. unfold owedr. fold (cur_tick rs). change (p_tick (s_pool (r_base rs))) with (cur_tick rs) in *.
  set (g := ins d (r_rw rs) (cur_tick rs) (ps_lower p) (ps_upper p) - dsel d (ar_snap r)) in *.
  assert (S0 : 0 <= ar_shares r) by (rewrite SH; pose proof (LP p Hp); lia).
  pose proof (d_mul_bounds g (ar_shares r) G0 S0) as MB.
  set (m := d_mul g (ar_shares r)) in *. set (un := dsel d (ar_unclaimed r)) in *. set (gs := g * ar_shares r) in *.
  set (tr := d_truncate_int (un + m)) in *. fold (sc_of rs) in CSc. set (sc := sc_of rs) in *. simpl snd. set (cc := pr_sel d c) in *. clear HD.
  assert (cc * sc * P18 <= tr * P18 * P18) by nia.
  clearbody gs m un tr cc sc. nia.
Qed.

Theorem claims_covered : forall rs d K, PI rs -> 0 < sc_of rs -> Phi d rs <= K * P18 ->
  (forall p, In p (s_pos (r_base rs)) -> claimable_spread rs (ps_id p) <> None) ->
  K + Z.of_nat (length (s_pos (r_base rs))) < 2 * sc_of rs ->
  zsum (claim_of d rs) (s_pos (r_base rs)) <= spread_bal d rs.
Proof.
  intros rs d K HPI HSC HPhi HQ HK. pose proof P18_pos as HP.
  assert (SUM : forall l, (forall p, In p l -> In p (s_pos (r_base rs))) ->
            2 * (zsum (claim_of d rs) l * sc_of rs * P18) <= 2 * zsum (owed d (r_rw rs) (cur_tick rs)) l + Z.of_nat (length l) * P18).
  { induction l as [|a l IH]; intro Hl; [simpl; lia|].
    change (length (a :: l)) with (S (length l)). rewrite Nat2Z.inj_succ. simpl zsum.
    pose proof (claim_le_owed rs a d HPI HSC (Hl a (or_introl eq_refl)) (HQ a (Hl a (or_introl eq_refl)))) as A.
    assert (B : forall p, In p l -> In p (s_pos (r_base rs))) by (intros p X; apply Hl; right; exact X). specialize (IH B). nia. }
  specialize (SUM _ (fun p X => X)). unfold Phi, Owed in HPhi.
  set (C := zsum (claim_of d rs) (s_pos (r_base rs))) in *. set (B := spread_bal d rs) in *.
  set (O := zsum (owed d (r_rw rs) (cur_tick rs)) (s_pos (r_base rs))) in *. set (n := Z.of_nat (length (s_pos (r_base rs)))) in *.
  set (sc := sc_of rs) in *.
  assert (X : 2 * sc * P18 * (C - B) <= (K + n) * P18) by (clearbody C B O n sc; nia).
  assert (Y : 2 * sc * (C - B) <= K + n) by (clearbody C B O n sc; nia).
  clearbody C B O n sc. nia.
Qed.

(* TOTAL_CLAIMABLE_LE_PAID (spread rewards): in every state reachable from a fresh pool, whatever the history, the claimable spread
   rewards of all open positions together are covered by the spread-reward account *)
Theorem total_claimable_le_paid : forall sp spf ssc isc users t ops d, 0 < sp -> 0 <= spf <= 500000000000000000 -> 0 < ssc ->
  let rs0 := rinit sp spf ssc isc users t in
  let rs := rrun rs0 ops in
  (forall p, In p (s_pos (r_base rs)) -> claimable_spread rs (ps_id p) <> None) ->
  hist_pcost rs0 ops + Z.of_nat (length (s_pos (r_base rs))) < 2 * ssc ->
  zsum (claim_of d rs) (s_pos (r_base rs)) <= spread_bal d rs.
Proof.
  intros sp spf ssc isc users t ops d Hsp Hspf Hssc rs0 rs HQ HK.
  destruct (PI_init sp spf ssc isc users t Hsp Hspf) as [P0 F0].
  assert (SC0 : sc_of rs0 = ssc) by reflexivity.
  destruct (paid_run ops rs0 P0 ltac:(rewrite SC0; exact Hssc)) as [A [B C]]. fold rs in A, B, C.
  apply (claims_covered rs d (hist_pcost rs0 ops) A); [rewrite B, SC0; exact Hssc| |exact HQ|rewrite B, SC0; exact HK].
  specialize (C d). pose proof (F0 d) as F0d. fold rs0 in F0d. rewrite F0d in C. lia.
Qed.
