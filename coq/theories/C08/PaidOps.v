(* C08 / C01: the spread-reward account covers what the positions can claim.  Part 2: every operation of the reward-aware
   model preserves the bookkeeping invariant PI and moves the potential
       Phi_d = 2 * (sum of owed_d over open positions) - 2 * (spread account balance_d) * scaling * 10^18
   up by at most (number of MulDec roundings of the operation) * 10^18. *)
From Coq Require Import ZArith List Bool Lia.
Import ListNotations.
From Osmo Require Import Base.DecModel CL.TickMath CL.CLMath CL.CLPool CL.CLSwap CL.CLStep
  CLR.Accum CLR.Rewards CLR.RSwap CLR.RStep C07.Base C07.TickLemmas C07.LP C07.Swap C07.Proofs C03.Steps
  C08.Proj C08.Telescope C08.View C08.Static C08.Stages C08.Ops C08.OpInside C08.SwapTrace C08.Crux
  C08.Claim C08.Conseq C08.Frame C08.Never C08.SwapWf C08.Dom C08.StaticOk C08.Paid.
Open Scope Z_scope.

(* ---------- what the pool-model operations leave alone ---------- *)
Lemma send_user_to_pool_bspread : forall b u a0 a1 b', send_user_to_pool b u a0 a1 = Some b' -> b_spread b' = b_spread b.
Proof.
  unfold send_user_to_pool. intros b u a0 a1 b' H. destruct ((a0 <? 0) || (a1 <? 0)); [discriminate H|].
  destruct (user_bal b u) as [[u0 u1]|]; [|discriminate H]. simpl in H. destruct ((u0 <? a0) || (u1 <? a1)); [discriminate H|].
  destruct (b_pool b). inversion H; subst. reflexivity.
Qed.
Lemma send_pool_to_user_bspread : forall b u a0 a1 b', send_pool_to_user b u a0 a1 = Some b' -> b_spread b' = b_spread b.
Proof.
  unfold send_pool_to_user. intros b u a0 a1 b' H. destruct ((a0 <? 0) || (a1 <? 0)); [discriminate H|].
  destruct (user_bal b u) as [[u0 u1]|]; [|discriminate H]. simpl in H. destruct (b_pool b) as [p0 p1].
  destruct ((p0 <? a0) || (p1 <? a1)); [discriminate H|]. inversion H; subst. reflexivity.
Qed.
Lemma update_position_scaling : forall s owner lo hi d join id s' a fl, update_position s owner lo hi d join id = Some (s', a, fl) ->
  p_scaling (s_pool s') = p_scaling (s_pool s) /\ s_bank s' = s_bank s.
Proof.
  intros s owner lo hi d join id s' [a0 a1] [le ue] H.
  destruct (update_position_spec _ _ _ _ _ _ _ _ _ _ _ _ H) as [_ [_ [_ [_ [P [_ [B _]]]]]]]. split; [|exact B].
  rewrite P. destruct (in_range _ _ _); reflexivity.
Qed.

Lemma create_position_misc : forall s owner a0 a1 m0 m1 lo hi s' c, create_position s owner a0 a1 m0 m1 lo hi = Some (s', c) ->
  b_spread (s_bank s') = b_spread (s_bank s) /\ p_scaling (s_pool s') = p_scaling (s_pool s).
Proof.
  unfold create_position. intros s owner a0 a1 m0 m1 lo hi s' c H.
  destruct (hi <=? lo); [discriminate H|]. destruct ((a0 <? 0) || (a1 <? 0)); [discriminate H|].
  destruct ((a0 =? 0) && (a1 =? 0)); [discriminate H|]. destruct ((m0 <? 0) || (m1 <? 0)); [discriminate H|].
  destruct (negb (validate_tick_range (p_spacing (s_pool s)) lo hi)); [discriminate H|].
  destruct (ticks_to_sqrt_price lo hi) as [[sl su]|]; [|discriminate H]. cbv beta iota in H.
  destruct (round_tick_to_canonical lo hi sl su (p_spacing (s_pool s))) as [[lo' hi']|]; [|discriminate H]. cbv beta iota in H.
  match type of H with (do p1 <- ?X; _) = _ => destruct X as [p1|] eqn:EP; [|discriminate H] end. cbv beta iota in H.
  destruct (get_liquidity_from_amounts (p_sqrt p1) sl su a0 a1) as [liq|]; [|discriminate H]. cbv beta iota in H.
  destruct (liq =? 0); [discriminate H|].
  destruct (update_position _ owner lo' hi' liq (s_time s) (s_next_id s)) as [[[s3 [amt0 amt1]] [le ue]]|] eqn:EU; [|discriminate H]. cbv beta iota in H.
  destruct ((amt0 <? m0) || (amt1 <? m1)); [discriminate H|].
  destruct (send_user_to_pool (s_bank s3) owner amt0 amt1) as [b|] eqn:EB; [|discriminate H]. inversion H; subst. clear H. simpl.
  destruct (update_position_scaling _ _ _ _ _ _ _ _ _ _ EU) as [SC BK]. simpl in SC, BK.
  split; [rewrite (send_user_to_pool_bspread _ _ _ _ _ EB), BK; reflexivity|]. rewrite SC.
  destruct (pool_has_position (s_pool s)); [inversion EP; reflexivity|].
  unfold initialize_initial_position in EP. destruct (negb (0 <? a0) || negb (0 <? a1)); [discriminate EP|].
  destruct (negb (d_fits _)); [discriminate EP|]. destruct (monotonic_sqrt18 _); [|discriminate EP]. simpl in EP.
  destruct (sqrt_price_to_tick_round_down_spacing _ _); [|discriminate EP]. inversion EP; reflexivity.
Qed.

Lemma withdraw_position_misc : forall s owner id liq s' amts, withdraw_position s owner id liq = Some (s', amts) ->
  b_spread (s_bank s') = b_spread (s_bank s) /\ p_scaling (s_pool s') = p_scaling (s_pool s).
Proof.
  unfold withdraw_position. intros s owner id liq s' amts H.
  destruct (negb (0 <? liq)); [discriminate H|]. destruct (pos_get (s_pos s) id) as [q|]; [|discriminate H]. cbv beta iota in H.
  destruct (negb (ps_owner q =? owner)); [discriminate H|]. destruct (ps_liq q <? liq); [discriminate H|].
  destruct (update_position s owner (ps_lower q) (ps_upper q) (- liq) (ps_join q) id) as [[[s1 [amt0 amt1]] [le ue]]|] eqn:EU; [|discriminate H]. cbv beta iota in H.
  destruct (send_pool_to_user (s_bank s1) owner (Z.abs amt0) (Z.abs amt1)) as [b|] eqn:EB; [|discriminate H]. cbv beta iota in H.
  destruct (update_position_scaling _ _ _ _ _ _ _ _ _ _ EU) as [SC BK].
  match type of H with (do s3 <- ?X; _) = _ => destruct X as [s3|] eqn:E3; [|discriminate H] end. cbv beta iota in H.
  inversion H; subst s' amts. clear H. simpl.
  assert (S3 : s_bank s3 = b /\ p_scaling (s_pool s3) = p_scaling (s_pool s1)).
  { destruct (liq =? ps_liq q); [|inversion E3; subst; simpl; auto]. simpl in E3.
    destruct (has_any_position (set_pos (set_bank s1 b) (pos_remove (s_pos s1) id))) eqn:EH; [inversion E3; subst; simpl; auto|].
    unfold uninitialize_pool in E3. rewrite EH in E3. inversion E3; subst. simpl. auto. }
  destruct S3 as [S3 S4]. rewrite S3, S4, SC, (send_pool_to_user_bspread _ _ _ _ _ EB), BK. auto.
Qed.

(* ---------- UpdatePosition, reward side: the three stages before the spread record ---------- *)
Lemma PT_fresh : forall w P i p, PT w P -> In p P -> ~ In (ps_lower p) (fresh w i) /\ ~ In (ps_upper p) (fresh w i).
Proof. intros w P i p HPT Hp. destruct (HPT p Hp) as [_ [_ [Kl Ku]]]. split; apply fresh_not_in; assumption. Qed.

Lemma ins_neutral : forall cur T w w' l u, (forall d, SE (CS d) cur T w w') -> rw_spread w' = rw_spread w -> l < u -> tks w l u ->
  ~ In l T -> ~ In u T -> tks w' l u /\ forall d, ins d w' cur l u = ins d w cur l u.
Proof.
  intros cur T w w' l u HSE SP Hlu TK Tl Tu. split.
  - apply (SE_inside_gen (CS false) cur T w w' l u (HSE false) Hlu TK Tl Tu).
  - intro d. destruct (SE_inside_gen (CS d) cur T w w' l u (HSE d) Hlu TK Tl Tu) as [I _]. unfold ins. rewrite I. simpl. rewrite SP.
    destruct (in_rng l u cur); lia.
Qed.

Lemma upr_neutral : forall w cur pl now lo hi id liq delta w1 w2 w3 O,
  ensure_tick w cur pl now lo = Some w1 -> ensure_tick w1 cur pl now hi = Some w2 ->
  init_or_update_uptime w2 cur pl now lo hi id liq delta = Some w3 -> PT w O ->
  (forall d, zsum (owed d w3 cur) O = zsum (owed d w cur) O) /\ PT w3 O /\ (forall p, shares_of w3 p = shares_of w p) /\
  rw_spread w3 = rw_spread w /\
  (forall l u, l < u -> tks w l u -> tks w3 l u /\ forall d, ins d w3 cur l u = ins d w cur l u).
Proof.
  intros w cur pl now lo hi id liq delta w1 w2 w3 O E1 E2 E3 HPT.
  pose proof (ensure_tick_spread _ _ _ _ _ _ E1) as S1. pose proof (ensure_tick_spread _ _ _ _ _ _ E2) as S2.
  pose proof (init_or_update_uptime_spread _ _ _ _ _ _ _ _ _ _ E3) as S3.
  assert (SE1 : forall d, SE (CS d) cur (fresh w lo) w w1) by (intro d; eapply SE_ensure_tick; exact E1).
  assert (SE2 : forall d, SE (CS d) cur (fresh w1 hi) w1 w2) by (intro d; eapply SE_ensure_tick; exact E2).
  assert (SE3 : forall d, SE (CS d) cur [] w2 w3) by (intro d; apply SE_same_tt; eapply init_or_update_uptime_tt; exact E3).
  destruct (stage_neutral cur _ w w1 O SE1 S1 HPT (fun p Hp => PT_fresh w O lo p HPT Hp)) as [Z1 [P1 H1]].
  destruct (stage_neutral cur _ w1 w2 O SE2 S2 P1 (fun p Hp => PT_fresh w1 O hi p P1 Hp)) as [Z2 [P2 H2]].
  destruct (stage_neutral cur _ w2 w3 O SE3 S3 P2 (fun p Hp => conj (fun X => X) (fun X => X))) as [Z3 [P3 H3]].
  split; [intro d; rewrite Z3, Z2, Z1; reflexivity|]. split; [exact P3|]. split; [intro p; rewrite H3, H2, H1; reflexivity|].
  split; [congruence|].
  intros l u Hlu TK. destruct TK as [St [Kl Ku]].
  destruct (ins_neutral cur _ w w1 l u SE1 S1 Hlu (conj St (conj Kl Ku)) (fresh_not_in _ _ _ Kl) (fresh_not_in _ _ _ Ku)) as [[St1 [Kl1 Ku1]] I1].
  destruct (ins_neutral cur _ w1 w2 l u SE2 S2 Hlu (conj St1 (conj Kl1 Ku1)) (fresh_not_in _ _ _ Kl1) (fresh_not_in _ _ _ Ku1)) as [T2 I2].
  destruct (ins_neutral cur _ w2 w3 l u SE3 S3 Hlu T2 (fun X => X) (fun X => X)) as [T3 I3].
  split; [exact T3|]. intro d. rewrite I3, I2, I1. reflexivity.
Qed.

(* ---------- the bookkeeping invariant and the potential ---------- *)
Definition recs_match (rs : rstate) : Prop :=
  forall p, In p (s_pos (r_base rs)) -> exists r, acc_get (rw_spread (r_rw rs)) (ps_id p) = Some r /\ ar_shares r = ps_liq p.
Definition PI (rs : rstate) : Prop :=
  RInv rs /\ recs_match rs /\ ac_total (rw_spread (r_rw rs)) = zsum ps_liq (s_pos (r_base rs)) /\
  (forall j, s_next_id (r_base rs) <= j -> acc_get (rw_spread (r_rw rs)) j = None).
Definition sc_of (rs : rstate) : Z := p_scaling (s_pool (r_base rs)).
Definition Owed (d : bool) (rs : rstate) : Z := zsum (owed d (r_rw rs) (cur_tick rs)) (s_pos (r_base rs)).
Definition spread_bal (d : bool) (rs : rstate) : Z := pr_sel d (b_spread (s_bank (r_base rs))).
Definition Phi (d : bool) (rs : rstate) : Z := 2 * Owed d rs - 2 * (spread_bal d rs * sc_of rs * P18).

Lemma PI_PT : forall rs, RInv rs -> PT (r_rw rs) (s_pos (r_base rs)).
Proof.
  intros rs RI p Hp.
  assert (HR : has_range (r_base rs) (ps_lower p) (ps_upper p)) by (exists p; auto).
  destruct (has_range_tt_ok (CS false) rs _ _ RI HR) as [T Hlu]. split; [exact Hlu|]. exact T.
Qed.
Lemma recs_match_shares : forall rs p, recs_match rs -> In p (s_pos (r_base rs)) -> shares_of (r_rw rs) p = ps_liq p.
Proof. intros rs p RM Hp. destruct (RM p Hp) as [r [R S]]. unfold shares_of. rewrite R. exact S. Qed.

Lemma in_pos_set : forall l q p, In p (pos_set l q) -> p = q \/ In p l.
Proof.
  induction l as [|a l IH]; intros q p H; simpl in H.
  - destruct H as [H|[]]; auto.
  - destruct (ps_id q <? ps_id a); [destruct H as [H|H]; auto|].
    destruct (ps_id q =? ps_id a).
    + destruct H as [H|H]; [auto|right; right; exact H].
    + destruct H as [H|H]; [right; left; exact H|]. destruct (IH _ _ H); [auto|right; right; assumption].
Qed.

(* ---------- CreatePosition ---------- *)
Lemma paid_create : forall rs owner a0 a1 m0 m1 lo hi rs' c, PI rs ->
  r_create rs owner a0 a1 m0 m1 lo hi = Some (rs', c) ->
  PI rs' /\ sc_of rs' = sc_of rs /\ forall d, Phi d rs' = Phi d rs.
Proof.
  intros rs owner a0 a1 m0 m1 lo hi rs' c [RI [RM [TOT FR]]] H.
  pose proof (rinv_create _ _ _ _ _ _ _ _ _ _ H RI) as RI'. pose proof RI as [I _].
  pose proof (r_create_base _ _ _ _ _ _ _ _ _ _ H) as B.
  destruct (create_position_spec _ _ _ _ _ _ _ _ _ _ I B) as [I' [NX [CI [SP [_ [LP _]]]]]].
  destruct (create_position_misc _ _ _ _ _ _ _ _ _ _ B) as [BS SCL].
  set (P := s_pos (r_base rs)) in *. set (id := cr_id c) in *.
  set (newp := mkPos (s_next_id (r_base rs)) owner (cr_lower c) (cr_upper c) (cr_liq c) (s_time (r_base rs))) in *.
  assert (EW : update_position_rewards (r_rw rs) (cur_tick rs') (p_liq (s_pool (r_base rs))) (s_time (r_base rs))
                 (cr_lower c) (cr_upper c) id (cr_liq c) (cr_liq c) = Some (r_rw rs')).
  { unfold r_create in H. destruct (create_position _ _ _ _ _ _ _ _) as [[s2 c2]|]; [|discriminate H]. simpl in H.
    match type of H with (do w <- ?X; _) = _ => destruct X as [w|] eqn:E; [|discriminate H] end. inversion H; subst. simpl. exact E. }
  set (cur := cur_tick rs') in *.
  unfold update_position_rewards in EW.
  destruct (ensure_tick (r_rw rs) cur _ _ (cr_lower c)) as [w1|] eqn:E1; [|discriminate EW]. simpl in EW.
  destruct (ensure_tick w1 cur _ _ (cr_upper c)) as [w2|] eqn:E2; [|discriminate EW]. simpl in EW.
  destruct (init_or_update_uptime w2 cur _ _ (cr_lower c) (cr_upper c) id (cr_liq c) (cr_liq c)) as [w3|] eqn:E3; [|discriminate EW]. simpl in EW.
  pose proof (PI_PT rs RI) as HPT. fold P in HPT.
  destruct (upr_neutral _ _ _ _ _ _ _ _ _ _ _ _ P E1 E2 E3 HPT) as [Z3 [P3 [SH3 [S3 _]]]].
  (* the new position's ticks are tracked in the final state, hence before the spread stage *)
  assert (NIN : In newp (s_pos (r_base rs'))).
  { rewrite SP. eapply pos_get_in. rewrite pos_get_set. simpl. rewrite Z.eqb_refl. reflexivity. }
  destruct (PI_PT rs' RI' newp NIN) as [Hlu TK']. simpl in Hlu, TK'.
  pose proof (init_or_update_spread_tt _ _ _ _ _ _ _ EW) as TT.
  assert (TK3 : tks w3 (cr_lower c) (cr_upper c)) by (destruct TK' as [A [B0 C]]; unfold tks; rewrite <- TT; auto).
  assert (IDS : forall p, In p P -> ps_id p <> id).
  { intros p Hp. pose proof (inv_pos_ok _ I) as F. rewrite Forall_forall in F. destruct (F p Hp) as [[_ X] _]. rewrite CI. lia. }
  assert (NR : acc_get (rw_spread w3) id = None) by (rewrite S3; apply FR; rewrite CI; lia).
  destruct (stage_new _ cur _ _ _ _ _ P EW NR IDS P3 TK3) as [r' [RA [SH [DP [ZD [P4 [TK4 [SH4 [TOT4 SO4]]]]]]]]].
  assert (PG : pos_get P (ps_id newp) = None) by (simpl; apply (pos_get_fresh _ _ _ (inv_pos_ok _ I))).
  assert (CT : P <> [] -> cur = cur_tick rs).
  { intro NE. unfold cur, cur_tick. apply (create_position_tick _ _ _ _ _ _ _ _ _ _ B). apply (pool_has_position_iff _ I). exact NE. }
  assert (OW : forall d, Owed d rs' = Owed d rs).
  { intro d. unfold Owed. fold cur. rewrite SP. fold P newp. rewrite (zsum_set_new _ _ _ PG).
    destruct (ZD d) as [ZO ZN]. rewrite ZO, Z3.
    assert (ON : owed d (r_rw rs') cur newp = 0) by (unfold owed; simpl; rewrite <- CI; fold id; rewrite RA; exact ZN).
    rewrite ON, Z.add_0_r. destruct P as [|p0 P0] eqn:EP; [reflexivity|]. rewrite CT by discriminate. reflexivity. }
  split; [|split].
  - split; [exact RI'|]. split; [|split].
    + intros p Hp. rewrite SP in Hp. fold P newp in Hp. destruct (in_pos_set _ _ _ Hp) as [EQ|Hin].
      * subst p. simpl. rewrite <- CI. fold id. exists r'. split; [exact RA|exact SH].
      * destruct (RM p Hin) as [r [R S]]. exists r. split; [|exact S].
        rewrite (SO4 _ (IDS p Hin)), S3. exact R.
    + rewrite TOT4, S3, TOT, SP. fold P newp. rewrite (zsum_set_new _ _ _ PG). reflexivity.
    + intros j Hj. rewrite NX in Hj. assert (j <> id) by (rewrite CI; lia).
      rewrite (SO4 j H0), S3. apply FR. lia.
  - unfold sc_of. exact SCL.
  - intro d. unfold Phi, spread_bal, sc_of. rewrite (OW d), BS, SCL. reflexivity.
Qed.

(* ---------- WithdrawPosition ---------- *)
Lemma send_inc_to_user_bspread : forall b u a0 a1 b', send_inc_to_user b u a0 a1 = Some b' -> b_spread b' = b_spread b.
Proof.
  unfold send_inc_to_user. intros b u a0 a1 b' H. destruct ((a0 <? 0) || (a1 <? 0)); [discriminate H|].
  destruct (user_bal b u) as [[u0 u1]|]; [|discriminate H]. simpl in H. destruct (b_inc b) as [p0 p1].
  destruct ((p0 <? a0) || (p1 <? a1)); [discriminate H|]. inversion H; subst. reflexivity.
Qed.
Lemma collect_incentives_bspread : forall b w cur pl now q b' w' col forf byup,
  collect_incentives b w cur pl now q = Some (b', w', col, forf, byup) -> b_spread b' = b_spread b.
Proof.
  unfold collect_incentives. intros b w cur pl now q b' w' col forf byup H.
  destruct (prepare_claim_all_incentives _ _ _ _ _ _ _ _) as [[[[w1 c1] f1] by1]|]; [|discriminate H]. simpl in H.
  destruct ((fst c1 =? 0) && (snd c1 =? 0)).
  - inversion H; subst. reflexivity.
  - destruct (send_inc_to_user b (ps_owner q) (fst c1) (snd c1)) as [b1|] eqn:E; [|discriminate H]. inversion H; subst.
    eapply send_inc_to_user_bspread; exact E.
Qed.
Lemma collect_spread_rewards_bank : forall b w sc cur q b' w' c, collect_spread_rewards b w sc cur q = Some (b', w', c) ->
  prepare_claimable_spread w sc cur (ps_lower q) (ps_upper q) (ps_id q) = Some (w', c) /\
  b_spread b' = (fst (b_spread b) - fst c, snd (b_spread b) - snd c).
Proof.
  unfold collect_spread_rewards. intros b w sc cur q b' w' c H.
  destruct (prepare_claimable_spread w sc cur (ps_lower q) (ps_upper q) (ps_id q)) as [[w1 c1]|]; [|discriminate H]. simpl in H.
  destruct ((fst c1 =? 0) && (snd c1 =? 0)) eqn:EZ.
  - inversion H; subst. split; [reflexivity|]. apply andb_true_iff in EZ. destruct EZ as [A B0]. apply Z.eqb_eq in A, B0.
    rewrite A, B0, !Z.sub_0_r. destruct (b_spread b'); reflexivity.
  - destruct (send_spread_to_user b (ps_owner q) (fst c1) (snd c1)) as [b1|] eqn:E; [|discriminate H]. inversion H; subst.
    split; [reflexivity|]. unfold send_spread_to_user in E. destruct ((fst c <? 0) || (snd c <? 0)); [discriminate E|].
    destruct (user_bal b (ps_owner q)) as [[u0 u1]|]; [|discriminate E]. simpl in E. destruct (b_spread b) as [p0 p1].
    destruct ((p0 <? fst c) || (p1 <? snd c)); [discriminate E|]. inversion E; subst. reflexivity.
Qed.

Lemma PT_subset : forall w P O, PT w P -> (forall p, In p O -> In p P) -> PT w O.
Proof. intros w P O H S p Hp. apply H. apply S. exact Hp. Qed.
Lemma stage_same : forall cur w w' P, rw_tt w' = rw_tt w -> rw_spread w' = rw_spread w -> PT w P ->
  (forall d, zsum (owed d w' cur) P = zsum (owed d w cur) P) /\ PT w' P /\ (forall p, shares_of w' p = shares_of w p) /\
  (forall l u, l < u -> tks w l u -> tks w' l u /\ forall d, ins d w' cur l u = ins d w cur l u).
Proof.
  intros cur w w' P TT SP HPT.
  assert (SEd : forall d, SE (CS d) cur [] w w') by (intro d; apply SE_same_tt; exact TT).
  destruct (stage_neutral cur [] w w' P SEd SP HPT (fun p Hp => conj (fun X => X) (fun X => X))) as [A [B0 C]].
  split; [exact A|]. split; [exact B0|]. split; [exact C|].
  intros l u Hlu TK. apply (ins_neutral cur [] w w' l u SEd SP Hlu TK); simpl; tauto.
Qed.
Lemma owedr_ins : forall d w w' cur l u r, ins d w' cur l u = ins d w cur l u -> owedr d w' cur l u r = owedr d w cur l u r.
Proof. intros. unfold owedr. rewrite H. reflexivity. Qed.

Lemma zsum_liq_remove : forall l id q, pos_get l id = Some q -> zsum ps_liq (pos_remove l id) = zsum ps_liq l - ps_liq q.
Proof. intros. apply zsum_remove. assumption. Qed.

Lemma paid_withdraw : forall rs owner id liq rs' amts, PI rs -> 0 < sc_of rs ->
  r_withdraw rs owner id liq = Some (rs', amts) ->
  PI rs' /\ sc_of rs' = sc_of rs /\ forall d, Phi d rs' <= Phi d rs + 2 * P18.
Proof.
  intros rs owner id liq rs' amts [RI [RM [TOT FR]]] HSC H.
  pose proof (rinv_withdraw _ _ _ _ _ _ H RI) as RI'. pose proof RI as [I _]. pose proof RI' as [I' _].
  pose proof (r_withdraw_other _ _ _ _ _ _ H) as SOW.
  unfold r_withdraw in H.
  destruct (withdraw_position (r_base rs) owner id liq) as [[s amts']|] eqn:EB; [|discriminate H]. simpl in H.
  destruct (pos_get (s_pos (r_base rs)) id) as [q|] eqn:Q; [|discriminate H]. simpl in H.
  assert (QI : ps_id q = id) by (eapply pos_get_id; exact Q).
  assert (QIn : In q (s_pos (r_base rs))) by (eapply pos_get_in; exact Q).
  set (cur := p_tick (s_pool (r_base rs))) in *. set (pl := p_liq (s_pool (r_base rs))) in *. set (now := s_time (r_base rs)) in *.
  set (lo := ps_lower q) in *. set (hi := ps_upper q) in *. set (P := s_pos (r_base rs)) in *.
  destruct (collect_incentives (s_bank s) (r_rw rs) cur pl now q) as [[[[[b1 w1] col] forf] byup]|] eqn:E1; [|discriminate H]. simpl in H.
  destruct (update_position_rewards w1 cur pl now lo hi id (ps_liq q - liq) (- liq)) as [w2|] eqn:E2; [|discriminate H]. simpl in H.
  match type of H with (do bw <- ?X; _) = _ => destruct X as [[b2 w3]|] eqn:E3; [|discriminate H] end. simpl in H.
  match type of H with (do bw2 <- ?X; _) = _ => destruct X as [[b3 w4]|] eqn:E4; [|discriminate H] end. simpl in H.
  inversion H; subst rs' amts. clear H. simpl in RI', I', SOW.
  destruct amts' as [x0 x1].
  destruct (withdraw_position_spec _ _ _ _ _ _ _ I EB) as [_ [NX [_ [_ [q' [Q' [_ [LQ SP]]]]]]]].
  fold P in Q', SP. rewrite Q in Q'. inversion Q'; subst q'. clear Q'.
  destruct (withdraw_position_misc _ _ _ _ _ _ EB) as [BS SCL].
  (* the others *)
  set (O := pos_remove P id).
  assert (OS : ids_sorted P) by apply (inv_pos_sorted _ I).
  assert (OIn : forall p, In p O -> In p P /\ ps_id p <> id) by (intros p Hp; apply (in_pos_remove P id p OS Hp)).
  pose proof (PI_PT rs RI) as HPT. fold P in HPT.
  assert (PTO : PT (r_rw rs) O) by (apply (PT_subset _ P); [exact HPT|intros p Hp; apply OIn; exact Hp]).
  destruct (HPT q QIn) as [Hlu TK]. fold lo hi in Hlu, TK.
  destruct (RM q QIn) as [r [R SH]]. rewrite QI in R.
  (* A: collectIncentives *)
  pose proof (collect_incentives_tt _ _ _ _ _ _ _ _ _ _ _ E1) as TT1. pose proof (collect_incentives_spread _ _ _ _ _ _ _ _ _ _ _ E1) as SP1.
  destruct (stage_same cur _ _ O TT1 SP1 PTO) as [ZA [PTA [SHA INSA]]].
  destruct (INSA lo hi Hlu TK) as [TKA IA].
  (* B: UpdatePosition with the negative delta *)
  unfold update_position_rewards in E2.
  destruct (ensure_tick w1 cur pl now lo) as [w1a|] eqn:E2a; [|discriminate E2]. simpl in E2.
  destruct (ensure_tick w1a cur pl now hi) as [w1b|] eqn:E2b; [|discriminate E2]. simpl in E2.
  destruct (init_or_update_uptime w1b cur pl now lo hi id (ps_liq q - liq) (- liq)) as [w1c|] eqn:E2c; [|discriminate E2]. simpl in E2.
  destruct (upr_neutral _ _ _ _ _ _ _ _ _ _ _ _ O E2a E2b E2c PTA) as [ZB [PTB [SHB [SPB INSB]]]].
  destruct (INSB lo hi Hlu TKA) as [TKB IB].
  assert (RB : acc_get (rw_spread w1c) id = Some r) by (rewrite SPB, SP1; exact R).
  assert (SH0 : 0 <= ar_shares r).
  { rewrite SH. pose proof (inv_pos_ok _ I) as F. rewrite Forall_forall in F. destruct (F q QIn) as [_ [X _]]. lia. }
  destruct (stage_update _ cur _ _ _ _ _ _ O E2 RB SH0 Hlu TKB (fun p Hp => proj2 (OIn p Hp)) PTB)
    as [r2 [R2 [SH2 [ZU [PTU [TKU [SHU [TOTU SOU]]]]]]]].
  (* C: forfeited incentives *)
  assert (C3 : rw_tt w3 = rw_tt w2 /\ rw_spread w3 = rw_spread w2 /\ b_spread b2 = b_spread b1).
  { destruct (p_liq (s_pool s) <? P18).
    - destruct (send_inc_to_user b1 owner (fst forf) (snd forf)) as [bb|] eqn:E; [|discriminate E3]. inversion E3; subst.
      split; [reflexivity|]. split; [reflexivity|]. eapply send_inc_to_user_bspread; exact E.
    - destruct (redeposit_forfeited w2 byup (p_liq (s_pool s))) as [ww|] eqn:E; [|discriminate E3]. inversion E3; subst.
      split; [eapply redeposit_forfeited_tt; exact E|]. split; [eapply redeposit_forfeited_spread; exact E|reflexivity]. }
  destruct C3 as [TT3 [SP3 BS3]].
  destruct (stage_same cur _ _ O TT3 SP3 PTU) as [ZC [PTC [SHC INSC]]].
  destruct (INSC lo hi Hlu TKU) as [TKC IC].
  assert (R3 : acc_get (rw_spread w3) id = Some r2) by (rewrite SP3; exact R2).
  (* totals *)
  assert (TOT3 : ac_total (rw_spread w3) = zsum ps_liq O + ar_shares r2).
  { rewrite SP3, TOTU, SPB, SP1, TOT. fold P. unfold O. rewrite (zsum_liq_remove _ _ _ Q), SH2, SH. lia. }
  assert (SHO3 : forall p, In p O -> shares_of w3 p = ps_liq p).
  { intros p Hp. rewrite SHC, (SHU p Hp), SHB, SHA. apply recs_match_shares; [exact RM|apply OIn; exact Hp]. }
  assert (LP : forall p, In p P -> 0 < ps_liq p).
  { intros p Hp. pose proof (inv_pos_ok _ I) as F. rewrite Forall_forall in F. destruct (F p Hp) as [_ [X _]]. exact X. }
  (* the bank so far *)
  assert (BS1 : b_spread b1 = b_spread (s_bank (r_base rs))) by (rewrite (collect_incentives_bspread _ _ _ _ _ _ _ _ _ _ _ E1); exact BS).
  (* old sums split *)
  assert (OLD : forall d, Owed d rs = zsum (owed d (r_rw rs) cur) O + owedr d (r_rw rs) cur lo hi r).
  { intro d. unfold Owed. fold P. change (cur_tick rs) with cur. unfold O. rewrite (zsum_remove _ _ _ _ Q).
    unfold owed at 3. rewrite QI, R. fold lo hi. lia. }
  (* the record's value just before the spread stage equals its value at the start *)
  assert (OR : forall d, owedr d w1c cur lo hi r = owedr d (r_rw rs) cur lo hi r).
  { intro d. apply owedr_ins. rewrite IB, IA. reflexivity. }
  (* E: RemoveTickInfo of the ticks that became empty: the stored ticks of the new state are kept *)
  set (t2 := match tick_get (s_ticks s) hi with
             | None => tt_remove (match tick_get (s_ticks s) lo with None => tt_remove (rw_tt w4) lo | Some _ => rw_tt w4 end) hi
             | Some _ => match tick_get (s_ticks s) lo with None => tt_remove (rw_tt w4) lo | Some _ => rw_tt w4 end end) in *.
  set (w5 := set_tt w4 t2) in *.
  assert (SE5 : forall d, SE (CS d) cur (removed s lo ++ removed s hi) w4 w5).
  { intro d. unfold w5, t2, removed. destruct (tick_get (s_ticks s) lo); destruct (tick_get (s_ticks s) hi); simpl.
    - replace (set_tt w4 (rw_tt w4)) with w4 by (destruct w4; reflexivity). apply SE_refl.
    - apply SE_remove.
    - apply SE_remove.
    - pose proof (SE_trans (CS d) cur _ _ _ _ _ (SE_remove (CS d) cur w4 lo) (SE_remove (CS d) cur (set_tt w4 (tt_remove (rw_tt w4) lo)) hi)) as X.
      simpl in X. exact X. }
  assert (SP5 : rw_spread w5 = rw_spread w4) by reflexivity.
  assert (KEEP : forall p, In p (s_pos s) -> ~ In (ps_lower p) (removed s lo ++ removed s hi) /\ ~ In (ps_upper p) (removed s lo ++ removed s hi)).
  { intros p Hp. assert (HR : has_range s (ps_lower p) (ps_upper p)) by (exists p; auto).
    assert (Is : Inv s) by (eapply inv_same_but_bank; [|exact I']; repeat split).
    destruct (has_range_stored _ _ _ Is HR) as [A [B0 _]].
    split; intro X; apply in_app_or in X; destruct X as [X|X]; (eapply removed_stored; [|exact X]; assumption). }
  assert (Ss : ids_sorted (s_pos s)) by apply (inv_pos_sorted _ I').
  assert (CT : s_pos s <> [] -> p_tick (s_pool s) = cur) by (intro NE; apply (withdraw_position_tick _ _ _ _ _ _ EB NE)).
  assert (NXI : id < s_next_id (r_base rs)).
  { pose proof (inv_pos_ok _ I) as F. rewrite Forall_forall in F. destruct (F q QIn) as [[_ X] _]. lia. }
  assert (FR' : forall j, s_next_id s <= j -> acc_get (rw_spread w5) j = None).
  { intros j Hj. rewrite NX in Hj. assert (j <> id) by lia. change (rw_spread w5) with (rw_spread w4).
    rewrite (SOW j H). apply FR. exact Hj. }
  destruct (liq =? ps_liq q) eqn:EF.
  - (* full withdrawal: the spread rewards are collected and the record goes away *)
    apply Z.eqb_eq in EF.
    destruct (collect_spread_rewards b2 w3 (p_scaling (s_pool (r_base rs))) cur q) as [[[b4 w4'] c]|] eqn:E5; [|discriminate E4].
    inversion E4; subst b4 w4'. clear E4. destruct (collect_spread_rewards_bank _ _ _ _ _ _ _ _ E5) as [PC BC].
    fold lo hi in PC. rewrite QI in PC.
    assert (SH20 : ar_shares r2 = 0) by (rewrite SH2, SH; lia).
    assert (ZSH : zsum (shares_of w3) O = zsum ps_liq O) by (apply zsum_ext; exact SHO3).
    assert (NNO : 0 <= zsum ps_liq O) by (apply zsum_nonneg; intros p Hp; pose proof (LP p (proj1 (OIn p Hp))); lia).
    destruct (stage_claim _ _ cur _ _ _ _ _ _ O PC R3 ltac:(lia) Hlu TKC (fun p Hp => proj2 (OIn p Hp)) PTC
               ltac:(intros p Hp; rewrite (SHO3 p Hp); pose proof (LP p (proj1 (OIn p Hp))); lia)
               ltac:(rewrite ZSH, TOT3, SH20; lia) HSC) as [CL [PTD [TKD [SHD [TOTD [_ SOD]]]]]].
    assert (SPS : s_pos s = O) by exact SP.
    destruct (stage_neutral cur _ w4 w5 O SE5 SP5 PTD ltac:(intros p Hp; apply KEEP; rewrite SPS; exact Hp)) as [ZE [PTE SHE]].
    split; [|split].
    + split; [exact RI'|]. split; [|split; [|exact FR']].
      * intros p Hp. simpl in Hp. rewrite SPS in Hp. destruct (OIn p Hp) as [HpP Hne]. destruct (RM p HpP) as [rp [Rp Sp]].
        exists rp. split; [|exact Sp]. simpl. rewrite (SOW _ Hne). exact Rp.
      * simpl. change (rw_spread w5) with (rw_spread w4). rewrite TOTD, TOT3, SH20, SPS. lia.
    + unfold sc_of. simpl. exact SCL.
    + intro d. destruct (CL d) as [oq [_ [OQ0 [INEQ C0]]]].
      assert (ON : Owed d (mkRS (set_bank s b3) w5) = zsum (owed d w4 cur) O).
      { unfold Owed, cur_tick. simpl. rewrite SPS. destruct O as [|p0 O0] eqn:EO; [reflexivity|].
        rewrite CT by (rewrite SPS; discriminate). apply ZE. }
      unfold Phi. rewrite ON, (OLD d). unfold spread_bal, sc_of, set_bank. cbn [r_base r_rw s_bank s_pool]. rewrite SCL, BC, BS3, BS1.
      destruct (ZU d) as [ZU1 [ZU2 _]]. rewrite (ZC d), ZU1, (ZB d), (ZA d) in INEQ.
      rewrite (owedr_ins d w2 w3 cur lo hi r2 (IC d)) in INEQ. rewrite (OR d) in ZU2.
      set (so := zsum (owed d (r_rw rs) cur) O) in *. set (o4 := zsum (owed d w4 cur) O) in *.
      set (scv := p_scaling (s_pool (r_base rs))) in *. set (bal := b_spread (s_bank (r_base rs))) in *.
      assert (BD : pr_sel d (fst bal - fst c, snd bal - snd c) = pr_sel d bal - pr_sel d c) by (destruct d; reflexivity).
      rewrite BD. set (cd := pr_sel d c) in *. set (bd := pr_sel d bal) in *.
      set (o2 := owedr d w2 cur lo hi r2) in *. set (o0 := owedr d (r_rw rs) cur lo hi r) in *.
      clearbody so o4 o2 o0 cd bd scv. nia.
  - (* partial withdrawal *)
    apply Z.eqb_neq in EF. inversion E4; subst b3 w4. clear E4.
    set (q2 := mkPos id owner lo hi (ps_liq q - liq) (ps_join q)) in *.
    assert (SPS : s_pos s = pos_set P q2) by exact SP.
    assert (Q2In : In q2 (s_pos s)) by (rewrite SPS; eapply pos_get_in; rewrite pos_get_set; simpl; rewrite Z.eqb_refl; reflexivity).
    assert (OSub : forall p, In p O -> In p (s_pos s)).
    { intros p Hp. destruct (OIn p Hp) as [A B0]. rewrite SPS. apply (pos_get_in _ (ps_id p)). rewrite pos_get_set. simpl.
      apply Z.eqb_neq in B0. rewrite B0. apply in_pos_get; assumption. }
    destruct (stage_neutral cur _ w3 w5 O SE5 SP5 PTC ltac:(intros p Hp; apply KEEP; apply OSub; exact Hp)) as [ZE [PTE SHE]].
    destruct (KEEP q2 Q2In) as [K1 K2]. simpl in K1, K2.
    destruct (ins_neutral cur _ w3 w5 lo hi SE5 SP5 Hlu TKC K1 K2) as [_ IE].
    assert (NE : s_pos s <> []) by (intro X; rewrite X in Q2In; destruct Q2In).
    split; [|split].
    + split; [exact RI'|]. split; [|split; [|exact FR']].
      * intros p Hp. simpl in Hp. pose proof (in_pos_get _ _ Ss Hp) as G. rewrite SPS, pos_get_set in G. simpl in G.
        destruct (ps_id p =? id) eqn:EP.
        -- inversion G; subst p. simpl. exists r2. split; [exact R3|]. rewrite SH2, SH. lia.
        -- apply Z.eqb_neq in EP. pose proof (pos_get_in _ _ _ G) as HpP. destruct (RM p HpP) as [rp [Rp Sp]].
           exists rp. split; [|exact Sp]. simpl. rewrite (SOW _ EP). exact Rp.
      * simpl. change (rw_spread w5) with (rw_spread w3). rewrite TOT3, SPS, (zsum_set_upd _ P q2 q OS Q), SH2, SH.
        unfold O. rewrite (zsum_liq_remove _ _ _ Q). simpl. lia.
    + unfold sc_of. simpl. exact SCL.
    + intro d.
      assert (ON : Owed d (mkRS (set_bank s b2) w5) = zsum (owed d w3 cur) O + owedr d w3 cur lo hi r2).
      { unfold Owed, cur_tick. simpl. rewrite (CT NE), SPS, (zsum_set_upd _ P q2 q OS Q).
        assert (X : zsum (owed d w5 cur) P - owed d w5 cur q = zsum (owed d w5 cur) O) by (unfold O; rewrite (zsum_remove _ _ _ _ Q); lia).
        rewrite X, (ZE d). f_equal. unfold owed. simpl. change (rw_spread w5) with (rw_spread w3). rewrite R3. apply owedr_ins. apply IE. }
      unfold Phi. rewrite ON, (OLD d). unfold spread_bal, sc_of, set_bank. cbn [r_base r_rw s_bank s_pool]. rewrite SCL, BS3, BS1.
      destruct (ZU d) as [ZU1 [ZU2 _]]. rewrite (ZC d), ZU1, (ZB d), (ZA d).
      rewrite (owedr_ins d w2 w3 cur lo hi r2 (IC d)). rewrite (OR d) in ZU2. pose proof P18_pos. lia.
Qed.
