(* C08 / C01: the spread-reward account covers what the positions can claim.  Part 1: the exact amount owed to a position
   (in units of 10^-36 scaled tokens), sums over the position list, and what the two record-changing stages
   (initOrUpdatePositionSpreadRewardAccumulator, prepareClaimableSpreadRewards) do to it.

   owed(p) = unclaimed * 10^18 + (growth inside now - snapshot) * shares      (raw Dec x raw Dec)
   The code computes unclaimed + MulDec(growth inside - snapshot, shares) with MulDec rounding half-even; each such rounding
   (one per share change, one per claim) moves at most half a unit of the 18th decimal, the "budget" of the invariant. *)
From Coq Require Import ZArith List Bool Lia.
Import ListNotations.
From Osmo Require Import Base.DecModel CL.TickMath CL.CLMath CL.CLPool CL.CLSwap CL.CLStep
  CLR.Accum CLR.Rewards CLR.RSwap CLR.RStep C07.Base C07.LP C03.Steps
  C08.Proj C08.Telescope C08.View C08.Static C08.Stages C08.Ops C08.OpInside C08.SwapTrace C08.Crux
  C08.Claim C08.Conseq C08.Frame C08.Never.
Open Scope Z_scope.

Definition ins (d : bool) (w : rwd) (cur l u : Z) : Z := a_inside (view (CS d) w cur dc0) l u.
Definition owedr (d : bool) (w : rwd) (cur l u : Z) (r : arec) : Z :=
  dsel d (ar_unclaimed r) * P18 + (ins d w cur l u - dsel d (ar_snap r)) * ar_shares r.
Definition owed (d : bool) (w : rwd) (cur : Z) (p : position) : Z :=
  match acc_get (rw_spread w) (ps_id p) with Some r => owedr d w cur (ps_lower p) (ps_upper p) r | None => 0 end.
Definition shares_of (w : rwd) (p : position) : Z :=
  match acc_get (rw_spread w) (ps_id p) with Some r => ar_shares r | None => 0 end.

(* ---------- integer sums over the position list ---------- *)
Fixpoint zsum (f : position -> Z) (l : list position) : Z := match l with [] => 0 | p :: r => f p + zsum f r end.
Lemma zsum_set_new : forall f l p, pos_get l (ps_id p) = None -> zsum f (pos_set l p) = zsum f l + f p.
Proof.
  induction l as [|q l IH]; intros p H; simpl in *; [lia|].
  destruct (ps_id q =? ps_id p) eqn:E; [discriminate H|].
  destruct (ps_id p <? ps_id q); simpl; [lia|].
  assert (E' : (ps_id p =? ps_id q) = false) by (rewrite Z.eqb_sym; exact E). rewrite E'. simpl. rewrite (IH p H). lia.
Qed.
Lemma zsum_remove : forall f l id q, pos_get l id = Some q -> zsum f (pos_remove l id) = zsum f l - f q.
Proof.
  induction l as [|a l IH]; intros id q H; simpl in *; [discriminate H|].
  destruct (ps_id a =? id); [inversion H; subst; lia|]. simpl. rewrite (IH id q H). lia.
Qed.
Lemma zsum_ext : forall f g l, (forall p, In p l -> f p = g p) -> zsum f l = zsum g l.
Proof. induction l as [|a l IH]; intros H; simpl; [reflexivity|]. rewrite (H a (or_introl eq_refl)), IH; [reflexivity|]. intros p Hp. apply H. right. exact Hp. Qed.
Lemma zsum_le : forall f g l, (forall p, In p l -> f p <= g p) -> zsum f l <= zsum g l.
Proof.
  induction l as [|a l IH]; intros H; simpl; [lia|]. pose proof (H a (or_introl eq_refl)).
  assert (zsum f l <= zsum g l) by (apply IH; intros p Hp; apply H; right; exact Hp). lia.
Qed.
Lemma zsum_plus : forall f g l, zsum (fun p => f p + g p) l = zsum f l + zsum g l.
Proof. induction l as [|a l IH]; simpl; [reflexivity|]. rewrite IH. lia. Qed.
Lemma zsum_scale : forall c f l, zsum (fun p => c * f p) l = c * zsum f l.
Proof. induction l as [|a l IH]; simpl; [lia|]. rewrite IH. lia. Qed.
Lemma zsum_nonneg : forall f l, (forall p, In p l -> 0 <= f p) -> 0 <= zsum f l.
Proof.
  induction l as [|a l IH]; intros H; simpl; [lia|]. pose proof (H a (or_introl eq_refl)).
  assert (0 <= zsum f l) by (apply IH; intros p Hp; apply H; right; exact Hp). lia.
Qed.
Lemma in_pos_remove : forall l id p, ids_sorted l -> In p (pos_remove l id) -> In p l /\ ps_id p <> id.
Proof.
  intros l id p S H. pose proof (ids_sorted_remove l id S) as S'.
  pose proof (in_pos_get _ _ S' H) as G. rewrite pos_get_remove in G by exact S.
  destruct (ps_id p =? id) eqn:E; [discriminate G|]. apply Z.eqb_neq in E. split; [eapply pos_get_in; exact G|exact E].
Qed.
Lemma zsum_set_upd : forall f l p q, ids_sorted l -> pos_get l (ps_id p) = Some q -> zsum f (pos_set l p) = zsum f l - f q + f p.
Proof.
  intros f l p q S H.
  assert (G : pos_get (pos_set l p) (ps_id p) = Some p) by (rewrite pos_get_set, Z.eqb_refl; reflexivity).
  pose proof (zsum_remove f _ _ _ G) as R1. rewrite (pos_remove_set l p q S H) in R1.
  rewrite (zsum_remove f _ _ _ H) in R1. lia.
Qed.

(* ---------- frame: a stage that leaves the records of the listed positions alone ---------- *)
Lemma owed_frame : forall d w w' cur p delta,
  acc_get (rw_spread w') (ps_id p) = acc_get (rw_spread w) (ps_id p) ->
  ins d w' cur (ps_lower p) (ps_upper p) = ins d w cur (ps_lower p) (ps_upper p) + delta ->
  owed d w' cur p = owed d w cur p + delta * shares_of w p.
Proof.
  intros d w w' cur p delta R I. unfold owed, shares_of, owedr. rewrite R, I.
  destruct (acc_get (rw_spread w) (ps_id p)); lia.
Qed.

(* ---------- initOrUpdatePositionSpreadRewardAccumulator ---------- *)
Lemma init_or_update_spread_new : forall w cur l u id delta w',
  init_or_update_spread w cur l u id delta = Some w' -> acc_get (rw_spread w) id = None ->
  exists insv, acc_get (rw_spread w') id = Some (mkARec delta insv dc0) /\ (forall d, dsel d insv = ins d w cur l u) /\
    rw_tt w' = rw_tt w /\ ac_value (rw_spread w') = ac_value (rw_spread w) /\
    ac_total (rw_spread w') = ac_total (rw_spread w) + delta /\ 0 < delta.
Proof.
  unfold init_or_update_spread. intros w cur l u id delta w' H R.
  destruct (spread_growth_outside w cur l u) as [out|] eqn:EO; [|discriminate H]. simpl in H.
  destruct (dc_safe_sub (ac_value (rw_spread w)) out) as [insv|] eqn:EI; [|discriminate H]. simpl in H.
  unfold acc_has in H. rewrite R in H. simpl in H.
  destruct (0 <? delta) eqn:ED; [|discriminate H]. simpl in H. apply Z.ltb_lt in ED.
  unfold acc_new_position in H. destruct (dchk (ac_total (rw_spread w) + delta)) as [t|] eqn:ET; [|discriminate H]. simpl in H.
  inversion H; subst. simpl. apply dchk_some in ET. exists insv. unfold acc_get. simpl. rewrite rec_get_set, Z.eqb_refl.
  repeat split; try assumption; try reflexivity.
  intro d. unfold ins. eapply spread_growth_inside_view; eassumption.
Qed.

Lemma init_or_update_spread_gen : forall w cur l u id delta w' r,
  init_or_update_spread w cur l u id delta = Some w' -> acc_get (rw_spread w) id = Some r ->
  exists insv un, acc_get (rw_spread w') id = Some (mkARec (ar_shares r + delta) insv un) /\
    (forall d, dsel d insv = ins d w cur l u) /\
    (forall d, 0 <= ins d w cur l u - dsel d (ar_snap r) /\
               dsel d un = dsel d (ar_unclaimed r) + d_mul (ins d w cur l u - dsel d (ar_snap r)) (ar_shares r)) /\
    rw_tt w' = rw_tt w /\ ac_value (rw_spread w') = ac_value (rw_spread w) /\
    ac_total (rw_spread w') = ac_total (rw_spread w) + delta.
Proof.
  unfold init_or_update_spread. intros w cur l u id delta w' r H R.
  destruct (spread_growth_outside w cur l u) as [out|] eqn:EO; [|discriminate H]. simpl in H.
  destruct (dc_safe_sub (ac_value (rw_spread w)) out) as [insv|] eqn:EI; [|discriminate H]. simpl in H.
  assert (HI : forall d, dsel d insv = ins d w cur l u) by (intro d; unfold ins; eapply spread_growth_inside_view; eassumption).
  unfold acc_has in H. rewrite R in H. simpl in H.
  unfold to_init_plus_outside in H. rewrite R in H. simpl in H.
  destruct (dc_add (ar_snap r) out) as [s1|] eqn:ES; [|discriminate H]. simpl in H.
  unfold acc_set_position in H. rewrite R in H. simpl in H.
  set (a1 := acc_with_recs (rw_spread w) (rec_set (ac_recs (rw_spread w)) id (mkARec (ar_shares r) s1 (ar_unclaimed r)))) in *.
  assert (G1 : acc_get a1 id = Some (mkARec (ar_shares r) s1 (ar_unclaimed r))).
  { unfold acc_get, a1. simpl. rewrite rec_get_set, Z.eqb_refl. reflexivity. }
  (* the total rewards of the record with the shifted snapshot *)
  assert (TR : forall un, acc_total_rewards a1 (mkARec (ar_shares r) s1 (ar_unclaimed r)) = Some un ->
               forall d, 0 <= ins d w cur l u - dsel d (ar_snap r) /\
                         dsel d un = dsel d (ar_unclaimed r) + d_mul (ins d w cur l u - dsel d (ar_snap r)) (ar_shares r)).
  { intros un HT d. unfold acc_total_rewards in HT. simpl in HT.
    destruct (dc_sub (ac_value (rw_spread w)) s1) as [diff|] eqn:ED; [|discriminate HT]. simpl in HT.
    destruct (dc_mul_dec diff (ar_shares r)) as [acr|] eqn:EM; [|discriminate HT]. simpl in HT.
    destruct (dsel_sub d _ _ _ ED) as [D1 D2]. rewrite (dsel_add d _ _ _ ES) in D1.
    assert (G : dsel d diff = ins d w cur l u - dsel d (ar_snap r)) by (rewrite <- (HI d), (dsel_safe_sub d _ _ _ EI); lia).
    rewrite <- G. split; [exact D2|]. rewrite (dsel_add d _ _ _ HT), (dsel_mul_dec d _ _ _ EM). reflexivity. }
  unfold acc_update_position in H. destruct (delta =? 0); [discriminate H|].
  destruct (delta <? 0).
  - unfold acc_remove_from_position in H. rewrite G1 in H. simpl in H.
    destruct (negb (0 <? - delta)); [discriminate H|]. destruct (ar_shares r <? - delta); [discriminate H|].
    destruct (acc_total_rewards a1 _) as [un|] eqn:ET; [|discriminate H]. simpl in H.
    destruct (dchk (ar_shares r - - delta)) as [sh|] eqn:ESh; [|discriminate H]. simpl in H.
    match type of H with context [dchk (ac_total ?x - - delta)] => destruct (dchk (ac_total x - - delta)) as [tot|] eqn:ETo; [|discriminate H] end. inversion H; subst. simpl.
    apply dchk_some in ESh, ETo. subst sh tot. exists insv, un.
    unfold acc_get. simpl. rewrite rec_get_set, Z.eqb_refl.
    split; [f_equal; f_equal; lia|]. split; [exact HI|]. split; [exact (TR un eq_refl)|]. repeat split; try reflexivity. lia.
  - unfold acc_add_to_position in H. rewrite G1 in H. simpl in H.
    destruct (negb (0 <? delta)); [discriminate H|].
    destruct (acc_total_rewards a1 _) as [un|] eqn:ET; [|discriminate H]. simpl in H.
    destruct (dchk (ar_shares r + delta)) as [sh|] eqn:ESh; [|discriminate H]. simpl in H.
    match type of H with context [dchk (ac_total ?x + delta)] => destruct (dchk (ac_total x + delta)) as [tot|] eqn:ETo; [|discriminate H] end. inversion H; subst. simpl.
    apply dchk_some in ESh, ETo. subst sh tot. exists insv, un.
    unfold acc_get. simpl. rewrite rec_get_set, Z.eqb_refl.
    split; [reflexivity|]. split; [exact HI|]. split; [exact (TR un eq_refl)|]. repeat split; reflexivity.
Qed.

(* ---------- prepareClaimableSpreadRewards ---------- *)
Lemma unscale_le : forall sc t, 0 < sc -> 0 <= t -> 0 <= unscale sc t /\ unscale sc t * sc <= t * P18.
Proof.
  intros sc t Hsc Ht. unfold unscale, d_truncate_int, d_quo_truncate, d_from_int. pose proof P18_pos as HP.
  assert (N : 0 <= t * P18 * P18) by nia.
  destruct (quot_bounds (t * P18 * P18) sc N Hsc) as [A _]. set (q := Z.quot (t * P18 * P18) sc) in *.
  assert (Q0 : 0 <= q) by (apply Z.quot_pos; lia).
  destruct (quot_bounds q P18 Q0 HP) as [B _]. set (cc := Z.quot q P18) in *.
  assert (C0 : 0 <= cc) by (apply Z.quot_pos; lia). split; [exact C0|].
  assert (P18 * (cc * sc) <= P18 * (t * P18)) by nia. nia.
Qed.

Lemma update_accum_and_claim_total : forall a id out a' c d, update_accum_and_claim a id out = Some (a', c, d) -> ac_total a' = ac_total a.
Proof.
  unfold update_accum_and_claim, to_init_plus_outside, acc_set_position, acc_claim_rewards. intros a id out a' c d H.
  destruct (acc_get a id) as [r|]; [|discriminate H]. simpl in H.
  destruct (dc_add (ar_snap r) out) as [s1|]; [|discriminate H]. simpl in H.
  unfold acc_get, acc_with_recs in H. simpl in H. rewrite rec_get_set, Z.eqb_refl in H. simpl in H.
  destruct (acc_total_rewards _ _) as [tot|]; [|discriminate H]. simpl in H.
  destruct (dc_truncate_decimal tot) as [[cs ds]|]; [|discriminate H]. simpl in H.
  match type of H with (if ?b then _ else _) = _ => destruct b end.
  - destruct (dc_safe_sub _ out); [|discriminate H]. simpl in H.
    destruct (rec_get _ id); [|discriminate H]. simpl in H. inversion H; subst. reflexivity.
  - inversion H; subst. reflexivity.
Qed.

Lemma prepare_claimable_spread_full : forall w sc cur l u id w' c r,
  prepare_claimable_spread w sc cur l u id = Some (w', c) -> acc_get (rw_spread w) id = Some r ->
  0 <= ac_total (rw_spread w) -> 0 < sc ->
  (ar_shares r <> 0 -> exists insv, (forall d, dsel d insv = ins d w cur l u) /\
     acc_get (rw_spread w') id = Some (mkARec (ar_shares r) insv dc0)) /\
  same_other (rw_spread w) (rw_spread w') id /\ rw_tt w' = rw_tt w /\ ac_total (rw_spread w') = ac_total (rw_spread w) /\
  forall d, let g := ins d w cur l u - dsel d (ar_snap r) in
    let tot := dsel d (ar_unclaimed r) + d_mul g (ar_shares r) in
    0 <= g /\ 0 <= pr_sel d c /\ pr_sel d c * sc <= d_truncate_int tot * P18 /\
    exists per, dsel d (ac_value (rw_spread w')) = dsel d (ac_value (rw_spread w)) + per /\ 0 <= per /\
      per * ac_total (rw_spread w) <= (tot - d_truncate_int tot * P18) * P18 /\ 0 <= tot - d_truncate_int tot * P18.
Proof.
  intros w sc cur l u id w' c r H R HT Hsc.
  pose proof (prepare_claimable_spread_other _ _ _ _ _ _ _ _ H) as SO.
  pose proof (prepare_claimable_spread_tt _ _ _ _ _ _ _ _ H) as TT.
  split.
  { intro NZ. destruct (prepare_claimable_spread_rec _ _ _ _ _ _ _ _ _ H R NZ) as [insv [RA [HI _]]]. exists insv. split; [exact HI|exact RA]. }
  split; [exact SO|]. split; [exact TT|].
  unfold prepare_claimable_spread in H.
  destruct (negb (acc_has (rw_spread w) id)); [discriminate H|].
  destruct (spread_growth_outside w cur l u) as [out|] eqn:EO; [|discriminate H]. simpl in H.
  destruct (update_accum_and_claim (rw_spread w) id out) as [[[a1 cs] dust]|] eqn:EU; [|discriminate H]. simpl in H.
  pose proof (update_accum_and_claim_value _ _ _ _ _ _ EU) as V1.
  pose proof (update_accum_and_claim_total _ _ _ _ _ _ EU) as T1.
  (* inside updateAccumAndClaimRewards: coins and dust *)
  assert (U : forall d, let g := ins d w cur l u - dsel d (ar_snap r) in
                let tot := dsel d (ar_unclaimed r) + d_mul g (ar_shares r) in
                0 <= g /\ pr_sel d cs = d_truncate_int tot /\ dsel d dust = tot - d_truncate_int tot * P18 /\ 0 <= pr_sel d cs /\ 0 <= dsel d dust).
  { clear H SO TT. unfold update_accum_and_claim, to_init_plus_outside, acc_claim_rewards, acc_total_rewards, acc_set_position in EU.
    rewrite R in EU. simpl in EU.
    destruct (dc_add (ar_snap r) out) as [snap'|] eqn:ES; [|discriminate EU]. simpl in EU.
    unfold acc_get, acc_with_recs in EU. simpl in EU. rewrite rec_get_set, Z.eqb_refl in EU. simpl in EU.
    destruct (dc_sub (ac_value (rw_spread w)) snap') as [diff|] eqn:ED; [|discriminate EU]. simpl in EU.
    destruct (dc_mul_dec diff (ar_shares r)) as [acr|] eqn:EM; [|discriminate EU]. simpl in EU.
    destruct (dc_add (ar_unclaimed r) acr) as [tot|] eqn:ET; [|discriminate EU]. simpl in EU.
    destruct (dc_truncate_decimal tot) as [[cs' ds]|] eqn:ETr; [|discriminate EU]. simpl in EU.
    assert (EQ : cs = cs' /\ dust = ds).
    { match type of EU with (if ?b then _ else _) = _ => destruct b end.
      - destruct (dc_safe_sub _ out); [|discriminate EU]. simpl in EU.
        destruct (rec_get _ id); [|discriminate EU]. simpl in EU. inversion EU; subst. auto.
      - inversion EU; subst. auto. }
    destruct EQ as [-> ->]. intro d. cbv zeta.
    destruct (dsel_sub d _ _ _ ED) as [D1 D2]. rewrite (dsel_add d _ _ _ ES) in D1.
    assert (G : dsel d diff = ins d w cur l u - dsel d (ar_snap r)).
    { rewrite D1. unfold ins, a_inside. rewrite (spread_growth_outside_view d _ _ _ _ _ EO). simpl. rewrite dsel_dc0. lia. }
    rewrite <- G. split; [exact D2|].
    destruct (sel_truncate_decimal d _ _ _ ETr) as [T1' [T2 T3]].
    rewrite (dsel_add d _ _ _ ET), (dsel_mul_dec d _ _ _ EM) in T1', T2.
    split; [exact T1'|]. split; [rewrite T2, T1'; unfold d_from_int; reflexivity|]. split; [exact T3|].
    unfold dc_truncate_decimal in ETr. obind ETr. inversion ETr; subst. destruct p as [t0 c0]. destruct p0 as [t1 c1].
    apply trunc1_some in E, E0. destruct d; simpl; tauto. }
  (* scaling down and the dust re-deposit *)
  match type of H with (do cd <- ?X; _) = _ => destruct X as [[claimed dust']|] eqn:ECD; [|discriminate H] end. simpl in H.
  match type of H with (do a2 <- ?X; _) = _ => destruct X as [a2|] eqn:EA; [|discriminate H] end. inversion H; subst w' c. simpl. clear H.
  assert (CD : (sc = P18 /\ claimed = cs /\ dust' = dust) \/ (sc <> P18 /\ scale_down2 cs sc = Some claimed /\ dust' = dc0)).
  { destruct (sc =? P18) eqn:ESc.
    - apply Z.eqb_eq in ESc. inversion ECD; subst. left. auto.
    - apply Z.eqb_neq in ESc. destruct (scale_down2 cs sc) as [cl|] eqn:E2; [|discriminate ECD]. inversion ECD; subst. right. auto. }
  assert (TOT : ac_total a2 = ac_total (rw_spread w)).
  { destruct (negb (dc_is_zero dust') && negb (ac_total a1 =? 0)); [|inversion EA; subst; exact T1].
    destruct (dc_quo_dec_truncate dust' (ac_total a1)); [|discriminate EA]. simpl in EA.
    destruct (acc_add_to_recs _ _ _ EA) as [_ RT]. rewrite RT. exact T1. }
  split; [exact TOT|].
  intro d. cbv zeta. destruct (U d) as [G0 [C1 [D1 [C0 D0]]]]. cbv zeta in G0, C1, D1.
  set (g := ins d w cur l u - dsel d (ar_snap r)) in *. set (tot := dsel d (ar_unclaimed r) + d_mul g (ar_shares r)) in *.
  split; [exact G0|].
  assert (CL : 0 <= pr_sel d claimed /\ pr_sel d claimed * sc <= d_truncate_int tot * P18).
  { destruct CD as [[S1 [S2 _]]|[_ [S2 _]]].
    - subst sc claimed. rewrite C1 in *. split; [exact C0|lia].
    - rewrite (scale_down2_sel d _ _ _ S2), C1. apply unscale_le; [exact Hsc|rewrite <- C1; exact C0]. }
  destruct CL as [CL0 CL1]. split; [exact CL0|]. split; [exact CL1|].
  rewrite <- D1.
  destruct (negb (dc_is_zero dust') && negb (ac_total a1 =? 0)) eqn:EDZ.
  - destruct (dc_quo_dec_truncate dust' (ac_total a1)) as [per|] eqn:EP; [|discriminate EA]. simpl in EA.
    unfold acc_add_to in EA. destruct (dc_add (ac_value a1) per) as [v|] eqn:EV; [|discriminate EA]. inversion EA; subst a2. simpl.
    exists (dsel d per). rewrite (dsel_add d _ _ _ EV), V1. split; [reflexivity|].
    apply andb_true_iff in EDZ. destruct EDZ as [_ NZT]. apply negb_true_iff, Z.eqb_neq in NZT. rewrite T1 in NZT, EP.
    assert (TP : 0 < ac_total (rw_spread w)) by lia.
    assert (DD : 0 <= dsel d dust' /\ dsel d dust' <= dsel d dust).
    { destruct CD as [[_ [_ S3]]|[_ [_ S3]]]; subst dust'; [lia|]. rewrite dsel_dc0. lia. }
    unfold dc_quo_dec_truncate in EP. obind EP. inversion EP; subst per. apply dchk_some in E0, E1. subst z z0.
    assert (PQ : dsel d (d_quo_truncate (fst dust') (ac_total (rw_spread w)), d_quo_truncate (snd dust') (ac_total (rw_spread w)))
                 = d_quo_truncate (dsel d dust') (ac_total (rw_spread w))) by (destruct d; reflexivity).
    rewrite PQ. unfold d_quo_truncate. pose proof P18_pos as HP.
    assert (N : 0 <= dsel d dust' * P18) by nia.
    destruct (quot_bounds _ _ N TP) as [QB _]. split; [apply Z.quot_pos; lia|]. split; [|exact D0]. nia.
  - inversion EA; subst a2. exists 0. rewrite V1. split; [lia|]. split; [lia|]. split; [|exact D0]. pose proof P18_pos. nia.
Qed.

(* ---------- growth inside through a static evolution that keeps l and u ---------- *)
Lemma SE_inside_gen : forall k cur T w w' l u, SE k cur T w w' -> l < u -> tks w l u -> ~ In l T -> ~ In u T ->
  a_inside (view k w' cur dc0) l u
    = a_inside (view k w cur dc0) l u + (if in_rng l u cur then sel_G k w' - sel_G k w else 0) /\ tks w' l u.
Proof.
  intros k cur T w w' l u [evs [A [B [C D]]]] Hlu [St [Kl Ku]] Tl Tu.
  assert (St' : tm_sorted (a_O (view k w cur dc0))) by (simpl; eapply vmap_sorted_any; exact St).
  assert (Kl' : keys (view k w cur dc0) l) by (apply keys_view; exact Kl).
  assert (Ku' : keys (view k w cur dc0) u) by (apply keys_view; exact Ku).
  split.
  - rewrite A, (static_inside evs _ l u Hlu St' Kl' Ku' B C (D l Tl) (D u Tu)). rewrite <- A. unfold in_rng. simpl.
    destruct ((l <=? cur) && (cur <? u)); lia.
  - split; [|split].
    + apply (vmap_sorted_any k). change (vmap k (rw_tt w')) with (a_O (view k w' cur dc0)). rewrite A. apply a_run_sorted. exact St'.
    + apply (keys_view k w' cur l). rewrite A. apply a_run_keys; [exact St'|exact Kl'|apply D; exact Tl].
    + apply (keys_view k w' cur u). rewrite A. apply a_run_keys; [exact St'|exact Ku'|apply D; exact Tu].
Qed.

(* the ticks of all listed positions are tracked *)
Definition PT (w : rwd) (P : list position) : Prop :=
  forall p, In p P -> ps_lower p < ps_upper p /\ tks w (ps_lower p) (ps_upper p).

(* a stage that does not touch the spread accumulator and keeps the ticks of the listed positions *)
Lemma stage_neutral : forall cur T w w' P, (forall d, SE (CS d) cur T w w') -> rw_spread w' = rw_spread w -> PT w P ->
  (forall p, In p P -> ~ In (ps_lower p) T /\ ~ In (ps_upper p) T) ->
  (forall d, zsum (owed d w' cur) P = zsum (owed d w cur) P) /\ PT w' P /\ (forall p, shares_of w' p = shares_of w p).
Proof.
  intros cur T w w' P HSE SP HPT HT. split; [|split].
  - intro d. apply zsum_ext. intros p Hp. destruct (HPT p Hp) as [Hlu TK]. destruct (HT p Hp) as [Tl Tu].
    destruct (SE_inside_gen (CS d) cur T w w' _ _ (HSE d) Hlu TK Tl Tu) as [I _].
    rewrite (owed_frame d w w' cur p 0); [lia|rewrite SP; reflexivity|].
    unfold ins. rewrite I. simpl. rewrite SP. destruct (in_rng _ _ _); lia.
  - intros p Hp. destruct (HPT p Hp) as [Hlu TK]. destruct (HT p Hp) as [Tl Tu]. split; [exact Hlu|].
    apply (SE_inside_gen (CS false) cur T w w' _ _ (HSE false) Hlu TK Tl Tu).
  - intro p. unfold shares_of. rewrite SP. reflexivity.
Qed.

Lemma in_rng_le : forall l u c x, 0 <= x -> (if in_rng l u c then x else 0) <= x.
Proof. intros. destruct (in_rng l u c); lia. Qed.

(* ---------- the claim stage ---------- *)
Lemma stage_claim : forall w sc cur id l u w' c r O,
  prepare_claimable_spread w sc cur l u id = Some (w', c) -> acc_get (rw_spread w) id = Some r -> 0 <= ar_shares r ->
  l < u -> tks w l u -> (forall p, In p O -> ps_id p <> id) -> PT w O -> (forall p, In p O -> 0 <= shares_of w p) ->
  0 <= zsum (shares_of w) O + ar_shares r <= ac_total (rw_spread w) -> 0 < sc ->
  (forall d, exists oq, (forall r', acc_get (rw_spread w') id = Some r' -> ar_shares r <> 0 -> owedr d w' cur l u r' = oq) /\ 0 <= oq /\
     2 * (zsum (owed d w' cur) O + oq) + 2 * (pr_sel d c * sc * P18)
       <= 2 * (zsum (owed d w cur) O + owedr d w cur l u r) + P18 /\ 0 <= pr_sel d c) /\
  PT w' O /\ tks w' l u /\ (forall p, In p O -> shares_of w' p = shares_of w p) /\
  ac_total (rw_spread w') = ac_total (rw_spread w) /\
  (ar_shares r <> 0 -> exists r', acc_get (rw_spread w') id = Some r' /\ ar_shares r' = ar_shares r) /\
  same_other (rw_spread w) (rw_spread w') id.
Proof.
  intros w sc cur id l u w' c r O H R HS Hlu TK HO HPT HSH [HT0 HT] Hsc.
  assert (HT' : 0 <= ac_total (rw_spread w)) by lia.
  destruct (prepare_claimable_spread_full _ _ _ _ _ _ _ _ _ H R HT' Hsc) as [REC [SO [TT [TOT HD]]]].
  assert (SEd : forall d, SE (CS d) cur [] w w') by (intro d; apply SE_same_tt; exact TT).
  assert (SHO : forall p, In p O -> shares_of w' p = shares_of w p).
  { intros p Hp. unfold shares_of. rewrite (SO (ps_id p) (HO p Hp)). reflexivity. }
  split.
  - intro d. destruct (HD d) as [G0 [C0 [CSc [per [GV [P0 [PT' D0]]]]]]]. cbv zeta in *.
    set (g := ins d w cur l u - dsel d (ar_snap r)) in *. set (tot := dsel d (ar_unclaimed r) + d_mul g (ar_shares r)) in *.
    set (tr := d_truncate_int tot) in *.
    assert (GG : sel_G (CS d) w' - sel_G (CS d) w = per) by (simpl; lia).
    (* the others *)
    assert (OTH : zsum (owed d w' cur) O <= zsum (owed d w cur) O + per * zsum (shares_of w) O).
    { rewrite <- zsum_scale, <- zsum_plus. apply zsum_le. intros p Hp. destruct (HPT p Hp) as [Hlu' TK'].
      destruct (SE_inside_gen (CS d) cur [] w w' _ _ (SEd d) Hlu' TK' ltac:(simpl; tauto) ltac:(simpl; tauto)) as [I _].
      rewrite (owed_frame d w w' cur p (if in_rng (ps_lower p) (ps_upper p) cur then per else 0));
        [|apply SO; apply HO; exact Hp|unfold ins; rewrite I, GG; reflexivity].
      pose proof (HSH p Hp). pose proof (in_rng_le (ps_lower p) (ps_upper p) cur per P0). nia. }
    (* the position itself *)
    destruct (SE_inside_gen (CS d) cur [] w w' l u (SEd d) Hlu TK ltac:(simpl; tauto) ltac:(simpl; tauto)) as [Iq _]. rewrite GG in Iq.
    exists ((if in_rng l u cur then per else 0) * ar_shares r). split; [|split].
    + intros r' R' NZ. destruct (REC NZ) as [insv [HI RA]]. rewrite RA in R'. inversion R'; subst r'. unfold owedr. simpl.
      rewrite dsel_dc0, (HI d). unfold ins. rewrite Iq. fold (ins d w cur l u). lia.
    + pose proof (in_rng_le l u cur per P0). destruct (in_rng l u cur); nia.
    + split; [|exact C0].
      pose proof (in_rng_le l u cur per P0) as LQ.
      assert (Q1 : (if in_rng l u cur then per else 0) * ar_shares r <= per * ar_shares r) by nia.
      pose proof (d_mul_bounds g (ar_shares r) G0 HS) as MB.
      assert (OW : owedr d w cur l u r = dsel d (ar_unclaimed r) * P18 + g * ar_shares r) by reflexivity.
      assert (TR : tot = tr * P18 + (tot - tr * P18)) by lia.
      assert (PS : per * (zsum (shares_of w) O + ar_shares r) <= per * ac_total (rw_spread w)) by nia.
      pose proof P18_pos as HP.
      assert (CS' : pr_sel d c * sc * P18 <= tr * P18 * P18) by nia.
      set (un := dsel d (ar_unclaimed r)) in *. set (m := d_mul g (ar_shares r)) in *. set (gs := g * ar_shares r) in *.
      set (so := zsum (shares_of w) O) in *. set (dust := tot - tr * P18) in *.
      assert (TP : tot * P18 = tr * P18 * P18 + dust * P18) by (unfold dust; ring).
      assert (TU : tot = un + m) by reflexivity.
      clearbody gs m un so dust tr. clear TR. rewrite OW.
      assert (2 * (tot * P18) <= 2 * (un * P18 + gs) + P18) by (rewrite TU; lia).
      nia.
  - split; [|split; [|split; [exact SHO|split; [exact TOT|split; [|exact SO]]]]].
    + intros p Hp. destruct (HPT p Hp) as [Hlu' TK']. split; [exact Hlu'|].
      apply (SE_inside_gen (CS false) cur [] w w' _ _ (SEd false) Hlu' TK'); simpl; tauto.
    + apply (SE_inside_gen (CS false) cur [] w w' l u (SEd false) Hlu TK); simpl; tauto.
    + intro NZ. destruct (REC NZ) as [insv [_ RA]]. eexists. split; [exact RA|reflexivity].
Qed.

(* ---------- the share-change stage ---------- *)
Lemma stage_update : forall w cur id l u delta w' r O,
  init_or_update_spread w cur l u id delta = Some w' -> acc_get (rw_spread w) id = Some r -> 0 <= ar_shares r ->
  l < u -> tks w l u -> (forall p, In p O -> ps_id p <> id) -> PT w O ->
  exists r', acc_get (rw_spread w') id = Some r' /\ ar_shares r' = ar_shares r + delta /\
  (forall d, zsum (owed d w' cur) O = zsum (owed d w cur) O /\
             2 * owedr d w' cur l u r' <= 2 * owedr d w cur l u r + P18 /\ owedr d w' cur l u r' = dsel d (ar_unclaimed r') * P18) /\
  PT w' O /\ tks w' l u /\ (forall p, In p O -> shares_of w' p = shares_of w p) /\
  ac_total (rw_spread w') = ac_total (rw_spread w) + delta /\ same_other (rw_spread w) (rw_spread w') id.
Proof.
  intros w cur id l u delta w' r O H R HS Hlu TK HO HPT.
  pose proof (init_or_update_spread_other _ _ _ _ _ _ _ H) as SO.
  destruct (init_or_update_spread_gen _ _ _ _ _ _ _ _ H R) as [insv [un [RA [HI [HU [TT [VV TOT]]]]]]].
  assert (VS : forall d, view (CS d) w' cur dc0 = view (CS d) w cur dc0).
  { intro d. apply view_same; [exact TT|]. simpl. rewrite VV. reflexivity. }
  assert (IS : forall d l' u', ins d w' cur l' u' = ins d w cur l' u') by (intros; unfold ins; rewrite VS; reflexivity).
  exists (mkARec (ar_shares r + delta) insv un). split; [exact RA|]. split; [reflexivity|]. split.
  - intro d. split; [|split].
    + apply zsum_ext. intros p Hp. rewrite (owed_frame d w w' cur p 0); [lia|apply SO; apply HO; exact Hp|rewrite IS; lia].
    + unfold owedr. cbn [ar_shares ar_snap ar_unclaimed]. rewrite IS, (HI d). destruct (HU d) as [G0 UN]. rewrite UN.
      pose proof (d_mul_bounds _ _ G0 HS) as MB. rewrite Z.sub_diag, Z.mul_0_l.
      set (g := ins d w cur l u - dsel d (ar_snap r)) in *. set (m := d_mul g (ar_shares r)) in *. set (gs := g * ar_shares r) in *.
      clearbody gs m. lia.
    + unfold owedr. cbn [ar_shares ar_snap ar_unclaimed]. rewrite IS, (HI d). lia.
  - assert (TKS : forall l' u', tks w l' u' -> tks w' l' u') by (intros l' u' [A [B C]]; unfold tks; rewrite TT; auto).
    split; [intros p Hp; destruct (HPT p Hp) as [A B]; split; [exact A|apply TKS; exact B]|].
    split; [apply TKS; exact TK|]. split; [|split; [exact TOT|exact SO]].
    intros p Hp. unfold shares_of. rewrite (SO (ps_id p) (HO p Hp)). reflexivity.
Qed.

Lemma stage_new : forall w cur id l u delta w' O,
  init_or_update_spread w cur l u id delta = Some w' -> acc_get (rw_spread w) id = None ->
  (forall p, In p O -> ps_id p <> id) -> PT w O -> tks w l u ->
  exists r', acc_get (rw_spread w') id = Some r' /\ ar_shares r' = delta /\ 0 < delta /\
  (forall d, zsum (owed d w' cur) O = zsum (owed d w cur) O /\ owedr d w' cur l u r' = 0) /\
  PT w' O /\ tks w' l u /\ (forall p, In p O -> shares_of w' p = shares_of w p) /\
  ac_total (rw_spread w') = ac_total (rw_spread w) + delta /\ same_other (rw_spread w) (rw_spread w') id.
Proof.
  intros w cur id l u delta w' O H R HO HPT TK.
  pose proof (init_or_update_spread_other _ _ _ _ _ _ _ H) as SO.
  destruct (init_or_update_spread_new _ _ _ _ _ _ _ H R) as [insv [RA [HI [TT [VV [TOT DP]]]]]].
  assert (VS : forall d, view (CS d) w' cur dc0 = view (CS d) w cur dc0).
  { intro d. apply view_same; [exact TT|]. simpl. rewrite VV. reflexivity. }
  assert (IS : forall d l' u', ins d w' cur l' u' = ins d w cur l' u') by (intros; unfold ins; rewrite VS; reflexivity).
  exists (mkARec delta insv dc0). split; [exact RA|]. split; [reflexivity|]. split; [exact DP|]. split.
  - intro d. split.
    + apply zsum_ext. intros p Hp. rewrite (owed_frame d w w' cur p 0); [lia|apply SO; apply HO; exact Hp|rewrite IS; lia].
    + unfold owedr. cbn [ar_shares ar_snap ar_unclaimed]. rewrite IS, (HI d), dsel_dc0. lia.
  - assert (TKS : forall l' u', tks w l' u' -> tks w' l' u') by (intros l' u' [A [B C]]; unfold tks; rewrite TT; auto).
    split; [intros p Hp; destruct (HPT p Hp) as [A B]; split; [exact A|apply TKS; exact B]|].
    split; [apply TKS; exact TK|]. split; [|split; [exact TOT|exact SO]].
    intros p Hp. unfold shares_of. rewrite (SO (ps_id p) (HO p Hp)). reflexivity.
Qed.
