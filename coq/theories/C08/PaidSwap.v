(* C08 / C01: the spread-reward account covers what the positions can claim.  Part 3: swaps.  The growth of a swap's fee
   accrues to the positions in range at each step; summed over the positions with their liquidity this is, per step,
   (growth per unit) x (active liquidity) <= fee x scaling factor (QuoTruncate), and the spread-reward account receives
   ceil(total fee). *)
From Coq Require Import ZArith List Bool Lia.
Import ListNotations.
From Osmo Require Import Base.DecModel CL.TickMath CL.CLMath CL.CLPool CL.CLSwap CL.CLStep
  CLR.Accum CLR.Rewards CLR.RSwap CLR.RStep C07.Base C07.TickLemmas C07.LP C07.SwapDir C07.Swap C07.Proofs C03.Rounding C03.Steps
  C08.Proj C08.Telescope C08.View C08.Static C08.Stages C08.Ops C08.OpInside C08.SwapTrace C08.Crux
  C08.Claim C08.Conseq C08.Frame C08.Never C08.SwapWf C08.Dom C08.StaticOk C08.Paid C08.PaidOps.
Open Scope Z_scope.

(* growth that accrues to the range [l, u) along the events of a swap (token-in denomination) *)
Fixpoint sgrowth (zfo : bool) (c : Z) (evs : list sev) (l u : Z) : Z :=
  match evs with
  | [] => 0
  | EvGrow g :: r => (if in_rng l u c then g else 0) + sgrowth zfo c r l u
  | EvCross i :: r => sgrowth zfo (if zfo then i - 1 else i) r l u
  | EvMove t :: r => sgrowth zfo t r l u
  end.
(* the same, weighted by the liquidity in range at each step *)
Fixpoint evalue (P : list position) (zfo : bool) (c : Z) (evs : list sev) : Z :=
  match evs with
  | [] => 0
  | EvGrow g :: r => g * sum_liq (f_range c) P + evalue P zfo c r
  | EvCross i :: r => evalue P zfo (if zfo then i - 1 else i) r
  | EvMove t :: r => evalue P zfo t r
  end.

Lemma evalue_app : forall P zfo e1 e2 c, evalue P zfo c (e1 ++ e2) = evalue P zfo c e1 + evalue P zfo (run_tick zfo c e1) e2.
Proof.
  induction e1 as [|e r IH]; intros e2 c; simpl; [lia|]. destruct e as [g|i|t]; rewrite IH; lia.
Qed.

Lemma sum_liq_zsum : forall c P, sum_liq (f_range c) P = zsum (fun p => if in_rng (ps_lower p) (ps_upper p) c then ps_liq p else 0) P.
Proof. induction P as [|p P IH]; simpl; [reflexivity|]. rewrite IH. unfold wt, f_range, in_rng. reflexivity. Qed.

Lemma zsum_sgrowth : forall P zfo evs c,
  zsum (fun p => ps_liq p * sgrowth zfo c evs (ps_lower p) (ps_upper p)) P = evalue P zfo c evs.
Proof.
  induction evs as [|e r IH]; intro c; simpl.
  - induction P; simpl; lia.
  - destruct e as [g|i|t]; [|apply IH|apply IH].
    rewrite <- IH, sum_liq_zsum, <- zsum_scale, <- zsum_plus. apply zsum_ext. intros p _. destruct (in_rng _ _ _); lia.
Qed.

(* the abstract trace of the spread component of denomination d grows inside [l, u) by sgrowth (token in) or nothing *)
Lemma strace_growth_CS : forall d zfo evs din w pl now pending w' p' c l u,
  apply_events w din pl now pending evs = Some (w', p') ->
  in_range_growth (view (CS d) w c (dc_one din pending)) (strace (CS d) zfo din w pl now pending evs) l u
    = if Bool.eqb d (negb (din =? 0)) then sgrowth zfo c evs l u else 0.
Proof.
  induction evs as [|e r IH]; intros din w pl now pending w' p' c l u H; [simpl; destruct (Bool.eqb _ _); reflexivity|].
  destruct e as [g|i|t]; cbn [strace sgrowth] in *; simpl in H.
  - destruct (dchk (pending + g)) as [p|] eqn:E; [|discriminate H]. apply dchk_some in E. subst p.
    cbn [in_range_growth grow_inside]. rewrite <- view_pend_grow. rewrite (IH _ _ _ _ _ _ _ c l u H).
    simpl. rewrite dsel_one. unfold in_rng. destruct (Bool.eqb d (negb (din =? 0))); destruct ((l <=? c) && (c <? u)); lia.
  - destruct (update_uptime w pl now) as [w1|] eqn:E1; [|discriminate H].
    destruct (cross_trackers w1 din pending i) as [w2|] eqn:E2; [|discriminate H].
    destruct (update_uptime_tt _ _ _ _ E1) as [T [SPR _]].
    assert (V1 : a_step (view (CS d) w c (dc_one din pending)) (AGrow (sel_G (CS d) w1 - sel_G (CS d) w)) = view (CS d) w1 c (dc_one din pending)).
    { unfold view. simpl. rewrite T. f_equal. lia. }
    cbn [in_range_growth]. rewrite V1. cbn [grow_inside].
    rewrite <- (cross_trackers_view (CS d) _ _ _ _ _ c (if zfo then i - 1 else i) E2).
    rewrite (IH _ _ _ _ _ _ _ _ l u H).
    assert (G0 : sel_G (CS d) w1 - sel_G (CS d) w = 0) by (simpl; rewrite SPR; lia). rewrite G0.
    simpl. destruct ((l <=? c) && (c <? u)); lia.
  - cbn [in_range_growth grow_inside].
    assert (A : a_step (view (CS d) w c (dc_one din pending)) (AMove t) = view (CS d) w t (dc_one din pending)) by reflexivity.
    rewrite A, (IH _ _ _ _ _ _ _ _ l u H). reflexivity.
Qed.
