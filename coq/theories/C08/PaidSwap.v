(* C08 / C01: the spread-reward account covers what the positions can claim.  Part 3: swaps.  The growth of a swap's fee
   accrues to the positions in range at each step; summed over the positions with their liquidity this is, per step,
   (growth per unit) x (active liquidity) <= fee x scaling factor (QuoTruncate), and the spread-reward account receives
   ceil(total fee). *)
From Coq Require Import ZArith List Bool Lia.
Import ListNotations.
From Osmo Require Import Base.DecModel CL.TickMath CL.CLMath CL.CLPool CL.CLSwap CL.CLStep
  CLR.Accum CLR.Rewards CLR.RSwap CLR.RStep C07.Base C07.TickLemmas C07.LP C07.SwapDir C07.Swap C07.Proofs C03.Rounding C03.Steps C03.Path
  C08.Proj C08.Telescope C08.View C08.Static C08.Stages C08.Ops C08.OpInside C08.SwapTrace C08.Crux
  C08.Claim C08.Conseq C08.Frame C08.Never C08.SwapWf C08.Dom C08.StaticOk C08.Paid C08.PaidOps.
Open Scope Z_scope.

(* growth that accrues to the range [l, u) along the events of a swap (token-in denomination) *)
Fixpoint sgrowth (zfo : bool) (c : Z) (evs : list sev) (l u : Z) : Z :=
  match evs with
  | [] => 0
  | EvGrow g :: r => (if in_rng l u c then g else 0) + sgrowth zfo c r l u
  | EvCross i :: r => sgrowth zfo (if zfo then i - 1 else i) r l u
  | EvMove t :: r => sgrowth zfo t r l u
  end.
(* the same, weighted by the liquidity in range at each step *)
Fixpoint evalue (P : list position) (zfo : bool) (c : Z) (evs : list sev) : Z :=
  match evs with
  | [] => 0
  | EvGrow g :: r => g * sum_liq (f_range c) P + evalue P zfo c r
  | EvCross i :: r => evalue P zfo (if zfo then i - 1 else i) r
  | EvMove t :: r => evalue P zfo t r
  end.

Lemma evalue_app : forall P zfo e1 e2 c, evalue P zfo c (e1 ++ e2) = evalue P zfo c e1 + evalue P zfo (run_tick zfo c e1) e2.
Proof.
  induction e1 as [|e r IH]; intros e2 c; simpl; [lia|]. destruct e as [g|i|t]; rewrite IH; lia.
Qed.

Lemma sum_liq_zsum : forall c P, sum_liq (f_range c) P = zsum (fun p => if in_rng (ps_lower p) (ps_upper p) c then ps_liq p else 0) P.
Proof. induction P as [|p P IH]; simpl; [reflexivity|]. rewrite IH. unfold wt, f_range, in_rng. reflexivity. Qed.

Lemma zsum_sgrowth : forall P zfo evs c,
  zsum (fun p => ps_liq p * sgrowth zfo c evs (ps_lower p) (ps_upper p)) P = evalue P zfo c evs.
Proof.
  induction evs as [|e r IH]; intro c; simpl.
  - induction P; simpl; lia.
  - destruct e as [g|i|t]; [|apply IH|apply IH].
    rewrite <- IH, sum_liq_zsum, <- zsum_scale, <- zsum_plus. apply zsum_ext. intros p _. destruct (in_rng _ _ _); lia.
Qed.

(* the abstract trace of the spread component of denomination d grows inside [l, u) by sgrowth (token in) or nothing *)
Lemma strace_growth_CS : forall d zfo evs din w pl now pending w' p' c l u,
  apply_events w din pl now pending evs = Some (w', p') ->
  in_range_growth (view (CS d) w c (dc_one din pending)) (strace (CS d) zfo din w pl now pending evs) l u
    = if Bool.eqb d (negb (din =? 0)) then sgrowth zfo c evs l u else 0.
Proof.
  induction evs as [|e r IH]; intros din w pl now pending w' p' c l u H; [simpl; destruct (Bool.eqb _ _); reflexivity|].
  destruct e as [g|i|t]; cbn [strace sgrowth] in *; simpl in H.
  - destruct (dchk (pending + g)) as [p|] eqn:E; [|discriminate H]. apply dchk_some in E. subst p.
    cbn [in_range_growth grow_inside]. rewrite <- view_pend_grow. rewrite (IH _ _ _ _ _ _ _ c l u H).
    simpl. rewrite dsel_one. unfold in_rng. destruct (Bool.eqb d (negb (din =? 0))); destruct ((l <=? c) && (c <? u)); lia.
  - destruct (update_uptime w pl now) as [w1|] eqn:E1; [|discriminate H].
    destruct (cross_trackers w1 din pending i) as [w2|] eqn:E2; [|discriminate H].
    destruct (update_uptime_tt _ _ _ _ E1) as [T [SPR _]].
    assert (V1 : a_step (view (CS d) w c (dc_one din pending)) (AGrow (sel_G (CS d) w1 - sel_G (CS d) w)) = view (CS d) w1 c (dc_one din pending)).
    { unfold view. simpl. rewrite T. f_equal. lia. }
    cbn [in_range_growth]. rewrite V1. cbn [grow_inside].
    rewrite <- (cross_trackers_view (CS d) _ _ _ _ _ c (if zfo then i - 1 else i) E2).
    rewrite (IH _ _ _ _ _ _ _ _ l u H).
    assert (G0 : sel_G (CS d) w1 - sel_G (CS d) w = 0) by (simpl; rewrite SPR; lia). rewrite G0.
    simpl. destruct ((l <=? c) && (c <? u)); lia.
  - cbn [in_range_growth grow_inside].
    assert (A : a_step (view (CS d) w c (dc_one din pending)) (AMove t) = view (CS d) w t (dc_one din pending)) by reflexivity.
    rewrite A, (IH _ _ _ _ _ _ _ _ l u H). reflexivity.
Qed.

(* ---------- one step: growth per unit x active liquidity <= fee x scaling ---------- *)
Lemma update_fee_growth_value : forall sc st fee st1, update_fee_growth sc st fee = Some st1 -> 0 <= fee -> 0 < sc -> 0 <= ss_liq st ->
  0 <= ss_growth st1 - ss_growth st /\ (ss_growth st1 - ss_growth st) * ss_liq st <= fee * sc /\ ss_fee st1 = ss_fee st + fee.
Proof.
  unfold update_fee_growth. intros sc st fee st1 H Hf Hsc Hl. pose proof P18_pos as HP.
  assert (FS : 0 <= fee * sc) by nia.
  destruct (if sc =? P18 then Some fee else dchk (d_mul_truncate fee sc)) as [scaled|] eqn:ES; [|discriminate H]. cbv beta iota in H.
  assert (SB : 0 <= scaled /\ scaled * P18 <= fee * sc).
  { destruct (sc =? P18) eqn:E.
    - apply Z.eqb_eq in E. inversion ES; subst. split; [exact Hf|lia].
    - apply dchk_some in ES. subst scaled. unfold d_mul_truncate, chop_trunc.
      destruct (quot_bounds (fee * sc) P18 FS HP) as [A _]. split; [apply Z.quot_pos; lia|lia]. }
  destruct SB as [S0 S1].
  destruct (dchk (ss_fee st + fee)) as [tot|] eqn:ET; [|discriminate H]. cbv beta iota in H. apply dchk_some in ET. subst tot.
  destruct (ss_liq st =? 0) eqn:EL.
  - inversion H; subst. simpl. apply Z.eqb_eq in EL. rewrite EL. lia.
  - apply Z.eqb_neq in EL.
    destruct (dchk (d_quo_truncate scaled (ss_liq st))) as [per|] eqn:EP; [|discriminate H]. cbv beta iota in H. apply dchk_some in EP.
    destruct (dchk (ss_growth st + per)) as [g|] eqn:EG; [|discriminate H]. apply dchk_some in EG. inversion H; subst. simpl.
    unfold d_quo_truncate. assert (LP : 0 < ss_liq st) by lia. assert (N : 0 <= scaled * P18) by nia.
    destruct (quot_bounds (scaled * P18) (ss_liq st) N LP) as [A _].
    assert (Q0 : 0 <= Z.quot (scaled * P18) (ss_liq st)) by (apply Z.quot_pos; lia).
    replace (ss_growth st + Z.quot (scaled * P18) (ss_liq st) - ss_growth st) with (Z.quot (scaled * P18) (ss_liq st)) by lia.
    split; [exact Q0|]. split; [|reflexivity]. nia.
Qed.

Lemma step_events_value : forall s zfo sc st nt info rest nts computed dspec dcalc fee st' iter',
  LI s zfo st ((nt, info) :: rest) -> 0 <= ss_liq st -> 0 <= fee -> 0 < sc ->
  after_step zfo true sc st ((nt, info) :: rest) nt info nts computed dspec dcalc fee = Some (st', iter') ->
  evalue (s_pos s) zfo (ss_tick st) (step_events zfo true sc st nt nts computed fee) <= fee * sc /\
  0 <= evalue (s_pos s) zfo (ss_tick st) (step_events zfo true sc st nt nts computed fee) /\
  ss_fee st' = ss_fee st + fee.
Proof.
  intros s zfo sc st nt info rest nts computed dspec dcalc fee st' iter' [L1 _] Hl Hf Hsc H.
  unfold after_step in H. unfold step_events.
  destruct (update_fee_growth sc st fee) as [st1|] eqn:E1; [|discriminate H]. cbv beta iota in H.
  destruct (update_fee_growth_value _ _ _ _ E1 Hf Hsc Hl) as [G0 [GV F]].
  assert (TAIL : forall tl, (forall g, ~ In (EvGrow g) tl) -> forall c, evalue (s_pos s) zfo c tl = 0).
  { induction tl as [|e r IHr]; intros NG c; simpl; [reflexivity|]. destruct e as [g|i|t].
    - exfalso. apply (NG g). left. reflexivity.
    - apply IHr. intros g X. apply (NG g). right. exact X.
    - apply IHr. intros g X. apply (NG g). right. exact X. }
  assert (FEE : ss_fee st' = ss_fee st + fee).
  { destruct (dchk (ss_remaining st1 - dspec)) as [rem|]; [|discriminate H]. cbv beta iota in H.
    destruct (dchk (ss_calculated st1 + dcalc)) as [calc|]; [|discriminate H]. cbv beta iota in H.
    destruct (nts =? computed).
    - unfold cross_tick in H. simpl in H. destruct (dchk _); [|discriminate H]. inversion H; subst. simpl. exact F.
    - destruct (edge_case zfo nts computed); [discriminate H|]. destruct (negb (ss_sqrt st =? computed)).
      + destruct (calculate_sqrt_price_to_tick computed); [|discriminate H]. inversion H; subst. simpl. exact F.
      + inversion H; subst. simpl. exact F. }
  cbn [evalue]. rewrite TAIL.
  - rewrite <- L1. split; [lia|]. split; [nia|exact FEE].
  - intros g X. destruct (nts =? computed); [destruct X as [X|[]]; discriminate X|].
    destruct (edge_case zfo nts computed); [destruct X|]. destruct (negb (ss_sqrt st =? computed)); [|destruct X].
    destruct (calculate_sqrt_price_to_tick computed); [destruct X as [X|[]]; discriminate X|destruct X].
Qed.

(* ---------- the whole loop ---------- *)
Lemma eloop_out_value : forall s fuel zfo sc limit st iter noprog st' evs, Inv s -> 0 < sc ->
  sqrt_price_limit zfo = Some limit -> LI s zfo st iter ->
  eloop_out_given_in fuel zfo true (p_spread (s_pool s)) sc limit st iter noprog = (Some st', evs) ->
  0 <= evalue (s_pos s) zfo (ss_tick st) evs <= (ss_fee st' - ss_fee st) * sc.
Proof.
  intros s fuel. induction fuel as [|f IH]; intros zfo sc limit st iter noprog st' evs I Hsc HL L H; simpl in H; [discriminate H|].
  destruct ((smallest_dec <? ss_remaining st) && negb (ss_sqrt st =? limit)) eqn:Econd; [|inversion H; subst; simpl; lia].
  apply andb_true_iff in Econd. destruct Econd as [Erem _]. apply Z.ltb_lt in Erem. unfold smallest_dec in Erem.
  destruct iter as [|[nt info] rest]; [discriminate H|].
  destruct (tick_to_sqrt_price nt) as [nts|] eqn:Snt; [|discriminate H].
  destruct (LI_facts s zfo st nt info rest nts I L Snt) as [Fl [Fr Fz]].
  rewrite (sqrt_target_next zfo limit nt nts HL Fr Snt) in H.
  destruct (compute_out_given_in zfo (p_spread (s_pool s)) (ss_sqrt st) nts (ss_liq st) (ss_remaining st)) as [[[[computed ain] aout] fee]|] eqn:EC; [|discriminate H].
  destruct (negb (progress_ok computed (ss_sqrt st) ain aout)); [discriminate H|].
  destruct (dchk (ain + fee)) as [infee|]; [|discriminate H].
  destruct (after_step zfo true sc st ((nt, info) :: rest) nt info nts computed infee aout fee) as [[st1 iter1]|] eqn:EA; [|discriminate H].
  pose proof L as L0. destruct L0 as [_ [L2 _]].
  assert (Dir : computed = nts \/ computed = ss_sqrt st \/ dir_ok zfo (ss_sqrt st) computed).
  { destruct (compute_out_given_in_dir _ _ _ _ _ _ _ _ _ _ EC Fl L2 Erem (inv_spread s I) Fz) as [D|D]; [left; assumption|right; right; assumption]. }
  assert (L' : LI s zfo st1 iter1) by (eapply after_step_LI; try eassumption; reflexivity).
  destruct (after_step_sqrt_rem _ _ _ _ _ _ _ _ _ _ _ _ _ _ EA) as [Q1 _].
  assert (Cpos : 0 < computed) by (destruct L' as [_ [P _]]; rewrite Q1 in P; exact P).
  destruct (out_given_in_step _ _ _ _ _ _ _ _ _ _ EC Fl L2 Cpos Erem (inv_spread s I) Fz) as [_ [_ [F0 _]]].
  destruct (step_events_value _ _ _ _ _ _ _ _ _ _ _ _ _ _ L Fl F0 Hsc EA) as [V1 [V0 FE]].
  pose proof (after_step_tick _ _ _ _ _ _ _ _ _ _ _ _ _ _ EA) as T1.
  destruct (ain =? 0).
  - destruct (swap_no_progress_limit <=? noprog); [discriminate H|].
    destruct (eloop_out_given_in f zfo true (p_spread (s_pool s)) sc limit st1 iter1 (noprog + 1)) as [r1 evs1] eqn:EL. inversion H; subst.
    rewrite evalue_app, <- T1. pose proof (IH _ _ _ _ _ _ _ _ I Hsc HL L' EL). nia.
  - destruct (eloop_out_given_in f zfo true (p_spread (s_pool s)) sc limit st1 iter1 noprog) as [r1 evs1] eqn:EL. inversion H; subst.
    rewrite evalue_app, <- T1. pose proof (IH _ _ _ _ _ _ _ _ I Hsc HL L' EL). nia.
Qed.

Lemma eloop_in_value : forall s fuel zfo sc limit st iter noprog st' evs, Inv s -> 0 < sc ->
  sqrt_price_limit zfo = Some limit -> LI s zfo st iter -> 0 <= ss_remaining st ->
  eloop_in_given_out fuel zfo true (p_spread (s_pool s)) sc limit st iter noprog = (Some st', evs) ->
  0 <= evalue (s_pos s) zfo (ss_tick st) evs <= (ss_fee st' - ss_fee st) * sc.
Proof.
  intros s fuel. induction fuel as [|f IH]; intros zfo sc limit st iter noprog st' evs I Hsc HL L HR H; simpl in H; [discriminate H|].
  destruct ((smallest_dec <? ss_remaining st) && negb (ss_sqrt st =? limit)) eqn:Econd; [|inversion H; subst; simpl; lia].
  apply andb_true_iff in Econd. destruct Econd as [Erem _]. apply Z.ltb_lt in Erem. unfold smallest_dec in Erem.
  destruct iter as [|[nt info] rest]; [discriminate H|].
  destruct (tick_to_sqrt_price nt) as [nts|] eqn:Snt; [|discriminate H].
  destruct (LI_facts s zfo st nt info rest nts I L Snt) as [Fl [Fr Fz]].
  rewrite (sqrt_target_next zfo limit nt nts HL Fr Snt) in H.
  destruct (compute_in_given_out zfo (p_spread (s_pool s)) (ss_sqrt st) nts (ss_liq st) (ss_remaining st)) as [[[[computed aout] ain] fee]|] eqn:EC; [|discriminate H].
  destruct (negb (progress_ok computed (ss_sqrt st) ain aout)); [discriminate H|].
  destruct (dchk (ain + fee)) as [infee|]; [|discriminate H].
  destruct (after_step zfo true sc st ((nt, info) :: rest) nt info nts computed aout infee fee) as [[st1 iter1]|] eqn:EA; [|discriminate H].
  pose proof L as L0. destruct L0 as [_ [L2 _]].
  assert (Dir : computed = nts \/ computed = ss_sqrt st \/ dir_ok zfo (ss_sqrt st) computed).
  { destruct (compute_in_given_out_dir _ _ _ _ _ _ _ _ _ _ EC Fl L2 Erem) as [D|D]; [left; assumption|right; right; assumption]. }
  assert (L' : LI s zfo st1 iter1) by (eapply after_step_LI; try eassumption; reflexivity).
  destruct (after_step_sqrt_rem _ _ _ _ _ _ _ _ _ _ _ _ _ _ EA) as [Q1 [Q2 _]].
  assert (Cpos : 0 < computed) by (destruct L' as [_ [P _]]; rewrite Q1 in P; exact P).
  assert (SPF : 0 <= p_spread (s_pool s) < P18) by (pose proof (inv_spread s I); rewrite P18_val; lia).
  destruct (in_given_out_step _ _ _ _ _ _ _ _ _ _ EC Fl L2 Cpos HR SPF) as [_ [_ [F0 [AR _]]]].
  destruct (step_events_value _ _ _ _ _ _ _ _ _ _ _ _ _ _ L Fl F0 Hsc EA) as [V1 [V0 FE]].
  pose proof (after_step_tick _ _ _ _ _ _ _ _ _ _ _ _ _ _ EA) as T1.
  assert (HR1 : 0 <= ss_remaining st1) by lia.
  destruct (aout =? 0).
  - destruct (swap_no_progress_limit <=? noprog); [discriminate H|].
    destruct (eloop_in_given_out f zfo true (p_spread (s_pool s)) sc limit st1 iter1 (noprog + 1)) as [r1 evs1] eqn:EL. inversion H; subst.
    rewrite evalue_app, <- T1. pose proof (IH _ _ _ _ _ _ _ _ I Hsc HL L' HR1 EL). nia.
  - destruct (eloop_in_given_out f zfo true (p_spread (s_pool s)) sc limit st1 iter1 noprog) as [r1 evs1] eqn:EL. inversion H; subst.
    rewrite evalue_app, <- T1. pose proof (IH _ _ _ _ _ _ _ _ I Hsc HL L' HR1 EL). nia.
Qed.

(* ---------- whole swaps ---------- *)
Lemma swap_in_value : forall s zfo amt evs r, Inv s -> 0 < p_scaling (s_pool s) ->
  swap_events s true zfo amt = Some evs -> compute_out_amt_given_in s zfo true amt = Some r ->
  0 <= evalue (s_pos s) zfo (p_tick (s_pool s)) evs <= sr_fee r * p_scaling (s_pool s).
Proof.
  unfold swap_events, compute_out_amt_given_in. intros s zfo amt evs r I Hsc HE HC.
  destruct (swap_setup s zfo) as [[limit iter]|] eqn:ES; [|discriminate HE]. cbv beta iota in HE, HC.
  destruct (swap_setup_LI s zfo limit iter (d_from_int amt) I ES) as [HL [_ L]].
  destruct (eloop_out_given_in _ _ _ _ _ _ _ _ _) as [ro evs1] eqn:EL.
  pose proof (eloop_out_fst (swap_fuel (s_ticks s)) zfo true (p_spread (s_pool s)) (p_scaling (s_pool s)) limit
                (mkSS (d_from_int amt) 0 (p_sqrt (s_pool s)) (p_tick (s_pool s)) (p_liq (s_pool s)) 0 0) iter 0) as FST.
  rewrite EL in FST. simpl in FST. rewrite <- FST in HC.
  destruct ro as [st|]; [|discriminate HE]. inversion HE; subst evs1. cbv beta iota in HC.
  destruct (ss_remaining st <? 0); [discriminate HC|]. inversion HC; subst r. simpl.
  pose proof (eloop_out_value _ _ _ _ _ _ _ _ _ _ I Hsc HL L EL) as V. simpl in V. rewrite Z.sub_0_r in V. exact V.
Qed.

Lemma swap_out_value : forall s zfo amt evs r, Inv s -> 0 < p_scaling (s_pool s) -> 0 <= amt ->
  swap_events s false zfo amt = Some evs -> compute_in_amt_given_out s zfo true amt = Some r ->
  0 <= evalue (s_pos s) zfo (p_tick (s_pool s)) evs <= sr_fee r * p_scaling (s_pool s).
Proof.
  unfold swap_events, compute_in_amt_given_out. intros s zfo amt evs r I Hsc Ha HE HC.
  destruct (swap_setup s zfo) as [[limit iter]|] eqn:ES; [|discriminate HE]. cbv beta iota in HE, HC.
  destruct (swap_setup_LI s zfo limit iter (d_from_int amt) I ES) as [HL [_ L]].
  destruct (eloop_in_given_out _ _ _ _ _ _ _ _ _) as [ro evs1] eqn:EL.
  pose proof (eloop_in_fst (swap_fuel (s_ticks s)) zfo true (p_spread (s_pool s)) (p_scaling (s_pool s)) limit
                (mkSS (d_from_int amt) 0 (p_sqrt (s_pool s)) (p_tick (s_pool s)) (p_liq (s_pool s)) 0 0) iter 0) as FST.
  rewrite EL in FST. simpl in FST. rewrite <- FST in HC.
  destruct ro as [st|]; [|discriminate HE]. inversion HE; subst evs1. cbv beta iota in HC.
  destruct (ss_remaining st <? 0); [discriminate HC|]. inversion HC; subst r. simpl.
  assert (HR : 0 <= ss_remaining (mkSS (d_from_int amt) 0 (p_sqrt (s_pool s)) (p_tick (s_pool s)) (p_liq (s_pool s)) 0 0)).
  { simpl. unfold d_from_int. pose proof P18_pos. nia. }
  pose proof (eloop_in_value _ _ _ _ _ _ _ _ _ _ I Hsc HL L HR EL) as V. simpl in V. rewrite Z.sub_0_r in V. exact V.
Qed.
